(** Proofs about the concurrent view of the call-site arena (C10).

    Atomic level: every completing step of a thread is a linearization point -- under the invariant
    kept for threads between their two critical sections ([n <= |bucket|], nothing below [n] matches)
    the write-locked phase computes exactly what a whole sequential [alloc_metadata] would compute in
    the current arena.  Hence the arena reached by ANY schedule is the arena reached by the sequential
    allocation of the descriptions in the order of their completing steps, and identity / exactly-once
    / content are inherited from C09's theorems.

    Lock level: lock discipline invariants, absence of the tail-slice panic, progress. *)
From TT Require Import Tunnel.Arena Tunnel.ArenaProofs Tunnel.ArenaConc Tunnel.TypesProofs.
From stdpp Require Import gmap.

(** * Generic list facts *)

Lemma find_app_none {A} (f : A -> bool) l1 l2 :
  List.find f l1 = None -> List.find f (l1 ++ l2) = List.find f l2.
Proof.
  induction l1 as [|x l1 IH]; cbn [List.find app]; [done|].
  destruct (f x); [done|]. exact IH.
Qed.

Lemma find_none_elem_of {A} (f : A -> bool) l :
  (forall x, x ∈ l -> f x = false) -> List.find f l = None.
Proof.
  induction l as [|x l IH]; intros H; cbn [List.find]; [done|].
  rewrite (H x) by left. apply IH. intros y Hy. apply H. by right.
Qed.

Global Instance cs_data_eq_dec : EqDecision cs_data.
Proof.
  intros a b. destruct (cs_data_eqb a b) eqn:E.
  - left. by apply cs_data_eqb_spec.
  - right. intros H. apply cs_data_eqb_spec in H. congruence.
Defined.

(** first occurrence *)
Lemma first_occurrence (ds : list cs_data) d : d ∈ ds -> exists k, ds !! k = Some d /\ d ∉ take k ds.
Proof.
  intros (l1 & l2 & -> & Hn)%elem_of_list_split_l. exists (List.length l1). split.
  - by rewrite list_lookup_middle.
  - by rewrite take_app.
Qed.

(** * Buckets are append-only, whatever the arena and the scanned length *)

Lemma bucket_of_insert_same (bs : gmap N (list metadata)) h b hp st :
  bucket_of (mk_arena hp (<[h := b]> bs) st) h = b.
Proof. unfold bucket_of. cbn. by rewrite lookup_insert. Qed.
Lemma bucket_of_insert_ne (bs : gmap N (list metadata)) h h' b hp st : h <> h' ->
  bucket_of (mk_arena hp (<[h := b]> bs) st) h' = default [] (bs !! h').
Proof. intros H. unfold bucket_of. cbn. by rewrite lookup_insert_ne. Qed.

Lemma scan_none_all d b : scan d b = None -> forall m, m ∈ b -> to_data m <> d.
Proof.
  intros H m Hm E. apply elem_of_list_In in Hm.
  pose proof (find_none _ _ H m Hm) as F. apply eq_metadata_spec in E. congruence.
Qed.
Lemma scan_none_of d b : (forall m, m ∈ b -> to_data m <> d) -> scan d b = None.
Proof.
  intros H. apply find_none_elem_of. intros m Hm. destruct (eq_metadata d m) eqn:E; [|done].
  apply eq_metadata_spec in E. by destruct (H m Hm).
Qed.
Lemma scan_some_in d b m : scan d b = Some m -> m ∈ b /\ to_data m = d.
Proof. intros [H E]%find_some. split; [by apply elem_of_list_In | by apply eq_metadata_spec]. Qed.

Section atomic.
  Variable hash : cs_data -> N.

  Lemma phase2_buckets a d n a' m b :
    phase2 hash a d n = Some (a', m, b) ->
    forall h, exists k, bucket_of a' h = bucket_of a h ++ k.
  Proof.
    unfold phase2. fold (bucket_of a (hash d)).
    destruct (_ <=? _)%nat; [|done].
    destruct (scan d _) as [m1|].
    - intros [= <- <- <-] h. exists []. rewrite app_nil_r.
      destruct (decide (hash d = h)) as [<-|Hne].
      + by rewrite bucket_of_insert_same.
      + by rewrite bucket_of_insert_ne.
    - rewrite leak_metadata_spec. cbn [heap buckets strings]. intros [= <- <- <-] h.
      destruct (decide (hash d = h)) as [<-|Hne].
      + rewrite bucket_of_insert_same. eauto.
      + exists []. rewrite app_nil_r, bucket_of_insert_ne by done. by rewrite lookup_insert_ne.
  Qed.

  (** ** the linearization lemma: under the invariant of a thread that waits between its two
      critical sections, the write-locked phase IS a sequential [alloc_metadata] at that moment *)
  Lemma phase2_is_alloc a d n :
    (n <= List.length (bucket_of a (hash d)))%nat ->
    (forall m, m ∈ take n (bucket_of a (hash d)) -> to_data m <> d) ->
    phase2 hash a d n = alloc_metadata hash a d.
  Proof.
    intros Hn Hpre. unfold alloc_metadata, phase1. unfold bucket_of in Hn, Hpre.
    destruct (buckets a !! hash d) as [bk|] eqn:Hb; cbn in Hn, Hpre.
    - assert (scan d bk = scan d (drop n bk)) as Hscan.
      { rewrite <- (take_drop n bk) at 1. unfold scan. apply find_app_none.
        apply find_none_elem_of. intros m Hm. destruct (eq_metadata d m) eqn:E; [|done].
        apply eq_metadata_spec in E. by destruct (Hpre m Hm). }
      destruct (scan d bk) as [m|] eqn:Hs.
      + unfold phase2. rewrite Hb. change (default [] (Some bk)) with bk. cbv zeta.
        apply Nat.leb_le in Hn. rewrite Hn, <- Hscan, insert_id by done. by destruct a.
      + unfold phase2. rewrite Hb. change (default [] (Some bk)) with bk. cbv zeta.
        apply Nat.leb_le in Hn. rewrite Hn, <- Hscan, Nat.leb_refl, drop_all. reflexivity.
    - cbn in Hn. by replace n with 0%nat by lia.
  Qed.

  (** appending one allocation to a sequence of allocations *)
  Lemma alloc_seq_snoc ds : forall a0 a res d a' m b,
    alloc_seq hash a0 ds = Some (a, res) -> alloc_metadata hash a d = Some (a', m, b) ->
    alloc_seq hash a0 (ds ++ [d]) = Some (a', res ++ [(m, b)]).
  Proof.
    induction ds as [|d0 ds IH]; intros a0 a res d a' m b E Ea; cbn [alloc_seq app] in *.
    - injection E as <- <-. by rewrite Ea.
    - destruct (alloc_metadata hash a0 d0) as [[[a1 m1] b1]|]; [|done].
      destruct (alloc_seq hash a1 ds) as [[a2 res2]|] eqn:E2; [|done].
      injection E as <- <-. by rewrite (IH _ _ _ _ _ _ _ E2 Ea).
  Qed.

  (** ** the invariant of the atomic level *)

  Definition pc_descs (p : pc) : list cs_data :=
    match p with Idle => [] | Scanned d _ _ => [d] end.

  Record conc_inv (lists : list (list cs_data)) (st : cstate) : Prop := mk_conc_inv {
    (* the arena is the sequential arena of the linearization order *)
    ci_lin : alloc_seq hash arena_empty (log_descs (c_log st)) = Some (c_arena st, log_results (c_log st));
    ci_len : List.length (c_threads st) = List.length lists;
    (* program order: finished ++ in progress ++ not started *)
    ci_thread : forall i t l, c_threads st !! i = Some t -> lists !! i = Some l ->
      exists fin, l = fin ++ pc_descs (t_pc t) ++ t_todo t /\ List.length fin = List.length (t_res t);
    (* the log lists exactly the finished announcements, each once *)
    ci_log : forall i p d m b, mk_lentry i p d m b ∈ c_log st <->
      exists t l, c_threads st !! i = Some t /\ lists !! i = Some l /\ l !! p = Some d
                  /\ t_res t !! p = Some (m, b);
    ci_nodup : NoDup (c_log st);
    (* a thread between its critical sections *)
    ci_scanned : forall i t d h n, c_threads st !! i = Some t -> t_pc t = Scanned d h n ->
      h = hash d /\ (n <= List.length (bucket_of (c_arena st) h))%nat
      /\ forall m, m ∈ take n (bucket_of (c_arena st) h) -> to_data m <> d }.

  Lemma conc_inv_init lists : conc_inv lists (conc_init lists).
  Proof.
    split; unfold conc_init; cbn [c_arena c_threads c_log].
    - reflexivity.
    - by rewrite fmap_length.
    - intros i t l Ht Hl. rewrite list_lookup_fmap, Hl in Ht. injection Ht as <-. cbn. by exists [].
    - intros i p d m b. split; [by intros H%elem_of_nil|].
      intros (t & l & Ht & Hl & _ & Hr). rewrite list_lookup_fmap, Hl in Ht. injection Ht as <-. done.
    - apply NoDup_nil_2.
    - intros i t d h n Ht Hp. apply list_lookup_fmap_Some in Ht as (l & _ & ->). done.
  Qed.

  Lemma conc_inv_arena lists st : conc_inv lists st -> arena_inv hash (c_arena st).
  Proof.
    intros I. destruct (alloc_seq_empty hash (log_descs (c_log st))) as (a & res & E & Ia & _).
    rewrite (ci_lin _ _ I) in E. by injection E as <- <-.
  Qed.

  (** a step that finishes the current announcement of thread [i] with result [(m, b)], where the
      arena moves as a sequential [alloc_metadata] would move it *)
  Lemma conc_inv_finish lists st i t d todo' a' m b :
    conc_inv lists st ->
    c_threads st !! i = Some t ->
    pc_descs (t_pc t) ++ t_todo t = d :: todo' ->
    alloc_metadata hash (c_arena st) d = Some (a', m, b) ->
    (forall h, exists k, bucket_of a' h = bucket_of (c_arena st) h ++ k) ->
    conc_inv lists
      (mk_cstate a' (<[i := mk_thread todo' Idle (t_res t ++ [(m, b)])]> (c_threads st))
                 (c_log st ++ [mk_lentry i (List.length (t_res t)) d m b])).
  Proof.
    intros I Ht Hcur Ea Hbk.
    pose proof (lookup_lt_Some _ _ _ Ht) as Hi.
    split; cbn [c_arena c_threads c_log].
    - unfold log_descs, log_results. rewrite !fmap_app. cbn [fmap list_fmap e_desc e_md e_new].
      eapply alloc_seq_snoc; [apply (ci_lin _ _ I) | exact Ea].
    - rewrite insert_length. apply (ci_len _ _ I).
    - intros j tj l Hj Hl. destruct (decide (j = i)) as [->|Hne].
      + rewrite list_lookup_insert in Hj by done. injection Hj as <-. cbn.
        destruct (ci_thread _ _ I i t l Ht Hl) as (fin & -> & Hlen).
        exists (fin ++ [d]). rewrite Hcur, <- app_assoc. split; [done|].
        rewrite !app_length. cbn. lia.
      + rewrite list_lookup_insert_ne in Hj by done. by apply (ci_thread _ _ I j).
    - intros j p d0 m0 b0. rewrite elem_of_app, elem_of_list_singleton. split.
      + intros [Hin|Heq].
        * apply (ci_log _ _ I) in Hin as (tj & l & Hj & Hl & Hd & Hr).
          destruct (decide (j = i)) as [->|Hne].
          -- rewrite Ht in Hj. injection Hj as <-. eexists _, l.
             rewrite list_lookup_insert by done. split_and!; try done.
             cbn. by apply lookup_app_l_Some.
          -- exists tj, l. by rewrite list_lookup_insert_ne.
        * injection Heq as -> -> -> -> ->.
          destruct (lists !! i) as [l|] eqn:Hl.
          2:{ apply lookup_ge_None in Hl. rewrite <- (ci_len _ _ I) in Hl. lia. }
          destruct (ci_thread _ _ I i t l Ht Hl) as (fin & -> & Hlen).
          eexists _, _. rewrite list_lookup_insert by done. split_and!; try done.
          -- rewrite Hcur, <- Hlen. by rewrite list_lookup_middle.
          -- cbn. by rewrite list_lookup_middle.
      + intros (tj & l & Hj & Hl & Hd & Hr). destruct (decide (j = i)) as [->|Hne].
        * rewrite list_lookup_insert in Hj by done. injection Hj as <-. cbn in Hr.
          apply lookup_app_Some in Hr as [Hr|[Hge Hr]].
          -- left. apply (ci_log _ _ I). eauto 10.
          -- right. apply list_lookup_singleton_Some in Hr as [Hp [= <- <-]].
             assert (p = List.length (t_res t)) as -> by lia.
             destruct (ci_thread _ _ I i t l Ht Hl) as (fin & -> & Hlen).
             rewrite Hcur, <- Hlen, list_lookup_middle in Hd by done. by injection Hd as <-.
        * rewrite list_lookup_insert_ne in Hj by done. left. apply (ci_log _ _ I). eauto 10.
    - apply NoDup_app. split; [apply (ci_nodup _ _ I)|]. split; [|apply NoDup_singleton].
      intros e He ->%elem_of_list_singleton.
      apply (ci_log _ _ I) in He as (t' & l & Ht' & _ & _ & Hr).
      rewrite Ht in Ht'. injection Ht' as <-.
      apply lookup_lt_Some in Hr. lia.
    - intros j tj d0 h n Hj Hp. destruct (decide (j = i)) as [->|Hne].
      + rewrite list_lookup_insert in Hj by done. injection Hj as <-. done.
      + rewrite list_lookup_insert_ne in Hj by done.
        destruct (ci_scanned _ _ I j tj d0 h n Hj Hp) as (Hh & Hn & Hpre).
        destruct (Hbk h) as (k & ->). split; [done|]. split.
        * rewrite app_length. lia.
        * by rewrite take_app_le.
  Qed.

  Lemma phase1_found_alloc a d m : phase1 hash a d = P1Found m -> alloc_metadata hash a d = Some (a, m, false).
  Proof. unfold alloc_metadata. by intros ->. Qed.

  Lemma phase1_scanned_bound a d n : phase1 hash a d = P1Scanned n ->
    n = List.length (bucket_of a (hash d)) /\ forall m, m ∈ bucket_of a (hash d) -> to_data m <> d.
  Proof.
    unfold phase1, bucket_of. destruct (buckets a !! hash d) as [bk|]; cbn.
    - destruct (scan d bk) as [m|] eqn:Hs; [done|]. intros [= <-]. split; [done|]. by apply scan_none_all.
    - intros [= <-]. split; [done|]. intros m Hm. by apply elem_of_nil in Hm.
  Qed.

  (** ** one step preserves the invariant and never panics *)
  Lemma step_inv lists st i : conc_inv lists st ->
    match step hash st i with
    | SRok st' => conc_inv lists st'
    | SRskip => True
    | SRpanic => False
    end.
  Proof.
    intros I. unfold step, step_phase1, step_phase2.
    destruct (c_threads st !! i) as [t|] eqn:Ht; [|done].
    destruct (t_pc t) as [|d h n] eqn:Hpc.
    - destruct (t_todo t) as [|d rest] eqn:Htodo; [done|]. unfold do_phase1.
      destruct (phase1 hash (c_arena st) d) as [m|n] eqn:P1.
      + apply (conc_inv_finish lists st i t d rest (c_arena st) m false I Ht).
        * by rewrite Hpc, Htodo.
        * by apply phase1_found_alloc.
        * intros h. exists []. by rewrite app_nil_r.
      + (* no match: the thread now waits for the write lock *)
        pose proof (lookup_lt_Some _ _ _ Ht) as Hi.
        destruct (phase1_scanned_bound _ _ _ P1) as [-> Hnone].
        split; cbn [c_arena c_threads c_log].
        * apply (ci_lin _ _ I).
        * rewrite insert_length. apply (ci_len _ _ I).
        * intros j tj l Hj Hl. destruct (decide (j = i)) as [->|Hne].
          -- rewrite list_lookup_insert in Hj by done. injection Hj as <-. cbn.
             destruct (ci_thread _ _ I i t l Ht Hl) as (fin & -> & Hlen).
             exists fin. by rewrite Hpc, Htodo.
          -- rewrite list_lookup_insert_ne in Hj by done. by apply (ci_thread _ _ I j).
        * intros j p d0 m0 b0. rewrite (ci_log _ _ I). split.
          -- intros (tj & l & Hj & Hl & Hd & Hr). destruct (decide (j = i)) as [->|Hne].
             ++ rewrite Ht in Hj. injection Hj as <-. eexists _, l.
                rewrite list_lookup_insert by done. split_and!; done.
             ++ exists tj, l. by rewrite list_lookup_insert_ne.
          -- intros (tj & l & Hj & Hl & Hd & Hr). destruct (decide (j = i)) as [->|Hne].
             ++ rewrite list_lookup_insert in Hj by done. injection Hj as <-. cbn in Hr. eauto 10.
             ++ rewrite list_lookup_insert_ne in Hj by done. eauto 10.
        * apply (ci_nodup _ _ I).
        * intros j tj d0 h n Hj Hp. destruct (decide (j = i)) as [->|Hne].
          -- rewrite list_lookup_insert in Hj by done. injection Hj as <-. cbn in Hp.
             injection Hp as <- <- <-. split; [done|]. split; [done|].
             intros m Hm. apply Hnone. by rewrite take_ge in Hm by lia.
          -- rewrite list_lookup_insert_ne in Hj by done. by apply (ci_scanned _ _ I j tj).
    - unfold do_phase2.
      destruct (ci_scanned _ _ I i t d h n Ht Hpc) as (-> & Hn & Hpre).
      pose proof (phase2_is_alloc (c_arena st) d n Hn Hpre) as E2.
      destruct (alloc_metadata_spec hash (c_arena st) d (conc_inv_arena _ _ I))
        as (a' & m & Ea & _). cbn in Ea.
      rewrite E2, Ea.
      apply (conc_inv_finish lists st i t d (t_todo t) a' m _ I Ht).
      + by rewrite Hpc.
      + exact Ea.
      + rewrite <- E2 in Ea. by apply (phase2_buckets _ _ _ _ _ _ Ea).
  Qed.

  Lemma run_sched_inv lists sch : forall st, conc_inv lists st ->
    exists st', run_sched hash st sch = Some st' /\ conc_inv lists st'.
  Proof.
    induction sch as [|i sch IH]; intros st I; cbn [run_sched]; [eauto|].
    pose proof (step_inv lists st i I) as S. destruct (step hash st i) as [st1| |]; [|by apply IH|done].
    by apply IH.
  Qed.

  (** every schedule whatsoever runs without a panic, and what it reaches satisfies the invariant *)
  Lemma run_sched_total lists sch :
    exists st, run_sched hash (conc_init lists) sch = Some st /\ conc_inv lists st.
  Proof. apply run_sched_inv, conc_inv_init. Qed.

  Lemma run_sched_reach lists sch st :
    run_sched hash (conc_init lists) sch = Some st -> conc_inv lists st.
  Proof.
    intros E. destruct (run_sched_total lists sch) as (st' & E' & I). rewrite E in E'. by injection E' as <-.
  Qed.
End atomic.

(** * Consequences for every schedule, from the empty arena *)
Section atomic_final.
  Variable hash : cs_data -> N.

  Lemma finished_log_index lists st i p d m b :
    conc_inv hash lists st -> finished_with lists st i p d m b ->
    exists k, c_log st !! k = Some (mk_lentry i p d m b)
              /\ log_descs (c_log st) !! k = Some d /\ log_results (c_log st) !! k = Some (m, b).
  Proof.
    intros I F. apply (ci_log _ _ _ I) in F. apply elem_of_list_lookup in F as (k & Hk).
    exists k. unfold log_descs, log_results. rewrite !list_lookup_fmap, Hk. done.
  Qed.

  Lemma log_index_finished lists st k e :
    conc_inv hash lists st -> c_log st !! k = Some e ->
    finished_with lists st (e_tid e) (e_pos e) (e_desc e) (e_md e) (e_new e).
  Proof.
    intros I Hk. apply (ci_log _ _ _ I). destruct e. cbn. by eapply elem_of_list_lookup_2.
  Qed.

  (** the arena reached by a schedule is the sequential arena of the completion order; the log is
      exactly the finished announcements, each once *)
  Lemma conc_linearizable lists sch st :
    run_sched hash (conc_init lists) sch = Some st ->
    alloc_seq hash arena_empty (log_descs (c_log st)) = Some (c_arena st, log_results (c_log st))
    /\ NoDup (c_log st)
    /\ forall i p d m b, mk_lentry i p d m b ∈ c_log st <-> finished_with lists st i p d m b.
  Proof.
    intros I%run_sched_reach. split_and!; [apply I | apply I | apply (ci_log _ _ _ I)].
  Qed.

  Lemma conc_content lists sch st i p d m b :
    run_sched hash (conc_init lists) sch = Some st ->
    finished_with lists st i p d m b ->
    to_data m = d /\ m ∈ heap (c_arena st) /\ deref (c_arena st) (m_ptr m) = Some m.
  Proof.
    intros I%run_sched_reach F. destruct (finished_log_index _ _ _ _ _ _ _ I F) as (k & _ & Hd & Hr).
    destruct (alloc_seq_result hash _ _ _ k m b d (ci_lin _ _ _ I) Hr Hd) as (Hc & Hin & _).
    split_and!; try done. apply (deref_heap hash); [|done]. by eapply conc_inv_arena.
  Qed.

  Lemma conc_identity lists sch st i p d1 m1 b1 j q d2 m2 b2 :
    run_sched hash (conc_init lists) sch = Some st ->
    finished_with lists st i p d1 m1 b1 -> finished_with lists st j q d2 m2 b2 ->
    (m_ptr m1 = m_ptr m2 <-> d1 = d2) /\ (m_ptr m1 = m_ptr m2 -> m1 = m2).
  Proof.
    intros I%run_sched_reach F1 F2.
    destruct (finished_log_index _ _ _ _ _ _ _ I F1) as (k1 & _ & Hd1 & Hr1).
    destruct (finished_log_index _ _ _ _ _ _ _ I F2) as (k2 & _ & Hd2 & Hr2).
    exact (alloc_identity hash _ _ _ k1 k2 m1 b1 m2 b2 d1 d2 (ci_lin _ _ _ I) Hr1 Hr2 Hd1 Hd2).
  Qed.

  (** at most one [is_new = true] per description, in any reachable state *)
  Lemma conc_new_at_most_once lists sch st i p j q d m1 m2 :
    run_sched hash (conc_init lists) sch = Some st ->
    finished_with lists st i p d m1 true -> finished_with lists st j q d m2 true ->
    i = j /\ p = q.
  Proof.
    intros I%run_sched_reach F1 F2.
    destruct (finished_log_index _ _ _ _ _ _ _ I F1) as (k1 & He1 & Hd1 & Hr1).
    destruct (finished_log_index _ _ _ _ _ _ _ I F2) as (k2 & He2 & Hd2 & Hr2).
    destruct (alloc_new_once hash _ _ _ (ci_lin _ _ _ I)) as (_ & Huniq & _).
    assert (k1 = k2) as -> by (eapply Huniq; eauto).
    rewrite He1 in He2. by injection He2 as -> ->.
  Qed.

  (** ** termination of the threads: two turns per announcement are enough *)
  Definition mu (t : thread) : nat :=
    (2 * List.length (t_todo t) + match t_pc t with Idle => 0 | Scanned _ _ _ => 1 end)%nat.

  Lemma thread_done_mu t : thread_done t = true <-> mu t = 0%nat.
  Proof. unfold thread_done, mu. destruct (t_pc t), (t_todo t); cbn; split; (done || lia). Qed.

  Lemma step_mu st i :
    match step hash st i with
    | SRok st' =>
        (exists ti ti', c_threads st !! i = Some ti /\ c_threads st' !! i = Some ti' /\ (mu ti' < mu ti)%nat)
        /\ forall j, j <> i -> c_threads st' !! j = c_threads st !! j
    | SRskip => forall ti, c_threads st !! i = Some ti -> mu ti = 0%nat
    | SRpanic => True
    end.
  Proof.
    unfold step, step_phase1, step_phase2.
    destruct (c_threads st !! i) as [t|] eqn:Ht; [|done].
    pose proof (lookup_lt_Some _ _ _ Ht) as Hi.
    destruct (t_pc t) as [|d h n] eqn:Hpc.
    - destruct (t_todo t) as [|d rest] eqn:Htodo.
      + intros ti [= <-]. unfold mu. rewrite Hpc, Htodo. done.
      + unfold do_phase1. destruct (phase1 hash (c_arena st) d) as [m|n]; cbn [c_threads]; (split;
          [eexists t, _; split; [done|]; split; [by apply list_lookup_insert|];
           unfold mu; rewrite Hpc, Htodo; cbn; lia
          | intros j Hne; by apply list_lookup_insert_ne]).
    - unfold do_phase2. destruct (phase2 hash (c_arena st) d n) as [[[a' m] b]|]; [|done].
      cbn [c_threads]. split.
      + eexists t, _. split; [done|]. split; [by apply list_lookup_insert|].
        unfold mu. rewrite Hpc. cbn. lia.
      + intros j Hne. by apply list_lookup_insert_ne.
  Qed.

  Lemma count_tid_cons j i sch :
    count_tid j (i :: sch) = ((if decide (j = i) then 1 else 0) + count_tid j sch)%nat.
  Proof.
    unfold count_tid. cbn [List.filter]. destruct (decide (j = i)) as [->|Hne].
    - by rewrite Nat.eqb_refl.
    - apply Nat.eqb_neq in Hne. by rewrite Hne.
  Qed.

  Lemma run_sched_mu sch : forall st st', run_sched hash st sch = Some st' ->
    forall j tj, c_threads st !! j = Some tj ->
      exists tj', c_threads st' !! j = Some tj' /\ (mu tj' <= mu tj - count_tid j sch)%nat.
  Proof.
    induction sch as [|i sch IH]; intros st st' E j tj Hj; cbn [run_sched] in E.
    - injection E as <-. exists tj. split; [done|]. unfold count_tid. cbn. lia.
    - rewrite count_tid_cons. pose proof (step_mu st i) as S.
      destruct (step hash st i) as [st1| |]; [| |done].
      + destruct S as [(ti & ti' & Hi & Hi' & Hlt) Hother].
        destruct (decide (j = i)) as [->|Hne].
        * rewrite Hi in Hj. injection Hj as <-.
          destruct (IH st1 st' E i ti' Hi') as (tj' & Hj' & Hle). exists tj'. split; [done|]. lia.
        * rewrite <- (Hother j Hne) in Hj.
          destruct (IH st1 st' E j tj Hj) as (tj' & Hj' & Hle). exists tj'. split; [done|]. lia.
      + destruct (IH st st' E j tj Hj) as (tj' & Hj' & Hle). exists tj'. split; [done|].
        destruct (decide (j = i)) as [->|]; [|lia]. rewrite (S tj Hj) in *. lia.
  Qed.

  Lemma conc_fair_completes lists sch st :
    enough_turns lists sch = true ->
    run_sched hash (conc_init lists) sch = Some st -> all_done st = true.
  Proof.
    intros Hfair E. unfold all_done. apply forallb_forall. intros t' Hin.
    apply elem_of_list_In, elem_of_list_lookup in Hin as (j & Hj').
    pose proof (run_sched_reach hash _ _ _ E) as I.
    pose proof (lookup_lt_Some _ _ _ Hj') as Hlt. rewrite (ci_len _ _ _ I) in Hlt.
    destruct (lookup_lt_is_Some_2 lists j Hlt) as [l Hl].
    assert (c_threads (conc_init lists) !! j = Some (thread_init l)) as Hj0.
    { cbn. by rewrite list_lookup_fmap, Hl. }
    destruct (run_sched_mu sch _ _ E j _ Hj0) as (tj' & Hj'' & Hle).
    rewrite Hj' in Hj''. injection Hj'' as <-. apply thread_done_mu.
    unfold enough_turns in Hfair. rewrite forallb_forall in Hfair.
    assert (In j (seq 0 (List.length lists))) as Hseq by (apply in_seq; lia).
    specialize (Hfair j Hseq). cbn beta in Hfair. rewrite Hl in Hfair. change (default [] (Some l)) with l in Hfair.
    apply Nat.leb_le in Hfair.
    change (mu (thread_init l)) with (2 * List.length l + 0)%nat in Hle. lia.
  Qed.

  (** such schedules exist: the threads one after the other *)
  Definition sequential_schedule (lists : list (list cs_data)) : list tid :=
    List.concat (imap (fun i l => replicate (2 * List.length l) i) lists).

  Lemma count_tid_app j s1 s2 : count_tid j (s1 ++ s2) = (count_tid j s1 + count_tid j s2)%nat.
  Proof. unfold count_tid. by rewrite List.filter_app, app_length. Qed.
  Lemma count_tid_replicate j n i : count_tid j (replicate n i) = if decide (j = i) then n else 0%nat.
  Proof.
    induction n as [|n IH]; cbn [replicate]; [by destruct (decide _)|].
    rewrite count_tid_cons, IH. by destruct (decide (j = i)).
  Qed.

  Lemma sequential_schedule_count lists : forall base j l, lists !! j = Some l ->
    (2 * List.length l <=
     count_tid (base + j) (List.concat (imap (fun i (l : list cs_data) => replicate (2 * List.length l) (base + i)) lists)))%nat.
  Proof.
    induction lists as [|l0 lists IH]; intros base j l Hl; [done|].
    cbn [imap List.concat]. rewrite count_tid_app, count_tid_replicate. destruct j as [|j]; cbn in Hl.
    - injection Hl as <-. rewrite Nat.add_0_r, decide_True by done. lia.
    - rewrite decide_False by lia.
      specialize (IH (S base) j l Hl).
      replace (S base + j)%nat with (base + S j)%nat in IH by lia.
      erewrite imap_ext; [exact IH|]. intros i x _. cbn. f_equal. lia.
  Qed.

  Lemma sequential_schedule_fair lists : enough_turns lists (sequential_schedule lists) = true.
  Proof.
    unfold enough_turns. apply forallb_forall. intros j Hj. apply in_seq in Hj.
    destruct (lookup_lt_is_Some_2 lists j) as [l Hl]; [lia|]. rewrite Hl. change (default [] (Some l)) with l.
    apply Nat.leb_le. exact (sequential_schedule_count lists 0 j l Hl).
  Qed.

  (** when every thread has finished, every announcement has a result *)
  Lemma conc_all_finished lists sch st i l p d :
    run_sched hash (conc_init lists) sch = Some st -> all_done st = true ->
    lists !! i = Some l -> l !! p = Some d ->
    exists m b, finished_with lists st i p d m b.
  Proof.
    intros I%run_sched_reach D Hl Hp.
    pose proof (lookup_lt_Some _ _ _ Hl) as Hlt. rewrite <- (ci_len _ _ _ I) in Hlt.
    destruct (lookup_lt_is_Some_2 _ _ Hlt) as [t Ht].
    unfold all_done in D. rewrite forallb_forall in D.
    assert (thread_done t = true) as Dt.
    { apply D, elem_of_list_In. by eapply elem_of_list_lookup_2. }
    destruct (ci_thread _ _ _ I i t l Ht Hl) as (fin & -> & Hlen).
    unfold thread_done in Dt. destruct (t_pc t); [|done]. destruct (t_todo t); [|done].
    cbn in Hp. rewrite app_nil_r in Hp. pose proof (lookup_lt_Some _ _ _ Hp) as Hp'.
    rewrite Hlen in Hp'. destruct (lookup_lt_is_Some_2 _ _ Hp') as [[m b] Hr].
    eexists m, b, t, _. split_and!; [exact Ht | exact Hl | | exact Hr]. cbn. by rewrite app_nil_r.
  Qed.

  Lemma conc_results_length lists sch st i l :
    run_sched hash (conc_init lists) sch = Some st -> all_done st = true ->
    lists !! i = Some l ->
    exists t, c_threads st !! i = Some t /\ List.length (t_res t) = List.length l.
  Proof.
    intros I%run_sched_reach D Hl.
    pose proof (lookup_lt_Some _ _ _ Hl) as Hlt. rewrite <- (ci_len _ _ _ I) in Hlt.
    destruct (lookup_lt_is_Some_2 _ _ Hlt) as [t Ht]. exists t. split; [done|].
    unfold all_done in D. rewrite forallb_forall in D.
    assert (thread_done t = true) as Dt.
    { apply D, elem_of_list_In. by eapply elem_of_list_lookup_2. }
    destruct (ci_thread _ _ _ I i t l Ht Hl) as (fin & -> & Hlen).
    unfold thread_done in Dt. destruct (t_pc t); [|done]. destruct (t_todo t); [|done].
    cbn. rewrite app_nil_r. done.
  Qed.

  (** exactly one [is_new = true] per distinct description; one heap object per distinct description *)
  Lemma conc_new_once lists sch st :
    run_sched hash (conc_init lists) sch = Some st -> all_done st = true ->
    (forall d, announced lists d -> exists i p m, finished_with lists st i p d m true)
    /\ (forall i p j q d m1 m2, finished_with lists st i p d m1 true ->
          finished_with lists st j q d m2 true -> i = j /\ p = q)
    /\ NoDup (to_data <$> heap (c_arena st))
    /\ (forall d, d ∈ to_data <$> heap (c_arena st) <-> announced lists d)
    /\ List.length (heap (c_arena st)) = List.length (distinct_descs (List.concat lists)).
  Proof.
    intros E D. pose proof (run_sched_reach hash _ _ _ E) as I.
    pose proof (ci_lin _ _ _ I) as Lin.
    destruct (alloc_new_once hash _ _ _ Lin) as (Hfirst & _ & Hheap & _).
    assert (forall d, d ∈ log_descs (c_log st) <-> announced lists d) as Hdescs.
    { intros d. split.
      - intros (e & -> & He)%elem_of_list_fmap. apply elem_of_list_lookup in He as (k & Hk).
        destruct (log_index_finished _ _ _ _ I Hk) as (t & l & _ & Hl & Hp & _).
        exists (e_tid e), l. split; [done|]. by eapply elem_of_list_lookup_2.
      - intros (i & l & Hl & (p & Hp)%elem_of_list_lookup).
        destruct (conc_all_finished _ _ _ _ _ _ _ E D Hl Hp) as (m & b & F).
        destruct (finished_log_index _ _ _ _ _ _ _ I F) as (k & _ & Hd & _).
        by eapply elem_of_list_lookup_2. }
    assert (forall d, d ∈ to_data <$> heap (c_arena st) <-> announced lists d) as Hheap'.
    { intros d. by rewrite Hheap, elem_of_distinct_descs. }
    split_and!.
    - intros d Hd. apply Hdescs in Hd. destruct (first_occurrence _ _ Hd) as (k & Hk & Hnot).
      assert (exists e, c_log st !! k = Some e) as [e He].
      { apply lookup_lt_is_Some_2. apply lookup_lt_Some in Hk. unfold log_descs in Hk.
        by rewrite fmap_length in Hk. }
      assert (log_results (c_log st) !! k = Some (e_md e, e_new e)) as Hr.
      { unfold log_results. by rewrite list_lookup_fmap, He. }
      assert (e_desc e = d) as Hed.
      { unfold log_descs in Hk. rewrite list_lookup_fmap, He in Hk. by injection Hk. }
      pose proof (proj2 (Hfirst k _ _ d Hr Hk) Hnot) as Hnew.
      pose proof (log_index_finished _ _ _ _ I He) as F. rewrite Hed, Hnew in F. eauto.
    - intros i p j q d m1 m2. by apply (conc_new_at_most_once lists sch st).
    - apply (inv_nodup hash). by eapply conc_inv_arena.
    - exact Hheap'.
    - rewrite <- (fmap_length to_data). apply Permutation_length, NoDup_Permutation.
      + apply (inv_nodup hash). by eapply conc_inv_arena.
      + apply NoDup_distinct_descs.
      + intros d. rewrite Hheap', elem_of_distinct_descs. unfold announced. split.
        * intros (i & l & Hl & Hd). apply elem_of_list_In, in_concat. exists l.
          split; apply elem_of_list_In; [by eapply elem_of_list_lookup_2 | done].
        * intros (l & Hl & Hd)%elem_of_list_In%in_concat.
          apply elem_of_list_In, elem_of_list_lookup in Hl as (i & Hl).
          exists i, l. split; [done | by apply elem_of_list_In].
  Qed.

  (** ** the tail slice [bucket[scanned_bucket_len..]] *)

  Lemma conc_scanned_bound lists sch st i t d h n :
    run_sched hash (conc_init lists) sch = Some st ->
    c_threads st !! i = Some t -> t_pc t = Scanned d h n ->
    h = hash d /\ (n <= List.length (bucket_of (c_arena st) h))%nat
    /\ forall m, m ∈ take n (bucket_of (c_arena st) h) -> to_data m <> d.
  Proof. intros I%run_sched_reach. apply (ci_scanned _ _ _ I). Qed.

  Lemma step_buckets st i st' : step hash st i = SRok st' ->
    forall h, bucket_of (c_arena st) h `prefix_of` bucket_of (c_arena st') h.
  Proof.
    unfold step, step_phase1, step_phase2. destruct (c_threads st !! i) as [t|]; [|done].
    destruct (t_pc t) as [|d h0 n].
    - destruct (t_todo t) as [|d rest]; [done|]. intros [= <-] h. unfold do_phase1.
      by destruct (phase1 hash (c_arena st) d).
    - unfold do_phase2. destruct (phase2 hash (c_arena st) d n) as [[[a' m] b]|] eqn:P2; [|done].
      intros [= <-] h. cbn. destruct (phase2_buckets hash _ _ _ _ _ _ P2 h) as (k & ->).
      by apply prefix_app_r.
  Qed.

  (** buckets only ever grow at the end, from ANY state, under ANY schedule *)
  Lemma conc_buckets_append_only sch : forall st st', run_sched hash st sch = Some st' ->
    forall h, bucket_of (c_arena st) h `prefix_of` bucket_of (c_arena st') h.
  Proof.
    induction sch as [|i sch IH]; intros st st' E h; cbn [run_sched] in E.
    - by injection E as <-.
    - pose proof (step_buckets st i) as S. destruct (step hash st i) as [st1| |]; [| by apply IH | done].
      etrans; [by apply S | by apply IH].
  Qed.

  (** the traced run is the run *)
  Lemma run_trace_sched sch : forall st, run_sched hash st sch = fst <$> run_trace hash st sch.
  Proof.
    induction sch as [|i sch IH]; intros st; cbn [run_sched run_trace]; [done|].
    destruct (step hash st i) as [st1| |]; [|apply IH|done].
    rewrite IH. by destruct (run_trace hash st1 sch) as [[st2 tr]|].
  Qed.

  (** two read-locked sections commute (readers do not exclude each other in reality; either order of
      the two atomic steps gives the same arena and the same threads) *)
  Definition p1_thread (a : arena) (t : thread) (d : cs_data) (rest : list cs_data) : thread :=
    match phase1 hash a d with
    | P1Found m => mk_thread rest Idle (t_res t ++ [(m, false)])
    | P1Scanned n => mk_thread rest (Scanned d (hash d) n) (t_res t)
    end.

  Lemma step_read st i t d rest :
    c_threads st !! i = Some t -> t_pc t = Idle -> t_todo t = d :: rest ->
    exists st', step hash st i = SRok st' /\ c_arena st' = c_arena st
                /\ c_threads st' = <[i := p1_thread (c_arena st) t d rest]> (c_threads st).
  Proof.
    intros Ht Hpc Htodo. unfold step, step_phase1. rewrite Ht, Hpc, Htodo.
    eexists. split; [reflexivity|]. unfold do_phase1, p1_thread.
    by destruct (phase1 hash (c_arena st) d).
  Qed.

  Lemma next_phase_read st i : next_phase st i = Some 1%N ->
    exists t d rest, c_threads st !! i = Some t /\ t_pc t = Idle /\ t_todo t = d :: rest.
  Proof.
    unfold next_phase. destruct (c_threads st !! i) as [t|] eqn:Ht; [|done].
    destruct (t_pc t) eqn:Hpc; [|done]. destruct (t_todo t) as [|d rest] eqn:Htodo; [done|].
    intros _. by exists t, d, rest.
  Qed.

  Lemma read_steps_commute st i j s1 s12 s2 s21 :
    i <> j -> next_phase st i = Some 1%N -> next_phase st j = Some 1%N ->
    step hash st i = SRok s1 -> step hash s1 j = SRok s12 ->
    step hash st j = SRok s2 -> step hash s2 i = SRok s21 ->
    c_arena s12 = c_arena st /\ c_arena s21 = c_arena st /\ c_threads s12 = c_threads s21.
  Proof.
    intros Hne (ti & di & ri & Hi & Hpi & Hti)%next_phase_read (tj & dj & rj & Hj & Hpj & Htj)%next_phase_read.
    destruct (step_read st i ti di ri Hi Hpi Hti) as (x1 & -> & Ha1 & Ht1). intros [= <-].
    assert (c_threads x1 !! j = Some tj) as Hj1 by (by rewrite Ht1, list_lookup_insert_ne).
    destruct (step_read x1 j tj dj rj Hj1 Hpj Htj) as (x12 & -> & Ha12 & Ht12). intros [= <-].
    destruct (step_read st j tj dj rj Hj Hpj Htj) as (x2 & -> & Ha2 & Ht2). intros [= <-].
    assert (c_threads x2 !! i = Some ti) as Hi2 by (by rewrite Ht2, list_lookup_insert_ne).
    destruct (step_read x2 i ti di ri Hi2 Hpi Hti) as (x21 & -> & Ha21 & Ht21). intros [= <-].
    split_and!; [congruence | congruence |].
    rewrite Ht12, Ht21, Ht1, Ht2, Ha1, Ha2. by apply list_insert_commute.
  Qed.
End atomic_final.

(** * Lock level *)

(** thread [j] is at a program point satisfying [P] *)
Definition lt_at (ths : list lthread) (j : nat) (P : lpc -> bool) : Prop :=
  exists t, ths !! j = Some t /\ P (lt_pc t) = true.

Lemma lt_at_insert ths i t' j P : (i < List.length ths)%nat ->
  lt_at (<[i := t']> ths) j P <-> if decide (j = i) then P (lt_pc t') = true else lt_at ths j P.
Proof.
  intros Hi. unfold lt_at. destruct (decide (j = i)) as [->|Hne].
  - rewrite list_lookup_insert by done. split; [by intros (t & [= <-] & H) | eauto].
  - by rewrite list_lookup_insert_ne.
Qed.

(** the state of one [RwLock] is what the program points of the threads say: [R] = "holds a read
    guard", [W] = "holds the write guard" *)
Record lock_ok (lk : rwlock) (ths : list lthread) (R W : lpc -> bool) : Prop := mk_lock_ok {
  lo_w : forall j, rw_writer lk = Some j <-> lt_at ths j W;
  lo_r : forall j, j ∈ rw_readers lk <-> lt_at ths j R;
  lo_nd : NoDup (rw_readers lk);
  lo_x : rw_writer lk <> None -> rw_readers lk = [] }.

Lemma elem_of_remove1 i l j : NoDup l -> j ∈ remove1 i l <-> j ∈ l /\ j <> i.
Proof.
  induction l as [|x l IH]; intros Hnd; cbn [remove1].
  - rewrite elem_of_nil. tauto.
  - apply NoDup_cons in Hnd as [Hx Hnd]. destruct (Nat.eqb_spec i x) as [->|Hne].
    + rewrite elem_of_cons. split; [intros H; split; [by right | by intros ->] | intros [[->|H] Hn]; done].
    + rewrite !elem_of_cons, IH by done. split.
      * intros [->|[H1 H2]]; [split; [by left | done] | split; [by right | done]].
      * intros [[->|H1] H2]; [by left | right; done].
Qed.
Lemma NoDup_remove1 i l : NoDup l -> NoDup (remove1 i l).
Proof.
  induction l as [|x l IH]; intros Hnd; cbn [remove1]; [done|].
  apply NoDup_cons in Hnd as [Hx Hnd]. destruct (Nat.eqb_spec i x) as [->|Hne]; [done|].
  apply NoDup_cons. split; [|by apply IH]. rewrite elem_of_remove1 by done. tauto.
Qed.

Section lock_step_lemmas.
  Context (lk : rwlock) (ths : list lthread) (R W : lpc -> bool) (i : nat) (t t' : lthread).
  Hypothesis Hok : lock_ok lk ths R W.
  Hypothesis Ht : ths !! i = Some t.

  Let Hi : (i < List.length ths)%nat := lookup_lt_Some _ _ _ Ht.

  Lemma lt_at_self P : lt_at ths i P <-> P (lt_pc t) = true.
  Proof. unfold lt_at. rewrite Ht. split; [by intros (? & [= <-] & ?) | eauto]. Qed.

  Lemma lock_ok_keep : R (lt_pc t') = R (lt_pc t) -> W (lt_pc t') = W (lt_pc t) ->
    lock_ok lk (<[i := t']> ths) R W.
  Proof.
    intros HR HW. destruct Hok as [Hw Hr Hnd Hx]. split; try done.
    - intros j. rewrite lt_at_insert by done. destruct (decide (j = i)) as [->|]; [|apply Hw].
      by rewrite Hw, lt_at_self, HW.
    - intros j. rewrite lt_at_insert by done. destruct (decide (j = i)) as [->|]; [|apply Hr].
      by rewrite Hr, lt_at_self, HR.
  Qed.

  Lemma lock_ok_acq_read : can_read lk = true -> R (lt_pc t) = false ->
    R (lt_pc t') = true -> W (lt_pc t') = false ->
    lock_ok (acq_read i lk) (<[i := t']> ths) R W.
  Proof.
    intros Hcan HR HR' HW'. destruct Hok as [Hw Hr Hnd Hx].
    unfold can_read in Hcan. destruct (rw_writer lk) as [w|] eqn:Ew; [done|].
    split; cbn [acq_read rw_readers rw_writer].
    - intros j. rewrite Ew, lt_at_insert by done. destruct (decide (j = i)) as [->|].
      + rewrite HW'. split; done.
      + apply Hw.
    - intros j. rewrite elem_of_cons, lt_at_insert by done. destruct (decide (j = i)) as [->|Hne].
      + split; [done | by left].
      + rewrite <- Hr. split; [by intros [?|?] | by right].
    - apply NoDup_cons. split; [|done]. rewrite Hr, lt_at_self, HR. done.
    - by rewrite Ew.
  Qed.

  Lemma lock_ok_rel_read : R (lt_pc t) = true -> R (lt_pc t') = false -> W (lt_pc t') = false ->
    lock_ok (rel_read i lk) (<[i := t']> ths) R W.
  Proof.
    intros HR HR' HW'. destruct Hok as [Hw Hr Hnd Hx].
    assert (i ∈ rw_readers lk) as Hin by (by rewrite Hr, lt_at_self).
    assert (rw_writer lk = None) as Ew.
    { destruct (rw_writer lk) eqn:E; [|done]. rewrite Hx in Hin by done. by apply elem_of_nil in Hin. }
    split; cbn [rel_read rw_readers rw_writer].
    - intros j. rewrite Ew, lt_at_insert by done. destruct (decide (j = i)) as [->|].
      + rewrite HW'. split; done.
      + rewrite <- Hw. by rewrite Ew.
    - intros j. rewrite elem_of_remove1, lt_at_insert by done. destruct (decide (j = i)) as [->|Hne].
      + rewrite HR'. split; [by intros [_ ?] | done].
      + rewrite <- Hr. tauto.
    - by apply NoDup_remove1.
    - by rewrite Ew.
  Qed.

  Lemma lock_ok_acq_write : can_write lk = true -> W (lt_pc t') = true -> R (lt_pc t') = false ->
    lock_ok (acq_write i lk) (<[i := t']> ths) R W.
  Proof.
    intros Hcan HW' HR'. destruct Hok as [Hw Hr Hnd Hx].
    unfold can_write in Hcan. destruct (rw_writer lk) as [w|] eqn:Ew; [done|].
    destruct (rw_readers lk) as [|r rs] eqn:Er; [|done].
    split; cbn [acq_write rw_readers rw_writer]; rewrite ?Er.
    - intros j. rewrite lt_at_insert by done. destruct (decide (j = i)) as [->|Hne].
      + split; done.
      + rewrite <- Hw. split; [by intros [= ->] | done].
    - intros j. rewrite lt_at_insert by done. destruct (decide (j = i)) as [->|Hne].
      + rewrite HR'. split; [by intros ?%elem_of_nil | done].
      + by rewrite <- Hr.
    - apply NoDup_nil_2.
    - done.
  Qed.

  Lemma lock_ok_rel_write : W (lt_pc t) = true -> W (lt_pc t') = false -> R (lt_pc t') = false ->
    lock_ok (rel_write lk) (<[i := t']> ths) R W.
  Proof.
    intros HW HW' HR'. destruct Hok as [Hw Hr Hnd Hx].
    assert (rw_writer lk = Some i) as Ew by (by rewrite Hw, lt_at_self).
    assert (rw_readers lk = []) as Er by (apply Hx; by rewrite Ew).
    split; cbn [rel_write rw_readers rw_writer]; rewrite ?Er.
    - intros j. rewrite lt_at_insert by done. destruct (decide (j = i)) as [->|Hne].
      + rewrite HW'. split; done.
      + rewrite <- Hw, Ew. split; [done | by intros [= ->]].
    - intros j. rewrite lt_at_insert by done. destruct (decide (j = i)) as [->|Hne].
      + rewrite HR'. split; [by intros ?%elem_of_nil | done].
      + rewrite <- Hr, Er. done.
    - apply NoDup_nil_2.
    - done.
  Qed.
End lock_step_lemmas.

Section lock.
  Variable hash : cs_data -> N.

  (** which program points wait with a scanned length *)
  Definition lpc_scanned (p : lpc) : option (N * nat) :=
    match p with LScanned _ h n | LWrite _ h n => Some (h, n) | _ => None end.

  Record lock_inv (L : lstate) : Prop := mk_lock_inv {
    li_md : lock_ok (l_md L) (l_threads L) holds_md_read holds_md_write;
    li_str : lock_ok (l_str L) (l_threads L) holds_str_read holds_str_write;
    li_bound : forall j t h n, l_threads L !! j = Some t -> lpc_scanned (lt_pc t) = Some (h, n) ->
      (n <= List.length (bucket_of (l_arena L) h))%nat }.

  Lemma lock_inv_init lists : lock_inv (lock_init lists).
  Proof.
    assert (forall j P, P LIdle = false -> ~ lt_at (lthread_init <$> lists) j P) as Hno.
    { intros j P HP (t & Ht & Hp). apply list_lookup_fmap_Some in Ht as (l & _ & ->). cbn in Hp. congruence. }
    split; unfold lock_init; cbn [l_md l_str l_threads l_arena].
    - split; cbn; try done.
      + intros j. split; [done | by intros ?%Hno].
      + intros j. split; [by intros ?%elem_of_nil | by intros ?%Hno].
      + apply NoDup_nil_2.
    - split; cbn; try done.
      + intros j. split; [done | by intros ?%Hno].
      + intros j. split; [by intros ?%elem_of_nil | by intros ?%Hno].
      + apply NoDup_nil_2.
    - intros j t h n Ht. apply list_lookup_fmap_Some in Ht as (l & _ & ->). done.
  Qed.

  (** the bound survives a step of another thread or of this thread as long as buckets only grow *)
  Lemma bound_step L a' i t' :
    lock_inv L -> (i < List.length (l_threads L))%nat ->
    (forall h, exists k, bucket_of a' h = bucket_of (l_arena L) h ++ k) ->
    (forall h n, lpc_scanned (lt_pc t') = Some (h, n) -> (n <= List.length (bucket_of a' h))%nat) ->
    forall j t h n, <[i := t']> (l_threads L) !! j = Some t -> lpc_scanned (lt_pc t) = Some (h, n) ->
      (n <= List.length (bucket_of a' h))%nat.
  Proof.
    intros I Hi Hgrow Hnew j t h n Hj Hp. destruct (decide (j = i)) as [->|Hne].
    - rewrite list_lookup_insert in Hj by done. injection Hj as <-. by apply Hnew.
    - rewrite list_lookup_insert_ne in Hj by done.
      pose proof (li_bound _ I j t h n Hj Hp) as Hb. destruct (Hgrow h) as (k & ->).
      rewrite app_length. lia.
  Qed.

  Ltac side Hpc :=
    cbn [lt_pc holds_md_read holds_md_write holds_str_read holds_str_write]; rewrite ?Hpc;
    cbn [holds_md_read holds_md_write holds_str_read holds_str_write]; done.
  Ltac lock_keep I Ht Hpc f := eapply lock_ok_keep; [apply (f _ I) | exact Ht | side Hpc | side Hpc].

  Lemma grow_refl a : forall h, exists k, bucket_of a h = bucket_of a h ++ k.
  Proof. intros h. exists []. by rewrite app_nil_r. Qed.

  Lemma grow_strings a ss : forall h, exists k,
    bucket_of (mk_arena (heap a) (buckets a) ss) h = bucket_of a h ++ k.
  Proof. intros h. exists []. by rewrite app_nil_r. Qed.

  Lemma grow_or_default a h0 : forall h, exists k,
    bucket_of (mk_arena (heap a) (<[h0 := bucket_of a h0]> (buckets a)) (strings a)) h = bucket_of a h ++ k.
  Proof.
    intros h. exists []. rewrite app_nil_r. destruct (decide (h0 = h)) as [<-|Hne].
    - by rewrite bucket_of_insert_same.
    - by rewrite bucket_of_insert_ne.
  Qed.

  Lemma grow_push a h0 m hp : forall h, exists k,
    bucket_of (mk_arena hp (<[h0 := bucket_of a h0 ++ [m]]> (buckets a)) (strings a)) h = bucket_of a h ++ k.
  Proof.
    intros h. destruct (decide (h0 = h)) as [<-|Hne].
    - rewrite bucket_of_insert_same. eauto.
    - exists []. rewrite app_nil_r. by rewrite bucket_of_insert_ne.
  Qed.

  (** one micro-step preserves the lock discipline and never hits the slice panic *)
  Lemma lstep_inv L i : lock_inv L ->
    match lstep hash L i with
    | LSok L' => lock_inv L'
    | LSpanic => False
    | LSblocked | LSskip => True
    end.
  Proof.
    intros I. unfold lstep. destruct (l_threads L !! i) as [t|] eqn:Ht; [|done].
    pose proof (lookup_lt_Some _ _ _ Ht) as Hi.
    destruct (lt_pc t) as [|d h|d h n|d h n|d h todo|d h s todo|d h s todo|d h s todo] eqn:Hpc.
    - (* LIdle *)
      destruct (lt_todo t) as [|d rest]; [done|]. destruct (can_read (l_md L)) eqn:Hcan; [|done].
      split; unfold lset; cbn [l_md l_str l_threads l_arena].
      + eapply lock_ok_acq_read; [apply (li_md _ I) | exact Ht | exact Hcan | side Hpc..].
      + lock_keep I Ht Hpc li_str.
      + eapply bound_step; [exact I | exact Hi | apply grow_refl | done].
    - (* LRead *)
      assert (forall t', holds_md_read (lt_pc t') = false -> holds_md_write (lt_pc t') = false ->
                holds_str_read (lt_pc t') = false -> holds_str_write (lt_pc t') = false ->
                (forall h' n', lpc_scanned (lt_pc t') = Some (h', n') ->
                   (n' <= List.length (bucket_of (l_arena L) h'))%nat) ->
                lock_inv (lset L (l_arena L) (rel_read i (l_md L)) (l_str L) i t')) as Hgo.
      { intros t' H1 H2 H3 H4 Hb. split; unfold lset; cbn [l_md l_str l_threads l_arena].
        - eapply lock_ok_rel_read; [apply (li_md _ I) | exact Ht | side Hpc | done | done].
        - eapply lock_ok_keep; [apply (li_str _ I) | exact Ht | rewrite Hpc, H3; done | rewrite Hpc, H4; done].
        - eapply bound_step; [exact I | exact Hi | apply grow_refl | exact Hb]. }
      destruct (buckets (l_arena L) !! h) as [bk|] eqn:Hb.
      + destruct (scan d bk) as [m|]; apply Hgo; try done.
        cbn. intros h' n' [= <- <-]. unfold bucket_of. by rewrite Hb.
      + apply Hgo; try done. cbn. intros h' n' [= <- <-]. lia.
    - (* LScanned *)
      destruct (can_write (l_md L)) eqn:Hcan; [|done].
      split; unfold lset; cbn [l_md l_str l_threads l_arena].
      + eapply lock_ok_acq_write; [apply (li_md _ I) | exact Ht | exact Hcan | side Hpc..].
      + lock_keep I Ht Hpc li_str.
      + eapply bound_step; [exact I | exact Hi | apply grow_refl |].
        cbn. intros h' n' [= <- <-]. apply (li_bound _ I i t h n Ht). by rewrite Hpc.
    - (* LWrite *)
      assert (n <= List.length (bucket_of (l_arena L) h))%nat as Hn.
      { apply (li_bound _ I i t h n Ht). by rewrite Hpc. }
      apply Nat.leb_le in Hn. rewrite Hn.
      destruct (scan d (drop n (bucket_of (l_arena L) h))) as [m|].
      + split; unfold lset; cbn [l_md l_str l_threads l_arena].
        * eapply lock_ok_rel_write; [apply (li_md _ I) | exact Ht | side Hpc..].
        * lock_keep I Ht Hpc li_str.
        * eapply bound_step; [exact I | exact Hi | apply grow_or_default | done].
      + split; unfold lset; cbn [l_md l_str l_threads l_arena].
        * lock_keep I Ht Hpc li_md.
        * lock_keep I Ht Hpc li_str.
        * eapply bound_step; [exact I | exact Hi | apply grow_or_default | done].
    - (* LLeak *)
      destruct todo as [|s todo].
      + split; unfold lset; cbn [l_md l_str l_threads l_arena].
        * eapply lock_ok_rel_write; [apply (li_md _ I) | exact Ht | side Hpc..].
        * lock_keep I Ht Hpc li_str.
        * eapply bound_step; [exact I | exact Hi | apply grow_push | done].
      + destruct (can_read (l_str L)) eqn:Hcan; [|done].
        split; unfold lset; cbn [l_md l_str l_threads l_arena].
        * lock_keep I Ht Hpc li_md.
        * eapply lock_ok_acq_read; [apply (li_str _ I) | exact Ht | exact Hcan | side Hpc..].
        * eapply bound_step; [exact I | exact Hi | apply grow_refl | done].
    - (* LStrRead *)
      destruct (str_get (strings (l_arena L)) s);
        (split; unfold lset; cbn [l_md l_str l_threads l_arena];
         [ lock_keep I Ht Hpc li_md
         | eapply lock_ok_rel_read; [apply (li_str _ I) | exact Ht | side Hpc..]
         | eapply bound_step; [exact I | exact Hi | apply grow_refl | done] ]).
    - (* LStrScanned *)
      destruct (can_write (l_str L)) eqn:Hcan; [|done].
      split; unfold lset; cbn [l_md l_str l_threads l_arena].
      + lock_keep I Ht Hpc li_md.
      + eapply lock_ok_acq_write; [apply (li_str _ I) | exact Ht | exact Hcan | side Hpc..].
      + eapply bound_step; [exact I | exact Hi | apply grow_refl | done].
    - (* LStrWrite *)
      split; unfold lset; cbn [l_md l_str l_threads l_arena].
      + lock_keep I Ht Hpc li_md.
      + eapply lock_ok_rel_write; [apply (li_str _ I) | exact Ht | side Hpc..].
      + eapply bound_step; [exact I | exact Hi | apply grow_strings | done].
  Qed.

  Lemma lrun_inv msch : forall L, lock_inv L -> exists L', lrun hash L msch = Some L' /\ lock_inv L'.
  Proof.
    induction msch as [|i msch IH]; intros L I; cbn [lrun]; [eauto|].
    pose proof (lstep_inv L i I) as S. destruct (lstep hash L i) as [L1| | |]; try done; by apply IH.
  Qed.

  (** every micro-schedule runs without a panic *)
  Lemma lrun_total lists msch : exists L, lrun hash (lock_init lists) msch = Some L /\ lock_inv L.
  Proof. apply lrun_inv, lock_inv_init. Qed.

  Lemma lrun_reach lists msch L : lrun hash (lock_init lists) msch = Some L -> lock_inv L.
  Proof.
    intros E. destruct (lrun_total lists msch) as (L' & E' & I). rewrite E in E'. by injection E' as <-.
  Qed.

  (** a thread that holds a strings guard holds the metadata write guard *)
  Lemma str_inside_md p : holds_str_read p = true \/ holds_str_write p = true -> holds_md_write p = true.
  Proof. destruct p; cbn; intros [?|?]; done. Qed.

  (** ** progress: some thread can always move *)
  Lemma lock_progress L : lock_inv L -> lall_done L = false -> exists i, lenabled hash L i = true.
  Proof.
    intros I ND.
    pose proof (li_md _ I) as [Mw Mr _ Mx]. pose proof (li_str _ I) as [Sw Sr _ Sx].
    destruct (rw_writer (l_md L)) as [i|] eqn:Ew.
    - (* the holder of metadata.write can move: the strings lock is never contended *)
      exists i. destruct (proj1 (Mw i) eq_refl) as (t & Ht & Hp).
      assert (forall j, lt_at (l_threads L) j holds_md_write -> j = i) as Honly.
      { intros j Hj. apply Mw in Hj. congruence. }
      assert (holds_str_write (lt_pc t) = false -> rw_writer (l_str L) = None) as Hsw.
      { intros Hno. destruct (rw_writer (l_str L)) as [j|] eqn:E; [|done].
        destruct (proj1 (Sw j) eq_refl) as (tj & Hj & Hpj).
        assert (j = i) as -> by (apply Honly; exists tj; split; [done|]; apply str_inside_md; by right).
        rewrite Ht in Hj. injection Hj as <-. congruence. }
      assert (holds_str_read (lt_pc t) = false -> rw_readers (l_str L) = []) as Hsr.
      { intros Hno. destruct (rw_readers (l_str L)) as [|j r] eqn:E; [done|].
        assert (j ∈ j :: r) as Hin by left.
        apply Sr in Hin as (tj & Hj & Hpj).
        assert (j = i) as -> by (apply Honly; exists tj; split; [done|]; apply str_inside_md; by left).
        rewrite Ht in Hj. injection Hj as <-. congruence. }
      pose proof (lstep_inv L i I) as NP.
      unfold lenabled. unfold lstep in *. rewrite Ht in *.
      destruct (lt_pc t) as [|d h|d h n|d h n|d h todo|d h s todo|d h s todo|d h s todo] eqn:Hpc;
        try done.
      + destruct (_ <=? _)%nat; [|done]. by destruct (scan d _).
      + destruct todo as [|s todo]; [done|].
        unfold can_read. by rewrite Hsw.
      + by destruct (str_get _ s).
      + unfold can_write. by rewrite Hsw, Hsr.
    - destruct (rw_readers (l_md L)) as [|j r] eqn:Er.
      + (* nobody holds the metadata lock: any unfinished thread can acquire it *)
        unfold lall_done in ND. apply not_true_iff_false in ND.
        assert (exists k t, l_threads L !! k = Some t /\ lthread_done t = false) as (k & t & Hk & Hnd).
        { destruct (forallb lthread_done (l_threads L)) eqn:E; [done|].
          clear -E. induction (l_threads L) as [|t ths IH]; [done|]. cbn in E.
          destruct (lthread_done t) eqn:Et.
          - destruct (IH E) as (k & t' & Hk & Hd). by exists (S k), t'.
          - by exists 0%nat, t. }
        exists k. unfold lenabled, lstep. rewrite Hk.
        assert (holds_md_write (lt_pc t) = false) as Hnw.
        { destruct (holds_md_write (lt_pc t)) eqn:E; [|done].
          assert (@None nat = Some k) by (apply Mw; by exists t). congruence. }
        assert (holds_md_read (lt_pc t) = false) as Hnr.
        { destruct (holds_md_read (lt_pc t)) eqn:E; [|done].
          assert (k ∈ @nil nat) as Hin by (apply Mr; by exists t).
          by apply elem_of_nil in Hin. }
        unfold lthread_done in Hnd.
        destruct (lt_pc t) as [|d h|d h n|d h n|d h todo|d h s todo|d h s todo|d h s todo] eqn:Hpc;
          try done.
        * destruct (lt_todo t) as [|d rest]; [done|]. unfold can_read. by rewrite Ew.
        * unfold can_write. by rewrite Ew, Er.
      + (* a reader of the metadata lock can always finish its scan and release *)
        exists j. assert (j ∈ j :: r) as Hin by left.
        apply Mr in Hin as (t & Ht & Hp). unfold lenabled, lstep. rewrite Ht.
        destruct (lt_pc t) as [|d h|d h n|d h n|d h todo|d h s todo|d h s todo|d h s todo]; try done.
        destruct (buckets (l_arena L) !! h) as [bk|]; [|done]. by destruct (scan d bk).
  Qed.

  (** ** lock discipline, read off the invariant *)

  (** what the lock state says is what the program points say *)
  Lemma holds_lock_md L i : lock_inv L ->
    holds_lock (l_md L) i <->
    exists t, l_threads L !! i = Some t /\ (holds_md_read (lt_pc t) = true \/ holds_md_write (lt_pc t) = true).
  Proof.
    intros I. destruct (li_md _ I) as [Mw Mr _ _]. unfold holds_lock. rewrite Mw, Mr. unfold lt_at.
    split; [intros [(t & ? & ?)|(t & ? & ?)]; eauto | intros (t & ? & [?|?]); eauto].
  Qed.
  Lemma holds_lock_str L i : lock_inv L ->
    holds_lock (l_str L) i <->
    exists t, l_threads L !! i = Some t /\ (holds_str_read (lt_pc t) = true \/ holds_str_write (lt_pc t) = true).
  Proof.
    intros I. destruct (li_str _ I) as [Sw Sr _ _]. unfold holds_lock. rewrite Sw, Sr. unfold lt_at.
    split; [intros [(t & ? & ?)|(t & ? & ?)]; eauto | intros (t & ? & [?|?]); eauto].
  Qed.

  (** mutual exclusion: a write guard excludes every other guard of the same lock *)
  Lemma lock_exclusive L : lock_inv L ->
    (forall i j, rw_writer (l_md L) = Some i -> holds_lock (l_md L) j -> j = i)
    /\ (forall i j, rw_writer (l_str L) = Some i -> holds_lock (l_str L) j -> j = i)
    /\ NoDup (rw_readers (l_md L)) /\ NoDup (rw_readers (l_str L)).
  Proof.
    intros I. destruct (li_md _ I) as [_ _ Mnd Mx]. destruct (li_str _ I) as [_ _ Snd Sx].
    split_and!; try done.
    - intros i j Hw [Hr|Hw']; [|congruence]. rewrite Mx in Hr by congruence. by apply elem_of_nil in Hr.
    - intros i j Hw [Hr|Hw']; [|congruence]. rewrite Sx in Hr by congruence. by apply elem_of_nil in Hr.
  Qed.

  (** lock order: a strings guard is only ever held inside the metadata write guard *)
  Lemma lock_order L i : lock_inv L -> holds_lock (l_str L) i -> rw_writer (l_md L) = Some i.
  Proof.
    intros I (t & Ht & Hp)%holds_lock_str; [|done]. apply (lo_w _ _ _ _ (li_md _ I)).
    exists t. split; [done|]. by apply str_inside_md.
  Qed.

  (** a thread that requests a metadata guard holds no guard at all (so the order is never reversed
      and a reader has released before it asks for the write guard); a thread that requests a strings
      guard holds no strings guard *)
  Lemma lock_requests L i t : lock_inv L -> l_threads L !! i = Some t ->
    (requests_md t = true -> ~ holds_lock (l_md L) i /\ ~ holds_lock (l_str L) i)
    /\ (requests_str t = true -> ~ holds_lock (l_str L) i /\ rw_writer (l_md L) = Some i).
  Proof.
    intros I Ht. rewrite holds_lock_md, holds_lock_str by done. split.
    - intros Hreq. split; intros (t' & Ht' & Hp); rewrite Ht in Ht'; injection Ht' as <-;
        unfold requests_md in Hreq; destruct (lt_pc t); cbn in Hp; destruct Hp; done.
    - intros Hreq. split.
      + intros (t' & Ht' & Hp); rewrite Ht in Ht'; injection Ht' as <-.
        unfold requests_str in Hreq. destruct (lt_pc t); cbn in Hp; destruct Hp; done.
      + apply (lo_w _ _ _ _ (li_md _ I)). exists t. split; [done|].
        unfold requests_str in Hreq. by destruct (lt_pc t) as [| | | |? ? [|]| | |].
  Qed.
End lock.

(** * Termination at the lock level: every micro-step consumes the measure *)
Section lock_termination.
  Variable hash : cs_data -> N.

  Lemma sum_insert (l : list nat) i x y : l !! i = Some x ->
    (fold_right Nat.add 0 (<[i := y]> l) + x = fold_right Nat.add 0 l + y)%nat.
  Proof.
    revert i. induction l as [|a l IH]; intros [|i] H; simpl in *; try done.
    - injection H as ->. lia.
    - specialize (IH i H). lia.
  Qed.

  Lemma lstep_cost L i L' : lstep hash L i = LSok L' -> (lcost L' < lcost L)%nat.
  Proof.
    unfold lstep. destruct (l_threads L !! i) as [t|] eqn:Ht; [|done].
    assert (forall a md str t', (lthread_cost t' < lthread_cost t)%nat ->
              (lcost (lset L a md str i t') < lcost L)%nat) as Hgo.
    { intros a md str t' Hlt. unfold lcost, lset. cbn [l_threads]. rewrite list_fmap_insert.
      assert ((lthread_cost <$> l_threads L) !! i = Some (lthread_cost t)) as Hi.
      { by rewrite list_lookup_fmap, Ht. }
      pose proof (sum_insert _ i _ (lthread_cost t') Hi). lia. }
    unfold lthread_cost in Hgo.
    destruct (lt_pc t) as [|d h|d h n|d h n|d h todo|d h s todo|d h s todo|d h s todo] eqn:Hpc.
    - destruct (lt_todo t) as [|d rest] eqn:Htodo; [done|]. destruct (can_read (l_md L)); [|done].
      intros [= <-]. apply Hgo. cbn. unfold desc_cost. lia.
    - destruct (buckets (l_arena L) !! h) as [bk|]; [destruct (scan d bk)|]; intros [= <-]; apply Hgo;
        cbn; unfold desc_cost; lia.
    - destruct (can_write (l_md L)); [|done]. intros [= <-]. apply Hgo. cbn. unfold desc_cost. lia.
    - destruct (_ <=? _)%nat; [|done]. destruct (scan d _); intros [= <-]; apply Hgo; cbn;
        unfold desc_cost; lia.
    - destruct todo as [|s todo].
      + intros [= <-]. apply Hgo. cbn. lia.
      + destruct (can_read (l_str L)); [|done]. intros [= <-]. apply Hgo. cbn. lia.
    - destruct (str_get _ s); intros [= <-]; apply Hgo; cbn; lia.
    - destruct (can_write (l_str L)); [|done]. intros [= <-]. apply Hgo. cbn. lia.
    - intros [= <-]. apply Hgo. cbn. lia.
  Qed.

  Lemma lrun_cost msch : forall L L', lrun hash L msch = Some L' ->
    (lsteps hash L msch + lcost L' <= lcost L)%nat.
  Proof.
    induction msch as [|i msch IH]; intros L L' E; cbn [lrun lsteps] in *.
    - injection E as <-. lia.
    - pose proof (lstep_cost L i) as Hc. destruct (lstep hash L i) as [L1| | |]; [| by apply IH | by apply IH | done].
      specialize (Hc L1 eq_refl). specialize (IH L1 L' E). lia.
  Qed.

  (** no micro-schedule, however long, contains more steps than the initial measure: together with
      progress, every run that keeps scheduling enabled threads ends with all threads finished *)
  Lemma lock_steps_bounded lists msch :
    (lsteps hash (lock_init lists) msch <= lcost (lock_init lists))%nat.
  Proof.
    destruct (lrun_total hash lists msch) as (L & E & _). pose proof (lrun_cost msch _ _ E). lia.
  Qed.
End lock_termination.

(** * The lock level refines the atomic level *)
Section refine.
  Variable hash : cs_data -> N.

  (** thread [lt] of the lock level stands for thread [ct] of the atomic level; [aL], [aC] are the
      arenas of the two levels.  A critical section of the atomic level happens at the LAST micro-step
      of the lock-protected work (read phase: the scan; write phase: the return on a match, or the
      push); a thread inside [leak_metadata] has already interned [done] in the lock-level arena,
      which no other thread can observe (they are all waiting for the metadata lock). *)
  Definition tsim (aL aC : arena) (lt : lthread) (ct : thread) : Prop :=
    t_res ct = lt_res lt /\
    match lt_pc lt with
    | LIdle => t_pc ct = Idle /\ t_todo ct = lt_todo lt
    | LRead d h => t_pc ct = Idle /\ t_todo ct = d :: lt_todo lt /\ h = hash d
    | LScanned d h n | LWrite d h n => t_pc ct = Scanned d h n /\ t_todo ct = lt_todo lt /\ h = hash d
    | LLeak _ _ _ | LStrRead _ _ _ _ | LStrScanned _ _ _ _ | LStrWrite _ _ _ _ =>
        exists d h rest n done, leak_rest (lt_pc lt) = Some (d, h, rest)
          /\ t_pc ct = Scanned d h n /\ t_todo ct = lt_todo lt /\ h = hash d
          /\ (n <= List.length (bucket_of aC h))%nat /\ scan d (drop n (bucket_of aC h)) = None
          /\ done ++ rest = strs_of d
          /\ aL = mk_arena (heap aC) (<[h := bucket_of aC h]> (buckets aC))
                           (fold_left str_add done (strings aC))
    end.

  Record lsim (L : lstate) (C : cstate) : Prop := mk_lsim {
    ls_len : List.length (l_threads L) = List.length (c_threads C);
    ls_threads : forall j lt ct, l_threads L !! j = Some lt -> c_threads C !! j = Some ct ->
      tsim (l_arena L) (c_arena C) lt ct;
    ls_arena : (forall j lt, l_threads L !! j = Some lt -> leak_rest (lt_pc lt) = None) ->
      l_arena L = c_arena C }.

  Lemma lsim_init lists : lsim (lock_init lists) (conc_init lists).
  Proof.
    split; unfold lock_init, conc_init; cbn [l_threads c_threads l_arena c_arena].
    - by rewrite !fmap_length.
    - intros j lt ct Hl Hc. apply list_lookup_fmap_Some in Hl as (l & Hl & ->).
      rewrite list_lookup_fmap, Hl in Hc. injection Hc as <-. by split.
    - done.
  Qed.

  Lemma leak_rest_holds p : leak_rest p <> None -> holds_md_write p = true.
  Proof. by destruct p. Qed.

  (** threads outside [leak_metadata] do not look at the arenas *)
  Lemma tsim_quiet aL aC aL' aC' lt ct : leak_rest (lt_pc lt) = None ->
    tsim aL aC lt ct -> tsim aL' aC' lt ct.
  Proof. unfold tsim. by destruct (lt_pc lt). Qed.

  (** while thread [i] holds the metadata write guard, nobody else is inside [leak_metadata] *)
  Lemma others_quiet L i t : lock_inv L -> l_threads L !! i = Some t -> holds_md_write (lt_pc t) = true ->
    forall j tj, j <> i -> l_threads L !! j = Some tj -> leak_rest (lt_pc tj) = None.
  Proof.
    intros I Ht Hw j tj Hne Hj. destruct (leak_rest (lt_pc tj)) eqn:E; [|done]. exfalso.
    assert (holds_md_write (lt_pc tj) = true) as Hwj by (apply leak_rest_holds; congruence).
    destruct (li_md _ I) as [Mw _ _ _].
    assert (rw_writer (l_md L) = Some i) by (apply Mw; by exists t).
    assert (rw_writer (l_md L) = Some j) by (apply Mw; by exists tj). congruence.
  Qed.

  (** while thread [i] holds a metadata guard and is not inside [leak_metadata], the arenas agree *)
  Lemma arenas_agree L C i t : lock_inv L -> lsim L C -> l_threads L !! i = Some t ->
    (holds_md_read (lt_pc t) = true \/ holds_md_write (lt_pc t) = true) ->
    leak_rest (lt_pc t) = None -> l_arena L = c_arena C.
  Proof.
    intros I S Ht Hh Hq. apply (ls_arena _ _ S). intros j tj Hj.
    destruct (decide (j = i)) as [->|Hne]; [by rewrite Ht in Hj; injection Hj as <-|].
    destruct (leak_rest (lt_pc tj)) eqn:E; [|done]. exfalso.
    assert (holds_md_write (lt_pc tj) = true) as Hwj by (apply leak_rest_holds; congruence).
    destruct (li_md _ I) as [Mw Mr _ Mx].
    assert (rw_writer (l_md L) = Some j) as Ew by (apply Mw; by exists tj).
    destruct Hh as [Hr|Hw].
    - assert (i ∈ rw_readers (l_md L)) as Hin by (apply Mr; by exists t).
      rewrite Mx in Hin by congruence. by apply elem_of_nil in Hin.
    - assert (rw_writer (l_md L) = Some i) by (apply Mw; by exists t). congruence.
  Qed.

  Lemma step_p1 C i ct d rest :
    c_threads C !! i = Some ct -> t_pc ct = Idle -> t_todo ct = d :: rest ->
    step hash C i = SRok (do_phase1 hash C i ct d rest).
  Proof. intros Ht Hpc Htodo. unfold step, step_phase1. by rewrite Ht, Hpc, Htodo. Qed.

  Lemma step_p2 C i ct d h n a' m b :
    c_threads C !! i = Some ct -> t_pc ct = Scanned d h n ->
    phase2 hash (c_arena C) d n = Some (a', m, b) ->
    step hash C i
    = SRok (mk_cstate a' (<[i := mk_thread (t_todo ct) Idle (t_res ct ++ [(m, b)])]> (c_threads C))
                      (c_log C ++ [mk_lentry i (List.length (t_res ct)) d m b])).
  Proof.
    intros Ht Hpc P2. unfold step, step_phase2. rewrite Ht, Hpc. unfold do_phase2. by rewrite P2.
  Qed.

  (** [lset]/atomic update of thread [i] on both sides *)
  Lemma lsim_update L C i lt' ct' aL' aC' md str lg :
    lsim L C -> (i < List.length (l_threads L))%nat ->
    tsim aL' aC' lt' ct' ->
    (forall j lt ct, j <> i -> l_threads L !! j = Some lt -> c_threads C !! j = Some ct ->
       tsim aL' aC' lt ct) ->
    ((forall j lt, <[i := lt']> (l_threads L) !! j = Some lt -> leak_rest (lt_pc lt) = None) -> aL' = aC') ->
    lsim (lset L aL' md str i lt') (mk_cstate aC' (<[i := ct']> (c_threads C)) lg).
  Proof.
    intros S Hi Hti Hothers Har. split; unfold lset; cbn [l_threads c_threads l_arena c_arena].
    - rewrite !insert_length. apply (ls_len _ _ S).
    - intros j lt ct Hl Hc. destruct (decide (j = i)) as [->|Hne].
      + rewrite list_lookup_insert in Hl by done.
        rewrite list_lookup_insert in Hc by (rewrite <- (ls_len _ _ S); done).
        injection Hl as <-. by injection Hc as <-.
      + rewrite list_lookup_insert_ne in Hl by done. rewrite list_lookup_insert_ne in Hc by done.
        by apply (Hothers j).
    - exact Har.
  Qed.

  (** a step of thread [i] that the atomic level does not see *)
  Lemma lsim_stutter L C i lt lt' ct aL' md str :
    lsim L C -> l_threads L !! i = Some lt -> c_threads C !! i = Some ct ->
    tsim aL' (c_arena C) lt' ct ->
    (forall j tj cj, j <> i -> l_threads L !! j = Some tj -> c_threads C !! j = Some cj ->
       tsim aL' (c_arena C) tj cj) ->
    ((forall j tj, <[i := lt']> (l_threads L) !! j = Some tj -> leak_rest (lt_pc tj) = None) ->
       aL' = c_arena C) ->
    lsim (lset L aL' md str i lt') C.
  Proof.
    intros S Hl Hc Hti Hothers Har.
    pose proof (lookup_lt_Some _ _ _ Hl) as Hi.
    replace C with (mk_cstate (c_arena C) (<[i := ct]> (c_threads C)) (c_log C)) at 1.
    2:{ rewrite list_insert_id by done. by destruct C. }
    apply lsim_update; try done.
  Qed.

  Lemma str_add_get ss s :
    match str_get ss s with Some _ => ss | None => ss ++ [s] end = str_add ss s.
  Proof. unfold str_add. rewrite str_get_spec. by destruct (existsb (String.eqb s) ss). Qed.
  Lemma str_add_found ss s x : str_get ss s = Some x -> str_add ss s = ss.
  Proof. intros H. rewrite <- str_add_get. by rewrite H. Qed.

  (** ** one micro-step is either invisible at the atomic level or exactly one atomic step *)
  Lemma lstep_sim L C i L' : lock_inv L -> lsim L C -> lstep hash L i = LSok L' ->
    lsim L' C \/ exists C', step hash C i = SRok C' /\ lsim L' C'.
  Proof.
    intros I S. unfold lstep. destruct (l_threads L !! i) as [t|] eqn:Ht; [|done].
    pose proof (lookup_lt_Some _ _ _ Ht) as Hi.
    destruct (lookup_lt_is_Some_2 (c_threads C) i) as [ct Hct]; [by rewrite <- (ls_len _ _ S)|].
    pose proof (ls_threads _ _ S i t ct Ht Hct) as [Hres Hpc'].
    assert (forall aL', (forall j tj, j <> i -> l_threads L !! j = Some tj -> leak_rest (lt_pc tj) = None) ->
              forall j tj cj, j <> i -> l_threads L !! j = Some tj -> c_threads C !! j = Some cj ->
                tsim aL' (c_arena C) tj cj) as Hquiet_others.
    { intros aL' Hq j tj cj Hne Hj Hcj. eapply tsim_quiet; [by eapply Hq|]. by eapply (ls_threads _ _ S). }
    assert (forall (lt' : lthread), leak_rest (lt_pc lt') <> None ->
              (forall j tj, <[i := lt']> (l_threads L) !! j = Some tj -> leak_rest (lt_pc tj) = None) ->
              False) as Hnotquiet.
    { intros lt' Hl Hall. apply Hl, (Hall i). by rewrite list_lookup_insert. }
    destruct (lt_pc t) as [|d h|d h n|d h n|d h todo|d h s todo|d h s todo|d h s todo] eqn:Hpc.
    - (* LIdle: request metadata.read *)
      destruct Hpc' as [Hp Htd].
      destruct (lt_todo t) as [|d rest] eqn:Htodo; [done|]. destruct (can_read (l_md L)); [|done].
      intros [= <-]. left. eapply lsim_stutter; [exact S | exact Ht | exact Hct | | |].
      + split; [done|]. cbn. by rewrite Htd.
      + intros j tj cj Hne Hj Hcj. by apply (ls_threads _ _ S j).
      + intros Hall. apply (ls_arena _ _ S). intros j tj Hj. destruct (decide (j = i)) as [->|Hne].
        * rewrite Ht in Hj. injection Hj as <-. by rewrite Hpc.
        * apply (Hall j). by rewrite list_lookup_insert_ne.
    - (* LRead: the scan = the atomic read phase *)
      destruct Hpc' as (Hp & Htd & ->).
      assert (l_arena L = c_arena C) as Ea.
      { eapply arenas_agree; try done; rewrite Hpc; cbn; auto. }
      assert (forall j tj, j <> i -> l_threads L !! j = Some tj -> leak_rest (lt_pc tj) = None) as Hq.
      { intros j tj Hne Hj. destruct (leak_rest (lt_pc tj)) eqn:E; [|done]. exfalso.
        assert (holds_md_write (lt_pc tj) = true) as Hwj by (apply leak_rest_holds; congruence).
        destruct (li_md _ I) as [Mw Mr _ Mx].
        assert (rw_writer (l_md L) = Some j) as Ew by (apply Mw; by exists tj).
        assert (i ∈ rw_readers (l_md L)) as Hin by (apply Mr; exists t; by rewrite Hpc).
        rewrite Mx in Hin by congruence. by apply elem_of_nil in Hin. }
      intros HL'. right. rewrite (step_p1 C i ct d (lt_todo t) Hct Hp Htd).
      eexists. split; [reflexivity|]. unfold do_phase1, phase1. rewrite <- Ea.
      destruct (buckets (l_arena L) !! hash d) as [bk|] eqn:Hb.
      + destruct (scan d bk) as [m|]; injection HL' as <-; rewrite Ea.
        * apply lsim_update; [exact S | exact Hi | | | done].
          -- split; cbn; [by rewrite Hres | done].
          -- intros j tj cj Hne Hj Hcj. eapply tsim_quiet; [by eapply Hq|]. by apply (ls_threads _ _ S j).
        * apply lsim_update; [exact S | exact Hi | | | done].
          -- split; cbn; [done | done].
          -- intros j tj cj Hne Hj Hcj. eapply tsim_quiet; [by eapply Hq|]. by apply (ls_threads _ _ S j).
      + injection HL' as <-. rewrite Ea. apply lsim_update; [exact S | exact Hi | | | done].
        * split; cbn; [done | done].
        * intros j tj cj Hne Hj Hcj. eapply tsim_quiet; [by eapply Hq|]. by apply (ls_threads _ _ S j).
    - (* LScanned: request metadata.write *)
      destruct Hpc' as (Hp & Htd & ->). destruct (can_write (l_md L)); [|done].
      intros [= <-]. left. eapply lsim_stutter; [exact S | exact Ht | exact Hct | | |].
      + split; [done|]. cbn. done.
      + intros j tj cj Hne Hj Hcj. by apply (ls_threads _ _ S j).
      + intros Hall. apply (ls_arena _ _ S). intros j tj Hj. destruct (decide (j = i)) as [->|Hne].
        * rewrite Ht in Hj. injection Hj as <-. by rewrite Hpc.
        * apply (Hall j). by rewrite list_lookup_insert_ne.
    - (* LWrite: or_default, tail scan *)
      destruct Hpc' as (Hp & Htd & ->).
      assert (l_arena L = c_arena C) as Ea.
      { eapply arenas_agree; try done; rewrite Hpc; cbn; auto. }
      assert (forall j tj, j <> i -> l_threads L !! j = Some tj -> leak_rest (lt_pc tj) = None) as Hq.
      { eapply others_quiet; try done. by rewrite Hpc. }
      destruct (n <=? List.length (bucket_of (l_arena L) (hash d)))%nat eqn:Hn; [|done].
      destruct (scan d (drop n (bucket_of (l_arena L) (hash d)))) as [m|] eqn:Hs; intros [= <-].
      + (* found in the tail: the atomic write phase returns it *)
        right. eexists. split.
        * eapply step_p2; [exact Hct | exact Hp |]. unfold phase2. fold (bucket_of (c_arena C) (hash d)).
          rewrite <- Ea, Hn, Hs. reflexivity.
        * apply lsim_update; [exact S | exact Hi | | | done].
          -- split; cbn; [by rewrite Hres | done].
          -- intros j tj cj Hne Hj Hcj. eapply tsim_quiet; [by eapply Hq|]. by apply (ls_threads _ _ S j).
      + (* not found: leak_metadata starts; nothing visible yet *)
        left. eapply lsim_stutter; [exact S | exact Ht | exact Hct | | |].
        * split; [done|]. cbn. exists d, (hash d), (strs_of d), n, []. rewrite <- Ea.
          apply Nat.leb_le in Hn. split_and!; done.
        * by apply Hquiet_others.
        * intros Hall. exfalso. eapply (Hnotquiet _ _ Hall). Unshelve. done.
    - (* LLeak *)
      destruct Hpc' as (d0 & h0 & rest & n & done & Hlr & Hp & Htd & Hh & Hn & Hs & Hdone & EaL).
      cbn in Hlr. injection Hlr as <- <- <-. subst h.
      assert (forall j tj, j <> i -> l_threads L !! j = Some tj -> leak_rest (lt_pc tj) = None) as Hq.
      { eapply others_quiet; try done. by rewrite Hpc. }
      destruct todo as [|s todo].
      + (* everything interned: leak the Metadata, push = the atomic write phase *)
        intros [= <-]. right. rewrite app_nil_r in Hdone. subst done.
        eexists. split.
        * eapply step_p2; [exact Hct | exact Hp |]. unfold phase2. fold (bucket_of (c_arena C) (hash d)).
          apply Nat.leb_le in Hn. rewrite Hn, Hs, leak_metadata_spec. reflexivity.
        * rewrite EaL. cbn [heap buckets strings]. rewrite bucket_of_insert_same.
          apply lsim_update; [exact S | exact Hi | | | done].
          -- split; cbn; [by rewrite Hres | done].
          -- intros j tj cj Hne Hj Hcj. eapply tsim_quiet; [by eapply Hq|]. by apply (ls_threads _ _ S j).
      + destruct (can_read (l_str L)); [|done]. intros [= <-]. left. eapply lsim_stutter; [exact S | exact Ht | exact Hct | | |].
        * split; [done|]. cbn. exists d, (hash d), (s :: todo), n, done. split_and!; done.
        * by apply Hquiet_others.
        * intros Hall. exfalso. eapply (Hnotquiet _ _ Hall). Unshelve. done.
    - (* LStrRead *)
      destruct Hpc' as (d0 & h0 & rest & n & done & Hlr & Hp & Htd & Hh & Hn & Hs & Hdone & EaL).
      cbn in Hlr. injection Hlr as <- <- <-. subst h.
      assert (forall j tj, j <> i -> l_threads L !! j = Some tj -> leak_rest (lt_pc tj) = None) as Hq.
      { eapply others_quiet; try done. by rewrite Hpc. }
      destruct (str_get (strings (l_arena L)) s) as [x|] eqn:Hg; intros [= <-]; left;
        (eapply lsim_stutter; [exact S | exact Ht | exact Hct | | |]).
      * split; [done|]. cbn. exists d, (hash d), todo, n, (done ++ [s]). split_and!; try done.
        -- by rewrite <- app_assoc.
        -- rewrite fold_left_app. cbn [fold_left]. rewrite EaL in Hg. cbn [strings] in Hg.
           by rewrite (str_add_found _ _ _ Hg).
      * by apply Hquiet_others.
      * intros Hall. exfalso. eapply (Hnotquiet _ _ Hall). Unshelve. done.
      * split; [done|]. cbn. exists d, (hash d), (s :: todo), n, done. split_and!; done.
      * by apply Hquiet_others.
      * intros Hall. exfalso. eapply (Hnotquiet _ _ Hall). Unshelve. done.
    - (* LStrScanned *)
      destruct Hpc' as (d0 & h0 & rest & n & done & Hlr & Hp & Htd & Hh & Hn & Hs & Hdone & EaL).
      cbn in Hlr. injection Hlr as <- <- <-. subst h.
      assert (forall j tj, j <> i -> l_threads L !! j = Some tj -> leak_rest (lt_pc tj) = None) as Hq.
      { eapply others_quiet; try done. by rewrite Hpc. }
      destruct (can_write (l_str L)); [|done]. intros [= <-]. left. eapply lsim_stutter; [exact S | exact Ht | exact Hct | | |].
      * split; [done|]. cbn. exists d, (hash d), (s :: todo), n, done. split_and!; done.
      * by apply Hquiet_others.
      * intros Hall. exfalso. eapply (Hnotquiet _ _ Hall). Unshelve. done.
    - (* LStrWrite *)
      destruct Hpc' as (d0 & h0 & rest & n & done & Hlr & Hp & Htd & Hh & Hn & Hs & Hdone & EaL).
      cbn in Hlr. injection Hlr as <- <- <-. subst h.
      assert (forall j tj, j <> i -> l_threads L !! j = Some tj -> leak_rest (lt_pc tj) = None) as Hq.
      { eapply others_quiet; try done. by rewrite Hpc. }
      intros [= <-]. left. eapply lsim_stutter; [exact S | exact Ht | exact Hct | | |].
      * split; [done|]. cbn. exists d, (hash d), todo, n, (done ++ [s]). split_and!; try done.
        -- by rewrite <- app_assoc.
        -- rewrite str_add_get, fold_left_app. cbn [fold_left]. rewrite EaL. reflexivity.
      * by apply Hquiet_others.
      * intros Hall. exfalso. eapply (Hnotquiet _ _ Hall). Unshelve. done.
  Qed.

  Lemma lrun_sim msch : forall L C L', lock_inv L -> lsim L C -> lrun hash L msch = Some L' ->
    exists sch C', run_sched hash C sch = Some C' /\ lsim L' C'.
  Proof.
    induction msch as [|i msch IH]; intros L C L' I S E; cbn [lrun] in E.
    - injection E as <-. exists [], C. done.
    - pose proof (lstep_inv hash L i I) as I1. pose proof (lstep_sim L C i) as S1.
      destruct (lstep hash L i) as [L1| | |]; [| by eapply IH | by eapply IH | done].
      destruct (S1 L1 I S eq_refl) as [S'|(C1 & Est & S')].
      + by eapply IH.
      + destruct (IH L1 C1 L' I1 S' E) as (sch & C' & Er & S''). exists (i :: sch), C'.
        cbn [run_sched]. by rewrite Est.
  Qed.

  (** every lock-level run is an atomic-level run *)
  Lemma lock_refines_atomic lists msch L :
    lrun hash (lock_init lists) msch = Some L ->
    exists sch st, run_sched hash (conc_init lists) sch = Some st /\ lsim L st.
  Proof. apply lrun_sim; [apply lock_inv_init | apply lsim_init]. Qed.

  (** in particular a complete lock-level run ends in the arena and with the per-thread results of a
      complete atomic-level run, to which all atomic-level theorems apply *)
  Lemma lock_complete_is_atomic lists msch L :
    lrun hash (lock_init lists) msch = Some L -> lall_done L = true ->
    exists sch st, run_sched hash (conc_init lists) sch = Some st /\ all_done st = true
      /\ l_arena L = c_arena st /\ lt_res <$> l_threads L = t_res <$> c_threads st.
  Proof.
    intros E D. destruct (lock_refines_atomic lists msch L E) as (sch & st & Er & S).
    exists sch, st. split; [done|].
    unfold lall_done in D. rewrite forallb_forall in D.
    assert (forall j lt, l_threads L !! j = Some lt -> lt_pc lt = LIdle /\ lt_todo lt = []) as Hidle.
    { intros j lt Hj. specialize (D lt). unfold lthread_done in D.
      destruct (lt_pc lt), (lt_todo lt); try done;
        exfalso; (assert (false = true) as X; [apply D, elem_of_list_In; by eapply elem_of_list_lookup_2 | done]). }
    split_and!.
    - unfold all_done. apply forallb_forall. intros ct (j & Hc)%elem_of_list_In%elem_of_list_lookup.
      destruct (lookup_lt_is_Some_2 (l_threads L) j) as [lt Hl].
      { rewrite (ls_len _ _ S). by eapply lookup_lt_Some. }
      destruct (Hidle j lt Hl) as [Hp Ht]. destruct (ls_threads _ _ S j lt ct Hl Hc) as [_ Hs].
      rewrite Hp in Hs. destruct Hs as [Hpc Htd]. unfold thread_done. by rewrite Hpc, Htd, Ht.
    - apply (ls_arena _ _ S). intros j lt Hl. destruct (Hidle j lt Hl) as [-> _]. done.
    - apply list_eq. intros j. rewrite !list_lookup_fmap.
      destruct (l_threads L !! j) as [lt|] eqn:Hl, (c_threads st !! j) as [ct|] eqn:Hc; cbn; try done.
      + destruct (ls_threads _ _ S j lt ct Hl Hc) as [-> _]. done.
      + apply lookup_lt_Some in Hl. apply lookup_ge_None in Hc. rewrite (ls_len _ _ S) in Hl. lia.
      + apply lookup_lt_Some in Hc. apply lookup_ge_None in Hl. rewrite (ls_len _ _ S) in Hl. lia.
  Qed.

  (** the C10 conclusions for complete runs of the lock level *)
  Lemma lock_level_exactly_once lists msch L :
    lrun hash (lock_init lists) msch = Some L -> lall_done L = true ->
    (forall i p d1 m1 b1 j q d2 m2 b2,
        lfinished_with lists L i p d1 m1 b1 -> lfinished_with lists L j q d2 m2 b2 ->
        (m_ptr m1 = m_ptr m2 <-> d1 = d2) /\ (m_ptr m1 = m_ptr m2 -> m1 = m2))
    /\ (forall i p d m b, lfinished_with lists L i p d m b ->
          to_data m = d /\ deref (l_arena L) (m_ptr m) = Some m)
    /\ (forall i l p d, lists !! i = Some l -> l !! p = Some d -> exists m b, lfinished_with lists L i p d m b)
    /\ (forall d, announced lists d -> exists i p m, lfinished_with lists L i p d m true)
    /\ (forall i p j q d m1 m2, lfinished_with lists L i p d m1 true ->
          lfinished_with lists L j q d m2 true -> i = j /\ p = q)
    /\ NoDup (to_data <$> heap (l_arena L))
    /\ (forall d, d ∈ to_data <$> heap (l_arena L) <-> announced lists d)
    /\ List.length (heap (l_arena L)) = List.length (distinct_descs (List.concat lists)).
  Proof.
    intros E D. destruct (lock_complete_is_atomic lists msch L E D) as (sch & st & Er & Dst & Ea & Eres).
    assert (forall i p d m b, lfinished_with lists L i p d m b <-> finished_with lists st i p d m b) as Hiff.
    { intros i p d m b. unfold lfinished_with, finished_with.
      assert (lt_res <$> l_threads L !! i = t_res <$> c_threads st !! i) as Hi.
      { by rewrite <- !list_lookup_fmap, Eres. }
      split.
      - intros (t & l & Ht & Hl & Hp & Hr). rewrite Ht in Hi. cbn in Hi.
        destruct (c_threads st !! i) as [ct|]; [|done]. injection Hi as Hi.
        exists ct, l. by rewrite <- Hi.
      - intros (ct & l & Ht & Hl & Hp & Hr). rewrite Ht in Hi. cbn in Hi.
        destruct (l_threads L !! i) as [t|]; [|done]. injection Hi as Hi.
        exists t, l. by rewrite Hi. }
    destruct (conc_new_once hash lists sch st Er Dst) as (Hex & Huniq & Hnd & Helem & Hlen).
    rewrite Ea. split_and!; try done.
    - intros i p d1 m1 b1 j q d2 m2 b2 F1%Hiff F2%Hiff. by eapply conc_identity.
    - intros i p d m b F%Hiff. destruct (conc_content hash lists sch st i p d m b Er F) as (? & _ & ?). done.
    - intros i l p d Hl Hp. destruct (conc_all_finished hash lists sch st i l p d Er Dst Hl Hp) as (m & b & F).
      exists m, b. by apply Hiff.
    - intros d Hd. destruct (Hex d Hd) as (i & p & m & F). exists i, p, m. by apply Hiff.
    - intros i p j q d m1 m2 F1%Hiff F2%Hiff. by eapply Huniq.
  Qed.
End refine.

(** * Statements about runs from the initial state *)
Section reach.
  Variable hash : cs_data -> N.

  Lemma conc_no_panic lists sch : exists st, run_sched hash (conc_init lists) sch = Some st.
  Proof. destruct (run_sched_total hash lists sch) as (st & E & _). eauto. Qed.

  Lemma conc_fair_schedule_exists (lists : list (list cs_data)) : exists sch, enough_turns lists sch = true.
  Proof. exists (sequential_schedule lists). apply sequential_schedule_fair. Qed.

  Lemma lock_no_panic lists msch : exists L, lrun hash (lock_init lists) msch = Some L.
  Proof. destruct (lrun_total hash lists msch) as (L & E & _). eauto. Qed.

  Lemma conc_progress lists msch L :
    lrun hash (lock_init lists) msch = Some L -> lall_done L = false ->
    exists i, lenabled hash L i = true.
  Proof. intros E. apply lock_progress. by eapply lrun_reach. Qed.

  Lemma lock_exclusive_reach lists msch L :
    lrun hash (lock_init lists) msch = Some L ->
    (forall i j, rw_writer (l_md L) = Some i -> holds_lock (l_md L) j -> j = i)
    /\ (forall i j, rw_writer (l_str L) = Some i -> holds_lock (l_str L) j -> j = i)
    /\ NoDup (rw_readers (l_md L)) /\ NoDup (rw_readers (l_str L)).
  Proof. intros E. apply lock_exclusive. by eapply lrun_reach. Qed.

  Lemma lock_order_reach lists msch L i :
    lrun hash (lock_init lists) msch = Some L ->
    holds_lock (l_str L) i -> rw_writer (l_md L) = Some i.
  Proof. intros E. apply lock_order. by eapply lrun_reach. Qed.

  Lemma lock_complete_is_atomic_run lists msch L :
    lrun hash (lock_init lists) msch = Some L -> lall_done L = true ->
    exists sch st, run_sched hash (conc_init lists) sch = Some st /\ all_done st = true
      /\ l_arena L = c_arena st /\ lt_res <$> l_threads L = t_res <$> c_threads st.
  Proof. apply lock_complete_is_atomic. Qed.

  Lemma lock_requests_reach lists msch L i t :
    lrun hash (lock_init lists) msch = Some L -> l_threads L !! i = Some t ->
    (requests_md t = true -> ~ holds_lock (l_md L) i /\ ~ holds_lock (l_str L) i)
    /\ (requests_str t = true -> ~ holds_lock (l_str L) i /\ rw_writer (l_md L) = Some i).
  Proof. intros E. apply lock_requests. by eapply lrun_reach. Qed.
End reach.
