(** Proofs about the composition sender o receiver against the native run (C01, C13). *)
From TT Require Import Values.ValuesProofs Guest.ProgramProofs Tunnel.TypesProofs Tunnel.SenderProofs.
From TT Require Import Tunnel.ReceiverSpec Tunnel.ReceiverInv Tunnel.Tunnel.
From stdpp Require Import gmap.
Arguments firstn : simpl never.
Arguments skipn : simpl never.
Arguments chunks : simpl never.
Arguments extend : simpl never.
Arguments host_vals : simpl never.

Local Arguments N.add : simpl never.
Local Arguments N.sub : simpl never.
Local Arguments N.leb : simpl never.
Local Arguments N.ltb : simpl never.
Local Arguments N.eqb : simpl never.
Local Arguments N.of_nat : simpl never.

(** * Running the receiver over a stream all of whose events are accepted *)
Definition Runs (rs : rstate) (w : world) (evs : list event) (rs' : rstate) (w' : world)
    (hc : list hcall) : Prop :=
  ReceiverMisc.crun rs w evs = (rs', w', hc)
  ∧ orun rs w evs = repeat Accepted (List.length evs).

Lemma Runs_nil rs w : Runs rs w [] rs w [].
Proof. split; reflexivity. Qed.

Lemma Runs_one rs w ev rs' w' hc :
  try_receive rs w ev = (Accepted, rs', w', hc) → Runs rs w [ev] rs' w' hc.
Proof.
  intros H. split; cbn [ReceiverMisc.crun orun List.length repeat]; rewrite H; [|reflexivity].
  by rewrite app_nil_r.
Qed.

Lemma Runs_app rs w e1 rs1 w1 h1 e2 rs2 w2 h2 :
  Runs rs w e1 rs1 w1 h1 → Runs rs1 w1 e2 rs2 w2 h2 → Runs rs w (e1 ++ e2) rs2 w2 (h1 ++ h2).
Proof.
  revert rs w rs1 w1 h1. induction e1 as [|ev r IH]; intros rs w rs1 w1 h1 [H1 H1'] H2.
  - cbn in H1. injection H1 as <- <- <-. exact H2.
  - unfold Runs. cbn [ReceiverMisc.crun orun app List.length repeat] in *.
    destruct (try_receive rs w ev) as [[[o st'] w'] calls] eqn:E.
    destruct (ReceiverMisc.crun st' w' r) as [[st'' w''] calls'] eqn:Er.
    injection H1 as <- <- <-. injection H1' as -> H1'.
    destruct (IH st' w' st'' w'' calls' (conj Er H1') H2) as [G1 G2].
    rewrite G1, G2. split; [by rewrite app_assoc | reflexivity].
Qed.

(** * Values: the host sees the wire values unchanged *)
Lemma host_vals_id md vs :
  (∀ k, In k (map fst vs) → In k (cs_fields md)) → host_vals md vs = vs.
Proof.
  unfold host_vals. induction vs as [|[k v] vs IH]; intros H; [reflexivity|].
  cbn [List.filter fst]. assert (Hk : existsb (String.eqb k) (cs_fields md) = true).
  { apply existsb_seqb. apply H. left. reflexivity. }
  rewrite Hk. f_equal. apply IH. intros k' Hk'. apply H. right. exact Hk'.
Qed.

Lemma host_vals_from_value_set md vals :
  host_vals md (from_value_set (cs_fields md) vals) = from_value_set (cs_fields md) vals.
Proof.
  apply host_vals_id. intros k Hk. apply from_value_set_names in Hk as (i & p & _ & Hn).
  eapply nth_error_In. exact Hn.
Qed.

Lemma site_fields_data sites cs : site_fields sites cs = cs_fields (site_data sites cs).
Proof.
  unfold site_fields, site_data. revert cs. induction sites as [|d sites IH]; intros [|cs]; try reflexivity.
  cbn [nth_error nth]. apply IH.
Qed.

Lemma too_many_fits vs : fits vs = true → too_many vs = None.
Proof. destruct (too_many_spec vs) as [[? ?]|[? ?]]; [done | congruence]. Qed.

Lemma fits_length vs : fits vs = true → (List.length vs <= 32)%nat.
Proof. unfold fits, len, MAX_VALUES. intros H. apply N.leb_le in H. lia. Qed.

Lemma chunks_nil n : chunks n [] = [].
Proof. destruct n; reflexivity. Qed.

Lemma present_small (vs : tvalues) :
  (List.length vs <= 32)%nat →
  firstn 32 vs = vs ∧ chunks (List.length vs) (skipn 32 vs) = [].
Proof.
  intros H. split; [by apply firstn_all2|]. rewrite skipn_all2 by exact H. apply chunks_nil.
Qed.

(** * One event at a time: what [try_receive] does when its lookups succeed *)
Definition lp_kind (lp : option N) : pkind :=
  match lp with Some ph => PExplicit ph | None => PCtx end.

(** the parent of a new span / event resolves *)
Definition parent_resolves (rs : rstate) (parent : option N) (lp : option N) : Prop :=
  match parent with
  | None => lp = None
  | Some q => r_local rs !! q = Some q ∧ lp = Some q
  end.

Lemma tr_callsite rs w id d :
  ∃ w' calls,
    try_receive rs w (ENewCallSite id d)
    = (Accepted, mk_rs (<[id := d]> (r_meta rs)) (r_spans rs) (r_local rs) (r_uncommitted rs) (r_entered rs),
       w', calls)
    ∧ w_next w' = w_next w ∧ strip_reg calls = [].
Proof.
  cbn [try_receive]. unfold on_new_call_site.
  destruct (negb (existsb (cs_data_eqb d) (w_arena w))); eexists _, _; (split; [reflexivity|]); split; reflexivity.
Qed.

Lemma tr_newspan rs w id parent lp m md vals :
  fits vals = true → r_local rs !! id = None → r_meta rs !! m = Some md →
  parent_resolves rs parent lp → host_vals md vals = vals →
  let h := (w_next w + 1)%N in
  try_receive rs w (ENewSpan id parent m vals)
  = (Accepted,
     mk_rs (r_meta rs) (<[id := mk_sd m parent 1 vals]> (r_spans rs)) (<[id := h]> (r_local rs))
           ({[id]} ∪ r_uncommitted rs) (r_entered rs),
     mk_w h (w_arena w), [HNewSpan h md (lp_kind lp) vals]).
Proof.
  intros Hf Hl Hm Hp Hv h. cbn [try_receive]. rewrite (too_many_fits _ Hf), Hl.
  unfold create_local_span. cbn [sd_meta sd_parent sd_values]. rewrite Hm, Hv.
  destruct (present_small vals (fits_length _ Hf)) as [-> ->].
  destruct parent as [q|]; cbn [parent_resolves] in Hp.
  - destruct Hp as [Hq ->]. cbn [negb andb]. unfold map_span_id. rewrite Hq. reflexivity.
  - subst lp. reflexivity.
Qed.

Lemma tr_record rs w id d md vals :
  fits vals = true → r_local rs !! id = Some id → r_spans rs !! id = Some d →
  r_meta rs !! sd_meta d = Some md →
  try_receive rs w (EValuesRecorded id vals)
  = (Accepted,
     set_spans rs (<[id := mk_sd (sd_meta d) (sd_parent d) (sd_refs d) (extend (sd_values d) vals)]> (r_spans rs)),
     w, [HRecord id (host_vals md vals)]).
Proof.
  intros Hf Hl Hs Hm. cbn [try_receive]. rewrite (too_many_fits _ Hf). unfold map_span_id.
  rewrite Hl, Hs, Hm. reflexivity.
Qed.

Lemma tr_enter rs w id :
  r_local rs !! id = Some id →
  ∃ rs', try_receive rs w (ESpanEntered id) = (Accepted, rs', w, [HEnter id])
    ∧ r_meta rs' = r_meta rs ∧ r_spans rs' = r_spans rs ∧ r_local rs' = r_local rs.
Proof.
  intros Hl. cbn [try_receive]. unfold map_span_id. rewrite Hl. eexists. split; [reflexivity|]. done.
Qed.

Lemma tr_exit rs w id :
  r_local rs !! id = Some id →
  ∃ rs', try_receive rs w (ESpanExited id) = (Accepted, rs', w, [HExit id])
    ∧ r_meta rs' = r_meta rs ∧ r_spans rs' = r_spans rs ∧ r_local rs' = r_local rs.
Proof.
  intros Hl. cbn [try_receive]. unfold map_span_id. rewrite Hl. eexists. split; [reflexivity|]. done.
Qed.

Lemma tr_clone rs w id d :
  r_spans rs !! id = Some d →
  try_receive rs w (ESpanCloned id)
  = (Accepted,
     set_spans rs (<[id := mk_sd (sd_meta d) (sd_parent d) (sd_refs d + 1) (sd_values d)]> (r_spans rs)),
     w, []).
Proof. intros Hs. cbn [try_receive]. rewrite Hs. reflexivity. Qed.

Lemma tr_drop_last rs w id d :
  r_spans rs !! id = Some d → sd_refs d = 1%N → r_local rs !! id = Some id →
  try_receive rs w (ESpanDropped id)
  = (Accepted,
     mk_rs (r_meta rs) (delete id (r_spans rs)) (delete id (r_local rs))
           (r_uncommitted rs ∖ {[id]}) (delete id (r_entered rs)),
     w, [HTryClose id]).
Proof. intros Hs Hr Hl. cbn [try_receive]. rewrite Hs, Hr, Hl. reflexivity. Qed.

Lemma tr_drop_more rs w id d :
  r_spans rs !! id = Some d → (1 < sd_refs d)%N →
  try_receive rs w (ESpanDropped id)
  = (Accepted,
     set_spans rs (<[id := mk_sd (sd_meta d) (sd_parent d) (sd_refs d - 1) (sd_values d)]> (r_spans rs)),
     w, []).
Proof.
  intros Hs Hr. cbn [try_receive]. rewrite Hs.
  destruct (N.eqb_spec (sd_refs d) 0) as [E|_]; [lia|].
  destruct (N.eqb_spec (sd_refs d - 1) 0) as [E|_]; [lia|]. reflexivity.
Qed.

Lemma tr_follows rs w a b :
  r_local rs !! a = Some a → r_local rs !! b = Some b →
  try_receive rs w (EFollowsFrom a b) = (Accepted, rs, w, [HFollows a b]).
Proof. intros Ha Hb. cbn [try_receive]. unfold map_span_id. rewrite Ha, Hb. reflexivity. Qed.

Lemma tr_event rs w parent lp m md vals :
  fits vals = true → r_meta rs !! m = Some md → parent_resolves rs parent lp →
  try_receive rs w (ENewEvent m parent vals)
  = (Accepted, rs, w, [HEvent md (lp_kind lp) (host_vals md vals)]).
Proof.
  intros Hf Hm Hp. cbn [try_receive]. rewrite (too_many_fits _ Hf), Hm.
  destruct parent as [q|]; cbn [parent_resolves] in Hp.
  - destruct Hp as [Hq ->]. unfold map_span_id. rewrite Hq. reflexivity.
  - subst lp. reflexivity.
Qed.

(** * The symbolic state: how the live handle counts change *)
Lemma live_refs_beyond st : live_refs st (id_of_index (n_spans st)) = None.
Proof.
  rewrite live_refs_index. unfold handles, n_spans.
  assert (E : nth_error (ss_spans st) (List.length (ss_spans st)) = None) by (apply nth_error_None; lia).
  rewrite E. reflexivity.
Qed.

Lemma live_refs_live st k : live st k = true → live_refs st (id_of_index k) = Some (handles st k).
Proof. intros L. rewrite live_refs_index. unfold live in L. rewrite L. reflexivity. Qed.

Lemma live_pos st k : live st k = true → (1 <= handles st k)%N.
Proof. unfold live. intros L. apply N.ltb_lt in L. lia. Qed.

Lemma live_refs_new st cs id :
  live_refs (mk_sym (ss_spans st ++ [mk_sspan cs 1]) (ss_stacks st)) id
  = if decide (id = id_of_index (n_spans st)) then Some 1%N else live_refs st id.
Proof.
  destruct (decide (id = id_of_index (n_spans st))) as [->|Hne].
  - rewrite live_refs_index, handles_app. unfold n_spans. rewrite Nat.eqb_refl. reflexivity.
  - apply live_refs_other. intros k ->. rewrite handles_app.
    destruct (Nat.eqb_spec k (List.length (ss_spans st))) as [->|_]; [|reflexivity].
    exfalso. apply Hne. reflexivity.
Qed.

Lemma live_refs_set st k h id :
  (k < n_spans st)%nat →
  live_refs (mk_sym (set_handles (ss_spans st) k h) (ss_stacks st)) id
  = if decide (id = id_of_index k) then (if (0 <? h)%N then Some h else None) else live_refs st id.
Proof.
  intros Hlt. unfold n_spans in Hlt. destruct (decide (id = id_of_index k)) as [->|Hne].
  - rewrite live_refs_index, handles_set, Nat.eqb_refl by exact Hlt. reflexivity.
  - apply live_refs_other. intros k' ->. rewrite handles_set by exact Hlt.
    destruct (Nat.eqb_spec k' k) as [->|_]; [exfalso; apply Hne; reflexivity | reflexivity].
Qed.

Lemma span_site_map st k : span_site st k = nth_error (map sp_site (ss_spans st)) k.
Proof. unfold span_site. symmetry. apply nth_error_map. Qed.

Lemma span_site_new st cs k :
  span_site (mk_sym (ss_spans st ++ [mk_sspan cs 1]) (ss_stacks st)) k
  = if decide (k = n_spans st) then Some cs
    else span_site st k.
Proof.
  rewrite !span_site_map. cbn [ss_spans]. rewrite map_app. cbn [map sp_site]. unfold n_spans.
  destruct (decide (k = List.length (ss_spans st))) as [->|Hne].
  - rewrite nth_error_app2 by (rewrite map_length; lia). rewrite map_length, Nat.sub_diag. reflexivity.
  - destruct (Nat.lt_ge_cases k (List.length (ss_spans st))) as [Hlt|Hge].
    + rewrite nth_error_app1 by (rewrite map_length; exact Hlt). reflexivity.
    + assert (E1 : nth_error (map sp_site (ss_spans st) ++ [cs]) k = None)
        by (apply nth_error_None; rewrite app_length, map_length; cbn [List.length]; lia).
      assert (E2 : nth_error (map sp_site (ss_spans st)) k = None)
        by (apply nth_error_None; rewrite map_length; lia).
      rewrite E1, E2. reflexivity.
Qed.

Lemma span_site_set st k h k' :
  span_site (mk_sym (set_handles (ss_spans st) k h) (ss_stacks st)) k' = span_site st k'.
Proof. rewrite !span_site_map. cbn [ss_spans]. rewrite map_site_set_handles. reflexivity. Qed.

Lemma span_site_lt st k cs : span_site st k = Some cs → (k < n_spans st)%nat.
Proof.
  unfold span_site, n_spans. intros H. apply nth_error_Some. destruct (nth_error (ss_spans st) k); [discriminate | discriminate H].
Qed.

Lemma set_handles_length l k h : List.length (set_handles l k h) = List.length l.
Proof.
  revert k. induction l as [|s r IH]; intros [|k]; cbn [set_handles List.length]; try reflexivity.
  rewrite IH. reflexivity.
Qed.

(** * The front end on a well-formed op, in closed form *)
Definition sp_of (p : parent_kind) : sparent :=
  match p with PKCtx => SPCtx | PKRoot => SPRoot | PKExplicit k => SPExplicit (id_of_index k) end.

Definition body_call (sites : list cs_data) (st : sym_state) (o : op) : list scall :=
  match o with
  | ONewSpan cs p vals =>
      [SNewSpan (id_of_index (n_spans st)) cs (sp_of p) (from_value_set (site_fields sites cs) vals)]
  | ORecord k vals =>
      match span_site st k with
      | Some cs => [SRecord (id_of_index k) (from_value_set (site_fields sites cs) vals)]
      | None => []
      end
  | OEnter k => [SEnter (id_of_index k)]
  | OExit k => [SExit (id_of_index k)]
  | OClone k => [SClone (id_of_index k)]
  | ODrop k => [STryClose (id_of_index k)]
  | OFollows k (FLive j) => [SFollows (id_of_index k) (id_of_index j)]
  | OFollows k (FStale raw) => [SFollows (id_of_index k) raw]
  | OEvent cs p vals => [SEvent cs (sp_of p) (from_value_set (site_fields sites cs) vals)]
  end.

Definition reg_part (fs : front_state) (o : op) : list scall * list nat :=
  match op_site o with Some cs => front_register fs cs | None => ([], fs_reg fs) end.

Lemma fs_eta fs : mk_fs (fs_spans fs) (fs_allocs fs) (fs_reg fs) = fs.
Proof. destruct fs. reflexivity. Qed.

Lemma FInv_live_id fs st k :
  FInv fs (map sp_site (ss_spans st)) → live st k = true → fs_span_id fs k = Some (id_of_index k).
Proof.
  intros HI L. rewrite (FInv_span_id _ _ k HI), map_length. apply spec_id_lt. exact (handles_lt _ _ L).
Qed.

Lemma FInv_parent_wf fs st p :
  FInv fs (map sp_site (ss_spans st)) → wf_parent st p = true → front_parent fs p = sp_of p.
Proof.
  intros HI Hp. destruct p as [| |k]; cbn [front_parent sp_of]; try reflexivity.
  cbn [wf_parent] in Hp. rewrite (FInv_live_id _ _ _ HI Hp). reflexivity.
Qed.

Lemma front_step_wf sites st o st' fs :
  wf_step false sites st o = Some st' → FInv fs (map sp_site (ss_spans st)) →
  ∃ fs',
    front_step host_alloc all_enabled sites fs (snd o)
    = (fst (reg_part fs (snd o)) ++ body_call sites st (snd o), fs', false)
    ∧ FInv fs' (map sp_site (ss_spans st'))
    ∧ fs_reg fs' = snd (reg_part fs (snd o)).
Proof.
  destruct o as [tid o]. cbn [snd]. intros Hwf HI. pose proof HI as [Hsp Hal]. rewrite map_length in Hal.
  destruct o as [cs p vals|k vals|k|k|k|k|k t|cs p vals]; cbn [wf_step fst snd] in Hwf;
    cbn [front_step body_call reg_part op_site].
  - (* new span *)
    destruct (wf_site_use sites KSpan cs vals); [|discriminate]. cbn [andb] in Hwf.
    destruct (wf_parent st p) eqn:Hpar; [|discriminate]. injection Hwf as <-.
    destruct (front_register fs cs) as [reg regs]. cbn [fst snd]. unfold all_enabled, host_alloc.
    rewrite (FInv_parent_wf _ _ _ HI Hpar), Hal.
    eexists. split; [reflexivity|]. split; [|reflexivity]. split; cbn [fs_spans fs_allocs ss_spans].
    + rewrite Hsp, map_app, tab_app. cbn [tab Nat.add map sp_site]. rewrite map_length. reflexivity.
    + rewrite map_length, app_length. cbn [List.length]. lia.
  - (* record *)
    unfold span_site in *. destruct (nth_error (ss_spans st) k) as [s|] eqn:Hk; [|discriminate].
    cbn [option_map] in *. destruct (live st k); [|discriminate]. cbn [andb] in Hwf.
    destruct (wf_valset _ vals); [|discriminate]. injection Hwf as <-.
    rewrite Hsp, tab_nth, nth_error_map, Hk. cbn [option_map Nat.add app].
    exists fs. split; [reflexivity|]. split; [exact HI | reflexivity].
  - (* enter *)
    destruct (live st k) eqn:L; [|discriminate]. injection Hwf as <-.
    rewrite (FInv_live_id _ _ _ HI L). exists fs. split; [reflexivity|]. split; [exact HI | reflexivity].
  - (* exit *)
    destruct (live st k) eqn:L; [|discriminate]. cbn [andb] in Hwf.
    destruct (on_stack _ k); [|discriminate]. injection Hwf as <-.
    rewrite (FInv_live_id _ _ _ HI L). exists fs. split; [reflexivity|]. split; [exact HI | reflexivity].
  - (* clone *)
    destruct (live st k) eqn:L; [|discriminate]. injection Hwf as <-.
    rewrite (FInv_live_id _ _ _ HI L). exists fs. split; [reflexivity|]. split; [|reflexivity].
    cbn [ss_spans]. rewrite map_site_set_handles. exact HI.
  - (* drop *)
    destruct (live st k) eqn:L; [|discriminate]. cbn [andb] in Hwf.
    destruct (_ || _); [|discriminate]. injection Hwf as <-.
    rewrite (FInv_live_id _ _ _ HI L). exists fs. split; [reflexivity|]. split; [|reflexivity].
    cbn [ss_spans]. rewrite map_site_set_handles. exact HI.
  - (* follows *)
    destruct (live st k) eqn:L; [|discriminate]. cbn [andb] in Hwf.
    destruct t as [j|raw]; [|cbn [andb] in Hwf; discriminate].
    destruct (live st j) eqn:Lj; [|discriminate]. injection Hwf as <-.
    rewrite (FInv_live_id _ _ _ HI L), (FInv_live_id _ _ _ HI Lj).
    exists fs. split; [reflexivity|]. split; [exact HI | reflexivity].
  - (* event *)
    destruct (wf_site_use sites KEvent cs vals); [|discriminate]. cbn [andb] in Hwf.
    destruct (wf_parent st p) eqn:Hpar; [|discriminate]. injection Hwf as <-.
    destruct (front_register fs cs) as [reg regs]. cbn [fst snd]. unfold all_enabled.
    rewrite (FInv_parent_wf _ _ _ HI Hpar).
    eexists. split; [reflexivity|]. split; [|reflexivity]. split; [exact Hsp | exact (proj2 HI)].
Qed.

(** * [normalise], threaded *)
Fixpoint norm_end (sites : list cs_data) (cnt : gmap N N) (calls : list scall) : gmap N N :=
  match calls with
  | [] => cnt
  | c :: r => norm_end sites (snd (norm_step sites cnt c)) r
  end.

Lemma norm_go_cons sites cnt c r :
  norm_go sites cnt (c :: r) = fst (norm_step sites cnt c) ++ norm_go sites (snd (norm_step sites cnt c)) r.
Proof. cbn [norm_go]. destruct (norm_step sites cnt c). reflexivity. Qed.

Lemma norm_go_app sites a : ∀ cnt b,
  norm_go sites cnt (a ++ b) = norm_go sites cnt a ++ norm_go sites (norm_end sites cnt a) b.
Proof.
  induction a as [|c a IH]; intros cnt b; [reflexivity|].
  rewrite <- app_comm_cons, !norm_go_cons, IH, app_assoc. reflexivity.
Qed.

Lemma norm_end_app sites a : ∀ cnt b,
  norm_end sites cnt (a ++ b) = norm_end sites (norm_end sites cnt a) b.
Proof. induction a as [|c a IH]; intros cnt b; [reflexivity|]. cbn [app norm_end]. apply IH. Qed.

Lemma strip_reg_app a b : strip_reg (a ++ b) = strip_reg a ++ strip_reg b.
Proof. apply List.filter_app. Qed.

Lemma strip_reg_unroot l : strip_reg (map unroot l) = map unroot (strip_reg l).
Proof.
  unfold strip_reg. induction l as [|c l IH]; [reflexivity|]. cbn [map List.filter].
  assert (E : is_hregister (unroot c) = is_hregister c) by (destruct c; reflexivity).
  rewrite E. destruct (negb (is_hregister c)); cbn [map]; rewrite IH; reflexivity.
Qed.

(** * The simulation relation (Lemma A: no stacks involved)

    [st]: symbolic state of the program so far; [regs]: call sites registered so far;
    [rs], [w]: receiver and host; [cnt]: handle counts of [normalise]. *)
Record Sim (mid : nat → N) (sites : list cs_data) (st : sym_state) (regs : list nat)
    (rs : rstate) (w : world) (cnt : gmap N N) : Prop := mk_sim {
  sim_next : w_next w = N.of_nat (n_spans st);
  sim_meta : ∀ cs, In cs regs → r_meta rs !! mid cs = Some (site_data sites cs);
  sim_refs : ∀ id, sd_refs <$> (r_spans rs !! id) = live_refs st id;
  sim_smeta : ∀ k d, r_spans rs !! id_of_index k = Some d →
              ∃ cs, span_site st k = Some cs ∧ sd_meta d = mid cs ∧ In cs regs;
  sim_local : ∀ id, r_local rs !! id = (λ _, id) <$> live_refs st id;
  sim_cnt : ∀ id, cnt !! id = live_refs st id }.

Lemma Sim_init mid sites : Sim mid sites sym_init [] rs_default (mk_w 0 []) ∅.
Proof.
  assert (H : ∀ id, live_refs sym_init id = None).
  { intros id. unfold live_refs, handles. cbn [sym_init ss_spans].
    destruct (id =? 0)%N; [reflexivity|]. destruct (N.to_nat (id - 1)); reflexivity. }
  split; cbn [rs_default r_meta r_spans r_local w_next]; try (intros id; rewrite H, lookup_empty; reflexivity).
  - reflexivity.
  - intros cs [].
  - intros k d Hd. rewrite lookup_empty in Hd. discriminate.
Qed.

Lemma Sim_stacks mid sites st regs rs w cnt stk :
  Sim mid sites st regs rs w cnt → Sim mid sites (mk_sym (ss_spans st) stk) regs rs w cnt.
Proof. intros [H1 H2 H3 H4 H5 H6]. split; [exact H1 | exact H2 | exact H3 | exact H4 | exact H5 | exact H6]. Qed.

Lemma Sim_alive mid sites st regs rs w cnt k :
  Sim mid sites st regs rs w cnt → live st k = true →
  ∃ d cs, r_spans rs !! id_of_index k = Some d ∧ sd_refs d = handles st k
          ∧ span_site st k = Some cs ∧ sd_meta d = mid cs ∧ In cs regs
          ∧ r_meta rs !! mid cs = Some (site_data sites cs)
          ∧ r_local rs !! id_of_index k = Some (id_of_index k)
          ∧ cnt !! id_of_index k = Some (handles st k).
Proof.
  intros HS L. pose proof (sim_refs _ _ _ _ _ _ _ HS (id_of_index k)) as Hr.
  rewrite (live_refs_live _ _ L) in Hr.
  destruct (r_spans rs !! id_of_index k) as [d|] eqn:Ed; [|discriminate]. cbn in Hr.
  destruct (sim_smeta _ _ _ _ _ _ _ HS k d Ed) as (cs & Hcs & Hm & Hin).
  exists d, cs. split_and!; try done.
  - congruence.
  - exact (sim_meta _ _ _ _ _ _ _ HS cs Hin).
  - rewrite (sim_local _ _ _ _ _ _ _ HS), (live_refs_live _ _ L). reflexivity.
  - rewrite (sim_cnt _ _ _ _ _ _ _ HS). exact (live_refs_live _ _ L).
Qed.

(** registration of a call site *)
Lemma sim_reg mid sites st fs rs w cnt cs :
  (∀ a b, mid a = mid b → a = b) → Sim mid sites st (fs_reg fs) rs w cnt →
  ∃ rs' w' hc,
    Runs rs w (map (sender_event mid sites) (fst (front_register fs cs))) rs' w' hc
    ∧ strip_reg hc = []
    ∧ strip_reg (norm_go sites cnt (fst (front_register fs cs))) = []
    ∧ norm_end sites cnt (fst (front_register fs cs)) = cnt
    ∧ Sim mid sites st (snd (front_register fs cs)) rs' w' cnt
    ∧ In cs (snd (front_register fs cs)).
Proof.
  intros Hinj HS. unfold front_register. destruct (registered fs cs) eqn:R; cbn [fst snd map].
  - exists rs, w, []. split; [apply Runs_nil|]. split_and!; try done. by apply registered_in.
  - cbn [sender_event]. destruct (tr_callsite rs w (mid cs) (site_data sites cs)) as (w' & calls & Htr & Hn & Hs).
    eexists _, w', calls. split; [apply Runs_one; exact Htr|]. split_and!; try done; [|by left].
    destruct HS as [H1 H2 H3 H4 H5 H6]. split; cbn [r_meta r_spans r_local]; try done.
    + congruence.
    + intros cs' [<-|Hin]; [apply lookup_insert|].
      destruct (decide (mid cs = mid cs')) as [E|E].
      * apply Hinj in E. subst cs'. apply lookup_insert.
      * rewrite lookup_insert_ne by exact E. exact (H2 cs' Hin).
    + intros k d Hd. destruct (H4 k d Hd) as (c & ? & ? & ?). exists c. split_and!; try done. by right.
Qed.

Lemma unroot_sp p : unroot_pk (pkind_of (sp_of p)) = lp_kind (sender_parent (sp_of p)).
Proof. destruct p; reflexivity. Qed.

Lemma Sim_parent mid sites st regs rs w cnt p :
  Sim mid sites st regs rs w cnt → wf_parent st p = true →
  parent_resolves rs (sender_parent (sp_of p)) (sender_parent (sp_of p)).
Proof.
  intros HS Hp. destruct p as [| |k]; cbn [sp_of sender_parent parent_resolves]; try reflexivity.
  cbn [wf_parent] in Hp. destruct (Sim_alive _ _ _ _ _ _ _ _ HS Hp) as (d & cs & _ & _ & _ & _ & _ & _ & Hl & _).
  split; [exact Hl | reflexivity].
Qed.

Lemma wf_site_use_nth sites kind cs vals :
  wf_site_use sites kind cs vals = true → (cs < List.length sites)%nat.
Proof.
  unfold wf_site_use. destruct (nth_error sites cs) eqn:E; [|discriminate]. intros _.
  apply nth_error_Some. congruence.
Qed.

(** the op itself *)
Lemma sim_body mid sites st o st' regs rs w cnt :
  (∀ a b, mid a = mid b → a = b) →
  wf_step false sites st o = Some st' → Sim mid sites st regs rs w cnt →
  (∀ cs, op_site (snd o) = Some cs → In cs regs) →
  ∃ rs' w' hc,
    Runs rs w (map (sender_event mid sites) (body_call sites st (snd o))) rs' w' hc
    ∧ strip_reg hc = map unroot (strip_reg (norm_go sites cnt (body_call sites st (snd o))))
    ∧ Sim mid sites st' regs rs' w' (norm_end sites cnt (body_call sites st (snd o))).
Proof.
  destruct o as [tid o]. cbn [snd]. intros Hinj Hwf HS Hreg.
  destruct o as [cs p vals|k vals|k|k|k|k|k t|cs p vals]; cbn [wf_step fst snd] in Hwf; cbn [body_call].
  - (* new span *)
    destruct (wf_site_use sites KSpan cs vals) eqn:Hsite; [|discriminate]. cbn [andb] in Hwf.
    destruct (wf_parent st p) eqn:Hpar; [|discriminate]. injection Hwf as <-.
    set (id := id_of_index (n_spans st)). set (vs := from_value_set (site_fields sites cs) vals).
    assert (Hin : In cs regs) by (apply Hreg; reflexivity).
    assert (Hh : (w_next w + 1)%N = id).
    { rewrite (sim_next _ _ _ _ _ _ _ HS). reflexivity. }
    assert (Hfresh : r_local rs !! id = None).
    { rewrite (sim_local _ _ _ _ _ _ _ HS). unfold id. rewrite live_refs_beyond. reflexivity. }
    assert (Hv : host_vals (site_data sites cs) vs = vs).
    { unfold vs. rewrite site_fields_data. apply host_vals_from_value_set. }
    pose proof (tr_newspan rs w id _ _ (mid cs) _ vs (wf_site_use_fits _ _ _ _ Hsite) Hfresh
                  (sim_meta _ _ _ _ _ _ _ HS cs Hin) (Sim_parent _ _ _ _ _ _ _ _ HS Hpar) Hv) as Htr.
    cbv zeta in Htr. rewrite Hh in Htr.
    eexists _, _, _. split; [apply Runs_one; exact Htr|]. split.
    + cbn [norm_go norm_step app strip_reg List.filter is_hregister negb map unroot]. rewrite unroot_sp. reflexivity.
    + cbn [norm_end norm_step snd]. destruct HS as [H1 H2 H3 H4 H5 H6].
      split; cbn [r_meta r_spans r_local w_next ss_spans]; try done.
      * unfold n_spans. cbn [ss_spans]. rewrite app_length. cbn [List.length]. unfold id, id_of_index, n_spans. lia.
      * intros id'. rewrite live_refs_new. fold id. destruct (decide (id' = id)) as [->|Hne].
        -- rewrite lookup_insert. reflexivity.
        -- rewrite lookup_insert_ne by congruence. apply H3.
      * intros k d Hd. rewrite span_site_new. destruct (decide (k = n_spans st)) as [->|Hne].
        -- fold id in Hd. rewrite lookup_insert in Hd. injection Hd as <-. exists cs. done.
        -- rewrite lookup_insert_ne in Hd.
           ++ exact (H4 k d Hd).
           ++ unfold id. intros E. apply id_of_index_inj in E. congruence.
      * intros id'. rewrite live_refs_new. fold id. destruct (decide (id' = id)) as [->|Hne].
        -- rewrite lookup_insert. reflexivity.
        -- rewrite lookup_insert_ne by congruence. apply H5.
      * intros id'. rewrite live_refs_new. fold id. destruct (decide (id' = id)) as [->|Hne].
        -- rewrite lookup_insert. reflexivity.
        -- rewrite lookup_insert_ne by congruence. apply H6.
  - (* record *)
    destruct (span_site st k) as [cs|] eqn:Hcs; [|discriminate].
    destruct (live st k) eqn:L; [|discriminate]. cbn [andb] in Hwf.
    destruct (wf_valset _ vals) eqn:Hv; [|discriminate]. injection Hwf as <-.
    destruct (Sim_alive _ _ _ _ _ _ _ _ HS L) as (d & cs' & Ed & Hd & Hcs' & Hm & Hin & Hmd & Hl & Hc).
    assert (cs' = cs) by congruence. subst cs'.
    pose proof (tr_record rs w (id_of_index k) d (site_data sites cs)
                  (from_value_set (site_fields sites cs) vals) (wf_valset_fits _ _ Hv) Hl Ed) as Htr.
    rewrite Hm in Htr. specialize (Htr Hmd).
    assert (Hhv : host_vals (site_data sites cs) (from_value_set (site_fields sites cs) vals)
                  = from_value_set (site_fields sites cs) vals).
    { rewrite site_fields_data. apply host_vals_from_value_set. }
    rewrite Hhv in Htr.
    eexists _, _, _. split; [apply Runs_one; exact Htr|]. split; [reflexivity|].
    cbn [norm_end norm_step snd]. destruct HS as [H1 H2 H3 H4 H5 H6].
    split; cbn [set_spans r_meta r_spans r_local]; try done.
    + intros id'. destruct (decide (id' = id_of_index k)) as [->|Hne].
      * rewrite lookup_insert. cbn. rewrite <- H3, Ed. reflexivity.
      * rewrite lookup_insert_ne by congruence. apply H3.
    + intros k' d' Hd'. destruct (decide (k' = k)) as [->|Hne].
      * rewrite lookup_insert in Hd'. injection Hd' as <-. cbn [sd_meta]. exists cs. done.
      * rewrite lookup_insert_ne in Hd'; [exact (H4 k' d' Hd')|].
        intros E. apply id_of_index_inj in E. congruence.
  - (* enter *)
    destruct (live st k) eqn:L; [|discriminate]. injection Hwf as <-.
    destruct (Sim_alive _ _ _ _ _ _ _ _ HS L) as (d & cs & _ & _ & _ & _ & _ & _ & Hl & _).
    destruct (tr_enter rs w _ Hl) as (rs' & Htr & E1 & E2 & E3).
    eexists _, _, _. split; [apply Runs_one; exact Htr|]. split; [reflexivity|].
    cbn [norm_end norm_step snd]. apply Sim_stacks.
    destruct HS as [H1 H2 H3 H4 H5 H6]. split; rewrite ?E1, ?E2, ?E3; done.
  - (* exit *)
    destruct (live st k) eqn:L; [|discriminate]. cbn [andb] in Hwf.
    destruct (on_stack _ k); [|discriminate]. injection Hwf as <-.
    destruct (Sim_alive _ _ _ _ _ _ _ _ HS L) as (d & cs & _ & _ & _ & _ & _ & _ & Hl & _).
    destruct (tr_exit rs w _ Hl) as (rs' & Htr & E1 & E2 & E3).
    eexists _, _, _. split; [apply Runs_one; exact Htr|]. split; [reflexivity|].
    cbn [norm_end norm_step snd]. apply Sim_stacks.
    destruct HS as [H1 H2 H3 H4 H5 H6]. split; rewrite ?E1, ?E2, ?E3; done.
  - (* clone *)
    destruct (live st k) eqn:L; [|discriminate]. injection Hwf as <-.
    destruct (Sim_alive _ _ _ _ _ _ _ _ HS L) as (d & cs & Ed & Hd & Hcs & Hm & Hin & Hmd & Hl & Hc).
    pose proof (handles_lt _ _ L) as Hlt. pose proof (live_pos _ _ L) as Hpos.
    eexists _, _, _. split; [apply Runs_one; apply (tr_clone rs w _ d Ed)|]. split.
    { rewrite norm_go_cons. cbn [norm_step fst norm_go]. reflexivity. }
    cbn [norm_end norm_step snd]. rewrite Hc. destruct HS as [H1 H2 H3 H4 H5 H6].
    assert (Hpos' : (0 <? handles st k + 1)%N = true) by (apply N.ltb_lt; lia).
    split; cbn [set_spans r_meta r_spans r_local]; try done.
    + unfold n_spans in *. cbn [ss_spans]. rewrite set_handles_length. exact H1.
    + intros id'. rewrite live_refs_set by exact Hlt. rewrite Hpos'.
      destruct (decide (id' = id_of_index k)) as [->|Hne].
      * rewrite lookup_insert. cbn. rewrite Hd. reflexivity.
      * rewrite lookup_insert_ne by congruence. apply H3.
    + intros k' d' Hd'. rewrite span_site_set. destruct (decide (k' = k)) as [->|Hne].
      * rewrite lookup_insert in Hd'. injection Hd' as <-. cbn [sd_meta]. exists cs. done.
      * rewrite lookup_insert_ne in Hd'; [exact (H4 k' d' Hd')|].
        intros E. apply id_of_index_inj in E. congruence.
    + intros id'. rewrite live_refs_set by exact Hlt. rewrite Hpos'.
      destruct (decide (id' = id_of_index k)) as [->|Hne].
      * rewrite Hl. reflexivity.
      * apply H5.
    + intros id'. rewrite live_refs_set by exact Hlt. rewrite Hpos'.
      destruct (decide (id' = id_of_index k)) as [->|Hne].
      * rewrite lookup_insert. reflexivity.
      * rewrite lookup_insert_ne by congruence. apply H6.
  - (* drop *)
    destruct (live st k) eqn:L; [|discriminate]. cbn [andb] in Hwf.
    destruct (_ || _); [|discriminate]. injection Hwf as <-.
    destruct (Sim_alive _ _ _ _ _ _ _ _ HS L) as (d & cs & Ed & Hd & Hcs & Hm & Hin & Hmd & Hl & Hc).
    pose proof (handles_lt _ _ L) as Hlt. pose proof (live_pos _ _ L) as Hpos.
    destruct HS as [H1 H2 H3 H4 H5 H6].
    destruct (N.leb_spec (handles st k) 1) as [Hle|Hgt].
    + (* the last handle *)
      assert (Hone : handles st k = 1%N) by lia.
      assert (Hz : (0 <? handles st k - 1)%N = false) by (apply N.ltb_ge; lia).
      eexists _, _, _. split; [apply Runs_one; apply (tr_drop_last rs w _ d Ed); [congruence | exact Hl]|]. split.
      { rewrite norm_go_cons. cbn [norm_step]. rewrite Hc.
        destruct (N.leb_spec (handles st k) 1); [reflexivity | lia]. }
      cbn [norm_end norm_step snd]. rewrite Hc.
      destruct (N.leb_spec (handles st k) 1) as [_|?]; [|lia]. cbn [snd].
      split; cbn [r_meta r_spans r_local]; try done.
      * unfold n_spans in *. cbn [ss_spans]. rewrite set_handles_length. exact H1.
      * intros id'. rewrite live_refs_set by exact Hlt. rewrite Hz.
        destruct (decide (id' = id_of_index k)) as [->|Hne].
        -- rewrite lookup_delete. reflexivity.
        -- rewrite lookup_delete_ne by congruence. apply H3.
      * intros k' d' Hd'. rewrite span_site_set. apply lookup_delete_Some in Hd' as [_ Hd'].
        exact (H4 k' d' Hd').
      * intros id'. rewrite live_refs_set by exact Hlt. rewrite Hz.
        destruct (decide (id' = id_of_index k)) as [->|Hne].
        -- rewrite lookup_delete. reflexivity.
        -- rewrite lookup_delete_ne by congruence. apply H5.
      * intros id'. rewrite live_refs_set by exact Hlt. rewrite Hz.
        destruct (decide (id' = id_of_index k)) as [->|Hne].
        -- rewrite lookup_delete. reflexivity.
        -- rewrite lookup_delete_ne by congruence. apply H6.
    + (* other handles remain *)
      assert (Hz : (0 <? handles st k - 1)%N = true) by (apply N.ltb_lt; lia).
      eexists _, _, _. split; [apply Runs_one; apply (tr_drop_more rs w _ d Ed); lia|]. split.
      { rewrite norm_go_cons. cbn [norm_step]. rewrite Hc.
        destruct (N.leb_spec (handles st k) 1); [lia | reflexivity]. }
      cbn [norm_end norm_step snd]. rewrite Hc.
      destruct (N.leb_spec (handles st k) 1) as [?|_]; [lia|]. cbn [snd].
      split; cbn [set_spans r_meta r_spans r_local]; try done.
      * unfold n_spans in *. cbn [ss_spans]. rewrite set_handles_length. exact H1.
      * intros id'. rewrite live_refs_set by exact Hlt. rewrite Hz.
        destruct (decide (id' = id_of_index k)) as [->|Hne].
        -- rewrite lookup_insert. cbn. rewrite Hd. reflexivity.
        -- rewrite lookup_insert_ne by congruence. apply H3.
      * intros k' d' Hd'. rewrite span_site_set. destruct (decide (k' = k)) as [->|Hne].
        -- rewrite lookup_insert in Hd'. injection Hd' as <-. cbn [sd_meta]. exists cs. done.
        -- rewrite lookup_insert_ne in Hd'; [exact (H4 k' d' Hd')|].
           intros E. apply id_of_index_inj in E. congruence.
      * intros id'. rewrite live_refs_set by exact Hlt. rewrite Hz.
        destruct (decide (id' = id_of_index k)) as [->|Hne].
        -- rewrite Hl. reflexivity.
        -- apply H5.
      * intros id'. rewrite live_refs_set by exact Hlt. rewrite Hz.
        destruct (decide (id' = id_of_index k)) as [->|Hne].
        -- rewrite lookup_insert. reflexivity.
        -- rewrite lookup_insert_ne by congruence. apply H6.
  - (* follows *)
    destruct (live st k) eqn:L; [|discriminate]. cbn [andb] in Hwf.
    destruct t as [j|raw]; [|cbn [andb] in Hwf; discriminate].
    destruct (live st j) eqn:Lj; [|discriminate]. injection Hwf as <-.
    destruct (Sim_alive _ _ _ _ _ _ _ _ HS L) as (d & cs & _ & _ & _ & _ & _ & _ & Hl & _).
    destruct (Sim_alive _ _ _ _ _ _ _ _ HS Lj) as (d' & cs' & _ & _ & _ & _ & _ & _ & Hl' & _).
    eexists _, _, _. split; [apply Runs_one; apply (tr_follows rs w _ _ Hl Hl')|]. split; [reflexivity|].
    exact HS.
  - (* event *)
    destruct (wf_site_use sites KEvent cs vals) eqn:Hsite; [|discriminate]. cbn [andb] in Hwf.
    destruct (wf_parent st p) eqn:Hpar; [|discriminate]. injection Hwf as <-.
    assert (Hin : In cs regs) by (apply Hreg; reflexivity).
    pose proof (tr_event rs w _ _ (mid cs) _ (from_value_set (site_fields sites cs) vals)
                  (wf_site_use_fits _ _ _ _ Hsite) (sim_meta _ _ _ _ _ _ _ HS cs Hin)
                  (Sim_parent _ _ _ _ _ _ _ _ HS Hpar)) as Htr.
    assert (Hhv : host_vals (site_data sites cs) (from_value_set (site_fields sites cs) vals)
                  = from_value_set (site_fields sites cs) vals).
    { rewrite site_fields_data. apply host_vals_from_value_set. }
    rewrite Hhv in Htr.
    eexists _, _, _. split; [apply Runs_one; exact Htr|]. split; [|exact HS].
    cbn [norm_go norm_step app strip_reg List.filter is_hregister negb map unroot]. rewrite unroot_sp. reflexivity.
Qed.

(** * Whole programs *)
Lemma sim_steps mid sites ops : ∀ st st' fs rs w cnt,
  (∀ a b, mid a = mid b → a = b) →
  wf_steps false sites st ops = Some st' →
  FInv fs (map sp_site (ss_spans st)) → Sim mid sites st (fs_reg fs) rs w cnt →
  snd (front_steps host_alloc all_enabled sites fs ops) = false
  ∧ ∃ rs' w' hc,
      Runs rs w (map (sender_event mid sites) (fst (front_steps host_alloc all_enabled sites fs ops))) rs' w' hc
      ∧ strip_reg hc
        = map unroot (strip_reg (norm_go sites cnt (fst (front_steps host_alloc all_enabled sites fs ops)))).
Proof.
  induction ops as [|o r IH]; intros st st' fs rs w cnt Hinj Hwf HF HS.
  - split; [reflexivity|]. exists rs, w, []. split; [apply Runs_nil | reflexivity].
  - cbn [wf_steps] in Hwf. destruct (wf_step false sites st o) as [st1|] eqn:E; [|discriminate].
    destruct (front_step_wf sites st o st1 fs E HF) as (fs1 & Hstep & HF1 & Hregs).
    cbn [front_steps]. rewrite Hstep.
    (* registration, then the op *)
    assert (Hr : ∃ rs1 w1 hc1,
               Runs rs w (map (sender_event mid sites) (fst (reg_part fs (snd o)))) rs1 w1 hc1
               ∧ strip_reg hc1 = []
               ∧ strip_reg (norm_go sites cnt (fst (reg_part fs (snd o)))) = []
               ∧ norm_end sites cnt (fst (reg_part fs (snd o))) = cnt
               ∧ Sim mid sites st (snd (reg_part fs (snd o))) rs1 w1 cnt
               ∧ (∀ cs, op_site (snd o) = Some cs → In cs (snd (reg_part fs (snd o))))).
    { unfold reg_part. destruct (op_site (snd o)) as [cs|] eqn:Hs.
      - destruct (sim_reg mid sites st fs rs w cnt cs Hinj HS) as (rs1 & w1 & hc1 & H1 & H2 & H3 & H4 & H5 & H6).
        exists rs1, w1, hc1. split_and!; try done. intros cs' [= <-]. exact H6.
      - exists rs, w, []. split; [apply Runs_nil|]. split_and!; try done. }
    destruct Hr as (rs1 & w1 & hc1 & Hrun1 & Hs1 & Hn1 & He1 & HS1 & Hreg1).
    destruct (sim_body mid sites st o st1 _ rs1 w1 cnt Hinj E HS1 Hreg1) as (rs2 & w2 & hc2 & Hrun2 & Hs2 & HS2).
    rewrite <- Hregs in HS2.
    destruct (IH st1 st' fs1 rs2 w2 _ Hinj Hwf HF1 HS2) as [Hp (rs3 & w3 & hc3 & Hrun3 & Hs3)].
    destruct (front_steps host_alloc all_enabled sites fs1 r) as [rest b]. cbn [fst snd] in *.
    split; [exact Hp|]. exists rs3, w3, ((hc1 ++ hc2) ++ hc3). split.
    + rewrite !map_app. apply (Runs_app _ _ _ rs2 w2); [|exact Hrun3].
      apply (Runs_app _ _ _ rs1 w1); [exact Hrun1 | exact Hrun2].
    + rewrite !norm_go_app, !strip_reg_app, !map_app, Hs1, Hn1, Hs2, Hs3, norm_end_app, He1. reflexivity.
Qed.

(** ** (a) below the wrap the sender hands out the ids a recording host hands out *)
Lemma front_step_allocs alloc enabled sites fs o calls fs' b :
  front_step alloc enabled sites fs o = (calls, fs', b) →
  (fs_allocs fs <= fs_allocs fs')%N
  ∧ (fs_allocs fs' <= fs_allocs fs + match o with ONewSpan _ _ _ => 1 | _ => 0 end)%N.
Proof.
  destruct o; cbn [front_step]; intros H;
    try (injection H as <- <- <-; lia);
    try (destruct (nth_error (fs_spans fs) k) as [[? [?|]]|]; injection H as <- <- <-; lia).
  - destruct (front_register fs cs). destruct (enabled cs); [|injection H as <- <- <-; cbn; lia].
    destruct (alloc (fs_allocs fs)); injection H as <- <- <-; cbn [fs_allocs]; lia.
  - destruct (front_register fs cs). injection H as <- <- <-. cbn [fs_allocs]. lia.
Qed.

Lemma front_step_alloc_ext a1 a2 enabled sites fs o :
  (match o with ONewSpan _ _ _ => a1 (fs_allocs fs) = a2 (fs_allocs fs) | _ => True end) →
  front_step a1 enabled sites fs o = front_step a2 enabled sites fs o.
Proof. destruct o; cbn [front_step]; try reflexivity. intros ->. reflexivity. Qed.

Lemma front_steps_alloc_ext a1 a2 enabled sites ops : ∀ fs,
  (∀ n, (fs_allocs fs <= n < fs_allocs fs + spans_created ops)%N → a1 n = a2 n) →
  front_steps a1 enabled sites fs ops = front_steps a2 enabled sites fs ops.
Proof.
  induction ops as [|[t o] r IH]; intros fs H; [reflexivity|].
  cbn [front_steps snd].
  assert (E : front_step a1 enabled sites fs o = front_step a2 enabled sites fs o).
  { apply front_step_alloc_ext. destruct o; try exact I. apply H. cbn [spans_created]. lia. }
  rewrite E. destruct (front_step a2 enabled sites fs o) as [[calls fs'] b] eqn:Es.
  destruct b; [reflexivity|]. rewrite (IH fs'); [reflexivity|].
  intros n Hn. apply H. destruct (front_step_allocs _ _ _ _ _ _ _ _ Es) as [H1 H2].
  destruct o; cbn [spans_created] in *; lia.
Qed.

Lemma sender_alloc_is_host_alloc p enabled :
  (spans_created (p_ops p) <= U32 - 1)%N →
  front_run sender_alloc enabled p = front_run host_alloc enabled p.
Proof.
  intros Hb. unfold front_run. apply front_steps_alloc_ext. cbn [front_init fs_allocs]. intros n Hn.
  unfold host_alloc. apply sender_alloc_ok. apply known_id_wrap_false. lia.
Qed.

(** ** Lemma A: up to the explicit-root spelling the tunnel is the identity, for every well-formed
    program (any thread assignment), and every event is accepted *)
Theorem tunnel_is_identity_upto_root_proof mid p :
  (∀ a b, mid a = mid b → a = b) →
  wf_prog_b p = true → (spans_created (p_ops p) <= U32 - 1)%N →
  strip_reg (tunnel_calls mid p)
  = map unroot (strip_reg (normalise (p_sites p) (native_calls all_enabled p)))
  ∧ tunnel_outcomes mid p = repeat Accepted (List.length (sender_run mid p)).
Proof.
  intros Hinj Hwf Hb. destruct (wf_prog_sym_run p Hwf) as [st Hst]. unfold sym_run in Hst.
  destruct (sim_steps mid (p_sites p) (p_ops p) sym_init st front_init rs_default (mk_w 0 []) ∅
              Hinj Hst FInv_init (Sim_init mid (p_sites p))) as [_ (rs' & w' & hc & [Hrun Hout] & Hs)].
  unfold tunnel_calls, tunnel_outcomes, sender_run, sender_run_from, normalise, native_calls.
  change (sender_alloc_from 1) with sender_alloc. rewrite (sender_alloc_is_host_alloc p _ Hb).
  unfold front_run. rewrite Hrun. split; [exact Hs | exact Hout].
Qed.

(** * Lemma B: outside the known class [canon] rewrites every explicit root *)
Definition is_nil {A} (l : list A) : bool := match l with [] => true | _ => false end.

(** explicit roots occur only while the stack (tracked through the enters / exits of the native
    trace) is empty *)
Fixpoint roots_ok (stack : list N) (calls : list scall) : bool :=
  match calls with
  | [] => true
  | c :: r =>
      match c with
      | SNewSpan _ _ SPRoot _ | SEvent _ SPRoot _ => is_nil stack && roots_ok stack r
      | SEnter id => roots_ok (id :: stack) r
      | SExit id => roots_ok (remove_recent stack id) r
      | _ => roots_ok stack r
      end
  end.

Fixpoint stack_end (stack : list N) (calls : list scall) : list N :=
  match calls with
  | [] => stack
  | SEnter id :: r => stack_end (id :: stack) r
  | SExit id :: r => stack_end (remove_recent stack id) r
  | _ :: r => stack_end stack r
  end.

Lemma roots_ok_app a : ∀ stack b,
  roots_ok stack (a ++ b) = roots_ok stack a && roots_ok (stack_end stack a) b.
Proof.
  induction a as [|c a IH]; intros stack b; [reflexivity|].
  cbn [app roots_ok stack_end]. destruct c as [| ? ? [| |?] ?| | | | | | |? [| |?] ?]; rewrite ?IH, ?andb_assoc; reflexivity.
Qed.

Lemma stack_end_app a : ∀ stack b, stack_end stack (a ++ b) = stack_end (stack_end stack a) b.
Proof.
  induction a as [|c a IH]; intros stack b; [reflexivity|].
  cbn [app stack_end]. destruct c; apply IH.
Qed.

Lemma canon_unroot sites calls : ∀ stack cnt,
  roots_ok stack calls = true →
  canon_go stack (norm_go sites cnt calls) = map unroot (norm_go sites cnt calls).
Proof.
  induction calls as [|c r IH]; intros stack cnt H; [reflexivity|].
  rewrite norm_go_cons. cbn [roots_ok] in H.
  destruct c as [cs|id cs p vals|id vals|id|id|id|id|id f|cs p vals]; cbn [norm_step fst snd app canon_go canon_step map unroot].
  - f_equal. apply IH. exact H.
  - destruct p as [| |q]; cbn [pkind_of canon_pk unroot_pk].
    + destruct stack; f_equal; apply IH; exact H.
    + apply andb_true_iff in H as [Hn H]. destruct stack; [|discriminate]. f_equal. apply IH. exact H.
    + destruct stack; f_equal; apply IH; exact H.
  - f_equal. apply IH. exact H.
  - f_equal. apply IH. exact H.
  - f_equal. apply IH. exact H.
  - apply IH. exact H.
  - destruct (cnt !! id) as [c|]; [destruct (c <=? 1)%N|]; cbn [fst snd app canon_go canon_step map unroot];
      try f_equal; apply IH; exact H.
  - f_equal. apply IH. exact H.
  - destruct p as [| |q]; cbn [pkind_of canon_pk unroot_pk].
    + destruct stack; f_equal; apply IH; exact H.
    + apply andb_true_iff in H as [Hn H]. destruct stack; [|discriminate]. f_equal. apply IH. exact H.
    + destruct stack; f_equal; apply IH; exact H.
Qed.

Lemma stack_of_set stacks tid s : stack_of (set_stack stacks tid s) tid = s.
Proof.
  induction stacks as [|[t s'] r IH]; cbn [set_stack stack_of].
  - rewrite Nat.eqb_refl. reflexivity.
  - destruct (Nat.eqb_spec t tid) as [->|Hne]; cbn [stack_of].
    + rewrite Nat.eqb_refl. reflexivity.
    + destruct (Nat.eqb_spec t tid); [contradiction|]. exact IH.
Qed.

Lemma remove_recent_map s k :
  remove_recent (map id_of_index s) (id_of_index k) = map id_of_index (remove_first s k).
Proof.
  induction s as [|j s IH]; [reflexivity|]. cbn [map remove_recent remove_first].
  destruct (Nat.eqb_spec j k) as [->|Hne].
  - rewrite N.eqb_refl. reflexivity.
  - destruct (N.eqb_spec (id_of_index j) (id_of_index k)) as [E|_].
    + apply id_of_index_inj in E. contradiction.
    + cbn [map]. rewrite IH. reflexivity.
Qed.

Lemma roots_ok_reg fs o stack :
  roots_ok stack (fst (reg_part fs o)) = true ∧ stack_end stack (fst (reg_part fs o)) = stack.
Proof.
  unfold reg_part, front_register. destruct (op_site o); [|done]. destruct (registered fs n); done.
Qed.

Lemma roots_steps sites ops : ∀ st st' fs,
  wf_steps false sites st ops = Some st' →
  forallb (fun o => Nat.eqb (fst o) 0) ops = true →
  ker_steps sites st ops = false →
  FInv fs (map sp_site (ss_spans st)) →
  roots_ok (map id_of_index (stack_of (ss_stacks st) 0))
           (fst (front_steps host_alloc all_enabled sites fs ops)) = true.
Proof.
  induction ops as [|o r IH]; intros st st' fs Hwf Hst Hk HF; [reflexivity|].
  cbn [wf_steps] in Hwf. destruct (wf_step false sites st o) as [st1|] eqn:E; [|discriminate].
  cbn [forallb] in Hst. apply andb_true_iff in Hst as [Ht Hst]. apply Nat.eqb_eq in Ht.
  cbn [ker_steps] in Hk. rewrite E in Hk. apply orb_false_iff in Hk as [Hk1 Hk].
  destruct (front_step_wf sites st o st1 fs E HF) as (fs1 & Hstep & HF1 & _).
  cbn [front_steps]. rewrite Hstep. specialize (IH st1 st' fs1 Hwf Hst Hk HF1).
  destruct (front_steps host_alloc all_enabled sites fs1 r) as [rest b]. cbn [fst] in *.
  destruct (roots_ok_reg fs (snd o) (map id_of_index (stack_of (ss_stacks st) 0))) as [Hr1 Hr2].
  rewrite !roots_ok_app, Hr1, stack_end_app, Hr2. cbn [andb].
  destruct o as [tid o]. cbn [fst snd] in *. subst tid.
  destruct o as [cs p vals|k vals|k|k|k|k|k t|cs p vals]; cbn [wf_step fst snd] in E; cbn [body_call].
  - destruct (wf_site_use sites KSpan cs vals && wf_parent st p); [|discriminate]. injection E as <-.
    cbn [ss_stacks] in IH. destruct p as [| |q]; cbn [sp_of roots_ok stack_end]; rewrite ?IH; try reflexivity.
    cbn [is_root_op andb] in Hk1. apply negb_false_iff in Hk1. unfold stack_empty in Hk1.
    destruct (stack_of (ss_stacks st) 0); [reflexivity | discriminate].
  - destruct (span_site st k); [|discriminate].
    destruct (live st k && wf_valset (site_fields sites n) vals); [|discriminate]. injection E as <-.
    cbn [roots_ok stack_end]. exact IH.
  - destruct (live st k); [|discriminate]. injection E as <-. cbn [ss_stacks] in IH.
    rewrite stack_of_set in IH. cbn [roots_ok stack_end andb map] in *. exact IH.
  - destruct (live st k && on_stack (stack_of (ss_stacks st) 0) k); [|discriminate]. injection E as <-.
    cbn [ss_stacks] in IH. rewrite stack_of_set in IH. cbn [roots_ok stack_end andb].
    rewrite remove_recent_map. exact IH.
  - destruct (live st k); [|discriminate]. injection E as <-. cbn [roots_ok stack_end]. exact IH.
  - destruct (live st k && _); [|discriminate]. injection E as <-. cbn [roots_ok stack_end]. exact IH.
  - destruct (live st k && _); [|discriminate]. injection E as <-. destruct t; cbn [roots_ok stack_end]; exact IH.
  - destruct (wf_site_use sites KEvent cs vals && wf_parent st p); [|discriminate]. injection E as <-.
    destruct p as [| |q]; cbn [sp_of roots_ok stack_end]; rewrite ?IH; try reflexivity.
    cbn [is_root_op andb] in Hk1. apply negb_false_iff in Hk1. unfold stack_empty in Hk1.
    destruct (stack_of (ss_stacks st) 0); [reflexivity | discriminate].
Qed.

Theorem canon_is_unroot_proof p :
  wf_prog_b p = true → single_threaded p = true → known_explicit_root p = false →
  canon (normalise (p_sites p) (native_calls all_enabled p))
  = map unroot (normalise (p_sites p) (native_calls all_enabled p)).
Proof.
  intros Hwf Hst Hk. destruct (wf_prog_sym_run p Hwf) as [st Hs]. unfold sym_run in Hs.
  unfold canon, normalise. apply canon_unroot.
  exact (roots_steps (p_sites p) (p_ops p) sym_init st front_init Hs Hst Hk FInv_init).
Qed.

(** * C01 *)
Theorem tunnel_is_identity_proof mid p :
  (∀ a b, mid a = mid b → a = b) →
  wf_prog_b p = true → single_threaded p = true →
  (spans_created (p_ops p) <= U32 - 1)%N →
  known_explicit_root p = false →
  strip_reg (tunnel_calls mid p)
  = strip_reg (canon (normalise (p_sites p) (native_calls all_enabled p))).
Proof.
  intros Hinj Hwf Hst Hb Hk.
  rewrite (canon_is_unroot_proof p Hwf Hst Hk), strip_reg_unroot.
  exact (proj1 (tunnel_is_identity_upto_root_proof mid p Hinj Hwf Hb)).
Qed.

(** ** the known class is not empty and the statement fails on it (F8) *)
Theorem tunnel_explicit_root_refuted_proof :
  ∃ p mid,
    (∀ a b : nat, mid a = mid b → a = b)
    ∧ wf_prog_b p = true ∧ single_threaded p = true ∧ (spans_created (p_ops p) <= U32 - 1)%N
    ∧ known_explicit_root p = true
    ∧ strip_reg (tunnel_calls mid p)
      ≠ strip_reg (canon (normalise (p_sites p) (native_calls all_enabled p))).
Proof.
  exists wit_explicit_root, N.of_nat. split; [intros a b H; lia|].
  split; [vm_compute; reflexivity|]. split; [vm_compute; reflexivity|].
  split; [vm_compute; discriminate|]. split; [vm_compute; reflexivity|].
  vm_compute. discriminate.
Qed.

(** ** what [normalise] erases: a reference-counting host cannot tell [n] clones followed by
    [n + 1] closes of a span from a single close *)
Lemma norm_clones sites id n : ∀ cnt c,
  cnt !! id = Some c →
  norm_go sites cnt (repeat (SClone id) n) = []
  ∧ norm_end sites cnt (repeat (SClone id) n) = <[id := (c + N.of_nat n)%N]> cnt.
Proof.
  induction n as [|n IH]; intros cnt c Hc.
  - cbn [repeat norm_go norm_end]. split; [reflexivity|]. rewrite N.add_0_r. symmetry. by apply insert_id.
  - cbn [repeat norm_end]. rewrite norm_go_cons. cbn [norm_step fst snd app]. rewrite Hc.
    destruct (IH (<[id := (c + 1)%N]> cnt) (c + 1)%N (lookup_insert _ _ _)) as [-> ->].
    split; [reflexivity|]. rewrite insert_insert. f_equal. lia.
Qed.

Lemma norm_closes sites id n : ∀ cnt c,
  cnt !! id = Some c → (N.of_nat n < c)%N →
  norm_go sites cnt (repeat (STryClose id) n) = []
  ∧ norm_end sites cnt (repeat (STryClose id) n) = <[id := (c - N.of_nat n)%N]> cnt.
Proof.
  induction n as [|n IH]; intros cnt c Hc Hlt.
  - cbn [repeat norm_go norm_end]. split; [reflexivity|]. rewrite N.sub_0_r. symmetry. by apply insert_id.
  - cbn [repeat norm_end]. rewrite norm_go_cons. cbn [norm_step]. rewrite Hc.
    destruct (N.leb_spec c 1) as [?|_]; [lia|]. cbn [fst snd app].
    destruct (IH (<[id := (c - 1)%N]> cnt) (c - 1)%N (lookup_insert _ _ _)) as [-> ->]; [lia|].
    split; [reflexivity|]. rewrite insert_insert. f_equal. lia.
Qed.

Theorem normalise_clone_close_burst_proof sites cnt id c n rest :
  cnt !! id = Some c → (1 <= c)%N →
  norm_go sites cnt (repeat (SClone id) n ++ repeat (STryClose id) (S n) ++ rest)
  = norm_go sites cnt (STryClose id :: rest).
Proof.
  intros Hc Hpos. rewrite norm_go_app. destruct (norm_clones sites id n cnt c Hc) as [-> ->].
  cbn [app]. replace (S n) with (n + 1)%nat by lia. rewrite repeat_app, <- app_assoc, norm_go_app.
  destruct (norm_closes sites id n (<[id := (c + N.of_nat n)%N]> cnt) (c + N.of_nat n)%N
              (lookup_insert _ _ _)) as [-> ->]; [lia|].
  cbn [app repeat]. rewrite insert_insert. replace (c + N.of_nat n - N.of_nat n)%N with c by lia.
  rewrite (insert_id cnt id c Hc). reflexivity.
Qed.

(** * C13 *)

(** the front end consults [enabled] only on the call sites that occur *)
Lemma front_steps_enabled_ext alloc e1 e2 sites ops : ∀ fs,
  forallb (fun o => match op_site (snd o) with Some cs => Bool.eqb (e1 cs) (e2 cs) | None => true end) ops = true →
  front_steps alloc e1 sites fs ops = front_steps alloc e2 sites fs ops.
Proof.
  induction ops as [|[t o] r IH]; intros fs H; [reflexivity|].
  cbn [forallb snd] in H. apply andb_true_iff in H as [Ho H]. cbn [front_steps snd].
  assert (E : front_step alloc e1 sites fs o = front_step alloc e2 sites fs o).
  { destruct o; cbn [front_step op_site] in *; try reflexivity; apply eqb_prop in Ho; rewrite Ho; reflexivity. }
  rewrite E. destruct (front_step alloc e2 sites fs o) as [[calls fs'] b]. destruct b; [reflexivity|].
  rewrite (IH fs' H). reflexivity.
Qed.

Theorem native_filter_irrelevant_proof enabled p :
  known_host_filter enabled p = false → native_calls enabled p = native_calls all_enabled p.
Proof.
  intros H. unfold native_calls, front_run. f_equal. apply front_steps_enabled_ext.
  unfold known_host_filter in H. apply forallb_forall. intros o Ho.
  destruct (op_site (snd o)) as [cs|] eqn:E; [|reflexivity].
  destruct (enabled cs) eqn:Ee; [reflexivity|]. exfalso.
  assert (Hx : existsb (fun o => match op_site (snd o) with Some cs => negb (enabled cs) | None => false end)
                       (p_ops p) = true).
  { apply existsb_exists. exists o. split; [exact Ho|]. rewrite E, Ee. reflexivity. }
  congruence.
Qed.

(** ** the filtered native trace is the restriction of the unfiltered one *)
Fixpoint restrict_end (enabled : nat → bool) (m : gmap N N) (n : N) (calls : list scall) : gmap N N * N :=
  match calls with
  | [] => (m, n)
  | c :: r => let '(_, m', n') := restrict_step enabled m n c in restrict_end enabled m' n' r
  end.

Lemma restrict_go_app enabled a : ∀ m n b,
  restrict_go enabled m n (a ++ b)
  = restrict_go enabled m n a
    ++ restrict_go enabled (fst (restrict_end enabled m n a)) (snd (restrict_end enabled m n a)) b.
Proof.
  induction a as [|c a IH]; intros m n b; [reflexivity|].
  cbn [app restrict_go restrict_end]. destruct (restrict_step enabled m n c) as [[out m'] n'].
  rewrite IH, app_assoc. reflexivity.
Qed.

Lemma restrict_end_app enabled a : ∀ m n b,
  restrict_end enabled m n (a ++ b)
  = restrict_end enabled (fst (restrict_end enabled m n a)) (snd (restrict_end enabled m n a)) b.
Proof.
  induction a as [|c a IH]; intros m n b; [reflexivity|].
  cbn [app restrict_end]. destruct (restrict_step enabled m n c) as [[out m'] n']. apply IH.
Qed.

Lemma restrict_reg enabled m n fs cs :
  restrict_go enabled m n (fst (front_register fs cs)) = fst (front_register fs cs)
  ∧ restrict_end enabled m n (fst (front_register fs cs)) = (m, n).
Proof. unfold front_register. destruct (registered fs cs); done. Qed.

Fixpoint etab (m : gmap N N) (off : nat) (spans : list nat) : list (nat * option N) :=
  match spans with
  | [] => []
  | cs :: r => (cs, m !! id_of_index off) :: etab m (S off) r
  end.

Lemma etab_app m off a b : etab m off (a ++ b) = etab m off a ++ etab m (off + List.length a) b.
Proof.
  revert off. induction a as [|x a IH]; intros off; cbn [etab app List.length].
  - rewrite Nat.add_0_r. reflexivity.
  - rewrite IH. do 3 f_equal. lia.
Qed.

Lemma etab_nth m off spans k :
  nth_error (etab m off spans) k
  = option_map (fun cs => (cs, m !! id_of_index (off + k))) (nth_error spans k).
Proof.
  revert off k. induction spans as [|x r IH]; intros off [|k]; cbn [etab nth_error option_map]; try reflexivity.
  - rewrite Nat.add_0_r. reflexivity.
  - rewrite IH. replace (S off + k)%nat with (off + S k)%nat by lia. reflexivity.
Qed.

Lemma etab_ext m m' off spans :
  (∀ i, (i < List.length spans)%nat → m' !! id_of_index (off + i) = m !! id_of_index (off + i)) →
  etab m' off spans = etab m off spans.
Proof.
  revert off. induction spans as [|x r IH]; intros off H; [reflexivity|]. cbn [etab]. f_equal.
  - f_equal. specialize (H O). rewrite Nat.add_0_r in H. apply H. cbn [List.length]. lia.
  - apply IH. intros i Hi. replace (S off + i)%nat with (off + S i)%nat by lia. apply H. cbn [List.length]. lia.
Qed.

(** [fa]: state of the unfiltered run, [fe]: state of the filtered run *)
Record RInv (fa fe : front_state) (m : gmap N N) (n : N) (spans : list nat) : Prop := mk_rinv {
  ri_a : FInv fa spans;
  ri_spans : fs_spans fe = etab m 0 spans;
  ri_allocs : fs_allocs fe = n;
  ri_reg : fs_reg fe = fs_reg fa;
  ri_dom : ∀ k, (List.length spans <= k)%nat → m !! id_of_index k = None }.

Definition no_stale_op (o : op) : bool := match o with OFollows _ (FStale _) => false | _ => true end.

Lemma RInv_id_a fa fe m n spans k :
  RInv fa fe m n spans →
  fs_span_id fa k = (if Nat.ltb k (List.length spans) then Some (id_of_index k) else None).
Proof. intros HR. rewrite (FInv_span_id _ _ k (ri_a _ _ _ _ _ HR)). reflexivity. Qed.

Lemma RInv_id_e fa fe m n spans k :
  RInv fa fe m n spans →
  fs_span_id fe k = (if Nat.ltb k (List.length spans) then m !! id_of_index k else None).
Proof.
  intros HR. unfold fs_span_id. rewrite (ri_spans _ _ _ _ _ HR), etab_nth. cbn [Nat.add].
  destruct (Nat.ltb_spec k (List.length spans)) as [Hlt|Hge].
  - destruct (nth_error spans k) eqn:E; [|apply nth_error_None in E; lia]. cbn [option_map].
    destruct (m !! id_of_index k); reflexivity.
  - apply nth_error_None in Hge. rewrite Hge. reflexivity.
Qed.

Lemma RInv_parent fa fe m n spans p :
  RInv fa fe m n spans → front_parent fe p = restrict_parent m (front_parent fa p).
Proof.
  intros HR. destruct p as [| |k]; cbn [front_parent restrict_parent]; try reflexivity.
  rewrite (RInv_id_a _ _ _ _ _ k HR), (RInv_id_e _ _ _ _ _ k HR).
  destruct (Nat.ltb k (List.length spans)); cbn [restrict_parent]; [|reflexivity].
  destruct (m !! id_of_index k); reflexivity.
Qed.

Lemma restrict_step_ok enabled sites fa fe m n spans o :
  RInv fa fe m n spans → no_stale_op o = true →
  ∃ ca fa' ce fe',
    front_step host_alloc all_enabled sites fa o = (ca, fa', false)
    ∧ front_step host_alloc enabled sites fe o = (ce, fe', false)
    ∧ restrict_go enabled m n ca = ce
    ∧ RInv fa' fe' (fst (restrict_end enabled m n ca)) (snd (restrict_end enabled m n ca)) (spans_after spans o).
Proof.
  intros HR Hns. pose proof HR as [[Hsa Hala] Hse Hale Hreg Hdom].
  assert (Hfr : ∀ cs, front_register fe cs = front_register fa cs).
  { intros cs. unfold front_register, registered. rewrite Hreg. reflexivity. }
  destruct o as [cs p vals|k vals|k|k|k|k|k t|cs p vals]; cbn [front_step spans_after].
  - (* new span *)
    rewrite Hfr. pose proof (restrict_reg enabled m n fa cs) as [Hg He].
    destruct (front_register fa cs) as [reg regs] eqn:R. cbn [fst] in Hg, He.
    unfold all_enabled at 1. unfold host_alloc. rewrite (RInv_parent _ _ _ _ _ p HR), Hala, Hale.
    change (N.of_nat (List.length spans) + 1)%N with (id_of_index (List.length spans)).
    destruct (enabled cs) eqn:Ee.
    + eexists _, _, _, _. split; [reflexivity|]. split; [reflexivity|]. split.
      * rewrite restrict_go_app, Hg, He. cbn [fst snd restrict_go restrict_step]. rewrite Ee. cbn [app].
        reflexivity.
      * assert (Hend : restrict_end enabled m n (reg ++ [SNewSpan (id_of_index (List.length spans)) cs (front_parent fa p)
                                                         (from_value_set (site_fields sites cs) vals)])
                       = (<[id_of_index (List.length spans) := (n + 1)%N]> m, (n + 1)%N)).
        { rewrite restrict_end_app, He. cbn [fst snd restrict_end restrict_step]. rewrite Ee. reflexivity. }
        rewrite Hend. cbn [fst snd]. split; cbn [fs_spans fs_allocs fs_reg].
        -- split; cbn [fs_spans fs_allocs].
           ++ rewrite Hsa, tab_app. reflexivity.
           ++ rewrite app_length. cbn [List.length]. unfold id_of_index. lia.
        -- rewrite Hse, etab_app. cbn [etab Nat.add]. rewrite lookup_insert. f_equal.
           apply etab_ext. intros i Hi. cbn [Nat.add]. rewrite lookup_insert_ne; [reflexivity|].
           intros E. apply id_of_index_inj in E. lia.
        -- reflexivity.
        -- reflexivity.
        -- intros k Hk. rewrite app_length in Hk. cbn [List.length] in Hk.
           rewrite lookup_insert_ne; [apply Hdom; lia|]. intros E. apply id_of_index_inj in E. lia.
    + eexists _, _, _, _. split; [reflexivity|]. split; [reflexivity|].
      assert (Hend : ∀ c, restrict_end enabled m n (reg ++ [SNewSpan c cs (front_parent fa p)
                                                         (from_value_set (site_fields sites cs) vals)])
                       = (m, n)).
      { intros c0. rewrite restrict_end_app, He. cbn [fst snd restrict_end restrict_step]. rewrite Ee. reflexivity. }
      split.
      * rewrite restrict_go_app, Hg, He. cbn [fst snd restrict_go restrict_step]. rewrite Ee.
        rewrite !app_nil_r. reflexivity.
      * rewrite Hend. cbn [fst snd]. split; cbn [fs_spans fs_allocs fs_reg].
        -- split; cbn [fs_spans fs_allocs].
           ++ rewrite Hsa, tab_app. reflexivity.
           ++ rewrite app_length. cbn [List.length]. unfold id_of_index. lia.
        -- rewrite Hse, etab_app. cbn [etab Nat.add]. rewrite (Hdom _ (Nat.le_refl _)). reflexivity.
        -- reflexivity.
        -- reflexivity.
        -- intros k Hk. rewrite app_length in Hk. cbn [List.length] in Hk. apply Hdom. lia.
  - (* record *)
    rewrite Hsa, Hse, tab_nth, etab_nth. cbn [Nat.add].
    destruct (nth_error spans k) as [cs|]; cbn [option_map].
    + destruct (m !! id_of_index k) as [i|] eqn:Em;
        (eexists _, _, _, _; split; [reflexivity|]; split; [reflexivity|]; split;
         [cbn [restrict_go restrict_step]; rewrite Em; reflexivity
         | cbn [restrict_end restrict_step]; exact HR]).
    + eexists _, _, _, _. split; [reflexivity|]. split; [reflexivity|]. split; [reflexivity | exact HR].
  - rewrite (RInv_id_a _ _ _ _ _ k HR), (RInv_id_e _ _ _ _ _ k HR).
    destruct (Nat.ltb k (List.length spans));
      [destruct (m !! id_of_index k) as [i|] eqn:Em|];
      (eexists _, _, _, _; split; [reflexivity|]; split; [reflexivity|]; split;
       [cbn [restrict_go restrict_step]; rewrite ?Em; reflexivity | cbn [restrict_end restrict_step]; exact HR]).
  - rewrite (RInv_id_a _ _ _ _ _ k HR), (RInv_id_e _ _ _ _ _ k HR).
    destruct (Nat.ltb k (List.length spans));
      [destruct (m !! id_of_index k) as [i|] eqn:Em|];
      (eexists _, _, _, _; split; [reflexivity|]; split; [reflexivity|]; split;
       [cbn [restrict_go restrict_step]; rewrite ?Em; reflexivity | cbn [restrict_end restrict_step]; exact HR]).
  - rewrite (RInv_id_a _ _ _ _ _ k HR), (RInv_id_e _ _ _ _ _ k HR).
    destruct (Nat.ltb k (List.length spans));
      [destruct (m !! id_of_index k) as [i|] eqn:Em|];
      (eexists _, _, _, _; split; [reflexivity|]; split; [reflexivity|]; split;
       [cbn [restrict_go restrict_step]; rewrite ?Em; reflexivity | cbn [restrict_end restrict_step]; exact HR]).
  - rewrite (RInv_id_a _ _ _ _ _ k HR), (RInv_id_e _ _ _ _ _ k HR).
    destruct (Nat.ltb k (List.length spans));
      [destruct (m !! id_of_index k) as [i|] eqn:Em|];
      (eexists _, _, _, _; split; [reflexivity|]; split; [reflexivity|]; split;
       [cbn [restrict_go restrict_step]; rewrite ?Em; reflexivity | cbn [restrict_end restrict_step]; exact HR]).
  - (* follows *)
    destruct t as [j|raw]; [|discriminate].
    rewrite (RInv_id_a _ _ _ _ _ k HR), (RInv_id_e _ _ _ _ _ k HR),
            (RInv_id_a _ _ _ _ _ j HR), (RInv_id_e _ _ _ _ _ j HR).
    destruct (Nat.ltb k (List.length spans)), (Nat.ltb j (List.length spans));
      try destruct (m !! id_of_index k) as [i|] eqn:Em; try destruct (m !! id_of_index j) as [i'|] eqn:Em';
      (eexists _, _, _, _; split; [reflexivity|]; split; [reflexivity|]; split;
       [cbn [restrict_go restrict_step]; rewrite ?Em, ?Em'; reflexivity | cbn [restrict_end restrict_step]; exact HR]).
  - (* event *)
    rewrite Hfr. pose proof (restrict_reg enabled m n fa cs) as [Hg He].
    destruct (front_register fa cs) as [reg regs] eqn:R. cbn [fst] in Hg, He.
    unfold all_enabled at 1. rewrite (RInv_parent _ _ _ _ _ p HR).
    eexists _, _, _, _. split; [reflexivity|]. split; [reflexivity|].
    assert (Hend : restrict_end enabled m n (reg ++ [SEvent cs (front_parent fa p)
                                                       (from_value_set (site_fields sites cs) vals)])
                   = (m, n)).
    { rewrite restrict_end_app, He. cbn [fst snd restrict_end restrict_step]. reflexivity. }
    split.
    + rewrite restrict_go_app, Hg, He. cbn [fst snd restrict_go restrict_step].
      destruct (enabled cs); rewrite ?app_nil_r; reflexivity.
    + rewrite Hend. cbn [fst snd]. split; cbn [fs_spans fs_allocs fs_reg]; done.
Qed.

Lemma RInv_init : RInv front_init front_init ∅ 0 [].
Proof. split; [exact FInv_init | reflexivity | reflexivity | reflexivity | intros k _; apply lookup_empty]. Qed.

Lemma restrict_steps enabled sites ops : ∀ fa fe m n spans,
  RInv fa fe m n spans → forallb (fun o => no_stale_op (snd o)) ops = true →
  snd (front_steps host_alloc enabled sites fe ops) = false
  ∧ restrict_go enabled m n (fst (front_steps host_alloc all_enabled sites fa ops))
    = fst (front_steps host_alloc enabled sites fe ops).
Proof.
  induction ops as [|o r IH]; intros fa fe m n spans HR Hns; [split; reflexivity|].
  cbn [forallb] in Hns. apply andb_true_iff in Hns as [Ho Hns].
  destruct (restrict_step_ok enabled sites fa fe m n spans (snd o) HR Ho)
    as (ca & fa' & ce & fe' & Ea & Ee & Hgo & HR').
  cbn [front_steps]. rewrite Ea, Ee.
  destruct (IH fa' fe' _ _ _ HR' Hns) as [Hp Hr].
  destruct (front_steps host_alloc all_enabled sites fa' r) as [ra ba].
  destruct (front_steps host_alloc enabled sites fe' r) as [re be]. cbn [fst snd] in *.
  split; [exact Hp|]. rewrite restrict_go_app, Hgo, Hr. reflexivity.
Qed.

Lemma wf_steps_no_stale sites ops : ∀ st st',
  wf_steps false sites st ops = Some st' → forallb (fun o => no_stale_op (snd o)) ops = true.
Proof.
  induction ops as [|[t o] r IH]; intros st st' H; [reflexivity|].
  cbn [wf_steps] in H. destruct (wf_step false sites st (t, o)) as [st1|] eqn:E; [|discriminate].
  cbn [forallb snd]. rewrite (IH st1 st' H), andb_true_r.
  destruct o as [| | | | | |k [j|raw]|]; try reflexivity.
  cbn [wf_step snd] in E. destruct (live st k); cbn [andb] in E; discriminate.
Qed.

Theorem native_filtered_is_restriction_proof enabled p :
  wf_prog_b p = true →
  native_calls enabled p = restrict_calls enabled (native_calls all_enabled p).
Proof.
  intros Hwf. destruct (wf_prog_sym_run p Hwf) as [st Hst]. unfold sym_run in Hst.
  unfold native_calls, restrict_calls, front_run. symmetry.
  exact (proj2 (restrict_steps enabled (p_sites p) (p_ops p) front_init front_init ∅ 0 [] RInv_init
                  (wf_steps_no_stale _ _ _ _ Hst))).
Qed.

(** every span / event of the restriction stems from one of the unfiltered trace, with the same
    call site and values; and [normalise] keeps every span and event *)
Lemma restrict_items enabled calls : ∀ m n,
  (∀ i cs q vals, In (SNewSpan i cs q vals) (restrict_go enabled m n calls) →
     ∃ id q', In (SNewSpan id cs q' vals) calls)
  ∧ (∀ cs q vals, In (SEvent cs q vals) (restrict_go enabled m n calls) →
     ∃ q', In (SEvent cs q' vals) calls).
Proof.
  induction calls as [|c r IH]; intros m n; [split; intros; contradiction|].
  cbn [restrict_go]. destruct (restrict_step enabled m n c) as [[out m'] n'] eqn:E.
  destruct (IH m' n') as [IH1 IH2]. split.
  - intros i cs q vals Hin. apply in_app_or in Hin as [Hin|Hin].
    + destruct c; cbn [restrict_step] in E;
        repeat match type of E with context [match ?x with _ => _ end] => destruct x end;
        injection E as <- <- <-; try contradiction; destruct Hin as [Hin|[]]; try discriminate.
      injection Hin as <- <- <- <-. eexists _, _. left. reflexivity.
    + destruct (IH1 _ _ _ _ Hin) as (id & q' & H). exists id, q'. right. exact H.
  - intros cs q vals Hin. apply in_app_or in Hin as [Hin|Hin].
    + destruct c; cbn [restrict_step] in E;
        repeat match type of E with context [match ?x with _ => _ end] => destruct x end;
        injection E as <- <- <-; try contradiction; destruct Hin as [Hin|[]]; try discriminate.
      injection Hin as <- <- <-. eexists. left. reflexivity.
    + destruct (IH2 _ _ _ Hin) as (q' & H). exists q'. right. exact H.
Qed.

Lemma norm_items sites calls : ∀ cnt,
  (∀ id cs q vals, In (SNewSpan id cs q vals) calls →
     In (HNewSpan id (site_data sites cs) (pkind_of q) vals) (norm_go sites cnt calls))
  ∧ (∀ cs q vals, In (SEvent cs q vals) calls →
     In (HEvent (site_data sites cs) (pkind_of q) vals) (norm_go sites cnt calls)).
Proof.
  induction calls as [|c r IH]; intros cnt; [split; intros; contradiction|].
  rewrite norm_go_cons. destruct (IH (snd (norm_step sites cnt c))) as [IH1 IH2]. split.
  - intros id cs q vals [->|Hin]; apply in_or_app; [left; left; reflexivity | right; apply IH1; exact Hin].
  - intros cs q vals [->|Hin]; apply in_or_app; [left; left; reflexivity | right; apply IH2; exact Hin].
Qed.

Lemma in_strip_reg c l : is_hregister c = false → In c l → In c (strip_reg l).
Proof. intros H Hin. apply filter_In. split; [exact Hin | rewrite H; reflexivity]. Qed.

Theorem enabled_items_delivered_proof enabled mid p :
  (∀ a b, mid a = mid b → a = b) →
  wf_prog_b p = true → (spans_created (p_ops p) <= U32 - 1)%N →
  (∀ i cs q vals, In (SNewSpan i cs q vals) (native_calls enabled p) →
     ∃ h pk, In (HNewSpan h (site_data (p_sites p) cs) pk vals) (tunnel_calls mid p))
  ∧ (∀ cs q vals, In (SEvent cs q vals) (native_calls enabled p) →
     ∃ pk, In (HEvent (site_data (p_sites p) cs) pk vals) (tunnel_calls mid p)).
Proof.
  intros Hinj Hwf Hb. rewrite (native_filtered_is_restriction_proof enabled p Hwf).
  destruct (tunnel_is_identity_upto_root_proof mid p Hinj Hwf Hb) as [Ht _].
  destruct (restrict_items enabled (native_calls all_enabled p) ∅ 0%N) as [R1 R2].
  destruct (norm_items (p_sites p) (native_calls all_enabled p) ∅) as [N1 N2].
  assert (Hsub : ∀ c, In c (strip_reg (tunnel_calls mid p)) → In c (tunnel_calls mid p)).
  { intros c Hc. apply filter_In in Hc as [Hc _]. exact Hc. }
  split.
  - intros i cs q vals Hin. destruct (R1 _ _ _ _ Hin) as (id & q' & Hin').
    exists id, (unroot_pk (pkind_of q')). apply Hsub. rewrite Ht.
    apply (in_map unroot _ (HNewSpan id (site_data (p_sites p) cs) (pkind_of q') vals)).
    apply in_strip_reg; [reflexivity|]. apply N1. exact Hin'.
  - intros cs q vals Hin. destruct (R2 _ _ _ Hin) as (q' & Hin').
    exists (unroot_pk (pkind_of q')). apply Hsub. rewrite Ht.
    apply (in_map unroot _ (HEvent (site_data (p_sites p) cs) (pkind_of q') vals)).
    apply in_strip_reg; [reflexivity|]. apply N2. exact Hin'.
Qed.

(** the tunnel delivers spans and events of call sites the host disables (F7) *)
Theorem host_filter_refuted_proof :
  ∃ p enabled mid,
    (∀ a b : nat, mid a = mid b → a = b)
    ∧ wf_prog_b p = true ∧ single_threaded p = true ∧ known_explicit_root p = false
    ∧ known_host_filter enabled p = true
    ∧ (∃ cs, enabled cs = false
         ∧ In (site_data (p_sites p) cs) (delivered_sites (tunnel_calls mid p))
         ∧ ¬ In (site_data (p_sites p) cs)
               (delivered_sites (normalise (p_sites p) (native_calls enabled p))))
    ∧ strip_reg (tunnel_calls mid p)
      ≠ strip_reg (canon (normalise (p_sites p) (native_calls enabled p))).
Proof.
  exists wit_filter, wit_info_only, N.of_nat. split; [intros a b H; lia|].
  split; [vm_compute; reflexivity|]. split; [vm_compute; reflexivity|]. split; [vm_compute; reflexivity|].
  split; [vm_compute; reflexivity|]. split.
  - exists 1%nat. split; [vm_compute; reflexivity|]. split.
    + vm_compute. right. left. reflexivity.
    + vm_compute. intros [H|[H|[]]]; discriminate.
  - vm_compute. discriminate.
Qed.

Theorem tunnel_never_rejects_proof mid p :
  (∀ a b, mid a = mid b → a = b) →
  wf_prog_b p = true → (spans_created (p_ops p) <= U32 - 1)%N →
  Forall (fun o => o = Accepted) (tunnel_outcomes mid p)
  ∧ List.length (tunnel_outcomes mid p) = List.length (sender_run mid p).
Proof.
  intros Hinj Hwf Hb. destruct (tunnel_is_identity_upto_root_proof mid p Hinj Hwf Hb) as [_ ->].
  split; [|apply repeat_length]. apply List.Forall_forall. intros o Ho. apply repeat_spec in Ho. exact Ho.
Qed.

(** * The boolean equalities of the judges are equalities *)
Lemma pk_eqb_spec a b : pk_eqb a b = true ↔ a = b.
Proof.
  destruct a, b; cbn [pk_eqb]; try (split; [discriminate | discriminate || congruence]); try (split; reflexivity).
  rewrite N.eqb_eq. split; [intros ->; reflexivity | intros [= ->]; reflexivity].
Qed.

Lemma hc_eqb_spec a b : hc_eqb a b = true ↔ a = b.
Proof.
  destruct a, b; cbn [hc_eqb]; try (split; [discriminate | discriminate || congruence]);
    rewrite ?andb_true_iff, ?N.eqb_eq, ?cs_data_eqb_spec, ?pk_eqb_spec, ?tvalues_eqb_spec.
  all: split; [intros H; decompose [and] H; subst; reflexivity | intros [= ]; subst; repeat split; reflexivity].
Qed.

(** * Corollaries *)

(** any host whose observable state is a function of the (non-registration) calls it receives,
    with handle traffic folded and the two spellings of "no parent" identified, ends in the same
    state natively and through the tunnel *)
Theorem tunnel_same_for_function_hosts_proof {A} (host : list hcall → A) mid p :
  (∀ a b, mid a = mid b → a = b) →
  wf_prog_b p = true → single_threaded p = true →
  (spans_created (p_ops p) <= U32 - 1)%N → known_explicit_root p = false →
  host (strip_reg (tunnel_calls mid p))
  = host (strip_reg (canon (normalise (p_sites p) (native_calls all_enabled p)))).
Proof. intros. f_equal. by apply tunnel_is_identity_proof. Qed.

Theorem tunnel_is_native_filtered_proof enabled mid p :
  (∀ a b, mid a = mid b → a = b) →
  wf_prog_b p = true → single_threaded p = true →
  (spans_created (p_ops p) <= U32 - 1)%N → known_explicit_root p = false →
  known_host_filter enabled p = false →
  strip_reg (tunnel_calls_under enabled mid p)
  = strip_reg (canon (normalise (p_sites p) (native_calls enabled p))).
Proof.
  intros Hinj Hwf Hst Hb Hk Hf. rewrite (native_filter_irrelevant_proof enabled p Hf).
  by apply tunnel_is_identity_proof.
Qed.

Theorem enabled_still_delivered_proof enabled mid p :
  (∀ a b, mid a = mid b → a = b) →
  wf_prog_b p = true → (spans_created (p_ops p) <= U32 - 1)%N →
  let unfiltered := native_calls all_enabled p in
  strip_reg (tunnel_calls_under enabled mid p) = map unroot (strip_reg (normalise (p_sites p) unfiltered))
  ∧ native_calls enabled p = restrict_calls enabled unfiltered.
Proof.
  intros Hinj Hwf Hb. cbv zeta. split.
  - exact (proj1 (tunnel_is_identity_upto_root_proof mid p Hinj Hwf Hb)).
  - exact (native_filtered_is_restriction_proof enabled p Hwf).
Qed.

(** * Restriction commutes with [normalise] *)
Fixpoint incr_ids (b : N) (calls : list scall) : bool :=
  match calls with
  | [] => true
  | SNewSpan id _ _ _ :: r => (b <? id)%N && incr_ids id r
  | _ :: r => incr_ids b r
  end.
Fixpoint incr_end (b : N) (calls : list scall) : N :=
  match calls with
  | [] => b
  | SNewSpan id _ _ _ :: r => incr_end id r
  | _ :: r => incr_end b r
  end.

Lemma incr_ids_app a : ∀ b c, incr_ids b (a ++ c) = incr_ids b a && incr_ids (incr_end b a) c.
Proof.
  induction a as [|x a IH]; intros b c; [reflexivity|].
  cbn [app incr_ids incr_end]. destruct x; rewrite ?IH, ?andb_assoc; reflexivity.
Qed.
Lemma incr_end_app a : ∀ b c, incr_end b (a ++ c) = incr_end (incr_end b a) c.
Proof. induction a as [|x a IH]; intros b c; [reflexivity|]. cbn [app incr_end]. destruct x; apply IH. Qed.

Lemma incr_reg fs cs b :
  incr_ids b (fst (front_register fs cs)) = true ∧ incr_end b (fst (front_register fs cs)) = b.
Proof. unfold front_register. destruct (registered fs cs); done. Qed.

Lemma incr_front_step enabled sites fs o calls fs' pn :
  front_step host_alloc enabled sites fs o = (calls, fs', pn) →
  incr_ids (fs_allocs fs) calls = true ∧ incr_end (fs_allocs fs) calls = fs_allocs fs'.
Proof.
  destruct o as [cs p vals|k vals|k|k|k|k|k t|cs p vals]; cbn [front_step]; intros H.
  - pose proof (incr_reg fs cs (fs_allocs fs)) as [Hr1 Hr2].
    destruct (front_register fs cs) as [reg regs]. cbn [fst] in *. unfold host_alloc in H.
    destruct (enabled cs); injection H as <- <- <-.
    + rewrite incr_ids_app, incr_end_app, Hr1, Hr2. cbn [incr_ids incr_end fs_allocs andb].
      split; [|reflexivity]. rewrite andb_true_r. apply N.ltb_lt. lia.
    + rewrite Hr1, Hr2. done.
  - destruct (nth_error (fs_spans fs) k) as [[? [?|]]|]; injection H as <- <- <-; done.
  - destruct (fs_span_id fs k); injection H as <- <- <-; done.
  - destruct (fs_span_id fs k); injection H as <- <- <-; done.
  - destruct (fs_span_id fs k); injection H as <- <- <-; done.
  - destruct (fs_span_id fs k); injection H as <- <- <-; done.
  - destruct (fs_span_id fs k); [destruct t as [j|raw]; [destruct (fs_span_id fs j)|]|];
      injection H as <- <- <-; done.
  - pose proof (incr_reg fs cs (fs_allocs fs)) as [Hr1 Hr2].
    destruct (front_register fs cs) as [reg regs]. cbn [fst] in *. injection H as <- <- <-.
    rewrite incr_ids_app, incr_end_app, Hr1, Hr2. destruct (enabled cs); done.
Qed.

Lemma incr_front_steps enabled sites ops : ∀ fs,
  incr_ids (fs_allocs fs) (fst (front_steps host_alloc enabled sites fs ops)) = true.
Proof.
  induction ops as [|o r IH]; intros fs; [reflexivity|]. cbn [front_steps].
  destruct (front_step host_alloc enabled sites fs (snd o)) as [[calls fs'] pn] eqn:E.
  destruct (incr_front_step _ _ _ _ _ _ _ E) as [H1 H2]. destruct pn; [exact H1|].
  specialize (IH fs'). destruct (front_steps host_alloc enabled sites fs' r) as [rest b].
  cbn [fst] in *. rewrite incr_ids_app, H1, H2. exact IH.
Qed.

Record CInv (m : gmap N N) (n b : N) (ce ca : gmap N N) : Prop := mk_cinv {
  ci_cnt : ∀ id i, m !! id = Some i → ce !! i = ca !! id;
  ci_inj : ∀ id id' i, m !! id = Some i → m !! id' = Some i → id = id';
  ci_n : ∀ id i, m !! id = Some i → (i <= n)%N;
  ci_b : ∀ id i, m !! id = Some i → (id <= b)%N }.

Lemma CInv_init : CInv ∅ 0 0 ∅ ∅.
Proof. split; intros *; rewrite lookup_empty; discriminate. Qed.

Lemma CInv_fresh m n b ce ca id : CInv m n b ce ca → (b < id)%N → m !! id = None.
Proof.
  intros HC Hlt. destruct (m !! id) as [i|] eqn:E; [|reflexivity].
  pose proof (ci_b _ _ _ _ _ HC id i E). lia.
Qed.

Lemma CInv_new_enabled m n b ce ca id :
  CInv m n b ce ca → (b < id)%N →
  CInv (<[id := (n + 1)%N]> m) (n + 1) id (<[(n + 1)%N := 1%N]> ce) (<[id := 1%N]> ca).
Proof.
  intros HC Hlt. pose proof (CInv_fresh _ _ _ _ _ _ HC Hlt) as Hf. destruct HC as [H1 H2 H3 H4]. split.
  - intros id' i Hm. apply lookup_insert_Some in Hm as [[<- <-]|[Hne Hm]].
    + rewrite !lookup_insert. reflexivity.
    + pose proof (H3 _ _ Hm). rewrite !lookup_insert_ne by (try congruence; lia). exact (H1 _ _ Hm).
  - intros id1 id2 i Hm1 Hm2.
    apply lookup_insert_Some in Hm1 as [[<- <-]|[Hne1 Hm1]]; apply lookup_insert_Some in Hm2 as [[<- Hi]|[Hne2 Hm2]];
      try reflexivity.
    + pose proof (H3 _ _ Hm2). lia.
    + pose proof (H3 _ _ Hm1). lia.
    + exact (H2 _ _ _ Hm1 Hm2).
  - intros id' i Hm. apply lookup_insert_Some in Hm as [[<- <-]|[Hne Hm]]; [lia|]. pose proof (H3 _ _ Hm). lia.
  - intros id' i Hm. apply lookup_insert_Some in Hm as [[<- <-]|[Hne Hm]]; [lia|]. pose proof (H4 _ _ Hm). lia.
Qed.

(** the unfiltered counts change at an id the restriction does not know *)
Lemma CInv_ca_other m n b b' ce ca ca' id :
  CInv m n b ce ca → m !! id = None → (b <= b')%N →
  (∀ id', id' ≠ id → ca' !! id' = ca !! id') → CInv m n b' ce ca'.
Proof.
  intros [H1 H2 H3 H4] Hn Hb Hca. split; try done.
  - intros id' i Hm. rewrite Hca by congruence. exact (H1 _ _ Hm).
  - intros id' i Hm. pose proof (H4 _ _ Hm). lia.
Qed.

(** both counts change at corresponding ids *)
Lemma CInv_both m n b ce ca ce' ca' id i :
  CInv m n b ce ca → m !! id = Some i → ce' !! i = ca' !! id →
  (∀ j, j ≠ i → ce' !! j = ce !! j) → (∀ id', id' ≠ id → ca' !! id' = ca !! id') →
  CInv m n b ce' ca'.
Proof.
  intros [H1 H2 H3 H4] Hm He Hce Hca. split; try done.
  intros id' i' Hm'. destruct (decide (id' = id)) as [->|Hne].
  - assert (i' = i) by congruence. subst i'. exact He.
  - rewrite Hca by exact Hne. rewrite Hce; [exact (H1 _ _ Hm')|].
    intros ->. apply Hne. exact (H2 _ _ _ Hm' Hm).
Qed.

Lemma restrict_pk_of m p : pkind_of (restrict_parent m p) = restrict_pk m (pkind_of p).
Proof. destruct p as [| |q]; cbn [restrict_parent pkind_of restrict_pk]; try reflexivity. destruct (m !! q); reflexivity. Qed.

Lemma norm_restrict_commute pred sites calls : ∀ m n b ce ca,
  CInv m n b ce ca → incr_ids b calls = true →
  norm_go sites ce (restrict_go (site_enabled pred sites) m n calls)
  = restrict_hgo pred m n (norm_go sites ca calls).
Proof.
  induction calls as [|c r IH]; intros m n b ce ca HC Hi; [reflexivity|].
  rewrite (norm_go_cons sites ca). cbn [restrict_go incr_ids] in *.
  destruct c as [cs|id cs p vals|id vals|id|id|id|id|id f|cs p vals]; cbn [restrict_step norm_step fst snd app].
  - (* register *)
    rewrite norm_go_cons. cbn [norm_step fst snd app restrict_hgo restrict_hstep]. f_equal. exact (IH _ _ _ _ _ HC Hi).
  - (* new span *)
    apply andb_true_iff in Hi as [Hlt Hi]. apply N.ltb_lt in Hlt.
    cbn [restrict_hgo restrict_hstep]. unfold site_enabled at 1. destruct (pred (site_data sites cs)).
    + cbn [app]. rewrite norm_go_cons. cbn [norm_step fst snd app]. rewrite restrict_pk_of. f_equal.
      exact (IH _ _ _ _ _ (CInv_new_enabled _ _ _ _ _ _ HC Hlt) Hi).
    + cbn [app]. apply (IH _ _ id _ _); [|exact Hi].
      apply (CInv_ca_other _ _ b _ _ _ _ id HC (CInv_fresh _ _ _ _ _ _ HC Hlt)); [lia|].
      intros id' Hne. apply lookup_insert_ne. congruence.
  - (* record *)
    cbn [restrict_hgo restrict_hstep]. destruct (m !! id) as [i|]; cbn [app].
    + rewrite norm_go_cons. cbn [norm_step fst snd app]. f_equal. exact (IH _ _ _ _ _ HC Hi).
    + exact (IH _ _ _ _ _ HC Hi).
  - (* enter *)
    cbn [restrict_hgo restrict_hstep]. destruct (m !! id) as [i|]; cbn [app].
    + rewrite norm_go_cons. cbn [norm_step fst snd app]. f_equal. exact (IH _ _ _ _ _ HC Hi).
    + exact (IH _ _ _ _ _ HC Hi).
  - (* exit *)
    cbn [restrict_hgo restrict_hstep]. destruct (m !! id) as [i|]; cbn [app].
    + rewrite norm_go_cons. cbn [norm_step fst snd app]. f_equal. exact (IH _ _ _ _ _ HC Hi).
    + exact (IH _ _ _ _ _ HC Hi).
  - (* clone *)
    destruct (m !! id) as [i|] eqn:Em; cbn [app].
    + rewrite norm_go_cons. cbn [norm_step fst snd app]. rewrite (ci_cnt _ _ _ _ _ HC id i Em).
      destruct (ca !! id) as [c|] eqn:Ec; [|exact (IH _ _ _ _ _ HC Hi)].
      apply (IH _ _ b _ _); [|exact Hi]. apply (CInv_both _ _ _ _ _ _ _ id i HC Em).
      * rewrite !lookup_insert. reflexivity.
      * intros j Hj. apply lookup_insert_ne. congruence.
      * intros j Hj. apply lookup_insert_ne. congruence.
    + apply (IH _ _ b _ _); [|exact Hi]. apply (CInv_ca_other _ _ b _ _ _ _ id HC Em); [lia|].
      intros id' Hne. destruct (ca !! id); [apply lookup_insert_ne; congruence | reflexivity].
  - (* close *)
    destruct (m !! id) as [i|] eqn:Em; cbn [app].
    + rewrite norm_go_cons. cbn [norm_step]. rewrite (ci_cnt _ _ _ _ _ HC id i Em).
      destruct (ca !! id) as [c|] eqn:Ec.
      * destruct (c <=? 1)%N; cbn [fst snd app restrict_hgo restrict_hstep]; rewrite ?Em; cbn [app].
        -- f_equal. apply (IH _ _ b _ _); [|exact Hi]. apply (CInv_both _ _ _ _ _ _ _ id i HC Em).
           ++ rewrite !lookup_delete. reflexivity.
           ++ intros j Hj. apply lookup_delete_ne. congruence.
           ++ intros j Hj. apply lookup_delete_ne. congruence.
        -- apply (IH _ _ b _ _); [|exact Hi]. apply (CInv_both _ _ _ _ _ _ _ id i HC Em).
           ++ rewrite !lookup_insert. reflexivity.
           ++ intros j Hj. apply lookup_insert_ne. congruence.
           ++ intros j Hj. apply lookup_insert_ne. congruence.
      * cbn [fst snd app restrict_hgo restrict_hstep]. rewrite Em. cbn [app]. f_equal. exact (IH _ _ _ _ _ HC Hi).
    + destruct (ca !! id) as [c|] eqn:Ec; [destruct (c <=? 1)%N|];
        cbn [fst snd app restrict_hgo restrict_hstep]; rewrite ?Em; cbn [app].
      * apply (IH _ _ b _ _); [|exact Hi]. apply (CInv_ca_other _ _ b _ _ _ _ id HC Em); [lia|].
        intros id' Hne. apply lookup_delete_ne. congruence.
      * apply (IH _ _ b _ _); [|exact Hi]. apply (CInv_ca_other _ _ b _ _ _ _ id HC Em); [lia|].
        intros id' Hne. apply lookup_insert_ne. congruence.
      * exact (IH _ _ _ _ _ HC Hi).
  - (* follows *)
    cbn [restrict_hgo restrict_hstep]. destruct (m !! id) as [a|]; [destruct (m !! f) as [b'|]|]; cbn [app].
    + rewrite norm_go_cons. cbn [norm_step fst snd app]. f_equal. exact (IH _ _ _ _ _ HC Hi).
    + exact (IH _ _ _ _ _ HC Hi).
    + exact (IH _ _ _ _ _ HC Hi).
  - (* event *)
    cbn [restrict_hgo restrict_hstep]. unfold site_enabled at 1. destruct (pred (site_data sites cs)); cbn [app].
    + rewrite norm_go_cons. cbn [norm_step fst snd app]. rewrite restrict_pk_of. f_equal. exact (IH _ _ _ _ _ HC Hi).
    + exact (IH _ _ _ _ _ HC Hi).
Qed.

Lemma restrict_hgo_cons pred m n c r :
  restrict_hgo pred m n (c :: r)
  = fst (fst (restrict_hstep pred m n c))
    ++ restrict_hgo pred (snd (fst (restrict_hstep pred m n c))) (snd (restrict_hstep pred m n c)) r.
Proof. cbn [restrict_hgo]. destruct (restrict_hstep pred m n c) as [[? ?] ?]. reflexivity. Qed.

Lemma strip_reg_restrict pred calls : ∀ m n,
  strip_reg (restrict_hgo pred m n calls) = restrict_hgo pred m n (strip_reg calls).
Proof.
  induction calls as [|c r IH]; intros m n; [reflexivity|].
  rewrite restrict_hgo_cons, strip_reg_app, IH.
  destruct c; cbn [restrict_hstep strip_reg List.filter is_hregister negb fst snd app];
    try (rewrite restrict_hgo_cons; cbn [restrict_hstep fst snd]; f_equal;
         repeat match goal with |- context [match ?x with _ => _ end] => destruct x end; reflexivity).
  reflexivity.
Qed.

Lemma unroot_restrict_pk m p : unroot_pk (restrict_pk m (unroot_pk p)) = unroot_pk (restrict_pk m p).
Proof. destruct p as [| |q]; cbn [unroot_pk restrict_pk]; try reflexivity. Qed.

Lemma unroot_restrict pred calls : ∀ m n,
  map unroot (restrict_hgo pred m n (map unroot calls)) = map unroot (restrict_hgo pred m n calls).
Proof.
  induction calls as [|c r IH]; intros m n; [reflexivity|].
  cbn [map]. rewrite !restrict_hgo_cons, !map_app.
  destruct c; cbn [unroot restrict_hstep fst snd];
    repeat match goal with |- context [if ?x then _ else _] => destruct x end;
    repeat match goal with |- context [match ?x with Some _ => _ | None => _ end] => destruct x end;
    cbn [fst snd map unroot app]; rewrite ?IH, ?unroot_restrict_pk; reflexivity.
Qed.

(** ** C13 (3b) in its direct form: what the filtering host sees natively is the tunnelled trace
    restricted to the call sites it enables, up to the spelling of explicit roots *)
Theorem enabled_subtrace_proof pred mid p :
  (∀ a b, mid a = mid b → a = b) →
  wf_prog_b p = true → (spans_created (p_ops p) <= U32 - 1)%N →
  map unroot (strip_reg (normalise (p_sites p) (native_calls (site_enabled pred (p_sites p)) p)))
  = map unroot (restrict_hcalls pred (strip_reg (tunnel_calls mid p))).
Proof.
  intros Hinj Hwf Hb. rewrite (native_filtered_is_restriction_proof _ p Hwf).
  rewrite (proj1 (tunnel_is_identity_upto_root_proof mid p Hinj Hwf Hb)).
  unfold normalise, restrict_calls, restrict_hcalls.
  rewrite (norm_restrict_commute pred (p_sites p) _ ∅ 0 0 ∅ ∅ CInv_init).
  - rewrite strip_reg_restrict, unroot_restrict. reflexivity.
  - unfold native_calls, front_run. exact (incr_front_steps all_enabled (p_sites p) (p_ops p) front_init).
Qed.
