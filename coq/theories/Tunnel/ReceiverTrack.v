(** C08: the receiver never misuses host span ids and never leaks host spans.
    The strict tracker of [ReceiverSpec.v] accepts every call the receiver model makes, along
    whole persist / restore / drop histories; closes happen exactly at the last drop; histories
    that keep the local map leave exactly the host spans of the alive guest spans open. *)
From TT Require Import Tunnel.TypesProofs Tunnel.ReceiverSpec Tunnel.ReceiverInv Tunnel.ReceiverHistInv.
From stdpp Require Import gmap.
Arguments firstn : simpl never.
Arguments skipn : simpl never.
Arguments chunks : simpl never.
Arguments extend : simpl never.
Arguments host_vals : simpl never.

(** ** the strict tracker: basic facts *)
Lemma track_all_app opn a b :
  track_all opn (a ++ b) = match track_all opn a with Some o => track_all o b | None => None end.
Proof.
  revert opn. induction a as [|c a IH]; intros opn; simpl; [done|].
  destruct (track opn c); [apply IH | done].
Qed.

Lemma track_all_app_Some opn a b o1 o2 :
  track_all opn a = Some o1 → track_all o1 b = Some o2 → track_all opn (a ++ b) = Some o2.
Proof. intros Ha Hb. by rewrite track_all_app, Ha. Qed.

Lemma track_register opn d : track opn (HRegister d) = Some opn.
Proof. done. Qed.
Lemma track_record opn h vs : h ∈ opn → track opn (HRecord h vs) = Some opn.
Proof. intros H. unfold track. simpl. by rewrite bool_decide_eq_true_2. Qed.
Lemma track_enter opn h : h ∈ opn → track opn (HEnter h) = Some opn.
Proof. intros H. unfold track. simpl. by rewrite bool_decide_eq_true_2. Qed.
Lemma track_exit opn h : h ∈ opn → track opn (HExit h) = Some opn.
Proof. intros H. unfold track. simpl. by rewrite bool_decide_eq_true_2. Qed.
Lemma track_follows opn a b : a ∈ opn → b ∈ opn → track opn (HFollows a b) = Some opn.
Proof. intros Ha Hb. unfold track. simpl. by rewrite !bool_decide_eq_true_2. Qed.
Lemma track_close opn h : h ∈ opn → track opn (HTryClose h) = Some (opn ∖ {[h]}).
Proof. intros H. unfold track. simpl. by rewrite bool_decide_eq_true_2. Qed.

Definition pkind_open (opn : gset N) (p : pkind) : Prop :=
  match p with PExplicit h => h ∈ opn | _ => True end.

Lemma track_event opn md p vs : pkind_open opn p → track opn (HEvent md p vs) = Some opn.
Proof. intros H. unfold track. destruct p; simpl in *; try done. by rewrite bool_decide_eq_true_2. Qed.
Lemma track_new opn h md p vs :
  h ∉ opn → pkind_open opn p → track opn (HNewSpan h md p vs) = Some ({[h]} ∪ opn).
Proof.
  intros Hn Hp. unfold track.
  destruct p; simpl in *; rewrite ?(bool_decide_eq_true_2 _ Hp); simpl;
    by rewrite (bool_decide_eq_false_2 _ Hn).
Qed.

Lemma track_all_records opn h l : h ∈ opn → track_all opn (map (HRecord h) l) = Some opn.
Proof. intros H. induction l as [|v l IH]; simpl; [done|]. by rewrite track_record. Qed.

Lemma track_all_exits opn h n : h ∈ opn → track_all opn (repeat (HExit h) n) = Some opn.
Proof. intros H. induction n as [|n IH]; simpl; [done|]. by rewrite track_exit. Qed.

(** what a call does to the tracker, read backwards *)
Lemma track_Some_inv opn c opn' :
  track opn c = Some opn' →
  (∀ h, In h (ids_used c) → h ∈ opn) ∧
  match c with
  | HNewSpan h _ _ _ => h ∉ opn ∧ opn' = {[h]} ∪ opn
  | HTryClose h => h ∈ opn ∧ opn' = opn ∖ {[h]}
  | _ => opn' = opn
  end.
Proof.
  unfold track. destruct (forallb _ _) eqn:Ef; [|done]. intros H.
  assert (∀ h, In h (ids_used c) → h ∈ opn) as Hu.
  { intros h Hh. rewrite forallb_forall in Ef. apply Ef in Hh. by apply bool_decide_eq_true in Hh. }
  split; [done|]. destruct c; simplify_eq; try done.
  - destruct (bool_decide (h ∈ opn)) eqn:E; simplify_eq. apply bool_decide_eq_false in E. done.
  - split; [|done]. apply Hu. simpl. by left.
Qed.

(** ** the tracker invariant *)
Record TInvL (l : gmap N N) (n : N) (opn : gset N) : Prop := mk_TInvL {
  tinv_open : ∀ id h, l !! id = Some h → h ∈ opn;
  tinv_inj : ∀ i j h, l !! i = Some h → l !! j = Some h → i = j;
  tinv_bound : ∀ h, h ∈ opn → (h <= n)%N }.

Definition TInv (st : rstate) (w : world) (opn : gset N) : Prop :=
  TInvL (r_local st) (w_next w) opn.

(** the open set is exactly the range of the local map *)
Definition Exact (l : gmap N N) (opn : gset N) : Prop :=
  ∀ h, h ∈ opn ↔ ∃ id, l !! id = Some h.

Lemma TInvL_empty n opn : (∀ h, h ∈ opn → (h <= n)%N) → TInvL ∅ n opn.
Proof. intros H. split; [| |done]; intros *; rewrite lookup_empty; done. Qed.

Lemma TInv_init : TInv rs_default (mk_w 0 []) ∅.
Proof. apply TInvL_empty. intros h Hh. by apply not_elem_of_empty in Hh. Qed.

Lemma Exact_init : Exact ∅ ∅.
Proof.
  intros h. split; [intros Hh; by apply not_elem_of_empty in Hh|].
  intros [id Hid]. by rewrite lookup_empty in Hid.
Qed.

Lemma TInvL_fresh l n opn : TInvL l n opn → (n + 1)%N ∉ opn.
Proof. intros [_ _ Hb] Hin. apply Hb in Hin. lia. Qed.

Lemma TInvL_insert l n opn id :
  TInvL l n opn → l !! id = None → TInvL (<[id := (n + 1)%N]> l) (n + 1) ({[(n + 1)%N]} ∪ opn).
Proof.
  intros HT Hid. pose proof (TInvL_fresh _ _ _ HT) as Hf. destruct HT as [Ho Hi Hb]. split.
  - intros i h Hl. apply lookup_insert_Some in Hl as [[_ <-]|[_ Hl]].
    + apply elem_of_union_l. by apply elem_of_singleton.
    + apply elem_of_union_r. eauto.
  - intros i j h Hl1 Hl2.
    apply lookup_insert_Some in Hl1 as [[<- <-]|[Hn1 Hl1]];
      apply lookup_insert_Some in Hl2 as [[<- E2]|[Hn2 Hl2]]; try done.
    + exfalso. apply Hf. eauto.
    + exfalso. apply Hf. subst h. eauto.
    + eauto.
  - intros h Hh. apply elem_of_union in Hh as [Hh|Hh].
    + apply elem_of_singleton in Hh. lia.
    + apply Hb in Hh. lia.
Qed.

Lemma TInvL_delete l n opn id h :
  TInvL l n opn → l !! id = Some h → TInvL (delete id l) n (opn ∖ {[h]}).
Proof.
  intros [Ho Hi Hb] Hid. split.
  - intros i h' Hl. apply lookup_delete_Some in Hl as [Hn Hl].
    apply elem_of_difference. split; [eauto|].
    intros Hs. apply elem_of_singleton in Hs. subst h'. apply Hn. eauto.
  - intros i j h' Hl1 Hl2. apply lookup_delete_Some in Hl1 as [_ Hl1].
    apply lookup_delete_Some in Hl2 as [_ Hl2]. eauto.
  - intros h' Hh. apply elem_of_difference in Hh as [Hh _]. eauto.
Qed.

Lemma TInvL_weaken l n opn opn' :
  TInvL l n opn → (∀ h, h ∈ opn' → h ∈ opn) → TInvL ∅ n opn'.
Proof. intros [_ _ Hb] Hs. apply TInvL_empty. eauto. Qed.

Lemma Exact_insert l opn id h :
  Exact l opn → l !! id = None → Exact (<[id := h]> l) ({[h]} ∪ opn).
Proof.
  intros HE Hid h'. split.
  - intros Hh. apply elem_of_union in Hh as [Hh|Hh].
    + apply elem_of_singleton in Hh. subst h'. exists id. apply lookup_insert.
    + apply HE in Hh as [i Hi]. exists i. rewrite lookup_insert_ne; [done|]. congruence.
  - intros [i Hi]. apply lookup_insert_Some in Hi as [[_ <-]|[_ Hi]].
    + apply elem_of_union_l. by apply elem_of_singleton.
    + apply elem_of_union_r. apply HE. eauto.
Qed.

Lemma Exact_delete l n opn0 opn id h :
  TInvL l n opn0 → Exact l opn → l !! id = Some h → Exact (delete id l) (opn ∖ {[h]}).
Proof.
  intros [_ Hinj _] HE Hid h'. split.
  - intros Hh. apply elem_of_difference in Hh as [Hh Hn]. apply HE in Hh as [i Hi].
    exists i. apply lookup_delete_Some. split; [|done]. intros <-.
    apply Hn. apply elem_of_singleton. congruence.
  - intros [i Hi]. apply lookup_delete_Some in Hi as [Hn Hi]. apply elem_of_difference. split.
    + apply HE. eauto.
    + intros Hs. apply elem_of_singleton in Hs. subst h'. apply Hn. eauto.
Qed.

(** ** one event *)
Definition step_post (st : rstate) (w : world) (opn : gset N) (st' : rstate) (w' : world)
    (calls : list hcall) : Prop :=
  ∃ opn', track_all opn calls = Some opn' ∧ TInv st' w' opn' ∧
          (Exact (r_local st) opn → Exact (r_local st') opn').

Lemma step_post_same st w opn st' w' :
  TInv st w opn → r_local st' = r_local st → w_next w' = w_next w → step_post st w opn st' w' [].
Proof. intros HT El Ew. exists opn. unfold TInv. rewrite El, Ew. done. Qed.

Lemma step_post_use st w opn st' w' calls :
  TInv st w opn → r_local st' = r_local st → w_next w' = w_next w →
  track_all opn calls = Some opn → step_post st w opn st' w' calls.
Proof. intros HT El Ew Ht. exists opn. unfold TInv. rewrite El, Ew. done. Qed.

Lemma msi_open st w opn id h : TInv st w opn → map_span_id st id = inr (Some h) → h ∈ opn.
Proof.
  intros HT Hm. pose proof (map_span_id_spec st id) as Hs. rewrite Hm in Hs.
  eapply tinv_open; [exact HT | exact Hs].
Qed.

(** [create_local_span]: the new id is fresh, the explicit parent is open, the records use the new id *)
Lemma cls_track st w opn d b h w1 cs :
  TInv st w opn → create_local_span st w d b = inr (h, w1, cs) →
  h = (w_next w + 1)%N ∧ w_next w1 = h ∧ track_all opn cs = Some ({[h]} ∪ opn).
Proof.
  intros HT H. pose proof (TInvL_fresh _ _ _ HT) as Hf.
  unfold create_local_span in H.
  destruct (r_meta st !! sd_meta d) as [md|]; [|done].
  match type of H with match ?par with _ => _ end = _ => destruct par as [e|lp] eqn:Ep end; [done|].
  simplify_eq. split_and!; try done.
  cbn [track_all]. rewrite track_new.
  - apply track_all_records. apply elem_of_union_l. by apply elem_of_singleton.
  - done.
  - destruct lp as [ph|]; simpl; [|done].
    destruct (sd_parent d) as [p|]; [|done].
    destruct (negb b && negb (bool_decide (is_Some (r_spans st !! p)))); [done|].
    by eapply msi_open.
Qed.

Lemma step_post_create st w opn id h w1 cs st' tail :
  TInv st w opn → r_local st !! id = None →
  h = (w_next w + 1)%N → w_next w1 = h → track_all opn cs = Some ({[h]} ∪ opn) →
  r_local st' = <[id := h]> (r_local st) →
  (∀ o, h ∈ o → track_all o tail = Some o) →
  step_post st w opn st' w1 (cs ++ tail).
Proof.
  intros HT Hid -> Ew Ht El Htail. exists ({[(w_next w + 1)%N]} ∪ opn). split_and!.
  - eapply track_all_app_Some; [done|]. apply Htail. apply elem_of_union_l. by apply elem_of_singleton.
  - unfold TInv. rewrite El, Ew. by apply TInvL_insert.
  - intros HE. rewrite El. by apply Exact_insert.
Qed.

Lemma step_post_create0 st w opn id h w1 cs st' :
  TInv st w opn → r_local st !! id = None →
  h = (w_next w + 1)%N → w_next w1 = h → track_all opn cs = Some ({[h]} ∪ opn) →
  r_local st' = <[id := h]> (r_local st) →
  step_post st w opn st' w1 cs.
Proof.
  intros. rewrite <- (app_nil_r cs). eapply step_post_create; try done.
Qed.

Theorem try_receive_track st w opn ev o st' w' calls :
  Inv st → TInv st w opn → no_reannounce st ev = true →
  try_receive st w ev = (o, st', w', calls) → step_post st w opn st' w' calls.
Proof.
  intros HI HT Hre H.
  destruct o as [|e|];
    [| apply reject_no_effect in H as (-> & -> & ->); by apply step_post_same
     | by eapply recv_total in H].
  destruct ev as [id d|id p m vs|a b|id|id|id|id|id vs|m p vs]; simpl in *.
  - (* NewCallSite *)
    unfold on_new_call_site in H. simplify_eq.
    apply step_post_use; simpl; try done; by destruct (negb _).
  - (* NewSpan *)
    destruct (too_many vs); [unfold reject in H; simplify_eq|].
    apply negb_true_iff, alive_false in Hre.
    assert (r_local st !! id = None) as Hl.
    { destruct (r_local st !! id) eqn:E; [|done]. exfalso.
      assert (id ∈ dom (r_spans st)) as Hd by (apply (inv_local _ HI); by apply elem_of_dom).
      apply elem_of_dom in Hd as [? Hd]. congruence. }
    rewrite Hl in H.
    destruct (create_local_span st w (mk_sd m p 1 vs) true) as [e'|[[h w1] cs]] eqn:Ec;
      [unfold reject in H; simplify_eq|].
    simplify_eq. destruct (cls_track _ _ _ _ _ _ _ _ HT Ec) as (Eh & Ew & Ht).
    eapply step_post_create0; try done.
  - (* FollowsFrom *)
    destruct (map_span_id st a) as [e'|la] eqn:Ea; [unfold reject in H; simplify_eq|].
    destruct (map_span_id st b) as [e'|lb] eqn:Eb; [unfold reject in H; simplify_eq|].
    simplify_eq. apply step_post_use; try done.
    destruct la as [ha|]; [|done]. destruct lb as [hb|]; [|done].
    cbn [track_all]. rewrite track_follows; [done | by eapply msi_open..].
  - (* Entered *)
    destruct (map_span_id st id) as [e'|[h|]] eqn:Em; [unfold reject in H; simplify_eq| |].
    + simplify_eq. apply step_post_use; try done. simpl.
      rewrite track_enter; [done | by eapply msi_open].
    + pose proof (map_span_id_spec st id) as Hs. rewrite Em in Hs. destruct Hs as [Hl [d Hd]].
      rewrite Hd in H.
      destruct (create_local_span st w d false) as [e'|[[h w1] cs]] eqn:Ec;
        [unfold reject in H; simplify_eq|].
      simplify_eq. destruct (cls_track _ _ _ _ _ _ _ _ HT Ec) as (Eh & Ew & Ht).
      eapply step_post_create; try done.
      intros o Ho. simpl. by rewrite track_enter.
  - (* Exited *)
    destruct (map_span_id st id) as [e'|lid] eqn:Em; [unfold reject in H; simplify_eq|].
    simplify_eq. apply step_post_use; try done.
    destruct lid as [h|]; [|done]. simpl. rewrite track_exit; [done | by eapply msi_open].
  - (* Cloned *)
    destruct (r_spans st !! id) as [d|] eqn:Es; [|unfold reject in H; simplify_eq].
    simplify_eq. by apply step_post_same.
  - (* Dropped *)
    destruct (r_spans st !! id) as [d|] eqn:Es; [|unfold reject in H; simplify_eq].
    destruct (sd_refs d =? 0)%N; [simplify_eq|].
    destruct (sd_refs d - 1 =? 0)%N; simplify_eq; [|by apply step_post_same].
    destruct (r_local st !! id) as [h|] eqn:El.
    + exists (opn ∖ {[h]}). split_and!.
      * simpl. rewrite track_close; [done|]. eapply tinv_open; [exact HT | exact El].
      * unfold TInv. simpl. by apply TInvL_delete.
      * simpl. intros HE. by eapply Exact_delete.
    + apply step_post_same; simpl; try done. by apply delete_notin.
  - (* ValuesRecorded *)
    destruct (too_many vs); [unfold reject in H; simplify_eq|].
    destruct (map_span_id st id) as [e'|lid] eqn:Em; [unfold reject in H; simplify_eq|].
    repeat (case_match; simplify_eq/=); apply step_post_use; try done.
    simpl. rewrite track_record; [done | by eapply msi_open].
  - (* NewEvent *)
    destruct (too_many vs); [unfold reject in H; simplify_eq|].
    destruct (r_meta st !! m) as [md|]; [|unfold reject in H; simplify_eq].
    destruct p as [p|]; simpl in *.
    + destruct (map_span_id st p) as [e'|lp] eqn:Ep; [unfold reject in H; simplify_eq|].
      simplify_eq. apply step_post_use; try done. simpl. rewrite track_event; [done|].
      destruct lp as [ph|]; simpl; [by eapply msi_open | done].
    + simplify_eq. by apply step_post_use.
Qed.

(** ** finalisation: forced exits, roll-back closes, re-registration *)
Lemma exits_track l n opn ent : TInvL l n opn → track_all opn (exits_of ent l) = Some opn.
Proof.
  intros HT. unfold exits_of. induction (map_to_list ent) as [|[id c] r IH]; simpl; [done|].
  rewrite track_all_app. destruct (l !! id) as [h|] eqn:E.
  - rewrite track_all_exits; [done|]. eapply tinv_open; [exact HT | exact E].
  - done.
Qed.

Lemma closes_track_list (l : gmap N N) ids opn :
  (∀ i j h, l !! i = Some h → l !! j = Some h → i = j) → NoDup ids →
  (∀ id h, id ∈ ids → l !! id = Some h → h ∈ opn) →
  ∃ opn', track_all opn (flat_map (fun id => match l !! id with Some h => [HTryClose h] | None => [] end) ids)
          = Some opn' ∧ ∀ h, h ∈ opn' → h ∈ opn.
Proof.
  intros Hinj. revert opn. induction ids as [|id r IH]; intros opn Hnd Hin; simpl.
  - eauto.
  - apply NoDup_cons in Hnd as [Hni Hnd].
    destruct (l !! id) as [h|] eqn:E; simpl.
    + rewrite track_close by (eapply Hin; [by left | done]).
      destruct (IH (opn ∖ {[h]}) Hnd) as (opn' & Ht & Hs).
      * intros id' h' Hid' Hl'. apply elem_of_difference. split.
        -- eapply Hin; [by right | done].
        -- intros Hs. apply elem_of_singleton in Hs. subst h'.
           assert (id' = id) as -> by eauto. done.
      * exists opn'. split; [done|]. intros h' Hh'. apply Hs in Hh'.
        by apply elem_of_difference in Hh' as [? _].
    + apply IH; [done|]. intros id' h' Hid' Hl'. eapply Hin; [by right | done].
Qed.

Lemma closes_track l n opn unc :
  TInvL l n opn → ∃ opn', track_all opn (closes_of unc l) = Some opn' ∧ ∀ h, h ∈ opn' → h ∈ opn.
Proof.
  intros [Ho Hi Hb]. unfold closes_of. apply closes_track_list; [done | apply NoDup_elements | eauto].
Qed.

Lemma drop_calls_track st w opn :
  TInv st w opn → ∃ opn', track_all opn (drop_calls st) = Some opn' ∧ ∀ h, h ∈ opn' → h ∈ opn.
Proof.
  intros HT. unfold drop_calls.
  destruct (closes_track _ _ _ (r_uncommitted st) HT) as (opn' & Ht & Hs).
  exists opn'. split; [|done]. eapply track_all_app_Some; [by eapply exits_track | done].
Qed.

Lemma persist_track st w opn spans local exits :
  TInv st w opn → persist st = (spans, local, exits) →
  spans = r_spans st ∧ local = r_local st ∧ track_all opn exits = Some opn.
Proof. unfold persist. intros HT H. simplify_eq. split_and!; try done. by eapply exits_track. Qed.

Lemma restore_fold_track opn l st0 w0 c0 :
  track_all opn c0 = Some opn → track_all opn (fold_left restore_step l (st0, w0, c0)).2 = Some opn.
Proof.
  revert st0 w0 c0. induction l as [|[id d] l IH]; intros st0 w0 c0 H; [done|].
  cbn [fold_left]. unfold restore_step at 2. unfold on_new_call_site. apply IH.
  rewrite track_all_app, H. by destruct (negb _).
Qed.

Lemma restore_track opn w md spans local :
  track_all opn (restore w md spans local).2 = Some opn.
Proof. unfold restore. by apply restore_fold_track. Qed.

(** ** whole histories *)
Definition mobs_calls (o : mobs) : list hcall :=
  match o with
  | MRecv _ c _ => c
  | MPersist exits _ _ regs _ => exits ++ regs
  | MDrop c regs _ => c ++ regs
  end.

(** every call the receiver chain makes on the host, in order *)
Definition hist_calls (h : hist) (steps : list hstep) : list hcall :=
  flat_map mobs_calls (hist_run h steps).

(** steps that keep the local span map *)
Definition keep_step (s : hstep) : Prop :=
  match s with SRecv _ | SPersist true => True | _ => False end.
Definition keep_only (steps : list hstep) : Prop := Forall keep_step steps.

Lemma hist_step_track h s opn :
  HInv h → TInv (h_st h) (h_w h) opn → step_scope h s →
  ∃ opn', track_all opn (mobs_calls (hist_step h s).2) = Some opn' ∧
          TInv (h_st (hist_step h s).1) (h_w (hist_step h s).1) opn' ∧
          (keep_step s → Exact (r_local (h_st h)) opn → Exact (r_local (h_st (hist_step h s).1)) opn').
Proof.
  intros HH HT Hsc. destruct s as [ev|keep|]; simpl in *.
  - destruct (try_receive (h_st h) (h_w h) ev) as [[[o st'] w'] calls] eqn:E. simpl.
    destruct (try_receive_track _ _ _ _ _ _ _ _ (hinv_st _ HH) HT Hsc E) as (opn' & Ht & HT' & HE).
    exists opn'. eauto.
  - unfold persist, persist_metadata.
    pose proof (restore_spec (h_w h) (r_meta (h_st h) ∪ h_md h) (r_spans (h_st h))
                  (if keep then r_local (h_st h) else ∅)) as Hs.
    pose proof (restore_track opn (h_w h) (r_meta (h_st h) ∪ h_md h) (r_spans (h_st h))
                  (if keep then r_local (h_st h) else ∅)) as Hr.
    destruct (restore _ _ _ _) as [[st' w'] regs]. simpl in *.
    destruct Hs as (_ & _ & E3 & _ & _ & E6 & _).
    exists opn. split_and!.
    + eapply track_all_app_Some; [by eapply exits_track | done].
    + unfold TInv. rewrite E3, E6. destruct keep; [done|]. apply TInvL_empty. apply HT.
    + intros Hk. destruct keep; [|done]. by rewrite E3.
  - pose proof (restore_spec (h_w h) (h_md h) (h_spans h) ∅) as Hs.
    pose proof (restore_track) as Hr.
    destruct (drop_calls_track _ _ _ HT) as (opn' & Ht & Hsub).
    specialize (Hr opn' (h_w h) (h_md h) (h_spans h) ∅).
    destruct (restore _ _ _ _) as [[st' w'] regs]. simpl in *.
    destruct Hs as (_ & _ & E3 & _ & _ & E6 & _).
    exists opn'. split_and!.
    + eapply track_all_app_Some; done.
    + unfold TInv. rewrite E3, E6. apply TInvL_empty. intros x Hx. apply HT. eauto.
    + done.
Qed.

Lemma hist_calls_cons h s r :
  hist_calls h (s :: r) =
  mobs_calls (hist_step h s).2 ++
  (if is_panic (hist_step h s).2 then [] else hist_calls (hist_step h s).1 r).
Proof.
  unfold hist_calls. simpl. destruct (hist_step h s) as [h' o]. simpl.
  by destruct (is_panic o).
Qed.

Lemma hist_final_cons h s r :
  hist_final h (s :: r) =
  if is_panic (hist_step h s).2 then (hist_step h s).1 else hist_final (hist_step h s).1 r.
Proof. simpl. by destruct (hist_step h s) as [h' o]. Qed.

Theorem hist_track steps h opn :
  HInv h → TInv (h_st h) (h_w h) opn → hist_scope h steps →
  ∃ opn', track_all opn (hist_calls h steps) = Some opn' ∧
          TInv (h_st (hist_final h steps)) (h_w (hist_final h steps)) opn' ∧
          (keep_only steps → Exact (r_local (h_st h)) opn →
           Exact (r_local (h_st (hist_final h steps))) opn').
Proof.
  revert h opn. induction steps as [|s r IH]; intros h opn HH HT Hsc.
  - exists opn. done.
  - destruct Hsc as [Hs Hr]. rewrite hist_calls_cons, hist_final_cons.
    pose proof (hist_step_HInv h s HH Hs) as HH'.
    destruct (hist_step_track h s opn HH HT Hs) as (opn1 & Ht1 & HT1 & HE1).
    destruct (hist_step h s) as [h' o]. simpl in *.
    destruct (is_panic o).
    + exists opn1. rewrite app_nil_r. split_and!; try done.
      intros Hk. apply Forall_cons in Hk as [Hk _]. eauto.
    + destruct (IH h' opn1 HH' HT1 Hr) as (opn' & Ht & HT' & HE).
      exists opn'. split_and!; try done.
      * by eapply track_all_app_Some.
      * intros Hk. apply Forall_cons in Hk as [Hk1 Hk2]. eauto.
Qed.

(** C08, first clause: along every history in scope, from the initial receiver, the strict
    tracker accepts every host call. *)
Theorem hist_ids_valid steps :
  hist_scope hist_init steps →
  ∃ opn, track_all ∅ (hist_calls hist_init steps) = Some opn ∧
         TInv (h_st (hist_final hist_init steps)) (h_w (hist_final hist_init steps)) opn.
Proof.
  intros Hsc. destruct (hist_track steps hist_init ∅ HInv_init TInv_init Hsc) as (opn & Ht & HT & _).
  eauto.
Qed.

(** ** consequences of acceptance by the strict tracker (any host) *)
Lemma track_all_split opn a b o :
  track_all opn (a ++ b) = Some o → ∃ o1, track_all opn a = Some o1 ∧ track_all o1 b = Some o.
Proof. rewrite track_all_app. destruct (track_all opn a) as [o1|]; [eauto | done]. Qed.

(** every id used by a call was open when the call was made; a close hits an open id; a new
    span gets an id that is not open *)
Theorem track_all_use opn a c b o :
  track_all opn (a ++ c :: b) = Some o →
  ∃ o1, track_all opn a = Some o1 ∧ (∀ h, In h (ids_used c) → h ∈ o1) ∧
        match c with
        | HNewSpan h _ _ _ => h ∉ o1
        | HTryClose h => h ∈ o1
        | _ => True
        end.
Proof.
  intros H. apply track_all_split in H as (o1 & Ha & Hb). exists o1. split; [done|].
  cbn [track_all] in Hb. destruct (track o1 c) as [o2|] eqn:Ec; [|done].
  apply track_Some_inv in Ec as [Hu Hc]. split; [done|]. destruct c; try done; apply Hc.
Qed.

Lemma track_reopen opn b o h :
  track_all opn b = Some o → h ∉ opn → h ∈ o → ∃ md p vs, In (HNewSpan h md p vs) b.
Proof.
  revert opn. induction b as [|c b IH]; intros opn H Hn Hi; cbn [track_all] in H.
  - simplify_eq. done.
  - destruct (track opn c) as [o1|] eqn:Ec; [|done]. apply track_Some_inv in Ec as [_ Hc].
    destruct (decide (h ∈ o1)) as [Hin|Hout].
    + destruct c; try (subst o1; done).
      * destruct Hc as [_ ->]. apply elem_of_union in Hin as [Hin|Hin]; [|done].
        apply elem_of_singleton in Hin. subst h0. do 3 eexists. by left.
      * destruct Hc as [_ ->]. apply elem_of_difference in Hin as [Hin _]. done.
    + destruct (IH o1 H Hout Hi) as (md & p & vs & Hin). do 3 eexists. right. exact Hin.
Qed.

(** no double close: between two closes of the same id the host has issued it again *)
Theorem track_no_double_close opn a b c o h :
  track_all opn (a ++ HTryClose h :: b ++ HTryClose h :: c) = Some o →
  ∃ md p vs, In (HNewSpan h md p vs) b.
Proof.
  intros H. apply track_all_split in H as (o1 & _ & H). cbn [track_all] in H.
  destruct (track o1 (HTryClose h)) as [o2|] eqn:E1; [|done].
  apply track_Some_inv in E1 as [_ [_ ->]].
  apply track_all_split in H as (o3 & Hb & H). cbn [track_all] in H.
  destruct (track o3 (HTryClose h)) as [o4|] eqn:E2; [|done].
  apply track_Some_inv in E2 as [_ [Hin _]].
  eapply track_reopen; [exact Hb | | exact Hin].
  intros Hx. apply elem_of_difference in Hx as [_ Hx]. apply Hx. by apply elem_of_singleton.
Qed.

(** ids issued / closed by a call sequence *)
Definition issued_of (c : hcall) : list N := match c with HNewSpan h _ _ _ => [h] | _ => [] end.
Definition closed_of (c : hcall) : list N := match c with HTryClose h => [h] | _ => [] end.
Definition issued (cs : list hcall) : list N := flat_map issued_of cs.
Definition closed (cs : list hcall) : list N := flat_map closed_of cs.

(** if the host never issues an id twice, no id is closed twice *)
Lemma track_closed_nodup cs : ∀ opn o,
  track_all opn cs = Some o → NoDup (issued cs) → (∀ h, h ∈ issued cs → h ∉ opn) →
  NoDup (closed cs) ∧ ∀ h, h ∈ closed cs → h ∈ opn ∨ h ∈ issued cs.
Proof.
  induction cs as [|c cs IH]; intros opn o H Hnd Hfr; cbn [track_all] in H.
  - split; [constructor|]. intros h Hh. by apply elem_of_nil in Hh.
  - destruct (track opn c) as [o1|] eqn:Ec; [|done]. apply track_Some_inv in Ec as [_ Hc].
    unfold issued, closed in *. cbn [flat_map] in *.
    destruct c; cbn [issued_of closed_of app] in *;
      try (subst o1; by eapply IH).
    + (* new span *)
      destruct Hc as [Hn ->]. apply NoDup_cons in Hnd as [Hni Hnd].
      destruct (IH _ _ H Hnd) as [Hc1 Hc2].
      * intros x Hx Hin. apply elem_of_union in Hin as [Hin|Hin].
        -- apply elem_of_singleton in Hin. subst x. done.
        -- eapply Hfr; [|exact Hin]. by right.
      * split; [done|]. intros x Hx. apply Hc2 in Hx as [Hx|Hx].
        -- apply elem_of_union in Hx as [Hx|Hx]; [|by left].
           apply elem_of_singleton in Hx. subst x. right. by left.
        -- right. by right.
    + (* close *)
      destruct Hc as [Hin ->]. destruct (IH _ _ H Hnd) as [Hc1 Hc2].
      * intros x Hx Hi. apply elem_of_difference in Hi as [Hi _]. by eapply Hfr.
      * split.
        -- apply NoDup_cons. split; [|done]. intros Hx. apply Hc2 in Hx as [Hx|Hx].
           ++ apply elem_of_difference in Hx as [_ Hx]. apply Hx. by apply elem_of_singleton.
           ++ by eapply Hfr.
        -- intros x Hx. apply elem_of_cons in Hx as [->|Hx]; [by left|].
           apply Hc2 in Hx as [Hx|Hx]; [|by right]. left.
           by apply elem_of_difference in Hx as [? _].
Qed.

(** ** the model host issues strictly increasing ids *)
Lemma issued_app a b : issued (a ++ b) = issued a ++ issued b.
Proof. unfold issued. apply flat_map_app. Qed.
Lemma closed_app a b : closed (a ++ b) = closed a ++ closed b.
Proof. unfold closed. apply flat_map_app. Qed.

Lemma issued_records h l : issued (map (HRecord h) l) = [].
Proof. induction l as [|v l IH]; [done|]. exact IH. Qed.
Lemma issued_exits ent l : issued (exits_of ent l) = [].
Proof.
  unfold exits_of. induction (map_to_list ent) as [|[id c] r IH]; [done|].
  cbn [flat_map]. rewrite issued_app, IH, app_nil_r.
  destruct (l !! id); [|done]. induction (N.to_nat c) as [|k IHk]; [done | exact IHk].
Qed.
Lemma issued_closes unc l : issued (closes_of unc l) = [].
Proof.
  unfold closes_of. induction (elements unc) as [|id r IH]; [done|].
  cbn [flat_map]. rewrite issued_app, IH, app_nil_r. by destruct (l !! id).
Qed.
Lemma issued_restore_fold l st0 w0 c0 :
  issued c0 = [] → issued (fold_left restore_step l (st0, w0, c0)).2 = [].
Proof.
  revert st0 w0 c0. induction l as [|[id d] l IH]; intros st0 w0 c0 H; [done|].
  cbn [fold_left]. unfold restore_step at 2. unfold on_new_call_site. apply IH.
  rewrite issued_app, H. by destruct (negb _).
Qed.
Lemma issued_restore w md spans local : issued (restore w md spans local).2 = [].
Proof. unfold restore. by apply issued_restore_fold. Qed.

Lemma cls_issued st w d b h w1 cs :
  create_local_span st w d b = inr (h, w1, cs) →
  h = (w_next w + 1)%N ∧ w_next w1 = h ∧ issued cs = [h].
Proof.
  unfold create_local_span. intros H. repeat (case_match; simplify_eq/=);
    (split_and!; [done | done |]); unfold issued; cbn [flat_map issued_of app];
    by rewrite (issued_records _ _ : flat_map issued_of _ = []).
Qed.

Lemma try_receive_issued st w ev o st' w' calls :
  try_receive st w ev = (o, st', w', calls) →
  (issued calls = [] ∧ w_next w' = w_next w) ∨
  (issued calls = [(w_next w + 1)%N] ∧ w_next w' = (w_next w + 1)%N).
Proof.
  unfold try_receive, reject, on_new_call_site. intros H.
  destruct ev; repeat (case_match; simplify_eq/=);
    try match goal with Hc : create_local_span _ _ _ _ = inr _ |- _ =>
      apply cls_issued in Hc as (-> & ? & Hi); right; rewrite ?issued_app, Hi; by split end;
    left; by split.
Qed.

Lemma hist_step_issued h s :
  (issued (mobs_calls (hist_step h s).2) = [] ∧ w_next (h_w (hist_step h s).1) = w_next (h_w h)) ∨
  (issued (mobs_calls (hist_step h s).2) = [(w_next (h_w h) + 1)%N] ∧
   w_next (h_w (hist_step h s).1) = (w_next (h_w h) + 1)%N).
Proof.
  destruct s as [ev|keep|]; simpl.
  - destruct (try_receive (h_st h) (h_w h) ev) as [[[o st'] w'] calls] eqn:E. simpl.
    by eapply try_receive_issued.
  - unfold persist, persist_metadata.
    pose proof (restore_spec (h_w h) (r_meta (h_st h) ∪ h_md h) (r_spans (h_st h))
                  (if keep then r_local (h_st h) else ∅)) as Hs.
    pose proof (issued_restore (h_w h) (r_meta (h_st h) ∪ h_md h) (r_spans (h_st h))
                  (if keep then r_local (h_st h) else ∅)) as Hr.
    destruct (restore _ _ _ _) as [[st' w'] regs]. simpl in *.
    destruct Hs as (_ & _ & _ & _ & _ & E6 & _). left.
    by rewrite issued_app, issued_exits, Hr.
  - pose proof (restore_spec (h_w h) (h_md h) (h_spans h) ∅) as Hs.
    pose proof (issued_restore (h_w h) (h_md h) (h_spans h) ∅) as Hr.
    destruct (restore _ _ _ _) as [[st' w'] regs]. simpl in *.
    destruct Hs as (_ & _ & _ & _ & _ & E6 & _). left.
    unfold drop_calls. by rewrite !issued_app, issued_exits, issued_closes, Hr.
Qed.

Lemma hist_issued steps h :
  NoDup (issued (hist_calls h steps)) ∧
  ∀ x, x ∈ issued (hist_calls h steps) → (w_next (h_w h) < x)%N.
Proof.
  revert h. induction steps as [|s r IH]; intros h.
  - split; [constructor|]. intros x Hx. by apply elem_of_nil in Hx.
  - rewrite hist_calls_cons, issued_app.
    pose proof (hist_step_issued h s) as Hs. destruct (IH (hist_step h s).1) as [Hnd Hgt].
    destruct (is_panic (hist_step h s).2).
    + rewrite app_nil_r. destruct Hs as [[-> _]|[-> _]].
      * split; [constructor|]. intros x Hx. by apply elem_of_nil in Hx.
      * split; [apply NoDup_singleton|]. intros x Hx. apply elem_of_list_singleton in Hx. lia.
    + destruct Hs as [[-> Ew]|[-> Ew]]; simpl.
      * split; [done|]. intros x Hx. apply Hgt in Hx. lia.
      * split.
        -- apply NoDup_cons. split; [|done]. intros Hx. apply Hgt in Hx. lia.
        -- intros x Hx. apply elem_of_cons in Hx as [->|Hx]; [lia|]. apply Hgt in Hx. lia.
Qed.

(** C08: no host span is closed twice, in any history in scope *)
Theorem hist_close_once steps :
  hist_scope hist_init steps → NoDup (closed (hist_calls hist_init steps)).
Proof.
  intros Hsc. destruct (hist_ids_valid steps Hsc) as (opn & Ht & _).
  destruct (hist_issued steps hist_init) as [Hnd Hgt].
  eapply track_closed_nodup; [exact Ht | exact Hnd |].
  intros h _ Hh. by apply not_elem_of_empty in Hh.
Qed.

(** ** closes happen exactly at the last drop *)
Theorem close_at_last_drop st w id d o st' w' calls :
  Inv st → r_spans st !! id = Some d →
  try_receive st w (ESpanDropped id) = (o, st', w', calls) →
  o = Accepted ∧ w' = w ∧
  if (sd_refs d =? 1)%N then
    (* last handle: the span is gone, its host span (if any) is closed by exactly one call *)
    r_spans st' = delete id (r_spans st) ∧ r_local st' = delete id (r_local st) ∧
    calls = match r_local st !! id with Some h => [HTryClose h] | None => [] end
  else
    (* other handles remain: nothing reaches the host, the host id is kept *)
    calls = [] ∧ r_local st' = r_local st ∧
    r_spans st' = <[id := mk_sd (sd_meta d) (sd_parent d) (sd_refs d - 1) (sd_values d)]> (r_spans st).
Proof.
  intros HI Hs H. simpl in H. rewrite Hs in H. pose proof (inv_refs _ HI _ _ Hs) as Hr.
  destruct (sd_refs d =? 0)%N eqn:E0; [apply N.eqb_eq in E0; lia|].
  destruct (sd_refs d - 1 =? 0)%N eqn:E1.
  - apply N.eqb_eq in E1. assert (sd_refs d =? 1 = true)%N as -> by (apply N.eqb_eq; lia).
    by simplify_eq.
  - apply N.eqb_neq in E1. assert (sd_refs d =? 1 = false)%N as -> by (apply N.eqb_neq; lia).
    by simplify_eq.
Qed.

Lemma in_map_record c h l : In c (map (HRecord h) l) → ∃ vs, c = HRecord h vs.
Proof. intros H. apply in_map_iff in H as (vs & <- & _). eauto. Qed.

Lemma cls_no_close st w d b h w1 cs x :
  create_local_span st w d b = inr (h, w1, cs) → ¬ In (HTryClose x) cs.
Proof.
  unfold create_local_span. intros H Hin. repeat (case_match; simplify_eq/=);
    (destruct Hin as [Hin|Hin]; [done | apply in_map_record in Hin as [? Hin]; done]).
Qed.

(** the only event that closes a host span is the drop of the last handle of its guest span *)
Theorem close_only_at_last_drop st w ev o st' w' calls h :
  try_receive st w ev = (o, st', w', calls) → In (HTryClose h) calls →
  ∃ id d, ev = ESpanDropped id ∧ r_spans st !! id = Some d ∧ sd_refs d = 1%N ∧
          r_local st !! id = Some h ∧ calls = [HTryClose h].
Proof.
  unfold try_receive, reject, on_new_call_site. intros H Hin.
  destruct ev; repeat (case_match; simplify_eq/=);
    try done;
    try (destruct Hin as [Hin|Hin]; done);
    try (match goal with Hc : create_local_span _ _ _ _ = inr _ |- _ =>
           try (apply in_app_or in Hin as [Hin|Hin]; [|destruct Hin as [Hin|Hin]; done]);
           by apply (cls_no_close _ _ _ _ _ _ _ _ Hc) in Hin end).
  destruct Hin as [Hin|Hin]; [|done]. simplify_eq.
  match goal with Hs : r_spans _ !! ?i = Some ?d |- _ => exists i, d end.
  split_and!; try done.
  match goal with Hz : (_ - 1 =? 0)%N = true, Hn : (_ =? 0)%N = false |- _ =>
    apply N.eqb_eq in Hz; apply N.eqb_neq in Hn; lia end.
Qed.

(** clones are counted locally and never forwarded *)
Theorem clone_no_calls st w id o st' w' calls :
  try_receive st w (ESpanCloned id) = (o, st', w', calls) →
  calls = [] ∧ w' = w ∧ r_local st' = r_local st.
Proof. simpl. unfold reject. intros H. repeat (case_match; simplify_eq/=); done. Qed.

(** ** histories that keep the local map: exactly the host spans of alive guest spans are open *)
Theorem hist_keep_exact steps :
  hist_scope hist_init steps → keep_only steps →
  ∃ opn, track_all ∅ (hist_calls hist_init steps) = Some opn ∧
         Exact (r_local (h_st (hist_final hist_init steps))) opn.
Proof.
  intros Hsc Hk.
  destruct (hist_track steps hist_init ∅ HInv_init TInv_init Hsc) as (opn & Ht & _ & HE).
  exists opn. split; [done|]. apply HE; [done|]. apply Exact_init.
Qed.

Lemma Exact_empty opn : Exact ∅ opn → opn = ∅.
Proof.
  intros HE. apply set_eq. intros h. split; [|intros Hh; by apply not_elem_of_empty in Hh].
  intros Hh. apply HE in Hh as [id Hid]. by rewrite lookup_empty in Hid.
Qed.

Lemma Inv_no_spans_no_local st : Inv st → r_spans st = ∅ → r_local st = ∅.
Proof.
  intros HI Hs. apply map_empty. intros id. apply not_elem_of_dom. intros Hd.
  apply (inv_local _ HI) in Hd. rewrite Hs, dom_empty_L in Hd. by apply not_elem_of_empty in Hd.
Qed.

(** C08, last clause: with the local map preserved, a completed execution (no guest span alive)
    leaves an empty local map and no host span open *)
Theorem complete_run_clean steps opn :
  hist_scope hist_init steps → keep_only steps →
  track_all ∅ (hist_calls hist_init steps) = Some opn →
  r_spans (h_st (hist_final hist_init steps)) = ∅ →
  r_local (h_st (hist_final hist_init steps)) = ∅ ∧ opn = ∅.
Proof.
  intros Hsc Hk Ht Hs. destruct (hist_keep_exact steps Hsc Hk) as (opn' & Ht' & HE).
  rewrite Ht in Ht'. simplify_eq.
  pose proof (Inv_no_spans_no_local _ (reachable_Inv steps Hsc) Hs) as Hl.
  split; [done|]. rewrite Hl in HE. by apply Exact_empty.
Qed.

(** ** restoring with the local map kept or lost *)
Lemma restore_TInv w md spans local opn st' w' regs :
  TInvL local (w_next w) opn → restore w md spans local = (st', w', regs) →
  track_all opn regs = Some opn ∧ TInv st' w' opn ∧ r_local st' = local ∧ w_next w' = w_next w.
Proof.
  intros HT H. pose proof (restore_spec w md spans local) as Hs.
  pose proof (restore_track opn w md spans local) as Hr. rewrite H in Hs, Hr. simpl in Hr.
  destruct Hs as (_ & _ & E3 & _ & _ & E6 & _). unfold TInv. rewrite E3, E6. done.
Qed.

Lemma lose_step_local_empty h s :
  s = SPersist false ∨ s = SDrop → r_local (h_st (hist_step h s).1) = ∅.
Proof.
  intros [-> | ->]; simpl.
  - unfold persist, persist_metadata.
    pose proof (restore_spec (h_w h) (r_meta (h_st h) ∪ h_md h) (r_spans (h_st h)) ∅) as Hs.
    destruct (restore _ _ _ _) as [[st' w'] regs]. simpl. apply Hs.
  - pose proof (restore_spec (h_w h) (h_md h) (h_spans h) ∅) as Hs.
    destruct (restore _ _ _ _) as [[st' w'] regs]. simpl. apply Hs.
Qed.

(** once the local map is lost, the host ids issued before are never used again: the rest of
    the history passes the tracker started from the empty set *)
Theorem lost_ids_never_used steps h :
  HInv h → r_local (h_st h) = ∅ → hist_scope h steps →
  ∃ opn, track_all ∅ (hist_calls h steps) = Some opn.
Proof.
  intros HH Hl Hsc.
  destruct (hist_track steps h ∅ HH) as (opn & Ht & _); [|done|eauto].
  unfold TInv. rewrite Hl. apply TInvL_empty. intros x Hx. by apply not_elem_of_empty in Hx.
Qed.

(** the alive guest spans evolve as the reference fold of ReceiverSpec.v says (accepted events) *)
Lemma accepted_spans_spec st w ev st' w' calls :
  Inv st → try_receive st w ev = (Accepted, st', w', calls) →
  r_spans st' = spec_step (r_spans st) ev.
Proof.
  intros HI. unfold try_receive, reject, on_new_call_site. intros H.
  destruct ev; repeat (case_match; simplify_eq/=); try done.
Qed.
