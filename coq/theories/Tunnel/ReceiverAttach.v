(** C03, clause "events emitted inside a span that was entered after the restart are attached to
    it": when the receiver enters a guest span for which the current host has no span yet (the map
    was lost in a restart), the host span it creates is the host thread's current span right after
    the event, whatever the host thread had entered before; and a contextual guest event is handed
    to the host as a contextual event without touching the stack, so the host attaches it to that
    span.  Also: an enter of a span that has a host span makes that host span current unless the
    host already has it on the stack ([SpanStack] flags the second entry as a duplicate and skips
    it - the behaviour of tracing-subscriber, modelled in [ReceiverFinalize.v]). *)
From TT Require Import Tunnel.TypesProofs Tunnel.ReceiverSpec Tunnel.ReceiverInv Tunnel.ReceiverHistInv
  Tunnel.ReceiverFinalize Tunnel.ReceiverFinalizeProofs Tunnel.ReceiverMisc.
From stdpp Require Import gmap.

Lemma stack_apply_records s h l : stack_apply s (map (HRecord h) l) = s.
Proof. induction l as [|v l IH]; [done|]. exact IH. Qed.

Lemma stack_apply_record_calls s h recs :
  Forall (λ c, ∃ vs, c = HRecord h vs) recs → stack_apply s recs = s.
Proof.
  induction 1 as [|c recs [vs ->] _ IH]; [done|]. unfold stack_apply in *. cbn [fold_left stack_step]. exact IH.
Qed.

Lemma on_stack_fresh h stk : (∀ x, x ∈ stk → (x < h)%N) → on_stack h stk = false.
Proof.
  intros H. unfold on_stack. apply not_true_is_false. intros E. apply existsb_exists in E as (x & Hx & Ex).
  apply N.eqb_eq in Ex. subst x. apply elem_of_list_In in Hx. specialize (H _ Hx). lia.
Qed.

(** the restart case: no host span yet *)
Theorem enter_after_restart_is_current st w id st' w' calls stk :
  Inv st → r_local st !! id = None →
  try_receive st w (ESpanEntered id) = (Accepted, st', w', calls) →
  (∀ x, x ∈ stk → (x <= w_next w)%N) →
  let h := (w_next w + 1)%N in
  r_local st' !! id = Some h ∧ stack_apply stk calls = h :: stk ∧ current (stack_apply stk calls) = Some h.
Proof.
  intros HI Hl H Hstk h. pose proof (entered_presentation _ _ _ _ _ _ HI H) as P. rewrite Hl in P.
  destruct P as (d & md & p & _ & _ & Hloc & (recs & -> & Hrecs) & _). split; [exact Hloc|].
  assert (stack_apply stk (HNewSpan h md p (firstn 32 (host_vals md (sd_values d))) :: recs ++ [HEnter h]) = h :: stk) as E.
  { unfold stack_apply. cbn [fold_left stack_step]. rewrite fold_left_app.
    change (fold_left stack_step recs stk) with (stack_apply stk recs).
    rewrite (stack_apply_record_calls _ _ _ Hrecs). done. }
  fold h in E |- *. rewrite E. split; [done|]. cbn [current].
  rewrite on_stack_fresh; [done|]. intros x Hx. specialize (Hstk _ Hx). subst h. lia.
Qed.

(** a span that has a host span: entered, and current unless the host thread is already inside it *)
Theorem enter_known_is_current st w id h st' w' calls stk :
  Inv st → r_local st !! id = Some h →
  try_receive st w (ESpanEntered id) = (Accepted, st', w', calls) →
  stack_apply stk calls = h :: stk ∧ (on_stack h stk = false → current (stack_apply stk calls) = Some h).
Proof.
  intros HI Hl H. pose proof (entered_presentation _ _ _ _ _ _ HI H) as P. rewrite Hl in P.
  destruct P as [-> _]. split; [done|]. intros Hn. unfold stack_apply. cbn [fold_left stack_step current].
  by rewrite Hn.
Qed.

(** a contextual guest event reaches the host as one contextual event and nothing else: the host
    attaches it to its current span *)
Theorem contextual_event_is_contextual st w m vs o st' w' calls :
  try_receive st w (ENewEvent m None vs) = (o, st', w', calls) → o = Accepted →
  ∃ md, r_meta st !! m = Some md ∧ calls = [HEvent md PCtx (host_vals md vs)] ∧ st' = st ∧ w' = w ∧
        ∀ stk, stack_apply stk calls = stk.
Proof.
  intros H ->. cbn [try_receive] in H.
  destruct (too_many vs); [unfold reject in H; simplify_eq|].
  destruct (r_meta st !! m) as [md|]; [|unfold reject in H; simplify_eq].
  simplify_eq. exists md. split_and!; try done.
Qed.
