(** Composition sender o receiver against the native run (C01, C13).  Definitions only.

    A guest program [p] (Guest/Program.v) is run twice through the [tracing] front end
    (Guest/Front.v):
    - natively, under a recording host that issues the span ids 1, 2, 3, ...: [native_calls];
    - under the event sender (Tunnel/Sender.v), the events being replayed in order through one
      event receiver (Tunnel/Receiver.v) whose host issues the ids 1, 2, 3, ...: [tunnel_calls].
    [normalise] rewrites the native call sequence into the vocabulary of the receiver's host calls
    and folds the handle traffic ([clone_span] / all but the last [try_close] of a span) which the
    receiver counts itself and never forwards; [canon] identifies the two spellings of "no parent"
    which a host cannot tell apart when its span stack is empty; [strip_reg] drops call-site
    registrations (call-site object identity is exempted by the property). *)
From TT Require Export Tunnel.Sender Tunnel.Receiver Tunnel.ReceiverMisc.
From stdpp Require Import gmap.

(** * The native run *)
Definition host_alloc (n : N) : option N := Some (n + 1)%N.

Definition native_calls (enabled : nat -> bool) (p : prog) : list scall :=
  fst (front_run host_alloc enabled p).

(** * The host's view of a native trace in the receiver's vocabulary *)
Definition pkind_of (p : sparent) : pkind :=
  match p with SPCtx => PCtx | SPRoot => PRoot | SPExplicit i => PExplicit i end.

(** [cnt] = live handles per span id.  A clone adds a handle and makes no call; a close removes one
    and is kept only when it removes the last one.  Calls on ids that were never created (cannot
    happen in a trace of the front end) are passed through. *)
Definition norm_step (sites : list cs_data) (cnt : gmap N N) (c : scall) : list hcall * gmap N N :=
  match c with
  | SRegister cs => ([HRegister (site_data sites cs)], cnt)
  | SNewSpan id cs p vals => ([HNewSpan id (site_data sites cs) (pkind_of p) vals], <[id := 1%N]> cnt)
  | SRecord id vals => ([HRecord id vals], cnt)
  | SEnter id => ([HEnter id], cnt)
  | SExit id => ([HExit id], cnt)
  | SClone id =>
      ([], match cnt !! id with Some c => <[id := (c + 1)%N]> cnt | None => cnt end)
  | STryClose id =>
      match cnt !! id with
      | Some c => if (c <=? 1)%N then ([HTryClose id], delete id cnt) else ([], <[id := (c - 1)%N]> cnt)
      | None => ([HTryClose id], cnt)
      end
  | SFollows id f => ([HFollows id f], cnt)
  | SEvent cs p vals => ([HEvent (site_data sites cs) (pkind_of p) vals], cnt)
  end.

Fixpoint norm_go (sites : list cs_data) (cnt : gmap N N) (calls : list scall) : list hcall :=
  match calls with
  | [] => []
  | c :: r => let '(out, cnt') := norm_step sites cnt c in out ++ norm_go sites cnt' r
  end.

Definition normalise (sites : list cs_data) (calls : list scall) : list hcall := norm_go sites ∅ calls.

(** * Contextual = root while the host thread is in no span

    The stack is tracked through the [HEnter] / [HExit] calls of the trace itself (most recent
    first); an exit removes the most recent occurrence, as the Registry's [SpanStack::pop]. *)
Fixpoint remove_recent (s : list N) (h : N) : list N :=
  match s with
  | [] => []
  | j :: r => if (j =? h)%N then r else j :: remove_recent r h
  end.

Definition canon_pk (stack : list N) (p : pkind) : pkind :=
  match p, stack with PRoot, [] => PCtx | _, _ => p end.

Definition canon_step (stack : list N) (c : hcall) : hcall * list N :=
  match c with
  | HNewSpan h md p vals => (HNewSpan h md (canon_pk stack p) vals, stack)
  | HEvent md p vals => (HEvent md (canon_pk stack p) vals, stack)
  | HEnter h => (c, h :: stack)
  | HExit h => (c, remove_recent stack h)
  | _ => (c, stack)
  end.

Fixpoint canon_go (stack : list N) (calls : list hcall) : list hcall :=
  match calls with
  | [] => []
  | c :: r => let '(c', stack') := canon_step stack c in c' :: canon_go stack' r
  end.

Definition canon (calls : list hcall) : list hcall := canon_go [] calls.

(** what the wire format does to every parent: "explicit root" becomes "contextual" (F8) *)
Definition unroot_pk (p : pkind) : pkind := match p with PRoot => PCtx | _ => p end.
Definition unroot (c : hcall) : hcall :=
  match c with
  | HNewSpan h md p vals => HNewSpan h md (unroot_pk p) vals
  | HEvent md p vals => HEvent md (unroot_pk p) vals
  | _ => c
  end.

Definition is_hregister (c : hcall) : bool := match c with HRegister _ => true | _ => false end.
Definition strip_reg (calls : list hcall) : list hcall :=
  List.filter (fun c => negb (is_hregister c)) calls.

(** * The tunnelled run: fresh sender, fresh receiver, fresh host, empty arena *)
Definition tunnel_calls (mid : nat -> N) (p : prog) : list hcall :=
  let '(_, _, calls) := ReceiverMisc.crun rs_default (mk_w 0 []) (sender_run mid p) in calls.

(** The same run with the host's filter named: [TracingEventReceiver] never calls
    [Subscriber::enabled] / [register_callsite]'s interest (F7), so [try_receive] has no parameter
    for the host's answers and the calls are those of [tunnel_calls] whatever [enabled] is. *)
Definition tunnel_calls_under (enabled : nat -> bool) (mid : nat -> N) (p : prog) : list hcall :=
  tunnel_calls mid p.

(** the receiver's answers ([try_receive] results), one per event *)
Fixpoint orun (st : rstate) (w : world) (evs : list event) : list outcome :=
  match evs with
  | [] => []
  | ev :: r => let '(o, st', w', _) := try_receive st w ev in o :: orun st' w' r
  end.
Definition tunnel_outcomes (mid : nat -> N) (p : prog) : list outcome :=
  orun rs_default (mk_w 0 []) (sender_run mid p).

(** * Known classes *)

(** F8 (explicit-root): some [ONewSpan _ PKRoot _] or [OEvent _ PKRoot _] is executed while the
    issuing thread's stack of entered spans is non-empty.  Computed with the symbolic run of
    [Guest/Program.v]; nothing after an op the safe API cannot produce is examined. *)
Definition is_root_op (o : op) : bool :=
  match o with ONewSpan _ PKRoot _ | OEvent _ PKRoot _ => true | _ => false end.
Definition stack_empty (st : sym_state) (tid : nat) : bool :=
  match stack_of (ss_stacks st) tid with [] => true | _ => false end.

Fixpoint ker_steps (sites : list cs_data) (st : sym_state) (ops : list (nat * op)) : bool :=
  match ops with
  | [] => false
  | o :: r =>
      (is_root_op (snd o) && negb (stack_empty st (fst o)))
      || match wf_step false sites st o with
         | Some st' => ker_steps sites st' r
         | None => false
         end
  end.
Definition known_explicit_root (p : prog) : bool := ker_steps (p_sites p) sym_init (p_ops p).

(** F7 (host-filter-ignored): some span or event of the program has a call site the host disables *)
Definition op_site (o : op) : option nat :=
  match o with ONewSpan cs _ _ | OEvent cs _ _ => Some cs | _ => None end.
Definition known_host_filter (enabled : nat -> bool) (p : prog) : bool :=
  existsb (fun o => match op_site (snd o) with Some cs => negb (enabled cs) | None => false end) (p_ops p).

(** * Host filters: pure functions of the metadata (a small AST, mirrored by the harness) *)
Definition level_rank (l : level) : N :=
  match l with LError => 1 | LWarn => 2 | LInfo => 3 | LDebug => 4 | LTrace => 5 end%N.

Fixpoint str_prefix (pre s : string) : bool :=
  match pre, s with
  | EmptyString, _ => true
  | String a pre', String b s' => Ascii.eqb a b && str_prefix pre' s'
  | String _ _, EmptyString => false
  end.

Inductive hfilter :=
| FAll                                   (* no filter *)
| FMaxLevel (l : level)                  (* LevelFilter: enabled iff the level is at most as verbose as [l] *)
| FTargetPrefix (s : string)             (* target starts with [s] *)
| FNameIs (s : string)
| FIsSpan
| FHasField (s : string)
| FNot (f : hfilter)
| FAnd (f g : hfilter)
| FOr (f g : hfilter).

Fixpoint eval_filter (f : hfilter) (d : cs_data) : bool :=
  match f with
  | FAll => true
  | FMaxLevel l => (level_rank (cs_level d) <=? level_rank l)%N
  | FTargetPrefix s => str_prefix s (cs_target d)
  | FNameIs s => String.eqb s (cs_name d)
  | FIsSpan => cskind_eqb (cs_kind d) KSpan
  | FHasField s => existsb (String.eqb s) (cs_fields d)
  | FNot g => negb (eval_filter g d)
  | FAnd g h => eval_filter g d && eval_filter h d
  | FOr g h => eval_filter g d || eval_filter h d
  end.

(** the answer of the macros' interest / [enabled] test for call site [cs] of the program's pool
    under a host configured with the metadata predicate [pred] *)
Definition site_enabled (pred : cs_data -> bool) (sites : list cs_data) : nat -> bool :=
  fun cs => pred (site_data sites cs).

(** * What a filtering host sees natively, as a function of the unfiltered native trace

    [m] maps the id a span has in the unfiltered run to the id it has in the filtered run (absent =
    the span is disabled); [n] = number of enabled spans so far.  A disabled span makes no call; a
    child of a disabled explicit parent becomes an explicit root ([Span::child_of(None, ..)]). *)
Definition restrict_parent (m : gmap N N) (p : sparent) : sparent :=
  match p with
  | SPExplicit q => match m !! q with Some q' => SPExplicit q' | None => SPRoot end
  | _ => p
  end.

Definition restrict_step (enabled : nat -> bool) (m : gmap N N) (n : N) (c : scall)
  : list scall * gmap N N * N :=
  match c with
  | SRegister _ => ([c], m, n)
  | SNewSpan id cs p vals =>
      if enabled cs
      then ([SNewSpan (n + 1)%N cs (restrict_parent m p) vals], <[id := (n + 1)%N]> m, (n + 1)%N)
      else ([], m, n)
  | SRecord id vals => (match m !! id with Some i => [SRecord i vals] | None => [] end, m, n)
  | SEnter id => (match m !! id with Some i => [SEnter i] | None => [] end, m, n)
  | SExit id => (match m !! id with Some i => [SExit i] | None => [] end, m, n)
  | SClone id => (match m !! id with Some i => [SClone i] | None => [] end, m, n)
  | STryClose id => (match m !! id with Some i => [STryClose i] | None => [] end, m, n)
  | SFollows id f =>
      (match m !! id, m !! f with Some a, Some b => [SFollows a b] | _, _ => [] end, m, n)
  | SEvent cs p vals => (if enabled cs then [SEvent cs (restrict_parent m p) vals] else [], m, n)
  end.

Fixpoint restrict_go (enabled : nat -> bool) (m : gmap N N) (n : N) (calls : list scall) : list scall :=
  match calls with
  | [] => []
  | c :: r => let '(out, m', n') := restrict_step enabled m n c in out ++ restrict_go enabled m' n' r
  end.
Definition restrict_calls (enabled : nat -> bool) (calls : list scall) : list scall :=
  restrict_go enabled ∅ 0%N calls.

(** The same restriction on host calls: what remains of a host trace when the spans and events whose
    metadata the predicate rejects are taken out (with every call about such a span), the remaining
    spans being renumbered in order of creation. *)
Definition restrict_pk (m : gmap N N) (p : pkind) : pkind :=
  match p with
  | PExplicit q => match m !! q with Some q' => PExplicit q' | None => PRoot end
  | _ => p
  end.

Definition restrict_hstep (pred : cs_data -> bool) (m : gmap N N) (n : N) (c : hcall)
  : list hcall * gmap N N * N :=
  match c with
  | HRegister _ => ([c], m, n)
  | HNewSpan h md p vals =>
      if pred md
      then ([HNewSpan (n + 1)%N md (restrict_pk m p) vals], <[h := (n + 1)%N]> m, (n + 1)%N)
      else ([], m, n)
  | HRecord h vals => (match m !! h with Some i => [HRecord i vals] | None => [] end, m, n)
  | HFollows a b =>
      (match m !! a, m !! b with Some a', Some b' => [HFollows a' b'] | _, _ => [] end, m, n)
  | HEvent md p vals => (if pred md then [HEvent md (restrict_pk m p) vals] else [], m, n)
  | HEnter h => (match m !! h with Some i => [HEnter i] | None => [] end, m, n)
  | HExit h => (match m !! h with Some i => [HExit i] | None => [] end, m, n)
  | HTryClose h => (match m !! h with Some i => [HTryClose i] | None => [] end, m, n)
  end.

Fixpoint restrict_hgo (pred : cs_data -> bool) (m : gmap N N) (n : N) (calls : list hcall) : list hcall :=
  match calls with
  | [] => []
  | c :: r => let '(out, m', n') := restrict_hstep pred m n c in out ++ restrict_hgo pred m' n' r
  end.
Definition restrict_hcalls (pred : cs_data -> bool) (calls : list hcall) : list hcall :=
  restrict_hgo pred ∅ 0%N calls.

(** the spans and events a call sequence delivers, by call site *)
Definition delivered_sites (calls : list hcall) : list cs_data :=
  flat_map (fun c => match c with HNewSpan _ md _ _ | HEvent md _ _ => [md] | _ => [] end) calls.

(** * Boolean equalities for the judges *)
Definition pk_eqb (a b : pkind) : bool :=
  match a, b with
  | PCtx, PCtx | PRoot, PRoot => true
  | PExplicit x, PExplicit y => N.eqb x y
  | _, _ => false
  end.
Definition hc_eqb (a b : hcall) : bool :=
  match a, b with
  | HRegister m, HRegister m' => cs_data_eqb m m'
  | HNewSpan h m p v, HNewSpan h' m' p' v' =>
      N.eqb h h' && cs_data_eqb m m' && pk_eqb p p' && tvalues_eqb v v'
  | HRecord h v, HRecord h' v' => N.eqb h h' && tvalues_eqb v v'
  | HFollows a b, HFollows a' b' => N.eqb a a' && N.eqb b b'
  | HEvent m p v, HEvent m' p' v' => cs_data_eqb m m' && pk_eqb p p' && tvalues_eqb v v'
  | HEnter h, HEnter h' | HExit h, HExit h' | HTryClose h, HTryClose h' => N.eqb h h'
  | _, _ => false
  end.
Definition is_accepted_o (o : outcome) : bool := match o with Accepted => true | _ => false end.

(** * Witness programs of the known classes *)
Local Open Scope string_scope.
Definition wit_sites : list cs_data :=
  [ mk_cs KSpan "outer" "app" LInfo None None None ["x"];
    mk_cs KSpan "detached" "app::db" LDebug None None None [];
    mk_cs KEvent "event" "app" LInfo None None None ["message"] ].

(** F8: enter a span, then create an explicit-root span and an explicit-root event *)
Definition wit_explicit_root : prog :=
  mk_prog wit_sites
    [ (0, ONewSpan 0 PKCtx [(0, Some (PBool true))]);
      (0, OEnter 0);
      (0, ONewSpan 1 PKRoot []);
      (0, OEvent 2 PKRoot [(0, Some (PStr "hello"))]);
      (0, OExit 0) ]%nat.

(** its complement: the same explicit roots while no span is entered *)
Definition wit_root_outside : prog :=
  mk_prog wit_sites
    [ (0, ONewSpan 0 PKCtx [(0, Some (PBool true))]);
      (0, ONewSpan 1 PKRoot []);
      (0, OEvent 2 PKRoot [(0, Some (PStr "hello"))]);
      (0, OEnter 0);
      (0, OExit 0) ]%nat.

(** F7: a DEBUG span (with an event inside) into a host that enables INFO and above only *)
Definition wit_filter : prog :=
  mk_prog wit_sites
    [ (0, ONewSpan 0 PKCtx []);
      (0, OEnter 0);
      (0, ONewSpan 1 PKCtx []);
      (0, OEnter 1);
      (0, OEvent 2 PKCtx [(0, Some (PStr "inside"))]);
      (0, OExit 1);
      (0, ODrop 1);
      (0, OExit 0);
      (0, ODrop 0) ]%nat.
Definition wit_info_only : nat -> bool := site_enabled (eval_filter (FMaxLevel LInfo)) wit_sites.
