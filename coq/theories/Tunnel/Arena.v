(** Model of [tunnel/src/receiver/arena.rs] (the process-global call-site arena, sequential view) and
    of the receiver functions that use it ([on_new_call_site], [new], [persist_metadata] in
    [tunnel/src/receiver/mod.rs]).  Definitions only.

    A [&'static Metadata<'static>] is modelled by the record [metadata]: the address ([m_ptr], the
    allocation index: identity) together with the immutable content it points to.  Leaked metadata is
    never mutated or freed, so a reference is faithfully represented by (address, content); a bucket
    [Vec<&'static Metadata>] is a list of such records and the scan needs no partial dereference.
    [heap] is the allocation log (everything ever leaked, in allocation order); [deref] reads it.

    Everything that depends on the bucketing hash lives in [Section hash]: [hash] is an ARBITRARY
    function (all collisions allowed).  A panic is [None] ("slice index out of range" in the write
    phase is the only panic site of the code that the model can reach in principle). *)
From stdpp Require Import gmap.
From TT Require Export Tunnel.Types.

(** what tracing-core's [Metadata] holds, plus its address *)
Record metadata := mk_md {
  m_ptr : N;
  m_kind : cskind;
  m_name : string;
  m_target : string;
  m_level : level;
  m_module : option string;
  m_file : option string;
  m_line : option N;
  m_fields : list string }.

(** [impl From<&Metadata<'static>> for CallSiteData] (types.rs) *)
Definition to_data (m : metadata) : cs_data :=
  mk_cs (m_kind m) (m_name m) (m_target m) (m_level m) (m_module m) (m_file m) (m_line m) (m_fields m).

Definition is_span (k : cskind) : bool := match k with KSpan => true | KEvent => false end.

(** [Arena::eq_metadata], comparison by comparison in the order of the code:
    kind, level, line, name, target, module_path, file, fields *)
Definition eq_metadata (d : cs_data) (m : metadata) : bool :=
  Bool.eqb (is_span (cs_kind d)) (is_span (m_kind m))
  && level_eqb (cs_level d) (m_level m)
  && option_eqb N.eqb (cs_line d) (m_line m)
  && String.eqb (cs_name d) (m_name m)
  && String.eqb (cs_target d) (m_target m)
  && option_eqb String.eqb (cs_module d) (m_module m)
  && option_eqb String.eqb (cs_file d) (m_file m)
  && list_eqb String.eqb (cs_fields d) (m_fields m).

Record arena := mk_arena {
  heap : list metadata;                 (* every leaked Metadata, in allocation order *)
  buckets : gmap N (list metadata);     (* MetadataMap = HashMap<u64, Vec<&'static Metadata>> *)
  strings : list string }.              (* HashSet<&'static str>, in insertion order; never iterated *)

Definition arena_empty : arena := mk_arena [] ∅ [].

Definition deref (a : arena) (p : N) : option metadata := heap a !! N.to_nat p.

(** ** string interning *)

(** [HashSet::get(s)]: the interned string with the content of [s] *)
Definition str_get (ss : list string) (s : string) : option string := List.find (String.eqb s) ss.

(** [Arena::alloc_string]: read-locked lookup; write lock; re-check; leak and insert.
    Returns the new set and the interned string. *)
Definition alloc_string (ss : list string) (s : string) : list string * string :=
  match str_get ss s with
  | Some existing => (ss, existing)
  | None =>
      match str_get ss s with               (* under the write lock *)
      | Some existing => (ss, existing)
      | None => (ss ++ [s], s)              (* Self::leak(s); lock.insert(leaked) *)
      end
  end.

(** [Arena::leak_fields]: fields are interned left to right *)
Fixpoint leak_fields (ss : list string) (fs : list string) : list string * list string :=
  match fs with
  | [] => (ss, [])
  | f :: r =>
      let '(ss1, f') := alloc_string ss f in
      let '(ss2, r') := leak_fields ss1 r in
      (ss2, f' :: r')
  end.

(** [opt.map(|s| self.alloc_string(s))] *)
Definition alloc_opt_string (ss : list string) (o : option string) : list string * option string :=
  match o with
  | None => (ss, None)
  | Some s => let '(ss', s') := alloc_string ss s in (ss', Some s')
  end.

(** [Arena::leak_metadata]: intern fields, name, target, file, module path (the evaluation order of
    the code: [leak_fields] is called before [Metadata::new], whose arguments are evaluated left to
    right), then leak the [Metadata].  The [OnceCell::set(..).unwrap()] on the fresh dynamic call site
    cannot fail. *)
Definition leak_metadata (a : arena) (d : cs_data) : arena * metadata :=
  let '(s1, fields) := leak_fields (strings a) (cs_fields d) in
  let '(s2, name) := alloc_string s1 (cs_name d) in
  let '(s3, target) := alloc_string s2 (cs_target d) in
  let '(s4, file) := alloc_opt_string s3 (cs_file d) in
  let '(s5, module) := alloc_opt_string s4 (cs_module d) in
  let m := mk_md (N.of_nat (List.length (heap a))) (cs_kind d) name target (cs_level d)
                 module file (cs_line d) fields in
  (mk_arena (heap a ++ [m]) (buckets a) s5, m).

(** the bucket scan: first match wins *)
Definition scan (d : cs_data) (bucket : list metadata) : option metadata :=
  List.find (eq_metadata d) bucket.

(** result of the read-locked phase *)
Inductive p1_result :=
| P1Found (m : metadata)                (* return (metadata, false) *)
| P1Scanned (scanned_bucket_len : nat).

(** ** receiver-level vocabulary *)

(** [TracingEventReceiver::metadata : HashMap<MetadataId, &'static Metadata>] *)
Notation rmap := (gmap N metadata) (only parsing).

(** [persist_metadata]: [CallSiteData::from(metadata)] for every id *)
Definition persist_meta (r : rmap) : gmap N cs_data := to_data <$> r.

(** several receivers over the one arena *)
Inductive astep :=
| AAnnounce (r id : N) (d : cs_data)                 (* NewCallSite { id, data } received by receiver r *)
| ARestoreFrom (dst src : N)                         (* r_dst := new(persist_metadata(r_src)) *)
| ARestoreData (dst : N) (entries : list (N * cs_data))   (* r_dst := new(entries) *)
| AUse (r id : N)                                    (* a span / event of call site id reaches the host *)
| APersist (r : N).                                  (* persist_metadata() *)

Record aworld := mk_aw { aw_arena : arena; aw_recvs : gmap N rmap }.
Definition aw_init : aworld := mk_aw arena_empty ∅.
(** a receiver that was never restored is [TracingEventReceiver::default()] *)
Definition recv_of (w : aworld) (r : N) : rmap := default ∅ (aw_recvs w !! r).

(** what a step makes observable *)
Record aobs := mk_aobs {
  ao_recv : rmap;                 (* the receiver's id -> metadata map after the step *)
  ao_regs : list metadata;        (* register_callsite calls, in order *)
  ao_seen : list metadata;        (* metadata handed to the host in new_span / event *)
  ao_heap : nat;                  (* number of leaked Metadata so far *)
  ao_strings : nat }.             (* number of leaked strings so far *)

Definition mk_obs (w : aworld) (r : N) (regs seen : list metadata) : aobs :=
  mk_aobs (recv_of w r) regs seen (List.length (heap (aw_arena w))) (List.length (strings (aw_arena w))).

Section hash.
  Variable hash : cs_data -> N.

  (** [alloc_metadata], read-locked phase *)
  Definition phase1 (a : arena) (d : cs_data) : p1_result :=
    match buckets a !! hash d with
    | Some bucket =>
        match scan d bucket with
        | Some m => P1Found m
        | None => P1Scanned (List.length bucket)
        end
    | None => P1Scanned 0
    end.

  (** [alloc_metadata], write-locked phase: [entry(hash).or_default()], scan of
      [bucket[scanned_bucket_len..]] (panics if the index exceeds the length), leak, push *)
  Definition phase2 (a : arena) (d : cs_data) (scanned : nat) : option (arena * metadata * bool) :=
    let h := hash d in
    let bucket := default [] (buckets a !! h) in
    let a1 := mk_arena (heap a) (<[h := bucket]> (buckets a)) (strings a) in
    if (scanned <=? List.length bucket)%nat then
      match scan d (drop scanned bucket) with
      | Some m => Some (a1, m, false)
      | None =>
          let '(a2, m) := leak_metadata a1 d in
          Some (mk_arena (heap a2) (<[h := bucket ++ [m]]> (buckets a2)) (strings a2), m, true)
      end
    else None.

  (** [Arena::alloc_metadata]: the metadata and the flag "allocated in this call" *)
  Definition alloc_metadata (a : arena) (d : cs_data) : option (arena * metadata * bool) :=
    match phase1 a d with
    | P1Found m => Some (a, m, false)
    | P1Scanned n => phase2 a d n
    end.

  (** any sequence of allocations (by whichever receivers: the arena is global) *)
  Fixpoint alloc_seq (a : arena) (ds : list cs_data) : option (arena * list (metadata * bool)) :=
    match ds with
    | [] => Some (a, [])
    | d :: r =>
        match alloc_metadata a d with
        | Some (a1, m, b) =>
            match alloc_seq a1 r with
            | Some (a2, res) => Some (a2, (m, b) :: res)
            | None => None
            end
        | None => None
        end
    end.

  (** ** receiver level *)

  (** [on_new_call_site]: the flag says whether [register_callsite(metadata)] is called *)
  Definition announce (r : rmap) (a : arena) (id : N) (d : cs_data)
    : option (rmap * arena * metadata * bool) :=
    match alloc_metadata a d with
    | Some (a', m, is_new) => Some (<[id := m]> r, a', m, is_new)
    | None => None
    end.

  (** [TracingEventReceiver::new]: every entry goes through [on_new_call_site]; [regs] collects the
      metadata registered with the host.  The code iterates a [HashMap]; the model takes the entries
      in the order of the list (the theorems hold for every order). *)
  Fixpoint restore_entries (r : rmap) (a : arena) (regs : list metadata) (entries : list (N * cs_data))
    : option (rmap * arena * list metadata) :=
    match entries with
    | [] => Some (r, a, regs)
    | (id, d) :: rest =>
        match announce r a id d with
        | Some (r', a', m, is_new) =>
            restore_entries r' a' (if is_new then regs ++ [m] else regs) rest
        | None => None
        end
    end.
  Definition restore (a : arena) (entries : list (N * cs_data)) := restore_entries ∅ a [] entries.

  Definition world_step (w : aworld) (s : astep) : option (aworld * aobs) :=
    match s with
    | AAnnounce r id d =>
        match announce (recv_of w r) (aw_arena w) id d with
        | Some (rm, a, m, is_new) =>
            let w' := mk_aw a (<[r := rm]> (aw_recvs w)) in
            Some (w', mk_obs w' r (if is_new then [m] else []) [])
        | None => None
        end
    | ARestoreFrom dst src =>
        match restore (aw_arena w) (map_to_list (persist_meta (recv_of w src))) with
        | Some (rm, a, regs) =>
            let w' := mk_aw a (<[dst := rm]> (aw_recvs w)) in Some (w', mk_obs w' dst regs [])
        | None => None
        end
    | ARestoreData dst entries =>
        match restore (aw_arena w) entries with
        | Some (rm, a, regs) =>
            let w' := mk_aw a (<[dst := rm]> (aw_recvs w)) in Some (w', mk_obs w' dst regs [])
        | None => None
        end
    | AUse r id =>
        (* [self.metadata(id)?]: an unknown id is an error, nothing reaches the host *)
        Some (w, mk_obs w r [] (match recv_of w r !! id with Some m => [m] | None => [] end))
    | APersist r => Some (w, mk_obs w r [] [])
    end.

  Fixpoint world_run (w : aworld) (steps : list astep) : option (aworld * list aobs) :=
    match steps with
    | [] => Some (w, [])
    | s :: rest =>
        match world_step w s with
        | Some (w1, o) =>
            match world_run w1 rest with
            | Some (w2, os) => Some (w2, o :: os)
            | None => None
            end
        | None => None
        end
    end.
End hash.

(** ** Reference specification (independent of the arena: no pointers, no hash) *)

(** descriptions seen so far, in order of first occurrence: the abstraction [w_arena] of
    [Tunnel/Receiver.v] *)
Definition seen_new (seen : list cs_data) (d : cs_data) : bool := negb (existsb (cs_data_eqb d) seen).
Definition seen_add (seen : list cs_data) (d : cs_data) : list cs_data :=
  if seen_new seen d then seen ++ [d] else seen.
Definition distinct_descs (ds : list cs_data) : list cs_data := fold_left seen_add ds [].

(** is_new flags of a sequence of allocations *)
Fixpoint new_flags (seen : list cs_data) (ds : list cs_data) : list bool :=
  match ds with
  | [] => []
  | d :: r => seen_new seen d :: new_flags (seen_add seen d) r
  end.

(** the strings of a description, in interning order *)
Definition opt_list {A} (o : option A) : list A := match o with Some x => [x] | None => [] end.
Definition strs_of (d : cs_data) : list string :=
  cs_fields d ++ [cs_name d; cs_target d] ++ opt_list (cs_file d) ++ opt_list (cs_module d).
Definition str_add (ss : list string) (s : string) : list string :=
  if existsb (String.eqb s) ss then ss else ss ++ [s].
Definition distinct_strs (ss : list string) (l : list string) : list string := fold_left str_add l ss.
Definition strs_of_all (ds : list cs_data) : list string := List.concat (map strs_of ds).

(** latest description per receiver and id *)
Notation spec_state := (gmap N (gmap N cs_data)) (only parsing).
Definition spec_recv (sp : spec_state) (r : N) : gmap N cs_data := default ∅ (sp !! r).
Definition insert_all (es : list (N * cs_data)) (m : gmap N cs_data) : gmap N cs_data :=
  fold_left (fun acc kv => <[fst kv := snd kv]> acc) es m.
Definition spec_step (sp : spec_state) (s : astep) : spec_state :=
  match s with
  | AAnnounce r id d => <[r := <[id := d]> (spec_recv sp r)]> sp
  | ARestoreFrom dst src => <[dst := spec_recv sp src]> sp
  | ARestoreData dst es => <[dst := insert_all es ∅]> sp
  | AUse _ _ | APersist _ => sp
  end.
Definition spec_run (steps : list astep) : spec_state := fold_left spec_step steps ∅.

(** the descriptions a history carries (in events and in restored data), in order *)
Definition step_descs (s : astep) : list cs_data :=
  match s with
  | AAnnounce _ _ d => [d]
  | ARestoreData _ es => map snd es
  | _ => []
  end.
Definition history_descs (steps : list astep) : list cs_data := List.concat (map step_descs steps).

(** number of [true] flags (allocations / host registrations) *)
Definition count_true (flags : list bool) : nat := List.length (List.filter (fun b : bool => b) flags).
(** the receiver a step acts on *)
Definition step_recv (s : astep) : N :=
  match s with
  | AAnnounce r _ _ | AUse r _ | APersist r => r
  | ARestoreFrom dst _ | ARestoreData dst _ => dst
  end.
