(** The receiver properties C04 and C08 hold for every order in which the code may iterate its hash
    containers (finalisation batches, registrations of a restored receiver): see
    [ReceiverOrder.v] for the definitions.

    Structure: [reorder] (adjacent swaps of two exits, two closes or two registrations) is a
    congruence; a permutation of a block of exits / closes / registrations is a [reorder]; the host's
    span stack, the strict tracker, the enter / exit balance, the issued ids and the multiset of
    closed ids are invariant under [reorder]; hence the history theorems of
    [ReceiverFinalizeProofs.v] and [ReceiverTrack.v] transfer to every observation list that is
    step-wise [obs_reorder]-related to the model's. *)
From Coq Require Import Sorting.Permutation.
From TT Require Import Tunnel.TypesProofs Tunnel.ReceiverSpec Tunnel.ReceiverInv Tunnel.ReceiverHistInv
  Tunnel.ReceiverFinalize Tunnel.ReceiverFinalizeProofs Tunnel.ReceiverTrack Tunnel.ReceiverOrder.
From stdpp Require Import gmap.

(** * [reorder] is a congruence *)
Lemma swap1_ctx p q l l' : swap1 l l' → swap1 (p ++ l ++ q) (p ++ l' ++ q).
Proof.
  intros H. destruct H as [a x y b|a x y b|a x y b];
    rewrite <- !(app_assoc a); cbn [app]; rewrite !(app_assoc p a); constructor.
Qed.

Lemma reorder_ctx p q l l' : reorder l l' → reorder (p ++ l ++ q) (p ++ l' ++ q).
Proof.
  intros H. induction H as [l|l l1 l2 H1 _ IH]; [reflexivity|].
  eapply rtc_l; [apply swap1_ctx; exact H1 | exact IH].
Qed.

Lemma reorder_app_l a b b' : reorder b b' → reorder (a ++ b) (a ++ b').
Proof. intros H. pose proof (reorder_ctx a [] _ _ H) as H'. by rewrite !app_nil_r in H'. Qed.
Lemma reorder_app_r a a' b : reorder a a' → reorder (a ++ b) (a' ++ b).
Proof. intros H. exact (reorder_ctx [] b _ _ H). Qed.
Lemma reorder_app a a' b b' : reorder a a' → reorder b b' → reorder (a ++ b) (a' ++ b').
Proof. intros Ha Hb. etrans; [by apply reorder_app_r | by apply reorder_app_l]. Qed.
Lemma reorder_cons x l l' : reorder l l' → reorder (x :: l) (x :: l').
Proof. intros H. exact (reorder_app_l [x] _ _ H). Qed.

(** * a permuted block of calls of one kind is a [reorder] *)
Lemma forallb_perm {A} (P : A → bool) l l' : l ≡ₚ l' → forallb P l = true → forallb P l' = true.
Proof.
  intros HP H. apply forallb_forall. intros x Hx. apply (proj1 (forallb_forall _ _) H).
  eapply Permutation_in; [symmetry; exact HP | exact Hx].
Qed.

Lemma perm_reorder (P : hcall → bool) :
  (∀ x y l, P x = true → P y = true → swap1 (x :: y :: l) (y :: x :: l)) →
  ∀ E E', E ≡ₚ E' → forallb P E = true → reorder E E'.
Proof.
  intros Hsw E E' HP. induction HP as [|x l l' HP IH|x y l|l l' l'' HP1 IH1 HP2 IH2]; intros HF.
  - reflexivity.
  - cbn [forallb] in HF. apply andb_true_iff in HF as [_ HF]. apply reorder_cons. by apply IH.
  - cbn [forallb] in HF. apply andb_true_iff in HF as [Hy HF]. apply andb_true_iff in HF as [Hx _].
    apply rtc_once. by apply Hsw.
  - etrans; [by apply IH1|]. apply IH2. by eapply forallb_perm.
Qed.

Lemma perm_exits_reorder E E' : E ≡ₚ E' → forallb is_exit_call E = true → reorder E E'.
Proof.
  apply (perm_reorder is_exit_call). intros x y l Hx Hy.
  destruct x; try done. destruct y; try done. apply (sw_exit []).
Qed.
Lemma perm_closes_reorder C C' : C ≡ₚ C' → forallb is_close_call C = true → reorder C C'.
Proof.
  apply (perm_reorder is_close_call). intros x y l Hx Hy.
  destruct x; try done. destruct y; try done. apply (sw_close []).
Qed.
Lemma perm_regs_reorder R R' : R ≡ₚ R' → forallb is_reg_call R = true → reorder R R'.
Proof.
  apply (perm_reorder is_reg_call). intros x y l Hx Hy.
  destruct x; try done. destruct y; try done. apply (sw_reg []).
Qed.

Theorem fin_reorder_reorder F F' : fin_reorder F F' → reorder F F'.
Proof.
  intros (E & C & E' & C' & -> & -> & HE & HC & PE & PC).
  apply reorder_app; [by apply perm_exits_reorder | by apply perm_closes_reorder].
Qed.
Theorem reg_reorder_reorder R R' : reg_reorder R R' → reorder R R'.
Proof. intros [HR HP]. by apply perm_regs_reorder. Qed.

(** * what is invariant under [reorder] *)

(** ** the host's span stack ([SpanStack::pop] of two ids commutes) *)
Lemma remove_top_comm x y s : remove_top x (remove_top y s) = remove_top y (remove_top x s).
Proof.
  induction s as [|z s IH]; [done|]. cbn [remove_top].
  destruct (N.eqb_spec z y) as [Ey|Hy], (N.eqb_spec z x) as [Ex|Hx]; cbn [remove_top].
  - by subst.
  - apply N.eqb_eq in Ey. by rewrite Ey.
  - apply N.eqb_eq in Ex. by rewrite Ex.
  - apply N.eqb_neq in Hx, Hy. by rewrite Hx, Hy, IH.
Qed.

Lemma stack_apply_swap1 s l l' : swap1 l l' → stack_apply s l = stack_apply s l'.
Proof.
  intros H. destruct H as [a x y b|a x y b|a x y b]; rewrite !stack_apply_app;
    unfold stack_apply; cbn [fold_left stack_step]; [by rewrite remove_top_comm | done | done].
Qed.
Theorem stack_apply_reorder s l l' : reorder l l' → stack_apply s l = stack_apply s l'.
Proof.
  intros H. induction H as [l|l l1 l2 H1 _ IH]; [done|]. by rewrite (stack_apply_swap1 _ _ _ H1).
Qed.

(** ** the strict tracker of host ids *)
Lemma track_all_swap1 opn l l' : swap1 l l' → track_all opn l = track_all opn l'.
Proof.
  intros H. destruct H as [a x y b|a x y b|a x y b]; rewrite !track_all_app;
    destruct (track_all opn a) as [o|]; try done; cbn [track_all].
  - unfold track. cbn [ids_used forallb].
    destruct (bool_decide (x ∈ o)) eqn:Ex, (bool_decide (y ∈ o)) eqn:Ey; cbn; rewrite ?Ex, ?Ey; done.
  - destruct (decide (x = y)) as [->|Hne]; [done|].
    unfold track. cbn [ids_used forallb].
    assert (bool_decide (y ∈ o ∖ {[x]}) = bool_decide (y ∈ o)) as E1 by (apply bool_decide_ext; set_solver).
    assert (bool_decide (x ∈ o ∖ {[y]}) = bool_decide (x ∈ o)) as E2 by (apply bool_decide_ext; set_solver).
    assert (o ∖ {[x]} ∖ {[y]} = o ∖ {[y]} ∖ {[x]}) as E3 by set_solver.
    destruct (bool_decide (x ∈ o)) eqn:Ex, (bool_decide (y ∈ o)) eqn:Ey; cbn;
      rewrite ?E1, ?E2, ?Ex, ?Ey; cbn; rewrite ?E3; done.
Qed.
Theorem track_all_reorder opn l l' : reorder l l' → track_all opn l = track_all opn l'.
Proof.
  intros H. induction H as [l|l l1 l2 H1 _ IH]; [done|]. by rewrite (track_all_swap1 _ _ _ H1).
Qed.

(** ** ids issued by the host, ids closed (as a multiset), enter / exit balance *)
Lemma issued_swap1 l l' : swap1 l l' → issued l = issued l'.
Proof. intros H. destruct H; by rewrite !issued_app. Qed.
Lemma issued_reorder l l' : reorder l l' → issued l = issued l'.
Proof. intros H. induction H as [l|l l1 l2 H1 _ IH]; [done|]. by rewrite (issued_swap1 _ _ H1). Qed.

Lemma closed_swap1 l l' : swap1 l l' → closed l ≡ₚ closed l'.
Proof.
  intros H. destruct H as [a x y b|a x y b|a x y b]; rewrite !closed_app; try done.
  apply Permutation_app_head. unfold closed. cbn [flat_map closed_of app]. apply perm_swap.
Qed.
Lemma closed_reorder l l' : reorder l l' → closed l ≡ₚ closed l'.
Proof.
  intros H. induction H as [l|l l1 l2 H1 _ IH]; [done|]. etrans; [by apply closed_swap1 | done].
Qed.

Lemma bal_from_swap1 n l l' h : swap1 l l' → bal_from n l h = bal_from n l' h.
Proof.
  intros H. destruct H as [a x y b|a x y b|a x y b]; rewrite !bal_from_app, !bal_from_cons;
    cbn [bal_step]; try done.
  by destruct (x =? h)%N, (y =? h)%N.
Qed.
Lemma bal_reorder l l' h : reorder l l' → bal l h = bal l' h.
Proof.
  unfold bal. intros H. induction H as [l|l l1 l2 H1 _ IH]; [done|].
  by rewrite (bal_from_swap1 _ _ _ _ H1).
Qed.

Lemma ee_ids_swap1 l l' : swap1 l l' → ee_ids l ≡ₚ ee_ids l'.
Proof.
  intros H. destruct H as [a x y b|a x y b|a x y b]; rewrite !ee_ids_app; try done.
  apply Permutation_app_head. unfold ee_ids. cbn [flat_map app]. apply perm_swap.
Qed.
Lemma ee_ids_reorder l l' : reorder l l' → ee_ids l ≡ₚ ee_ids l'.
Proof.
  intros H. induction H as [l|l l1 l2 H1 _ IH]; [done|]. etrans; [by apply ee_ids_swap1 | done].
Qed.

(** * whole histories *)
Lemma obs_reorder_calls m m' :
  obs_reorder m m' → reorder (mobs_calls m) (mobs_calls m') ∧ reorder (obs_calls m) (obs_calls m').
Proof.
  destruct m as [o c st|e sp md rg st|c rg st], m' as [o' c' st'|e' sp' md' rg' st'|c' rg' st']; try done;
    cbn [obs_reorder mobs_calls obs_calls].
  - intros (_ & -> & _). split; reflexivity.
  - intros (He & _ & _ & Hr & _). split; [|by apply fin_reorder_reorder].
    apply reorder_app; [by apply fin_reorder_reorder | by apply reg_reorder_reorder].
  - intros (He & Hr & _). split; [|by apply fin_reorder_reorder].
    apply reorder_app; [by apply fin_reorder_reorder | by apply reg_reorder_reorder].
Qed.

Lemma all_reorder ms ms' :
  Forall2 obs_reorder ms ms' →
  reorder (flat_map mobs_calls ms) (flat_map mobs_calls ms') ∧ reorder (all_calls ms) (all_calls ms').
Proof.
  unfold all_calls. intros H. induction H as [|m m' ms ms' Hm _ [IH1 IH2]]; [split; reflexivity|].
  destruct (obs_reorder_calls _ _ Hm) as [H1 H2]. cbn [flat_map].
  split; by apply reorder_app.
Qed.

(** C04: the host thread's span context is restored whatever order the code picks for every
    finalisation batch (and for the registrations of every restored receiver). *)
Theorem host_context_restored_any_order ls stk obs' :
  Forall (λ l : life, is_recv (snd l) = false) ls →
  hist_scope hist_init (lives_steps ls) → wf_drop_lives hist_init ls = true →
  (∀ h, h ∈ stk → (h <= w_next (h_w hist_init))%N) →
  Forall2 obs_reorder (hist_run hist_init (lives_steps ls)) obs' →
  stack_apply stk (all_calls obs') = stk ∧ current (stack_apply stk (all_calls obs')) = current stk.
Proof.
  intros Hf Hsc Hwf Hold Hre. destruct (all_reorder _ _ Hre) as [_ Hr].
  rewrite <- (stack_apply_reorder stk _ _ Hr). by apply host_context_restored.
Qed.

(** ... and enters and exits balance on every host id *)
Theorem balance_any_order steps obs' h :
  Forall2 obs_reorder (hist_run hist_init steps) obs' →
  bal (all_calls obs') h = bal (all_calls (hist_run hist_init steps)) h.
Proof. intros Hre. destruct (all_reorder _ _ Hre) as [_ Hr]. symmetry. by apply bal_reorder. Qed.

(** C08: every id passed to the host is open, new ids are fresh, closes hit open ids - whatever
    order the code picks. *)
Theorem hist_ids_valid_any_order steps obs' :
  hist_scope hist_init steps → Forall2 obs_reorder (hist_run hist_init steps) obs' →
  ∃ opn, track_all ∅ (flat_map mobs_calls obs') = Some opn ∧
         TInv (h_st (hist_final hist_init steps)) (h_w (hist_final hist_init steps)) opn.
Proof.
  intros Hsc Hre. destruct (all_reorder _ _ Hre) as [Hr _].
  destruct (hist_ids_valid steps Hsc) as (opn & Ht & HT). exists opn. split; [|done].
  rewrite <- (track_all_reorder ∅ _ _ Hr). exact Ht.
Qed.

Theorem hist_close_once_any_order steps obs' :
  hist_scope hist_init steps → Forall2 obs_reorder (hist_run hist_init steps) obs' →
  NoDup (closed (flat_map mobs_calls obs')).
Proof.
  intros Hsc Hre. destruct (all_reorder _ _ Hre) as [Hr _].
  rewrite <- (closed_reorder _ _ Hr). by apply hist_close_once.
Qed.

(** * the finalisation of a state in any iteration order of its two containers *)
Lemma exit_batch_of_exits loc pe : forallb is_exit_call (flat_map (exit_batch_of loc) pe) = true.
Proof.
  induction pe as [|kv l IH]; [done|]. cbn [flat_map]. rewrite forallb_app, IH, andb_true_r.
  unfold exit_batch_of. destruct (loc !! kv.1); [|done]. by induction (N.to_nat kv.2).
Qed.
Lemma close_batch_of_closes loc pc : forallb is_close_call (flat_map (close_batch_of loc) pc) = true.
Proof.
  induction pc as [|i l IH]; [done|]. cbn [flat_map]. rewrite forallb_app, IH, andb_true_r.
  unfold close_batch_of. by destruct (loc !! i).
Qed.
Lemma exits_of_in_order ent loc : exits_of ent loc = flat_map (exit_batch_of loc) (map_to_list ent).
Proof. unfold exits_of. apply flat_map_ext. by intros [id c]. Qed.

Theorem finalize_in_order_reorder st pe pc :
  pe ≡ₚ map_to_list (r_entered st) → pc ≡ₚ elements (r_uncommitted st) →
  fin_reorder (drop_calls st) (finalize_in_order st true pe pc) ∧
  fin_reorder (snd (persist st)) (finalize_in_order st false pe pc).
Proof.
  intros Hpe Hpc. unfold drop_calls, persist, finalize_in_order. cbn [snd].
  rewrite exits_of_in_order. split.
  - exists (flat_map (exit_batch_of (r_local st)) (map_to_list (r_entered st))),
           (closes_of (r_uncommitted st) (r_local st)),
           (flat_map (exit_batch_of (r_local st)) pe), (flat_map (close_batch_of (r_local st)) pc).
    split_and!; try done.
    + apply exit_batch_of_exits.
    + apply closes_of_all_closes.
    + apply Permutation_flat_map. by symmetry.
    + unfold closes_of. apply (Permutation_flat_map (close_batch_of (r_local st))). by symmetry.
  - exists (flat_map (exit_batch_of (r_local st)) (map_to_list (r_entered st))), [],
           (flat_map (exit_batch_of (r_local st)) pe), [].
    split_and!; try done.
    + by rewrite app_nil_r.
    + apply exit_batch_of_exits.
    + apply Permutation_flat_map. by symmetry.
Qed.

(** one lifetime, any order: the stack is restored (the single-lifetime theorem of C04) *)
Theorem stack_restored_any_order steps pre evs fin :
  hist_scope hist_init steps → is_lifetime steps pre evs fin →
  let h0 := hist_final hist_init pre in
  ∀ st w os T, lrun (h_st h0) (h_w h0) evs = (st, w, os, T) →
  ∀ stk F', wf_drop (h_st h0) (h_w h0) evs = true →
  (∀ id h, r_local (h_st h0) !! id = Some h → h ∉ stk) → (∀ h, h ∈ stk → (h <= w_next (h_w h0))%N) →
  fin_reorder (fin_calls st fin) F' →
  stack_apply stk (T ++ F') = stk ∧ current (stack_apply stk (T ++ F')) = current stk.
Proof.
  intros Hsc Hl h0 st w os T E stk F' Hwf Hloc Hold HF.
  assert (reorder (T ++ fin_calls st fin) (T ++ F')) as Hr by (apply reorder_app_l; by apply fin_reorder_reorder).
  rewrite <- (stack_apply_reorder stk _ _ Hr). by eapply stack_restored.
Qed.
