(** Invariant of the receiver state, totality, exact rejection, no effect on rejection (C06, C07). *)
From stdpp Require Import gmap.
From TT Require Import Tunnel.ReceiverSpec.

Record Inv (st : rstate) : Prop := mk_Inv {
  inv_local : dom (r_local st) ⊆ dom (r_spans st);
  inv_uncommitted : r_uncommitted st ⊆ dom (r_spans st);
  inv_entered : dom (r_entered st) ⊆ dom (r_spans st);
  inv_refs : ∀ id d, r_spans st !! id = Some d → (1 <= sd_refs d)%N;
  inv_meta : ∀ id d, r_spans st !! id = Some d → is_Some (r_meta st !! sd_meta d);
  inv_entered_pos : ∀ id c, r_entered st !! id = Some c → (1 <= c)%N }.

Lemma Inv_default : Inv rs_default.
Proof. split; simpl; try set_solver; intros ? ? H; rewrite lookup_empty in H; done. Qed.

(** ** small facts *)
Lemma alive_true st id : alive st id = true ↔ is_Some (r_spans st !! id).
Proof. unfold alive. by rewrite bool_decide_eq_true. Qed.
Lemma alive_false st id : alive st id = false ↔ r_spans st !! id = None.
Proof. unfold alive. rewrite bool_decide_eq_false, eq_None_not_Some. done. Qed.
Lemma known_true st m : known st m = true ↔ is_Some (r_meta st !! m).
Proof. unfold known. by rewrite bool_decide_eq_true. Qed.
Lemma known_false st m : known st m = false ↔ r_meta st !! m = None.
Proof. unfold known. rewrite bool_decide_eq_false, eq_None_not_Some. done. Qed.

Lemma too_many_spec vs :
  (too_many vs = None ∧ fits vs = true) ∨ (too_many vs = Some (TooMany (len vs)) ∧ fits vs = false).
Proof.
  unfold too_many, fits. destruct (N.ltb_spec MAX_VALUES (len vs)).
  - right. split; [done|]. apply N.leb_gt. done.
  - left. split; [done|]. apply N.leb_le. done.
Qed.

(** [map_span_id] in terms of alive / local *)
Lemma map_span_id_spec st id :
  match map_span_id st id with
  | inl e => e = UnknownSpan id ∧ r_local st !! id = None ∧ r_spans st !! id = None
  | inr (Some h) => r_local st !! id = Some h
  | inr None => r_local st !! id = None ∧ is_Some (r_spans st !! id)
  end.
Proof.
  unfold map_span_id. destruct (r_local st !! id) eqn:E; [done|].
  destruct (decide (is_Some (r_spans st !! id))) as [H|H]; [done|].
  split_and!; [done..|]. by apply eq_None_not_Some.
Qed.

Lemma map_span_id_alive st id :
  Inv st → (∃ e, map_span_id st id = inl e) ↔ alive st id = false.
Proof.
  intros HI. pose proof (map_span_id_spec st id) as H. rewrite alive_false.
  destruct (map_span_id st id) as [e|[h|]].
  - destruct H as (_ & _ & H). split; [done | eauto].
  - split; [intros [e' ?]; done|]. intros Hn. exfalso.
    assert (id ∈ dom (r_spans st)) as Hd by (apply (inv_local _ HI); by apply elem_of_dom).
    apply elem_of_dom in Hd as [? Hd]. congruence.
  - destruct H as [_ [d Hd]]. split; [intros [e' ?]; done | congruence].
Qed.

(** ** C07: a rejected event has no effect (no invariant needed) *)
Theorem reject_no_effect st w ev e st' w' calls :
  try_receive st w ev = (Rejected e, st', w', calls) → st' = st ∧ w' = w ∧ calls = [].
Proof.
  unfold try_receive, reject, on_new_call_site. intros H.
  destruct ev; repeat (case_match; simplify_eq/=); try done.
Qed.

(** ** C06: no panic on states satisfying the invariant *)
Theorem recv_total st w ev o st' w' calls :
  Inv st → try_receive st w ev = (o, st', w', calls) → o ≠ Panicked.
Proof.
  intros HI. unfold try_receive, reject, on_new_call_site. intros H.
  destruct ev; repeat (case_match; simplify_eq/=); try done.
  - (* refs = 0 *)
    match goal with Hs : r_spans _ !! _ = Some ?d, Hz : (sd_refs ?d =? 0)%N = true |- _ =>
      apply (inv_refs _ HI) in Hs; apply N.eqb_eq in Hz; lia end.
  - (* spans[id] indexing with a local id but no span *)
    match goal with Hm : map_span_id ?s ?i = inr (Some _), Hn : r_spans ?s !! ?i = None |- _ =>
      pose proof (map_span_id_spec s i) as Hs; rewrite Hm in Hs;
      assert (i ∈ dom (r_spans s)) as Hd by (apply (inv_local _ HI); by apply elem_of_dom);
      apply elem_of_dom in Hd as [? Hd]; congruence end.
Qed.

(** ** boolean facts extracted from the code's lookups *)
Lemma fits_of_none vs : too_many vs = None → fits vs = true.
Proof. destruct (too_many_spec vs) as [[? ?]|[? ?]]; congruence. Qed.
Lemma fits_of_some vs e : too_many vs = Some e → fits vs = false ∧ e = TooMany (len vs).
Proof. destruct (too_many_spec vs) as [[? ?]|[? ?]]; intros; simplify_eq; done. Qed.
Lemma msi_inl st id e : Inv st → map_span_id st id = inl e → alive st id = false ∧ e = UnknownSpan id.
Proof.
  intros HI H. pose proof (map_span_id_spec st id) as Hs. rewrite H in Hs.
  destruct Hs as (-> & _ & Hn). split; [by apply alive_false | done].
Qed.
Lemma msi_inr st id x : Inv st → map_span_id st id = inr x → alive st id = true.
Proof.
  intros HI H. destruct (alive st id) eqn:E; [done|].
  apply (map_span_id_alive _ _ HI) in E as [e E]. congruence.
Qed.
Lemma known_of_some st m d : r_meta st !! m = Some d → known st m = true.
Proof. intros H. apply known_true. eauto. Qed.
Lemma alive_of_some st id d : r_spans st !! id = Some d → alive st id = true.
Proof. intros H. apply alive_true. eauto. Qed.

Lemma cls_new_spec st w d :
  Inv st →
  match create_local_span st w d true with
  | inl (UnknownMeta m) => m = sd_meta d ∧ known st m = false
  | inl (UnknownSpan p) => known st (sd_meta d) = true ∧ sd_parent d = Some p ∧ alive st p = false
  | inl (TooMany _) => False
  | inr _ => known st (sd_meta d) = true ∧ opt_alive st (sd_parent d) = true
  end.
Proof.
  intros HI. unfold create_local_span.
  destruct (r_meta st !! sd_meta d) as [md|] eqn:Em.
  - apply known_of_some in Em. destruct (sd_parent d) as [p|]; simpl.
    + destruct (map_span_id st p) as [e|lp] eqn:Ep.
      * apply (msi_inl _ _ _ HI) in Ep as [? ->]. done.
      * apply (msi_inr _ _ _ HI) in Ep. done.
    + done.
  - apply known_false in Em. done.
Qed.

Lemma cls_lazy_ok st w id d :
  Inv st → r_spans st !! id = Some d → ∃ r, create_local_span st w d false = inr r.
Proof.
  intros HI Hs. unfold create_local_span.
  destruct (inv_meta _ HI _ _ Hs) as [md ->].
  destruct (sd_parent d) as [p|]; simpl; [|eauto].
  destruct (bool_decide (is_Some (r_spans st !! p))) eqn:E; simpl; [|eauto].
  apply bool_decide_eq_true in E.
  destruct (map_span_id st p) as [e|lp] eqn:Ep; [|eauto].
  apply (msi_inl _ _ _ HI) in Ep as [Ha _]. apply alive_false in Ha. destruct E as [? E]. congruence.
Qed.

Ltac boolfacts HI :=
  repeat match goal with
  | H : too_many _ = None |- _ => apply fits_of_none in H
  | H : too_many _ = Some _ |- _ => apply fits_of_some in H as [? ?]
  | H : map_span_id _ _ = inl _ |- _ => apply (msi_inl _ _ _ HI) in H as [? ?]
  | H : map_span_id _ _ = inr _ |- _ => apply (msi_inr _ _ _ HI) in H
  | H : r_meta _ !! _ = Some _ |- _ => apply known_of_some in H
  | H : r_meta _ !! _ = None |- _ => apply known_false in H
  | H : r_spans _ !! _ = Some _ |- _ => apply alive_of_some in H
  | H : r_spans _ !! _ = None |- _ => apply alive_false in H
  end.

(** ** C06: an event is rejected exactly when it is invalid, with an applicable reason *)
Theorem recv_rejects_iff st w ev o st' w' calls :
  Inv st → no_reannounce st ev = true →
  try_receive st w ev = (o, st', w', calls) →
  ((∃ e, o = Rejected e) ↔ valid st ev = false).
Proof.
  intros HI Hre H. destruct ev as [id d|id p m vs|a b|id|id|id|id|id vs|m p vs]; simpl in *.
  - (* NewCallSite *) unfold on_new_call_site in H. simplify_eq. split; [intros [e ?]; done | done].
  - (* NewSpan *)
    apply negb_true_iff, alive_false in Hre.
    assert (r_local st !! id = None) as Hl.
    { destruct (r_local st !! id) eqn:E; [|done]. exfalso.
      assert (id ∈ dom (r_spans st)) as Hd by (apply (inv_local _ HI); by apply elem_of_dom).
      apply elem_of_dom in Hd as [? Hd]. congruence. }
    rewrite Hl in H. destruct (too_many vs) eqn:Et.
    + apply fits_of_some in Et as [-> ->]. unfold reject in H. simplify_eq. split; eauto.
    + apply fits_of_none in Et. rewrite Et. simpl.
      pose proof (cls_new_spec st w (mk_sd m p 1 vs) HI) as Hc. simpl in Hc.
      destruct (create_local_span st w (mk_sd m p 1 vs) true) as [e|[[h w1] cs]].
      * unfold reject in H. simplify_eq. split; [intros _|eauto].
        destruct e; [destruct Hc as [-> ->]; done | destruct Hc as (-> & -> & Hc); simpl; by rewrite Hc | done].
      * destruct Hc as [-> ->]. simplify_eq. split; [intros [? ?]; done | done].
  - (* FollowsFrom *)
    destruct (map_span_id st a) eqn:Ea; [|destruct (map_span_id st b) eqn:Eb];
      unfold reject in H; simplify_eq; boolfacts HI; split; try (intros [? ?]; done); eauto;
      repeat match goal with Hx : alive _ _ = _ |- _ => rewrite Hx end; simpl; try done;
      rewrite ?andb_false_r; done.
  - (* Entered *)
    destruct (map_span_id st id) as [e|[h|]] eqn:Em.
    + unfold reject in H. simplify_eq. boolfacts HI. split; eauto.
    + simplify_eq. boolfacts HI. split; [intros [? ?]; done | congruence].
    + pose proof (map_span_id_spec st id) as Hs. rewrite Em in Hs. destruct Hs as [_ [d Hd]].
      rewrite Hd in H. destruct (cls_lazy_ok st w id d HI Hd) as [[[h w1] cs] Hc]. rewrite Hc in H.
      simplify_eq. apply alive_of_some in Hd. split; [intros [? ?]; done | congruence].
  - (* Exited *)
    destruct (map_span_id st id) as [e|lid] eqn:Em; unfold reject in H; simplify_eq; boolfacts HI;
      split; try (intros [? ?]; done); eauto; congruence.
  - (* Cloned *)
    destruct (r_spans st !! id) eqn:Es; unfold reject in H; simplify_eq; boolfacts HI;
      split; try (intros [? ?]; done); eauto; congruence.
  - (* Dropped *)
    destruct (r_spans st !! id) as [d|] eqn:Es; unfold reject in H.
    + pose proof (inv_refs _ HI _ _ Es) as Hr. apply alive_of_some in Es.
      destruct (sd_refs d =? 0)%N eqn:Ez; [apply N.eqb_eq in Ez; lia|].
      destruct (sd_refs d - 1 =? 0)%N; simplify_eq; split; try (intros [? ?]; done); congruence.
    + simplify_eq. boolfacts HI. split; eauto.
  - (* ValuesRecorded *)
    destruct (too_many vs) eqn:Et.
    + apply fits_of_some in Et as [-> ->]. unfold reject in H. simplify_eq. split; eauto.
    + apply fits_of_none in Et. rewrite Et. simpl.
      destruct (map_span_id st id) as [e|lid] eqn:Em.
      * unfold reject in H. simplify_eq. boolfacts HI. split; eauto.
      * pose proof (msi_inr _ _ _ HI Em) as Ha. rewrite Ha.
        apply alive_true in Ha as [d Hd]. rewrite Hd in H.
        destruct (inv_meta _ HI _ _ Hd) as [md Hmd]. rewrite Hmd in H.
        destruct lid; simplify_eq; split; try (intros [? ?]; done); done.
  - (* NewEvent *)
    destruct (too_many vs) eqn:Et.
    + apply fits_of_some in Et as [-> ->]. unfold reject in H. simplify_eq. split; eauto.
    + apply fits_of_none in Et. rewrite Et. simpl.
      destruct (r_meta st !! m) eqn:Emd; unfold reject in H.
      * apply known_of_some in Emd. rewrite Emd. simpl.
        destruct p as [p|]; simpl in *.
        -- destruct (map_span_id st p) eqn:Ep; simplify_eq; boolfacts HI;
             split; try (intros [? ?]; done); eauto; congruence.
        -- simplify_eq. split; [intros [? ?]; done | done].
      * simplify_eq. apply known_false in Emd. rewrite Emd. split; eauto.
Qed.

Theorem recv_reason st w ev e st' w' calls :
  Inv st → no_reannounce st ev = true →
  try_receive st w ev = (Rejected e, st', w', calls) → applicable st ev e.
Proof.
  intros HI Hre H. destruct ev as [id d|id p m vs|a b|id|id|id|id|id vs|m p vs]; simpl in *.
  - unfold on_new_call_site in H. simplify_eq.
  - apply negb_true_iff, alive_false in Hre.
    assert (r_local st !! id = None) as Hl.
    { destruct (r_local st !! id) eqn:E; [|done]. exfalso.
      assert (id ∈ dom (r_spans st)) as Hd by (apply (inv_local _ HI); by apply elem_of_dom).
      apply elem_of_dom in Hd as [? Hd]. congruence. }
    rewrite Hl in H. destruct (too_many vs) eqn:Et.
    + apply fits_of_some in Et as [? ->]. unfold reject in H. simplify_eq. done.
    + pose proof (cls_new_spec st w (mk_sd m p 1 vs) HI) as Hc. simpl in Hc.
      destruct (create_local_span st w (mk_sd m p 1 vs) true) as [e'|[[h w1] cs]];
        unfold reject in H; simplify_eq.
      destruct e; [destruct Hc as [-> ?]; done | destruct Hc as (? & -> & ?); done | done].
  - destruct (map_span_id st a) eqn:Ea; [|destruct (map_span_id st b) eqn:Eb];
      unfold reject in H; simplify_eq; boolfacts HI; simplify_eq; simpl; eauto.
  - destruct (map_span_id st id) as [e'|[h|]] eqn:Em.
    + unfold reject in H. simplify_eq. boolfacts HI. simplify_eq. done.
    + simplify_eq.
    + pose proof (map_span_id_spec st id) as Hs. rewrite Em in Hs. destruct Hs as [_ [d Hd]].
      rewrite Hd in H. destruct (cls_lazy_ok st w id d HI Hd) as [[[h w1] cs] Hc]. rewrite Hc in H.
      simplify_eq.
  - destruct (map_span_id st id) as [e'|lid] eqn:Em; unfold reject in H; simplify_eq.
    boolfacts HI. simplify_eq. done.
  - destruct (r_spans st !! id) eqn:Es; unfold reject in H; simplify_eq. boolfacts HI. done.
  - destruct (r_spans st !! id) as [d|] eqn:Es; unfold reject in H.
    + destruct (sd_refs d =? 0)%N; [simplify_eq|]. destruct (sd_refs d - 1 =? 0)%N; simplify_eq.
    + simplify_eq. boolfacts HI. done.
  - destruct (too_many vs) eqn:Et.
    + apply fits_of_some in Et as [? ->]. unfold reject in H. simplify_eq. done.
    + destruct (map_span_id st id) as [e'|lid] eqn:Em.
      * unfold reject in H. simplify_eq. boolfacts HI. simplify_eq. done.
      * pose proof (msi_inr _ _ _ HI Em) as Ha.
        apply alive_true in Ha as [d Hd]. rewrite Hd in H.
        destruct (inv_meta _ HI _ _ Hd) as [md Hmd]. rewrite Hmd in H.
        destruct lid; simplify_eq.
  - destruct (too_many vs) eqn:Et.
    + apply fits_of_some in Et as [? ->]. unfold reject in H. simplify_eq. done.
    + destruct (r_meta st !! m) eqn:Emd; unfold reject in H.
      * destruct p as [p|]; simpl in *.
        -- destruct (map_span_id st p) eqn:Ep; simplify_eq. boolfacts HI. simplify_eq. done.
        -- simplify_eq.
      * simplify_eq. apply known_false in Emd. done.
Qed.

(** ** the invariant is preserved by every step *)
Lemma cls_inr_fresh st w d b h w1 cs :
  create_local_span st w d b = inr (h, w1, cs) → h = (w_next w + 1)%N ∧ w_next w1 = h ∧ w_arena w1 = w_arena w.
Proof.
  unfold create_local_span. intros H. repeat (case_match; simplify_eq/=); done.
Qed.

Theorem try_receive_Inv st w ev o st' w' calls :
  Inv st → no_reannounce st ev = true →
  try_receive st w ev = (o, st', w', calls) → Inv st'.
Proof.
  intros HI Hre H.
  destruct o as [|e|]; [| by apply reject_no_effect in H as (-> & _ & _) | by eapply recv_total in H].
  destruct HI as [I1 I2 I3 I4 I5 I6].
  destruct ev as [id d|id p m vs|a b|id|id|id|id|id vs|m p vs]; simpl in *.
  - unfold on_new_call_site in H. simplify_eq. split; simpl; try done.
    intros i d' Hs. destruct (I5 _ _ Hs) as [x Hx]. destruct (decide (id = sd_meta d')) as [->|Hn].
    + rewrite lookup_insert. eauto.
    + rewrite lookup_insert_ne by done. eauto.
  - destruct (too_many vs); [unfold reject in H; simplify_eq|].
    assert (Inv st) as HI by (by split).
    assert (∀ st1, r_meta st1 = r_meta st → r_spans st1 = r_spans st → r_uncommitted st1 = r_uncommitted st →
              r_entered st1 = r_entered st → dom (r_local st1) ⊆ {[id]} ∪ dom (r_local st) →
              is_Some (r_meta st !! m) →
              Inv (set_uncommitted (set_spans st1 (<[id := mk_sd m p 1 vs]> (r_spans st1))) ({[id]} ∪ r_uncommitted st1))) as Hfin.
    { intros st1 E1 E2 E3 E4 E5 Hm. split; simpl; rewrite ?E1, ?E2, ?E3, ?E4.
      - rewrite dom_insert. set_solver.
      - rewrite dom_insert. set_solver.
      - rewrite dom_insert. set_solver.
      - intros i d' Hs. apply lookup_insert_Some in Hs as [[<- <-]|[? Hs]]; [simpl; lia | eauto].
      - intros i d' Hs. apply lookup_insert_Some in Hs as [[<- <-]|[? Hs]]; [done | eauto].
      - done. }
    destruct (r_local st !! id) eqn:El.
    + apply negb_true_iff, alive_false in Hre.
      assert (id ∈ dom (r_spans st)) as Hd by (apply I1; by apply elem_of_dom).
      apply elem_of_dom in Hd as [? Hd]. congruence.
    + pose proof (cls_new_spec st w (mk_sd m p 1 vs) HI) as Hc. simpl in Hc.
      destruct (create_local_span st w (mk_sd m p 1 vs) true) as [e'|[[h w1] cs]];
        [unfold reject in H; simplify_eq|]. destruct Hc as [Hk _]. apply known_true in Hk.
      simplify_eq. apply (Hfin (set_local st (<[id:=h]> (r_local st)))); simpl; try done.
      rewrite dom_insert. set_solver.
  - repeat (case_match; unfold reject in *; simplify_eq); by split.
  - assert (Inv st) as HI by (by split).
    destruct (map_span_id st id) as [e'|[h|]] eqn:Em; [unfold reject in H; simplify_eq| |].
    + simplify_eq. apply (msi_inr _ _ _ HI), alive_true, elem_of_dom in Em.
      split; simpl; try done.
      * rewrite dom_insert. set_solver.
      * intros i c Hc. apply lookup_insert_Some in Hc as [[<- <-]|[? Hc]]; [lia | eauto].
    + pose proof (map_span_id_spec st id) as Hs. rewrite Em in Hs. destruct Hs as [_ [d Hd]].
      rewrite Hd in H. destruct (cls_lazy_ok st w id d HI Hd) as [[[h w1] cs] Hc]. rewrite Hc in H.
      simplify_eq. apply elem_of_dom_2 in Hd. split; simpl; try done.
      * rewrite dom_insert. set_solver.
      * rewrite dom_insert. set_solver.
      * intros i c Hc'. apply lookup_insert_Some in Hc' as [[<- <-]|[? Hc']]; [lia | eauto].
  - destruct (map_span_id st id) as [e'|lid] eqn:Em; [unfold reject in H; simplify_eq|].
    simplify_eq. split; simpl; try done.
    + destruct (r_entered st !! id) as [c|] eqn:Ec; [|done].
      destruct (c - 1 =? 0)%N; [rewrite dom_delete; set_solver|].
      rewrite dom_insert. apply elem_of_dom_2 in Ec. set_solver.
    + intros i c Hc. destruct (r_entered st !! id) as [c0|] eqn:Ec; [|eauto].
      destruct (c0 - 1 =? 0)%N eqn:Ez.
      * apply lookup_delete_Some in Hc as [_ Hc]. eauto.
      * apply lookup_insert_Some in Hc as [[<- <-]|[? Hc]]; [|eauto]. apply N.eqb_neq in Ez. lia.
  - destruct (r_spans st !! id) as [d|] eqn:Es; [|unfold reject in H; simplify_eq].
    simplify_eq. apply elem_of_dom_2 in Es as Hd. split; simpl.
    + rewrite dom_insert. set_solver.
    + rewrite dom_insert. set_solver.
    + rewrite dom_insert. set_solver.
    + intros i d' Hs. apply lookup_insert_Some in Hs as [[<- <-]|[? Hs]]; [simpl; lia | eauto].
    + intros i d' Hs. apply lookup_insert_Some in Hs as [[<- <-]|[? Hs]]; [simpl; eauto | eauto].
    + done.
  - destruct (r_spans st !! id) as [d|] eqn:Es; [|unfold reject in H; simplify_eq].
    destruct (sd_refs d =? 0)%N eqn:Ez; [simplify_eq|].
    apply elem_of_dom_2 in Es as Hd.
    destruct (sd_refs d - 1 =? 0)%N eqn:Ez1; simplify_eq; split; simpl.
    + rewrite !dom_delete. set_solver.
    + rewrite dom_delete. set_solver.
    + rewrite !dom_delete. set_solver.
    + intros i d' Hs. apply lookup_delete_Some in Hs as [_ Hs]. eauto.
    + intros i d' Hs. apply lookup_delete_Some in Hs as [_ Hs]. eauto.
    + intros i c Hc. apply lookup_delete_Some in Hc as [_ Hc]. eauto.
    + rewrite dom_insert. set_solver.
    + rewrite dom_insert. set_solver.
    + rewrite dom_insert. set_solver.
    + intros i d' Hs. apply lookup_insert_Some in Hs as [[<- <-]|[? Hs]]; [|eauto].
      simpl. apply N.eqb_neq in Ez1. apply N.eqb_neq in Ez. lia.
    + intros i d' Hs. apply lookup_insert_Some in Hs as [[<- <-]|[? Hs]]; [simpl; eauto | eauto].
    + done.
  - destruct (too_many vs); [unfold reject in H; simplify_eq|].
    destruct (map_span_id st id) as [e'|lid] eqn:Em; [unfold reject in H; simplify_eq|].
    repeat (case_match; simplify_eq/=);
    match goal with Hs : r_spans st !! id = Some _ |- _ => apply elem_of_dom_2 in Hs as Hd end;
    (split; simpl;
      [ rewrite dom_insert; set_solver | rewrite dom_insert; set_solver | rewrite dom_insert; set_solver
      | intros i d' Hs'; apply lookup_insert_Some in Hs' as [[<- <-]|[? Hs']]; [simpl; eauto | eauto]
      | intros i d' Hs'; apply lookup_insert_Some in Hs' as [[<- <-]|[? Hs']]; [simpl; eauto | eauto]
      | done ]).
  - repeat (case_match; unfold reject in *; simplify_eq); by split.
Qed.
