(** Soundness of the boolean equalities used by the judges: a vacuous [eqb] cannot blind a check. *)
From TT Require Import Tunnel.Types.

Lemma tvalue_eqb_spec a b : tvalue_eqb a b = true <-> a = b.
Proof.
  destruct a, b; simpl; try (split; [discriminate | congruence]).
  - rewrite Bool.eqb_true_iff. split; congruence.
  - rewrite Z.eqb_eq. split; congruence.
  - rewrite Z.eqb_eq. split; congruence.
  - rewrite N.eqb_eq. split; congruence.
  - rewrite String.eqb_eq. split; congruence.
  - rewrite String.eqb_eq. split; congruence.
  - rewrite andb_true_iff, String.eqb_eq, (list_eqb_spec String.eqb String.eqb_eq).
    split; [intros [-> ->]; reflexivity | intros [= -> ->]; auto].
Qed.

Lemma tvalues_eqb_spec a b : tvalues_eqb a b = true <-> a = b.
Proof.
  apply list_eqb_spec. apply pair_eqb_spec; [apply String.eqb_eq | apply tvalue_eqb_spec].
Qed.

Lemma level_eqb_spec a b : level_eqb a b = true <-> a = b.
Proof. destruct a, b; simpl; split; congruence. Qed.
Lemma cskind_eqb_spec a b : cskind_eqb a b = true <-> a = b.
Proof. destruct a, b; simpl; split; congruence. Qed.

Lemma cs_data_eqb_spec a b : cs_data_eqb a b = true <-> a = b.
Proof.
  destruct a, b; unfold cs_data_eqb; simpl.
  rewrite !andb_true_iff, cskind_eqb_spec, !String.eqb_eq, level_eqb_spec,
    !(option_eqb_spec String.eqb String.eqb_eq), (option_eqb_spec N.eqb N.eqb_eq),
    (list_eqb_spec String.eqb String.eqb_eq).
  split; [intros [[[[[[[-> ->] ->] ->] ->] ->] ->] ->]; reflexivity | intros [= -> -> -> -> -> -> -> ->]; tauto].
Qed.

Lemma event_eqb_spec a b : event_eqb a b = true <-> a = b.
Proof.
  pose proof (option_eqb_spec N.eqb N.eqb_eq) as HO.
  destruct a, b; simpl; try (split; [discriminate | congruence]);
    rewrite ?andb_true_iff, ?N.eqb_eq, ?HO, ?tvalues_eqb_spec, ?cs_data_eqb_spec;
    split; try (intros [= -> ->]; tauto); try (intros [= -> -> -> ->]; tauto);
    try (intros [= -> -> ->]; tauto); try (intros [= ->]; tauto); intuition congruence.
Qed.
