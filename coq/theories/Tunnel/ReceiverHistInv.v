(** The invariant along whole histories (persist / restore / drop), reachable states. *)
From TT Require Import Tunnel.TypesProofs Tunnel.ReceiverSpec Tunnel.ReceiverInv.
From stdpp Require Import gmap.
Arguments firstn : simpl never.
Arguments skipn : simpl never.
Arguments chunks : simpl never.
Arguments extend : simpl never.
Arguments host_vals : simpl never.

(** ** [restore] *)
Notation rstep := restore_step.

Lemma restore_fold_spec l st0 w0 c0 :
  NoDup l.*1 →
  let '(st, w, calls) := fold_left rstep l (st0, w0, c0) in
  r_meta st = list_to_map l ∪ r_meta st0 ∧ r_spans st = r_spans st0 ∧ r_local st = r_local st0 ∧
  r_uncommitted st = r_uncommitted st0 ∧ r_entered st = r_entered st0 ∧ w_next w = w_next w0 ∧
  (∀ d, In d (w_arena w0) → In d (w_arena w)) ∧
  (∀ id d, (id, d) ∈ l → existsb (cs_data_eqb d) (w_arena w) = true).
Proof.
  revert st0 w0 c0. induction l as [|[id d] l IH]; intros st0 w0 c0 Hnd.
  - simpl. split_and!; try done.
    + symmetry. apply (left_id_L ∅ (∪)).
    + intros ? ? H. by apply elem_of_nil in H.
  - rewrite fmap_cons in Hnd. apply NoDup_cons in Hnd as [Hni Hnd]. simpl in Hni.
    cbn [fold_left]. unfold rstep at 2. unfold on_new_call_site.
    set (isnew := negb (existsb (cs_data_eqb d) (w_arena w0))).
    set (st1 := mk_rs (<[id:=d]> (r_meta st0)) (r_spans st0) (r_local st0) (r_uncommitted st0) (r_entered st0)).
    set (w1 := if isnew then mk_w (w_next w0) (w_arena w0 ++ [d]) else w0).
    specialize (IH st1 w1 (c0 ++ (if isnew then [HRegister d] else [])) Hnd).
    destruct (fold_left rstep l _) as [[st w] calls].
    destruct IH as (E1 & E2 & E3 & E4 & E5 & E6 & E7 & E8).
    split_and!; try done.
    + rewrite E1. subst st1. simpl. rewrite <- insert_union_r.
      * by rewrite insert_union_l.
      * by apply not_elem_of_list_to_map_1.
    + rewrite E6. subst w1. by destruct isnew.
    + intros d' Hd'. apply E7. subst w1. destruct isnew; simpl; [apply in_or_app; by left | done].
    + intros id' d' Hin. apply elem_of_cons in Hin as [[= -> ->]|Hin]; [|by eapply E8].
      assert (In d (w_arena w1)) as Hd.
      { subst w1 isnew. destruct (existsb (cs_data_eqb d) (w_arena w0)) eqn:Ex; simpl.
        - apply existsb_exists in Ex as (x & Hx & Ex). apply cs_data_eqb_spec in Ex. by subst.
        - apply in_or_app. right. by left. }
      apply E7 in Hd. apply existsb_exists. exists d. split; [done|]. by apply cs_data_eqb_spec.
Qed.

Lemma restore_spec w md spans local :
  let '(st, w', regs) := restore w md spans local in
  r_meta st = md ∧ r_spans st = spans ∧ r_local st = local ∧
  r_uncommitted st = ∅ ∧ r_entered st = ∅ ∧ w_next w' = w_next w ∧
  (∀ d, In d (w_arena w) → In d (w_arena w')) ∧
  (∀ id d, md !! id = Some d → existsb (cs_data_eqb d) (w_arena w') = true).
Proof.
  unfold restore.
  pose proof (restore_fold_spec (map_to_list md) (mk_rs ∅ spans local ∅ ∅) w [] (NoDup_fst_map_to_list md)) as H.
  destruct (fold_left _ _ _) as [[st w'] regs]. simpl in H.
  destruct H as (E1 & E2 & E3 & E4 & E5 & E6 & E7 & E8).
  split_and!; try done.
  - rewrite E1, (right_id_L ∅ (∪)). apply list_to_map_to_list.
  - intros id d Hd. apply (E8 id d). by apply elem_of_map_to_list.
Qed.

(** ** invariant of a history state *)
Record HInv (h : hist) : Prop := mk_HInv {
  hinv_st : Inv (h_st h);
  hinv_md : dom (h_md h) ⊆ dom (r_meta (h_st h));
  hinv_saved_refs : ∀ id d, h_spans h !! id = Some d → (1 <= sd_refs d)%N;
  hinv_saved_meta : ∀ id d, h_spans h !! id = Some d → is_Some (h_md h !! sd_meta d) }.

Lemma HInv_init : HInv hist_init.
Proof.
  split; simpl; [apply Inv_default | done | |]; intros ? ? H; rewrite lookup_empty in H; done.
Qed.

(** a step is in scope of C06 when it does not re-announce an alive span id *)
Definition step_scope (h : hist) (s : hstep) : Prop :=
  match s with SRecv ev => no_reannounce (h_st h) ev = true | _ => True end.

Fixpoint hist_scope (h : hist) (steps : list hstep) : Prop :=
  match steps with
  | [] => True
  | s :: r => step_scope h s ∧ hist_scope (fst (hist_step h s)) r
  end.

Lemma try_receive_meta st w ev o st' w' calls :
  try_receive st w ev = (o, st', w', calls) →
  r_meta st' = match ev with ENewCallSite id d => <[id:=d]> (r_meta st) | _ => r_meta st end.
Proof.
  unfold try_receive, reject, on_new_call_site. intros H.
  destruct ev; repeat (case_match; simplify_eq/=); done.
Qed.

Lemma try_receive_meta_dom st w ev o st' w' calls :
  try_receive st w ev = (o, st', w', calls) → dom (r_meta st) ⊆ dom (r_meta st').
Proof.
  intros H. rewrite (try_receive_meta _ _ _ _ _ _ _ H). destruct ev; try done.
  rewrite dom_insert. set_solver.
Qed.

Lemma hist_step_HInv h s : HInv h → step_scope h s → HInv (fst (hist_step h s)).
Proof.
  intros [HI Hmd Hr Hm] Hsc. destruct s as [ev|keep|]; simpl in *.
  - destruct (try_receive (h_st h) (h_w h) ev) as [[[o st'] w'] calls] eqn:E. simpl.
    split; simpl; [by eapply try_receive_Inv | | done | done].
    apply try_receive_meta_dom in E. set_solver.
  - unfold persist, persist_metadata.
    pose proof (restore_spec (h_w h) (r_meta (h_st h) ∪ h_md h) (r_spans (h_st h))
                  (if keep then r_local (h_st h) else ∅)) as Hs.
    destruct (restore _ _ _ _) as [[st' w'] regs]. simpl.
    destruct Hs as (E1 & E2 & E3 & E4 & E5 & _).
    destruct HI as [I1 I2 I3 I4 I5 I6].
    split; simpl.
    + split; rewrite ?E1, ?E2, ?E3, ?E4, ?E5.
      * destruct keep; [done | rewrite dom_empty_L; apply empty_subseteq].
      * apply empty_subseteq.
      * rewrite dom_empty_L. apply empty_subseteq.
      * done.
      * intros id d Hd. destruct (I5 _ _ Hd) as [x Hx]. exists x. by apply lookup_union_Some_l.
      * intros ? ? Hx. rewrite lookup_empty in Hx. done.
    + by rewrite E1.
    + done.
    + intros id d Hd. destruct (I5 _ _ Hd) as [x Hx]. exists x. by apply lookup_union_Some_l.
  - pose proof (restore_spec (h_w h) (h_md h) (h_spans h) ∅) as Hs.
    destruct (restore _ _ _ _) as [[st' w'] regs]. simpl.
    destruct Hs as (E1 & E2 & E3 & E4 & E5 & _).
    split; simpl; [|by rewrite E1|done|done].
    split; rewrite ?E1, ?E2, ?E3, ?E4, ?E5.
    + rewrite dom_empty_L. apply empty_subseteq.
    + apply empty_subseteq.
    + rewrite dom_empty_L. apply empty_subseteq.
    + done.
    + done.
    + intros ? ? Hx. rewrite lookup_empty in Hx. done.
Qed.

Lemma hist_final_HInv steps h : HInv h → hist_scope h steps → HInv (hist_final h steps).
Proof.
  revert h. induction steps as [|s r IH]; intros h HH Hsc; simpl; [done|].
  destruct Hsc as [Hs Hr]. pose proof (hist_step_HInv h s HH Hs) as HH'.
  destruct (hist_step h s) as [h' o]. simpl in *. destruct (is_panic o); [done|]. by apply IH.
Qed.

(** Every state reachable by a history in scope satisfies the invariant. *)
Theorem reachable_Inv steps :
  hist_scope hist_init steps → Inv (h_st (hist_final hist_init steps)).
Proof. intros H. apply hinv_st, hist_final_HInv; [apply HInv_init | done]. Qed.

(** C06 for whole histories: no step panics. *)
Theorem hist_total steps h :
  HInv h → hist_scope h steps → Forall (fun o => is_panic o = false) (hist_run h steps).
Proof.
  revert h. induction steps as [|s r IH]; intros h HH Hsc; simpl; [constructor|].
  destruct Hsc as [Hs Hr]. pose proof (hist_step_HInv h s HH Hs) as HH'.
  destruct (hist_step h s) as [h' o] eqn:E. simpl in *.
  assert (is_panic o = false) as Hp.
  { destruct s as [ev| |]; simpl in E.
    - destruct (try_receive (h_st h) (h_w h) ev) as [[[o' st'] w'] calls] eqn:E'. simplify_eq. simpl.
      destruct o'; try done. exfalso. eapply recv_total; [apply HH | exact E' | done].
    - unfold persist in E. destruct (restore _ _ _ _) as [[? ?] ?]. by simplify_eq.
    - destruct (restore _ _ _ _) as [[? ?] ?]. by simplify_eq. }
  rewrite Hp. constructor; [done | by apply IH].
Qed.
