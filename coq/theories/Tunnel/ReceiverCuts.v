(** Cuts at quiescent points are invisible to the host (C02, first clause). *)
From TT Require Import Tunnel.TypesProofs Tunnel.ReceiverAbs Tunnel.ReceiverInv Tunnel.ReceiverHistInv.
From stdpp Require Import gmap.
Arguments firstn : simpl never.
Arguments skipn : simpl never.
Arguments chunks : simpl never.
Arguments extend : simpl never.
Arguments host_vals : simpl never.

(** equality of receiver states up to the set of uncommitted spans (which only [Drop] reads) *)
Definition req (a b : rstate) : Prop :=
  r_meta a = r_meta b ∧ r_spans a = r_spans b ∧ r_local a = r_local b ∧ r_entered a = r_entered b.

Lemma req_refl a : req a a.
Proof. by repeat split. Qed.

Lemma try_receive_req st1 st2 w ev :
  req st1 st2 →
  match try_receive st1 w ev, try_receive st2 w ev with
  | (o1, s1, w1, c1), (o2, s2, w2, c2) => o1 = o2 ∧ w1 = w2 ∧ c1 = c2 ∧ req s1 s2
  end.
Proof.
  destruct st1 as [m s l u1 e], st2 as [m2 s2 l2 u2 e2]. intros (E1 & E2 & E3 & E4). simpl in *. subst.
  unfold try_receive, reject, on_new_call_site, create_local_span, map_span_id,
    set_spans, set_local, set_uncommitted, set_entered, req; simpl.
  destruct ev; simpl; repeat (case_match; simplify_eq/=); done.
Qed.

(** every call site the receiver knows is interned in the arena, so restoring registers nothing *)
Definition ArenaInv (st : rstate) (w : world) : Prop :=
  ∀ id d, r_meta st !! id = Some d → existsb (cs_data_eqb d) (w_arena w) = true.

Lemma existsb_app_l d (l1 l2 : list cs_data) :
  existsb (cs_data_eqb d) l1 = true → existsb (cs_data_eqb d) (l1 ++ l2) = true.
Proof. rewrite existsb_app. intros ->. done. Qed.

Lemma try_receive_arena st w ev o st' w' calls :
  ArenaInv st w → try_receive st w ev = (o, st', w', calls) → ArenaInv st' w'.
Proof.
  intros HA H.
  assert (∀ d, existsb (cs_data_eqb d) (w_arena w) = true → existsb (cs_data_eqb d) (w_arena w') = true) as Hmono.
  { revert H. destruct st as [m s l u e].
    unfold try_receive, reject, on_new_call_site, create_local_span, map_span_id,
      set_spans, set_local, set_uncommitted, set_entered; simpl.
    destruct ev; simpl; intros H d'; repeat (case_match; simplify_eq/=); try done.
    apply existsb_app_l. }
  intros id d Hd. rewrite (try_receive_meta _ _ _ _ _ _ _ H) in Hd.
  destruct ev as [id0 d0| | | | | | | | ]; try (apply Hmono; by eapply HA).
  apply lookup_insert_Some in Hd as [[<- <-]|[_ Hd]]; [|apply Hmono; by eapply HA].
  simpl in H. unfold on_new_call_site in H.
  destruct (existsb (cs_data_eqb d0) (w_arena w)) eqn:Ex; simpl in H; simplify_eq; simpl.
  - done.
  - rewrite existsb_app. simpl. assert (cs_data_eqb d0 d0 = true) as -> by (by apply cs_data_eqb_spec).
    by rewrite orb_true_r.
Qed.

Lemma restore_fold_noregs l st0 w0 c0 :
  (∀ kv, kv ∈ l → existsb (cs_data_eqb (snd kv)) (w_arena w0) = true) →
  ∃ st, fold_left restore_step l (st0, w0, c0) = (st, w0, c0).
Proof.
  revert st0. induction l as [|[id d] l IH]; intros st0 H; simpl; [eauto|].
  unfold on_new_call_site. simpl.
  pose proof (H (id, d) (elem_of_list_here _ _)) as Hd. simpl in Hd. rewrite Hd. simpl. rewrite app_nil_r.
  apply IH. intros kv Hkv. apply H. by right.
Qed.

Lemma restore_noregs w md spans local :
  (∀ id d, md !! id = Some d → existsb (cs_data_eqb d) (w_arena w) = true) →
  restore w md spans local = (mk_rs md spans local ∅ ∅, w, []).
Proof.
  intros H. pose proof (restore_spec w md spans local) as Hs. unfold restore in *.
  destruct (restore_fold_noregs (map_to_list md) (mk_rs ∅ spans local ∅ ∅) w []) as [st Hst].
  { intros [id d] Hkv. apply elem_of_map_to_list in Hkv. simpl. by eapply H. }
  rewrite Hst in *. destruct Hs as (E1 & E2 & E3 & E4 & E5 & _).
  destruct st; simpl in *; subst. done.
Qed.

(** a persist (local map kept) at a point where no span is entered emits nothing and only forgets
    which spans were uncommitted *)
Lemma persist_quiescent h :
  HInv h → ArenaInv (h_st h) (h_w h) → r_entered (h_st h) = ∅ →
  hist_step h (SPersist true) =
  (mk_hist (mk_rs (r_meta (h_st h)) (r_spans (h_st h)) (r_local (h_st h)) ∅ ∅) (h_w h)
           (r_meta (h_st h)) (r_spans (h_st h)),
   MPersist [] (r_spans (h_st h)) (r_meta (h_st h)) []
            (mk_rs (r_meta (h_st h)) (r_spans (h_st h)) (r_local (h_st h)) ∅ ∅)).
Proof.
  intros HH HA He. simpl. unfold persist, persist_metadata. rewrite He.
  assert (r_meta (h_st h) ∪ h_md h = r_meta (h_st h)) as Hmd.
  { apply map_eq. intros i. rewrite lookup_union.
    destruct (r_meta (h_st h) !! i) eqn:E1; simpl; [by destruct (h_md h !! i)|].
    destruct (h_md h !! i) eqn:E2; [|done]. exfalso.
    apply elem_of_dom_2 in E2. apply (hinv_md _ HH) in E2. apply not_elem_of_dom in E1. done. }
  rewrite Hmd. rewrite restore_noregs by exact HA.
  unfold exits_of. rewrite map_to_list_empty. done.
Qed.

(** ** whole histories *)
Definition recv_part (o : mobs) : option (outcome * list hcall) :=
  match o with MRecv o c _ => Some (o, c) | _ => None end.
Definition other_calls (o : mobs) : list hcall :=
  match o with
  | MPersist ex _ _ regs _ => ex ++ regs
  | MDrop c regs _ => c ++ regs
  | MRecv _ _ _ => []
  end.

(** every cut is a persist that keeps the local map, taken while no span is entered *)
Fixpoint qcuts (h : hist) (steps : list hstep) : Prop :=
  match steps with
  | [] => True
  | s :: r =>
      match s with
      | SRecv _ => True
      | SPersist k => k = true ∧ r_entered (h_st h) = ∅
      | SDrop => False
      end ∧ qcuts (fst (hist_step h s)) r
  end.

Definition hrel (h1 h2 : hist) : Prop := req (h_st h1) (h_st h2) ∧ h_w h1 = h_w h2.

Lemma no_reannounce_req st1 st2 ev : req st1 st2 → no_reannounce st1 ev = no_reannounce st2 ev.
Proof. intros (_ & E & _). destruct ev; simpl; try done. unfold alive. by rewrite E. Qed.

Theorem quiescent_cuts_invisible steps : ∀ h1 h2,
  HInv h1 → HInv h2 → ArenaInv (h_st h1) (h_w h1) → hrel h1 h2 →
  hist_scope h1 steps → qcuts h1 steps →
  omap recv_part (hist_run h1 steps) = omap recv_part (hist_run h2 (map SRecv (events_of steps)))
  ∧ flat_map other_calls (hist_run h1 steps) = [].
Proof.
  induction steps as [|s r IH]; intros h1 h2 HH1 HH2 HA [Hreq Hw] Hsc Hq; [done|].
  destruct Hsc as [Hs Hsc]. destruct Hq as [Hqs Hq].
  pose proof (hist_step_HInv h1 s HH1 Hs) as HH1'.
  pose proof (hist_total [s] h1 HH1 (conj Hs I)) as Hp1. cbn [hist_run] in Hp1.
  destruct s as [ev|keep|]; [| |done].
  - (* a received event: both runs do the same *)
    assert (step_scope h2 (SRecv ev)) as Hs2.
    { simpl in *. by rewrite <- (no_reannounce_req _ _ _ Hreq). }
    pose proof (hist_step_HInv h2 (SRecv ev) HH2 Hs2) as HH2'.
    pose proof (hist_total [SRecv ev] h2 HH2 (conj Hs2 I)) as Hp2. cbn [hist_run] in Hp2.
    pose proof (try_receive_req (h_st h1) (h_st h2) (h_w h1) ev Hreq) as Hr.
    cbn [events_of flat_map map app hist_run]. change (flat_map _ r) with (events_of r).
    cbn [hist_step] in *. rewrite <- Hw in *.
    destruct (try_receive (h_st h1) (h_w h1) ev) as [[[o1 s1] w1] c1] eqn:E1.
    destruct (try_receive (h_st h2) (h_w h1) ev) as [[[o2 s2] w2] c2] eqn:E2.
    destruct Hr as (<- & <- & <- & Hreq').
    cbn [fst snd] in *.
    apply Forall_cons in Hp1 as [Hp1 _]. apply Forall_cons in Hp2 as [Hp2 _].
    rewrite Hp1, Hp2.
    destruct (IH (mk_hist s1 w1 (h_md h1) (h_spans h1)) (mk_hist s2 w1 (h_md h2) (h_spans h2))
                HH1' HH2' (try_receive_arena _ _ _ _ _ _ _ HA E1) (conj Hreq' eq_refl) Hsc Hq) as [IH1 IH2].
    split.
    + simpl. f_equal. exact IH1.
    + simpl. exact IH2.
  - (* a quiescent persist: nothing happens *)
    destruct Hqs as [-> He].
    cbn [events_of flat_map map app hist_run]. change (flat_map _ r) with (events_of r).
    rewrite (persist_quiescent h1 HH1 HA He) in *. cbn [fst snd is_panic] in *.
    assert (hrel (mk_hist (mk_rs (r_meta (h_st h1)) (r_spans (h_st h1)) (r_local (h_st h1)) ∅ ∅) (h_w h1)
                          (r_meta (h_st h1)) (r_spans (h_st h1))) h2) as Hrel.
    { destruct Hreq as (E1 & E2 & E3 & E4). repeat split; simpl; try done. by rewrite <- E4. }
    destruct (IH _ h2 HH1' HH2 HA Hrel Hsc Hq) as [IH1 IH2].
    split; [exact IH1|]. simpl. exact IH2.
Qed.

(** from the start: a history whose cuts are quiescent keep-persists makes exactly the host calls
    and gets exactly the acceptance results of the uncut stream *)
Lemma ArenaInv_init : ArenaInv rs_default (mk_w 0 []).
Proof. intros id d H. simpl in H. by rewrite lookup_empty in H. Qed.

Corollary quiescent_cuts_invisible_init steps :
  hist_scope hist_init steps → qcuts hist_init steps →
  omap recv_part (hist_run hist_init steps) =
  omap recv_part (hist_run hist_init (map SRecv (events_of steps)))
  ∧ flat_map other_calls (hist_run hist_init steps) = [].
Proof.
  intros Hsc Hq. apply quiescent_cuts_invisible; [apply HInv_init | apply HInv_init | apply ArenaInv_init | | exact Hsc | exact Hq].
  split; [apply req_refl | done].
Qed.
