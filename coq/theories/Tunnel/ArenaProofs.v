(** Proofs about the sequential call-site arena (C09): content, identity, allocation exactly at
    first occurrences, string interning, refinement of the "descriptions seen" list used by
    [Tunnel/Receiver.v], and the receiver-level consequences. *)
From TT Require Import Tunnel.Arena Tunnel.TypesProofs.
From stdpp Require Import gmap.

(** * Hash-independent facts *)

Lemma is_span_inj k1 k2 : Bool.eqb (is_span k1) (is_span k2) = true <-> k1 = k2.
Proof. destruct k1, k2; simpl; split; congruence. Qed.

Lemma eq_metadata_spec d m : eq_metadata d m = true <-> to_data m = d.
Proof.
  destruct d as [k n t l mo f li fs], m as [p k' n' t' l' mo' f' li' fs'].
  unfold eq_metadata, to_data; cbn [cs_kind cs_name cs_target cs_level cs_module cs_file cs_line
    cs_fields m_kind m_name m_target m_level m_module m_file m_line m_fields].
  rewrite !andb_true_iff, is_span_inj, level_eqb_spec, !String.eqb_eq,
    !(option_eqb_spec String.eqb String.eqb_eq), (option_eqb_spec N.eqb N.eqb_eq),
    (list_eqb_spec String.eqb String.eqb_eq).
  split.
  - intros [[[[[[[-> ->] ->] ->] ->] ->] ->] ->]. reflexivity.
  - intros [= -> -> -> -> -> -> -> ->]. tauto.
Qed.

(** ** the "seen" list *)

Lemma seen_new_false seen d : seen_new seen d = false <-> d ∈ seen.
Proof.
  unfold seen_new. rewrite negb_false_iff, existsb_exists. split.
  - intros (x & Hx & E). apply cs_data_eqb_spec in E as ->. by apply elem_of_list_In.
  - intros H. exists d. split; [by apply elem_of_list_In | by apply cs_data_eqb_spec].
Qed.
Lemma seen_new_true seen d : seen_new seen d = true <-> d ∉ seen.
Proof. rewrite <- seen_new_false. destruct (seen_new seen d); split; congruence. Qed.

Lemma elem_of_seen_add x seen d : x ∈ seen_add seen d <-> x ∈ seen ∨ x = d.
Proof.
  unfold seen_add. destruct (seen_new seen d) eqn:E.
  - rewrite elem_of_app, elem_of_list_singleton. tauto.
  - apply seen_new_false in E. split; [tauto | intros [?| ->]; done].
Qed.
Lemma NoDup_seen_add seen d : NoDup seen -> NoDup (seen_add seen d).
Proof.
  intros H. unfold seen_add. destruct (seen_new seen d) eqn:E; [|done].
  apply seen_new_true in E. apply NoDup_app. split; [done|]. split; [|apply NoDup_singleton].
  intros x Hx ->%elem_of_list_singleton. done.
Qed.
Lemma seen_add_known seen d : d ∈ seen -> seen_add seen d = seen.
Proof. intros H%seen_new_false. unfold seen_add. by rewrite H. Qed.

Lemma elem_of_fold_seen_add ds : forall seen x,
  x ∈ fold_left seen_add ds seen <-> x ∈ seen ∨ x ∈ ds.
Proof.
  induction ds as [|d ds IH]; intros seen x; cbn [fold_left].
  - rewrite elem_of_nil. tauto.
  - rewrite IH, elem_of_seen_add, elem_of_cons. tauto.
Qed.
Lemma NoDup_fold_seen_add ds : forall seen, NoDup seen -> NoDup (fold_left seen_add ds seen).
Proof. induction ds as [|d ds IH]; intros seen H; cbn [fold_left]; [done|]. by apply IH, NoDup_seen_add. Qed.
Lemma fold_seen_add_known ds : forall seen, (forall d, d ∈ ds -> d ∈ seen) -> fold_left seen_add ds seen = seen.
Proof.
  induction ds as [|d ds IH]; intros seen H; cbn [fold_left]; [done|].
  rewrite seen_add_known by (apply H; left). apply IH. intros x Hx. apply H. by right.
Qed.

Lemma NoDup_distinct_descs ds : NoDup (distinct_descs ds).
Proof. apply NoDup_fold_seen_add, NoDup_nil_2. Qed.
Lemma elem_of_distinct_descs ds x : x ∈ distinct_descs ds <-> x ∈ ds.
Proof. unfold distinct_descs. rewrite elem_of_fold_seen_add, elem_of_nil. tauto. Qed.

(** the flag at position [i] is [true] exactly when the description occurs neither in [seen] nor
    earlier in the sequence *)
Lemma new_flags_lookup ds : forall seen i b,
  new_flags seen ds !! i = Some b ->
  exists d, ds !! i = Some d /\ (b = true <-> d ∉ seen /\ d ∉ take i ds).
Proof.
  induction ds as [|d ds IH]; intros seen i b H; cbn [new_flags] in H; [done|].
  destruct i as [|i]; cbn in H.
  - injection H as <-. exists d. split; [done|]. rewrite seen_new_true, take_0, elem_of_nil. tauto.
  - apply IH in H as (d' & Hd' & Hb). exists d'. split; [done|].
    rewrite Hb, elem_of_seen_add. cbn [take]. rewrite elem_of_cons. tauto.
Qed.
Lemma new_flags_length ds : forall seen, List.length (new_flags seen ds) = List.length ds.
Proof. induction ds as [|d ds IH]; intros seen; cbn [new_flags List.length]; [done|]. by rewrite IH. Qed.

Lemma count_true_cons b l : count_true (b :: l) = ((if b then 1 else 0) + count_true l)%nat.
Proof. unfold count_true. cbn [List.filter]. destruct b; reflexivity. Qed.
Lemma fold_seen_add_length ds : forall seen,
  List.length (fold_left seen_add ds seen) = (List.length seen + count_true (new_flags seen ds))%nat.
Proof.
  induction ds as [|d ds IH]; intros seen; cbn [fold_left new_flags].
  - unfold count_true. cbn. lia.
  - rewrite IH, count_true_cons. unfold seen_add. destruct (seen_new seen d); [|lia].
    rewrite app_length. cbn. lia.
Qed.

(** ** strings *)

Lemma existsb_eqb_elem_of s ss : existsb (String.eqb s) ss = true <-> s ∈ ss.
Proof.
  rewrite existsb_exists. split.
  - intros (x & Hx & ->%String.eqb_eq). by apply elem_of_list_In.
  - intros H. exists s. split; [by apply elem_of_list_In | apply String.eqb_refl].
Qed.

Lemma str_get_spec ss s : str_get ss s = if existsb (String.eqb s) ss then Some s else None.
Proof.
  unfold str_get. induction ss as [|x ss IH]; cbn [List.find existsb]; [done|].
  destruct (String.eqb s x) eqn:E; cbn [orb]; [|exact IH].
  apply String.eqb_eq in E as ->. done.
Qed.

Lemma alloc_string_spec ss s : alloc_string ss s = (str_add ss s, s).
Proof. unfold alloc_string, str_add. rewrite str_get_spec. by destruct (existsb (String.eqb s) ss). Qed.

Lemma leak_fields_spec fs : forall ss, leak_fields ss fs = (fold_left str_add fs ss, fs).
Proof.
  induction fs as [|f fs IH]; intros ss; cbn [leak_fields fold_left]; [done|].
  rewrite alloc_string_spec, IH. done.
Qed.

Lemma alloc_opt_string_spec ss o : alloc_opt_string ss o = (fold_left str_add (opt_list o) ss, o).
Proof. destruct o as [s|]; cbn [alloc_opt_string opt_list fold_left]; [|done]. by rewrite alloc_string_spec. Qed.

Lemma elem_of_str_add x ss s : x ∈ str_add ss s <-> x ∈ ss ∨ x = s.
Proof.
  unfold str_add. destruct (existsb (String.eqb s) ss) eqn:E.
  - apply existsb_eqb_elem_of in E. split; [tauto | intros [?| ->]; done].
  - rewrite elem_of_app, elem_of_list_singleton. tauto.
Qed.
Lemma NoDup_str_add ss s : NoDup ss -> NoDup (str_add ss s).
Proof.
  intros H. unfold str_add. destruct (existsb (String.eqb s) ss) eqn:E; [done|].
  apply NoDup_app. split; [done|]. split; [|apply NoDup_singleton].
  intros x Hx ->%elem_of_list_singleton. apply existsb_eqb_elem_of in Hx. congruence.
Qed.
Lemma elem_of_distinct_strs l : forall ss x, x ∈ distinct_strs ss l <-> x ∈ ss ∨ x ∈ l.
Proof.
  unfold distinct_strs. induction l as [|s l IH]; intros ss x; cbn [fold_left].
  - rewrite elem_of_nil. tauto.
  - rewrite IH, elem_of_str_add, elem_of_cons. tauto.
Qed.
Lemma NoDup_distinct_strs l : forall ss, NoDup ss -> NoDup (distinct_strs ss l).
Proof.
  unfold distinct_strs. induction l as [|s l IH]; intros ss H; cbn [fold_left]; [done|].
  by apply IH, NoDup_str_add.
Qed.
Lemma distinct_strs_app ss l1 l2 : distinct_strs ss (l1 ++ l2) = distinct_strs (distinct_strs ss l1) l2.
Proof. unfold distinct_strs. apply fold_left_app. Qed.
(** at most one new string per element of [l] *)
Lemma distinct_strs_length l : forall ss,
  (List.length ss <= List.length (distinct_strs ss l) <= List.length ss + List.length l)%nat.
Proof.
  unfold distinct_strs. induction l as [|s l IH]; intros ss; cbn [fold_left List.length]; [lia|].
  specialize (IH (str_add ss s)). unfold str_add in *.
  destruct (existsb (String.eqb s) ss); [lia|]. rewrite app_length in IH. cbn in IH. lia.
Qed.

Lemma strs_of_all_app l1 l2 : strs_of_all (l1 ++ l2) = strs_of_all l1 ++ strs_of_all l2.
Proof. unfold strs_of_all. by rewrite map_app, concat_app. Qed.
Lemma strs_of_all_singleton d : strs_of_all [d] = strs_of d.
Proof. unfold strs_of_all. cbn. apply app_nil_r. Qed.
Lemma elem_of_strs_of_all ds s : s ∈ strs_of_all ds <-> exists d, d ∈ ds /\ s ∈ strs_of d.
Proof.
  unfold strs_of_all. rewrite elem_of_list_In, in_concat. split.
  - intros (l & Hl & Hs). apply in_map_iff in Hl as (d & <- & Hd).
    exists d. by rewrite !elem_of_list_In.
  - intros (d & Hd & Hs). exists (strs_of d). rewrite in_map_iff. split; [|by apply elem_of_list_In].
    exists d. split; [done | by apply elem_of_list_In].
Qed.

(** the metadata that [leak_metadata] builds *)
Definition new_md (a : arena) (d : cs_data) : metadata :=
  mk_md (N.of_nat (List.length (heap a))) (cs_kind d) (cs_name d) (cs_target d) (cs_level d)
        (cs_module d) (cs_file d) (cs_line d) (cs_fields d).
Lemma to_data_new_md a d : to_data (new_md a d) = d.
Proof. by destruct d. Qed.

Lemma leak_metadata_spec a d :
  leak_metadata a d
  = (mk_arena (heap a ++ [new_md a d]) (buckets a) (distinct_strs (strings a) (strs_of d)), new_md a d).
Proof.
  unfold leak_metadata. rewrite leak_fields_spec, !alloc_string_spec, !alloc_opt_string_spec.
  unfold new_md, distinct_strs, strs_of. rewrite !fold_left_app. reflexivity.
Qed.

(** * The arena invariant, for an arbitrary hash *)
Section hash.
  Variable hash : cs_data -> N.

  Record arena_inv (a : arena) : Prop := mk_arena_inv {
    inv_ptr : forall i m, heap a !! i = Some m -> m_ptr m = N.of_nat i;
    inv_nodup : NoDup (to_data <$> heap a);
    inv_sound : forall h b m, buckets a !! h = Some b -> m ∈ b -> m ∈ heap a /\ hash (to_data m) = h;
    inv_complete : forall m, m ∈ heap a -> exists b, buckets a !! hash (to_data m) = Some b /\ m ∈ b;
    inv_strings : strings a = distinct_strs [] (strs_of_all (to_data <$> heap a)) }.

  Lemma arena_inv_empty : arena_inv arena_empty.
  Proof.
    split; cbn.
    - intros i m H. done.
    - apply NoDup_nil_2.
    - intros h b m H. by rewrite lookup_empty in H.
    - intros m H. by apply elem_of_nil in H.
    - reflexivity.
  Qed.

  (** identity = content, for objects of one well-formed arena *)
  Lemma heap_identity a m1 m2 : arena_inv a -> m1 ∈ heap a -> m2 ∈ heap a ->
    (m_ptr m1 = m_ptr m2 <-> to_data m1 = to_data m2) /\ (m_ptr m1 = m_ptr m2 -> m1 = m2).
  Proof.
    intros I (i & Hi)%elem_of_list_lookup (j & Hj)%elem_of_list_lookup.
    pose proof (inv_ptr a I i m1 Hi) as P1. pose proof (inv_ptr a I j m2 Hj) as P2.
    assert (m_ptr m1 = m_ptr m2 -> m1 = m2) as Hp.
    { intros E. assert (i = j) as -> by lia. congruence. }
    split; [|done]. split; [intros E; by rewrite (Hp E)|].
    intros E. assert (i = j) as ->; [|congruence].
    eapply NoDup_lookup; [apply (inv_nodup a I)| |]; rewrite list_lookup_fmap.
    - by rewrite Hi.
    - rewrite Hj. cbn. by rewrite E.
  Qed.

  Lemma deref_heap a m : arena_inv a -> m ∈ heap a -> deref a (m_ptr m) = Some m.
  Proof.
    intros I (i & Hi)%elem_of_list_lookup. unfold deref.
    rewrite (inv_ptr a I i m Hi), Nat2N.id. done.
  Qed.

  (** ** the two phases *)

  Lemma scan_some d b m : scan d b = Some m -> m ∈ b /\ to_data m = d.
  Proof. intros [H E]%find_some. split; [by apply elem_of_list_In | by apply eq_metadata_spec]. Qed.
  Lemma scan_none d b : scan d b = None -> forall m, m ∈ b -> to_data m <> d.
  Proof.
    intros H m Hm E. apply elem_of_list_In in Hm.
    pose proof (find_none _ _ H m Hm) as F. apply eq_metadata_spec in E. congruence.
  Qed.

  Lemma phase1_found a d m : arena_inv a -> phase1 hash a d = P1Found m -> m ∈ heap a /\ to_data m = d.
  Proof.
    intros I. unfold phase1. destruct (buckets a !! hash d) as [b|] eqn:Hb; [|done].
    destruct (scan d b) as [m'|] eqn:Hs; [|done]. intros [= ->].
    apply scan_some in Hs as [Hm E]. split; [|done]. by apply (inv_sound a I _ _ _ Hb Hm).
  Qed.

  Lemma phase1_scanned a d n : arena_inv a -> phase1 hash a d = P1Scanned n ->
    n = List.length (default [] (buckets a !! hash d)) /\ forall m, m ∈ heap a -> to_data m <> d.
  Proof.
    intros I. unfold phase1. destruct (buckets a !! hash d) as [b|] eqn:Hb.
    - destruct (scan d b) as [m'|] eqn:Hs; [done|]. intros [= <-]. split; [done|].
      intros m Hm E. destruct (inv_complete a I m Hm) as (b' & Hb' & Hin).
      rewrite E, Hb in Hb'. injection Hb' as <-. by apply (scan_none _ _ Hs m Hin).
    - intros [= <-]. split; [done|]. intros m Hm E.
      destruct (inv_complete a I m Hm) as (b' & Hb' & _). rewrite E, Hb in Hb'. done.
  Qed.

  (** the arena after a fresh allocation of [d] *)
  Definition arena_push (a : arena) (d : cs_data) : arena :=
    mk_arena (heap a ++ [new_md a d])
             (<[hash d := default [] (buckets a !! hash d) ++ [new_md a d]]> (buckets a))
             (distinct_strs (strings a) (strs_of d)).

  Lemma phase2_fresh a d :
    (forall m, m ∈ default [] (buckets a !! hash d) -> to_data m <> d) ->
    phase2 hash a d (List.length (default [] (buckets a !! hash d)))
    = Some (arena_push a d, new_md a d, true).
  Proof.
    intros Hfresh. unfold phase2. rewrite Nat.leb_refl, drop_all. cbn [scan List.find].
    rewrite leak_metadata_spec. cbn [heap buckets strings]. unfold arena_push.
    rewrite insert_insert. reflexivity.
  Qed.

  Lemma arena_push_inv a d : arena_inv a -> (forall m, m ∈ heap a -> to_data m <> d) ->
    arena_inv (arena_push a d).
  Proof.
    intros I Hfresh. set (m0 := new_md a d). set (b0 := default [] (buckets a !! hash d)).
    assert (forall m, m ∈ b0 -> m ∈ heap a /\ hash (to_data m) = hash d) as Hb0.
    { intros m Hm. subst b0. destruct (buckets a !! hash d) as [b|] eqn:Hb; cbn in Hm.
      - by apply (inv_sound a I _ _ _ Hb Hm).
      - by apply elem_of_nil in Hm. }
    split; cbn [arena_push heap buckets strings]; fold m0 b0.
    - intros i m [H|[Hlen H]]%lookup_app_Some; [by apply (inv_ptr a I)|].
      apply list_lookup_singleton_Some in H as [Hi <-]. cbn. f_equal. lia.
    - rewrite fmap_app. apply NoDup_app. split; [apply (inv_nodup a I)|].
      split; [|apply NoDup_singleton].
      intros x (m & -> & Hm)%elem_of_list_fmap Hx. cbn in Hx. apply elem_of_list_singleton in Hx.
      unfold m0 in Hx. rewrite to_data_new_md in Hx. by apply (Hfresh m Hm).
    - intros h b m Hb Hm. destruct (decide (h = hash d)) as [->|Hne].
      + rewrite lookup_insert in Hb. injection Hb as <-.
        apply elem_of_app in Hm as [Hm| ->%elem_of_list_singleton].
        * destruct (Hb0 m Hm) as [H1 H2]. split; [|done]. apply elem_of_app. by left.
        * split; [apply elem_of_app; right; by apply elem_of_list_singleton|].
          unfold m0. by rewrite to_data_new_md.
      + rewrite lookup_insert_ne in Hb by done.
        destruct (inv_sound a I _ _ _ Hb Hm) as [H1 H2]. split; [|done]. apply elem_of_app. by left.
    - intros m [Hm| ->%elem_of_list_singleton]%elem_of_app.
      + destruct (inv_complete a I m Hm) as (b & Hb & Hin).
        destruct (decide (hash (to_data m) = hash d)) as [E|Hne].
        * rewrite E, lookup_insert. eexists. split; [done|]. apply elem_of_app. left.
          subst b0. rewrite E in Hb. by rewrite Hb.
        * rewrite lookup_insert_ne by done. eauto.
      + unfold m0. rewrite to_data_new_md, lookup_insert. eexists. split; [done|].
        apply elem_of_app. right. by apply elem_of_list_singleton.
    - rewrite (inv_strings a I), fmap_app, strs_of_all_app, distinct_strs_app. cbn [fmap list_fmap].
      unfold m0. by rewrite to_data_new_md, strs_of_all_singleton.
  Qed.

  (** ** [alloc_metadata] refines the "seen" list: the flag, the new list, the content, the identity *)
  Lemma alloc_metadata_spec a d : arena_inv a ->
    let seen := to_data <$> heap a in
    exists a' m,
      alloc_metadata hash a d = Some (a', m, seen_new seen d)
      /\ arena_inv a' /\ to_data m = d /\ m ∈ heap a'
      /\ to_data <$> heap a' = seen_add seen d
      /\ (if seen_new seen d then a' = arena_push a d /\ m = new_md a d else a' = a).
  Proof.
    intros I seen. unfold alloc_metadata. destruct (phase1 hash a d) as [m|n] eqn:P1.
    - destruct (phase1_found a d m I P1) as [Hm E].
      assert (d ∈ seen) as Hd by (subst seen; rewrite <- E; by apply elem_of_list_fmap_1).
      pose proof (proj2 (seen_new_false seen d) Hd) as F. rewrite F.
      exists a, m. split_and!; try done. unfold seen_add. by rewrite F.
    - destruct (phase1_scanned a d n I P1) as [-> Hfresh].
      assert (d ∉ seen) as Hd.
      { subst seen. intros (m & E & Hm)%elem_of_list_fmap. by apply (Hfresh m Hm). }
      pose proof (proj2 (seen_new_true seen d) Hd) as T. rewrite T.
      rewrite phase2_fresh.
      + exists (arena_push a d), (new_md a d). split_and!; try done.
        * by apply arena_push_inv.
        * apply to_data_new_md.
        * cbn. apply elem_of_app. right. by apply elem_of_list_singleton.
        * cbn. unfold seen_add. rewrite T, fmap_app. cbn. by rewrite to_data_new_md.
      + intros m Hm. apply Hfresh. destruct (buckets a !! hash d) as [b|] eqn:Hb; cbn in Hm.
        * by apply (inv_sound a I _ _ _ Hb Hm).
        * by apply elem_of_nil in Hm.
  Qed.

  (** content holds for every arena whatsoever (no invariant needed) *)
  Lemma alloc_content_any a d a' m b : alloc_metadata hash a d = Some (a', m, b) -> to_data m = d.
  Proof.
    unfold alloc_metadata. destruct (phase1 hash a d) as [m1|n] eqn:P1.
    - intros [= <- <- <-]. unfold phase1 in P1.
      destruct (buckets a !! hash d) as [bk|]; [|done]. destruct (scan d bk) eqn:Hs; [|done].
      injection P1 as ->. by apply scan_some in Hs as [_ ?].
    - unfold phase2. destruct (_ <=? _)%nat; [|done].
      destruct (scan d _) as [m1|] eqn:Hs.
      + intros [= <- <- <-]. by apply scan_some in Hs as [_ ?].
      + rewrite leak_metadata_spec. intros [= <- <- <-]. apply to_data_new_md.
  Qed.

  Lemma arena_push_heap a d : heap (arena_push a d) = heap a ++ [new_md a d].
  Proof. reflexivity. Qed.

  (** ** sequences of allocations *)
  Lemma alloc_seq_spec ds : forall a, arena_inv a ->
    exists a' res,
      alloc_seq hash a ds = Some (a', res)
      /\ arena_inv a'
      /\ res.*2 = new_flags (to_data <$> heap a) ds
      /\ to_data <$> res.*1 = ds
      /\ (forall m, m ∈ res.*1 -> m ∈ heap a')
      /\ (exists k, heap a' = heap a ++ k)
      /\ to_data <$> heap a' = fold_left seen_add ds (to_data <$> heap a).
  Proof.
    induction ds as [|d ds IH]; intros a I; cbn [alloc_seq new_flags fold_left].
    - exists a, []. split_and!; try done.
      + intros m H. by apply elem_of_nil in H.
      + exists []. by rewrite app_nil_r.
    - destruct (alloc_metadata_spec a d I) as (a1 & m & E & I1 & Hc & Hm & Hs & Hcase). cbn in *.
      rewrite E. destruct (IH a1 I1) as (a2 & res & E2 & I2 & Hf & Hd & Hin & (k & Hk) & Hs2).
      rewrite E2. exists a2, ((m, seen_new (to_data <$> heap a) d) :: res).
      split_and!; try done.
      + cbn. by rewrite Hf, Hs.
      + cbn. by rewrite Hc, Hd.
      + intros x [->|Hx]%elem_of_cons; [|by apply Hin].
        rewrite Hk. apply elem_of_app. by left.
      + destruct (seen_new (to_data <$> heap a) d).
        * destruct Hcase as [-> ->]. rewrite Hk, arena_push_heap, <- app_assoc. eauto.
        * subst a1. eauto.
      + by rewrite Hs2, Hs.
  Qed.

  (** ** receiver level *)

  Lemma announce_spec r a id d : arena_inv a ->
    let seen := to_data <$> heap a in
    exists a' m,
      announce hash r a id d = Some (<[id := m]> r, a', m, seen_new seen d)
      /\ arena_inv a' /\ to_data m = d /\ m ∈ heap a'
      /\ to_data <$> heap a' = seen_add seen d
      /\ heap a' = heap a ++ (if seen_new seen d then [m] else [])
      /\ (seen_new seen d = false -> a' = a).
  Proof.
    intros I seen. destruct (alloc_metadata_spec a d I) as (a' & m & E & I' & Hc & Hm & Hs & Hcase).
    cbn in *. fold seen in E, Hs, Hcase. exists a', m. unfold announce. rewrite E.
    split_and!; try done.
    - destruct (seen_new seen d); [destruct Hcase as [-> ->]; apply arena_push_heap|].
      subst a'. by rewrite app_nil_r.
    - intros F. by rewrite F in Hcase.
  Qed.

  Lemma persist_meta_insert r id m : persist_meta (<[id := m]> r) = <[id := to_data m]> (persist_meta r).
  Proof. unfold persist_meta. apply fmap_insert. Qed.

  Lemma persist_meta_empty : persist_meta ∅ = ∅.
  Proof. unfold persist_meta. apply fmap_empty. Qed.

  Lemma restore_entries_spec entries : forall r a regs,
    arena_inv a -> (forall id m, r !! id = Some m -> m ∈ heap a) ->
    exists r' a' news,
      restore_entries hash r a regs entries = Some (r', a', regs ++ news)
      /\ arena_inv a'
      /\ heap a' = heap a ++ news
      /\ (forall id m, r' !! id = Some m -> m ∈ heap a')
      /\ persist_meta r' = insert_all entries (persist_meta r)
      /\ to_data <$> heap a' = fold_left seen_add entries.*2 (to_data <$> heap a).
  Proof.
    induction entries as [|[id d] rest IH]; intros r a regs I Hr; cbn [restore_entries].
    - exists r, a, []. rewrite !app_nil_r. split_and!; done.
    - destruct (announce_spec r a id d I) as (a1 & m & E & I1 & Hc & Hm & Hs & Hh & _). cbn in *.
      rewrite E.
      assert (forall id0 m0, <[id := m]> r !! id0 = Some m0 -> m0 ∈ heap a1) as Hr1.
      { intros id0 m0. destruct (decide (id0 = id)) as [->|Hne].
        - rewrite lookup_insert. by intros [= <-].
        - rewrite lookup_insert_ne by done. intros H. rewrite Hh. apply elem_of_app. left. eauto. }
      destruct (IH (<[id := m]> r) a1
                  (if seen_new (to_data <$> heap a) d then regs ++ [m] else regs) I1 Hr1)
        as (r' & a' & news & E' & I' & Hh' & Hr' & Hp & Hs').
      rewrite E'.
      exists r', a', ((if seen_new (to_data <$> heap a) d then [m] else []) ++ news).
      split_and!; try done.
      + f_equal. f_equal. destruct (seen_new (to_data <$> heap a) d); cbn.
        * by rewrite <- app_assoc.
        * done.
      + by rewrite Hh', Hh, <- app_assoc.
      + rewrite Hp, persist_meta_insert, Hc. reflexivity.
      + by rewrite Hs', Hs.
  Qed.

  Lemma insert_all_list_to_map (l : list (N * cs_data)) : NoDup l.*1 ->
    forall acc, insert_all l acc = list_to_map l ∪ acc.
  Proof.
    unfold insert_all. induction l as [|[k v] l IH]; intros Hnd acc; cbn [fold_left list_to_map].
    - cbn. by rewrite (left_id_L ∅ (∪)).
    - cbn in Hnd. apply NoDup_cons in Hnd as [Hk Hnd]. rewrite IH by done. cbn [fst snd].
      rewrite list_to_map_cons, <- insert_union_l. symmetry. apply insert_union_r.
      by apply not_elem_of_list_to_map_1.
  Qed.
  Lemma insert_all_map_to_list (m : gmap N cs_data) : insert_all (map_to_list m) ∅ = m.
  Proof.
    rewrite insert_all_list_to_map by apply NoDup_fst_map_to_list.
    rewrite (right_id_L ∅ (∪)). apply list_to_map_to_list.
  Qed.

  (** ** several receivers *)

  Definition world_inv (w : aworld) : Prop :=
    arena_inv (aw_arena w)
    /\ forall r rm id m, aw_recvs w !! r = Some rm -> rm !! id = Some m -> m ∈ heap (aw_arena w).

  (** the receivers hold the latest description of every id (state of the reference specification) *)
  Definition world_rel (w : aworld) (sp : spec_state) : Prop :=
    forall r, persist_meta (recv_of w r) = spec_recv sp r.

  Lemma world_inv_recv w r id m : world_inv w -> recv_of w r !! id = Some m -> m ∈ heap (aw_arena w).
  Proof.
    intros [_ H]. unfold recv_of. destruct (aw_recvs w !! r) as [rm|] eqn:E; cbn.
    - by apply (H r).
    - by rewrite lookup_empty.
  Qed.

  Lemma world_inv_init : world_inv aw_init.
  Proof. split; [apply arena_inv_empty|]. intros r rm id m H. cbn in H. by rewrite lookup_empty in H. Qed.
  Lemma world_rel_init : world_rel aw_init ∅.
  Proof.
    intros r. unfold recv_of, spec_recv, persist_meta. cbn. rewrite !lookup_empty. cbn.
    apply fmap_empty.
  Qed.

  Lemma recv_of_insert a rs r rm r' :
    recv_of (mk_aw a (<[r := rm]> rs)) r' = if decide (r' = r) then rm else default ∅ (rs !! r').
  Proof.
    unfold recv_of. cbn. destruct (decide (r' = r)) as [->|Hne].
    - by rewrite lookup_insert.
    - by rewrite lookup_insert_ne.
  Qed.
  Lemma spec_recv_insert sp r m r' :
    spec_recv (<[r := m]> sp) r' = if decide (r' = r) then m else spec_recv sp r'.
  Proof.
    unfold spec_recv. destruct (decide (r' = r)) as [->|Hne].
    - by rewrite lookup_insert.
    - by rewrite lookup_insert_ne.
  Qed.

  (** a step that replaces receiver [r] by [rm] over an arena that only grew *)
  Lemma world_update w r rm a' k :
    world_inv w -> arena_inv a' -> heap a' = heap (aw_arena w) ++ k ->
    (forall id m, rm !! id = Some m -> m ∈ heap a') ->
    world_inv (mk_aw a' (<[r := rm]> (aw_recvs w))).
  Proof.
    intros [I H] I' Hh Hrm. split; [done|]. cbn. intros r0 rm0 id m.
    destruct (decide (r0 = r)) as [->|Hne].
    - rewrite lookup_insert. intros [= <-]. apply Hrm.
    - rewrite lookup_insert_ne by done. intros H1 H2. rewrite Hh. apply elem_of_app. left. eauto.
  Qed.

  Lemma world_step_spec w sp s : world_inv w -> world_rel w sp ->
    exists w' o,
      world_step hash w s = Some (w', o)
      /\ world_inv w' /\ world_rel w' (spec_step sp s)
      /\ heap (aw_arena w') = heap (aw_arena w) ++ ao_regs o
      /\ to_data <$> heap (aw_arena w')
         = fold_left seen_add (step_descs s) (to_data <$> heap (aw_arena w))
      /\ o = mk_obs w' (step_recv s) (ao_regs o) (ao_seen o)
      /\ ao_seen o = match s with
                     | AUse r id => opt_list (recv_of w r !! id)
                     | _ => []
                     end.
  Proof.
    intros WI WR. pose proof WI as [I Hrecv]. destruct s as [r id d|dst src|dst es|r id|r]; cbn [world_step].
    - (* announce *)
      destruct (announce_spec (recv_of w r) (aw_arena w) id d I)
        as (a' & m & E & I' & Hc & Hm & Hs & Hh & _). cbn in *. rewrite E.
      eexists _, _. split; [reflexivity|]. split_and!.
      + eapply world_update; try done. intros id0 m0.
        destruct (decide (id0 = id)) as [->|Hne].
        * rewrite lookup_insert. by intros [= <-].
        * rewrite lookup_insert_ne by done. intros H. rewrite Hh. apply elem_of_app. left.
          by apply (world_inv_recv w r id0).
      + intros r'. cbn [spec_step]. rewrite recv_of_insert, spec_recv_insert.
        destruct (decide (r' = r)) as [->|Hne].
        * rewrite persist_meta_insert, Hc. f_equal. apply WR.
        * apply WR.
      + cbn. by destruct (seen_new _ d).
      + done.
      + reflexivity.
      + reflexivity.
    - (* restore from another receiver *)
      unfold restore.
      destruct (restore_entries_spec (map_to_list (persist_meta (recv_of w src))) ∅ (aw_arena w) [] I)
        as (rm & a' & news & E & I' & Hh & Hrm & Hp & Hs).
      { intros id m H. by rewrite lookup_empty in H. }
      rewrite E. cbn [app]. eexists _, _. split; [reflexivity|].
      assert (persist_meta rm = persist_meta (recv_of w src)) as Hp'.
      { rewrite Hp, persist_meta_empty. apply insert_all_map_to_list. }
      split_and!.
      + eapply world_update; done.
      + intros r'. cbn [spec_step]. rewrite recv_of_insert, spec_recv_insert.
        destruct (decide (r' = dst)) as [->|Hne]; [|apply WR]. rewrite Hp'. apply WR.
      + done.
      + cbn [step_descs fold_left aw_arena]. rewrite Hs. apply fold_seen_add_known.
        intros d (kv & -> & Hkv)%elem_of_list_fmap. destruct kv as [id d].
        apply elem_of_map_to_list in Hkv. unfold persist_meta in Hkv.
        apply lookup_fmap_Some in Hkv as (m & <- & Hm). cbn [snd]. apply elem_of_list_fmap_1.
        by apply (world_inv_recv w src id).
      + reflexivity.
      + reflexivity.
    - (* restore from data *)
      unfold restore.
      destruct (restore_entries_spec es ∅ (aw_arena w) [] I) as (rm & a' & news & E & I' & Hh & Hrm & Hp & Hs).
      { intros id m H. by rewrite lookup_empty in H. }
      rewrite E. cbn [app]. eexists _, _. split; [reflexivity|]. split_and!.
      + eapply world_update; done.
      + intros r'. cbn [spec_step]. rewrite recv_of_insert, spec_recv_insert.
        destruct (decide (r' = dst)) as [->|Hne]; [|apply WR].
        by rewrite Hp, persist_meta_empty.
      + done.
      + done.
      + reflexivity.
      + reflexivity.
    - eexists _, _. split; [reflexivity|]. cbn. rewrite app_nil_r. split_and!; done.
    - eexists _, _. split; [reflexivity|]. cbn. rewrite app_nil_r. split_and!; done.
  Qed.

  Lemma history_descs_cons s steps : history_descs (s :: steps) = step_descs s ++ history_descs steps.
  Proof. reflexivity. Qed.

  Lemma world_run_spec steps : forall w sp, world_inv w -> world_rel w sp ->
    exists w' obs,
      world_run hash w steps = Some (w', obs)
      /\ world_inv w' /\ world_rel w' (fold_left spec_step steps sp)
      /\ heap (aw_arena w') = heap (aw_arena w) ++ List.concat (map ao_regs obs)
      /\ to_data <$> heap (aw_arena w')
         = fold_left seen_add (history_descs steps) (to_data <$> heap (aw_arena w))
      /\ List.length obs = List.length steps.
  Proof.
    induction steps as [|s steps IH]; intros w sp WI WR; cbn [world_run fold_left].
    - exists w, []. cbn. rewrite app_nil_r. split_and!; done.
    - destruct (world_step_spec w sp s WI WR) as (w1 & o & E & WI1 & WR1 & Hh & Hs & _). rewrite E.
      destruct (IH w1 _ WI1 WR1) as (w2 & obs & E2 & WI2 & WR2 & Hh2 & Hs2 & Hl). rewrite E2.
      exists w2, (o :: obs). split_and!; try done.
      + cbn [map List.concat]. by rewrite Hh2, Hh, <- app_assoc.
      + rewrite history_descs_cons, fold_left_app, Hs2, Hs. done.
      + cbn. by rewrite Hl.
  Qed.
End hash.

(** * Statements from the empty arena, for every hash function *)

Lemma lookup_earlier {A} (l : list A) i j x : l !! i = Some x -> (i < j)%nat -> x ∈ take j l.
Proof. intros H Hlt. apply elem_of_list_lookup. exists i. by rewrite lookup_take. Qed.

Section final.
  Variable hash : cs_data -> N.

  Lemma alloc_seq_empty ds :
    exists a res,
      alloc_seq hash arena_empty ds = Some (a, res)
      /\ arena_inv hash a
      /\ res.*2 = new_flags [] ds
      /\ to_data <$> res.*1 = ds
      /\ (forall m, m ∈ res.*1 -> m ∈ heap a)
      /\ to_data <$> heap a = distinct_descs ds.
  Proof.
    destruct (alloc_seq_spec hash ds arena_empty (arena_inv_empty hash))
      as (a & res & E & I & Hf & Hd & Hin & _ & Hs).
    exists a, res. split_and!; done.
  Qed.

  (** no allocation sequence panics *)
  Lemma alloc_total ds : exists a res, alloc_seq hash arena_empty ds = Some (a, res).
  Proof. destruct (alloc_seq_empty ds) as (a & res & E & _). eauto. Qed.

  Lemma alloc_seq_result ds a res i m b d :
    alloc_seq hash arena_empty ds = Some (a, res) ->
    res !! i = Some (m, b) -> ds !! i = Some d ->
    to_data m = d /\ m ∈ heap a /\ new_flags [] ds !! i = Some b.
  Proof.
    intros E Hr Hd. destruct (alloc_seq_empty ds) as (a0 & res0 & E0 & I & Hf & Hc & Hin & _).
    rewrite E in E0. injection E0 as <- <-.
    assert (res.*1 !! i = Some m) as H1 by (rewrite list_lookup_fmap, Hr; done).
    assert (res.*2 !! i = Some b) as H2 by (rewrite list_lookup_fmap, Hr; done).
    split_and!.
    - assert ((to_data <$> res.*1) !! i = Some (to_data m)) as H3 by (rewrite list_lookup_fmap, H1; done).
      rewrite Hc, Hd in H3. congruence.
    - apply Hin. by eapply elem_of_list_lookup_2.
    - by rewrite <- Hf.
  Qed.

  Lemma alloc_seq_length ds a res :
    alloc_seq hash arena_empty ds = Some (a, res) -> List.length res = List.length ds.
  Proof.
    intros E. destruct (alloc_seq_empty ds) as (a0 & res0 & E0 & _ & Hf & _).
    rewrite E in E0. injection E0 as <- <-.
    rewrite <- (fmap_length snd res), Hf. apply new_flags_length.
  Qed.

  Lemma alloc_content ds a res d a' m b :
    alloc_seq hash arena_empty ds = Some (a, res) ->
    alloc_metadata hash a d = Some (a', m, b) ->
    to_data m = d /\ deref a' (m_ptr m) = Some m.
  Proof.
    intros E Ha. destruct (alloc_seq_empty ds) as (a0 & res0 & E0 & I & _).
    rewrite E in E0. injection E0 as <- <-.
    destruct (alloc_metadata_spec hash a d I) as (a1 & m1 & E1 & I1 & Hc & Hm & _).
    rewrite Ha in E1. injection E1 as <- <- _. split; [done|]. by apply (deref_heap hash).
  Qed.

  Lemma alloc_identity ds a res i j mi bi mj bj di dj :
    alloc_seq hash arena_empty ds = Some (a, res) ->
    res !! i = Some (mi, bi) -> res !! j = Some (mj, bj) ->
    ds !! i = Some di -> ds !! j = Some dj ->
    (m_ptr mi = m_ptr mj <-> di = dj) /\ (m_ptr mi = m_ptr mj -> mi = mj).
  Proof.
    intros E Hi Hj Hdi Hdj.
    destruct (alloc_seq_result ds a res i mi bi di E Hi Hdi) as (<- & Hmi & _).
    destruct (alloc_seq_result ds a res j mj bj dj E Hj Hdj) as (<- & Hmj & _).
    destruct (alloc_seq_empty ds) as (a0 & res0 & E0 & I & _).
    rewrite E in E0. injection E0 as <- <-.
    by apply (heap_identity hash a).
  Qed.

  Lemma alloc_new_once ds a res :
    alloc_seq hash arena_empty ds = Some (a, res) ->
    (forall i m b d, res !! i = Some (m, b) -> ds !! i = Some d -> (b = true <-> d ∉ take i ds))
    /\ (forall i j mi mj d, ds !! i = Some d -> ds !! j = Some d ->
          res !! i = Some (mi, true) -> res !! j = Some (mj, true) -> i = j)
    /\ to_data <$> heap a = distinct_descs ds
    /\ List.length (heap a) = List.length (distinct_descs ds)
    /\ count_true res.*2 = List.length (distinct_descs ds).
  Proof.
    intros E.
    assert (forall i m b d, res !! i = Some (m, b) -> ds !! i = Some d -> (b = true <-> d ∉ take i ds)) as H1.
    { intros i m b d Hr Hd. destruct (alloc_seq_result ds a res i m b d E Hr Hd) as (_ & _ & Hf).
      apply new_flags_lookup in Hf as (d' & Hd' & Hb). rewrite Hd in Hd'. injection Hd' as <-.
      rewrite Hb, elem_of_nil. tauto. }
    destruct (alloc_seq_empty ds) as (a0 & res0 & E0 & I & Hf & _ & _ & Hs).
    rewrite E in E0. injection E0 as <- <-.
    split_and!; try done.
    - intros i j mi mj d Hdi Hdj Hi Hj.
      pose proof (proj1 (H1 i mi true d Hi Hdi) eq_refl) as Ni.
      pose proof (proj1 (H1 j mj true d Hj Hdj) eq_refl) as Nj.
      destruct (lt_eq_lt_dec i j) as [[Hlt|Heq]|Hlt]; [|done|].
      + exfalso. apply Nj. exact (lookup_earlier ds i j d Hdi Hlt).
      + exfalso. apply Ni. exact (lookup_earlier ds j i d Hdj Hlt).
    - by rewrite <- Hs, fmap_length.
    - rewrite Hf. unfold distinct_descs. rewrite fold_seen_add_length. cbn. lia.
  Qed.

  Lemma strings_bounded ds a res :
    alloc_seq hash arena_empty ds = Some (a, res) ->
    strings a = distinct_strs [] (strs_of_all (distinct_descs ds))
    /\ NoDup (strings a)
    /\ (forall s, s ∈ strings a <-> exists d, d ∈ ds /\ s ∈ strs_of d)
    /\ (List.length (strings a) <= List.length (strs_of_all (distinct_descs ds)))%nat.
  Proof.
    intros E. destruct (alloc_seq_empty ds) as (a0 & res0 & E0 & I & _ & _ & _ & Hs).
    rewrite E in E0. injection E0 as <- <-.
    pose proof (inv_strings hash a I) as S. rewrite Hs in S. rewrite S.
    split_and!; try done.
    - apply NoDup_distinct_strs, NoDup_nil_2.
    - intros s. rewrite elem_of_distinct_strs, elem_of_nil, elem_of_strs_of_all.
      setoid_rewrite elem_of_distinct_descs. tauto.
    - pose proof (distinct_strs_length (strs_of_all (distinct_descs ds)) []) as L. cbn in L. lia.
  Qed.

  (** the abstraction used by [Tunnel/Receiver.v]: [w_arena] = the content of the heap *)
  Lemma arena_refines_seen_list ds a res d :
    alloc_seq hash arena_empty ds = Some (a, res) ->
    let seen := to_data <$> heap a in
    seen = distinct_descs ds
    /\ exists a' m,
         alloc_metadata hash a d = Some (a', m, negb (existsb (cs_data_eqb d) seen))
         /\ to_data <$> heap a' = (if negb (existsb (cs_data_eqb d) seen) then seen ++ [d] else seen)
         /\ alloc_seq hash arena_empty (ds ++ [d])
            = Some (a', res ++ [(m, negb (existsb (cs_data_eqb d) seen))]).
  Proof.
    intros E seen. destruct (alloc_seq_empty ds) as (a0 & res0 & E0 & I & _ & _ & _ & Hs).
    rewrite E in E0. injection E0 as <- <-. split; [done|].
    destruct (alloc_metadata_spec hash a d I) as (a' & m & Ea & _ & _ & _ & Hs' & _). cbn in Ea, Hs'.
    exists a', m. split_and!; try done.
    clear -E Ea. fold seen in Ea. change (negb (existsb (cs_data_eqb d) seen)) with (seen_new seen d).
    revert E. generalize arena_empty as a0. revert res.
    induction ds as [|d0 ds IH]; intros res a0 E; cbn [alloc_seq app] in *.
    - injection E as <- <-. by rewrite Ea.
    - destruct (alloc_metadata hash a0 d0) as [[[a1 m1] b1]|]; [|done].
      destruct (alloc_seq hash a1 ds) as [[a2 res2]|] eqn:E2; [|done].
      injection E as <- <-. by rewrite (IH _ _ E2).
  Qed.

  Lemma single_attribute_difference ds a res i j mi bi mj bj di dj :
    alloc_seq hash arena_empty ds = Some (a, res) ->
    res !! i = Some (mi, bi) -> res !! j = Some (mj, bj) ->
    ds !! i = Some di -> ds !! j = Some dj ->
    (cs_kind di <> cs_kind dj \/ cs_name di <> cs_name dj \/ cs_target di <> cs_target dj
     \/ cs_level di <> cs_level dj \/ cs_module di <> cs_module dj \/ cs_file di <> cs_file dj
     \/ cs_line di <> cs_line dj \/ cs_fields di <> cs_fields dj) ->
    m_ptr mi <> m_ptr mj /\ mi <> mj.
  Proof.
    intros E Hi Hj Hdi Hdj Hdiff.
    destruct (alloc_identity ds a res i j mi bi mj bj di dj E Hi Hj Hdi Hdj) as [Hid _].
    assert (di <> dj) as Hne by (intros ->; tauto).
    split; [intros P; by apply Hne, Hid|]. intros ->. apply Hne, Hid. done.
  Qed.

  (** ** receivers *)

  Lemma world_run_empty steps :
    exists w obs,
      world_run hash aw_init steps = Some (w, obs)
      /\ world_inv hash w /\ world_rel w (spec_run steps)
      /\ heap (aw_arena w) = List.concat (map ao_regs obs)
      /\ to_data <$> heap (aw_arena w) = distinct_descs (history_descs steps)
      /\ List.length obs = List.length steps.
  Proof.
    destruct (world_run_spec hash steps aw_init ∅ (world_inv_init hash) world_rel_init)
      as (w & obs & E & WI & WR & Hh & Hs & Hl).
    exists w, obs. split_and!; done.
  Qed.

  (** no history panics *)
  Lemma world_total steps : exists w obs, world_run hash aw_init steps = Some (w, obs).
  Proof. destruct (world_run_empty steps) as (w & obs & E & _). eauto. Qed.

  Lemma persist_metadata_content steps w obs r :
    world_run hash aw_init steps = Some (w, obs) ->
    persist_meta (recv_of w r) = spec_recv (spec_run steps) r.
  Proof.
    intros E. destruct (world_run_empty steps) as (w0 & obs0 & E0 & _ & WR & _).
    rewrite E in E0. injection E0 as <- <-. apply WR.
  Qed.

  Lemma world_identity steps w obs r1 id1 m1 r2 id2 m2 :
    world_run hash aw_init steps = Some (w, obs) ->
    recv_of w r1 !! id1 = Some m1 -> recv_of w r2 !! id2 = Some m2 ->
    (m_ptr m1 = m_ptr m2 <-> to_data m1 = to_data m2)
    /\ (m_ptr m1 = m_ptr m2 -> m1 = m2)
    /\ spec_recv (spec_run steps) r1 !! id1 = Some (to_data m1)
    /\ deref (aw_arena w) (m_ptr m1) = Some m1.
  Proof.
    intros E H1 H2. destruct (world_run_empty steps) as (w0 & obs0 & E0 & WI & WR & _).
    rewrite E in E0. injection E0 as <- <-.
    pose proof (world_inv_recv hash w r1 id1 m1 WI H1) as Hm1.
    pose proof (world_inv_recv hash w r2 id2 m2 WI H2) as Hm2.
    destruct WI as [I _]. destruct (heap_identity hash _ m1 m2 I Hm1 Hm2) as [Ha Hb].
    split_and!; try done.
    - rewrite <- (WR r1). unfold persist_meta. by rewrite lookup_fmap, H1.
    - by apply (deref_heap hash).
  Qed.

  Lemma world_memory_bound steps w obs :
    world_run hash aw_init steps = Some (w, obs) ->
    to_data <$> heap (aw_arena w) = distinct_descs (history_descs steps)
    /\ List.length (heap (aw_arena w)) = List.length (distinct_descs (history_descs steps))
    /\ List.concat (map ao_regs obs) = heap (aw_arena w)
    /\ strings (aw_arena w) = distinct_strs [] (strs_of_all (distinct_descs (history_descs steps))).
  Proof.
    intros E. destruct (world_run_empty steps) as (w0 & obs0 & E0 & [I _] & _ & Hh & Hs & _).
    rewrite E in E0. injection E0 as <- <-. split_and!; try done.
    - by rewrite <- Hs, fmap_length.
    - by rewrite (inv_strings hash _ I), Hs.
  Qed.

  Lemma host_sees_latest steps w obs r id :
    world_run hash aw_init steps = Some (w, obs) ->
    exists o, world_step hash w (AUse r id) = Some (w, o)
              /\ ao_seen o = opt_list (recv_of w r !! id)
              /\ to_data <$> ao_seen o = opt_list (spec_recv (spec_run steps) r !! id).
  Proof.
    intros E. eexists. split; [reflexivity|]. cbn. split.
    - by destruct (recv_of w r !! id).
    - rewrite <- (persist_metadata_content steps w obs r E). unfold persist_meta.
      rewrite lookup_fmap. by destruct (recv_of w r !! id).
  Qed.
End final.

(** the reference specification says "latest": an announcement sets the entry, other receivers and
    ids are untouched, a restored receiver starts from exactly the restored entries *)
Lemma spec_run_snoc steps s : spec_run (steps ++ [s]) = spec_step (spec_run steps) s.
Proof. unfold spec_run. by rewrite fold_left_app. Qed.
Lemma spec_announce_latest steps r id d r' id' :
  spec_recv (spec_run (steps ++ [AAnnounce r id d])) r' !! id'
  = if decide (r' = r /\ id' = id) then Some d else spec_recv (spec_run steps) r' !! id'.
Proof.
  rewrite spec_run_snoc. cbn [spec_step]. rewrite spec_recv_insert.
  destruct (decide (r' = r)) as [->|Hr].
  - destruct (decide (id' = id)) as [->|Hi].
    + rewrite lookup_insert. by rewrite decide_True.
    + rewrite lookup_insert_ne by done. by rewrite decide_False by tauto.
  - by rewrite decide_False by tauto.
Qed.
Lemma spec_restore_data steps dst es r' :
  spec_recv (spec_run (steps ++ [ARestoreData dst es])) r'
  = if decide (r' = dst) then insert_all es ∅ else spec_recv (spec_run steps) r'.
Proof. rewrite spec_run_snoc. cbn [spec_step]. apply spec_recv_insert. Qed.
Lemma spec_restore_from steps dst src r' :
  spec_recv (spec_run (steps ++ [ARestoreFrom dst src])) r'
  = if decide (r' = dst) then spec_recv (spec_run steps) src else spec_recv (spec_run steps) r'.
Proof. rewrite spec_run_snoc. cbn [spec_step]. apply spec_recv_insert. Qed.
