(** Proofs about the model of [TracingEvent::normalize] (property C20). *)
From TT Require Import Tunnel.Types Tunnel.TypesProofs Tunnel.Normalize.

Local Arguments N.add : simpl never.
Local Arguments N.of_nat : simpl never.

(** * Generic helpers *)

Lemma existsb_in x s : existsb (N.eqb x) s = true <-> In x s.
Proof.
  rewrite existsb_exists. split.
  - intros (y & Hy & E). apply N.eqb_eq in E. subst y. exact Hy.
  - intros H. exists x. split; [exact H | apply N.eqb_refl].
Qed.

Lemma NoDup_snoc {A} (l : list A) x : NoDup l -> ~ In x l -> NoDup (l ++ [x]).
Proof.
  induction l as [|a l IH]; cbn; intros ND NI.
  - constructor; [intros [] | constructor].
  - inversion ND as [|? ? Ha ND']; subst. constructor.
    + rewrite in_app_iff. cbn. intros [H|[H|[]]]; [exact (Ha H) | apply NI; left; symmetry; exact H].
    + apply IH; [exact ND' | intros H; apply NI; right; exact H].
Qed.

Lemma forall2b_Forall2 {A B} (f : A -> B -> bool) (R : A -> B -> Prop) :
  (forall a b, f a b = true <-> R a b) ->
  forall x y, forall2b f x y = true <-> Forall2 R x y.
Proof.
  intros HR x. induction x as [|a x IH]; intros [|b y]; cbn [forall2b].
  - split; [constructor | reflexivity].
  - split; [discriminate | intros H; inversion H].
  - split; [discriminate | intros H; inversion H].
  - rewrite andb_true_iff, HR, IH. split.
    + intros [H1 H2]. constructor; assumption.
    + intros H. inversion H; subst. split; assumption.
Qed.

Lemma inj_on_incl f l l' : inj_on f l -> incl l' l -> inj_on f l'.
Proof. intros H I a b Ha Hb. apply H; apply I; assumption. Qed.

(** * [bij] and its boolean form *)

Lemma consistent_b_spec P : consistent_b P = true <-> bij P.
Proof.
  unfold consistent_b, bij. rewrite forallb_forall. split.
  - intros H p q Hp Hq. specialize (H p Hp). rewrite forallb_forall in H. specialize (H q Hq).
    apply Bool.eqb_prop in H.
    destruct (N.eqb_spec (fst p) (fst q)) as [E1|E1], (N.eqb_spec (snd p) (snd q)) as [E2|E2];
      try discriminate; tauto.
  - intros H p Hp. rewrite forallb_forall. intros q Hq. specialize (H p q Hp Hq).
    destruct (N.eqb_spec (fst p) (fst q)) as [E1|E1], (N.eqb_spec (snd p) (snd q)) as [E2|E2];
      cbn; try reflexivity; tauto.
Qed.

Lemma bij_incl P Q : bij P -> incl Q P -> bij Q.
Proof. intros H I p q Hp Hq. apply H; apply I; assumption. Qed.

Lemma in_combine_map (g : N -> N) (l : list N) p : In p (combine l (map g l)) -> In (fst p) l /\ snd p = g (fst p).
Proof.
  induction l as [|a l IH]; cbn; [intros [] |].
  intros [<-|H]; cbn; [auto |]. apply IH in H. tauto.
Qed.

Lemma bij_combine_map (g : N -> N) (l : list N) : inj_on g l -> bij (combine l (map g l)).
Proof.
  intros Hg p q Hp Hq. apply in_combine_map in Hp as [Hp1 Hp2], Hq as [Hq1 Hq2].
  rewrite Hp2, Hq2. split; [intros ->; reflexivity | apply Hg; assumption].
Qed.

(** * The id mapping *)

Notation keys m := (map fst m).
Notation vals m := (map snd m).

Lemma im_get_insert m k v k' :
  im_get (im_insert m k v) k' = if k =? k' then Some v else im_get m k'.
Proof.
  induction m as [|[a w] r IH]; cbn [im_insert im_get]; [reflexivity |].
  destruct (N.eqb_spec a k) as [->|Hak]; cbn [im_get].
  - destruct (k =? k'); reflexivity.
  - rewrite IH. destruct (N.eqb_spec a k') as [->|Hak']; [| reflexivity].
    destruct (N.eqb_spec k k'); [congruence | reflexivity].
Qed.

Lemma im_insert_absent m k v : im_get m k = None -> im_insert m k v = m ++ [(k, v)].
Proof.
  induction m as [|[a w] r IH]; cbn [im_insert im_get app]; [reflexivity |].
  destruct (a =? k); [discriminate |]. intros H. rewrite IH by exact H. reflexivity.
Qed.

Lemma im_len_snoc m x : im_len (m ++ [x]) = im_len m + 1.
Proof. unfold im_len. rewrite app_length. cbn [List.length]. lia. Qed.

Lemma im_get_In m k v : im_get m k = Some v -> In (k, v) m.
Proof.
  induction m as [|[a w] r IH]; cbn [im_get]; [discriminate |].
  destruct (N.eqb_spec a k) as [->|_].
  - intros [= ->]. left; reflexivity.
  - intros H. right. apply IH, H.
Qed.

Lemma nodup_vals_inj (m : idmap) a b v :
  NoDup (vals m) -> In (a, v) m -> In (b, v) m -> a = b.
Proof.
  induction m as [|[x y] r IH]; cbn [map fst snd]; [intros _ [] |].
  intros ND Ha Hb. inversion ND as [|? ? Hy ND']; subst.
  destruct Ha as [Ha|Ha], Hb as [Hb|Hb].
  - congruence.
  - injection Ha as -> ->. exfalso. apply Hy. apply (in_map snd) in Hb. exact Hb.
  - injection Hb as -> ->. exfalso. apply Hy. apply (in_map snd) in Ha. exact Ha.
  - apply IH; assumption.
Qed.

(** the invariant of the mapping: the values are pairwise distinct and are exactly [0 .. len-1] *)
Definition wf (m : idmap) : Prop :=
  NoDup (vals m) /\ forall v, In v (vals m) <-> v < im_len m.

Lemma wf_nil : wf [].
Proof. split; [constructor |]. intros v. cbn. unfold im_len. cbn. lia. Qed.

Lemma wf_snoc m k : wf m -> wf (m ++ [(k, im_len m)]).
Proof.
  intros [ND Hv]. split.
  - rewrite map_app. cbn [map snd]. apply NoDup_snoc; [exact ND |]. rewrite Hv. lia.
  - intros v. rewrite map_app, in_app_iff, Hv, im_len_snoc. cbn [map snd In]. lia.
Qed.

Lemma wf_get_lt m k v : wf m -> im_get m k = Some v -> v < im_len m.
Proof.
  intros [_ Hv] H. apply Hv. apply im_get_In in H. apply (in_map snd) in H. exact H.
Qed.

Lemma wf_get_inj m a b v : wf m -> im_get m a = Some v -> im_get m b = Some v -> a = b.
Proof.
  intros [ND _] Ha Hb. eapply nodup_vals_inj; [exact ND | apply im_get_In, Ha | apply im_get_In, Hb].
Qed.

Lemma or_insert_cases m k m' k' :
  im_or_insert m k (im_len m) = (m', k') ->
  (im_get m k = Some k' /\ m' = m)
  \/ (im_get m k = None /\ m' = m ++ [(k, im_len m)] /\ k' = im_len m).
Proof.
  unfold im_or_insert. destruct (im_get m k) as [w|] eqn:G; intros [= <- <-].
  - left. auto.
  - right. rewrite im_insert_absent by exact G. auto.
Qed.

Lemma im_get_snoc m k v k' :
  im_get (m ++ [(k, v)]) k' =
  match im_get m k' with Some w => Some w | None => if k =? k' then Some v else None end.
Proof.
  induction m as [|[a w] r IH]; cbn [app im_get]; [reflexivity |].
  destruct (a =? k'); [reflexivity | exact IH].
Qed.

(** what one [entry().or_insert(len)] does to a well-formed mapping *)
Lemma or_insert_wf m k m' k' :
  wf m -> im_or_insert m k (im_len m) = (m', k') ->
  wf m' /\ im_get m' k = Some k'
  /\ (forall a v, im_get m a = Some v -> im_get m' a = Some v).
Proof.
  intros W H. apply or_insert_cases in H as [[G ->] | (G & -> & ->)].
  - auto.
  - split; [apply wf_snoc, W |]. split.
    + rewrite im_get_snoc, G, N.eqb_refl. reflexivity.
    + intros a v Ha. rewrite im_get_snoc, Ha. reflexivity.
Qed.

(** * One step, uniformly over the three id-carrying variants *)

Lemma norm_step_cases m e m' e' :
  norm_step m e = (m', e') ->
  match cs_id_of e with
  | None => m' = m /\ e' = e
  | Some k => exists k', im_or_insert m k (im_len m) = (m', k') /\ e' = rename_event (fun _ => k') e
  end.
Proof.
  destruct e; cbn [norm_step cs_id_of rename_event];
    try (intros [= <- <-]; split; reflexivity);
    match goal with |- context [im_or_insert ?m ?k ?n] => destruct (im_or_insert m k n) as [m1 k1] end;
    intros [= <- <-]; exists k1; split; reflexivity.
Qed.

Lemma rename_event_ext f g e :
  (forall k, cs_id_of e = Some k -> f k = g k) -> rename_event f e = rename_event g e.
Proof. destruct e; cbn; intros H; try reflexivity; rewrite (H _ eq_refl); reflexivity. Qed.

Lemma rename_event_noid f e : cs_id_of e = None -> rename_event f e = e.
Proof. destruct e; cbn; intros H; try reflexivity; discriminate. Qed.

Lemma cs_id_of_rename f e : cs_id_of (rename_event f e) = option_map f (cs_id_of e).
Proof. destruct e; reflexivity. Qed.

Lemma cs_ids_cons e r :
  cs_ids (e :: r) = match cs_id_of e with Some k => k :: cs_ids r | None => cs_ids r end.
Proof. unfold cs_ids. cbn [flat_map]. destruct (cs_id_of e); reflexivity. Qed.

Lemma cs_ids_rename f evs : cs_ids (map (rename_event f) evs) = map f (cs_ids evs).
Proof.
  induction evs as [|e r IH]; [reflexivity |].
  cbn [map]. rewrite !cs_ids_cons, cs_id_of_rename, IH. destruct (cs_id_of e); reflexivity.
Qed.

Lemma cs_id_of_In evs e k : In e evs -> cs_id_of e = Some k -> In k (cs_ids evs).
Proof.
  intros H C. unfold cs_ids. apply in_flat_map. exists e. rewrite C. split; [exact H | left; reflexivity].
Qed.

(** * (A) Normalization is a renaming by the final mapping, which is injective *)

Definition getd (m : idmap) (k : N) : N := match im_get m k with Some v => v | None => 0 end.

Lemma norm_from_spec evs : forall m m' out,
  wf m -> norm_from m evs = (m', out) ->
  wf m'
  /\ (forall a v, im_get m a = Some v -> im_get m' a = Some v)
  /\ (forall a, In a (cs_ids evs) -> exists v, im_get m' a = Some v)
  /\ out = map (rename_event (getd m')) evs.
Proof.
  induction evs as [|e r IH]; intros m m' out W H.
  - injection H as <- <-. split; [exact W |]. split; [auto |]. split; [intros a [] | reflexivity].
  - cbn [norm_from] in H.
    destruct (norm_step m e) as [m1 e'] eqn:S. destruct (norm_from m1 r) as [m2 r'] eqn:R.
    injection H as <- <-. apply norm_step_cases in S. rewrite cs_ids_cons.
    destruct (cs_id_of e) as [k|] eqn:C.
    + destruct S as (k' & OI & ->). destruct (or_insert_wf _ _ _ _ W OI) as (W1 & G1 & M1).
      destruct (IH _ _ _ W1 R) as (W2 & M2 & I2 & ->).
      split; [exact W2 |]. split; [intros a v Ha; apply M2, M1, Ha |]. split.
      * intros a [<-|Ha]; [exists k'; apply M2, G1 | apply I2, Ha].
      * cbn [map]. f_equal. apply rename_event_ext. intros k0 Hk0.
        rewrite C in Hk0. injection Hk0 as <-. unfold getd. rewrite (M2 _ _ G1). reflexivity.
    + destruct S as [-> ->]. destruct (IH _ _ _ W R) as (W2 & M2 & I2 & ->).
      split; [exact W2 |]. split; [exact M2 |]. split; [exact I2 |].
      cbn [map]. rewrite rename_event_noid by exact C. reflexivity.
Qed.

Lemma normalize_renaming evs :
  exists f, inj_on f (cs_ids evs) /\ normalize evs = map (rename_event f) evs.
Proof.
  unfold normalize. destruct (norm_from [] evs) as [m' out] eqn:H.
  destruct (norm_from_spec _ _ _ _ wf_nil H) as (W & _ & I & ->).
  exists (getd m'). split; [| reflexivity].
  intros a b Ha Hb E. apply I in Ha as [va Ga], Hb as [vb Gb].
  unfold getd in E. rewrite Ga, Gb in E. subst vb. eapply wf_get_inj; eassumption.
Qed.

(** ** consequences of (A): consistency, what is untouched, what is erased *)

Lemma nth_error_map_rename f evs i e' :
  nth_error (map (rename_event f) evs) i = Some e' ->
  exists e, nth_error evs i = Some e /\ e' = rename_event f e.
Proof.
  rewrite nth_error_map. destruct (nth_error evs i) as [e|]; cbn; [| discriminate].
  intros [= <-]. exists e. auto.
Qed.

Lemma normalize_consistent evs i j ei ej ei' ej' a b a' b' :
  nth_error evs i = Some ei -> nth_error evs j = Some ej ->
  nth_error (normalize evs) i = Some ei' -> nth_error (normalize evs) j = Some ej' ->
  cs_id_of ei = Some a -> cs_id_of ej = Some b ->
  cs_id_of ei' = Some a' -> cs_id_of ej' = Some b' ->
  (a' = b' <-> a = b).
Proof.
  destruct (normalize_renaming evs) as (f & Hf & ->).
  intros Hi Hj Hi' Hj' Ca Cb Ca' Cb'.
  apply nth_error_map_rename in Hi' as (ei0 & Hi0 & ->), Hj' as (ej0 & Hj0 & ->).
  rewrite Hi in Hi0. injection Hi0 as <-. rewrite Hj in Hj0. injection Hj0 as <-.
  rewrite cs_id_of_rename, Ca in Ca'. rewrite cs_id_of_rename, Cb in Cb'.
  cbn in Ca', Cb'. injection Ca' as <-. injection Cb' as <-.
  split; [| intros ->; reflexivity].
  apply Hf; [eapply cs_id_of_In; [eapply nth_error_In, Hi | exact Ca]
           | eapply cs_id_of_In; [eapply nth_error_In, Hj | exact Cb]].
Qed.

Lemma normalize_length evs : List.length (normalize evs) = List.length evs.
Proof. destruct (normalize_renaming evs) as (f & _ & ->). apply map_length. Qed.

Lemma norm_cs_untouched d : untouched_cs d (norm_cs d).
Proof. unfold untouched_cs. destruct d as [[] ? ? ? ? ? ? ?]; cbn; repeat split; congruence. Qed.

Lemma norm_cs_erased d : erased_cs (norm_cs d).
Proof. unfold erased_cs. destruct d as [[] ? ? ? ? ? ? ?]; cbn; split; congruence. Qed.

Lemma rename_untouched f e : untouched e (rename_event f e).
Proof. destruct e; cbn; auto using norm_cs_untouched. Qed.

Lemma rename_erased f e : erased_ev (rename_event f e).
Proof. destruct e; cbn; auto using norm_cs_erased. Qed.

Lemma normalize_untouched evs : Forall2 untouched evs (normalize evs).
Proof.
  destruct (normalize_renaming evs) as (f & _ & ->).
  induction evs as [|e r IH]; cbn [map]; constructor; [apply rename_untouched | exact IH].
Qed.

Lemma normalize_erased evs : Forall erased_ev (normalize evs).
Proof.
  destruct (normalize_renaming evs) as (f & _ & ->).
  induction evs as [|e r IH]; cbn [map]; constructor; [apply rename_erased | exact IH].
Qed.

Lemma normalize_cs_ids_consistent evs : bij (combine (cs_ids evs) (cs_ids (normalize evs))).
Proof.
  destruct (normalize_renaming evs) as (f & Hf & ->).
  rewrite cs_ids_rename. apply bij_combine_map, Hf.
Qed.

(** * (D) The output ids are numbered canonically *)

Lemma norm_from_canon evs : forall m m' out,
  wf m -> norm_from m evs = (m', out) -> canon_b (im_len m) (cs_ids out) = true.
Proof.
  induction evs as [|e r IH]; intros m m' out W H.
  - injection H as <- <-. reflexivity.
  - cbn [norm_from] in H.
    destruct (norm_step m e) as [m1 e'] eqn:S. destruct (norm_from m1 r) as [m2 r'] eqn:R.
    injection H as <- <-. apply norm_step_cases in S. rewrite cs_ids_cons.
    destruct (cs_id_of e) as [k|] eqn:C.
    + destruct S as (k' & OI & ->). rewrite cs_id_of_rename, C. cbn [option_map canon_b].
      destruct (or_insert_wf _ _ _ _ W OI) as (W1 & _ & _).
      specialize (IH _ _ _ W1 R).
      apply or_insert_cases in OI as [[G ->] | (G & -> & ->)].
      * apply (wf_get_lt _ _ _ W) in G. apply N.ltb_lt in G. rewrite G. exact IH.
      * rewrite N.ltb_irrefl, N.eqb_refl. rewrite im_len_snoc in IH. exact IH.
    + destruct S as [-> ->]. rewrite C. eapply IH; eassumption.
Qed.

Lemma normalize_canon_b evs : canon_b 0 (cs_ids (normalize evs)) = true.
Proof.
  unfold normalize. destruct (norm_from [] evs) as [m' out] eqn:H.
  exact (norm_from_canon _ _ _ _ wf_nil H).
Qed.

(** * (C) Canonically numbered, erased streams are fixed points *)

Definition is_id (m : idmap) : Prop :=
  forall k, im_get m k = if k <? im_len m then Some k else None.

Lemma is_id_nil : is_id [].
Proof. intros k. cbn. destruct (N.ltb_spec k (im_len [])) as [H|H]; [| reflexivity]. unfold im_len in H. cbn in H. lia. Qed.

Lemma is_id_snoc m : is_id m -> is_id (m ++ [(im_len m, im_len m)]).
Proof.
  intros H k. rewrite im_get_snoc, H, im_len_snoc.
  destruct (N.ltb_spec k (im_len m)), (N.ltb_spec k (im_len m + 1)), (N.eqb_spec (im_len m) k);
    try reflexivity; try lia. congruence.
Qed.

Lemma norm_cs_fix d : erased_cs d -> norm_cs d = d.
Proof.
  unfold erased_cs. destruct d as [[] ? ? ? ? ? ? ?]; cbn; intros [-> H]; [reflexivity |].
  rewrite H by reflexivity. reflexivity.
Qed.

Lemma rename_event_fix e k : cs_id_of e = Some k -> erased_ev e -> rename_event (fun _ => k) e = e.
Proof.
  destruct e; cbn; intros [= <-] H; try reflexivity. rewrite norm_cs_fix by exact H. reflexivity.
Qed.

Lemma norm_from_fix l : forall m,
  is_id m -> canon_b (im_len m) (cs_ids l) = true -> Forall erased_ev l ->
  snd (norm_from m l) = l.
Proof.
  induction l as [|e r IH]; intros m I Cn Er; [reflexivity |].
  inversion Er as [|? ? Ee Er']; subst.
  cbn [norm_from]. destruct (norm_step m e) as [m1 e'] eqn:S.
  specialize (IH m1). destruct (norm_from m1 r) as [m2 r'] eqn:R. cbn [snd] in *.
  apply norm_step_cases in S. rewrite cs_ids_cons in Cn.
  destruct (cs_id_of e) as [k|] eqn:C.
  - destruct S as (k' & OI & ->). cbn [canon_b] in Cn.
    apply or_insert_cases in OI as [[G ->] | (G & -> & ->)]; rewrite I in G.
    + destruct (k <? im_len m) eqn:L; [| discriminate]. injection G as <-.
      rewrite rename_event_fix by assumption. f_equal. apply IH; assumption.
    + destruct (k <? im_len m) eqn:L; [discriminate |].
      apply andb_true_iff in Cn as [Ek Cn]. apply N.eqb_eq in Ek. subst k.
      rewrite rename_event_fix by assumption. f_equal.
      apply IH; [apply is_id_snoc, I | rewrite im_len_snoc; exact Cn | exact Er'].
  - destruct S as [-> ->]. f_equal. apply IH; assumption.
Qed.

Lemma normalize_fix l :
  canon_b 0 (cs_ids l) = true -> Forall erased_ev l -> normalize l = l.
Proof. intros. apply norm_from_fix; [apply is_id_nil | assumption | assumption]. Qed.

(** * (E) Idempotence *)
Lemma normalize_idempotent evs : normalize (normalize evs) = normalize evs.
Proof. apply normalize_fix; [apply normalize_canon_b | apply normalize_erased]. Qed.

(** * (F) Streams that differ only in ids (one-to-one), lines and event call-site names
    normalize to the same stream *)

Definition vrel (m1 m2 : idmap) : Prop := Forall2 (fun a b => snd a = snd b) m1 m2.

Lemma vrel_len m1 m2 : vrel m1 m2 -> im_len m1 = im_len m2.
Proof.
  intros H. unfold im_len. f_equal.
  induction H as [|? ? ? ? _ _ IH]; cbn [List.length]; [reflexivity | rewrite IH; reflexivity].
Qed.

Lemma im_get_rel P m1 m2 k1 k2 :
  bij P -> vrel m1 m2 -> incl (combine (keys m1) (keys m2)) P -> In (k1, k2) P ->
  im_get m1 k1 = im_get m2 k2.
Proof.
  intros B V. induction V as [|[x1 v1] [x2 v2] r1 r2 Hv V IH]; intros I K; [reflexivity |].
  cbn [map fst combine] in I. cbn [snd] in Hv. subst v2. cbn [im_get].
  assert (Hx : In (x1, x2) P) by (apply I; left; reflexivity).
  pose proof (B _ _ Hx K) as E. cbn [fst snd] in E.
  destruct (N.eqb_spec x1 k1) as [E1|E1], (N.eqb_spec x2 k2) as [E2|E2]; try tauto.
  apply IH; [| exact K]. intros p Hp. apply I. right. exact Hp.
Qed.

Lemma vrel_snoc P m1 m2 k1 k2 v :
  vrel m1 m2 -> incl (combine (keys m1) (keys m2)) P -> In (k1, k2) P ->
  vrel (m1 ++ [(k1, v)]) (m2 ++ [(k2, v)])
  /\ incl (combine (keys (m1 ++ [(k1, v)])) (keys (m2 ++ [(k2, v)]))) P.
Proof.
  intros V. induction V as [|[x1 v1] [x2 v2] r1 r2 Hv V IH]; intros I K.
  - split; [repeat constructor |]. cbn. intros p [<-|[]]. exact K.
  - cbn [map fst combine app] in *.
    destruct IH as [V' I']; [intros p Hp; apply I; right; exact Hp | exact K |].
    split; [constructor; assumption |].
    intros p [<-|Hp]; [apply I; left; reflexivity | apply I', Hp].
Qed.

Lemma erase_eq_cases e1 e2 :
  erase_event e1 = erase_event e2 ->
  (cs_id_of e1 = None /\ cs_id_of e2 = None /\ e1 = e2)
  \/ (exists k1 k2, cs_id_of e1 = Some k1 /\ cs_id_of e2 = Some k2
        /\ forall k, rename_event (fun _ => k) e1 = rename_event (fun _ => k) e2).
Proof.
  destruct e1, e2; cbn; intros H; try discriminate H;
    try (left; repeat split; exact H);
    right; do 2 eexists; (split; [reflexivity |]); (split; [reflexivity |]);
    intros k; injection H; intros; subst; congruence.
Qed.

Lemma norm_from_rel evs1 evs2 :
  Forall2 (fun e1 e2 => erase_event e1 = erase_event e2) evs1 evs2 ->
  forall P m1 m2, bij P -> vrel m1 m2 ->
  incl (combine (keys m1) (keys m2)) P ->
  incl (combine (cs_ids evs1) (cs_ids evs2)) P ->
  snd (norm_from m1 evs1) = snd (norm_from m2 evs2).
Proof.
  induction 1 as [|e1 e2 r1 r2 He Hr IH]; intros P m1 m2 B V Ik Ii; [reflexivity |].
  cbn [norm_from].
  destruct (norm_step m1 e1) as [m1' e1'] eqn:S1. destruct (norm_step m2 e2) as [m2' e2'] eqn:S2.
  specialize (IH P m1' m2' B).
  destruct (norm_from m1' r1) as [m1'' r1'] eqn:R1. destruct (norm_from m2' r2) as [m2'' r2'] eqn:R2.
  cbn [snd] in *.
  apply norm_step_cases in S1, S2. rewrite !cs_ids_cons in Ii.
  apply erase_eq_cases in He as [(C1 & C2 & Ee) | (k1 & k2 & C1 & C2 & Hren)];
    rewrite C1 in S1; rewrite C2 in S2; rewrite C1, C2 in Ii.
  - destruct S1 as [-> ->], S2 as [-> ->]. rewrite Ee. f_equal. apply IH; assumption.
  - destruct S1 as (k1' & OI1 & ->), S2 as (k2' & OI2 & ->).
    cbn [combine] in Ii.
    assert (K : In (k1, k2) P) by (apply Ii; left; reflexivity).
    assert (Ii' : incl (combine (cs_ids r1) (cs_ids r2)) P)
      by (intros p Hp; apply Ii; right; exact Hp).
    pose proof (im_get_rel P m1 m2 k1 k2 B V Ik K) as G.
    pose proof (vrel_len _ _ V) as L.
    apply or_insert_cases in OI1 as [[G1 ->] | (G1 & -> & ->)];
      apply or_insert_cases in OI2 as [[G2 ->] | (G2 & -> & ->)];
      rewrite G1, G2 in G; try discriminate G.
    + injection G as <-. rewrite Hren. f_equal. apply IH; assumption.
    + rewrite <- L in IH |- *. rewrite Hren. f_equal.
      destruct (vrel_snoc P m1 m2 k1 k2 (im_len m1) V Ik K) as [V' Ik'].
      apply IH; assumption.
Qed.

Lemma normalize_same_up_to evs1 evs2 : same_up_to evs1 evs2 -> normalize evs1 = normalize evs2.
Proof.
  intros [F B]. unfold normalize.
  apply (norm_from_rel _ _ F _ [] [] B); [constructor | intros p [] | apply incl_refl].
Qed.

(** ** (B) the same for relabelling by a function *)

Lemma norm_cs_relabel ed d : norm_cs (relabel_cs ed d) = norm_cs d.
Proof. destruct d as [[] ? ? ? ? ? ? ?]; reflexivity. Qed.

Lemma erase_relabel g ed e : erase_event (relabel_event g ed e) = erase_event e.
Proof. destruct e; cbn; try reflexivity. rewrite norm_cs_relabel. reflexivity. Qed.

Lemma cs_id_of_relabel g ed e : cs_id_of (relabel_event g ed e) = option_map g (cs_id_of e).
Proof. destruct e; reflexivity. Qed.

Lemma cs_ids_relabel g eds evs : forall i, cs_ids (relabel_from g eds i evs) = map g (cs_ids evs).
Proof.
  induction evs as [|e r IH]; intros i; [reflexivity |].
  cbn [relabel_from]. rewrite !cs_ids_cons, cs_id_of_relabel, IH. destruct (cs_id_of e); reflexivity.
Qed.

Lemma relabel_same_up_to g eds evs :
  inj_on g (cs_ids evs) -> same_up_to evs (relabel g eds evs).
Proof.
  intros Hg. split.
  - unfold relabel. generalize O. induction evs as [|e r IH]; intros i; cbn [relabel_from]; constructor.
    + symmetry. apply erase_relabel.
    + apply IH. eapply inj_on_incl; [exact Hg |]. rewrite cs_ids_cons.
      destruct (cs_id_of e); [apply incl_tl |]; apply incl_refl.
  - unfold relabel. rewrite cs_ids_relabel. apply bij_combine_map, Hg.
Qed.

Lemma normalize_relabel g eds evs :
  inj_on g (cs_ids evs) -> normalize (relabel g eds evs) = normalize evs.
Proof. intros Hg. symmetry. apply normalize_same_up_to, relabel_same_up_to, Hg. Qed.

(** * (G) canonical numbering, in terms of first occurrences *)

Lemma nseq_length s n : List.length (nseq s n) = n.
Proof. revert s. induction n as [|n IH]; intros s; cbn; [reflexivity | rewrite IH; reflexivity]. Qed.

Lemma first_occ_from_ext s1 s2 l :
  (forall y, In y s1 <-> In y s2) -> first_occ_from s1 l = first_occ_from s2 l.
Proof.
  revert s1 s2. induction l as [|x r IH]; intros s1 s2 H; [reflexivity |].
  cbn [first_occ_from].
  assert (E : existsb (N.eqb x) s1 = existsb (N.eqb x) s2).
  { apply eq_iff_eq_true. rewrite !existsb_in. apply H. }
  rewrite E. destruct (existsb (N.eqb x) s2).
  - apply IH, H.
  - f_equal. apply IH. intros y. cbn. rewrite H. reflexivity.
Qed.

Lemma canon_first_occ l : forall n seen,
  (forall y, In y seen <-> y < n) ->
  (canon_b n l = true
   <-> first_occ_from seen l = nseq n (List.length (first_occ_from seen l))).
Proof.
  induction l as [|x r IH]; intros n seen Hs; cbn [canon_b first_occ_from].
  - split; reflexivity.
  - destruct (existsb (N.eqb x) seen) eqn:Ex.
    + apply existsb_in, Hs, N.ltb_lt in Ex. rewrite Ex. apply IH, Hs.
    + assert (Hx : ~ x < n) by (rewrite <- Hs, <- existsb_in, Ex; discriminate).
      destruct (N.ltb_spec x n) as [?|_]; [contradiction |].
      cbn [List.length nseq].
      split.
      * intros H. apply andb_true_iff in H as [E H]. apply N.eqb_eq in E. subst x.
        f_equal. apply (IH (n + 1) (n :: seen)); [| exact H].
        intros y. cbn. rewrite Hs. lia.
      * intros H. injection H as E H. subst x. rewrite N.eqb_refl. cbn [andb].
        apply (IH (n + 1) (n :: seen)); [| exact H].
        intros y. cbn. rewrite Hs. lia.
Qed.

Lemma canon_b_first_occ l :
  canon_b 0 l = true <-> first_occ l = nseq 0 (List.length (first_occ l)).
Proof. apply canon_first_occ. intros y. cbn. lia. Qed.

Lemma first_occ_from_map f seen l :
  inj_on f (seen ++ l) ->
  first_occ_from (map f seen) (map f l) = map f (first_occ_from seen l).
Proof.
  revert seen. induction l as [|x r IH]; intros seen Hf; [reflexivity |].
  cbn [map first_occ_from].
  assert (E : existsb (N.eqb (f x)) (map f seen) = existsb (N.eqb x) seen).
  { apply eq_iff_eq_true. rewrite !existsb_in, in_map_iff. split.
    - intros (y & Ey & Hy). assert (y = x) as <-; [| exact Hy].
      apply Hf; [apply in_app_iff; left; exact Hy | apply in_app_iff; right; left; reflexivity | exact Ey].
    - intros Hx. exists x. auto. }
  rewrite E. destruct (existsb (N.eqb x) seen).
  - apply IH. eapply inj_on_incl; [exact Hf |].
    intros y Hy. apply in_app_iff in Hy as [Hy|Hy]; apply in_app_iff; [left | right; right]; exact Hy.
  - cbn [map]. f_equal. apply (IH (x :: seen)). eapply inj_on_incl; [exact Hf |].
    intros y Hy. cbn in Hy. rewrite in_app_iff in *. cbn. tauto.
Qed.

Lemma normalize_first_occ evs :
  first_occ (cs_ids (normalize evs))
  = nseq 0 (List.length (first_occ (cs_ids evs))).
Proof.
  pose proof (normalize_canon_b evs) as Cn.
  apply (canon_first_occ _ 0 []) in Cn; [| intros y; cbn; lia].
  unfold first_occ. rewrite Cn. f_equal.
  destruct (normalize_renaming evs) as (f & Hf & ->).
  rewrite cs_ids_rename. change (@nil N) with (map f []) at 1.
  rewrite first_occ_from_map by exact Hf. apply map_length.
Qed.

(** * Boolean checkers of the judge *)

Lemma same_up_to_b_spec evs1 evs2 : same_up_to_b evs1 evs2 = true <-> same_up_to evs1 evs2.
Proof.
  unfold same_up_to_b, same_up_to. rewrite andb_true_iff, consistent_b_spec.
  rewrite (forall2b_Forall2 _ (fun e1 e2 => erase_event e1 = erase_event e2)); [reflexivity |].
  intros a b. apply event_eqb_spec.
Qed.

Lemma untouched_cs_b_spec d d' : untouched_cs_b d d' = true <-> untouched_cs d d'.
Proof.
  unfold untouched_cs_b, untouched_cs.
  rewrite !andb_true_iff, cskind_eqb_spec, String.eqb_eq, level_eqb_spec,
    !(option_eqb_spec String.eqb String.eqb_eq), (list_eqb_spec String.eqb String.eqb_eq).
  destruct (cs_kind d); [rewrite String.eqb_eq |]; intuition congruence.
Qed.

Lemma untouched_b_spec e e' : untouched_b e e' = true <-> untouched e e'.
Proof.
  pose proof (option_eqb_spec N.eqb N.eqb_eq) as HO.
  destruct e, e'; cbn [untouched_b untouched]; try (split; [discriminate | contradiction]);
    rewrite ?andb_true_iff, ?N.eqb_eq, ?HO, ?tvalues_eqb_spec, ?untouched_cs_b_spec; tauto.
Qed.

Lemma erased_ev_b_spec e : erased_ev_b e = true <-> erased_ev e.
Proof.
  destruct e; cbn [erased_ev_b erased_ev]; try tauto.
  unfold erased_cs_b, erased_cs. rewrite andb_true_iff.
  destruct (cs_line data), (cs_kind data); rewrite ?String.eqb_eq; intuition congruence.
Qed.

Lemma untouched_erase e e' : untouched e e' -> erase_event e = erase_event e'.
Proof.
  destruct e, e'; cbn; try contradiction; try (intuition congruence).
  unfold untouched_cs. destruct data as [[] ? ? ? ? ? ? ?], data0 as [[] ? ? ? ? ? ? ?]; cbn;
    intros (H1 & H2 & H3 & H4 & H5 & H6 & H7); try discriminate H1; subst;
    try rewrite H7 by reflexivity; reflexivity.
Qed.

(** the executable statement of the property pins the output down completely: it holds of an
    output exactly when that output is the model's *)
Lemma norm_ok_iff input output : norm_ok input output = true <-> output = normalize input.
Proof.
  unfold norm_ok. rewrite !andb_true_iff, consistent_b_spec.
  rewrite (forall2b_Forall2 _ (fun e e' => untouched e e' /\ erased_ev e'));
    [| intros a b; rewrite andb_true_iff, untouched_b_spec, erased_ev_b_spec; reflexivity].
  split.
  - intros [[F B] Cn]. transitivity (normalize output).
    + symmetry. apply normalize_fix; [exact Cn |].
      clear B Cn. induction F as [|? ? ? ? [_ He] _ IH]; constructor; assumption.
    + symmetry. apply normalize_same_up_to. split; [| exact B].
      clear B Cn. induction F as [|? ? ? ? [Hu _] _ IH]; constructor;
        [apply untouched_erase, Hu | exact IH].
  - intros ->. split; [split |].
    + pose proof (normalize_untouched input) as U. pose proof (normalize_erased input) as Er.
      induction U as [|? ? ? ? Hu _ IH]; constructor.
      * split; [exact Hu | inversion Er; assumption].
      * apply IH. inversion Er; assumption.
    + apply normalize_cs_ids_consistent.
    + apply normalize_canon_b.
Qed.

Lemma norm_ok_model input : norm_ok input (normalize input) = true.
Proof. apply norm_ok_iff. reflexivity. Qed.
