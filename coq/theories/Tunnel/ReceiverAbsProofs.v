(** The receiver refines the abstract receiver: acceptance results and the persistable state are
    functions of the guest's event history only (C02, C03, C04-retry, C06, C07). *)
From TT Require Import Tunnel.ReceiverAbs Tunnel.ReceiverInv Tunnel.ReceiverHistInv.
From stdpp Require Import gmap.
Arguments firstn : simpl never.
Arguments skipn : simpl never.
Arguments chunks : simpl never.
Arguments extend : simpl never.
Arguments host_vals : simpl never.

Lemma a_alive_abs st id : a_alive (abs st) id = alive st id.
Proof. reflexivity. Qed.
Lemma a_known_abs st m : a_known (abs st) m = known st m.
Proof. reflexivity. Qed.

Ltac absfacts := rewrite ?a_alive_abs, ?a_known_abs.

(** one event *)
Theorem try_receive_refines st w ev o st' w' calls :
  Inv st → no_reannounce st ev = true →
  try_receive st w ev = (o, st', w', calls) →
  astep (abs st) ev = (o, abs st').
Proof.
  intros HI Hre H. unfold astep.
  destruct ev as [id d|id p m vs|a b|id|id|id|id|id vs|m p vs]; simpl in *.
  - unfold on_new_call_site in H. by simplify_eq.
  - apply negb_true_iff, alive_false in Hre.
    assert (r_local st !! id = None) as Hl.
    { destruct (r_local st !! id) eqn:E; [|done]. exfalso.
      assert (id ∈ dom (r_spans st)) as Hd by (apply (inv_local _ HI); by apply elem_of_dom).
      apply elem_of_dom in Hd as [? Hd]. congruence. }
    rewrite Hl in H. destruct (too_many vs) eqn:Et.
    + apply fits_of_some in Et as [-> ->]. unfold reject in H. by simplify_eq.
    + apply fits_of_none in Et. rewrite Et. simpl. absfacts.
      pose proof (cls_new_spec st w (mk_sd m p 1 vs) HI) as Hc. simpl in Hc.
      destruct (create_local_span st w (mk_sd m p 1 vs) true) as [e|[[h w1] cs]].
      * unfold reject in H. simplify_eq. destruct e as [m'|q|?]; [| |done].
        -- destruct Hc as [-> ->]. done.
        -- destruct Hc as (-> & -> & Hc). simpl. absfacts. by rewrite Hc.
      * destruct Hc as [-> Hc]. simplify_eq. simpl.
        destruct p as [q|]; simpl in *; absfacts; [rewrite Hc|]; done.
  - absfacts. destruct (map_span_id st a) eqn:Ea; [|destruct (map_span_id st b) eqn:Eb];
      unfold reject, check_span in *; simplify_eq; boolfacts HI; simplify_eq; absfacts;
      repeat match goal with Hx : alive _ _ = _ |- _ => rewrite Hx end; done.
  - unfold check_span. absfacts. destruct (map_span_id st id) as [e|[h|]] eqn:Em.
    + unfold reject in H. simplify_eq. boolfacts HI. simplify_eq.
      match goal with Hx : alive _ _ = _ |- _ => by rewrite Hx end.
    + simplify_eq. boolfacts HI. by rewrite Em.
    + pose proof (map_span_id_spec st id) as Hs. rewrite Em in Hs. destruct Hs as [_ [d Hd]].
      rewrite Hd in H. destruct (cls_lazy_ok st w id d HI Hd) as [[[h w1] cs] Hc]. rewrite Hc in H.
      simplify_eq. apply alive_of_some in Hd. by rewrite Hd.
  - unfold check_span. absfacts.
    destruct (map_span_id st id) as [e|lid] eqn:Em; unfold reject in H; simplify_eq; boolfacts HI;
      simplify_eq; match goal with Hx : alive _ _ = _ |- _ => by rewrite Hx end.
  - unfold check_span. absfacts.
    destruct (r_spans st !! id) as [d|] eqn:Es; unfold reject in H; simplify_eq.
    + rewrite (alive_of_some _ _ _ Es). simpl. unfold abs. simpl. rewrite ?Es. done.
    + apply alive_false in Es. by rewrite Es.
  - unfold check_span. absfacts.
    destruct (r_spans st !! id) as [d|] eqn:Es; unfold reject in H.
    + pose proof (inv_refs _ HI _ _ Es) as Hr. rewrite (alive_of_some _ _ _ Es).
      destruct (sd_refs d =? 0)%N eqn:Ez; [apply N.eqb_eq in Ez; lia|].
      destruct (sd_refs d - 1 =? 0)%N eqn:Ez1; simplify_eq; simpl; unfold abs; simpl;
        rewrite ?Es, ?Ez1; done.
    + simplify_eq. apply alive_false in Es. by rewrite Es.
  - destruct (too_many vs) eqn:Et.
    + apply fits_of_some in Et as [-> ->]. unfold reject in H. by simplify_eq.
    + apply fits_of_none in Et. rewrite Et. simpl. unfold check_span. absfacts.
      destruct (map_span_id st id) as [e|lid] eqn:Em.
      * unfold reject in H. simplify_eq. boolfacts HI. simplify_eq.
        match goal with Hx : alive _ _ = _ |- _ => by rewrite Hx end.
      * pose proof (msi_inr _ _ _ HI Em) as Ha. rewrite Ha.
        apply alive_true in Ha as [d Hd]. rewrite Hd in H.
        destruct (inv_meta _ HI _ _ Hd) as [md Hmd]. rewrite Hmd in H.
        destruct lid; simplify_eq; simpl; unfold abs; simpl; rewrite ?Hd; done.
  - destruct (too_many vs) eqn:Et.
    + apply fits_of_some in Et as [-> ->]. unfold reject in H. by simplify_eq.
    + apply fits_of_none in Et. rewrite Et. simpl. absfacts.
      destruct (r_meta st !! m) eqn:Emd; unfold reject in H.
      * rewrite (known_of_some _ _ _ Emd). simpl.
        destruct p as [q|]; simpl in *; absfacts.
        -- destruct (map_span_id st q) eqn:Ep; simplify_eq; boolfacts HI; simplify_eq;
             match goal with Hx : alive _ _ = _ |- _ => by rewrite Hx end.
        -- by simplify_eq.
      * simplify_eq. apply known_false in Emd. by rewrite Emd.
Qed.

(** one history step *)
Lemma hist_step_refines h s :
  HInv h → step_scope h s →
  ahist_step (absh h) s = (absh (fst (hist_step h s)), outcome_of (snd (hist_step h s))).
Proof.
  intros HH Hsc. destruct s as [ev|keep|]; simpl in *.
  - destruct (try_receive (h_st h) (h_w h) ev) as [[[o st'] w'] calls] eqn:E. simpl.
    pose proof (try_receive_refines _ _ _ _ _ _ _ (hinv_st _ HH) Hsc E) as Hr.
    unfold astep in Hr. injection Hr as Ho Ha. simpl in Ho, Ha. unfold absh. simpl.
    rewrite Ha, Ho. done.
  - unfold persist, persist_metadata.
    pose proof (restore_spec (h_w h) (r_meta (h_st h) ∪ h_md h) (r_spans (h_st h))
                  (if keep then r_local (h_st h) else ∅)) as Hs.
    destruct (restore _ _ _ _) as [[st' w'] regs]. simpl.
    destruct Hs as (E1 & E2 & _). unfold absh, abs. simpl. by rewrite E1, E2.
  - pose proof (restore_spec (h_w h) (h_md h) (h_spans h) ∅) as Hs.
    destruct (restore _ _ _ _) as [[st' w'] regs]. simpl.
    destruct Hs as (E1 & E2 & _). unfold absh, abs. simpl. by rewrite E1, E2.
Qed.

(** whole histories: the acceptance results and the final persistable state are those of the
    abstract receiver, whatever the cuts, the fate of the local span map, and the host *)
Theorem hist_run_refines steps h :
  HInv h → hist_scope h steps →
  ahist_run (absh h) steps = (map outcome_of (hist_run h steps), absh (hist_final h steps)).
Proof.
  revert h. induction steps as [|s r IH]; intros h HH Hsc; simpl; [done|].
  destruct Hsc as [Hs Hr].
  pose proof (hist_step_refines h s HH Hs) as Hst.
  pose proof (hist_step_HInv h s HH Hs) as HH'.
  pose proof (hist_total [s] h HH (conj Hs I)) as Hp. simpl in Hp.
  destruct (hist_step h s) as [h' o] eqn:E. simpl in *.
  apply Forall_cons in Hp as [Hp _]. rewrite Hp.
  rewrite Hst. rewrite (IH h' HH' Hr). done.
Qed.

(** ** abstract-level facts *)
Definition AInv (h : ahist) : Prop := dom (a_meta (ah_saved h)) ⊆ dom (a_meta (ah_cur h)).

Lemma astep_meta_dom a ev : dom (a_meta a) ⊆ dom (a_meta (snd (astep a ev))).
Proof.
  unfold astep. destruct (ref_outcome a ev); simpl; [|done..].
  destruct ev; simpl; try done. rewrite dom_insert. set_solver.
Qed.

Lemma astep_rejected a ev o a' : astep a ev = (o, a') → o ≠ Accepted → a' = a.
Proof. unfold astep. intros [= <- <-] Hn. by destruct (ref_outcome a ev). Qed.

Local Opaque astep.

Lemma ahist_step_AInv h s : AInv h → AInv (fst (ahist_step h s)).
Proof.
  unfold AInv. intros H. destruct s as [ev|keep|]; [|done|done].
  pose proof (astep_meta_dom (ah_cur h) ev) as Hd. unfold ahist_step.
  destruct (astep (ah_cur h) ev) as [o a]. simpl in *.
  by transitivity (dom (a_meta (ah_cur h))).
Qed.

Lemma union_absorb (m1 m2 : gmap N cs_data) : dom m2 ⊆ dom m1 → m1 ∪ m2 = m1.
Proof.
  intros H. apply map_eq. intros i. rewrite lookup_union.
  destruct (m1 !! i) eqn:E1; simpl; [by destruct (m2 !! i)|].
  destruct (m2 !! i) eqn:E2; [|done]. exfalso.
  apply elem_of_dom_2 in E2. apply not_elem_of_dom in E1. set_solver.
Qed.

(** without roll-backs a history is just its event stream: persists are invisible *)
Theorem ahist_no_drop_is_stream steps h :
  AInv h → no_drop steps = true →
  let '(os, h') := ahist_run h steps in
  let '(os', a') := arun (ah_cur h) (events_of steps) in
  omap id os = os' ∧ ah_cur h' = a'.
Proof.
  revert h. induction steps as [|s r IH]; intros h HA Hnd; simpl in *; [done|].
  apply andb_true_iff in Hnd as [Hs Hnd].
  pose proof (ahist_step_AInv h s HA) as HA'.
  destruct s as [ev|keep|]; [| |done]; simpl in *.
  - destruct (astep (ah_cur h) ev) as [o a1]. simpl in *.
    specialize (IH (mk_ah a1 (ah_saved h)) HA' Hnd). simpl in IH.
    destruct (ahist_run _ r) as [os h']. destruct (arun a1 (events_of r)) as [os' a'].
    destruct IH as [<- ->]. done.
  - rewrite (union_absorb _ _ HA) in *.
    assert (mk_a (a_meta (ah_cur h)) (a_spans (ah_cur h)) = ah_cur h) as Ea by (by destruct (ah_cur h)).
    rewrite Ea in *.
    specialize (IH (mk_ah (ah_cur h) (ah_cur h)) HA' Hnd). simpl in IH.
    destruct (ahist_run _ r) as [os h']. destruct (arun (ah_cur h) (events_of r)) as [os' a'].
    destruct IH as [<- ->]. done.
Qed.

(** the [keep] flags are irrelevant at the abstract level *)
Definition forget_keep (s : hstep) : hstep :=
  match s with SPersist _ => SPersist true | _ => s end.
Lemma ahist_run_forget_keep steps h : ahist_run h (map forget_keep steps) = ahist_run h steps.
Proof.
  revert h. induction steps as [|s r IH]; intros h; simpl; [done|].
  destruct s as [ev|keep|]; simpl; [destruct (astep (ah_cur h) ev)| |]; rewrite ?IH; done.
Qed.

(** a rejected event changes nothing: removing the rejected events of a stream changes neither the
    remaining outcomes nor the final state *)
Fixpoint accepted_only (a : astate) (evs : list event) : list event :=
  match evs with
  | [] => []
  | ev :: r => let '(o, a') := astep a ev in
               match o with Accepted => ev :: accepted_only a' r | _ => accepted_only a' r end
  end.

Theorem arun_filter a evs :
  let '(os, a') := arun a evs in
  arun a (accepted_only a evs) = (List.filter (fun o => match o with Accepted => true | _ => false end) os, a').
Proof.
  revert a. induction evs as [|ev r IH]; intros a; simpl; [done|].
  destruct (astep a ev) as [o a1] eqn:E. specialize (IH a1).
  destruct (arun a1 r) as [os a2]. destruct o; simpl.
  - rewrite E. by rewrite IH.
  - rewrite (astep_rejected _ _ _ _ E) in * by done. done.
  - rewrite (astep_rejected _ _ _ _ E) in * by done. done.
Qed.
