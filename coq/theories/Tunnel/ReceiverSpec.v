(** Reference notions for the receiver properties, written from the property texts alone:
    which events are valid, what the persisted span state is as a function of the accepted
    events, and the strict host-id tracker.  Definitions only. *)
From stdpp Require Import gmap.
From TT Require Export Tunnel.ReceiverHistory.

(** * C06: validity of an event with respect to the alive spans and known call sites *)
Definition alive (st : rstate) (id : N) : bool := bool_decide (is_Some (r_spans st !! id)).
Definition known (st : rstate) (m : N) : bool := bool_decide (is_Some (r_meta st !! m)).
Definition opt_alive (st : rstate) (p : option N) : bool :=
  match p with Some id => alive st id | None => true end.
Definition fits (vs : tvalues) : bool := (len vs <=? MAX_VALUES)%N.

Definition valid (st : rstate) (ev : event) : bool :=
  match ev with
  | ENewCallSite _ _ => true
  | ENewSpan _ p m vs => fits vs && known st m && opt_alive st p
  | EFollowsFrom a b => alive st a && alive st b
  | ESpanEntered id | ESpanExited id | ESpanCloned id | ESpanDropped id => alive st id
  | EValuesRecorded id vs => fits vs && alive st id
  | ENewEvent m p vs => fits vs && known st m && opt_alive st p
  end.

(** the reasons that apply to an invalid event *)
Definition applicable (st : rstate) (ev : event) (e : rerror) : Prop :=
  match e with
  | TooMany n =>
      match ev with
      | ENewSpan _ _ _ vs | EValuesRecorded _ vs | ENewEvent _ _ vs => fits vs = false /\ n = len vs
      | _ => False
      end
  | UnknownMeta m =>
      known st m = false /\
      match ev with ENewSpan _ _ m' _ | ENewEvent m' _ _ => m' = m | _ => False end
  | UnknownSpan id =>
      alive st id = false /\
      match ev with
      | ENewSpan _ p _ _ | ENewEvent _ p _ => p = Some id
      | EFollowsFrom a b => a = id \/ b = id
      | ESpanEntered i | ESpanExited i | ESpanCloned i | ESpanDropped i | EValuesRecorded i _ => i = id
      | ENewCallSite _ _ => False
      end
  end.

(** C06's proviso: a span id is not re-announced while alive *)
Definition no_reannounce (st : rstate) (ev : event) : bool :=
  match ev with ENewSpan id _ _ _ => negb (alive st id) | _ => true end.

(** * C02: the persisted span state as a fold over the accepted events *)
Definition spec_step (s : gmap N span_data) (ev : event) : gmap N span_data :=
  match ev with
  | ENewSpan id p m vs => <[id := mk_sd m p 1 vs]> s
  | ESpanCloned id =>
      match s !! id with
      | Some d => <[id := mk_sd (sd_meta d) (sd_parent d) (sd_refs d + 1) (sd_values d)]> s
      | None => s
      end
  | ESpanDropped id =>
      match s !! id with
      | Some d => if (sd_refs d - 1 =? 0)%N then delete id s
                  else <[id := mk_sd (sd_meta d) (sd_parent d) (sd_refs d - 1) (sd_values d)]> s
      | None => s
      end
  | EValuesRecorded id vs =>
      match s !! id with
      | Some d => <[id := mk_sd (sd_meta d) (sd_parent d) (sd_refs d) (extend (sd_values d) vs)]> s
      | None => s
      end
  | _ => s
  end.

(** * C08: the strict tracker of host span ids *)
Definition ids_used (c : hcall) : list N :=
  match c with
  | HNewSpan _ _ (PExplicit p) _ => [p]
  | HRecord h _ | HEnter h | HExit h | HTryClose h => [h]
  | HFollows a b => [a; b]
  | HEvent _ (PExplicit p) _ => [p]
  | _ => []
  end.

(** [track opn c = Some opn'] when the call uses only open ids, a new span gets a fresh id and a
    close hits an open id; [None] is a protocol violation. *)
Definition track (opn : gset N) (c : hcall) : option (gset N) :=
  if forallb (fun h => bool_decide (h ∈ opn)) (ids_used c) then
    match c with
    | HNewSpan h _ _ _ => if bool_decide (h ∈ opn) then None else Some ({[h]} ∪ opn)
    | HTryClose h => Some (opn ∖ {[h]})
    | _ => Some opn
    end
  else None.

Fixpoint track_all (opn : gset N) (cs : list hcall) : option (gset N) :=
  match cs with
  | [] => Some opn
  | c :: r => match track opn c with Some o' => track_all o' r | None => None end
  end.
