(** Remaining receiver lemmas: rejected events can be removed from a stream (C07, host level);
    how a span is presented to a new host on its first enter (C03). *)
From TT Require Import Tunnel.ReceiverSpec Tunnel.ReceiverInv.
From stdpp Require Import gmap.
Arguments firstn : simpl never.
Arguments skipn : simpl never.
Arguments chunks : simpl never.
Arguments extend : simpl never.
Arguments host_vals : simpl never.

(** ** C07 at the level of host calls *)
Fixpoint crun (st : rstate) (w : world) (evs : list event) : rstate * world * list hcall :=
  match evs with
  | [] => (st, w, [])
  | ev :: r => let '(o, st', w', calls) := try_receive st w ev in
               let '(st'', w'', calls') := crun st' w' r in (st'', w'', calls ++ calls')
  end.

Fixpoint crun_accepted (st : rstate) (w : world) (evs : list event) : list event :=
  match evs with
  | [] => []
  | ev :: r => let '(o, st', w', calls) := try_receive st w ev in
               match o with
               | Rejected _ => crun_accepted st' w' r
               | _ => ev :: crun_accepted st' w' r
               end
  end.

Theorem crun_filter st w evs : crun st w (crun_accepted st w evs) = crun st w evs.
Proof.
  revert st w. induction evs as [|ev r IH]; intros st w; simpl; [done|].
  destruct (try_receive st w ev) as [[[o st'] w'] calls] eqn:E.
  destruct o as [|e|].
  - cbn [crun]. rewrite E, IH. done.
  - apply reject_no_effect in E as (-> & -> & ->). rewrite IH. by destruct (crun st w r) as [[? ?] ?].
  - cbn [crun]. rewrite E, IH. done.
Qed.

(** ** C03: presentation of a span to the current host *)
Lemma chunks_concat fuel (l : tvalues) : List.length l <= fuel → concat (chunks fuel l) = l.
Proof.
  revert l. induction fuel as [|f IH]; intros l Hl.
  - destruct l; [done | simpl in Hl; lia].
  - destruct l as [|x l']; [done|]. set (l := x :: l') in *.
    change (chunks (S f) l) with (firstn 32 l :: chunks f (skipn 32 l)).
    cbn [concat]. rewrite IH.
    + apply firstn_skipn.
    + rewrite skipn_length. subst l. simpl in *. lia.
Qed.

(** all accumulated values that belong to the call site are handed to the host, in order:
    the first 32 with [new_span], the rest by [record] calls *)
Definition presented_values (calls : list hcall) : tvalues :=
  flat_map (fun c => match c with HNewSpan _ _ _ vs => vs | HRecord _ vs => vs | _ => [] end) calls.

Theorem entered_presentation st w id st' w' calls :
  Inv st → try_receive st w (ESpanEntered id) = (Accepted, st', w', calls) →
  match r_local st !! id with
  | Some h => calls = [HEnter h] ∧ w' = w
  | None =>
      ∃ d md p, r_spans st !! id = Some d ∧ r_meta st !! sd_meta d = Some md ∧
        let h := (w_next w + 1)%N in
        r_local st' !! id = Some h ∧
        (∃ recs, calls = HNewSpan h md p (firstn 32 (host_vals md (sd_values d))) :: recs ++ [HEnter h]
                 ∧ Forall (fun c => ∃ vs, c = HRecord h vs) recs) ∧
        presented_values calls = host_vals md (sd_values d)
  end.
Proof.
  intros HI H. simpl in H.
  pose proof (map_span_id_spec st id) as Hs.
  destruct (map_span_id st id) as [e|[h|]] eqn:Em; [unfold reject in H; simplify_eq| |].
  - rewrite Hs. by simplify_eq.
  - destruct Hs as [Hl [d Hd]]. rewrite Hl, Hd in *.
    destruct (create_local_span st w d false) as [e|[[h w1] cs]] eqn:Ec; [unfold reject in H; simplify_eq|].
    unfold create_local_span in Ec.
    destruct (r_meta st !! sd_meta d) as [md|] eqn:Emd; [|done].
    match type of Ec with match ?P with _ => _ end = _ => destruct P as [e|lp] eqn:Ep; [done|] end.
    simplify_eq. exists d, md, (match lp with Some ph => PExplicit ph | None => PCtx end).
    split; [done|]. split; [done|]. cbv zeta. split_and!.
    + simpl. by rewrite lookup_insert.
    + eexists. split; [rewrite <- app_comm_cons; reflexivity|].
      apply Forall_forall. intros c Hc. apply elem_of_list_fmap in Hc as (vs & -> & _). eauto.
    + unfold presented_values. simpl. rewrite flat_map_app. simpl. rewrite app_nil_r.
      assert (∀ l, flat_map (λ c : hcall, match c with
                                          | HNewSpan _ _ _ vs | HRecord _ vs => vs
                                          | _ => []
                                          end) (map (HRecord (w_next w + 1)%N) l) = concat l) as Hfm.
      { induction l as [|x l IHl]; simpl; [done | by rewrite IHl]. }
      rewrite Hfm, chunks_concat.
      * apply firstn_skipn.
      * rewrite skipn_length. lia.
Qed.
