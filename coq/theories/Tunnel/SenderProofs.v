(** Proofs about the sender model [Tunnel/Sender.v] and the front end [Guest/Front.v] (C12). *)
From Coq Require Import FinFun.
From TT Require Import Values.ValuesProofs Guest.ProgramProofs Tunnel.TypesProofs Tunnel.Sender.

Local Arguments N.add : simpl never.
Local Arguments N.modulo : simpl never.
Local Arguments N.pow : simpl never.
Local Arguments N.sub : simpl never.
Local Arguments N.leb : simpl never.
Local Arguments N.ltb : simpl never.
Local Arguments N.eqb : simpl never.
Local Arguments N.of_nat : simpl never.

(** * The 32-bit counter *)
Lemma U32_val : U32 = 4294967296.
Proof. reflexivity. Qed.
Lemma U32_pos : U32 <> 0.
Proof. rewrite U32_val. discriminate. Qed.

Lemma known_id_wrap_false n : known_id_wrap n = false <-> n < U32 - 1.
Proof. unfold known_id_wrap. rewrite N.leb_gt. reflexivity. Qed.
Lemma known_id_wrap_true n : known_id_wrap n = true <-> U32 - 1 <= n.
Proof. unfold known_id_wrap. apply N.leb_le. Qed.

Lemma sender_alloc_from_small start n :
  0 < start -> start + n < U32 -> sender_alloc_from start n = Some (start + n).
Proof.
  intros Hs Hlt. unfold sender_alloc_from. rewrite (N.mod_small _ _ Hlt).
  destruct (N.eqb_spec (start + n) 0) as [E|E]; [lia | reflexivity].
Qed.

(** outside the known class the n-th span gets id n + 1 *)
Lemma sender_alloc_ok n : known_id_wrap n = false -> sender_alloc n = Some (n + 1).
Proof.
  intros H. apply known_id_wrap_false in H. unfold sender_alloc.
  rewrite sender_alloc_from_small by lia. f_equal. lia.
Qed.

(** a sender whose counter is at [start] behaves as a fresh sender that has created
    [start - 1] spans *)
Lemma sender_alloc_from_shift start n :
  1 <= start -> sender_alloc_from start n = sender_alloc (start - 1 + n).
Proof.
  intros H. unfold sender_alloc, sender_alloc_from.
  replace (1 + (start - 1 + n)) with (start + n) by lia. reflexivity.
Qed.

(** the closed form is what iterating the atomic step computes *)
Fixpoint ctr_after (start : N) (n : nat) : N :=
  match n with O => start | S n' => snd (fetch_add (ctr_after start n')) end.

Lemma ctr_after_closed start n : start < U32 -> ctr_after start n = (start + N.of_nat n) mod U32.
Proof.
  intros Hs. induction n as [|n IH].
  - cbn [ctr_after]. rewrite N.add_0_r. symmetry. apply N.mod_small. exact Hs.
  - cbn [ctr_after]. rewrite IH. unfold fetch_add. cbn [snd].
    rewrite N.add_mod_idemp_l by exact U32_pos. f_equal. lia.
Qed.

Theorem sender_new_id_closed start n :
  start < U32 -> fst (sender_new_id (ctr_after start n)) = sender_alloc_from start (N.of_nat n).
Proof.
  intros Hs. rewrite ctr_after_closed by exact Hs. reflexivity.
Qed.

Theorem ids_fresh_alloc :
  (forall n, known_id_wrap n = false -> exists id, sender_alloc n = Some id /\ id <> 0 /\ id < U32)
  /\ (forall n m, known_id_wrap n = false -> known_id_wrap m = false -> n <> m ->
      sender_alloc n <> sender_alloc m).
Proof.
  split.
  - intros n H. exists (n + 1). rewrite (sender_alloc_ok n H). apply known_id_wrap_false in H.
    repeat split; lia.
  - intros n m Hn Hm Hne. rewrite (sender_alloc_ok n Hn), (sender_alloc_ok m Hm).
    intros E. injection E as E. lia.
Qed.

(** the known finding: the allocation made after [2^32 - 1] spans yields 0 (the guest's call
    panics), the next one repeats the first id *)
Theorem ids_wrap_witness :
  known_id_wrap (U32 - 1) = true /\ sender_alloc (U32 - 1) = None
  /\ known_id_wrap U32 = true /\ sender_alloc U32 = sender_alloc 0 /\ sender_alloc 0 = Some 1.
Proof. vm_compute. repeat split. Qed.

(** * The counter shared by threads *)
Lemma fold_cstep sched : forall s,
  c_ctr s < U32 ->
  c_ctr (fold_left cstep sched s) = (c_ctr s + N.of_nat (List.length sched)) mod U32
  /\ c_out (fold_left cstep sched s) =
     c_out s ++ combine sched (map (fun i => (c_ctr s + N.of_nat i) mod U32) (seq 0 (List.length sched))).
Proof.
  induction sched as [|t r IH]; intros s Hs.
  - cbn [fold_left List.length seq map combine]. rewrite N.add_0_r, app_nil_r.
    split; [symmetry; apply N.mod_small; exact Hs | reflexivity].
  - cbn [fold_left]. unfold cstep at 2 4. unfold fetch_add.
    assert (Hlt : (c_ctr s + 1) mod U32 < U32) by (apply N.mod_lt; exact U32_pos).
    destruct (IH (mk_c ((c_ctr s + 1) mod U32) (c_out s ++ [(t, c_ctr s)])) Hlt) as [IH1 IH2].
    cbn [c_ctr c_out] in IH1, IH2. split.
    + rewrite IH1. rewrite N.add_mod_idemp_l by exact U32_pos. f_equal. cbn [List.length]. lia.
    + rewrite IH2. rewrite <- app_assoc. f_equal. cbn [List.length seq map combine app].
      rewrite N.add_0_r, (N.mod_small _ _ Hs). f_equal. f_equal.
      rewrite <- seq_shift, map_map. apply map_ext. intros i.
      rewrite N.add_mod_idemp_l by exact U32_pos. f_equal. lia.
Qed.

Lemma crun_from_closed start sched :
  start < U32 ->
  crun_from start sched
  = combine sched (map (fun i => (start + N.of_nat i) mod U32) (seq 0 (List.length sched))).
Proof.
  intros Hs. unfold crun_from. destruct (fold_cstep sched (mk_c start []) Hs) as [_ H].
  rewrite H. reflexivity.
Qed.

Lemma map_snd_combine' {A B} (l : list A) (l' : list B) :
  List.length l = List.length l' -> map snd (combine l l') = l'.
Proof.
  revert l'. induction l as [|a l IH]; intros [|b l'] H; cbn [combine map snd]; try discriminate;
    [reflexivity|]. f_equal. apply IH. cbn [List.length] in H. lia.
Qed.
Lemma map_fst_combine' {A B} (l : list A) (l' : list B) :
  List.length l = List.length l' -> map fst (combine l l') = l.
Proof.
  revert l'. induction l as [|a l IH]; intros [|b l'] H; cbn [combine map fst]; try discriminate;
    [reflexivity|]. f_equal. apply IH. cbn [List.length] in H. lia.
Qed.

Lemma id_of_index_inj : Injective id_of_index.
Proof. intros a b H. unfold id_of_index in H. lia. Qed.

(** whatever the schedule, the ids handed out are 1, 2, 3, ... in the order of the atomic steps *)
Lemma crun_ids sched :
  N.of_nat (List.length sched) <= U32 - 1 ->
  map snd (crun sched) = map id_of_index (seq 0 (List.length sched)).
Proof.
  intros Hlen. unfold crun. rewrite crun_from_closed by (rewrite U32_val; lia).
  rewrite map_snd_combine' by (rewrite map_length, seq_length; reflexivity).
  apply map_ext_in. intros i Hi. apply in_seq in Hi. unfold id_of_index.
  rewrite N.mod_small; [lia|]. rewrite U32_val in *. lia.
Qed.

Lemma crun_tids sched : map fst (crun sched) = sched.
Proof.
  unfold crun. rewrite crun_from_closed by (rewrite U32_val; lia).
  apply map_fst_combine'. rewrite map_length, seq_length. reflexivity.
Qed.

Lemma ids_of_in t out id : In id (ids_of t out) <-> In (t, id) out.
Proof.
  unfold ids_of. rewrite in_map_iff. split.
  - intros [[t' id'] [E H]]. apply filter_In in H as [H Ht]. cbn [fst snd] in *.
    apply Nat.eqb_eq in Ht. subst. exact H.
  - intros H. exists (t, id). split; [reflexivity|]. apply filter_In. split; [exact H|].
    cbn [fst]. apply Nat.eqb_refl.
Qed.

Lemma ids_of_length t out : List.length (ids_of t out) = count_occ Nat.eq_dec (map fst out) t.
Proof.
  unfold ids_of. rewrite map_length. induction out as [|[t' id] out IH]; [reflexivity|].
  cbn [filter map fst count_occ]. destruct (Nat.eq_dec t' t) as [->|Hne].
  - rewrite Nat.eqb_refl. cbn [List.length]. rewrite IH. reflexivity.
  - destruct (Nat.eqb_spec t' t) as [E|_]; [contradiction | exact IH].
Qed.

Theorem ids_fresh_interleaved_proof sched :
  N.of_nat (List.length sched) <= U32 - 1 ->
  let out := crun sched in
  NoDup (map snd out)
  /\ Forall (fun id => id <> 0 /\ id < U32) (map snd out)
  /\ (forall t, List.length (ids_of t out) = count_occ Nat.eq_dec sched t)
  /\ (forall t1 t2 id, In id (ids_of t1 out) -> In id (ids_of t2 out) -> t1 = t2).
Proof.
  intros Hlen out. subst out.
  assert (Hnd : NoDup (map snd (crun sched))).
  { rewrite (crun_ids sched Hlen). apply Injective_map_NoDup; [exact id_of_index_inj | apply seq_NoDup]. }
  split; [exact Hnd|]. split; [|split].
  - rewrite (crun_ids sched Hlen). apply Forall_forall. intros id Hin.
    apply in_map_iff in Hin as [i [<- Hi]]. apply in_seq in Hi. unfold id_of_index.
    rewrite U32_val in *. lia.
  - intros t. rewrite ids_of_length, crun_tids. reflexivity.
  - intros t1 t2 id H1 H2. apply ids_of_in in H1, H2.
    (* two entries with the same id in a list whose ids are distinct *)
    revert Hnd H1 H2. generalize (crun sched) as l. induction l as [|[t i] l IH]; [intros _ []|].
    cbn [map snd]. intros Hnd H1 H2. inversion Hnd as [|? ? Hni Hnd']; subst.
    destruct H1 as [E1|H1], H2 as [E2|H2].
    + congruence.
    + injection E1 as -> ->. exfalso. apply Hni. apply in_map_iff. exists (t2, id). split; [reflexivity | exact H2].
    + injection E2 as -> ->. exfalso. apply Hni. apply in_map_iff. exists (t1, id). split; [reflexivity | exact H1].
    + exact (IH Hnd' H1 H2).
Qed.

(** * The stream of a program under a fresh sender, in closed form *)
Fixpoint tab (off : nat) (spans : list nat) : list (nat * option N) :=
  match spans with
  | [] => []
  | cs :: r => (cs, Some (id_of_index off)) :: tab (S off) r
  end.

Lemma tab_app off a b : tab off (a ++ b) = tab off a ++ tab (off + List.length a) b.
Proof.
  revert off. induction a as [|x a IH]; intros off; cbn [tab app List.length].
  - rewrite Nat.add_0_r. reflexivity.
  - rewrite IH. do 3 f_equal. lia.
Qed.

Lemma tab_nth off spans k :
  nth_error (tab off spans) k
  = option_map (fun cs => (cs, Some (id_of_index (off + k)))) (nth_error spans k).
Proof.
  revert off k. induction spans as [|x r IH]; intros off [|k]; cbn [tab nth_error option_map];
    try reflexivity.
  - rewrite Nat.add_0_r. reflexivity.
  - rewrite IH. replace (S off + k)%nat with (off + S k)%nat by lia. reflexivity.
Qed.

Lemma tab_length off spans : List.length (tab off spans) = List.length spans.
Proof. revert off. induction spans as [|x r IH]; intros off; cbn [tab List.length]; [|rewrite IH]; reflexivity. Qed.

(** the front end's span table under a fresh sender without wrap *)
Definition FInv (fs : front_state) (spans : list nat) : Prop :=
  fs_spans fs = tab 0 spans /\ fs_allocs fs = N.of_nat (List.length spans).

Lemma FInv_span_id fs spans k : FInv fs spans -> fs_span_id fs k = spec_id (List.length spans) k.
Proof.
  intros [H _]. unfold fs_span_id, spec_id. rewrite H, tab_nth. cbn [Nat.add].
  destruct (Nat.ltb_spec k (List.length spans)) as [Hlt|Hge].
  - destruct (nth_error spans k) eqn:E; [reflexivity|]. apply nth_error_None in E. lia.
  - apply nth_error_None in Hge. rewrite Hge. reflexivity.
Qed.

Lemma FInv_parent fs spans p :
  FInv fs spans -> sender_parent (front_parent fs p) = spec_parent (List.length spans) p.
Proof.
  intros H. destruct p as [| |k]; cbn [front_parent sender_parent spec_parent]; try reflexivity.
  rewrite (FInv_span_id _ _ k H). destruct (spec_id _ k); reflexivity.
Qed.

Lemma op_events_app a b : op_events (a ++ b) = op_events a ++ op_events b.
Proof. apply filter_app. Qed.

Lemma op_events_register mid sites fs cs :
  op_events (map (sender_event mid sites) (fst (front_register fs cs))) = [].
Proof. unfold front_register. destruct (registered fs cs); reflexivity. Qed.

Lemma somes_cons {A} (x : option A) l :
  somes (x :: l) = match x with Some a => [a] | None => [] end ++ somes l.
Proof. reflexivity. Qed.

(** one op *)
Lemma front_step_spec mid sites fs spans o :
  FInv fs spans ->
  (match o with ONewSpan _ _ _ => known_id_wrap (N.of_nat (List.length spans)) = false | _ => True end) ->
  exists calls fs',
    front_step sender_alloc all_enabled sites fs o = (calls, fs', false)
    /\ op_events (map (sender_event mid sites) calls)
       = match spec_event mid sites spans o with Some e => [e] | None => [] end
    /\ FInv fs' (spans_after spans o).
Proof.
  intros HI Hw. pose proof HI as [Hsp Hal].
  destruct o as [cs p vals|k vals|k|k|k|k|k t|cs p vals]; cbn [front_step spec_event spans_after].
  - (* new span *)
    pose proof (op_events_register mid sites fs cs) as Hreg.
    destruct (front_register fs cs) as [reg regs]. cbn [fst] in Hreg.
    unfold all_enabled. rewrite Hal, (sender_alloc_ok _ Hw).
    eexists _, _. split; [reflexivity|]. split.
    + rewrite map_app, op_events_app, Hreg. cbn [app map sender_event op_events filter is_announce negb].
      rewrite (FInv_parent _ _ _ HI). unfold captured. rewrite from_value_set_denote_spec.
      unfold id_of_index. reflexivity.
    + split; cbn [fs_spans fs_allocs].
      * rewrite Hsp, tab_app. cbn [tab Nat.add]. unfold id_of_index. reflexivity.
      * rewrite app_length. cbn [List.length]. lia.
  - (* record *)
    rewrite Hsp, tab_nth. cbn [Nat.add]. destruct (nth_error spans k) as [cs|]; cbn [option_map].
    + eexists _, _. split; [reflexivity|]. split; [|exact HI].
      cbn [map sender_event op_events filter is_announce negb]. unfold captured.
      rewrite from_value_set_denote_spec. reflexivity.
    + eexists _, _. split; [reflexivity|]. split; [reflexivity | exact HI].
  - rewrite (FInv_span_id _ _ k HI). eexists _, _. split; [reflexivity|]. split; [|exact HI].
    destruct (spec_id _ k); reflexivity.
  - rewrite (FInv_span_id _ _ k HI). eexists _, _. split; [reflexivity|]. split; [|exact HI].
    destruct (spec_id _ k); reflexivity.
  - rewrite (FInv_span_id _ _ k HI). eexists _, _. split; [reflexivity|]. split; [|exact HI].
    destruct (spec_id _ k); reflexivity.
  - rewrite (FInv_span_id _ _ k HI). eexists _, _. split; [reflexivity|]. split; [|exact HI].
    destruct (spec_id _ k); reflexivity.
  - (* follows *)
    rewrite (FInv_span_id _ _ k HI). eexists _, _. split; [reflexivity|]. split; [|exact HI].
    destruct t as [j|raw].
    + rewrite (FInv_span_id _ _ j HI). destruct (spec_id _ k); [|reflexivity].
      destruct (spec_id _ j); reflexivity.
    + destruct (spec_id _ k); reflexivity.
  - (* event *)
    pose proof (op_events_register mid sites fs cs) as Hreg.
    destruct (front_register fs cs) as [reg regs]. cbn [fst] in Hreg. unfold all_enabled.
    eexists _, _. split; [reflexivity|]. split; [|split; [exact Hsp | exact Hal]].
    rewrite map_app, op_events_app, Hreg. cbn [app map sender_event op_events filter is_announce negb].
    rewrite (FInv_parent _ _ _ HI). unfold captured. rewrite from_value_set_denote_spec. reflexivity.
Qed.

Fixpoint nspans (ops : list (nat * op)) : nat :=
  match ops with
  | [] => O
  | (_, ONewSpan _ _ _) :: r => S (nspans r)
  | _ :: r => nspans r
  end.
Lemma spans_created_nspans ops : spans_created ops = N.of_nat (nspans ops).
Proof.
  induction ops as [|[t o] r IH]; [reflexivity|]. destruct o; cbn [spans_created nspans]; try exact IH.
  rewrite IH. lia.
Qed.

Lemma spans_after_length spans o :
  List.length (spans_after spans o)
  = (List.length spans + match o with ONewSpan _ _ _ => 1 | _ => 0 end)%nat.
Proof. destruct o; cbn [spans_after]; rewrite ?app_length; cbn [List.length]; lia. Qed.

(** all ops: no panic, and the non-announcement events are the closed form *)
Lemma front_steps_spec mid sites ops : forall fs spans,
  FInv fs spans ->
  N.of_nat (List.length spans) + spans_created ops <= U32 - 1 ->
  snd (front_steps sender_alloc all_enabled sites fs ops) = false
  /\ op_events (map (sender_event mid sites) (fst (front_steps sender_alloc all_enabled sites fs ops)))
     = somes (spec_events mid sites spans ops).
Proof.
  induction ops as [|[t o] r IH]; intros fs spans HI Hb; [split; reflexivity|].
  cbn [front_steps spec_events snd].
  assert (Hw : match o with
               | ONewSpan _ _ _ => known_id_wrap (N.of_nat (List.length spans)) = false
               | _ => True end).
  { destruct o; try exact I. apply known_id_wrap_false. cbn [spans_created] in Hb.
    rewrite spans_created_nspans in Hb. lia. }
  destruct (front_step_spec mid sites fs spans o HI Hw) as [calls [fs' [E [Hev HI']]]].
  rewrite E.
  assert (Hb' : N.of_nat (List.length (spans_after spans o)) + spans_created r <= U32 - 1).
  { rewrite spans_after_length. destruct o; cbn [spans_created] in Hb; lia. }
  destruct (IH fs' _ HI' Hb') as [IH1 IH2].
  destruct (front_steps sender_alloc all_enabled sites fs' r) as [rest b]. cbn [fst snd] in *.
  split; [exact IH1|]. rewrite map_app, op_events_app, Hev, IH2. rewrite somes_cons. reflexivity.
Qed.

Lemma FInv_init : FInv front_init [].
Proof. split; reflexivity. Qed.

Theorem sender_run_closed mid p :
  spans_created (p_ops p) <= U32 - 1 ->
  sender_panicked p = false
  /\ op_events (sender_run mid p) = somes (spec_events mid (p_sites p) [] (p_ops p)).
Proof.
  intros H. unfold sender_panicked, sender_panicked_from, sender_run, sender_run_from, front_run.
  apply front_steps_spec; [exact FInv_init | cbn [List.length]; lia].
Qed.

(** ** on well-formed programs every op yields its event *)
Lemma handles_lt st k : live st k = true -> (k < n_spans st)%nat.
Proof.
  unfold live, handles, n_spans. intros H. apply N.ltb_lt in H.
  destruct (nth_error (ss_spans st) k) eqn:E; [|lia].
  apply nth_error_Some. congruence.
Qed.

Lemma map_site_set_handles l k h : map sp_site (set_handles l k h) = map sp_site l.
Proof.
  revert k. induction l as [|s l IH]; intros [|k]; cbn [set_handles map]; try reflexivity.
  rewrite IH. reflexivity.
Qed.

Lemma spec_id_lt n k : (k < n)%nat -> spec_id n k = Some (id_of_index k).
Proof. intros H. unfold spec_id. destruct (Nat.ltb_spec k n); [reflexivity | lia]. Qed.

Lemma wf_step_spec_some mid sites st o st' :
  wf_step false sites st o = Some st' ->
  (exists e, spec_event mid sites (map sp_site (ss_spans st)) (snd o) = Some e)
  /\ map sp_site (ss_spans st') = spans_after (map sp_site (ss_spans st)) (snd o).
Proof.
  destruct o as [tid o]. cbn [snd].
  assert (Hlen : List.length (map sp_site (ss_spans st)) = n_spans st) by apply map_length.
  destruct o as [cs p vals|k vals|k|k|k|k|k t|cs p vals]; cbn [wf_step fst snd spec_event spans_after].
  - destruct (_ && _); [|discriminate]. intros [= <-]. cbn [ss_spans]. rewrite map_app.
    split; [eexists; reflexivity | reflexivity].
  - unfold span_site. rewrite nth_error_map.
    destruct (nth_error (ss_spans st) k) as [s|]; cbn [option_map]; [|discriminate].
    destruct (_ && _); [|discriminate]. intros [= <-]. split; [eexists; reflexivity | reflexivity].
  - destruct (live st k) eqn:L; [|discriminate]. intros [= <-]. cbn [ss_spans].
    rewrite Hlen, (spec_id_lt _ _ (handles_lt _ _ L)). split; [eexists; reflexivity | reflexivity].
  - destruct (live st k) eqn:L; [|discriminate]. cbn [andb]. destruct (on_stack _ _); [|discriminate].
    intros [= <-]. cbn [ss_spans].
    rewrite Hlen, (spec_id_lt _ _ (handles_lt _ _ L)). split; [eexists; reflexivity | reflexivity].
  - destruct (live st k) eqn:L; [|discriminate]. intros [= <-]. cbn [ss_spans].
    rewrite Hlen, (spec_id_lt _ _ (handles_lt _ _ L)), map_site_set_handles.
    split; [eexists; reflexivity | reflexivity].
  - destruct (live st k) eqn:L; [|discriminate]. cbn [andb]. destruct (_ || _); [|discriminate].
    intros [= <-]. cbn [ss_spans].
    rewrite Hlen, (spec_id_lt _ _ (handles_lt _ _ L)), map_site_set_handles.
    split; [eexists; reflexivity | reflexivity].
  - destruct (live st k) eqn:L; [|discriminate]. cbn [andb].
    rewrite Hlen, (spec_id_lt _ _ (handles_lt _ _ L)). destruct t as [j|raw].
    + destruct (live st j) eqn:Lj; [|discriminate]. intros [= <-].
      rewrite (spec_id_lt _ _ (handles_lt _ _ Lj)). split; [eexists; reflexivity | reflexivity].
    + cbn [andb]. discriminate.
  - destruct (_ && _); [|discriminate]. intros [= <-]. split; [eexists; reflexivity | reflexivity].
Qed.

Lemma wf_steps_spec_some mid sites ops : forall st st',
  wf_steps false sites st ops = Some st' ->
  spec_events mid sites (map sp_site (ss_spans st)) ops
  = map Some (somes (spec_events mid sites (map sp_site (ss_spans st)) ops)).
Proof.
  induction ops as [|o r IH]; intros st st' H; [reflexivity|].
  cbn [wf_steps] in H. destruct (wf_step false sites st o) as [st1|] eqn:E; [|discriminate].
  destruct (wf_step_spec_some mid sites st o st1 E) as [[e He] Hs].
  cbn [spec_events]. rewrite He, <- Hs. rewrite somes_cons. cbn [app map]. f_equal.
  exact (IH st1 st' H).
Qed.

Lemma wf_prog_sym_run p : wf_prog_b p = true -> exists st, sym_run false p = Some st.
Proof.
  unfold wf_prog_b, wf_prog_gen_b. intros H. apply andb_true_iff in H as [_ H].
  destruct (sym_run false p) as [st|]; [eexists; reflexivity | discriminate].
Qed.

Lemma spec_events_length mid sites ops : forall spans,
  List.length (spec_events mid sites spans ops) = List.length ops.
Proof.
  induction ops as [|o r IH]; intros spans; [reflexivity|].
  cbn [spec_events List.length]. rewrite IH. reflexivity.
Qed.

Theorem sender_one_per_op_proof mid p :
  wf_prog_b p = true -> spans_created (p_ops p) <= U32 - 1 ->
  sender_panicked p = false
  /\ map Some (op_events (sender_run mid p)) = spec_events mid (p_sites p) [] (p_ops p)
  /\ List.length (op_events (sender_run mid p)) = List.length (p_ops p).
Proof.
  intros Hwf Hb. destruct (sender_run_closed mid p Hb) as [Hp Hev].
  destruct (wf_prog_sym_run p Hwf) as [st Hst]. unfold sym_run in Hst.
  pose proof (wf_steps_spec_some mid (p_sites p) (p_ops p) sym_init st Hst) as Hs.
  cbn [sym_init ss_spans map] in Hs.
  split; [exact Hp|]. rewrite Hev. split; [symmetry; exact Hs|].
  rewrite <- (spec_events_length mid (p_sites p) (p_ops p) []).
  rewrite Hs at 2. rewrite map_length. reflexivity.
Qed.

(** * Call sites are announced before use (every program, every allocator, every filter) *)
Definition uses (c : scall) (cs : nat) : Prop :=
  match c with SNewSpan _ cs' _ _ | SEvent cs' _ _ => cs' = cs | _ => False end.

Fixpoint ann_ok (known : list nat) (calls : list scall) : Prop :=
  match calls with
  | [] => True
  | SRegister cs :: r => ann_ok (cs :: known) r
  | c :: r => (forall cs, uses c cs -> In cs known) /\ ann_ok known r
  end.

Lemma ann_ok_mono calls : forall k1 k2, (forall x, In x k1 -> In x k2) -> ann_ok k1 calls -> ann_ok k2 calls.
Proof.
  induction calls as [|c r IH]; intros k1 k2 Hs H; [exact I|].
  destruct c; cbn [ann_ok] in *;
    try (destruct H as [H1 H2]; split; [intros cs0 Hu; apply Hs, H1, Hu | exact (IH _ _ Hs H2)]).
  apply (IH (cs :: k1)); [|exact H]. intros x [->|Hx]; [left; reflexivity | right; apply Hs, Hx].
Qed.

Fixpoint regs_of (calls : list scall) : list nat :=
  match calls with
  | [] => []
  | SRegister cs :: r => regs_of r ++ [cs]
  | _ :: r => regs_of r
  end.

Lemma ann_ok_app a : forall known b,
  ann_ok known a -> ann_ok (regs_of a ++ known) b -> ann_ok known (a ++ b).
Proof.
  induction a as [|c r IH]; intros known b Ha Hb; [exact Hb|].
  destruct c; cbn [ann_ok app regs_of] in *;
    try (destruct Ha as [H1 H2]; split; [exact H1 | exact (IH _ _ H2 Hb)]).
  apply IH; [exact Ha|]. rewrite <- app_assoc in Hb. exact Hb.
Qed.

Lemma registered_in fs cs : registered fs cs = true <-> In cs (fs_reg fs).
Proof.
  unfold registered. rewrite existsb_exists. split.
  - intros [x [Hx E]]. apply Nat.eqb_eq in E. subst. exact Hx.
  - intros H. exists cs. split; [exact H | apply Nat.eqb_refl].
Qed.

Local Ltac ann_done :=
  cbn [app ann_ok regs_of uses fs_reg];
  split; [repeat split; intros; subst; auto using in_eq; try contradiction | reflexivity].

(** one op: its calls are fine, and the registered set afterwards is the old one plus the
    registrations made *)
Lemma front_step_ann alloc enabled sites fs o calls fs' b :
  front_step alloc enabled sites fs o = (calls, fs', b) ->
  ann_ok (fs_reg fs) calls /\ fs_reg fs' = regs_of calls ++ fs_reg fs.
Proof.
  destruct o as [cs p vals|k vals|k|k|k|k|k t|cs p vals]; cbn [front_step].
  - unfold front_register. destruct (registered fs cs) eqn:R.
    + apply registered_in in R.
      destruct (enabled cs); [destruct (alloc _)|]; intros [= <- <- <-]; ann_done.
    + destruct (enabled cs); [destruct (alloc _)|]; intros [= <- <- <-]; ann_done.
  - destruct (nth_error (fs_spans fs) k) as [[cs [id|]]|]; intros [= <- <- <-]; ann_done.
  - destruct (fs_span_id fs k); intros [= <- <- <-]; ann_done.
  - destruct (fs_span_id fs k); intros [= <- <- <-]; ann_done.
  - destruct (fs_span_id fs k); intros [= <- <- <-]; ann_done.
  - destruct (fs_span_id fs k); intros [= <- <- <-]; ann_done.
  - destruct (fs_span_id fs k); [destruct t as [j|raw]; [destruct (fs_span_id fs j)|]|];
      intros [= <- <- <-]; ann_done.
  - unfold front_register. destruct (registered fs cs) eqn:R.
    + apply registered_in in R. destruct (enabled cs); intros [= <- <- <-]; ann_done.
    + destruct (enabled cs); intros [= <- <- <-]; ann_done.
Qed.

Lemma front_steps_ann alloc enabled sites ops : forall fs,
  ann_ok (fs_reg fs) (fst (front_steps alloc enabled sites fs ops)).
Proof.
  induction ops as [|o r IH]; intros fs; [exact I|]. cbn [front_steps].
  destruct (front_step alloc enabled sites fs (snd o)) as [[calls fs'] b] eqn:E.
  destruct (front_step_ann _ _ _ _ _ _ _ _ E) as [H1 H2].
  destruct b; [exact H1|]. specialize (IH fs').
  destruct (front_steps alloc enabled sites fs' r) as [rest b']. cbn [fst] in *.
  apply ann_ok_app; [exact H1|]. rewrite <- H2. exact IH.
Qed.

Lemma ann_ok_split pre : forall known c post cs,
  ann_ok known (pre ++ c :: post) -> uses c cs -> In cs known \/ In (SRegister cs) pre.
Proof.
  induction pre as [|d pre IH]; intros known c post cs H Hu.
  - left. cbn [app] in H. destruct c; cbn [uses] in Hu; try contradiction;
      cbn [ann_ok] in H; destruct H as [H _]; apply H; exact Hu.
  - cbn [app] in H.
    assert (Hcase : (exists cs', d = SRegister cs' /\ ann_ok (cs' :: known) (pre ++ c :: post))
                    \/ ann_ok known (pre ++ c :: post)).
    { destruct d; cbn [ann_ok] in H; try (right; exact (proj2 H)). left. eexists. split; [reflexivity | exact H]. }
    destruct Hcase as [[cs' [-> H']]|H'].
    + destruct (IH _ _ _ _ H' Hu) as [[<-|Hin]|Hin].
      * right. left. reflexivity.
      * left. exact Hin.
      * right. right. exact Hin.
    + destruct (IH _ _ _ _ H' Hu) as [Hin|Hin]; [left; exact Hin | right; right; exact Hin].
Qed.

Lemma event_meta_uses mid sites c m :
  event_meta (sender_event mid sites c) = Some m -> exists cs, uses c cs /\ m = mid cs.
Proof.
  destruct c; cbn [sender_event event_meta uses]; try discriminate; intros [= <-]; eexists; split; reflexivity.
Qed.

Theorem sender_announces_before_use_proof start mid p pre ev post m :
  sender_run_from start mid p = pre ++ ev :: post ->
  event_meta ev = Some m ->
  exists cs, m = mid cs /\ In (ENewCallSite (mid cs) (site_data (p_sites p) cs)) pre.
Proof.
  unfold sender_run_from, front_run. intros Hrun Hm.
  apply map_eq_app in Hrun as [l1 [l2 [Hl [Hpre Hrest]]]].
  apply map_eq_cons in Hrest as [c [l3 [-> [Hc _]]]]. subst ev pre.
  destruct (event_meta_uses _ _ _ _ Hm) as [cs [Hu ->]]. exists cs. split; [reflexivity|].
  pose proof (front_steps_ann (sender_alloc_from start) all_enabled (p_sites p) (p_ops p) front_init) as Ha.
  rewrite Hl in Ha. destruct (ann_ok_split _ _ _ _ _ Ha Hu) as [[]|Hin].
  apply in_map_iff. exists (SRegister cs). split; [reflexivity | exact Hin].
Qed.

(** every announcement carries the description of the call site it names *)
Theorem sender_announcements_content_proof start mid p m d :
  In (ENewCallSite m d) (sender_run_from start mid p) ->
  exists cs, m = mid cs /\ d = site_data (p_sites p) cs.
Proof.
  unfold sender_run_from. intros H. apply in_map_iff in H as [c [Hc _]].
  destruct c; cbn [sender_event] in Hc; try discriminate. injection Hc as <- <-.
  eexists. split; reflexivity.
Qed.

(** * Span ids of the stream *)
Lemma new_span_ids_op_events evs : new_span_ids (op_events evs) = new_span_ids evs.
Proof.
  induction evs as [|e r IH]; [reflexivity|]. unfold op_events, new_span_ids in *. cbn [filter flat_map].
  destruct e; cbn [is_announce negb flat_map app]; rewrite IH; reflexivity.
Qed.

Lemma new_span_ids_spec mid sites ops : forall spans,
  new_span_ids (somes (spec_events mid sites spans ops))
  = map id_of_index (seq (List.length spans) (nspans ops)).
Proof.
  induction ops as [|[t o] r IH]; intros spans; [reflexivity|].
  cbn [spec_events snd]. rewrite somes_cons. unfold new_span_ids in *. rewrite flat_map_app, IH.
  rewrite spans_after_length.
  destruct o as [cs p vals|k vals|k|k|k|k|k tg|cs p vals]; cbn [spec_event nspans];
    rewrite ?Nat.add_0_r;
    try (destruct (spec_id _ k); reflexivity).
  - cbn [flat_map app seq map]. rewrite Nat.add_1_r. reflexivity.
  - destruct (nth_error spans k); reflexivity.
  - destruct tg as [j|raw]; [destruct (spec_id _ k); [destruct (spec_id _ j)|]|destruct (spec_id _ k)]; reflexivity.
  - reflexivity.
Qed.

Theorem sender_ids_fresh_proof mid p :
  spans_created (p_ops p) <= U32 - 1 ->
  NoDup (new_span_ids (sender_run mid p))
  /\ Forall (fun id => id <> 0 /\ id < U32) (new_span_ids (sender_run mid p))
  /\ List.length (new_span_ids (sender_run mid p)) = nspans (p_ops p).
Proof.
  intros Hb. destruct (sender_run_closed mid p Hb) as [_ Hev].
  rewrite <- new_span_ids_op_events, Hev, new_span_ids_spec. cbn [List.length].
  split; [apply Injective_map_NoDup; [exact id_of_index_inj | apply seq_NoDup]|]. split.
  - apply Forall_forall. intros id Hin. apply in_map_iff in Hin as [i [<- Hi]]. apply in_seq in Hi.
    rewrite spans_created_nspans in Hb. unfold id_of_index. rewrite U32_val in *. lia.
  - rewrite map_length, seq_length. reflexivity.
Qed.

(** * The stream of a well-formed program is accepted by the abstract receiver *)
Lemma insert_length_le m k v : (List.length (fst (insert m k v)) <= S (List.length m))%nat.
Proof.
  induction m as [|[k' v'] m IH]; cbn [insert fst List.length]; [lia|].
  destruct (String.eqb k' k); cbn [fst List.length]; [lia|].
  destruct (insert m k v) as [r o]. cbn [fst List.length] in *. lia.
Qed.

Lemma from_value_set_length names vs : (List.length (from_value_set names vs) <= List.length vs)%nat.
Proof.
  unfold from_value_set.
  assert (H : forall m, (List.length (fold_left (record_entry names) vs m) <= List.length m + List.length vs)%nat).
  { induction vs as [|e vs IH]; intros m; cbn [fold_left List.length]; [lia|].
    specialize (IH (record_entry names m e)).
    assert ((List.length (record_entry names m e) <= S (List.length m))%nat).
    { unfold record_entry. destruct (snd e); [|lia]. destruct (nth_error names (fst e)); [|lia].
      apply insert_length_le. }
    lia. }
  specialize (H []). cbn [List.length] in H. lia.
Qed.

From stdpp Require Import gmap.
From TT Require Import Tunnel.ReceiverAbs.

Lemma wf_valset_fits names vs : wf_valset names vs = true -> fits (from_value_set names vs) = true.
Proof.
  unfold wf_valset, fits, len, MAX_VALUES, max_values. intros H. apply andb_true_iff in H as [H _].
  apply Nat.leb_le in H. apply N.leb_le. pose proof (from_value_set_length names vs). lia.
Qed.

Definition accepts (a : astate) (evs : list event) (a' : astate) : Prop :=
  arun a evs = (repeat Accepted (List.length evs), a').

Lemma accepts_nil a : accepts a [] a.
Proof. reflexivity. Qed.

Lemma accepts_app a e1 a1 e2 a2 : accepts a e1 a1 -> accepts a1 e2 a2 -> accepts a (e1 ++ e2) a2.
Proof.
  unfold accepts. revert a. induction e1 as [|ev r IH]; intros a H1 H2.
  - cbn in H1. injection H1 as <-. exact H2.
  - cbn [arun app List.length repeat] in *. destruct (astep a ev) as [o a0].
    destruct (arun a0 r) as [os a0'] eqn:E. injection H1 as -> -> ->.
    rewrite (IH a0 E H2). reflexivity.
Qed.

Lemma accepts_one a ev :
  ref_outcome a ev = Accepted ->
  accepts a [ev] (mk_a (match ev with ENewCallSite id d => <[id := d]> (a_meta a) | _ => a_meta a end)
                       (spec_step (a_spans a) ev)).
Proof. unfold accepts. cbn [arun List.length repeat]. unfold astep. intros ->. reflexivity. Qed.

(** ** facts about the symbolic state *)
Lemma id_of_index_pred k : N.to_nat (id_of_index k - 1) = k.
Proof. unfold id_of_index. lia. Qed.
Lemma id_of_index_nz k : (id_of_index k =? 0) = false.
Proof. unfold id_of_index. apply N.eqb_neq. lia. Qed.

Lemma live_refs_index st k : live_refs st (id_of_index k) = if 0 <? handles st k then Some (handles st k) else None.
Proof. unfold live_refs. rewrite id_of_index_nz, id_of_index_pred. reflexivity. Qed.

Lemma live_refs_other st st' id :
  (forall k, id = id_of_index k -> handles st' k = handles st k) -> live_refs st' id = live_refs st id.
Proof.
  intros H. unfold live_refs. destruct (N.eqb_spec id 0) as [|Hnz]; [reflexivity|].
  rewrite (H (N.to_nat (id - 1))); [reflexivity|]. unfold id_of_index. lia.
Qed.

Lemma handles_app spans stk s k :
  handles (mk_sym (spans ++ [s]) stk) k
  = if Nat.eqb k (List.length spans) then sp_handles s else handles (mk_sym spans stk) k.
Proof.
  unfold handles. cbn [ss_spans]. destruct (Nat.eqb_spec k (List.length spans)) as [->|Hne].
  - rewrite nth_error_app2 by lia. rewrite Nat.sub_diag. reflexivity.
  - destruct (Nat.lt_ge_cases k (List.length spans)) as [Hlt|Hge].
    + rewrite nth_error_app1 by exact Hlt. reflexivity.
    + assert (E1 : nth_error (spans ++ [s]) k = None)
        by (apply nth_error_None; rewrite app_length; cbn [List.length]; lia).
      assert (E2 : nth_error spans k = None) by (apply nth_error_None; lia).
      rewrite E1, E2. reflexivity.
Qed.

Lemma handles_set spans stk k h k' :
  (k < List.length spans)%nat ->
  handles (mk_sym (set_handles spans k h) stk) k' = if Nat.eqb k' k then h else handles (mk_sym spans stk) k'.
Proof.
  unfold handles. cbn [ss_spans]. revert k k'.
  induction spans as [|s r IH]; intros k k' Hlt; [cbn [List.length] in Hlt; lia|].
  destruct k as [|k], k' as [|k']; cbn [set_handles nth_error Nat.eqb sp_handles]; try reflexivity.
  apply IH. cbn [List.length] in Hlt. lia.
Qed.

Lemma handles_stacks st stk k : handles (mk_sym (ss_spans st) stk) k = handles st k.
Proof. reflexivity. Qed.

(** ** the simulation invariant *)
Record WInv (mid : nat -> N) (st : sym_state) (fs : front_state) (a : astate) : Prop := mk_winv {
  wi_front : FInv fs (map sp_site (ss_spans st));
  wi_reg : forall cs, In cs (fs_reg fs) -> is_Some (a_meta a !! mid cs);
  wi_refs : forall id, sd_refs <$> (a_spans a !! id) = live_refs st id }.

Lemma WInv_alive mid st fs a k :
  WInv mid st fs a -> live st k = true ->
  exists d, a_spans a !! id_of_index k = Some d /\ sd_refs d = handles st k.
Proof.
  intros HI L. pose proof (wi_refs _ _ _ _ HI (id_of_index k)) as H.
  rewrite live_refs_index in H. unfold live in L. rewrite L in H.
  destruct (a_spans a !! id_of_index k) as [d|]; [|discriminate].
  exists d. split; [reflexivity|]. cbn in H. congruence.
Qed.

Lemma WInv_a_alive mid st fs a k : WInv mid st fs a -> live st k = true -> a_alive a (id_of_index k) = true.
Proof.
  intros HI L. destruct (WInv_alive _ _ _ _ _ HI L) as [d [E _]]. unfold a_alive. rewrite E.
  apply bool_decide_eq_true. eexists. reflexivity.
Qed.

Lemma WInv_span_id mid st fs a k :
  WInv mid st fs a -> live st k = true -> fs_span_id fs k = Some (id_of_index k).
Proof.
  intros HI L. rewrite (FInv_span_id _ _ k (wi_front _ _ _ _ HI)), map_length.
  apply spec_id_lt. exact (handles_lt _ _ L).
Qed.

Lemma WInv_parent_ok mid st fs a p :
  WInv mid st fs a -> wf_parent st p = true -> check_parent a (sender_parent (front_parent fs p)) = Accepted.
Proof.
  intros HI Hp. destruct p as [| |k]; cbn [front_parent sender_parent check_parent]; try reflexivity.
  cbn [wf_parent] in Hp. rewrite (WInv_span_id _ _ _ _ _ HI Hp). cbn [sender_parent check_parent].
  rewrite (WInv_a_alive _ _ _ _ _ HI Hp). reflexivity.
Qed.

(** registration of a call site *)
Lemma WInv_register mid sites st fs a cs reg regs :
  WInv mid st fs a -> front_register fs cs = (reg, regs) ->
  exists a', accepts a (map (sender_event mid sites) reg) a'
    /\ WInv mid st (mk_fs (fs_spans fs) (fs_allocs fs) regs) a'
    /\ a_known a' (mid cs) = true.
Proof.
  intros HI. unfold front_register. destruct (registered fs cs) eqn:R; intros [= <- <-].
  - exists a. split; [apply accepts_nil|]. apply registered_in in R. split.
    + destruct HI as [H1 H2 H3]. split; [exact H1 | exact H2 | exact H3].
    + unfold a_known. apply bool_decide_eq_true. exact (wi_reg _ _ _ _ HI cs R).
  - cbn [map sender_event]. eexists. split; [apply accepts_one; reflexivity|]. cbn [spec_step]. split.
    + destruct HI as [H1 H2 H3]. split; cbn [a_meta a_spans fs_reg]; [exact H1 | | exact H3].
      intros cs' [<-|Hin].
      * rewrite lookup_insert. eexists. reflexivity.
      * destruct (decide (mid cs = mid cs')) as [E|E].
        -- rewrite E, lookup_insert. eexists. reflexivity.
        -- rewrite lookup_insert_ne by exact E. exact (H2 cs' Hin).
    + unfold a_known. cbn [a_meta]. rewrite lookup_insert. apply bool_decide_eq_true. eexists. reflexivity.
Qed.

Lemma astate_eta a : mk_a (a_meta a) (a_spans a) = a.
Proof. destruct a. reflexivity. Qed.

Lemma WInv_stacks mid st fs a stk : WInv mid st fs a -> WInv mid (mk_sym (ss_spans st) stk) fs a.
Proof. intros [H1 H2 H3]. split; [exact H1 | exact H2 | exact H3]. Qed.

Lemma wf_site_use_fits sites kind cs vals :
  wf_site_use sites kind cs vals = true -> fits (from_value_set (site_fields sites cs) vals) = true.
Proof.
  unfold wf_site_use, site_fields. destruct (nth_error sites cs) as [d|]; [|discriminate].
  intros H. apply andb_true_iff in H as [_ H]. exact (wf_valset_fits _ _ H).
Qed.

(** events on one alive span that leave the abstract state alone *)
Lemma accepts_span_event mid st fs a k ev :
  WInv mid st fs a -> live st k = true ->
  ev = ESpanEntered (id_of_index k) \/ ev = ESpanExited (id_of_index k) ->
  accepts a [ev] a.
Proof.
  intros HI L Hev. pose proof (WInv_a_alive _ _ _ _ _ HI L) as Ha.
  rewrite <- (astate_eta a) at 2.
  destruct Hev as [-> | ->]; (eapply eq_ind; [apply accepts_one|reflexivity]);
    cbn [ref_outcome]; unfold check_span; rewrite Ha; reflexivity.
Qed.

(** one op of a well-formed program: no panic, its events are accepted, the invariant is kept *)
Lemma sender_step_wf mid sites st o st' fs a :
  wf_step false sites st o = Some st' ->
  WInv mid st fs a ->
  (match snd o with ONewSpan _ _ _ => known_id_wrap (N.of_nat (n_spans st)) = false | _ => True end) ->
  exists calls fs' a',
    front_step sender_alloc all_enabled sites fs (snd o) = (calls, fs', false)
    /\ accepts a (map (sender_event mid sites) calls) a'
    /\ WInv mid st' fs' a'.
Proof.
  destruct o as [tid o]. cbn [snd]. intros Hwf HI Hw.
  pose proof (wi_front _ _ _ _ HI) as [Hsp Hal]. rewrite map_length in Hal.
  destruct o as [cs p vals|k vals|k|k|k|k|k t|cs p vals]; cbn [wf_step fst snd] in Hwf; cbn [front_step].
  - (* new span *)
    destruct (wf_site_use sites KSpan cs vals) eqn:Hsite; [|discriminate]. cbn [andb] in Hwf.
    destruct (wf_parent st p) eqn:Hpar; [|discriminate]. injection Hwf as <-.
    destruct (front_register fs cs) as [reg regs] eqn:R.
    destruct (WInv_register mid sites st fs a cs reg regs HI R) as [a1 [Hacc1 [HI1 Hknown]]].
    unfold all_enabled. rewrite Hal. change (N.of_nat (List.length (ss_spans st))) with (N.of_nat (n_spans st)).
    rewrite (sender_alloc_ok _ Hw).
    set (id := N.of_nat (n_spans st) + 1).
    set (vs := from_value_set (site_fields sites cs) vals).
    eexists _, _, _. split; [reflexivity|]. split.
    + rewrite map_app. eapply accepts_app; [exact Hacc1|]. cbn [map sender_event].
      apply accepts_one. cbn [ref_outcome]. fold vs. unfold vs at 1.
      rewrite (wf_site_use_fits _ _ _ _ Hsite), Hknown. cbn [negb].
      exact (WInv_parent_ok _ _ _ _ _ HI1 Hpar).
    + destruct HI1 as [_ H2 H3]. split; cbn [fs_spans fs_allocs fs_reg a_meta a_spans ss_spans spec_step].
      * split; cbn [fs_spans fs_allocs].
        -- rewrite Hsp, map_app, tab_app. cbn [tab Nat.add map sp_site]. rewrite map_length. reflexivity.
        -- rewrite map_length, app_length. cbn [List.length]. unfold id, n_spans. lia.
      * exact H2.
      * intros id'. cbn [fs_spans fs_allocs fs_reg] in H3.
        destruct (decide (id' = id)) as [->|Hne].
        -- rewrite lookup_insert. cbn. change id with (id_of_index (n_spans st)).
           rewrite live_refs_index, handles_app. unfold n_spans. rewrite Nat.eqb_refl. reflexivity.
        -- rewrite lookup_insert_ne by congruence. rewrite H3. symmetry. apply live_refs_other.
           intros k ->. rewrite handles_app.
           destruct (Nat.eqb_spec k (List.length (ss_spans st))) as [->|_]; [|reflexivity].
           exfalso. apply Hne. reflexivity.
  - (* record *)
    unfold span_site in Hwf. destruct (nth_error (ss_spans st) k) as [s|] eqn:Hk; [|discriminate].
    cbn [option_map] in Hwf. destruct (live st k) eqn:L; [|discriminate]. cbn [andb] in Hwf.
    destruct (wf_valset _ vals) eqn:Hv; [|discriminate]. injection Hwf as <-.
    rewrite Hsp, tab_nth, nth_error_map, Hk. cbn [option_map Nat.add].
    destruct (WInv_alive _ _ _ _ _ HI L) as [d [Ed Hd]].
    eexists _, _, _. split; [reflexivity|]. split.
    + cbn [map sender_event]. apply accepts_one. cbn [ref_outcome].
      rewrite (wf_valset_fits _ _ Hv). cbn [negb]. unfold check_span.
      rewrite (WInv_a_alive _ _ _ _ _ HI L). reflexivity.
    + destruct HI as [H1 H2 H3]. split; cbn [a_meta a_spans spec_step]; [exact H1 | exact H2|].
      rewrite Ed. intros id'. destruct (decide (id' = id_of_index k)) as [->|Hne].
      * rewrite lookup_insert. cbn. rewrite <- H3, Ed. reflexivity.
      * rewrite lookup_insert_ne by congruence. apply H3.
  - (* enter *)
    destruct (live st k) eqn:L; [|discriminate]. injection Hwf as <-.
    rewrite (WInv_span_id _ _ _ _ _ HI L). eexists _, _, _. split; [reflexivity|]. split.
    + cbn [map sender_event]. eapply accepts_span_event; [exact HI | exact L | left; reflexivity].
    + apply WInv_stacks. exact HI.
  - (* exit *)
    destruct (live st k) eqn:L; [|discriminate]. cbn [andb] in Hwf.
    destruct (on_stack _ k); [|discriminate]. injection Hwf as <-.
    rewrite (WInv_span_id _ _ _ _ _ HI L). eexists _, _, _. split; [reflexivity|]. split.
    + cbn [map sender_event]. eapply accepts_span_event; [exact HI | exact L | right; reflexivity].
    + apply WInv_stacks. exact HI.
  - (* clone *)
    destruct (live st k) eqn:L; [|discriminate]. injection Hwf as <-.
    rewrite (WInv_span_id _ _ _ _ _ HI L).
    destruct (WInv_alive _ _ _ _ _ HI L) as [d [Ed Hd]].
    eexists _, _, _. split; [reflexivity|]. split.
    + cbn [map sender_event]. apply accepts_one. cbn [ref_outcome]. unfold check_span.
      rewrite (WInv_a_alive _ _ _ _ _ HI L). reflexivity.
    + pose proof (handles_lt _ _ L) as Hlt. unfold n_spans in Hlt.
      destruct HI as [H1 H2 H3]. split; cbn [a_meta a_spans spec_step ss_spans]; [| exact H2|].
      * rewrite map_site_set_handles. exact H1.
      * rewrite Ed. intros id'. destruct (decide (id' = id_of_index k)) as [->|Hne].
        -- rewrite lookup_insert. cbn. rewrite live_refs_index, handles_set, Nat.eqb_refl by exact Hlt.
           rewrite Hd. destruct (N.ltb_spec 0 (handles st k + 1)); [reflexivity | lia].
        -- rewrite lookup_insert_ne by congruence. rewrite H3. symmetry. apply live_refs_other.
           intros k' ->. rewrite handles_set by exact Hlt.
           destruct (Nat.eqb_spec k' k) as [->|_]; [exfalso; apply Hne; reflexivity | reflexivity].
  - (* drop *)
    destruct (live st k) eqn:L; [|discriminate]. cbn [andb] in Hwf.
    destruct (_ || _); [|discriminate]. injection Hwf as <-.
    rewrite (WInv_span_id _ _ _ _ _ HI L).
    destruct (WInv_alive _ _ _ _ _ HI L) as [d [Ed Hd]].
    eexists _, _, _. split; [reflexivity|]. split.
    + cbn [map sender_event]. apply accepts_one. cbn [ref_outcome]. unfold check_span.
      rewrite (WInv_a_alive _ _ _ _ _ HI L). reflexivity.
    + pose proof (handles_lt _ _ L) as Hlt. unfold n_spans in Hlt.
      unfold live in L. apply N.ltb_lt in L.
      destruct HI as [H1 H2 H3]. split; cbn [a_meta a_spans spec_step ss_spans]; [| exact H2|].
      * rewrite map_site_set_handles. exact H1.
      * rewrite Ed, Hd. intros id'. destruct (decide (id' = id_of_index k)) as [->|Hne].
        -- rewrite live_refs_index, handles_set, Nat.eqb_refl by exact Hlt.
           destruct (N.eqb_spec (handles st k - 1) 0) as [E0|E0].
           ++ rewrite lookup_delete. destruct (N.ltb_spec 0 (handles st k - 1)); [lia | reflexivity].
           ++ rewrite lookup_insert. cbn. destruct (N.ltb_spec 0 (handles st k - 1)); [reflexivity | lia].
        -- assert (Hother : live_refs (mk_sym (set_handles (ss_spans st) k (handles st k - 1)) (ss_stacks st)) id'
                           = live_refs st id').
           { apply live_refs_other. intros k' ->. rewrite handles_set by exact Hlt.
             destruct (Nat.eqb_spec k' k) as [->|_]; [exfalso; apply Hne; reflexivity | reflexivity]. }
           rewrite Hother, <- H3.
           destruct (handles st k - 1 =? 0); [rewrite lookup_delete_ne | rewrite lookup_insert_ne]; congruence.
  - (* follows *)
    destruct (live st k) eqn:L; [|discriminate]. cbn [andb] in Hwf.
    destruct t as [j|raw]; [|cbn [andb] in Hwf; discriminate].
    destruct (live st j) eqn:Lj; [|discriminate]. injection Hwf as <-.
    rewrite (WInv_span_id _ _ _ _ _ HI L), (WInv_span_id _ _ _ _ _ HI Lj).
    eexists _, _, _. split; [reflexivity|]. split; [|exact HI].
    cbn [map sender_event]. rewrite <- (astate_eta a) at 2.
    eapply eq_ind; [apply accepts_one|reflexivity]. cbn [ref_outcome]. unfold check_span.
    rewrite (WInv_a_alive _ _ _ _ _ HI L), (WInv_a_alive _ _ _ _ _ HI Lj). reflexivity.
  - (* event *)
    destruct (wf_site_use sites KEvent cs vals) eqn:Hsite; [|discriminate]. cbn [andb] in Hwf.
    destruct (wf_parent st p) eqn:Hpar; [|discriminate]. injection Hwf as <-.
    destruct (front_register fs cs) as [reg regs] eqn:R.
    destruct (WInv_register mid sites st fs a cs reg regs HI R) as [a1 [Hacc1 [HI1 Hknown]]].
    unfold all_enabled. eexists _, _, _. split; [reflexivity|]. split.
    + rewrite map_app. eapply accepts_app; [exact Hacc1|]. cbn [map sender_event].
      apply accepts_one. cbn [ref_outcome].
      rewrite (wf_site_use_fits _ _ _ _ Hsite), Hknown. cbn [negb].
      exact (WInv_parent_ok _ _ _ _ _ HI1 Hpar).
    + cbn [spec_step]. rewrite astate_eta. exact HI1.
Qed.

Lemma wf_step_n_spans sites st o st' :
  wf_step false sites st o = Some st' ->
  n_spans st' = (n_spans st + match snd o with ONewSpan _ _ _ => 1 | _ => 0 end)%nat.
Proof.
  intros H. destruct (wf_step_spec_some (fun _ => 0) sites st o st' H) as [_ Hs].
  unfold n_spans. rewrite <- (map_length sp_site (ss_spans st')), Hs, spans_after_length, map_length.
  reflexivity.
Qed.

Lemma sender_steps_wf mid sites ops : forall st st' fs a,
  wf_steps false sites st ops = Some st' ->
  WInv mid st fs a ->
  N.of_nat (n_spans st) + spans_created ops <= U32 - 1 ->
  snd (front_steps sender_alloc all_enabled sites fs ops) = false
  /\ exists a' fs',
      accepts a (map (sender_event mid sites) (fst (front_steps sender_alloc all_enabled sites fs ops))) a'
      /\ WInv mid st' fs' a'.
Proof.
  induction ops as [|o r IH]; intros st st' fs a Hwf HI Hb.
  - cbn [wf_steps] in Hwf. injection Hwf as <-. split; [reflexivity|].
    exists a, fs. split; [apply accepts_nil | exact HI].
  - cbn [wf_steps] in Hwf. destruct (wf_step false sites st o) as [st1|] eqn:E; [|discriminate].
    assert (Hw : match snd o with
                 | ONewSpan _ _ _ => known_id_wrap (N.of_nat (n_spans st)) = false
                 | _ => True end).
    { destruct o as [t [| | | | | | |]]; cbn [snd]; try exact I. apply known_id_wrap_false.
      cbn [spans_created] in Hb. rewrite spans_created_nspans in Hb. lia. }
    destruct (sender_step_wf mid sites st o st1 fs a E HI Hw) as [calls [fs1 [a1 [Hstep [Hacc HI1]]]]].
    assert (Hb1 : N.of_nat (n_spans st1) + spans_created r <= U32 - 1).
    { rewrite (wf_step_n_spans _ _ _ _ E). destruct o as [t [| | | | | | |]]; cbn [snd spans_created] in *; lia. }
    destruct (IH st1 st' fs1 a1 Hwf HI1 Hb1) as [Hp [a' [fs' [Hacc' HI']]]].
    cbn [front_steps]. rewrite Hstep.
    destruct (front_steps sender_alloc all_enabled sites fs1 r) as [rest b]. cbn [fst snd] in *.
    split; [exact Hp|]. exists a', fs'. split; [|exact HI'].
    rewrite map_app. eapply accepts_app; [exact Hacc | exact Hacc'].
Qed.

Lemma WInv_init mid : WInv mid sym_init front_init a_init.
Proof.
  split.
  - exact FInv_init.
  - intros cs [].
  - intros id. cbn [a_init a_spans]. rewrite lookup_empty. cbn. unfold live_refs, handles. cbn [sym_init ss_spans].
    destruct (id =? 0); [reflexivity|]. destruct (N.to_nat (id - 1)); reflexivity.
Qed.

Theorem sender_wf_proof mid p :
  wf_prog_b p = true -> spans_created (p_ops p) <= U32 - 1 ->
  exists st, sym_run false p = Some st
    /\ Forall (fun o => o = Accepted) (fst (arun a_init (sender_run mid p)))
    /\ (forall id, sd_refs <$> (a_spans (snd (arun a_init (sender_run mid p))) !! id) = live_refs st id)
    /\ sender_panicked p = false.
Proof.
  intros Hwf Hb. destruct (wf_prog_sym_run p Hwf) as [st Hst]. exists st. split; [exact Hst|].
  unfold sym_run in Hst.
  destruct (sender_steps_wf mid (p_sites p) (p_ops p) sym_init st front_init a_init Hst (WInv_init mid))
    as [Hp [a' [fs' [Hacc HI']]]]; [cbn; lia|].
  unfold sender_run, sender_run_from, sender_panicked, sender_panicked_from, front_run.
  unfold accepts, sender_alloc in *. rewrite Hacc. cbn [fst snd]. split; [|split; [|exact Hp]].
  - apply Forall_forall. intros o Ho. apply repeat_spec in Ho. exact Ho.
  - exact (wi_refs _ _ _ _ HI').
Qed.

(** * The stream is the image of the subscriber calls *)
Lemma op_events_map mid sites calls :
  op_events (map (sender_event mid sites) calls) = map (sender_event mid sites) (op_calls calls).
Proof.
  unfold op_events, op_calls. induction calls as [|c r IH]; [reflexivity|].
  cbn [map List.filter]. destruct c; cbn [sender_event is_announce is_register negb map]; rewrite IH; reflexivity.
Qed.

Theorem sender_image_proof start mid p :
  let calls := fst (front_run (sender_alloc_from start) all_enabled p) in
  sender_run_from start mid p = map (sender_event mid (p_sites p)) calls
  /\ op_events (sender_run_from start mid p) = map (sender_event mid (p_sites p)) (op_calls calls)
  /\ List.length (sender_run_from start mid p) = List.length calls.
Proof.
  cbn zeta. unfold sender_run_from. split; [reflexivity|]. split; [apply op_events_map | apply map_length].
Qed.

(** * The known finding: the unbounded freshness statement fails *)
Theorem ids_wrap_refuted_proof :
  (exists n, known_id_wrap n = true /\ sender_alloc n = None)
  /\ (exists n m, n <> m /\ known_id_wrap m = true /\ sender_alloc n = sender_alloc m /\ sender_alloc n <> None)
  /\ ~ (forall n, exists id, sender_alloc n = Some id /\ id <> 0)
  /\ ~ (forall n m, n <> m -> sender_alloc n <> sender_alloc m).
Proof.
  destruct ids_wrap_witness as [K1 [A1 [K2 [A2 A3]]]].
  split; [exists (U32 - 1); split; [exact K1 | exact A1]|].
  split.
  { exists 0, U32. split; [rewrite U32_val; discriminate|]. split; [exact K2|].
    split; [symmetry; exact A2 | rewrite A3; discriminate]. }
  split.
  - intros H. destruct (H (U32 - 1)) as [id [E _]]. rewrite A1 in E. discriminate.
  - intros H. apply (H U32 0); [rewrite U32_val; discriminate | exact A2].
Qed.

Lemma prog_wraps_false p : prog_wraps 1 p = false <-> spans_created (p_ops p) <= U32 - 1.
Proof.
  unfold prog_wraps. rewrite andb_false_iff, N.ltb_ge, known_id_wrap_false. rewrite U32_val. lia.
Qed.
