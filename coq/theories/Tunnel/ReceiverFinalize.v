(** Reference notions for C04 (persist commits, drop rolls back, the host's span context is
    restored), written from the property text: lifetimes, the unmatched-enter count as a fold over
    the accepted events, the saturating enter/exit balance of a call list, the host's per-thread
    span stack, the well-formedness clause "the last handle of a span is not dropped while the
    span is entered", and the outcome of an event as a function of the committed state.
    Definitions only. *)
From stdpp Require Import gmap.
From TT Require Export Tunnel.ReceiverSpec.

(** * Lifetimes

    A lifetime is the segment of a history between two non-[SRecv] steps: a receiver is created
    ([new] / [default]), processes events, and is finalised by [persist] or by [Drop]. *)

(** Processing the events of one lifetime: final state, world, the outcome of every event, and
    the host calls in order. *)
Fixpoint lrun (st : rstate) (w : world) (evs : list event)
  : rstate * world * list (event * outcome) * list hcall :=
  match evs with
  | [] => (st, w, [], [])
  | ev :: r =>
      let '(o, st1, w1, c1) := try_receive st w ev in
      let '(st2, w2, os, c2) := lrun st1 w1 r in
      (st2, w2, (ev, o) :: os, c1 ++ c2)
  end.

Definition is_accepted (o : outcome) : bool := match o with Accepted => true | _ => false end.
Definition accepted (os : list (event * outcome)) : list event :=
  map fst (List.filter (fun eo => is_accepted (snd eo)) os).

(** C06's proviso along a lifetime *)
Fixpoint lscope (st : rstate) (w : world) (evs : list event) : Prop :=
  match evs with
  | [] => True
  | ev :: r => no_reannounce st ev = true ∧
               let '(_, st1, w1, _) := try_receive st w ev in lscope st1 w1 r
  end.

(** The finalisation batch. *)
Definition is_recv (s : hstep) : bool := match s with SRecv _ => true | _ => false end.
Definition fin_calls (st : rstate) (fin : hstep) : list hcall :=
  match fin with
  | SPersist _ => snd (persist st)
  | SDrop => drop_calls st
  | SRecv _ => []
  end.

(** [pre] ends at a lifetime boundary *)
Definition boundary (pre : list hstep) : Prop :=
  pre = [] ∨ ∃ p s, pre = p ++ [s] ∧ is_recv s = false.

(** [steps] contains the lifetime "[evs] finalised by [fin]" after the prefix [pre] *)
Definition is_lifetime (steps pre : list hstep) (evs : list event) (fin : hstep) : Prop :=
  boundary pre ∧ is_recv fin = false ∧ ∃ post, steps = pre ++ map SRecv evs ++ fin :: post.

(** * The reference bookkeeping, from the property text *)

(** does this (accepted) event drop the last handle of a span, the alive spans being [sp]? *)
Definition last_drop (sp : gmap N span_data) (ev : event) : option N :=
  match ev with
  | ESpanDropped id =>
      match sp !! id with
      | Some d => if (sd_refs d - 1 =? 0)%N then Some id else None
      | None => None
      end
  | _ => None
  end.

(** the unmatched-enter count of span [id], one accepted event further: +1 on enter, -1
    saturating at 0 on exit, reset when the span dies *)
Definition ref_entered_step (sp : gmap N span_data) (ev : event) (id : N) (c : N) : N :=
  match ev with
  | ESpanEntered i => if (i =? id)%N then (c + 1)%N else c
  | ESpanExited i => if (i =? id)%N then N.pred c else c
  | _ => match last_drop sp ev with
         | Some i => if (i =? id)%N then 0%N else c
         | None => c
         end
  end.

(** ... after the accepted events [acc] of a lifetime that started with alive spans [sp] (the
    alive spans evolve by [spec_step], the reference fold of C02) *)
Fixpoint ref_entered (sp : gmap N span_data) (acc : list event) (id : N) (c : N) : N :=
  match acc with
  | [] => c
  | ev :: r => ref_entered (spec_step sp ev) r id (ref_entered_step sp ev id c)
  end.

(** a count as a map entry: no entry at 0 *)
Definition nz (c : N) : option N := if (c =? 0)%N then None else Some c.

(** was a [NewSpan id] accepted in this lifetime? *)
Definition is_new_span (id : N) (ev : event) : bool :=
  match ev with ENewSpan i _ _ _ => (i =? id)%N | _ => false end.
Definition born_in (acc : list event) (id : N) : bool := existsb (is_new_span id) acc.

(** * Enter/exit balance of a call list: a counter per host id that saturates at 0 *)
Definition bal_step (h : N) (n : N) (c : hcall) : N :=
  match c with
  | HEnter x => if (x =? h)%N then (n + 1)%N else n
  | HExit x => if (x =? h)%N then N.pred n else n
  | _ => n
  end.
Definition bal_from (n : N) (calls : list hcall) (h : N) : N := fold_left (bal_step h) calls n.
Definition bal (calls : list hcall) (h : N) : N := bal_from 0 calls h.

(** host ids mentioned by the enter / exit calls of a list *)
Definition ee_ids (calls : list hcall) : list N :=
  flat_map (fun c => match c with HEnter h | HExit h => [h] | _ => [] end) calls.

Definition is_exit_call (c : hcall) : bool := match c with HExit _ => true | _ => false end.
Definition is_close_call (c : hcall) : bool := match c with HTryClose _ => true | _ => false end.
Definition n_exits (h : N) (calls : list hcall) : N :=
  N.of_nat (List.length (List.filter (fun c => match c with HExit x => (x =? h)%N | _ => false end) calls)).
Definition close_ids (calls : list hcall) : list N :=
  flat_map (fun c => match c with HTryClose h => [h] | _ => [] end) calls.

(** * The host's per-thread stack of entered spans

    [tracing_subscriber::registry::stack::SpanStack]: [push] appends the id (duplicates allowed,
    flagged as duplicate when the id is already on the stack), [pop id] removes the entry of [id]
    closest to the top, if any; the current span is the topmost entry that is not flagged.
    The head of the list is the top of the stack.  The flag of an entry is "the id occurs below
    it": [pop] removes the topmost occurrence of an id, which never changes that fact for a
    remaining entry, so the flags are a function of the list of ids ([fstack_flags_determined]
    in the proofs). *)
Fixpoint remove_top (h : N) (s : list N) : list N :=
  match s with
  | [] => []
  | x :: r => if (x =? h)%N then r else x :: remove_top h r
  end.
Definition stack_step (s : list N) (c : hcall) : list N :=
  match c with
  | HEnter h => h :: s
  | HExit h => remove_top h s
  | _ => s
  end.
Definition stack_apply (s : list N) (calls : list hcall) : list N := fold_left stack_step calls s.

Definition on_stack (h : N) (s : list N) : bool := existsb (N.eqb h) s.
(** [SpanStack::current]: the topmost entry that is not a duplicate *)
Fixpoint current (s : list N) : option N :=
  match s with
  | [] => None
  | x :: r => if on_stack x r then current r else Some x
  end.

(** the same stack with the duplicate flags stored, as in the code *)
Definition fstack := list (N * bool).
Definition fpush (h : N) (s : fstack) : fstack := (h, on_stack h (map fst s)) :: s.
Fixpoint fpop (h : N) (s : fstack) : fstack :=
  match s with
  | [] => []
  | x :: r => if (fst x =? h)%N then r else x :: fpop h r
  end.
Definition fstack_step (s : fstack) (c : hcall) : fstack :=
  match c with
  | HEnter h => fpush h s
  | HExit h => fpop h s
  | _ => s
  end.
Definition fstack_apply (s : fstack) (calls : list hcall) : fstack := fold_left fstack_step calls s.
Fixpoint fcurrent (s : fstack) : option N :=
  match s with
  | [] => None
  | x :: r => if snd x then fcurrent r else Some (fst x)
  end.
(** the flags are the ones [push] computes *)
Fixpoint flags_ok (s : fstack) : Prop :=
  match s with
  | [] => True
  | x :: r => snd x = on_stack (fst x) (map fst r) ∧ flags_ok r
  end.

(** * Well-formedness clause of the guest stream used by the balance theorems

    "No accepted [SpanDropped] removes the last handle of a span whose unmatched-enter count is
    positive."  The safe [tracing] API cannot produce such a stream ([Entered] borrows the span,
    [EnteredSpan] owns it and exits before dropping). *)
Definition wf_drop_ev (st : rstate) (ev : event) : bool :=
  match last_drop (r_spans st) ev with
  | Some id => bool_decide (r_entered st !! id = None)
  | None => true
  end.
Fixpoint wf_drop (st : rstate) (w : world) (evs : list event) : bool :=
  match evs with
  | [] => true
  | ev :: r =>
      let '(o, st1, w1, _) := try_receive st w ev in
      (if is_accepted o then wf_drop_ev st ev else true) && wf_drop st1 w1 r
  end.

(** * The outcome of an event as a function of the committed state (metadata, alive spans) *)
Definition alive_in (sp : gmap N span_data) (id : N) : bool := bool_decide (is_Some (sp !! id)).
Definition known_in (md : gmap N cs_data) (m : N) : bool := bool_decide (is_Some (md !! m)).
Definition check_span (sp : gmap N span_data) (id : N) (k : outcome) : outcome :=
  if alive_in sp id then k else Rejected (UnknownSpan id).
Definition check_parent (sp : gmap N span_data) (p : option N) (k : outcome) : outcome :=
  match p with Some q => check_span sp q k | None => k end.
Definition check_len (vs : tvalues) (k : outcome) : outcome :=
  if (MAX_VALUES <? len vs)%N then Rejected (TooMany (len vs)) else k.
Definition check_meta (md : gmap N cs_data) (m : N) (k : outcome) : outcome :=
  if known_in md m then k else Rejected (UnknownMeta m).

Definition ref_outcome (md : gmap N cs_data) (sp : gmap N span_data) (ev : event) : outcome :=
  match ev with
  | ENewCallSite _ _ => Accepted
  | ENewSpan _ p m vs => check_len vs (check_meta md m (check_parent sp p Accepted))
  | EFollowsFrom a b => check_span sp a (check_span sp b Accepted)
  | ESpanEntered id | ESpanExited id | ESpanCloned id | ESpanDropped id => check_span sp id Accepted
  | EValuesRecorded id vs => check_len vs (check_span sp id Accepted)
  | ENewEvent m p vs => check_len vs (check_meta md m (check_parent sp p Accepted))
  end.

(** * Rollback and retry *)

(** what a step commits or answers: the acceptance result of an event, the state persisted by a
    persist step *)
Inductive commit :=
| CRecv (o : outcome)
| CPersist (spans : gmap N span_data) (md : gmap N cs_data)
| CDrop.
Definition commit_of (m : mobs) : commit :=
  match m with
  | MRecv o _ _ => CRecv o
  | MPersist _ spans md _ _ => CPersist spans md
  | MDrop _ _ _ => CDrop
  end.
Definition is_persist (s : hstep) : bool := match s with SPersist _ => true | _ => false end.

(** boolean form of [hist_scope] (the hypothesis of all theorems), for the judges *)
Definition step_scopeb (h : hist) (s : hstep) : bool :=
  match s with SRecv ev => no_reannounce (h_st h) ev | _ => true end.
Fixpoint hist_scopeb (h : hist) (steps : list hstep) : bool :=
  match steps with
  | [] => true
  | s :: r => step_scopeb h s && hist_scopeb (fst (hist_step h s)) r
  end.

(** * Side conditions on the host ids held by a receiver

    every host id in the local span map was issued by the host earlier (the host's ids are a
    counter in the model), and distinct guest spans have distinct host spans *)
Definition local_bounded (st : rstate) (w : world) : Prop :=
  ∀ id h, r_local st !! id = Some h → (h <= w_next w)%N.
Definition local_inj (st : rstate) : Prop :=
  ∀ i j h, r_local st !! i = Some h → r_local st !! j = Some h → i = j.

(** the host calls a step makes observable (registrations by [new] belong to the creation of the
    next receiver and are not enter / exit / close calls) *)
Definition obs_calls (m : mobs) : list hcall :=
  match m with MRecv _ c _ => c | MPersist e _ _ _ _ => e | MDrop c _ _ => c end.

(** two history states with the same committed data: metadata and alive spans of the receiver,
    metadata and spans saved by the last persist *)
Definition same_committed (h1 h2 : hist) : Prop :=
  r_meta (h_st h1) = r_meta (h_st h2) ∧ r_spans (h_st h1) = r_spans (h_st h2) ∧
  h_md h1 = h_md h2 ∧ h_spans h1 = h_spans h2.

(** * Whole histories as sequences of lifetimes *)
Definition life := (list event * hstep)%type.
Definition life_steps (l : life) : list hstep := map SRecv (fst l) ++ [snd l].
Definition lives_steps (ls : list life) : list hstep := flat_map life_steps ls.
(** [wf_drop] in every lifetime *)
Fixpoint wf_drop_lives (h : hist) (ls : list life) : bool :=
  match ls with
  | [] => true
  | l :: r => wf_drop (h_st h) (h_w h) (fst l) && wf_drop_lives (hist_final h (life_steps l)) r
  end.
Definition all_calls (obs : list mobs) : list hcall := flat_map obs_calls obs.
