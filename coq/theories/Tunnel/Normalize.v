(** Model of [TracingEvent::normalize] in [tunnel/src/types.rs].  Definitions only.

    The code walks the slice once, left to right, with a [BTreeMap<MetadataId, MetadataId>] from old
    to new call-site ids.  Only three operations of the map are used: [len], [insert] (old code only)
    and [entry(k).or_insert(v)]; the map is never iterated, so its key order is not observable and
    the model keeps it as an association list with distinct keys.

    Not modelled: the rewrite of [data.file] path separators, which is compiled in only when
    [path::MAIN_SEPARATOR != '/'] (Windows); on this platform it is the identity. *)
From TT Require Export Tunnel.Types.

(** * The id mapping *)
Definition idmap := list (N * N).

(** [BTreeMap::get] *)
Fixpoint im_get (m : idmap) (k : N) : option N :=
  match m with
  | [] => None
  | (k', v) :: r => if k' =? k then Some v else im_get r k
  end.

(** [BTreeMap::len] (a [usize] cast to [u64]; unbounded here) *)
Definition im_len (m : idmap) : N := N.of_nat (List.length m).

(** [BTreeMap::insert]: overwrite the value of an existing key, or add the key *)
Fixpoint im_insert (m : idmap) (k v : N) : idmap :=
  match m with
  | [] => [(k, v)]
  | (k', w) :: r => if k' =? k then (k', v) :: r else (k', w) :: im_insert r k v
  end.

(** [*map.entry(k).or_insert(v)]: the map afterwards and the value now stored under [k] *)
Definition im_or_insert (m : idmap) (k v : N) : idmap * N :=
  match im_get m k with
  | Some w => (m, w)
  | None => (im_insert m k v, v)
  end.

(** * One event *)

(** the [NewCallSite] arm's treatment of the call-site data: [line = None]; for event call sites
    [name = "event"]; everything else is left alone *)
Definition norm_cs (d : cs_data) : cs_data :=
  mk_cs (cs_kind d)
        (match cs_kind d with KEvent => "event"%string | KSpan => cs_name d end)
        (cs_target d) (cs_level d) (cs_module d) (cs_file d) None (cs_fields d).

Definition norm_step (m : idmap) (e : event) : idmap * event :=
  match e with
  | ENewCallSite id d =>
      let new_id := im_len m in
      let '(m', new_id) := im_or_insert m id new_id in
      (m', ENewCallSite new_id (norm_cs d))
  | ENewSpan id parent meta values =>
      let new_id := im_len m in
      let '(m', new_id) := im_or_insert m meta new_id in
      (m', ENewSpan id parent new_id values)
  | ENewEvent meta parent values =>
      let new_id := im_len m in
      let '(m', new_id) := im_or_insert m meta new_id in
      (m', ENewEvent new_id parent values)
  | _ => (m, e)
  end.

(** * The loop: a left-to-right fold that threads the mapping *)
Fixpoint norm_from (m : idmap) (evs : list event) : idmap * list event :=
  match evs with
  | [] => (m, [])
  | e :: r =>
      let '(m1, e') := norm_step m e in
      let '(m2, r') := norm_from m1 r in
      (m2, e' :: r')
  end.

Definition normalize (evs : list event) : list event := snd (norm_from [] evs).

(** * The algorithm before the repair (commit "fix: keep the first normalized id ...")
    The [NewCallSite] arm overwrote the mapping with the current map size on every announcement. *)
Definition norm_step_old (m : idmap) (e : event) : idmap * event :=
  match e with
  | ENewCallSite id d =>
      let new_id := im_len m in
      (im_insert m id new_id, ENewCallSite new_id (norm_cs d))
  | ENewSpan id parent meta values =>
      let new_id := im_len m in
      let '(m', new_id) := im_or_insert m meta new_id in
      (m', ENewSpan id parent new_id values)
  | ENewEvent meta parent values =>
      let new_id := im_len m in
      let '(m', new_id) := im_or_insert m meta new_id in
      (m', ENewEvent new_id parent values)
  | _ => (m, e)
  end.

Fixpoint norm_from_old (m : idmap) (evs : list event) : idmap * list event :=
  match evs with
  | [] => (m, [])
  | e :: r =>
      let '(m1, e') := norm_step_old m e in
      let '(m2, r') := norm_from_old m1 r in
      (m2, e' :: r')
  end.

Definition normalize_old (evs : list event) : list event := snd (norm_from_old [] evs).

(** * Vocabulary of the property (specification side; independent of the mapping) *)

(** the call-site id an event carries: [id] of an announcement, [metadata_id] of a new span / event *)
Definition cs_id_of (e : event) : option N :=
  match e with
  | ENewCallSite id _ => Some id
  | ENewSpan _ _ meta _ => Some meta
  | ENewEvent meta _ _ => Some meta
  | _ => None
  end.

(** the call-site ids of a stream, in stream order (one entry per carrying event) *)
Definition cs_ids (evs : list event) : list N :=
  flat_map (fun e => match cs_id_of e with Some k => [k] | None => [] end) evs.

(** renaming by a function on ids, together with the erasure of lines and event call-site names *)
Definition rename_event (f : N -> N) (e : event) : event :=
  match e with
  | ENewCallSite id d => ENewCallSite (f id) (norm_cs d)
  | ENewSpan id parent meta values => ENewSpan id parent (f meta) values
  | ENewEvent meta parent values => ENewEvent (f meta) parent values
  | _ => e
  end.

(** what is left of an event when every difference that normalization erases is removed:
    the concrete call-site id, the line, and the name of an event call site *)
Definition erase_event (e : event) : event := rename_event (fun _ => 0) e.

Definition inj_on (f : N -> N) (l : list N) : Prop :=
  forall a b, In a l -> In b l -> f a = f b -> a = b.

(** a list of pairs is a partial bijection: first components agree iff second components agree *)
Definition bij (P : list (N * N)) : Prop :=
  forall p q, In p P -> In q P -> (fst p = fst q <-> snd p = snd q).

Definition consistent_b (P : list (N * N)) : bool :=
  forallb (fun p => forallb (fun q => Bool.eqb (fst p =? fst q) (snd p =? snd q)) P) P.

(** distinct elements in order of first occurrence, skipping those in [seen] *)
Fixpoint first_occ_from (seen l : list N) : list N :=
  match l with
  | [] => []
  | x :: r => if existsb (N.eqb x) seen then first_occ_from seen r
              else x :: first_occ_from (x :: seen) r
  end.
Definition first_occ (l : list N) : list N := first_occ_from [] l.

(** [s; s+1; ...; s+n-1] *)
Fixpoint nseq (s : N) (n : nat) : list N :=
  match n with O => [] | S n' => s :: nseq (s + 1) n' end.

(** executable canonical-numbering check: every id is either one already used ([< next]) or exactly
    the next unused number *)
Fixpoint canon_b (next : N) (l : list N) : bool :=
  match l with
  | [] => true
  | x :: r => if x <? next then canon_b next r else (x =? next) && canon_b (next + 1) r
  end.

(** ** what must not change (Prop form, spelled out attribute by attribute) *)
Definition untouched_cs (d d' : cs_data) : Prop :=
  cs_kind d' = cs_kind d /\ cs_target d' = cs_target d /\ cs_level d' = cs_level d
  /\ cs_module d' = cs_module d /\ cs_file d' = cs_file d /\ cs_fields d' = cs_fields d
  /\ (cs_kind d = KSpan -> cs_name d' = cs_name d).

Definition untouched (e e' : event) : Prop :=
  match e, e' with
  | ENewCallSite _ d, ENewCallSite _ d' => untouched_cs d d'
  | ENewSpan id parent _ values, ENewSpan id' parent' _ values' =>
      id' = id /\ parent' = parent /\ values' = values
  | ENewEvent _ parent values, ENewEvent _ parent' values' => parent' = parent /\ values' = values
  | EFollowsFrom id fo, EFollowsFrom id' fo' => id' = id /\ fo' = fo
  | ESpanEntered id, ESpanEntered id' | ESpanExited id, ESpanExited id'
  | ESpanCloned id, ESpanCloned id' | ESpanDropped id, ESpanDropped id' => id' = id
  | EValuesRecorded id values, EValuesRecorded id' values' => id' = id /\ values' = values
  | _, _ => False
  end.

(** ** what is erased: announcements carry no line, and event call sites are all named "event" *)
Definition erased_cs (d : cs_data) : Prop :=
  cs_line d = None /\ (cs_kind d = KEvent -> cs_name d = "event"%string).
Definition erased_ev (e : event) : Prop :=
  match e with ENewCallSite _ d => erased_cs d | _ => True end.

(** boolean forms, used by the judge on the implementation's output *)
Definition untouched_cs_b (d d' : cs_data) : bool :=
  cskind_eqb (cs_kind d') (cs_kind d) && String.eqb (cs_target d') (cs_target d)
  && level_eqb (cs_level d') (cs_level d)
  && option_eqb String.eqb (cs_module d') (cs_module d)
  && option_eqb String.eqb (cs_file d') (cs_file d)
  && list_eqb String.eqb (cs_fields d') (cs_fields d)
  && match cs_kind d with KSpan => String.eqb (cs_name d') (cs_name d) | KEvent => true end.

Definition untouched_b (e e' : event) : bool :=
  match e, e' with
  | ENewCallSite _ d, ENewCallSite _ d' => untouched_cs_b d d'
  | ENewSpan id parent _ values, ENewSpan id' parent' _ values' =>
      (id' =? id) && option_eqb N.eqb parent' parent && tvalues_eqb values' values
  | ENewEvent _ parent values, ENewEvent _ parent' values' =>
      option_eqb N.eqb parent' parent && tvalues_eqb values' values
  | EFollowsFrom id fo, EFollowsFrom id' fo' => (id' =? id) && (fo' =? fo)
  | ESpanEntered id, ESpanEntered id' | ESpanExited id, ESpanExited id'
  | ESpanCloned id, ESpanCloned id' | ESpanDropped id, ESpanDropped id' => id' =? id
  | EValuesRecorded id values, EValuesRecorded id' values' =>
      (id' =? id) && tvalues_eqb values' values
  | _, _ => false
  end.

Definition erased_cs_b (d : cs_data) : bool :=
  match cs_line d with None => true | Some _ => false end
  && match cs_kind d with KEvent => String.eqb (cs_name d) "event" | KSpan => true end.
Definition erased_ev_b (e : event) : bool :=
  match e with ENewCallSite _ d => erased_cs_b d | _ => true end.

Fixpoint forall2b {A B} (f : A -> B -> bool) (x : list A) (y : list B) : bool :=
  match x, y with
  | [], [] => true
  | a :: x', b :: y' => f a b && forall2b f x' y'
  | _, _ => false
  end.

(** ** "the two sequences differ only in the concrete id values, line numbers, or event call-site
    names": position by position the events are equal after erasure, and the correspondence
    between the call-site ids of the two streams is one-to-one *)
Definition same_up_to (evs1 evs2 : list event) : Prop :=
  Forall2 (fun e1 e2 => erase_event e1 = erase_event e2) evs1 evs2
  /\ bij (combine (cs_ids evs1) (cs_ids evs2)).

Definition same_up_to_b (evs1 evs2 : list event) : bool :=
  forall2b (fun e1 e2 => event_eqb (erase_event e1) (erase_event e2)) evs1 evs2
  && consistent_b (combine (cs_ids evs1) (cs_ids evs2)).

(** ** relabelling by a function: [g] on call-site ids, and at every position an arbitrary new
    line and an arbitrary new name for the announced call site if it is of event kind *)
Record edit := mk_edit { ed_line : option N; ed_name : string }.

Definition relabel_cs (ed : edit) (d : cs_data) : cs_data :=
  mk_cs (cs_kind d)
        (match cs_kind d with KEvent => ed_name ed | KSpan => cs_name d end)
        (cs_target d) (cs_level d) (cs_module d) (cs_file d) (ed_line ed) (cs_fields d).

Definition relabel_event (g : N -> N) (ed : edit) (e : event) : event :=
  match e with
  | ENewCallSite id d => ENewCallSite (g id) (relabel_cs ed d)
  | ENewSpan id parent meta values => ENewSpan id parent (g meta) values
  | ENewEvent meta parent values => ENewEvent (g meta) parent values
  | _ => e
  end.

(** [eds i] is the edit applied at stream position [i] (counted from [start]) *)
Fixpoint relabel_from (g : N -> N) (eds : nat -> edit) (start : nat) (evs : list event) : list event :=
  match evs with
  | [] => []
  | e :: r => relabel_event g (eds start) e :: relabel_from g eds (S start) r
  end.
Definition relabel (g : N -> N) (eds : nat -> edit) (evs : list event) : list event :=
  relabel_from g eds O evs.

(** the executable statement of the property on an (input, output) pair *)
Definition norm_ok (input output : list event) : bool :=
  forall2b (fun e e' => untouched_b e e' && erased_ev_b e') input output
  && consistent_b (combine (cs_ids input) (cs_ids output))
  && canon_b 0 (cs_ids output).
