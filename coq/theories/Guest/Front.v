(** The [tracing] front end (environment model): what [tracing::Span] / [tracing::Event] and the
    [span!] / [event!] macros turn a guest op into, as calls on the [Subscriber] the program runs
    under (tracing 0.1.41, tracing-core 0.1.33; see the notes at the end of integration/C14.md).
    Definitions only.

    The front end is parameterised by the two answers a subscriber gives:
    [alloc n]     the id returned by the n-th [new_span] call (n counted from 0 over the calls that
                  reach the subscriber); [None] = the call does not return (for the tunnel's sender:
                  [Id::from_u64 0] panics inside [new_span]);
    [enabled cs]  the outcome of the interest / [enabled] test the macros make for call site [cs]
                  (cached interest combined with [Subscriber::enabled]). *)
From TT Require Export Guest.Program.

Inductive sparent := SPCtx | SPRoot | SPExplicit (id : N).

(** Calls on the subscriber.  Span ids are the ones the subscriber handed out. *)
Inductive scall :=
| SRegister (cs : nat)                                         (* register_callsite(metadata of site cs) *)
| SNewSpan (id : N) (cs : nat) (p : sparent) (vals : tvalues)  (* new_span; id = what the subscriber returned,
                                                                  0 = the call did not return *)
| SRecord (id : N) (vals : tvalues)
| SEnter (id : N)
| SExit (id : N)
| SClone (id : N)
| STryClose (id : N)
| SFollows (id f : N)
| SEvent (cs : nat) (p : sparent) (vals : tvalues).

(** State of the front end: one entry per [ONewSpan] executed so far (position = creation index)
    with the span's call site and its id ([None] = disabled span, [Span::none()]); the number of
    [new_span] calls made so far; the call sites already registered with the subscriber. *)
Record front_state := mk_fs {
  fs_spans : list (nat * option N);
  fs_allocs : N;
  fs_reg : list nat }.

Definition front_init : front_state := mk_fs [] 0 [].

Definition fs_span_id (st : front_state) (k : nat) : option N :=
  match nth_error (fs_spans st) k with Some (_, Some id) => Some id | _ => None end.
Definition fs_span_site (st : front_state) (k : nat) : option nat :=
  option_map fst (nth_error (fs_spans st) k).

(** [span!(parent: &p, ..)] / [event!(parent: &p, ..)]: [&Span: Into<Option<Id>>]; a disabled parent
    gives [None], which [Span::child_of] / [Event::child_of] turn into an explicit root. *)
Definition front_parent (st : front_state) (p : parent_kind) : sparent :=
  match p with
  | PKCtx => SPCtx
  | PKRoot => SPRoot
  | PKExplicit k => match fs_span_id st k with Some id => SPExplicit id | None => SPRoot end
  end.

(** A call site registers itself with tracing-core at its first interest query, i.e. right before
    its first use; tracing-core then calls [register_callsite] on the subscriber.  (Canonical
    placement: a call site that was registered under an earlier dispatcher is announced to a new
    subscriber at dispatcher creation instead, that is, earlier.) *)
Definition registered (st : front_state) (cs : nat) : bool := existsb (Nat.eqb cs) (fs_reg st).
Definition front_register (st : front_state) (cs : nat) : list scall * list nat :=
  if registered st cs then ([], fs_reg st) else ([SRegister cs], cs :: fs_reg st).

(** One op.  Result: the calls made, the new state, and whether a call failed to return (the
    guest's tracing call panics; the run stops there). *)
Definition front_step (alloc : N -> option N) (enabled : nat -> bool) (sites : list cs_data)
    (st : front_state) (o : op) : list scall * front_state * bool :=
  match o with
  | ONewSpan cs p vals =>
      let '(reg, regs) := front_register st cs in
      if enabled cs then
        let call id := SNewSpan id cs (front_parent st p) (from_value_set (site_fields sites cs) vals) in
        match alloc (fs_allocs st) with
        | Some id => (reg ++ [call id],
                      mk_fs (fs_spans st ++ [(cs, Some id)]) (fs_allocs st + 1) regs, false)
        | None => (reg ++ [call 0], mk_fs (fs_spans st) (fs_allocs st + 1) regs, true)
        end
      else (reg, mk_fs (fs_spans st ++ [(cs, None)]) (fs_allocs st) regs, false)
  | ORecord k vals =>
      (* [Span::record_all] reaches the subscriber even with an empty value set *)
      match nth_error (fs_spans st) k with
      | Some (cs, Some id) => ([SRecord id (from_value_set (site_fields sites cs) vals)], st, false)
      | _ => ([], st, false)
      end
  | OEnter k => (match fs_span_id st k with Some id => [SEnter id] | None => [] end, st, false)
  | OExit k => (match fs_span_id st k with Some id => [SExit id] | None => [] end, st, false)
  | OClone k => (match fs_span_id st k with Some id => [SClone id] | None => [] end, st, false)
  | ODrop k => (match fs_span_id st k with Some id => [STryClose id] | None => [] end, st, false)
  | OFollows k t =>
      (match fs_span_id st k with
       | Some id =>
           match t with
           | FLive j => match fs_span_id st j with Some f => [SFollows id f] | None => [] end
           | FStale raw => [SFollows id raw]
           end
       | None => []
       end, st, false)
  | OEvent cs p vals =>
      let '(reg, regs) := front_register st cs in
      (reg ++ (if enabled cs
               then [SEvent cs (front_parent st p) (from_value_set (site_fields sites cs) vals)]
               else []),
       mk_fs (fs_spans st) (fs_allocs st) regs, false)
  end.

Fixpoint front_steps (alloc : N -> option N) (enabled : nat -> bool) (sites : list cs_data)
    (st : front_state) (ops : list (nat * op)) : list scall * bool :=
  match ops with
  | [] => ([], false)
  | o :: r =>
      let '(calls, st', panicked) := front_step alloc enabled sites st (snd o) in
      if panicked then (calls, true)
      else let '(rest, b) := front_steps alloc enabled sites st' r in (calls ++ rest, b)
  end.

(** the calls of a whole program, in program order (the order in which the ops of all threads reach
    the subscriber), and whether the run ended in a panic *)
Definition front_run (alloc : N -> option N) (enabled : nat -> bool) (p : prog) : list scall * bool :=
  front_steps alloc enabled (p_sites p) front_init (p_ops p).

Definition is_register (c : scall) : bool := match c with SRegister _ => true | _ => false end.
Definition op_calls (cs : list scall) : list scall := filter (fun c => negb (is_register c)) cs.

Definition all_enabled : nat -> bool := fun _ => true.

(** number of [ONewSpan] ops *)
Fixpoint spans_created (ops : list (nat * op)) : N :=
  match ops with
  | [] => 0
  | (_, ONewSpan _ _ _) :: r => 1 + spans_created r
  | _ :: r => spans_created r
  end.

(** boolean equalities for the correspondence judges *)
Definition sparent_eqb (a b : sparent) : bool :=
  match a, b with
  | SPCtx, SPCtx | SPRoot, SPRoot => true
  | SPExplicit i, SPExplicit j => N.eqb i j
  | _, _ => false
  end.
Definition scall_eqb (a b : scall) : bool :=
  match a, b with
  | SRegister i, SRegister j => Nat.eqb i j
  | SNewSpan i c p v, SNewSpan j d q w => N.eqb i j && Nat.eqb c d && sparent_eqb p q && tvalues_eqb v w
  | SRecord i v, SRecord j w => N.eqb i j && tvalues_eqb v w
  | SEnter i, SEnter j | SExit i, SExit j | SClone i, SClone j | STryClose i, STryClose j => N.eqb i j
  | SFollows i f, SFollows j g => N.eqb i j && N.eqb f g
  | SEvent c p v, SEvent d q w => Nat.eqb c d && sparent_eqb p q && tvalues_eqb v w
  | _, _ => false
  end.
