(** Layer L0: guest programs over the [tracing] API, the values they can record and the
    well-formedness predicate stating what the safe API permits.  Definitions only.

    Spans are named by creation index [k] (the k-th [ONewSpan] of the program, counted from 0 over the
    whole program), so one program can be run natively, through the sender and in a specification. *)
From TT Require Export Tunnel.Types.

(** * Primitive values

    Integers are mathematical; the tag is the Rust type.  [WSize] is [isize]/[usize] of the 64-bit
    targets the harness runs on. *)
Inductive iwidth := W8 | W16 | W32 | W64 | W128 | WSize.
Inductive prim :=
| PInt (w : iwidth) (z : Z)          (* i8 i16 i32 i64 i128 isize *)
| PUInt (w : iwidth) (z : Z)         (* u8 u16 u32 u64 u128 usize *)
| PF32 (bits64 : N)                  (* an f32, given as the f64 bits of its widening (widening is trusted) *)
| PF64 (bits : N)
| PBool (b : bool)
| PStr (s : string)                  (* &str and String *)
| PDisplay (rendered : string)       (* recorded with % *)
| PDebug (rendered : string)         (* recorded with ? *)
| PError (msg : string) (chain : list string).   (* &dyn Error: message and messages of its source chain *)

Definition width_bits (w : iwidth) : Z :=
  match w with W8 => 8 | W16 => 16 | W32 => 32 | W64 => 64 | W128 => 128 | WSize => 64 end%Z.
Definition int_min (w : iwidth) : Z := (- 2 ^ (width_bits w - 1))%Z.
Definition int_max (w : iwidth) : Z := (2 ^ (width_bits w - 1) - 1)%Z.
Definition uint_max (w : iwidth) : Z := (2 ^ width_bits w - 1)%Z.

(** A [prim] denotes an existing Rust value: the number is in the range of its type; float
    patterns are 64 bits wide. *)
Definition wf_prim (p : prim) : bool :=
  match p with
  | PInt w z => (int_min w <=? z)%Z && (z <=? int_max w)%Z
  | PUInt w z => (0 <=? z)%Z && (z <=? uint_max w)%Z
  | PF32 b | PF64 b => b <? 2 ^ 64
  | _ => true
  end.

(** ** From a Rust value to a stored [TracedValue], in the two steps the code takes

    Step 1 (environment, tracing-core 0.1.33 [field.rs], [impl_values!] and the impls next to it):
    the [Value] impl of the Rust type calls one of the nine [Visit::record_*] callbacks.
    [i8 i16 i32 isize] are widened with [as i64], [u8 u16 u32 usize] with [as u64], [f32] with
    [as f64]; [i128]/[u128] have callbacks of their own; [&str] and [String] reach [record_str];
    [DisplayValue]/[DebugValue] reach [record_debug] with an object whose Debug output is the Display
    resp. Debug rendering; [dyn Error] reaches [record_error]. *)
Inductive callback :=
| CbF64 (bits : N)
| CbI64 (z : Z)
| CbU64 (z : Z)
| CbI128 (z : Z)
| CbU128 (z : Z)
| CbBool (b : bool)
| CbStr (s : string)
| CbError (msg : string) (chain : list string)   (* the error object: its message and its sources' messages *)
| CbDebug (rendered : string).                   (* the object: the text its Debug impl writes *)

Definition value_record (p : prim) : callback :=
  match p with
  | PInt W128 z => CbI128 z
  | PInt _ z => CbI64 z
  | PUInt W128 z => CbU128 z
  | PUInt _ z => CbU64 z
  | PF32 b => CbF64 b
  | PF64 b => CbF64 b
  | PBool b => CbBool b
  | PStr s => CbStr s
  | PDisplay s => CbDebug s
  | PDebug s => CbDebug s
  | PError m c => CbError m c
  end.

(** Step 2 (the crate, [tunnel/src/values.rs], [impl Visit for TracedValueVisitor]): what each of
    the nine overridden callbacks stores.  [record_i64]/[record_u64] go through
    [From<i64>]/[From<u64>], which widen to [i128]/[u128]; [record_error] walks the source chain
    ([TracedError::new]); [record_debug] stores the formatted text ([TracedValue::debug]). *)
Definition visit (c : callback) : tvalue :=
  match c with
  | CbF64 b => VFloat b
  | CbI64 z => VInt z
  | CbU64 z => VUInt z
  | CbI128 z => VInt z
  | CbU128 z => VUInt z
  | CbBool b => VBool b
  | CbStr s => VStr s
  | CbError m c => VErr m c
  | CbDebug s => VObj s
  end.

Definition conv (p : prim) : tvalue := visit (value_record p).

(** ** Reference specification of a captured value, in the words of the property: signed integers of
    every width are [Int] with their exact number, unsigned ones [UInt], floats keep their bits,
    Booleans and strings their content, Display/Debug objects the rendered text, errors their message
    and the whole source chain. *)
Definition spec_value (p : prim) : tvalue :=
  match p with
  | PInt _ z => VInt z
  | PUInt _ z => VUInt z
  | PF32 b => VFloat b
  | PF64 b => VFloat b
  | PBool b => VBool b
  | PStr s => VStr s
  | PDisplay s => VObj s
  | PDebug s => VObj s
  | PError m c => VErr m c
  end.

(** * Value sets

    A [ValueSet] is an array of (field of the call site, optional value) pairs; [None] is
    [Option::<&dyn Value>::None], which is what the macros produce for [field::Empty].  Fields are
    given by their index in the call site's field list (a call site may declare the same name
    twice; the two fields are then different fields with equal names). *)
Definition valset := list (nat * option prim).

(** [ValueSet::record] visits the array front to back and skips entries without a value; the
    visitor inserts under the field's name.  An index outside the field list cannot be built
    ([Field]s come from the call site's [FieldSet]); such an entry is skipped here and excluded by
    [wf_valset] below.  This is [TracedValues::from_values], [from_record] and [from_event]:
    the three constructors run the same visitor over the value set of the attributes / record /
    event. *)
Definition record_entry (names : list string) (m : tvalues) (e : nat * option prim) : tvalues :=
  match snd e with
  | None => m
  | Some p =>
      match nth_error names (fst e) with
      | Some name => fst (insert m name (conv p))
      | None => m
      end
  end.

Definition from_value_set (names : list string) (vs : valset) : tvalues :=
  fold_left (record_entry names) vs [].

(** The provided non-[Empty] entries as (name, value) pairs in array order: the history which the
    specification [denote] of [Values.v] is applied to.  [provided] uses the model's [conv],
    [provided_spec] the reference [spec_value]. *)
Definition provided_with (f : prim -> tvalue) (names : list string) (vs : valset)
  : list (string * tvalue) :=
  flat_map (fun e => match snd e, nth_error names (fst e) with
                     | Some p, Some name => [(name, f p)]
                     | _, _ => []
                     end) vs.
Definition provided := provided_with conv.
Definition provided_spec := provided_with spec_value.

(** "array in declaration order": field indices strictly increasing (what the [span!]/[event!] macros
    build: one entry per declared field, in order; a subset is allowed here). *)
Fixpoint increasing_from (lo : nat) (l : list nat) : bool :=
  match l with
  | [] => true
  | i :: r => Nat.leb lo i && increasing_from (S i) r
  end.
Definition decl_order (vs : valset) : bool := increasing_from 0 (map fst vs).

Definition max_values : nat := 32.      (* the [ValidLen] array limit of tracing-core *)

Definition wf_valset (names : list string) (vs : valset) : bool :=
  Nat.leb (List.length vs) max_values
  && forallb (fun e => Nat.ltb (fst e) (List.length names)
                       && match snd e with Some p => wf_prim p | None => true end) vs.

(** * Programs *)
Inductive parent_kind := PKCtx | PKRoot | PKExplicit (k : nat).      (* k = creation index of a span *)
Inductive follow_target := FLive (k : nat) | FStale (raw : N).       (* FStale: raw id of a closed/unknown span (C16 only) *)
Inductive op :=
| ONewSpan (cs : nat) (p : parent_kind) (vals : valset)    (* cs = index into the program's call-site pool *)
| ORecord (k : nat) (vals : valset)
| OEnter (k : nat) | OExit (k : nat) | OClone (k : nat) | ODrop (k : nat)
| OFollows (k : nat) (t : follow_target)
| OEvent (cs : nat) (p : parent_kind) (vals : valset).
Record prog := mk_prog { p_sites : list cs_data; p_ops : list (nat * op) }.   (* nat = thread id; 0 for single-threaded *)

(** ** Symbolic state of the well-formedness check

    [ss_spans]: one entry per span created so far, in creation order (position = creation index):
    the index of its call site and the number of live handles ([Span] values, clones included).
    [ss_stacks]: per thread, the spans entered and not yet exited, most recent first; a span entered
    twice is listed twice. *)
Record sym_span := mk_sspan { sp_site : nat; sp_handles : N }.
Record sym_state := mk_sym { ss_spans : list sym_span; ss_stacks : list (nat * list nat) }.

Definition sym_init : sym_state := mk_sym [] [].

Definition n_spans (st : sym_state) : nat := List.length (ss_spans st).
Definition handles (st : sym_state) (k : nat) : N :=
  match nth_error (ss_spans st) k with Some s => sp_handles s | None => 0 end.
Definition live (st : sym_state) (k : nat) : bool := 0 <? handles st k.
Definition span_site (st : sym_state) (k : nat) : option nat :=
  option_map sp_site (nth_error (ss_spans st) k).

Fixpoint stack_of (stacks : list (nat * list nat)) (tid : nat) : list nat :=
  match stacks with
  | [] => []
  | (t, s) :: r => if Nat.eqb t tid then s else stack_of r tid
  end.
Fixpoint set_stack (stacks : list (nat * list nat)) (tid : nat) (s : list nat)
  : list (nat * list nat) :=
  match stacks with
  | [] => [(tid, s)]
  | (t, s') :: r => if Nat.eqb t tid then (t, s) :: r else (t, s') :: set_stack r tid s
  end.
Definition on_stack (s : list nat) (k : nat) : bool := existsb (Nat.eqb k) s.
Definition on_any_stack (st : sym_state) (k : nat) : bool :=
  existsb (fun ts => on_stack (snd ts) k) (ss_stacks st).

(** remove the most recent occurrence (what the Registry's [SpanStack::pop] does) *)
Fixpoint remove_first (s : list nat) (k : nat) : list nat :=
  match s with
  | [] => []
  | j :: r => if Nat.eqb j k then r else j :: remove_first r k
  end.

Fixpoint set_handles (spans : list sym_span) (k : nat) (h : N) : list sym_span :=
  match spans, k with
  | [], _ => []
  | s :: r, O => mk_sspan (sp_site s) h :: r
  | s :: r, S k' => s :: set_handles r k' h
  end.

Definition site_fields (sites : list cs_data) (cs : nat) : list string :=
  match nth_error sites cs with Some d => cs_fields d | None => [] end.

(** a call site of the given kind exists at index [cs] and the value set fits it *)
Definition wf_site_use (sites : list cs_data) (kind : cskind) (cs : nat) (vals : valset) : bool :=
  match nth_error sites cs with
  | Some d => cskind_eqb (cs_kind d) kind && wf_valset (cs_fields d) vals
  | None => false
  end.

Definition wf_parent (st : sym_state) (p : parent_kind) : bool :=
  match p with PKExplicit k => live st k | _ => true end.

(** [Id::from_u64] panics on 0; ids are [u64] *)
Definition wf_raw_id (raw : N) : bool := (0 <? raw) && (raw <? 2 ^ 64).

(** One step: [None] = the safe [tracing] API cannot produce this op in this state. *)
Definition wf_step (stale_ok : bool) (sites : list cs_data) (st : sym_state) (o : nat * op)
  : option sym_state :=
  let tid := fst o in
  match snd o with
  | ONewSpan cs p vals =>
      if wf_site_use sites KSpan cs vals && wf_parent st p
      then Some (mk_sym (ss_spans st ++ [mk_sspan cs 1]) (ss_stacks st))
      else None
  | ORecord k vals =>
      match span_site st k with
      | Some cs => if live st k && wf_valset (site_fields sites cs) vals then Some st else None
      | None => None
      end
  | OEnter k =>
      if live st k
      then Some (mk_sym (ss_spans st) (set_stack (ss_stacks st) tid (k :: stack_of (ss_stacks st) tid)))
      else None
  | OExit k =>
      if live st k && on_stack (stack_of (ss_stacks st) tid) k
      then Some (mk_sym (ss_spans st)
                        (set_stack (ss_stacks st) tid (remove_first (stack_of (ss_stacks st) tid) k)))
      else None
  | OClone k =>
      if live st k then Some (mk_sym (set_handles (ss_spans st) k (handles st k + 1)) (ss_stacks st))
      else None
  | ODrop k =>
      if live st k && (negb (handles st k =? 1) || negb (on_any_stack st k))
      then Some (mk_sym (set_handles (ss_spans st) k (handles st k - 1)) (ss_stacks st))
      else None
  | OFollows k t =>
      if live st k && match t with
                      | FLive j => live st j
                      | FStale raw => stale_ok && wf_raw_id raw
                      end
      then Some st else None
  | OEvent cs p vals =>
      if wf_site_use sites KEvent cs vals && wf_parent st p then Some st else None
  end.

Fixpoint wf_steps (stale_ok : bool) (sites : list cs_data) (st : sym_state) (ops : list (nat * op))
  : option sym_state :=
  match ops with
  | [] => Some st
  | o :: r => match wf_step stale_ok sites st o with
              | Some st' => wf_steps stale_ok sites st' r
              | None => None
              end
  end.

(** what the macros can declare: at most 32 fields (a value set lists every declared field), a
    [u32] line number *)
Definition wf_site (d : cs_data) : bool :=
  Nat.leb (List.length (cs_fields d)) max_values
  && match cs_line d with Some l => l <? 2 ^ 32 | None => true end.

Definition sym_run (stale_ok : bool) (p : prog) : option sym_state :=
  wf_steps stale_ok (p_sites p) sym_init (p_ops p).

Definition wf_prog_gen_b (stale_ok : bool) (p : prog) : bool :=
  forallb wf_site (p_sites p)
  && match sym_run stale_ok p with Some _ => true | None => false end.

Definition wf_prog_b : prog -> bool := wf_prog_gen_b false.
Definition wf_prog_stale_b : prog -> bool := wf_prog_gen_b true.     (* C16: follows-from towards stale ids *)
Definition wf_prog (p : prog) : Prop := wf_prog_b p = true.
Definition wf_prog_stale (p : prog) : Prop := wf_prog_stale_b p = true.

Definition single_threaded (p : prog) : bool := forallb (fun o => Nat.eqb (fst o) 0) (p_ops p).

(** ** The values an op carries and the field list they refer to (used by C14 and the sender) *)
Fixpoint span_sites_before (ops : list (nat * op)) : list nat :=
  match ops with
  | [] => []
  | (_, ONewSpan cs _ _) :: r => cs :: span_sites_before r
  | _ :: r => span_sites_before r
  end.

(** * Example programs (shown well-formed in [ProgramProofs.v]) *)
Local Open Scope string_scope.

Definition ex_sites : list cs_data :=
  [ mk_cs KSpan "fib" "fib" LInfo (Some "fib") (Some "fib.rs") (Some 10) ["approx"; "iter"];
    mk_cs KEvent "event fib.rs:14" "fib" LDebug (Some "fib") (Some "fib.rs") (Some 14)
          ["message"; "current"; "current"];
    mk_cs KSpan "child" "fib::inner" LTrace None None None [] ].

(** shape of the test-suite's fib: a span with a field filled in later, entered; an event per
    iteration; a record; exit; drop; a final event outside *)
Definition ex_fib : prog :=
  mk_prog ex_sites
    [ (0, ONewSpan 0 PKCtx [(0, None); (1, Some (PUInt WSize 5))]);
      (0, OEnter 0);
      (0, OEvent 1 PKCtx [(0, Some (PDebug "performing iteration")); (1, Some (PUInt W64 1)); (2, None)]);
      (0, OEvent 1 PKCtx [(0, Some (PDebug "performing iteration")); (1, Some (PUInt W64 2)); (2, None)]);
      (0, ORecord 0 [(0, Some (PF64 4617315517961601024))]);
      (0, OExit 0);
      (0, ODrop 0);
      (0, OEvent 1 PKRoot [(0, Some (PDisplay "computed")); (2, Some (PInt W32 (-1)))]) ]%nat.

(** an explicit parent all of whose handles are dropped before its child is used *)
Definition ex_explicit_parent : prog :=
  mk_prog ex_sites
    [ (0, ONewSpan 0 PKRoot []);
      (0, ONewSpan 2 (PKExplicit 0) []);
      (0, OClone 0);
      (0, ODrop 0);
      (0, ODrop 0);
      (0, OEnter 1);
      (0, OEvent 1 (PKExplicit 1) [(1, Some (PBool true))]);
      (0, OExit 1);
      (0, OFollows 1 (FLive 1));
      (0, ODrop 1) ]%nat.

(** re-entrant enters, exits out of LIFO order, an enter that is never exited (leaked guard) *)
Definition ex_reentrant : prog :=
  mk_prog ex_sites
    [ (0, ONewSpan 0 PKCtx [(1, Some (PInt W8 (-128))); (0, Some (PError "outer" ["inner"; "root"]))]);
      (0, ONewSpan 2 PKCtx []);
      (0, OEnter 0);
      (0, OEnter 1);
      (0, OEnter 0);
      (0, OExit 0);
      (0, OExit 0);
      (0, OEnter 0);
      (0, OExit 1);
      (0, ODrop 1) ]%nat.

(** programs the safe API cannot produce *)
Definition ex_bad_drop_entered : prog :=       (* last handle dropped while the span is entered *)
  mk_prog ex_sites [ (0, ONewSpan 2 PKCtx []); (0, OEnter 0); (0, ODrop 0) ]%nat.
Definition ex_bad_exit : prog :=               (* exit of a span that is not entered on this thread *)
  mk_prog ex_sites [ (0, ONewSpan 2 PKCtx []); (1, OEnter 0); (0, OExit 0) ]%nat.
Definition ex_bad_dead_parent : prog :=        (* explicit parent without a live handle *)
  mk_prog ex_sites [ (0, ONewSpan 2 PKCtx []); (0, ODrop 0); (0, ONewSpan 2 (PKExplicit 0) []) ]%nat.
Definition ex_bad_kind : prog :=               (* event created on a span call site *)
  mk_prog ex_sites [ (0, OEvent 0 PKCtx []) ]%nat.
Definition ex_bad_range : prog :=              (* 200 is not an i8 *)
  mk_prog ex_sites [ (0, ONewSpan 0 PKCtx [(0, Some (PInt W8 200))]) ]%nat.
Definition ex_stale : prog :=                  (* well-formed only in the C16 variant *)
  mk_prog ex_sites [ (0, ONewSpan 2 PKCtx []); (0, OFollows 0 (FStale 77)) ]%nat.
