(** Lemmas about [conv], [from_value_set] and [wf_prog] of [Guest/Program.v]. *)
From TT Require Import Values.ValuesProofs Guest.Program.

(** * [conv] against the reference table *)
Lemma conv_spec p : conv p = spec_value p.
Proof.
  destruct p as [w z|w z|b|b|b|s|s|s|m c]; try reflexivity; destruct w; reflexivity.
Qed.

Lemma conv_int w z : conv (PInt w z) = VInt z.
Proof. apply conv_spec. Qed.
Lemma conv_uint w z : conv (PUInt w z) = VUInt z.
Proof. apply conv_spec. Qed.

(** every kind, stated at once *)
Lemma conv_exact_all :
  (forall w z, conv (PInt w z) = VInt z)
  /\ (forall w z, conv (PUInt w z) = VUInt z)
  /\ (forall b, conv (PF32 b) = VFloat b)
  /\ (forall b, conv (PF64 b) = VFloat b)
  /\ (forall b, conv (PBool b) = VBool b)
  /\ (forall s, conv (PStr s) = VStr s)
  /\ (forall s, conv (PDisplay s) = VObj s)
  /\ (forall s, conv (PDebug s) = VObj s)
  /\ (forall m c, conv (PError m c) = VErr m c).
Proof.
  split; [exact conv_int|]. split; [exact conv_uint|]. repeat split.
Qed.

(** the depth of an error value: number of sources below the outermost error *)
Definition err_depth (v : tvalue) : option nat :=
  match v with VErr _ c => Some (List.length c) | _ => None end.

Lemma conv_error_chain m c :
  exists c', conv (PError m c) = VErr m c' /\ c' = c
             /\ err_depth (conv (PError m c)) = Some (List.length c).
Proof. exists c. repeat split. Qed.

(** the kind stored depends only on the kind recorded, never on the number *)
Definition kind_of (v : tvalue) : nat :=
  match v with VBool _ => 0 | VInt _ => 1 | VUInt _ => 2 | VFloat _ => 3 | VStr _ => 4
             | VObj _ => 5 | VErr _ _ => 6 end%nat.

Lemma width_ranges w :
  (i128_min <= int_min w)%Z /\ (int_max w <= i128_max)%Z /\ (uint_max w <= u128_max)%Z.
Proof. destruct w; vm_compute; repeat split; discriminate. Qed.

Lemma conv_wf p : wf_prim p = true -> wf_value (conv p) = true.
Proof.
  intros H. rewrite conv_spec.
  destruct p as [w z|w z|b|b|b|s|s|s|m c]; cbn [spec_value wf_value wf_prim] in *;
    try reflexivity; try exact H.
  - destruct (width_ranges w) as (H1 & H2 & _).
    apply andb_true_iff in H as [Ha Hb]. apply Z.leb_le in Ha, Hb.
    unfold fits_i128. apply andb_true_iff. split; apply Z.leb_le; lia.
  - destruct (width_ranges w) as (_ & _ & H3).
    apply andb_true_iff in H as [Ha Hb]. apply Z.leb_le in Ha, Hb.
    unfold fits_u128. apply andb_true_iff. split; apply Z.leb_le; lia.
Qed.

(** * [provided] *)
Lemma provided_with_cons f names i o vs :
  provided_with f names ((i, o) :: vs) =
  match o, nth_error names i with
  | Some p, Some name => [(name, f p)]
  | _, _ => []
  end ++ provided_with f names vs.
Proof. reflexivity. Qed.

Lemma provided_with_app f names a b :
  provided_with f names (a ++ b) = provided_with f names a ++ provided_with f names b.
Proof. unfold provided_with. apply flat_map_app. Qed.

Lemma provided_spec_eq names vs : provided names vs = provided_spec names vs.
Proof.
  unfold provided, provided_spec, provided_with. apply flat_map_ext.
  intros [i [p|]]; cbn [fst snd]; [|reflexivity]. rewrite conv_spec. reflexivity.
Qed.

Lemma provided_with_in f names vs k v :
  In (k, v) (provided_with f names vs) <->
  exists i p, In (i, Some p) vs /\ nth_error names i = Some k /\ v = f p.
Proof.
  unfold provided_with. rewrite in_flat_map. split.
  - intros ([i o] & Hin & H). cbn [fst snd] in H.
    destruct o as [p|]; [|destruct H]. destruct (nth_error names i) as [name|] eqn:E; [|destruct H].
    destruct H as [H|[]]. injection H as <- <-. exists i, p. auto.
  - intros (i & p & Hin & E & ->). exists (i, Some p). split; [exact Hin|].
    cbn [fst snd]. rewrite E. left. reflexivity.
Qed.

(** an [Empty] entry contributes nothing *)
Lemma provided_with_empty f names a i b :
  provided_with f names (a ++ (i, None) :: b) = provided_with f names (a ++ b).
Proof. rewrite !provided_with_app, provided_with_cons. reflexivity. Qed.

(** * [from_value_set] is the denotation of the provided entries *)
Lemma record_entries_denote names vs h :
  fold_left (record_entry names) vs (denote h) = denote (h ++ provided names vs).
Proof.
  revert h. induction vs as [|[i o] vs IH]; intros h; cbn [fold_left].
  - unfold provided, provided_with. cbn [flat_map]. rewrite app_nil_r. reflexivity.
  - unfold provided. rewrite provided_with_cons. fold provided.
    unfold record_entry at 2. cbn [fst snd].
    destruct o as [p|]; [destruct (nth_error names i) as [name|]|].
    + rewrite insert_denote. cbn [fst]. rewrite IH, <- app_assoc. reflexivity.
    + apply IH.
    + apply IH.
Qed.

Theorem from_value_set_denote names vs : from_value_set names vs = denote (provided names vs).
Proof.
  unfold from_value_set. rewrite <- denote_nil, record_entries_denote. reflexivity.
Qed.

Theorem from_value_set_denote_spec names vs :
  from_value_set names vs = denote (provided_spec names vs).
Proof. rewrite from_value_set_denote, provided_spec_eq. reflexivity. Qed.

Lemma from_value_set_app names a b :
  from_value_set names (a ++ b) = fold_left (record_entry names) b (from_value_set names a).
Proof. unfold from_value_set. apply fold_left_app. Qed.

(** the three consequences, spelled out *)
Theorem from_value_set_nodup names vs : NoDup (map fst (from_value_set names vs)).
Proof. rewrite from_value_set_denote. apply denote_nodup. Qed.

Theorem from_value_set_order names vs :
  map fst (from_value_set names vs) = first_occ [] (map fst (provided_spec names vs)).
Proof. rewrite from_value_set_denote_spec, denote_fst. reflexivity. Qed.

Theorem from_value_set_last names vs k :
  get (from_value_set names vs) k = last_val (provided_spec names vs) k.
Proof. rewrite from_value_set_denote_spec. apply get_denote. Qed.

Theorem from_value_set_names names vs k :
  In k (map fst (from_value_set names vs)) <->
  exists i p, In (i, Some p) vs /\ nth_error names i = Some k.
Proof.
  rewrite from_value_set_denote_spec, denote_fst, keys_of_in, in_map_iff. split.
  - intros ([k' v] & E & Hin). cbn [fst] in E. subst k'.
    apply provided_with_in in Hin as (i & p & H1 & H2 & _). eauto.
  - intros (i & p & H1 & H2). exists (k, spec_value p). split; [reflexivity|].
    apply provided_with_in. eauto.
Qed.

(** ** [Empty] entries are omitted *)
Theorem empty_entry_omitted names a i b :
  from_value_set names (a ++ (i, None) :: b) = from_value_set names (a ++ b).
Proof. rewrite !from_value_set_denote. unfold provided. rewrite provided_with_empty. reflexivity. Qed.

Definition nonempty (vs : valset) : valset :=
  filter (fun e => match snd e with Some _ => true | None => false end) vs.

Lemma provided_with_nonempty f names vs :
  provided_with f names (nonempty vs) = provided_with f names vs.
Proof.
  induction vs as [|[i o] vs IH]; [reflexivity|].
  destruct o as [p|]; cbn [nonempty filter snd].
  - fold (nonempty vs). rewrite !provided_with_cons, IH. reflexivity.
  - fold (nonempty vs). rewrite provided_with_cons, IH. reflexivity.
Qed.

Theorem empty_entries_omitted names vs :
  from_value_set names vs = from_value_set names (nonempty vs).
Proof. rewrite !from_value_set_denote. unfold provided. rewrite provided_with_nonempty. reflexivity. Qed.

(** a field that is only ever given [Empty] (or not given at all) is absent from the result *)
Theorem only_empty_absent names vs k :
  (forall i p, In (i, Some p) vs -> nth_error names i <> Some k) ->
  get (from_value_set names vs) k = None /\ ~ In k (map fst (from_value_set names vs)).
Proof.
  intros H.
  assert (Hn : ~ In k (map fst (from_value_set names vs))).
  { rewrite from_value_set_names. intros (i & p & H1 & H2). exact (H i p H1 H2). }
  split; [|exact Hn]. apply get_notin. exact Hn.
Qed.

(** ** values are well-formed *)
Lemma last_val_in h k v : last_val h k = Some v -> In (k, v) h.
Proof.
  induction h as [|[a w] h IH]; cbn [last_val]; [discriminate|].
  destruct (last_val h k) as [x|] eqn:E.
  - intros H. injection H as ->. right. apply IH. reflexivity.
  - destruct (String.eqb a k) eqn:E'; [|discriminate]. intros H. injection H as ->.
    apply seqb_eq in E'. subst. left. reflexivity.
Qed.

Lemma denote_in h k v : In (k, v) (denote h) -> In (k, v) h.
Proof.
  unfold denote. rewrite in_flat_map. intros (k' & _ & H).
  destruct (last_val h k') as [w|] eqn:E; [|destruct H]. destruct H as [H|[]].
  injection H as -> ->. apply last_val_in. exact E.
Qed.

Theorem from_value_set_wf names vs :
  (forall i p, In (i, Some p) vs -> wf_prim p = true) ->
  forall k v, In (k, v) (from_value_set names vs) -> wf_value v = true.
Proof.
  intros H k v Hin. rewrite from_value_set_denote in Hin. apply denote_in in Hin.
  apply provided_with_in in Hin as (i & p & H1 & _ & ->). apply conv_wf. exact (H i p H1).
Qed.

(** * Arrays in declaration order *)
Lemma denote_snoc_fresh h k v :
  ~ In k (map fst h) -> denote (h ++ [(k, v)]) = denote h ++ [(k, v)].
Proof.
  intros Hn. pose proof (insert_denote h k v) as H.
  rewrite insert_notin in H by (rewrite denote_fst, keys_of_in; exact Hn).
  injection H as H _. symmetry. exact H.
Qed.

Lemma denote_nodup_id h : NoDup (map fst h) -> denote h = h.
Proof.
  induction h as [|[k v] h IH] using rev_ind; intros Hnd; [reflexivity|].
  rewrite map_app in Hnd. cbn [map fst] in Hnd.
  apply NoDup_remove in Hnd as [Hnd Hn]. rewrite app_nil_r in Hnd, Hn.
  rewrite denote_snoc_fresh by exact Hn. rewrite IH by exact Hnd. reflexivity.
Qed.

Lemma increasing_from_weaken lo lo' l :
  (lo' <= lo)%nat -> increasing_from lo l = true -> increasing_from lo' l = true.
Proof.
  destruct l as [|i r]; [reflexivity|]. cbn [increasing_from]. intros Hle H.
  apply andb_true_iff in H as [H1 H2]. apply Nat.leb_le in H1.
  apply andb_true_iff. split; [apply Nat.leb_le; lia | exact H2].
Qed.

(** names of entries whose indices are all at least [lo] come from positions at least [lo] *)
Lemma provided_increasing_in f names vs lo k :
  increasing_from lo (map fst vs) = true ->
  In k (map fst (provided_with f names vs)) ->
  exists i, (lo <= i)%nat /\ nth_error names i = Some k.
Proof.
  revert lo. induction vs as [|[i o] vs IH]; intros lo Hinc Hin; [destruct Hin|].
  cbn [map fst increasing_from] in Hinc. apply andb_true_iff in Hinc as [H1 H2].
  apply Nat.leb_le in H1.
  rewrite provided_with_cons, map_app, in_app_iff in Hin. destruct Hin as [Hin|Hin].
  - destruct o as [p|]; [|destruct Hin]. destruct (nth_error names i) as [name|] eqn:E; [|destruct Hin].
    destruct Hin as [<-|[]]. exists i. auto.
  - destruct (IH (S i) H2 Hin) as (j & Hj & E). exists j. split; [lia | exact E].
Qed.

Lemma provided_increasing_nodup f names vs lo :
  NoDup names -> increasing_from lo (map fst vs) = true ->
  NoDup (map fst (provided_with f names vs)).
Proof.
  intros Hnd. revert lo. induction vs as [|[i o] vs IH]; intros lo Hinc; [constructor|].
  cbn [map fst increasing_from] in Hinc. apply andb_true_iff in Hinc as [H1 H2].
  rewrite provided_with_cons, map_app.
  destruct o as [p|]; [destruct (nth_error names i) as [name|] eqn:E|]; cbn [map app fst];
    try (apply (IH (S i)); exact H2).
  constructor; [|apply (IH (S i)); exact H2].
  intros Hin. destruct (provided_increasing_in f names vs (S i) name H2 Hin) as (j & Hj & Ej).
  assert (i = j); [|lia].
  apply (proj1 (NoDup_nth_error names) Hnd); [|congruence].
  apply nth_error_Some. congruence.
Qed.

(** distinct field names, array in declaration order: the result is literally the list of provided
    entries (each once, in declaration order, with its own value) *)
Theorem declaration_order_distinct names vs :
  NoDup names -> decl_order vs = true ->
  from_value_set names vs = provided_spec names vs.
Proof.
  intros Hnd Hd. rewrite from_value_set_denote_spec. apply denote_nodup_id.
  apply (provided_increasing_nodup spec_value names vs 0 Hnd Hd).
Qed.

(** the array the macros build (one entry per declared field, in order) with every value present:
    names of the result = the declared names without their later repetitions *)
Lemma provided_full f pre post vs :
  map fst vs = seq (List.length pre) (List.length post) ->
  (forall e, In e vs -> snd e <> None) ->
  map fst (provided_with f (pre ++ post) vs) = post.
Proof.
  revert pre vs. induction post as [|name post IH]; intros pre vs Hidx Hall.
  - cbn [List.length seq] in Hidx. apply map_eq_nil in Hidx. subst. reflexivity.
  - destruct vs as [|[i o] vs]; [discriminate|].
    cbn [List.length seq map fst] in Hidx. injection Hidx as -> Hidx.
    destruct o as [p|]; [|exfalso; apply (Hall (List.length pre, None)); [left|]; reflexivity].
    rewrite provided_with_cons.
    rewrite nth_error_app2 by lia. rewrite Nat.sub_diag. cbn [nth_error map app fst]. f_equal.
    replace (pre ++ name :: post) with ((pre ++ [name]) ++ post) by (rewrite <- app_assoc; reflexivity).
    apply IH.
    + rewrite app_length. cbn [List.length]. rewrite Nat.add_1_r. exact Hidx.
    + intros e He. apply Hall. right. exact He.
Qed.

Theorem declaration_order_full names vs :
  map fst vs = seq 0 (List.length names) ->
  (forall e, In e vs -> snd e <> None) ->
  map fst (from_value_set names vs) = first_occ [] names.
Proof.
  intros Hidx Hall. rewrite from_value_set_order. f_equal.
  apply (provided_full spec_value [] names vs Hidx Hall).
Qed.

(** [first_occ] on a duplicate-free list is the identity (so the two corollaries agree) *)
Lemma first_occ_nodup_id seen l :
  NoDup l -> (forall k, In k l -> ~ In k seen) -> first_occ seen l = l.
Proof.
  revert seen. induction l as [|a l IH]; intros seen Hnd Hdis; [reflexivity|].
  cbn [first_occ]. inversion Hnd as [|? ? Hna Hnd']; subst.
  destruct (existsb (String.eqb a) seen) eqn:E.
  - apply existsb_seqb in E. exfalso. apply (Hdis a); [left; reflexivity | exact E].
  - f_equal. apply IH; [exact Hnd'|]. intros k Hk [<-|Hs]; [exact (Hna Hk)|].
    apply (Hdis k); [right; exact Hk | exact Hs].
Qed.

(** * Well-formedness of programs *)
Lemma wf_step_stale_mono sites st o st' :
  wf_step false sites st o = Some st' -> wf_step true sites st o = Some st'.
Proof.
  destruct o as [tid o]. destruct o as [cs p v|k v|k|k|k|k|k t|cs p v]; cbn [wf_step fst snd];
    try (intros H; exact H).
  destruct t as [j|raw]; [intros H; exact H|].
  cbn [andb]. rewrite andb_false_r. discriminate.
Qed.

Lemma wf_steps_stale_mono sites ops st st' :
  wf_steps false sites st ops = Some st' -> wf_steps true sites st ops = Some st'.
Proof.
  revert st. induction ops as [|o ops IH]; intros st; cbn [wf_steps]; [intros H; exact H|].
  destruct (wf_step false sites st o) as [st1|] eqn:E; [|discriminate].
  rewrite (wf_step_stale_mono _ _ _ _ E). apply IH.
Qed.

Theorem wf_prog_stale_of_wf p : wf_prog p -> wf_prog_stale p.
Proof.
  unfold wf_prog, wf_prog_stale, wf_prog_b, wf_prog_stale_b, wf_prog_gen_b, sym_run.
  intros H. apply andb_true_iff in H as [H1 H2]. apply andb_true_iff. split; [exact H1|].
  destruct (wf_steps false (p_sites p) sym_init (p_ops p)) as [st|] eqn:E; [|discriminate].
  rewrite (wf_steps_stale_mono _ _ _ _ E). reflexivity.
Qed.

Lemma wf_steps_app stale sites st a b :
  wf_steps stale sites st (a ++ b) =
  match wf_steps stale sites st a with
  | Some st' => wf_steps stale sites st' b
  | None => None
  end.
Proof.
  revert st. induction a as [|o a IH]; intros st; cbn [wf_steps app]; [reflexivity|].
  destruct (wf_step stale sites st o); [apply IH | reflexivity].
Qed.

(** prefixes of well-formed programs are well-formed *)
Theorem wf_prog_prefix stale sites a b :
  wf_prog_gen_b stale (mk_prog sites (a ++ b)) = true -> wf_prog_gen_b stale (mk_prog sites a) = true.
Proof.
  unfold wf_prog_gen_b, sym_run. cbn [p_sites p_ops]. rewrite wf_steps_app.
  intros H. apply andb_true_iff in H as [H1 H2]. rewrite H1. cbn [andb].
  destruct (wf_steps stale sites sym_init a); [reflexivity | discriminate].
Qed.

(** ** Non-vacuity: the example programs *)
Example ex_fib_wf : wf_prog ex_fib.
Proof. vm_compute. reflexivity. Qed.
Example ex_explicit_parent_wf : wf_prog ex_explicit_parent.
Proof. vm_compute. reflexivity. Qed.
Example ex_reentrant_wf : wf_prog ex_reentrant.
Proof. vm_compute. reflexivity. Qed.

(** the end state of the re-entrant example: span 0 is still entered once, its handle alive *)
Example ex_reentrant_end :
  option_map (fun st => (stack_of (ss_stacks st) 0, map sp_handles (ss_spans st)))
             (sym_run false ex_reentrant) = Some ([0%nat], [1; 0]).
Proof. vm_compute. reflexivity. Qed.

Example ex_rejected :
  wf_prog_b ex_bad_drop_entered = false /\ wf_prog_b ex_bad_exit = false
  /\ wf_prog_b ex_bad_dead_parent = false /\ wf_prog_b ex_bad_kind = false
  /\ wf_prog_b ex_bad_range = false
  /\ wf_prog_b ex_stale = false /\ wf_prog_stale_b ex_stale = true.
Proof. vm_compute. repeat split. Qed.
