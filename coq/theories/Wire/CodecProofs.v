(** Proofs about the 0.2 wire codec ([Wire/Codec.v]): round trips, canonical re-encoding, member
    order, tolerance of the decoders, the exact shape of the encoders. *)
From TT Require Import Wire.Codec Values.ValuesProofs Tunnel.TypesProofs.
From Coq Require Import Permutation.
From Coq Require DecimalString DecimalN.

(** * JSON trees *)
Lemma json_eqb_spec a : forall b, json_eqb a b = true <-> a = b.
Proof.
  induction a as [| x | x | x | x | l IH | ms IH] using json_ind'; intros b; destruct b as [| y | y | y | y | l' | ms'];
    cbn [json_eqb]; try (split; [discriminate | congruence]).
  - tauto.
  - rewrite Bool.eqb_true_iff. split; congruence.
  - rewrite Z.eqb_eq. split; congruence.
  - rewrite N.eqb_eq. split; congruence.
  - rewrite String.eqb_eq. split; congruence.
  - revert l'. induction IH as [|a l Ha _ IHl]; intros [|b l']; try (split; [discriminate | congruence]).
    + tauto.
    + rewrite andb_true_iff, Ha, IHl. split; [intros [-> [= ->]]; reflexivity | intros [= -> ->]; auto].
  - revert ms'. induction IH as [|[k a] ms Ha _ IHl]; intros [|[k' b] ms']; try (split; [discriminate | congruence]).
    + tauto.
    + simpl in Ha. rewrite !andb_true_iff, String.eqb_eq, Ha, IHl.
      split; [intros [[-> ->] [= ->]]; reflexivity | intros [= -> -> ->]; auto].
Qed.

Lemma json_eqb_refl a : json_eqb a a = true.
Proof. apply json_eqb_spec. reflexivity. Qed.

(** * Decimal keys *)
Lemma N_of_string_of_N n : N_of_string (string_of_N n) = Some n.
Proof.
  unfold N_of_string, string_of_N. rewrite DecimalString.NilEmpty.usu. f_equal. apply DecimalN.Unsigned.of_to.
Qed.

Lemma N_of_canonical_of_N n : N_of_canonical (string_of_N n) = Some n.
Proof. unfold N_of_canonical. rewrite N_of_string_of_N, String.eqb_refl. reflexivity. Qed.

Lemma N_of_canonical_inv s n : N_of_canonical s = Some n -> s = string_of_N n.
Proof.
  unfold N_of_canonical. destruct (N_of_string s) as [m|]; [|discriminate].
  destruct (String.eqb (string_of_N m) s) eqn:E; [|discriminate].
  intros [= <-]. symmetry. apply String.eqb_eq. exact E.
Qed.

Lemma string_of_N_inj a b : string_of_N a = string_of_N b -> a = b.
Proof.
  intros H. pose proof (N_of_string_of_N a) as Ha. rewrite H, N_of_string_of_N in Ha. congruence.
Qed.

Lemma dec_key_of_N n : wf_id n = true -> dec_key (string_of_N n) = Some n.
Proof. intros H. unfold dec_key. rewrite N_of_canonical_of_N, H. reflexivity. Qed.

Lemma dec_key_inv s n : dec_key s = Some n -> s = string_of_N n /\ wf_id n = true.
Proof.
  unfold dec_key. destruct (N_of_canonical s) as [m|] eqn:E; [|discriminate].
  destruct (wf_id m) eqn:W; [|discriminate]. intros [= <-]. split; [apply N_of_canonical_inv, E | exact W].
Qed.

(** the decoder of keys rejects the empty string, signs, blanks and leading zeros *)
Lemma dec_key_rejects :
  dec_key ""%string = None /\ dec_key "007"%string = None /\ dec_key "+1"%string = None
  /\ dec_key " 1"%string = None /\ dec_key "-0"%string = None
  /\ dec_key "18446744073709551616"%string = None
  /\ dec_key "18446744073709551615"%string = Some 18446744073709551615
  /\ dec_key "0"%string = Some 0.
Proof. vm_compute. repeat split. Qed.

(** * Field lookup *)
Definition fres_map {A B} (f : A -> B) (r : fres A) : fres B :=
  match r with FAbsent => FAbsent | FOne a => FOne (f a) | FDup => FDup end.

Lemma find_field_map {A B} (f : A -> B) k ms :
  find_field k (map (fun kv => (fst kv, f (snd kv))) ms) = fres_map f (find_field k ms).
Proof.
  induction ms as [|[k' a] ms IH]; cbn [map find_field fst snd]; [reflexivity|].
  rewrite IH. destruct (String.eqb k' k); [|reflexivity]. destruct (find_field k ms); reflexivity.
Qed.

Lemma find_field_perm {A} k (ms ms' : list (string * A)) :
  Permutation ms ms' -> find_field k ms = find_field k ms'.
Proof.
  induction 1 as [| [k1 a1] l l' _ IH | [k1 a1] [k2 a2] l | l l' l'' _ IH1 _ IH2]; cbn [find_field].
  - reflexivity.
  - rewrite IH. reflexivity.
  - destruct (String.eqb k1 k), (String.eqb k2 k); try reflexivity.
    destruct (find_field k l); reflexivity.
  - congruence.
Qed.

Lemma find_field_cons_ne {A} k k' (a : A) ms :
  k' <> k -> find_field k ((k', a) :: ms) = find_field k ms.
Proof. intros H. cbn [find_field]. apply String.eqb_neq in H. rewrite H. reflexivity. Qed.

Lemma find_field_absent {A} k (ms : list (string * A)) :
  find_field k ms = FAbsent <-> ~ In k (map fst ms).
Proof.
  induction ms as [|[k' a] ms IH]; cbn [find_field map fst In]; [tauto|].
  destruct (String.eqb k' k) eqn:E.
  - apply String.eqb_eq in E. subst. split; [|tauto]. destruct (find_field k ms); discriminate.
  - apply String.eqb_neq in E. rewrite IH. tauto.
Qed.

Lemma find_field_in_nodup {A} k (a : A) ms :
  NoDup (map fst ms) -> In (k, a) ms -> find_field k ms = FOne a.
Proof.
  induction ms as [|[k' a'] ms IH]; cbn [find_field map fst In]; intros Hnd Hin; [tauto|].
  inversion Hnd as [|? ? Hni Hnd']; subst.
  destruct Hin as [[= -> ->]|Hin].
  - rewrite String.eqb_refl. apply find_field_absent in Hni. rewrite Hni. reflexivity.
  - destruct (String.eqb k' k) eqn:E.
    + apply String.eqb_eq in E. subst. exfalso. apply Hni. apply in_map_iff. exists (k, a). auto.
    + apply IH; assumption.
Qed.

(** * Scalars *)
Lemma wf_id_spec n : wf_id n = true <-> n < 2 ^ 64.
Proof. unfold wf_id. apply N.ltb_lt. Qed.

Lemma dec_u64_jN n : wf_id n = true -> dec_u64 (jN n) = Some n.
Proof.
  intros H. apply wf_id_spec in H. unfold dec_u64, jN, fits_u64, u64_max.
  replace ((0 <=? Z.of_N n)%Z && (Z.of_N n <=? 2 ^ 64 - 1)%Z) with true.
  - rewrite N2Z.id. reflexivity.
  - symmetry. apply andb_true_iff. split; apply Z.leb_le; lia.
Qed.

Lemma dec_u64_wf j n : dec_u64 j = Some n -> wf_id n = true /\ j = jN n.
Proof.
  destruct j as [| | z | | | |]; cbn [dec_u64]; try discriminate.
  destruct (fits_u64 z) eqn:F; [|discriminate]. intros [= <-].
  unfold fits_u64, u64_max in F. apply andb_true_iff in F as [F1 F2].
  apply Z.leb_le in F1, F2. split.
  - apply wf_id_spec. lia.
  - unfold jN. rewrite Z2N.id by lia. reflexivity.
Qed.

Lemma dec_u32_jN n : n < 2 ^ 32 -> dec_u32 (jN n) = Some n.
Proof.
  intros H. unfold dec_u32, jN, fits_u32, u32_max.
  replace ((0 <=? Z.of_N n)%Z && (Z.of_N n <=? 2 ^ 32 - 1)%Z) with true.
  - rewrite N2Z.id. reflexivity.
  - symmetry. apply andb_true_iff. split; apply Z.leb_le; lia.
Qed.

Lemma dec_u32_wf j n : dec_u32 j = Some n -> n < 2 ^ 32 /\ j = jN n.
Proof.
  destruct j as [| | z | | | |]; cbn [dec_u32]; try discriminate.
  destruct (fits_u32 z) eqn:F; [|discriminate]. intros [= <-].
  unfold fits_u32, u32_max in F. apply andb_true_iff in F as [F1 F2].
  apply Z.leb_le in F1, F2. split; [lia|]. unfold jN. rewrite Z2N.id by lia. reflexivity.
Qed.

Lemma dec_opt_some {A} (d : json -> option A) j a :
  j <> JNull -> d j = Some a -> dec_opt d j = Some (Some a).
Proof. intros Hn H. destruct j; try congruence; cbn [dec_opt option_map]; rewrite H; reflexivity. Qed.

Lemma map_opt_map {A B} (e : A -> json) (d : json -> option B) (g : A -> B) l :
  Forall (fun a => d (e a) = Some (g a)) l -> map_opt d (map e l) = Some (map g l).
Proof.
  induction 1 as [|a l Ha _ IH]; cbn [map map_opt]; [reflexivity|]. rewrite Ha, IH. reflexivity.
Qed.

Lemma dec_list_strs l : dec_list dec_str (JArr (map JStr l)) = Some l.
Proof.
  cbn [dec_list]. rewrite (map_opt_map JStr dec_str (fun s => s)).
  - rewrite map_id. reflexivity.
  - apply Forall_forall. reflexivity.
Qed.

(** * Errors *)
Lemma dec_error_obj ms :
  dec_error (JObj ms) =
  (msg <- req dec_str "message"%string ms;;
   src <- optf dec_error "source"%string ms;;
   Some (err_of msg src)).
Proof.
  cbn [dec_error].
  match goal with |- context [find_field _ (?F ms)] =>
    assert (E : F ms = map (fun kv => (fst kv, (fun j => (j, dec_error j)) (snd kv))) ms)
      by (induction ms as [|kv r IH]; [reflexivity | cbn [map]; rewrite <- IH; reflexivity]);
    rewrite E; clear E end.
  rewrite !(find_field_map (fun j => (j, dec_error j))). unfold req, optf.
  destruct (find_field "message"%string ms) as [|jm|]; cbn [fres_map]; try reflexivity.
  destruct jm; cbn [dec_str]; try reflexivity.
  destruct (find_field "source"%string ms) as [|js|]; cbn [fres_map]; try reflexivity.
  destruct js; cbn [dec_opt option_map]; try reflexivity;
    match goal with |- context [dec_error ?x] => destruct (dec_error x) end; reflexivity.
Qed.

Lemma enc_error_unfold m c :
  enc_error m c = JObj [("message"%string, JStr m);
                        ("source"%string, match c with [] => JNull | m' :: c' => enc_error m' c' end)].
Proof. destruct c; reflexivity. Qed.

Lemma dec_enc_error c : forall m, dec_error (enc_error m c) = Some (m, c).
Proof.
  induction c as [|m' c IH]; intros m; rewrite enc_error_unfold, dec_error_obj.
  - reflexivity.
  - unfold req, optf. cbn [find_field String.eqb Ascii.eqb Bool.eqb andb dec_str].
    rewrite (dec_opt_some dec_error _ (m', c)).
    + reflexivity.
    + rewrite enc_error_unfold. discriminate.
    + apply IH.
Qed.

(** * Values *)
Lemma dec_enc_value v : wire_value_ok v = true -> dec_value (enc_value v) = Some v.
Proof.
  unfold wire_value_ok. destruct v as [b|z|z|b|s|s|m c]; cbn [enc_value wf_value]; intros H.
  - reflexivity.
  - apply andb_true_iff in H as [H _]. cbn. rewrite H. reflexivity.
  - apply andb_true_iff in H as [H _]. cbn. rewrite H. reflexivity.
  - apply andb_true_iff in H as [_ H]. unfold enc_float. rewrite H. cbn. rewrite H. reflexivity.
  - reflexivity.
  - reflexivity.
  - change (dec_value (JObj [("error"%string, enc_error m c)]))
      with (e <- dec_error (enc_error m c);; Some (VErr (fst e) (snd e))).
    rewrite dec_enc_error. reflexivity.
Qed.

Lemma enc_nonfinite_is_null b :
  f64_finite b = false ->
  enc_value (VFloat b) = JObj [("float"%string, JNull)] /\ dec_value (enc_value (VFloat b)) = None.
Proof. intros H. cbn [enc_value]. unfold enc_float. rewrite H. split; reflexivity. Qed.

Ltac binds :=
  repeat match goal with
         | H : match ?x with Some _ => _ | None => None end = Some _ |- _ =>
             let E := fresh "E" in destruct x eqn:E; [|discriminate H]
         | H : (if ?x then _ else None) = Some _ |- _ =>
             let E := fresh "E" in destruct x eqn:E; [|discriminate H]
         end.

Lemma dec_f64_ok j b : dec_f64 j = Some b -> f64_finite b = true.
Proof.
  destruct j; cbn [dec_f64]; try discriminate; intros H; binds; congruence.
Qed.

Lemma f64_finite_wf b : f64_finite b = true -> wf_value (VFloat b) = true.
Proof. unfold f64_finite. intros H. apply andb_true_iff in H as [H _]. exact H. Qed.

Lemma dec_value_ok j v : dec_value j = Some v -> wire_value_ok v = true.
Proof.
  destruct j as [| | | | | |ms]; try discriminate.
  destruct ms as [|[tag c] [|? ?]]; try discriminate. cbn [dec_value].
  repeat match goal with |- context [if String.eqb tag ?s then _ else _] => destruct (String.eqb tag s) end;
    try discriminate; intros H.
  - binds. injection H as <-. reflexivity.
  - destruct c; try discriminate. binds. injection H as <-. unfold wire_value_ok. cbn. rewrite E. reflexivity.
  - destruct c; try discriminate. binds. injection H as <-. unfold wire_value_ok. cbn. rewrite E. reflexivity.
  - binds. injection H as <-. apply dec_f64_ok in E. unfold wire_value_ok.
    rewrite (f64_finite_wf _ E), E. reflexivity.
  - binds. injection H as <-. reflexivity.
  - binds. injection H as <-. reflexivity.
  - binds. injection H as <-. reflexivity.
Qed.

(** * Value sets *)
Lemma nodupb_spec l : nodupb l = true <-> NoDup l.
Proof.
  induction l as [|x l IH]; cbn [nodupb].
  - split; [constructor | reflexivity].
  - rewrite andb_true_iff, negb_true_iff, IH. split.
    + intros [H1 H2]. constructor; [|exact H2]. intros Hin. apply existsb_seqb in Hin. congruence.
    + intros H. inversion H as [|? ? Hn Hd]; subst. split; [|exact Hd].
      destruct (existsb (String.eqb x) l) eqn:E; [|reflexivity]. apply existsb_seqb in E. tauto.
Qed.

Lemma wf_values_spec vs :
  wf_values vs = true <->
  NoDup (map fst vs) /\ Forall (fun kv => wire_value_ok (snd kv) = true) vs.
Proof. unfold wf_values. rewrite andb_true_iff, nodupb_spec, forallb_forall, Forall_forall. tauto. Qed.

Definition dec_member (kj : string * json) : option (string * tvalue) :=
  match dec_value (snd kj) with Some v => Some (fst kj, v) | None => None end.

Lemma dec_entries_extend ms : forall acc,
  dec_entries ms acc = match map_opt dec_member ms with Some l => Some (extend acc l) | None => None end.
Proof.
  induction ms as [|[k j] ms IH]; intros acc; cbn [dec_entries map_opt]; [reflexivity|].
  unfold dec_member at 1. cbn [fst snd]. destruct (dec_value j) as [v|]; [|reflexivity].
  rewrite IH. destruct (map_opt dec_member ms); reflexivity.
Qed.

Lemma dec_values_deser ms :
  dec_values (JObj ms) = match map_opt dec_member ms with Some l => Some (deser l) | None => None end.
Proof. cbn [dec_values]. rewrite dec_entries_extend. reflexivity. Qed.

Lemma extend_nodup vs : forall acc, NoDup (map fst (acc ++ vs)) -> extend acc vs = acc ++ vs.
Proof.
  unfold extend. induction vs as [|[k v] vs IH]; intros acc H; cbn [fold_left fst snd].
  - rewrite app_nil_r. reflexivity.
  - rewrite insert_notin.
    + cbn [fst]. rewrite IH; rewrite <- app_assoc; [reflexivity | exact H].
    + rewrite map_app in H. apply NoDup_remove_2 in H. intros Hin. apply H. apply in_or_app. left. exact Hin.
Qed.

Lemma deser_nodup vs : NoDup (map fst vs) -> deser vs = vs.
Proof. intros H. exact (extend_nodup vs [] H). Qed.

Lemma map_opt_enc_members vs :
  Forall (fun kv => wire_value_ok (snd kv) = true) vs ->
  map_opt dec_member (map (fun kv => (fst kv, enc_value (snd kv))) vs) = Some vs.
Proof.
  induction 1 as [|[k v] vs Hv _ IH]; cbn [map map_opt]; [reflexivity|].
  unfold dec_member at 1. cbn [fst snd] in *. rewrite (dec_enc_value v Hv), IH. reflexivity.
Qed.

(** without the distinct-names hypothesis the set decodes to the result of inserting one by one *)
Lemma dec_enc_values_gen vs :
  Forall (fun kv => wire_value_ok (snd kv) = true) vs ->
  dec_values (enc_values vs) = Some (deser vs).
Proof. intros H. unfold enc_values. rewrite dec_values_deser, (map_opt_enc_members vs H). reflexivity. Qed.

Lemma dec_enc_values vs : wf_values vs = true -> dec_values (enc_values vs) = Some vs.
Proof.
  intros H. apply wf_values_spec in H as [Hnd Hok].
  rewrite (dec_enc_values_gen vs Hok), (deser_nodup vs Hnd). reflexivity.
Qed.

Lemma insert_ok m k v :
  Forall (fun kv => wire_value_ok (snd kv) = true) m -> wire_value_ok v = true ->
  Forall (fun kv => wire_value_ok (snd kv) = true) (fst (insert m k v)).
Proof.
  intros Hm Hv. induction Hm as [|[k' v'] m Hv' Hm IH]; cbn [insert].
  - constructor; [exact Hv | constructor].
  - destruct (String.eqb k' k).
    + constructor; [exact Hv | exact Hm].
    + destruct (insert m k v) as [r o]. constructor; [exact Hv' | exact IH].
Qed.

Lemma extend_ok l : forall acc,
  Forall (fun kv => wire_value_ok (snd kv) = true) acc ->
  Forall (fun kv => wire_value_ok (snd kv) = true) l ->
  Forall (fun kv => wire_value_ok (snd kv) = true) (extend acc l).
Proof.
  unfold extend. induction l as [|[k v] l IH]; intros acc Ha Hl; cbn [fold_left]; [exact Ha|].
  inversion Hl as [|? ? Hv Hl']; subst. apply IH; [|exact Hl']. apply insert_ok; assumption.
Qed.

Lemma map_opt_dec_member_ok ms l :
  map_opt dec_member ms = Some l -> Forall (fun kv => wire_value_ok (snd kv) = true) l /\ map fst l = map fst ms.
Proof.
  revert l. induction ms as [|[k j] ms IH]; cbn [map_opt]; intros l H.
  - injection H as <-. split; [constructor | reflexivity].
  - unfold dec_member at 1 in H. cbn [fst snd] in H.
    destruct (dec_value j) as [v|] eqn:Ev; [|discriminate].
    destruct (map_opt dec_member ms) as [l'|]; [|discriminate]. injection H as <-.
    destruct (IH l' eq_refl) as [H1 H2]. split.
    + constructor; [exact (dec_value_ok j v Ev) | exact H1].
    + cbn [map fst]. rewrite H2. reflexivity.
Qed.

Lemma dec_values_wf j vs : dec_values j = Some vs -> wf_values vs = true.
Proof.
  destruct j as [| | | | | |ms]; try discriminate. rewrite dec_values_deser.
  destruct (map_opt dec_member ms) as [l|] eqn:E; [|discriminate]. intros [= <-].
  apply wf_values_spec. split.
  - rewrite deser_denote. apply denote_nodup.
  - apply (extend_ok l []); [constructor | apply (map_opt_dec_member_ok ms l E)].
Qed.

(** member order: names of the decoded set = first occurrences of the member keys, in order *)
Lemma dec_values_order ms vs :
  dec_values (JObj ms) = Some vs -> map fst vs = first_occ [] (map fst ms).
Proof.
  rewrite dec_values_deser. destruct (map_opt dec_member ms) as [l|] eqn:E; [|discriminate].
  intros [= <-]. rewrite deser_denote, denote_fst. unfold keys_of.
  rewrite (proj2 (map_opt_dec_member_ok ms l E)). reflexivity.
Qed.

Lemma enc_values_keys vs : member_keys (enc_values vs) = map fst vs.
Proof. unfold member_keys, enc_values. cbn [members]. rewrite map_map. reflexivity. Qed.

(** * Call sites *)
Lemma dec_enc_kind k : dec_kind (enc_kind k) = Some k.
Proof. destruct k; reflexivity. Qed.
Lemma dec_enc_level l : dec_level (enc_level l) = Some l.
Proof. destruct l; reflexivity. Qed.

(** a struct decoder looks at the members only through the lookups of its own fields *)
Lemma dec_cs_members_ext ms ms' :
  (forall f, In f cs_fields_known -> find_field f ms = find_field f ms') ->
  dec_cs_members ms = dec_cs_members ms'.
Proof.
  intros H. unfold dec_cs_members, req, optf.
  rewrite !H by (cbn; tauto). reflexivity.
Qed.

Lemma enc_cs_lookup d :
  let ms := enc_cs_members d in
  find_field "kind"%string ms = FOne (enc_kind (cs_kind d))
  /\ find_field "name"%string ms = FOne (JStr (cs_name d))
  /\ find_field "target"%string ms = FOne (JStr (cs_target d))
  /\ find_field "level"%string ms = FOne (enc_level (cs_level d))
  /\ find_field "module_path"%string ms = match cs_module d with Some s => FOne (JStr s) | None => FAbsent end
  /\ find_field "file"%string ms = match cs_file d with Some s => FOne (JStr s) | None => FAbsent end
  /\ find_field "line"%string ms = match cs_line d with Some n => FOne (jN n) | None => FAbsent end
  /\ find_field "fields"%string ms = FOne (JArr (map JStr (cs_fields d))).
Proof. destruct d as [k n t l [m|] [f|] [ln|] fs]; cbv zeta; repeat split; reflexivity. Qed.

Lemma dec_enc_cs_members d : wf_cs d = true -> dec_cs_members (enc_cs_members d) = Some d.
Proof.
  intros Hwf. destruct (enc_cs_lookup d) as (H1 & H2 & H3 & H4 & H5 & H6 & H7 & H8).
  unfold dec_cs_members, req, optf. rewrite H1, H2, H3, H4, H5, H6, H7, H8.
  rewrite dec_enc_kind, dec_enc_level, dec_list_strs. cbn [dec_str].
  destruct d as [k n t l m f ln fs]. unfold wf_cs in Hwf. cbn [cs_module cs_file cs_line cs_kind cs_name cs_target cs_level cs_fields] in *.
  assert (Hm : forall o : option string,
             match match o with Some s => FOne (JStr s) | None => FAbsent end with
             | FAbsent => Some None | FOne j => dec_opt dec_str j | FDup => None end = Some o)
    by (intros [s|]; reflexivity).
  rewrite !Hm.
  destruct ln as [n'|].
  - apply N.ltb_lt in Hwf. rewrite (dec_opt_some dec_u32 (jN n') n'); [reflexivity | discriminate | apply dec_u32_jN, Hwf].
  - reflexivity.
Qed.

Lemma dec_enc_cs d : wf_cs d = true -> dec_cs (enc_cs d) = Some d.
Proof. exact (dec_enc_cs_members d). Qed.

Lemma dec_opt_inv {A} (d : json -> option A) j o :
  dec_opt d j = Some o -> match o with Some a => d j = Some a | None => j = JNull end.
Proof.
  destruct j; cbn [dec_opt option_map]; try (intros [= <-]; reflexivity);
    match goal with |- context [d ?x] => destruct (d x); cbn; [intros [= <-]; reflexivity | discriminate] end.
Qed.

Lemma optf_u32_wf ms o : optf dec_u32 "line"%string ms = Some o ->
  match o with Some n => (n <? 2 ^ 32) | None => true end = true.
Proof.
  unfold optf. destruct (find_field "line"%string ms) as [|j|]; try discriminate.
  - intros [= <-]. reflexivity.
  - intros H. apply dec_opt_inv in H. destruct o as [n|]; [|reflexivity].
    apply dec_u32_wf in H as [H _]. apply N.ltb_lt. exact H.
Qed.

Lemma dec_cs_members_wf ms d : dec_cs_members ms = Some d -> wf_cs d = true.
Proof.
  unfold dec_cs_members. intros H. binds. injection H as <-. unfold wf_cs. cbn [cs_line].
  exact (optf_u32_wf ms _ E5).
Qed.

Lemma dec_cs_wf j d : dec_cs j = Some d -> wf_cs d = true.
Proof.
  destruct j as [| | | | |l|ms]; try discriminate.
  - destruct l as [|a [|b [|c [|c1 [|c2 [|c3 [|c4 [|c5 [|? ?]]]]]]]]]; try discriminate.
    cbn [dec_cs]. intros H. binds. injection H as <-. unfold wf_cs. cbn [cs_line].
    apply dec_opt_inv in E5. destruct o1 as [n|]; [|reflexivity].
    apply dec_u32_wf in E5 as [E5 _]. apply N.ltb_lt. exact E5.
  - apply dec_cs_members_wf.
Qed.

(** * Optional ids *)
Lemma optf_u64_wf k ms o : optf dec_u64 k ms = Some o -> wf_oid o = true.
Proof.
  unfold optf. destruct (find_field k ms) as [|j|]; try discriminate.
  - intros [= <-]. reflexivity.
  - intros H. apply dec_opt_inv in H. destruct o as [n|]; [|reflexivity].
    apply dec_u64_wf in H as [H _]. exact H.
Qed.
Lemma dec_opt_u64_wf j o : dec_opt dec_u64 j = Some o -> wf_oid o = true.
Proof.
  intros H. apply dec_opt_inv in H. destruct o as [n|]; [|reflexivity].
  apply dec_u64_wf in H as [H _]. exact H.
Qed.
Lemma req_u64_wf k ms n : req dec_u64 k ms = Some n -> wf_id n = true.
Proof. unfold req. destruct (find_field k ms) as [|j|]; try discriminate. intros H. apply (dec_u64_wf j n H). Qed.
Lemma req_values_wf k ms vs : req dec_values k ms = Some vs -> wf_values vs = true.
Proof. unfold req. destruct (find_field k ms) as [|j|]; try discriminate. apply dec_values_wf. Qed.

Lemma optf_opt_member k (o : option N) rest :
  wf_oid o = true -> find_field k rest = FAbsent ->
  optf dec_u64 k (opt_member k jN o ++ rest) = Some o.
Proof.
  intros Hwf Habs. unfold optf. destruct o as [n|]; cbn [opt_member app find_field].
  - rewrite String.eqb_refl, Habs. apply dec_opt_some; [discriminate | apply dec_u64_jN, Hwf].
  - rewrite Habs. reflexivity.
Qed.

(** * Events *)
Lemma dec_cs_members_skip k j ms :
  ~ In k cs_fields_known -> dec_cs_members ((k, j) :: ms) = dec_cs_members ms.
Proof.
  intros H. apply dec_cs_members_ext. intros f Hf. apply find_field_cons_ne.
  intros ->. exact (H Hf).
Qed.

Lemma dec_enc_event e : wf_event e = true -> dec_event (enc_event e) = Some e.
Proof.
  destruct e as [id d|id p m vs|id f|id|id|id|id|id vs|m p vs]; cbn [wf_event enc_event]; intros H;
    repeat (apply andb_true_iff in H; destruct H as [H ?]).
  - change (dec_event (JObj [("new_call_site"%string, JObj (("id"%string, jN id) :: enc_cs_members d))]))
      with (i <- req dec_u64 "id"%string (("id"%string, jN id) :: enc_cs_members d);;
            d' <- dec_cs_members (("id"%string, jN id) :: enc_cs_members d);; Some (ENewCallSite i d')).
    rewrite dec_cs_members_skip by (cbn; intuition discriminate).
    rewrite (dec_enc_cs_members d) by assumption.
    unfold req. cbn [find_field]. rewrite String.eqb_refl.
    replace (find_field "id"%string (enc_cs_members d)) with (@FAbsent json)
      by (destruct d as [k n t l [?|] [?|] [?|] fs]; reflexivity).
    rewrite (dec_u64_jN id H). reflexivity.
  - change (dec_event _) with
      (let ms := ([("id"%string, jN id)] ++ opt_member "parent_id"%string jN p
                   ++ [("metadata_id"%string, jN m); ("values"%string, enc_values vs)]) in
       i <- req dec_u64 "id"%string ms;; p' <- optf dec_u64 "parent_id"%string ms;;
       m' <- req dec_u64 "metadata_id"%string ms;; vs' <- req dec_values "values"%string ms;;
       Some (ENewSpan i p' m' vs')).
    cbv zeta. unfold req at 1 2 3. destruct p as [q|]; cbn [app opt_member find_field String.eqb Ascii.eqb Bool.eqb andb];
      rewrite ?(dec_u64_jN id), ?(dec_u64_jN m), ?(dec_enc_values vs) by assumption.
    + unfold optf. cbn [find_field String.eqb Ascii.eqb Bool.eqb andb].
      rewrite (dec_opt_some dec_u64 (jN q) q); [reflexivity | discriminate | apply dec_u64_jN; assumption].
    + reflexivity.
  - unfold dec_event, req. cbn [find_field String.eqb Ascii.eqb Bool.eqb andb].
    rewrite (dec_u64_jN id), (dec_u64_jN f) by assumption. reflexivity.
  - unfold dec_event, dec_id_only, req. cbn [find_field String.eqb Ascii.eqb Bool.eqb andb].
    rewrite (dec_u64_jN id) by assumption. reflexivity.
  - unfold dec_event, dec_id_only, req. cbn [find_field String.eqb Ascii.eqb Bool.eqb andb].
    rewrite (dec_u64_jN id) by assumption. reflexivity.
  - unfold dec_event, dec_id_only, req. cbn [find_field String.eqb Ascii.eqb Bool.eqb andb].
    rewrite (dec_u64_jN id) by assumption. reflexivity.
  - unfold dec_event, dec_id_only, req. cbn [find_field String.eqb Ascii.eqb Bool.eqb andb].
    rewrite (dec_u64_jN id) by assumption. reflexivity.
  - change (dec_event _) with
      (let ms := [("id"%string, jN id); ("values"%string, enc_values vs)] in
       i <- req dec_u64 "id"%string ms;; vs' <- req dec_values "values"%string ms;;
       Some (EValuesRecorded i vs')).
    cbv zeta. unfold req. cbn [find_field String.eqb Ascii.eqb Bool.eqb andb].
    rewrite (dec_u64_jN id), (dec_enc_values vs) by assumption. reflexivity.
  - change (dec_event _) with
      (let ms := ([("metadata_id"%string, jN m)] ++ opt_member "parent"%string jN p
                   ++ [("values"%string, enc_values vs)]) in
       m' <- req dec_u64 "metadata_id"%string ms;; p' <- optf dec_u64 "parent"%string ms;;
       vs' <- req dec_values "values"%string ms;; Some (ENewEvent m' p' vs')).
    cbv zeta. unfold req. destruct p as [q|]; cbn [app opt_member find_field String.eqb Ascii.eqb Bool.eqb andb];
      rewrite ?(dec_u64_jN m), ?(dec_enc_values vs) by assumption.
    + unfold optf. cbn [find_field String.eqb Ascii.eqb Bool.eqb andb].
      rewrite (dec_opt_some dec_u64 (jN q) q); [reflexivity | discriminate | apply dec_u64_jN; assumption].
    + reflexivity.
Qed.

Lemma dec_id_only_wf mk c e :
  (forall i, wf_event (mk i) = wf_id i) -> dec_id_only mk c = Some e -> wf_event e = true.
Proof.
  intros Hmk. destruct c as [| | | | |l|ms]; try discriminate; cbn [dec_id_only].
  - destruct l as [|a [|? ?]]; try discriminate. intros H. binds. injection H as <-.
    rewrite Hmk. apply (dec_u64_wf a n E).
  - intros H. binds. injection H as <-. rewrite Hmk. apply (req_u64_wf _ _ _ E).
Qed.

Lemma dec_event_wf j e : dec_event j = Some e -> wf_event e = true.
Proof.
  destruct j as [| | | | | |ms]; try discriminate.
  destruct ms as [|[tag c] [|? ?]]; try discriminate. cbn [dec_event].
  repeat match goal with |- context [if String.eqb tag ?s then _ else _] => destruct (String.eqb tag s) end;
    try discriminate; try (apply dec_id_only_wf; reflexivity).
  - destruct c as [| | | | | |ms]; try discriminate. intros H. binds. injection H as <-.
    cbn [wf_event]. rewrite (req_u64_wf _ _ _ E), (dec_cs_members_wf _ _ E0). reflexivity.
  - destruct c as [| | | | |l|ms]; try discriminate.
    + destruct l as [|a [|b [|c [|d [|? ?]]]]]; try discriminate. intros H. binds. injection H as <-.
      cbn [wf_event]. rewrite (proj1 (dec_u64_wf _ _ E)), (dec_opt_u64_wf _ _ E0),
        (proj1 (dec_u64_wf _ _ E1)), (dec_values_wf _ _ E2). reflexivity.
    + intros H. binds. injection H as <-. cbn [wf_event].
      rewrite (req_u64_wf _ _ _ E), (optf_u64_wf _ _ _ E0), (req_u64_wf _ _ _ E1), (req_values_wf _ _ _ E2).
      reflexivity.
  - destruct c as [| | | | |l|ms]; try discriminate.
    + destruct l as [|a [|b [|? ?]]]; try discriminate. intros H. binds. injection H as <-.
      cbn [wf_event]. rewrite (proj1 (dec_u64_wf _ _ E)), (proj1 (dec_u64_wf _ _ E0)). reflexivity.
    + intros H. binds. injection H as <-. cbn [wf_event].
      rewrite (req_u64_wf _ _ _ E), (req_u64_wf _ _ _ E0). reflexivity.
  - destruct c as [| | | | |l|ms]; try discriminate.
    + destruct l as [|a [|b [|? ?]]]; try discriminate. intros H. binds. injection H as <-.
      cbn [wf_event]. rewrite (proj1 (dec_u64_wf _ _ E)), (dec_values_wf _ _ E0). reflexivity.
    + intros H. binds. injection H as <-. cbn [wf_event].
      rewrite (req_u64_wf _ _ _ E), (req_values_wf _ _ _ E0). reflexivity.
  - destruct c as [| | | | |l|ms]; try discriminate.
    + destruct l as [|a [|b [|d [|? ?]]]]; try discriminate. intros H. binds. injection H as <-.
      cbn [wf_event]. rewrite (proj1 (dec_u64_wf _ _ E)), (dec_opt_u64_wf _ _ E0), (dec_values_wf _ _ E1).
      reflexivity.
    + intros H. binds. injection H as <-. cbn [wf_event].
      rewrite (req_u64_wf _ _ _ E), (optf_u64_wf _ _ _ E0), (req_values_wf _ _ _ E1). reflexivity.
Qed.

(** decoding then encoding then decoding is the identity on what was decoded: every accepted
    document is normalised to the canonical document of the same value *)
Lemma dec_event_reenc j e : dec_event j = Some e -> dec_event (enc_event e) = Some e.
Proof. intros H. apply dec_enc_event. exact (dec_event_wf j e H). Qed.

(** * Tolerance *)
Lemma dec_event_ext tag ms ms' :
  (forall f, In f (event_fields tag) -> find_field f ms = find_field f ms') ->
  dec_event (JObj [(tag, JObj ms)]) = dec_event (JObj [(tag, JObj ms')]).
Proof.
  unfold event_fields. cbn [dec_event]. unfold dec_id_only.
  repeat match goal with |- context [if String.eqb tag ?s then _ else _] => destruct (String.eqb tag s) end;
    intros H; try reflexivity; unfold req, optf;
    try (rewrite !H by (cbn; tauto); reflexivity).
  rewrite (H "id"%string) by (cbn; tauto).
  rewrite (dec_cs_members_ext ms ms'); [reflexivity|]. intros f Hf. apply H. right. exact Hf.

Qed.

Lemma dec_event_perm tag ms ms' :
  Permutation ms ms' -> dec_event (JObj [(tag, JObj ms)]) = dec_event (JObj [(tag, JObj ms')]).
Proof. intros H. apply dec_event_ext. intros f _. apply find_field_perm, H. Qed.

Lemma dec_event_unknown tag k j ms :
  ~ In k (event_fields tag) ->
  dec_event (JObj [(tag, JObj ((k, j) :: ms))]) = dec_event (JObj [(tag, JObj ms)]).
Proof.
  intros H. apply dec_event_ext. intros f Hf. apply find_field_cons_ne. intros ->. exact (H Hf).
Qed.

(** an optional member may be absent, or present with [null]: both mean [None] *)
Lemma optf_null {A} (d : json -> option A) k ms :
  find_field k ms = FAbsent -> optf d k ((k, JNull) :: ms) = optf d k ms.
Proof. intros H. unfold optf. cbn [find_field]. rewrite String.eqb_refl, H. reflexivity. Qed.

Lemma dec_error_ext ms ms' :
  (forall f, In f ["message"; "source"]%string -> find_field f ms = find_field f ms') ->
  dec_error (JObj ms) = dec_error (JObj ms').
Proof. intros H. rewrite !dec_error_obj. unfold req, optf. rewrite !H by (cbn; tauto). reflexivity. Qed.

(** * Span data *)
Lemma dec_enc_span_data s : wf_span_data s = true -> dec_span_data (enc_span_data s) = Some s.
Proof.
  destruct s as [m p r vs]. unfold wf_span_data. cbn [sd_meta sd_parent sd_refs sd_values]. intros H.
  repeat (apply andb_true_iff in H; destruct H as [H ?]).
  unfold enc_span_data. cbn [sd_meta sd_parent sd_refs sd_values dec_span_data]. unfold dec_usize, req.
  destruct p as [q|]; cbn [app opt_member find_field String.eqb Ascii.eqb Bool.eqb andb];
    rewrite ?(dec_u64_jN m), ?(dec_u64_jN r), ?(dec_enc_values vs) by assumption.
  - unfold optf. cbn [find_field String.eqb Ascii.eqb Bool.eqb andb].
    rewrite (dec_opt_some dec_u64 (jN q) q); [reflexivity | discriminate | apply dec_u64_jN; assumption].
  - reflexivity.
Qed.

Lemma dec_span_data_wf j s : dec_span_data j = Some s -> wf_span_data s = true.
Proof.
  destruct j as [| | | | |l|ms]; try discriminate; cbn [dec_span_data]; unfold dec_usize.
  - destruct l as [|a [|b [|c [|d [|? ?]]]]]; try discriminate. intros H. binds. injection H as <-.
    unfold wf_span_data. cbn [sd_meta sd_parent sd_refs sd_values].
    rewrite (proj1 (dec_u64_wf _ _ E)), (dec_opt_u64_wf _ _ E0), (proj1 (dec_u64_wf _ _ E1)), (dec_values_wf _ _ E2).
    reflexivity.
  - intros H. binds. injection H as <-. unfold wf_span_data. cbn [sd_meta sd_parent sd_refs sd_values].
    rewrite (req_u64_wf _ _ _ E), (optf_u64_wf _ _ _ E0), (req_u64_wf _ _ _ E1), (req_values_wf _ _ _ E2).
    reflexivity.
Qed.

Lemma dec_span_data_ext ms ms' :
  (forall f, In f span_data_fields -> find_field f ms = find_field f ms') ->
  dec_span_data (JObj ms) = dec_span_data (JObj ms').
Proof. intros H. cbn [dec_span_data]. unfold req, optf. rewrite !H by (cbn; tauto). reflexivity. Qed.

Lemma span_data_eqb_spec a b : span_data_eqb a b = true <-> a = b.
Proof.
  destruct a as [m p r v], b as [m1 p1 r1 v1]; unfold span_data_eqb; cbn [sd_meta sd_parent sd_refs sd_values].
  rewrite !andb_true_iff, !N.eqb_eq, (option_eqb_spec N.eqb N.eqb_eq), tvalues_eqb_spec.
  split; [intros [[[-> ->] ->] ->]; reflexivity | intros [= -> -> -> ->]; tauto].
Qed.

(** * Id-keyed maps *)
Lemma existsb_Neqb k l : existsb (N.eqb k) l = true <-> In k l.
Proof.
  rewrite existsb_exists. split.
  - intros (x & Hx & E). apply N.eqb_eq in E. subst. exact Hx.
  - intros H. exists k. split; [exact H | apply N.eqb_refl].
Qed.

Lemma nodupN_spec l : nodupN l = true <-> NoDup l.
Proof.
  induction l as [|x l IH]; cbn [nodupN].
  - split; [constructor | reflexivity].
  - rewrite andb_true_iff, negb_true_iff, IH. split.
    + intros [H1 H2]. constructor; [|exact H2]. intros Hin. apply existsb_Neqb in Hin. congruence.
    + intros H. inversion H as [|? ? Hn Hd]; subst. split; [|exact Hd].
      destruct (existsb (N.eqb x) l) eqn:E; [|reflexivity]. apply existsb_Neqb in E. tauto.
Qed.

Definition pm_ok {A} (wf : A -> bool) (m : pmap A) : Prop :=
  NoDup (map fst m) /\ Forall (fun ka => wf_id (fst ka) = true /\ wf (snd ka) = true) m.

Lemma wf_pmap_spec {A} (wf : A -> bool) m : wf_pmap wf m = true <-> pm_ok wf m.
Proof.
  unfold wf_pmap, pm_ok. rewrite andb_true_iff, nodupN_spec, forallb_forall, Forall_forall.
  split; intros [H1 H2]; (split; [exact H1|]); intros x Hx; specialize (H2 x Hx).
  - apply andb_true_iff in H2. exact H2.
  - apply andb_true_iff. exact H2.
Qed.

Lemma pm_ok_perm {A} (wf : A -> bool) m m' : Permutation m m' -> pm_ok wf m -> pm_ok wf m'.
Proof.
  intros P [H1 H2]. split.
  - eapply Permutation_NoDup; [apply Permutation_map, P | exact H1].
  - eapply Permutation_Forall; eassumption.
Qed.

Lemma pm_insert_notin {A} (m : pmap A) k a : ~ In k (map fst m) -> pm_insert m k a = m ++ [(k, a)].
Proof.
  induction m as [|[k' a'] m IH]; cbn [pm_insert map fst In app]; intros H; [reflexivity|].
  destruct (N.eqb_spec k' k) as [->|Hne]; [tauto|]. rewrite IH by tauto. reflexivity.
Qed.

Lemma pm_insert_in {A} (m : pmap A) k a x :
  In x (map fst (pm_insert m k a)) <-> In x (map fst m) \/ x = k.
Proof.
  induction m as [|[k' a'] m IH]; cbn [pm_insert map fst In].
  - intuition.
  - destruct (N.eqb_spec k' k) as [->|Hne]; cbn [map fst In]; [|rewrite IH]; intuition.
Qed.

Lemma pm_insert_ok {A} (wf : A -> bool) (m : pmap A) k a :
  pm_ok wf m -> wf_id k = true -> wf a = true -> pm_ok wf (pm_insert m k a).
Proof.
  intros [Hnd Hall] Hk Ha. induction m as [|[k' a'] m IH]; cbn [pm_insert].
  - split; [repeat constructor; intros [] | repeat constructor; assumption].
  - cbn [map fst] in Hnd. inversion Hnd as [|? ? Hni Hnd']; subst.
    inversion Hall as [|? ? Hh Hall']; subst. cbn [fst snd] in Hh.
    destruct (N.eqb_spec k' k) as [->|Hne].
    + split; [exact Hnd | constructor; [cbn [fst snd]; tauto | exact Hall']].
    + destruct (IH Hnd' Hall') as [I1 I2]. split.
      * cbn [map fst]. constructor; [|exact I1]. rewrite pm_insert_in. intros [H|H]; [tauto | congruence].
      * constructor; [exact Hh | exact I2].
Qed.

Section PMap.
  Context {A : Type} (e : A -> json) (d : json -> option A) (wf : A -> bool).
  Hypothesis dec_enc : forall a, wf a = true -> d (e a) = Some a.
  Hypothesis dec_wf : forall j a, d j = Some a -> wf a = true.

  Let encm (ka : N * A) : string * json := (string_of_N (fst ka), e (snd ka)).

  Lemma dec_pmap_entries_enc m : forall acc,
    NoDup (map fst (acc ++ m)) ->
    Forall (fun ka => wf_id (fst ka) = true /\ wf (snd ka) = true) m ->
    dec_pmap_entries d (map encm m) acc = Some (acc ++ m).
  Proof.
    induction m as [|[k a] m IH]; intros acc Hnd Hall; cbn [map dec_pmap_entries].
    - rewrite app_nil_r. reflexivity.
    - inversion Hall as [|? ? [Hk Ha] Hall']; subst. cbn [fst snd] in *.
      unfold encm at 1. cbn [fst snd]. rewrite (dec_key_of_N k Hk), (dec_enc a Ha).
      rewrite pm_insert_notin.
      + rewrite IH; [rewrite <- app_assoc; reflexivity | rewrite <- app_assoc; exact Hnd | exact Hall'].
      + rewrite map_app in Hnd. apply NoDup_remove_2 in Hnd. intros Hin. apply Hnd.
        apply in_or_app. left. exact Hin.
  Qed.

  Lemma dec_enc_pmap m : wf_pmap wf m = true -> dec_pmap d (enc_pmap e m) = Some m.
  Proof.
    intros H. apply wf_pmap_spec in H as [H1 H2]. unfold enc_pmap. cbn [dec_pmap].
    exact (dec_pmap_entries_enc m [] H1 H2).
  Qed.

  (** the members may come in any order (hash order): the same finite map is decoded *)
  Lemma dec_enc_pmap_perm m ms :
    wf_pmap wf m = true -> Permutation ms (members (enc_pmap e m)) ->
    exists m', Permutation m m' /\ JObj ms = enc_pmap e m' /\ wf_pmap wf m' = true
               /\ dec_pmap d (JObj ms) = Some m'.
  Proof.
    intros H P. unfold enc_pmap in P. cbn [members] in P.
    apply Permutation_map_inv in P as (m' & -> & P).
    assert (H' : wf_pmap wf m' = true)
      by (apply wf_pmap_spec; apply (pm_ok_perm wf m m' P); apply wf_pmap_spec; exact H).
    exists m'. split; [exact P|]. split; [reflexivity|]. split; [exact H'|].
    exact (dec_enc_pmap m' H').
  Qed.

  Lemma dec_pmap_entries_ok ms : forall acc m,
    pm_ok wf acc -> dec_pmap_entries d ms acc = Some m -> pm_ok wf m.
  Proof.
    induction ms as [|[s j] ms IH]; intros acc m Hacc; cbn [dec_pmap_entries].
    - intros [= <-]. exact Hacc.
    - intros H. binds. apply (IH _ _ (pm_insert_ok wf acc n a Hacc (proj2 (dec_key_inv s n E)) (dec_wf j a E0)) H).
  Qed.

  Lemma dec_pmap_wf j m : dec_pmap d j = Some m -> wf_pmap wf m = true.
  Proof.
    destruct j as [| | | | | |ms]; try discriminate. cbn [dec_pmap]. intros H.
    apply wf_pmap_spec. apply (dec_pmap_entries_ok ms [] m); [|exact H].
    split; constructor.
  Qed.

  Lemma dec_pmap_reenc j m : dec_pmap d j = Some m -> dec_pmap d (enc_pmap e m) = Some m.
  Proof. intros H. apply dec_enc_pmap. exact (dec_pmap_wf j m H). Qed.
End PMap.

Lemma pm_get_perm {A} (m m' : pmap A) :
  Permutation m m' -> NoDup (map fst m) -> forall k, pm_get m k = pm_get m' k.
Proof.
  induction 1 as [| [k1 a1] l l' P IH | [k1 a1] [k2 a2] l | l l' l'' P1 IH1 P2 IH2]; intros Hnd k; cbn [pm_get].
  - reflexivity.
  - cbn [map fst] in Hnd. inversion Hnd; subst. rewrite IH by assumption. reflexivity.
  - cbn [map fst] in Hnd. inversion Hnd as [|? ? Hni _]; subst.
    destruct (N.eqb_spec k1 k) as [->|]; destruct (N.eqb_spec k2 k) as [->|]; try reflexivity.
    exfalso. apply Hni. left. reflexivity.
  - rewrite IH1 by exact Hnd. apply IH2.
    eapply Permutation_NoDup; [apply Permutation_map, P1 | exact Hnd].
Qed.

(** duplicate ids in a document: the last one wins (HashMap::insert) *)
Lemma pm_get_insert {A} (m : pmap A) k a k' :
  pm_get (pm_insert m k a) k' = if N.eqb k k' then Some a else pm_get m k'.
Proof.
  induction m as [|[k0 a0] m IH]; cbn [pm_insert pm_get].
  - reflexivity.
  - destruct (N.eqb_spec k0 k) as [->|Hne]; cbn [pm_get].
    + destruct (N.eqb_spec k k'); reflexivity.
    + rewrite IH. destruct (N.eqb_spec k0 k') as [->|]; [|reflexivity].
      destruct (N.eqb_spec k k'); [congruence | reflexivity].
Qed.

Lemma pm_sorted_insert_perm {A} k (a : A) m : Permutation ((k, a) :: m) (pm_sorted_insert k a m).
Proof.
  induction m as [|[k' a'] m IH]; cbn [pm_sorted_insert]; [reflexivity|].
  destruct (k <=? k'); [reflexivity|]. rewrite perm_swap. apply perm_skip, IH.
Qed.
Lemma pm_sort_perm {A} (m : pmap A) : Permutation m (pm_sort m).
Proof.
  unfold pm_sort. induction m as [|[k a] m IH]; cbn [fold_right fst snd]; [reflexivity|].
  rewrite <- pm_sorted_insert_perm. apply perm_skip, IH.
Qed.

(** * Equality of objects up to member order *)
Lemma find_field_one_in {A} k (a b : A) ms : find_field k ms = FOne a -> In (k, b) ms -> b = a.
Proof.
  induction ms as [|[k' a'] ms IH]; cbn [find_field In]; [tauto|].
  destruct (String.eqb k' k) eqn:E.
  - apply String.eqb_eq in E. subst. destruct (find_field k ms) eqn:F; try discriminate.
    intros [= <-] [[= <-]|Hin]; [reflexivity|]. exfalso.
    apply (proj1 (find_field_absent k ms) F). apply in_map_iff. exists (k, b). auto.
  - intros H [[= -> _]|Hin]; [rewrite String.eqb_refl in E; discriminate | exact (IH H Hin)].
Qed.

Lemma json_perm_eqb_perm x y :
  Permutation x y -> NoDup (map fst x) -> json_perm_eqb (JObj x) (JObj y) = true.
Proof.
  intros P Hnd. cbn [json_perm_eqb]. rewrite (Permutation_length P), Nat.eqb_refl. cbn [andb].
  apply andb_true_iff. split; apply forallb_forall; intros [k v] Hin; cbn [fst snd].
  - rewrite <- (find_field_perm k x y P), (find_field_in_nodup k v x Hnd Hin). apply json_eqb_refl.
  - apply (Permutation_in _ (Permutation_sym P)) in Hin.
    rewrite (find_field_in_nodup k v x Hnd Hin). reflexivity.
Qed.

(** soundness: two objects that compare equal up to order are the same finite map *)
Lemma json_perm_eqb_lookup x y :
  json_perm_eqb (JObj x) (JObj y) = true -> forall k, find_field k x = find_field k y.
Proof.
  cbn [json_perm_eqb]. intros H k. apply andb_true_iff in H as [H H3]. apply andb_true_iff in H as [_ H2].
  rewrite forallb_forall in H2, H3.
  destruct (find_field k x) as [|a|] eqn:Fx.
  - destruct (find_field k y) as [|b|] eqn:Fy; [reflexivity| |]; exfalso;
      assert (Hin : In k (map fst y))
        by (destruct (in_dec string_dec k (map fst y)) as [i|n]; [exact i | apply find_field_absent in n; congruence]);
      apply in_map_iff in Hin as ([k' b'] & <- & Hin); specialize (H3 _ Hin); cbn [fst] in *; rewrite Fx in H3; discriminate.
  - assert (Hin : In k (map fst x))
      by (destruct (in_dec string_dec k (map fst x)) as [i|n]; [exact i | apply find_field_absent in n; congruence]).
    apply in_map_iff in Hin as ([k' a'] & <- & Hin). cbn [fst] in *.
    rewrite (find_field_one_in k' a a' x Fx Hin) in Hin. specialize (H2 _ Hin). cbn [fst snd] in H2.
    destruct (find_field k' y) as [|b|]; try discriminate. apply json_eqb_spec in H2. congruence.
  - assert (Hin : In k (map fst x))
      by (destruct (in_dec string_dec k (map fst x)) as [i|n]; [exact i | apply find_field_absent in n; congruence]).
    apply in_map_iff in Hin as ([k' a'] & <- & Hin). cbn [fst] in *. specialize (H2 _ Hin). cbn [fst snd] in H2.
    destruct (find_field k' y) as [|b|] eqn:Fy; try discriminate.
    assert (Hiny : In k' (map fst y))
      by (destruct (in_dec string_dec k' (map fst y)) as [i|n]; [exact i | apply find_field_absent in n; congruence]).
    apply in_map_iff in Hiny as ([k'' b'] & <- & Hiny). specialize (H3 _ Hiny). cbn [fst] in *.
    rewrite Fx in H3. discriminate.
Qed.

(** * Conformance *)
Lemma conforms_event_enc e : wf_event e = true -> conforms_event (enc_event e) = true.
Proof. intros H. unfold conforms_event. rewrite (dec_enc_event e H). apply json_eqb_refl. Qed.

Lemma conforms_event_inv j :
  conforms_event j = true -> exists e, wf_event e = true /\ j = enc_event e /\ dec_event j = Some e.
Proof.
  unfold conforms_event. destruct (dec_event j) as [e|] eqn:E; [|discriminate]. intros H.
  apply json_eqb_spec in H. exists e. split; [exact (dec_event_wf j e E)|]. split; [symmetry; exact H | reflexivity].
Qed.

Lemma conforms_value_enc v : wire_value_ok v = true -> conforms_value (enc_value v) = true.
Proof. intros H. unfold conforms_value. rewrite (dec_enc_value v H). apply json_eqb_refl. Qed.

Lemma enc_pmap_keys_nodup {A} (e : A -> json) m :
  NoDup (map fst m) -> NoDup (map fst (members (enc_pmap e m))).
Proof.
  intros H. unfold enc_pmap. cbn [members]. rewrite map_map. cbn [fst].
  rewrite <- (map_map fst string_of_N). apply FinFun.Injective_map_NoDup; [|exact H].
  intros a b. apply string_of_N_inj.
Qed.

Lemma conforms_spans_perm m ms :
  wf_spans m = true -> Permutation ms (members (enc_spans m)) -> conforms_spans (JObj ms) = true.
Proof.
  intros H P.
  destruct (dec_enc_pmap_perm enc_span_data dec_span_data wf_span_data dec_enc_span_data m ms H P)
    as (m' & Pm & Hms & Hwf' & Hdec).
  unfold conforms_spans, dec_spans. rewrite Hdec. unfold enc_spans. rewrite <- Hms.
  apply json_perm_eqb_perm; [reflexivity|].
  injection Hms as ->. apply (enc_pmap_keys_nodup enc_span_data m').
  apply wf_pmap_spec in Hwf'. exact (proj1 Hwf').
Qed.

Lemma conforms_metadata_perm m ms :
  wf_metadata m = true -> Permutation ms (members (enc_metadata m)) -> conforms_metadata (JObj ms) = true.
Proof.
  intros H P.
  destruct (dec_enc_pmap_perm enc_cs dec_cs wf_cs dec_enc_cs m ms H P) as (m' & Pm & Hms & Hwf' & Hdec).
  unfold conforms_metadata, dec_metadata. rewrite Hdec. unfold enc_metadata. rewrite <- Hms.
  apply json_perm_eqb_perm; [reflexivity|].
  injection Hms as ->. apply (enc_pmap_keys_nodup enc_cs m').
  apply wf_pmap_spec in Hwf'. exact (proj1 Hwf').
Qed.

(** * Member order of value sets *)
Lemma event_value_keys_enc e :
  event_value_keys (enc_event e) = option_map (map fst) (event_values e).
Proof.
  destruct e as [id d|id [p|] m vs|id f|id|id|id|id|id vs|m [p|] vs];
    cbn [enc_event event_value_keys event_values option_map app opt_member find_field
         String.eqb Ascii.eqb Bool.eqb andb]; rewrite ?enc_values_keys; try reflexivity.
  destruct d as [k n t l [?|] [?|] [?|] fs]; reflexivity.
Qed.

Lemma enc_values_members vs :
  enc_values vs = JObj (map (fun kv => (fst kv, enc_value (snd kv))) vs).
Proof. reflexivity. Qed.

(** * Wire shape: the exact variant and field names of the 0.2 format *)

Lemma shape_values b z s m c :
  enc_value (VBool b) = JObj [("bool"%string, JBool b)]
  /\ enc_value (VInt z) = JObj [("int"%string, JInt z)]
  /\ enc_value (VUInt z) = JObj [("u_int"%string, JInt z)]
  /\ (forall bits, f64_finite bits = true -> enc_value (VFloat bits) = JObj [("float"%string, JFloat bits)])
  /\ enc_value (VStr s) = JObj [("string"%string, JStr s)]
  /\ enc_value (VObj s) = JObj [("object"%string, JStr s)]
  /\ enc_value (VErr m []) = JObj [("error"%string, JObj [("message"%string, JStr m); ("source"%string, JNull)])]
  /\ (forall m', enc_value (VErr m (m' :: c))
                 = JObj [("error"%string, JObj [("message"%string, JStr m); ("source"%string, enc_error m' c)])]).
Proof.
  repeat split; try reflexivity. intros bits H. cbn [enc_value]. unfold enc_float. rewrite H. reflexivity.
Qed.

Lemma shape_call_site k n t l mp f ln fs :
  enc_cs (mk_cs k n t l (Some mp) (Some f) (Some ln) fs)
  = JObj [("kind"%string, enc_kind k); ("name"%string, JStr n); ("target"%string, JStr t); ("level"%string, enc_level l);
          ("module_path"%string, JStr mp); ("file"%string, JStr f); ("line"%string, JInt (Z.of_N ln));
          ("fields"%string, JArr (map JStr fs))]
  /\ enc_cs (mk_cs k n t l None None None fs)
     = JObj [("kind"%string, enc_kind k); ("name"%string, JStr n); ("target"%string, JStr t); ("level"%string, enc_level l);
             ("fields"%string, JArr (map JStr fs))]
  /\ enc_kind KSpan = JStr "span"%string /\ enc_kind KEvent = JStr "event"%string
  /\ enc_level LError = JStr "error"%string /\ enc_level LWarn = JStr "warn"%string /\ enc_level LInfo = JStr "info"%string
  /\ enc_level LDebug = JStr "debug"%string /\ enc_level LTrace = JStr "trace"%string.
Proof. repeat split; reflexivity. Qed.

(** an optional member is written exactly when the value is present *)
Lemma shape_optional {A} k (e : A -> json) o :
  opt_member k e o = match o with Some a => [(k, e a)] | None => [] end.
Proof. reflexivity. Qed.

Lemma shape_events i p m f d vs :
  enc_event (ENewCallSite i d) = JObj [("new_call_site"%string, JObj (("id"%string, JInt (Z.of_N i)) :: enc_cs_members d))]
  /\ enc_event (ENewSpan i (Some p) m vs)
     = JObj [("new_span"%string, JObj [("id"%string, JInt (Z.of_N i)); ("parent_id"%string, JInt (Z.of_N p));
                                ("metadata_id"%string, JInt (Z.of_N m)); ("values"%string, enc_values vs)])]
  /\ enc_event (ENewSpan i None m vs)
     = JObj [("new_span"%string, JObj [("id"%string, JInt (Z.of_N i)); ("metadata_id"%string, JInt (Z.of_N m));
                                ("values"%string, enc_values vs)])]
  /\ enc_event (EFollowsFrom i f)
     = JObj [("follows_from"%string, JObj [("id"%string, JInt (Z.of_N i)); ("follows_from"%string, JInt (Z.of_N f))])]
  /\ enc_event (ESpanEntered i) = JObj [("span_entered"%string, JObj [("id"%string, JInt (Z.of_N i))])]
  /\ enc_event (ESpanExited i) = JObj [("span_exited"%string, JObj [("id"%string, JInt (Z.of_N i))])]
  /\ enc_event (ESpanCloned i) = JObj [("span_cloned"%string, JObj [("id"%string, JInt (Z.of_N i))])]
  /\ enc_event (ESpanDropped i) = JObj [("span_dropped"%string, JObj [("id"%string, JInt (Z.of_N i))])]
  /\ enc_event (EValuesRecorded i vs)
     = JObj [("values_recorded"%string, JObj [("id"%string, JInt (Z.of_N i)); ("values"%string, enc_values vs)])]
  /\ enc_event (ENewEvent m (Some p) vs)
     = JObj [("new_event"%string, JObj [("metadata_id"%string, JInt (Z.of_N m)); ("parent"%string, JInt (Z.of_N p));
                                 ("values"%string, enc_values vs)])]
  /\ enc_event (ENewEvent m None vs)
     = JObj [("new_event"%string, JObj [("metadata_id"%string, JInt (Z.of_N m)); ("values"%string, enc_values vs)])].
Proof. repeat split; reflexivity. Qed.

Lemma shape_persisted m p r vs :
  enc_span_data (mk_sd m (Some p) r vs)
  = JObj [("metadata_id"%string, JInt (Z.of_N m)); ("parent_id"%string, JInt (Z.of_N p));
          ("ref_count"%string, JInt (Z.of_N r)); ("values"%string, enc_values vs)]
  /\ enc_span_data (mk_sd m None r vs)
     = JObj [("metadata_id"%string, JInt (Z.of_N m)); ("ref_count"%string, JInt (Z.of_N r)); ("values"%string, enc_values vs)]
  /\ (forall spans, enc_spans spans
                    = JObj (map (fun ka => (string_of_N (fst ka), enc_span_data (snd ka))) spans))
  /\ (forall metas, enc_metadata metas
                    = JObj (map (fun ka => (string_of_N (fst ka), enc_cs (snd ka))) metas))
  /\ string_of_N 0 = "0"%string /\ string_of_N 18446744073709551615 = "18446744073709551615"%string.
Proof. repeat split; reflexivity. Qed.

(** * Re-encoding identity *)
Lemma reenc_event e :
  wf_event e = true -> option_map enc_event (dec_event (enc_event e)) = Some (enc_event e).
Proof. intros H. rewrite (dec_enc_event e H). reflexivity. Qed.

Lemma reenc_values vs :
  wf_values vs = true -> option_map enc_values (dec_values (enc_values vs)) = Some (enc_values vs).
Proof. intros H. rewrite (dec_enc_values vs H). reflexivity. Qed.

Lemma reenc_spans m :
  wf_spans m = true -> option_map enc_spans (dec_spans (enc_spans m)) = Some (enc_spans m).
Proof.
  intros H. unfold dec_spans, enc_spans.
  rewrite (dec_enc_pmap enc_span_data dec_span_data wf_span_data dec_enc_span_data m H). reflexivity.
Qed.

Lemma reenc_metadata m :
  wf_metadata m = true -> option_map enc_metadata (dec_metadata (enc_metadata m)) = Some (enc_metadata m).
Proof.
  intros H. unfold dec_metadata, enc_metadata.
  rewrite (dec_enc_pmap enc_cs dec_cs wf_cs dec_enc_cs m H). reflexivity.
Qed.

Lemma dec_event_canonical j e :
  dec_event j = Some e -> wf_event e = true /\ dec_event (enc_event e) = Some e.
Proof. intros H. split; [exact (dec_event_wf j e H) | exact (dec_event_reenc j e H)]. Qed.

Lemma dec_spans_canonical j m :
  dec_spans j = Some m -> wf_spans m = true /\ dec_spans (enc_spans m) = Some m.
Proof.
  intros H. split.
  - exact (dec_pmap_wf dec_span_data wf_span_data dec_span_data_wf j m H).
  - exact (dec_pmap_reenc enc_span_data dec_span_data wf_span_data dec_enc_span_data dec_span_data_wf j m H).
Qed.

Lemma dec_metadata_canonical j m :
  dec_metadata j = Some m -> wf_metadata m = true /\ dec_metadata (enc_metadata m) = Some m.
Proof.
  intros H. split.
  - exact (dec_pmap_wf dec_cs wf_cs dec_cs_wf j m H).
  - exact (dec_pmap_reenc enc_cs dec_cs wf_cs dec_enc_cs dec_cs_wf j m H).
Qed.

Lemma dec_enc_spans m : wf_spans m = true -> dec_spans (enc_spans m) = Some m.
Proof. exact (dec_enc_pmap enc_span_data dec_span_data wf_span_data dec_enc_span_data m). Qed.
Lemma dec_enc_metadata m : wf_metadata m = true -> dec_metadata (enc_metadata m) = Some m.
Proof. exact (dec_enc_pmap enc_cs dec_cs wf_cs dec_enc_cs m). Qed.

Lemma dec_enc_spans_perm m ms :
  wf_spans m = true -> Permutation ms (members (enc_spans m)) ->
  exists m', Permutation m m' /\ JObj ms = enc_spans m' /\ wf_spans m' = true
             /\ dec_spans (JObj ms) = Some m'.
Proof. exact (dec_enc_pmap_perm enc_span_data dec_span_data wf_span_data dec_enc_span_data m ms). Qed.
Lemma dec_enc_metadata_perm m ms :
  wf_metadata m = true -> Permutation ms (members (enc_metadata m)) ->
  exists m', Permutation m m' /\ JObj ms = enc_metadata m' /\ wf_metadata m' = true
             /\ dec_metadata (JObj ms) = Some m'.
Proof. exact (dec_enc_pmap_perm enc_cs dec_cs wf_cs dec_enc_cs m ms). Qed.

Lemma wf_spans_spec m :
  wf_spans m = true <->
  NoDup (map fst m) /\ Forall (fun ka => wf_id (fst ka) = true /\ wf_span_data (snd ka) = true) m.
Proof. exact (wf_pmap_spec wf_span_data m). Qed.
Lemma wf_metadata_spec m :
  wf_metadata m = true <->
  NoDup (map fst m) /\ Forall (fun ka => wf_id (fst ka) = true /\ wf_cs (snd ka) = true) m.
Proof. exact (wf_pmap_spec wf_cs m). Qed.

Lemma conforms_spans_enc m : wf_spans m = true -> conforms_spans (enc_spans m) = true.
Proof. intros H. apply (conforms_spans_perm m _ H). reflexivity. Qed.
Lemma conforms_metadata_enc m : wf_metadata m = true -> conforms_metadata (enc_metadata m) = true.
Proof. intros H. apply (conforms_metadata_perm m _ H). reflexivity. Qed.
