(** The 0.2 wire format of tracing-tunnel: serde encoders and decoders at JSON tree level.
    Definitions only.  This file is the frozen description of the format (together with
    /verif/wire-0.2.schema.json).

    Rust anchors: serde derives of [TracingEvent], [CallSiteData], [TracingLevel], [CallSiteKind]
    (tunnel/src/types.rs), [TracedValue], [DebugObject], [TracedError] (tunnel/src/value.rs),
    hand-written impls of [TracedValues] (tunnel/src/values.rs), [SpanData], [PersistedSpans],
    [PersistedMetadata] (tunnel/src/receiver/mod.rs).

    serde semantics followed here (all confirmed against serde 1.0.217 / serde_json 1.0.134):
    - externally tagged enum = object with exactly one member [{variant: content}]; a bare string
      is only accepted for unit variants; unit variants also accept [{variant: null}];
    - derived struct from an object: one slot per field, members in any order, unknown members
      skipped, a repeated field is an error, a missing field is an error unless its type is
      [Option] (then [None]); [null] decodes to [None] for every [Option];
    - derived struct from an array: positional, every element must be present up to the last field
      without [default], surplus elements are an error;
    - [flatten] (NewCallSite): the call-site members sit next to [id]; the variant is read with
      [deserialize_map], so the array form is not accepted there;
    - maps ([TracedValues], [HashMap<u64, _>]): entries inserted left to right, a repeated key
      overwrites; integer keys are canonical decimal numerals in quotes;
    - integers are range checked ([u64] ids, [u32] line, [i128]/[u128] values, [usize] = [u64]
      ref-counts); a float token is never accepted for an integer; an integer token is accepted
      for [f64] and converted with round-to-nearest-even. *)
From TT Require Export Wire.Json Tunnel.Types.
Local Open Scope string_scope.

Notation "x <- e ;; k" := (match e with Some x => k | None => None end)
  (at level 61, e at next level, right associativity).

(** * Scalars *)
Definition jN (n : N) : json := JInt (Z.of_N n).

Definition u32_max : Z := 2 ^ 32 - 1.
Definition fits_u32 (z : Z) : bool := (0 <=? z)%Z && (z <=? u32_max)%Z.

Definition dec_u64 (j : json) : option N :=
  match j with JInt z => if fits_u64 z then Some (Z.to_N z) else None | _ => None end.
Definition dec_u32 (j : json) : option N :=
  match j with JInt z => if fits_u32 z then Some (Z.to_N z) else None | _ => None end.
(** [usize] on the 64-bit targets the crate is built for *)
Definition dec_usize : json -> option N := dec_u64.
Definition dec_str (j : json) : option string :=
  match j with JStr s => Some s | _ => None end.
Definition dec_bool (j : json) : option bool :=
  match j with JBool b => Some b | _ => None end.

Fixpoint map_opt {A B} (f : A -> option B) (l : list A) : option (list B) :=
  match l with
  | [] => Some []
  | a :: r => b <- f a;; bs <- map_opt f r;; Some (b :: bs)
  end.
Definition dec_list {A} (d : json -> option A) (j : json) : option (list A) :=
  match j with JArr l => map_opt d l | _ => None end.

(** [Option<T>]: [null] is [None], anything else must be a [T] *)
Definition dec_opt {A} (d : json -> option A) (j : json) : option (option A) :=
  match j with JNull => Some None | _ => option_map Some (d j) end.

(** struct fields looked up in the members of an object *)
Definition req {A} (d : json -> option A) (k : string) (ms : list (string * json)) : option A :=
  match find_field k ms with FOne j => d j | _ => None end.
(** a field of type [Option<T>] (with or without [default]): absent means [None] *)
Definition optf {A} (d : json -> option A) (k : string) (ms : list (string * json))
  : option (option A) :=
  match find_field k ms with FAbsent => Some None | FOne j => dec_opt d j | FDup => None end.

(** a member that is written only when the value is present ([skip_serializing_if]) *)
Definition opt_member {A} (k : string) (e : A -> json) (o : option A) : list (string * json) :=
  match o with Some a => [(k, e a)] | None => [] end.

(** * Floats

    Finite iff the exponent field is not all ones.  Non-finite values are written as [null]. *)
Definition f64_finite (b : N) : bool := ((b <? 2 ^ 64) && (f64_abs b <? 2 ^ 63 - 2 ^ 52))%N.
Definition enc_float (b : N) : json := if f64_finite b then JFloat b else JNull.

(** integer token read as [f64]: correctly rounded (ties to even); overflow is an error *)
Definition f64_of_Z (z : Z) : option N :=
  let sign := if (z <? 0)%Z then 2 ^ 63 else 0 in
  let a := Z.abs_N z in
  if (a =? 0)%N then Some 0
  else
    let l := N.log2 a in
    let body :=
      if (l <=? 52)%N then (l + 1023) * 2 ^ 52 + (N.shiftl a (52 - l) - 2 ^ 52)
      else
        let sh := l - 52 in
        let q := N.shiftr a sh in
        let r := a - N.shiftl q sh in
        let half := 2 ^ (sh - 1) in
        let up := ((half <? r) || ((half =? r) && N.odd q))%N in
        (l + 1023) * 2 ^ 52 + ((if up then q + 1 else q) - 2 ^ 52) in
    if (body <? 2 ^ 63 - 2 ^ 52)%N then Some (sign + body) else None.

Definition dec_f64 (j : json) : option N :=
  match j with
  | JFloat b => if f64_finite b then Some b else None
  | JInt z => match f64_of_Z z with
              | Some b => if f64_finite b then Some b else None
              | None => None
              end
  | _ => None
  end.

(** * [TracedError]: [{"message": .., "source": null | {..}}]; model value = message and the
    messages of the source chain, outermost first. *)
Fixpoint enc_error (msg : string) (chain : list string) : json :=
  JObj [("message", JStr msg);
        ("source", match chain with [] => JNull | m :: c => enc_error m c end)].

Definition err_of (msg : string) (src : option (string * list string)) : string * list string :=
  (msg, match src with Some (m, c) => m :: c | None => [] end).

(** The recursion is on the tree.  For the object form every member value is first paired with
    its own decoding as an error, so that the ordinary field lookup can be used afterwards
    (only the pair found under "source" is looked at). *)
Fixpoint dec_error (j : json) : option (string * list string) :=
  match j with
  | JObj ms =>
      let sub := (fix go (ms : list (string * json)) : list (string * (json * option (string * list string))) :=
                    match ms with
                    | [] => []
                    | kv :: r => (fst kv, (snd kv, dec_error (snd kv))) :: go r
                    end) ms in
      match find_field "message" sub with
      | FOne (JStr msg, _) =>
          match find_field "source" sub with
          | FAbsent => Some (err_of msg None)
          | FOne (JNull, _) => Some (err_of msg None)
          | FOne (_, Some e) => Some (err_of msg (Some e))
          | FOne (_, None) => None
          | FDup => None
          end
      | _ => None
      end
  | JArr [JStr msg; JNull] => Some (err_of msg None)
  | JArr [JStr msg; s] => e <- dec_error s;; Some (err_of msg (Some e))
  | _ => None
  end.

(** * [TracedValue] *)
Definition enc_value (v : tvalue) : json :=
  match v with
  | VBool b => JObj [("bool", JBool b)]
  | VInt z => JObj [("int", JInt z)]
  | VUInt z => JObj [("u_int", JInt z)]
  | VFloat b => JObj [("float", enc_float b)]
  | VStr s => JObj [("string", JStr s)]
  | VObj s => JObj [("object", JStr s)]
  | VErr m c => JObj [("error", enc_error m c)]
  end.

Definition dec_value (j : json) : option tvalue :=
  match j with
  | JObj [(tag, c)] =>
      if tag =? "bool" then b <- dec_bool c;; Some (VBool b)
      else if tag =? "int" then
        match c with JInt z => if fits_i128 z then Some (VInt z) else None | _ => None end
      else if tag =? "u_int" then
        match c with JInt z => if fits_u128 z then Some (VUInt z) else None | _ => None end
      else if tag =? "float" then b <- dec_f64 c;; Some (VFloat b)
      else if tag =? "string" then s <- dec_str c;; Some (VStr s)
      else if tag =? "object" then s <- dec_str c;; Some (VObj s)
      else if tag =? "error" then e <- dec_error c;; Some (VErr (fst e) (snd e))
      else None
  | _ => None
  end.

(** values that survive the wire: integers in range, float finite *)
Definition wire_value_ok (v : tvalue) : bool :=
  wf_value v && match v with VFloat b => f64_finite b | _ => true end.

(** * [TracedValues]: a JSON object in iteration order; decoding inserts every entry *)
Definition enc_values (vs : tvalues) : json :=
  JObj (map (fun kv => (fst kv, enc_value (snd kv))) vs).

Fixpoint dec_entries (ms : list (string * json)) (acc : tvalues) : option tvalues :=
  match ms with
  | [] => Some acc
  | (k, j) :: r => v <- dec_value j;; dec_entries r (fst (insert acc k v))
  end.
Definition dec_values (j : json) : option tvalues :=
  match j with JObj ms => dec_entries ms [] | _ => None end.

Fixpoint nodupb (l : list string) : bool :=
  match l with
  | [] => true
  | x :: r => negb (existsb (String.eqb x) r) && nodupb r
  end.
Definition wf_values (vs : tvalues) : bool :=
  nodupb (map fst vs) && forallb (fun kv => wire_value_ok (snd kv)) vs.

(** * [CallSiteData] *)
Definition enc_kind (k : cskind) : json :=
  JStr (match k with KSpan => "span" | KEvent => "event" end).
Definition enc_level (l : level) : json :=
  JStr (match l with LError => "error" | LWarn => "warn" | LInfo => "info"
                | LDebug => "debug" | LTrace => "trace" end).

(** a unit-variant enum: the variant name as a string, or [{name: null}] *)
Definition unit_variant (j : json) : option string :=
  match j with
  | JStr s => Some s
  | JObj [(s, JNull)] => Some s
  | _ => None
  end.
Definition dec_kind (j : json) : option cskind :=
  s <- unit_variant j;;
  if s =? "span" then Some KSpan else if s =? "event" then Some KEvent else None.
Definition dec_level (j : json) : option level :=
  s <- unit_variant j;;
  if s =? "error" then Some LError else if s =? "warn" then Some LWarn
  else if s =? "info" then Some LInfo else if s =? "debug" then Some LDebug
  else if s =? "trace" then Some LTrace else None.

Definition enc_cs_members (d : cs_data) : list (string * json) :=
  ([("kind", enc_kind (cs_kind d)); ("name", JStr (cs_name d)); ("target", JStr (cs_target d));
    ("level", enc_level (cs_level d))]
   ++ opt_member "module_path" JStr (cs_module d)
   ++ opt_member "file" JStr (cs_file d)
   ++ opt_member "line" jN (cs_line d)
   ++ [("fields", JArr (map JStr (cs_fields d)))])%list.
Definition enc_cs (d : cs_data) : json := JObj (enc_cs_members d).

Definition dec_cs_members (ms : list (string * json)) : option cs_data :=
  k <- req dec_kind "kind" ms;;
  n <- req dec_str "name" ms;;
  t <- req dec_str "target" ms;;
  l <- req dec_level "level" ms;;
  m <- optf dec_str "module_path" ms;;
  f <- optf dec_str "file" ms;;
  ln <- optf dec_u32 "line" ms;;
  fs <- req (dec_list dec_str) "fields" ms;;
  Some (mk_cs k n t l m f ln fs).

Definition dec_cs (j : json) : option cs_data :=
  match j with
  | JObj ms => dec_cs_members ms
  | JArr [jk; jn; jt; jl; jm; jf; jln; jfs] =>
      k <- dec_kind jk;; n <- dec_str jn;; t <- dec_str jt;; l <- dec_level jl;;
      m <- dec_opt dec_str jm;; f <- dec_opt dec_str jf;; ln <- dec_opt dec_u32 jln;;
      fs <- dec_list dec_str jfs;;
      Some (mk_cs k n t l m f ln fs)
  | _ => None
  end.

Definition wf_id (n : N) : bool := (n <? 2 ^ 64)%N.
Definition wf_oid (o : option N) : bool := match o with Some n => wf_id n | None => true end.
Definition wf_cs (d : cs_data) : bool :=
  match cs_line d with Some n => (n <? 2 ^ 32)%N | None => true end.

(** * [TracingEvent] *)
Definition enc_event (e : event) : json :=
  match e with
  | ENewCallSite id d => JObj [("new_call_site", JObj (("id", jN id) :: enc_cs_members d))]
  | ENewSpan id p m vs =>
      JObj [("new_span",
             JObj ([("id", jN id)] ++ opt_member "parent_id" jN p
                   ++ [("metadata_id", jN m); ("values", enc_values vs)])%list)]
  | EFollowsFrom id f => JObj [("follows_from", JObj [("id", jN id); ("follows_from", jN f)])]
  | ESpanEntered id => JObj [("span_entered", JObj [("id", jN id)])]
  | ESpanExited id => JObj [("span_exited", JObj [("id", jN id)])]
  | ESpanCloned id => JObj [("span_cloned", JObj [("id", jN id)])]
  | ESpanDropped id => JObj [("span_dropped", JObj [("id", jN id)])]
  | EValuesRecorded id vs =>
      JObj [("values_recorded", JObj [("id", jN id); ("values", enc_values vs)])]
  | ENewEvent m p vs =>
      JObj [("new_event",
             JObj ([("metadata_id", jN m)] ++ opt_member "parent" jN p
                   ++ [("values", enc_values vs)])%list)]
  end.

(** variants with the single field [id] *)
Definition dec_id_only (mk : N -> event) (c : json) : option event :=
  match c with
  | JObj ms => id <- req dec_u64 "id" ms;; Some (mk id)
  | JArr [a] => id <- dec_u64 a;; Some (mk id)
  | _ => None
  end.

Definition dec_event (j : json) : option event :=
  match j with
  | JObj [(tag, c)] =>
      if tag =? "new_call_site" then
        match c with
        | JObj ms => id <- req dec_u64 "id" ms;; d <- dec_cs_members ms;; Some (ENewCallSite id d)
        | _ => None
        end
      else if tag =? "new_span" then
        match c with
        | JObj ms =>
            id <- req dec_u64 "id" ms;; p <- optf dec_u64 "parent_id" ms;;
            m <- req dec_u64 "metadata_id" ms;; vs <- req dec_values "values" ms;;
            Some (ENewSpan id p m vs)
        | JArr [a; b; c'; d] =>
            id <- dec_u64 a;; p <- dec_opt dec_u64 b;; m <- dec_u64 c';; vs <- dec_values d;;
            Some (ENewSpan id p m vs)
        | _ => None
        end
      else if tag =? "follows_from" then
        match c with
        | JObj ms => id <- req dec_u64 "id" ms;; f <- req dec_u64 "follows_from" ms;;
                     Some (EFollowsFrom id f)
        | JArr [a; b] => id <- dec_u64 a;; f <- dec_u64 b;; Some (EFollowsFrom id f)
        | _ => None
        end
      else if tag =? "span_entered" then dec_id_only ESpanEntered c
      else if tag =? "span_exited" then dec_id_only ESpanExited c
      else if tag =? "span_cloned" then dec_id_only ESpanCloned c
      else if tag =? "span_dropped" then dec_id_only ESpanDropped c
      else if tag =? "values_recorded" then
        match c with
        | JObj ms => id <- req dec_u64 "id" ms;; vs <- req dec_values "values" ms;;
                     Some (EValuesRecorded id vs)
        | JArr [a; b] => id <- dec_u64 a;; vs <- dec_values b;; Some (EValuesRecorded id vs)
        | _ => None
        end
      else if tag =? "new_event" then
        match c with
        | JObj ms =>
            m <- req dec_u64 "metadata_id" ms;; p <- optf dec_u64 "parent" ms;;
            vs <- req dec_values "values" ms;; Some (ENewEvent m p vs)
        | JArr [a; b; d] =>
            m <- dec_u64 a;; p <- dec_opt dec_u64 b;; vs <- dec_values d;; Some (ENewEvent m p vs)
        | _ => None
        end
      else None
  | _ => None
  end.

Definition wf_event (e : event) : bool :=
  match e with
  | ENewCallSite id d => wf_id id && wf_cs d
  | ENewSpan id p m vs => wf_id id && wf_oid p && wf_id m && wf_values vs
  | EFollowsFrom id f => wf_id id && wf_id f
  | ESpanEntered id | ESpanExited id | ESpanCloned id | ESpanDropped id => wf_id id
  | EValuesRecorded id vs => wf_id id && wf_values vs
  | ENewEvent m p vs => wf_id m && wf_oid p && wf_values vs
  end.

(** value set carried by an event, and the member keys of the ["values"] object of an encoded
    event (for the order clause) *)
Definition event_values (e : event) : option tvalues :=
  match e with
  | ENewSpan _ _ _ vs | EValuesRecorded _ vs | ENewEvent _ _ vs => Some vs
  | _ => None
  end.
Definition event_value_keys (j : json) : option (list string) :=
  match j with
  | JObj [(_, JObj ms)] =>
      match find_field "values" ms with FOne v => Some (member_keys v) | _ => None end
  | _ => None
  end.

(** the struct fields known to each variant (everything else is skipped by the decoder) *)
Definition cs_fields_known : list string :=
  ["kind"; "name"; "target"; "level"; "module_path"; "file"; "line"; "fields"].
Definition event_fields (tag : string) : list string :=
  if tag =? "new_call_site" then "id" :: cs_fields_known
  else if tag =? "new_span" then ["id"; "parent_id"; "metadata_id"; "values"]
  else if tag =? "follows_from" then ["id"; "follows_from"]
  else if tag =? "span_entered" then ["id"]
  else if tag =? "span_exited" then ["id"]
  else if tag =? "span_cloned" then ["id"]
  else if tag =? "span_dropped" then ["id"]
  else if tag =? "values_recorded" then ["id"; "values"]
  else if tag =? "new_event" then ["metadata_id"; "parent"; "values"]
  else [].

(** * [SpanData], [PersistedSpans], [PersistedMetadata] *)
Record span_data := mk_sd {
  sd_meta : N;
  sd_parent : option N;
  sd_refs : N;              (* usize *)
  sd_values : tvalues }.

Definition span_data_eqb (a b : span_data) : bool :=
  N.eqb (sd_meta a) (sd_meta b) && option_eqb N.eqb (sd_parent a) (sd_parent b)
  && N.eqb (sd_refs a) (sd_refs b) && tvalues_eqb (sd_values a) (sd_values b).

Definition enc_span_data (s : span_data) : json :=
  JObj ([("metadata_id", jN (sd_meta s))] ++ opt_member "parent_id" jN (sd_parent s)
        ++ [("ref_count", jN (sd_refs s)); ("values", enc_values (sd_values s))])%list.

Definition span_data_fields : list string := ["metadata_id"; "parent_id"; "ref_count"; "values"].

Definition dec_span_data (j : json) : option span_data :=
  match j with
  | JObj ms =>
      m <- req dec_u64 "metadata_id" ms;; p <- optf dec_u64 "parent_id" ms;;
      r <- req dec_usize "ref_count" ms;; vs <- req dec_values "values" ms;;
      Some (mk_sd m p r vs)
  | JArr [a; b; c; d] =>
      m <- dec_u64 a;; p <- dec_opt dec_u64 b;; r <- dec_usize c;; vs <- dec_values d;;
      Some (mk_sd m p r vs)
  | _ => None
  end.

Definition wf_span_data (s : span_data) : bool :=
  wf_id (sd_meta s) && wf_oid (sd_parent s) && wf_id (sd_refs s) && wf_values (sd_values s).

(** [HashMap<u64, A>] as an association list; the member order of its encoding is the hash order
    of the moment, i.e. unspecified: the model encodes in list order and all statements about
    persisted maps are up to member order. *)
Definition pmap (A : Type) := list (N * A).

Fixpoint pm_insert {A} (m : pmap A) (k : N) (a : A) : pmap A :=
  match m with
  | [] => [(k, a)]
  | (k', a') :: r => if (k' =? k)%N then (k', a) :: r else (k', a') :: pm_insert r k a
  end.
Fixpoint pm_get {A} (m : pmap A) (k : N) : option A :=
  match m with
  | [] => None
  | (k', a) :: r => if (k' =? k)%N then Some a else pm_get r k
  end.

(** canonical form for comparison: ascending ids (insertion sort) *)
Fixpoint pm_sorted_insert {A} (k : N) (a : A) (m : pmap A) : pmap A :=
  match m with
  | [] => [(k, a)]
  | (k', a') :: r => if (k <=? k')%N then (k, a) :: m else (k', a') :: pm_sorted_insert k a r
  end.
Definition pm_sort {A} (m : pmap A) : pmap A :=
  fold_right (fun ka acc => pm_sorted_insert (fst ka) (snd ka) acc) [] m.

Definition dec_key (s : string) : option N :=
  n <- N_of_canonical s;; if wf_id n then Some n else None.

Definition enc_pmap {A} (e : A -> json) (m : pmap A) : json :=
  JObj (map (fun ka => (string_of_N (fst ka), e (snd ka))) m).

Fixpoint dec_pmap_entries {A} (d : json -> option A) (ms : list (string * json)) (acc : pmap A)
  : option (pmap A) :=
  match ms with
  | [] => Some acc
  | (s, j) :: r => k <- dec_key s;; a <- d j;; dec_pmap_entries d r (pm_insert acc k a)
  end.
Definition dec_pmap {A} (d : json -> option A) (j : json) : option (pmap A) :=
  match j with JObj ms => dec_pmap_entries d ms [] | _ => None end.

Fixpoint nodupN (l : list N) : bool :=
  match l with
  | [] => true
  | x :: r => negb (existsb (N.eqb x) r) && nodupN r
  end.
Definition wf_pmap {A} (wf : A -> bool) (m : pmap A) : bool :=
  nodupN (map fst m) && forallb (fun ka => wf_id (fst ka) && wf (snd ka)) m.

Definition enc_spans : pmap span_data -> json := enc_pmap enc_span_data.
Definition dec_spans : json -> option (pmap span_data) := dec_pmap dec_span_data.
Definition wf_spans : pmap span_data -> bool := wf_pmap wf_span_data.
Definition enc_metadata : pmap cs_data -> json := enc_pmap enc_cs.
Definition dec_metadata : json -> option (pmap cs_data) := dec_pmap dec_cs.
Definition wf_metadata : pmap cs_data -> bool := wf_pmap wf_cs.

(** * Conformance to the frozen format

    A document conforms (as something a 0.2 writer may have produced) iff it is the canonical
    encoding of the value it decodes to; for id-keyed maps, up to member order. *)
Definition conforms_value (j : json) : bool :=
  match dec_value j with Some v => json_eqb (enc_value v) j | None => false end.
Definition conforms_event (j : json) : bool :=
  match dec_event j with Some e => json_eqb (enc_event e) j | None => false end.
Definition conforms_spans (j : json) : bool :=
  match dec_spans j with Some m => json_perm_eqb (enc_spans m) j | None => false end.
Definition conforms_metadata (j : json) : bool :=
  match dec_metadata j with Some m => json_perm_eqb (enc_metadata m) j | None => false end.
