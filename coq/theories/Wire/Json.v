(** JSON trees as seen by serde_json, and the decimal map keys of id-keyed maps.
    Definitions only.

    The tree is what the tokeniser of serde_json delivers: number tokens without fraction and
    exponent are integers of arbitrary size ([JInt]), all other number tokens are [JFloat] with the
    64 bits of the correctly rounded [f64] (text to bits is trusted: ryu / [float_roundtrip]);
    strings are unescaped UTF-8 byte strings.  Object members keep their textual order and may
    repeat a key. *)
From TT Require Export Base.Prelude.
From Coq Require Import Decimal DecimalString.

Inductive json :=
| JNull
| JBool (b : bool)
| JInt (z : Z)
| JFloat (bits : N)
| JStr (s : string)
| JArr (l : list json)
| JObj (members : list (string * json)).

(** Induction principle for the nested inductive (the generated one is too weak). *)
Section JsonInd.
  Variable P : json -> Prop.
  Hypothesis HNull : P JNull.
  Hypothesis HBool : forall b, P (JBool b).
  Hypothesis HInt : forall z, P (JInt z).
  Hypothesis HFloat : forall b, P (JFloat b).
  Hypothesis HStr : forall s, P (JStr s).
  Hypothesis HArr : forall l, Forall P l -> P (JArr l).
  Hypothesis HObj : forall ms, Forall (fun kv => P (snd kv)) ms -> P (JObj ms).

  Fixpoint json_ind' (j : json) : P j :=
    match j with
    | JNull => HNull
    | JBool b => HBool b
    | JInt z => HInt z
    | JFloat b => HFloat b
    | JStr s => HStr s
    | JArr l =>
        HArr l ((fix go (l : list json) : Forall P l :=
                   match l with
                   | [] => Forall_nil P
                   | x :: r => Forall_cons x (json_ind' x) (go r)
                   end) l)
    | JObj ms =>
        HObj ms ((fix go (ms : list (string * json)) : Forall (fun kv => P (snd kv)) ms :=
                    match ms with
                    | [] => Forall_nil _
                    | kv :: r => Forall_cons kv (json_ind' (snd kv)) (go r)
                    end) ms)
    end.
End JsonInd.

(** Structural equality (member order matters, as in the text). *)
Fixpoint json_eqb (a b : json) : bool :=
  match a, b with
  | JNull, JNull => true
  | JBool x, JBool y => Bool.eqb x y
  | JInt x, JInt y => Z.eqb x y
  | JFloat x, JFloat y => N.eqb x y
  | JStr x, JStr y => String.eqb x y
  | JArr x, JArr y =>
      (fix go (x y : list json) : bool :=
         match x, y with
         | [], [] => true
         | a :: x', b :: y' => json_eqb a b && go x' y'
         | _, _ => false
         end) x y
  | JObj x, JObj y =>
      (fix go (x y : list (string * json)) : bool :=
         match x, y with
         | [], [] => true
         | (k, a) :: x', (k', b) :: y' => String.eqb k k' && json_eqb a b && go x' y'
         | _, _ => false
         end) x y
  | _, _ => false
  end.

(** Nesting depth, used only to state non-vacuity facts. *)
Fixpoint jdepth (j : json) : nat :=
  match j with
  | JArr l => S (fold_right (fun x n => Nat.max (jdepth x) n) 0%nat l)
  | JObj ms => S ((fix go (ms : list (string * json)) : nat :=
                     match ms with
                     | [] => 0%nat
                     | kv :: r => Nat.max (jdepth (snd kv)) (go r)
                     end) ms)
  | _ => 0%nat
  end.

(** * Looking up the members of an object

    A serde-derived struct visitor walks the members once, keeps one slot per field, fails on the
    second occurrence of a field and skips members it does not know.  The outcome for one field is
    therefore one of: absent, present once, duplicated.  (Polymorphic in the payload so that it can
    also be used on members that carry a pre-computed decoding.) *)
Inductive fres (A : Type) := FAbsent | FOne (a : A) | FDup.
Arguments FAbsent {A}.
Arguments FOne {A} a.
Arguments FDup {A}.

Fixpoint find_field {A} (k : string) (ms : list (string * A)) : fres A :=
  match ms with
  | [] => FAbsent
  | (k', j) :: r =>
      if String.eqb k' k
      then match find_field k r with FAbsent => FOne j | _ => FDup end
      else find_field k r
  end.

Definition members (j : json) : list (string * json) :=
  match j with JObj ms => ms | _ => [] end.
Definition member_keys (j : json) : list string := map fst (members j).

(** Equality of objects up to member order (for maps written in hash order): same number of
    members, and every member of the first is the only member with that key in the second.
    Non-objects are compared structurally. *)
Definition json_perm_eqb (a b : json) : bool :=
  match a, b with
  | JObj x, JObj y =>
      Nat.eqb (List.length x) (List.length y)
      && forallb (fun kv => match find_field (fst kv) y with
                            | FOne j => json_eqb (snd kv) j
                            | _ => false
                            end) x
      && forallb (fun kv => match find_field (fst kv) x with FOne _ => true | _ => false end) y
  | _, _ => json_eqb a b
  end.

(** * Decimal map keys

    serde_json writes an integer map key as its decimal digits in quotes and reads it back with the
    number parser on the raw text between the quotes: no sign, no leading zeros, no blanks, not
    empty; i.e. exactly the canonical decimal numeral. *)
Definition string_of_N (n : N) : string := NilEmpty.string_of_uint (N.to_uint n).

Definition N_of_string (s : string) : option N :=
  match NilEmpty.uint_of_string s with
  | Some d => Some (N.of_uint d)
  | None => None
  end.

(** canonical numerals only: [N_of_string] alone would accept the empty string and leading zeros *)
Definition N_of_canonical (s : string) : option N :=
  match N_of_string s with
  | Some n => if String.eqb (string_of_N n) s then Some n else None
  | None => None
  end.
