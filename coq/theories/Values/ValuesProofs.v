(** Refinement of the vector model of [TracedValues] to the history specification. *)
From TT Require Import Values.Values.


Lemma seqb_eq a b : String.eqb a b = true <-> a = b.
Proof. apply String.eqb_eq. Qed.
Lemma seqb_neq a b : String.eqb a b = false <-> a <> b.
Proof. apply String.eqb_neq. Qed.

(** ** Facts on [first_occ] / [keys_of] *)
Lemma existsb_seqb k l : existsb (String.eqb k) l = true <-> In k l.
Proof.
  rewrite existsb_exists. split.
  - intros (x & Hx & E). apply seqb_eq in E. subst. exact Hx.
  - intros H. exists k. split; [exact H | apply String.eqb_refl].
Qed.

Lemma first_occ_in seen l k : In k (first_occ seen l) <-> In k l /\ ~ In k seen.
Proof.
  revert seen. induction l as [|a l IH]; intros seen; simpl.
  - tauto.
  - destruct (existsb (String.eqb a) seen) eqn:E.
    + apply existsb_seqb in E. rewrite IH. split.
      * intros [H1 H2]. tauto.
      * intros [[->|H1] H2]; tauto.
    + assert (Hn : ~ In a seen) by (intros H; apply existsb_seqb in H; congruence).
      simpl. rewrite IH. simpl. split.
      * intros [->|[H1 H2]]; [tauto|]. split; [tauto|]. intros H. apply H2. right. exact H.
      * intros [[->|H1] H2]; [tauto|]. destruct (string_dec a k) as [->|Hne]; [tauto|].
        right. split; [exact H1|]. intros [E'|H]; [congruence|tauto].
Qed.

Lemma first_occ_nodup seen l : NoDup (first_occ seen l).
Proof.
  revert seen. induction l as [|a l IH]; intros seen; simpl.
  - constructor.
  - destruct (existsb (String.eqb a) seen); [apply IH|].
    constructor; [|apply IH]. rewrite first_occ_in. simpl. tauto.
Qed.

Lemma first_occ_snoc seen l k :
  first_occ seen (l ++ [k]) =
  first_occ seen l ++ (if existsb (String.eqb k) (seen ++ l) then [] else [k]).
Proof.
  revert seen. induction l as [|a l IH]; intros seen; simpl.
  - rewrite app_nil_r. destruct (existsb (String.eqb k) seen); reflexivity.
  - destruct (existsb (String.eqb a) seen) eqn:E.
    + rewrite IH. f_equal.
      assert (H : existsb (String.eqb k) (seen ++ l) = existsb (String.eqb k) (seen ++ a :: l)).
      { apply eq_true_iff_eq. rewrite !existsb_seqb, !in_app_iff. simpl.
        apply existsb_seqb in E. split; [tauto|]. intros [H|[->|H]]; tauto. }
      rewrite H. reflexivity.
    + simpl. rewrite IH. do 2 f_equal.
      assert (H : existsb (String.eqb k) ((a :: seen) ++ l) = existsb (String.eqb k) (seen ++ a :: l)).
      { apply eq_true_iff_eq. rewrite !existsb_seqb. simpl. rewrite !in_app_iff. simpl. tauto. }
      rewrite H. reflexivity.
Qed.

Lemma keys_of_in h k : In k (keys_of h) <-> In k (map fst h).
Proof. unfold keys_of. rewrite first_occ_in. simpl. tauto. Qed.

Lemma keys_of_nodup h : NoDup (keys_of h).
Proof. apply first_occ_nodup. Qed.

Lemma keys_of_snoc h k v :
  keys_of (h ++ [(k, v)]) = keys_of h ++ (if existsb (String.eqb k) (map fst h) then [] else [k]).
Proof. unfold keys_of. rewrite map_app. simpl. rewrite first_occ_snoc. reflexivity. Qed.

(** ** Facts on [last_val] *)
Lemma last_val_snoc h k v k' :
  last_val (h ++ [(k, v)]) k' = if String.eqb k k' then Some v else last_val h k'.
Proof.
  induction h as [|[a w] h IH]; simpl.
  - destruct (String.eqb k k'); reflexivity.
  - rewrite IH. destruct (String.eqb k k'); [reflexivity|].
    destruct (last_val h k'); reflexivity.
Qed.

Lemma last_val_app h l k :
  last_val (h ++ l) k = match last_val l k with Some w => Some w | None => last_val h k end.
Proof.
  induction h as [|[a w] h IH]; simpl.
  - destruct (last_val l k); reflexivity.
  - rewrite IH. destruct (last_val l k); [reflexivity|]. reflexivity.
Qed.

Lemma last_val_some h k : In k (map fst h) <-> exists v, last_val h k = Some v.
Proof.
  induction h as [|[a w] h IH]; simpl.
  - split; [tauto | intros [v H]; discriminate].
  - split.
    + intros [->|H].
      * destruct (last_val h k) as [x|]; [eauto|]. rewrite String.eqb_refl. eauto.
      * apply IH in H as [v Hv]. rewrite Hv. eauto.
    + intros [v H]. destruct (last_val h k) as [x|] eqn:E.
      * right. apply IH. eauto.
      * destruct (String.eqb a k) eqn:E'; [|discriminate]. left. apply seqb_eq. exact E'.
Qed.

Lemma last_val_none h k : ~ In k (map fst h) -> last_val h k = None.
Proof.
  intros H. destruct (last_val h k) eqn:E; [|reflexivity].
  exfalso. apply H. apply last_val_some. eauto.
Qed.

(** ** [insert]/[get] on association lists with distinct names *)
Definition replace_val (m : tvalues) (k : string) (v : tvalue) : tvalues :=
  map (fun kv => if String.eqb (fst kv) k then (fst kv, v) else kv) m.

Lemma insert_notin m k v : ~ In k (map fst m) -> insert m k v = (m ++ [(k, v)], None).
Proof.
  induction m as [|[a w] m IH]; simpl; intros H; [reflexivity|].
  destruct (String.eqb a k) eqn:E.
  - apply seqb_eq in E. tauto.
  - rewrite IH by tauto. reflexivity.
Qed.

Lemma replace_val_notin m k v : ~ In k (map fst m) -> replace_val m k v = m.
Proof.
  induction m as [|[a w] m IH]; simpl; intros H; [reflexivity|].
  destruct (String.eqb a k) eqn:E.
  - apply seqb_eq in E. tauto.
  - fold (replace_val m k v). rewrite IH by tauto. reflexivity.
Qed.

Lemma insert_in m k v :
  NoDup (map fst m) -> In k (map fst m) ->
  exists old, get m k = Some old /\ insert m k v = (replace_val m k v, Some old).
Proof.
  induction m as [|[a w] m IH]; simpl; intros Hnd Hin; [tauto|].
  inversion Hnd as [|? ? Hna Hnd']; subst.
  destruct (String.eqb a k) eqn:E.
  - apply seqb_eq in E. subst. exists w. split; [reflexivity|].
    rewrite replace_val_notin by exact Hna. reflexivity.
  - destruct Hin as [->|Hin]; [rewrite String.eqb_refl in E; discriminate|].
    destruct (IH Hnd' Hin) as (old & Hg & Hi). exists old. split; [exact Hg|].
    rewrite Hi. reflexivity.
Qed.

Lemma get_notin m k : ~ In k (map fst m) -> get m k = None.
Proof.
  induction m as [|[a w] m IH]; simpl; intros H; [reflexivity|].
  destruct (String.eqb a k) eqn:E; [apply seqb_eq in E; tauto|]. apply IH. tauto.
Qed.

(** ** [denote] *)
Definition entry (h : list (string * tvalue)) (k : string) : list (string * tvalue) :=
  match last_val h k with Some v => [(k, v)] | None => [] end.

Lemma denote_unfold h : denote h = flat_map (entry h) (keys_of h).
Proof. reflexivity. Qed.

Lemma flat_map_entry_fst h ks :
  (forall k, In k ks -> In k (map fst h)) -> map fst (flat_map (entry h) ks) = ks.
Proof.
  induction ks as [|k ks IH]; simpl; intros H; [reflexivity|].
  rewrite map_app, IH by auto. unfold entry.
  destruct (proj1 (last_val_some h k) (H k (or_introl eq_refl))) as [v ->]. reflexivity.
Qed.

Lemma denote_fst h : map fst (denote h) = keys_of h.
Proof. apply flat_map_entry_fst. intros k. apply keys_of_in. Qed.

Theorem denote_nodup h : NoDup (map fst (denote h)).
Proof. rewrite denote_fst. apply keys_of_nodup. Qed.

Lemma get_flat_map h ks k :
  NoDup ks -> (forall k, In k ks -> In k (map fst h)) ->
  get (flat_map (entry h) ks) k = if existsb (String.eqb k) ks then last_val h k else None.
Proof.
  induction ks as [|a ks IH]; simpl; intros Hnd H; [reflexivity|].
  inversion Hnd as [|? ? Hna Hnd']; subst.
  unfold entry at 1.
  destruct (proj1 (last_val_some h a) (H a (or_introl eq_refl))) as [v Hv]. rewrite Hv. simpl.
  rewrite (String.eqb_sym k a). destruct (String.eqb a k) eqn:E; simpl.
  - apply seqb_eq in E. subst. rewrite Hv. reflexivity.
  - apply IH; auto.
Qed.

Theorem get_denote h k : get (denote h) k = last_val h k.
Proof.
  rewrite denote_unfold, get_flat_map.
  - destruct (existsb (String.eqb k) (keys_of h)) eqn:E; [reflexivity|].
    symmetry. apply last_val_none. intros Hin. apply keys_of_in in Hin.
    apply existsb_seqb in Hin. congruence.
  - apply keys_of_nodup.
  - intros k'. apply keys_of_in.
Qed.

Lemma flat_map_entry_snoc_other h k v ks :
  ~ In k ks -> flat_map (entry (h ++ [(k, v)])) ks = flat_map (entry h) ks.
Proof.
  induction ks as [|a ks IH]; simpl; intros H; [reflexivity|].
  rewrite IH by tauto. f_equal. unfold entry. rewrite last_val_snoc.
  destruct (String.eqb k a) eqn:E; [apply seqb_eq in E; subst; tauto | reflexivity].
Qed.

Lemma flat_map_entry_snoc_replace h k v ks :
  (forall k', In k' ks -> In k' (map fst h)) ->
  flat_map (entry (h ++ [(k, v)])) ks = replace_val (flat_map (entry h) ks) k v.
Proof.
  induction ks as [|a ks IH]; simpl; intros H; [reflexivity|].
  rewrite IH by auto. unfold replace_val. rewrite map_app. f_equal.
  unfold entry. rewrite last_val_snoc.
  destruct (proj1 (last_val_some h a) (H a (or_introl eq_refl))) as [w ->]. simpl.
  rewrite (String.eqb_sym k a). destruct (String.eqb a k) eqn:E; [|reflexivity].
  apply seqb_eq in E. subst. reflexivity.
Qed.

(** The central refinement step: inserting into the denotation of a history is appending to it,
    and the returned value is the previous latest value. *)
Theorem insert_denote h k v :
  insert (denote h) k v = (denote (h ++ [(k, v)]), last_val h k).
Proof.
  destruct (existsb (String.eqb k) (map fst h)) eqn:E.
  - assert (Hin : In k (map fst h)) by (apply existsb_seqb; exact E).
    destruct (insert_in (denote h) k v (denote_nodup h)) as (old & Hg & Hi).
    { rewrite denote_fst. apply keys_of_in. exact Hin. }
    rewrite Hi. rewrite get_denote in Hg. rewrite Hg. f_equal.
    rewrite !denote_unfold, keys_of_snoc, E, app_nil_r.
    symmetry. apply flat_map_entry_snoc_replace. intros k'. apply keys_of_in.
  - assert (Hnin : ~ In k (map fst h)) by (intros H; apply existsb_seqb in H; congruence).
    rewrite insert_notin by (rewrite denote_fst, keys_of_in; exact Hnin).
    rewrite (last_val_none _ _ Hnin). f_equal.
    rewrite (denote_unfold (h ++ _)), keys_of_snoc, E, flat_map_app. simpl.
    rewrite flat_map_entry_snoc_other by (rewrite keys_of_in; exact Hnin).
    unfold entry at 2. rewrite last_val_snoc, String.eqb_refl. reflexivity.
Qed.

Theorem extend_denote h l : extend (denote h) l = denote (h ++ l).
Proof.
  unfold extend. revert h. induction l as [|[k v] l IH]; intros h; simpl.
  - rewrite app_nil_r. reflexivity.
  - rewrite insert_denote. simpl. rewrite IH, <- app_assoc. reflexivity.
Qed.

Lemma denote_nil : denote [] = [].
Proof. reflexivity. Qed.

Theorem from_iter_denote l : from_iter l = denote l.
Proof. unfold from_iter. rewrite <- denote_nil, extend_denote. reflexivity. Qed.

Theorem deser_denote l : deser l = denote l.
Proof. exact (from_iter_denote l). Qed.

Theorem len_denote h : len (denote h) = N.of_nat (List.length (keys_of h)).
Proof. unfold len. rewrite <- denote_fst, map_length. reflexivity. Qed.

(** Every reachable collection is the denotation of the history of its operations. *)
Theorem vrun_denote ops : vrun ops = denote (hrun ops).
Proof.
  unfold vrun, hrun. rewrite <- denote_nil at 1. generalize (@nil (string * tvalue)) as h.
  induction ops as [|o ops IH]; intros h; simpl; [reflexivity|].
  destruct o as [k v | l | l | l]; simpl.
  - rewrite insert_denote. apply IH.
  - rewrite extend_denote. apply IH.
  - rewrite from_iter_denote. apply IH.
  - rewrite deser_denote. apply IH.
Qed.

Theorem vstep_ret ops k v :
  snd (vstep (vrun ops) (OpInsert k v)) = last_val (hrun ops) k.
Proof. simpl. rewrite vrun_denote, insert_denote. reflexivity. Qed.

(** Iteration: backwards is the reverse of forwards, by-value equals by-reference. *)
Theorem iter_back_rev m : iter_back m = rev (iter m).
Proof. reflexivity. Qed.
Theorem into_iter_iter m : into_iter m = iter m.
Proof. reflexivity. Qed.

(** "one by one": extending / collecting / deserializing equals folding single inserts *)
Theorem extend_one_by_one m l :
  extend m l = fold_left (fun m kv => fst (vstep m (OpInsert (fst kv) (snd kv)))) l m.
Proof. reflexivity. Qed.

Theorem is_empty_denote h : is_empty (denote h) = match h with [] => true | _ => false end.
Proof.
  destruct h as [|[k v] h]; [reflexivity|].
  assert (In k (keys_of ((k, v) :: h))) as Hin by (apply keys_of_in; left; reflexivity).
  rewrite <- denote_fst in Hin. destruct (denote ((k, v) :: h)); [destruct Hin | reflexivity].
Qed.

Theorem index_denote h k : index (denote h) k = last_val h k.
Proof. apply get_denote. Qed.
