(** Typed equalities agree with typed accessors ([tunnel/src/value.rs]). *)
From TT Require Import Values.Value.

Lemma eq_vc_iff_accessor v x :
  wf_const x = true ->
  (eq_vc v x = true <-> exists y, as_type (type_of x) v = Some y /\ const_eq y x = true).
Proof.
  intros Hwf. destruct x as [b|y|y|y|y|y|s]; destruct v as [b'|z|z|f|s'|s'|m c]; simpl in *;
    try (split; [discriminate | intros (y0 & H & _); discriminate]).
  - split; [intros H; eexists; split; [reflexivity|exact H] | intros (y0 & [= <-] & H); exact H].
  - split.
    + intros H. apply Z.eqb_eq in H. subst. rewrite Hwf. eexists; split; [reflexivity|].
      simpl. apply Z.eqb_refl.
    + intros (y0 & H & E). destruct (fits_i64 z); [|discriminate]. injection H as <-. exact E.
  - split; [intros H; eexists; split; [reflexivity|exact H] | intros (y0 & [= <-] & H); exact H].
  - split.
    + intros H. apply Z.eqb_eq in H. subst. rewrite Hwf. eexists; split; [reflexivity|].
      simpl. apply Z.eqb_refl.
    + intros (y0 & H & E). destruct (fits_u64 z); [|discriminate]. injection H as <-. exact E.
  - split; [intros H; eexists; split; [reflexivity|exact H] | intros (y0 & [= <-] & H); exact H].
  - split; [intros H; eexists; split; [reflexivity|exact H] | intros (y0 & [= <-] & H); exact H].
  - split; [intros H; eexists; split; [reflexivity|exact H] | intros (y0 & [= <-] & H); exact H].
Qed.

Lemma eq_cv_sym x v : eq_cv x v = eq_vc v x.
Proof. reflexivity. Qed.

Lemma as_i64_iff z :
  as_type TI64 (VInt z) = Some (CI64 z) <-> (- 2 ^ 63 <= z < 2 ^ 63)%Z.
Proof.
  simpl. unfold fits_i64, i64_min, i64_max.
  destruct (Z.leb_spec (- 2 ^ 63) z), (Z.leb_spec z (2 ^ 63 - 1)); simpl; split;
    intros Hx; try discriminate; try reflexivity; lia.
Qed.

Lemma as_u64_iff z :
  as_type TU64 (VUInt z) = Some (CU64 z) <-> (0 <= z < 2 ^ 64)%Z.
Proof.
  simpl. unfold fits_u64, u64_max.
  destruct (Z.leb_spec 0 z), (Z.leb_spec z (2 ^ 64 - 1)); simpl; split;
    intros Hx; try discriminate; try reflexivity; lia.
Qed.

Lemma as_64_none_outside :
  (forall z, fits_i64 z = false -> as_type TI64 (VInt z) = None) /\
  (forall z, fits_u64 z = false -> as_type TU64 (VUInt z) = None).
Proof. split; intros z H; simpl; rewrite H; reflexivity. Qed.

(** accessors never confuse kinds: a value has at most one "kind family" of successful views *)
Lemma as_type_kind t v y : as_type t v = Some y -> type_of y = t.
Proof.
  destruct t, v; simpl; try discriminate; intros H;
    try (injection H as <-; reflexivity);
    match type of H with (if ?c then _ else _) = _ => destruct c; [injection H as <-; reflexivity | discriminate] end.
Qed.
