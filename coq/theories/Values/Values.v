(** Model of [tunnel/src/values.rs]: [TracedValues<S>] as a vector of name/value pairs.
    Definitions only. *)
From TT Require Export Values.Value.

Definition tvalues := list (string * tvalue).

(** [TracedValues::insert]: find the position of the first entry with this name; replace the value
    in place and return the old one, or push at the end. *)
Fixpoint insert (m : tvalues) (k : string) (v : tvalue) : tvalues * option tvalue :=
  match m with
  | [] => ([(k, v)], None)
  | (k', v') :: r =>
      if String.eqb k' k then ((k', v) :: r, Some v')
      else let '(r', o) := insert r k v in ((k', v') :: r', o)
  end.

(** [TracedValues::get]: first entry with this name. *)
Fixpoint get (m : tvalues) (k : string) : option tvalue :=
  match m with
  | [] => None
  | (k', v') :: r => if String.eqb k' k then Some v' else get r k
  end.

Definition len (m : tvalues) : N := N.of_nat (List.length m).
Definition is_empty (m : tvalues) : bool := match m with [] => true | _ => false end.
(** [Index<&str>]: the value, or a panic ([None]) when the name is not defined *)
Definition index (m : tvalues) (k : string) : option tvalue := get m k.
Definition iter (m : tvalues) : list (string * tvalue) := m.
Definition iter_back (m : tvalues) : list (string * tvalue) := rev m.
Definition into_iter (m : tvalues) : list (string * tvalue) := m.

(** [Extend::extend]: insert one by one. *)
Definition extend (m : tvalues) (l : list (string * tvalue)) : tvalues :=
  fold_left (fun m kv => fst (insert m (fst kv) (snd kv))) l m.

(** [FromIterator::from_iter]: new + extend. *)
Definition from_iter (l : list (string * tvalue)) : tvalues := extend [] l.

(** [Deserialize]: [visit_map] inserts every entry of the serialized map, duplicates included. *)
Definition deser (l : list (string * tvalue)) : tvalues :=
  fold_left (fun m kv => fst (insert m (fst kv) (snd kv))) l [].

Definition tvalues_eqb : tvalues -> tvalues -> bool := list_eqb (pair_eqb String.eqb tvalue_eqb).

(** * Reference specification (independent of the vector representation)

    The abstract state is the history [h] of all (name, value) pairs ever inserted.
    The map it denotes lists the distinct names in order of first occurrence, each with the value
    of its last occurrence. *)
Fixpoint first_occ (seen : list string) (l : list string) : list string :=
  match l with
  | [] => []
  | k :: r => if existsb (String.eqb k) seen then first_occ seen r else k :: first_occ (k :: seen) r
  end.
Definition keys_of (h : list (string * tvalue)) : list string := first_occ [] (map fst h).

Fixpoint last_val (h : list (string * tvalue)) (k : string) : option tvalue :=
  match h with
  | [] => None
  | (k', v) :: r => match last_val r k with
                    | Some w => Some w
                    | None => if String.eqb k' k then Some v else None
                    end
  end.

Definition denote (h : list (string * tvalue)) : tvalues :=
  flat_map (fun k => match last_val h k with Some v => [(k, v)] | None => [] end) (keys_of h).

(** * Operation sequences, as driven by the correspondence harness *)
Inductive vop :=
| OpInsert (k : string) (v : tvalue)
| OpExtend (l : list (string * tvalue))
| OpFromIter (l : list (string * tvalue))        (* replaces the collection *)
| OpDeser (l : list (string * tvalue)).          (* replaces the collection *)

Definition vstep (m : tvalues) (o : vop) : tvalues * option tvalue :=
  match o with
  | OpInsert k v => insert m k v
  | OpExtend l => (extend m l, None)
  | OpFromIter l => (from_iter l, None)
  | OpDeser l => (deser l, None)
  end.

(** history denoted by an op sequence (what "inserting the entries one by one" means) *)
Definition hstep (h : list (string * tvalue)) (o : vop) : list (string * tvalue) :=
  match o with
  | OpInsert k v => h ++ [(k, v)]
  | OpExtend l => h ++ l
  | OpFromIter l => l
  | OpDeser l => l
  end.

Definition vrun (ops : list vop) : tvalues := fold_left (fun m o => fst (vstep m o)) ops [].
Definition hrun (ops : list vop) : list (string * tvalue) := fold_left hstep ops [].
