(** Correspondence judge for the hostile-rendering runs of C05 / C16 (evaluated by [vm_compute] on
    cases written by the harness): the storage of [Registry + CaptureLayer] after a guest program some
    of whose recorded values emit events or panic in their [Debug] impl, dumped through the public
    API ([None]: the lock is poisoned, or a watchdog saw the guest hang), against the lock-level
    machine of [Capture/Hostile.v] under the discipline of the code ([corr]) and against the
    reference specification of the flattened quiet program ([ok]).

    On the model's own output the verdict is [Agree] for every well-formed hostile program, and
    within the hypothesis [corr] implies [ok]: a [PropFail] is impossible without a [Mismatch]. *)
From TT Require Export Judge.C05.
From TT Require Export Capture.Hostile.
From TT Require Import Capture.HostileProofs.

Definition judge_hostile (hp : hprog) (ids : list N) (impl : option cstorage) : verdict :=
  judge_of (wf_hprog_b hp)
           (option_eqb cstorage_eqb (hstorage_of (hrun RenderFirst ids hp)) impl)
           (option_eqb cstorage_eqb (Some (spec_storage (fun _ => true) ids (flatten hp))) impl).

Theorem judge_hostile_agree_on_model hp ids :
  wf_hprog_b hp = true ->
  judge_hostile hp ids (hstorage_of (hrun RenderFirst ids hp)) = Agree.
Proof.
  intros Hwf. unfold judge_hostile, judge_of. rewrite Hwf. cbn [negb].
  rewrite (render_first_is_spec ids hp Hwf).
  rewrite (proj2 (option_eqb_spec _ cstorage_eqb_spec _ _) eq_refl). reflexivity.
Qed.

(** within the hypothesis [corr] implies [ok] *)
Theorem judge_hostile_ok_of_corr hp ids impl :
  wf_hprog_b hp = true ->
  option_eqb cstorage_eqb (hstorage_of (hrun RenderFirst ids hp)) impl = true ->
  option_eqb cstorage_eqb (Some (spec_storage (fun _ => true) ids (flatten hp))) impl = true.
Proof.
  intros Hwf Hc. rewrite <- (render_first_is_spec ids hp Hwf). exact Hc.
Qed.

(** .. so the judge never answers [PropFail] on an output that corresponds to the model *)
Theorem judge_hostile_no_propfail_of_corr hp ids impl :
  option_eqb cstorage_eqb (hstorage_of (hrun RenderFirst ids hp)) impl = true ->
  judge_hostile hp ids impl = Agree \/ judge_hostile hp ids impl = OutOfScope.
Proof.
  intros Hc. unfold judge_hostile, judge_of. destruct (wf_hprog_b hp) eqn:Hwf; cbn [negb]; [|auto].
  rewrite (judge_hostile_ok_of_corr hp ids impl Hwf Hc), Hc. auto.
Qed.

(** what [Agree] says about the implementation's storage *)
Theorem judge_hostile_agree hp ids impl :
  judge_hostile hp ids impl = Agree ->
  impl = Some (spec_storage (fun _ => true) ids (flatten hp)) /\
  impl = hstorage_of (hrun RenderFirst ids hp).
Proof.
  unfold judge_hostile, judge_of. destruct (wf_hprog_b hp); [|discriminate]. cbn [negb].
  destruct (option_eqb cstorage_eqb (Some (spec_storage (fun _ => true) ids (flatten hp))) impl) eqn:E1;
    [|discriminate]. cbn [negb].
  destruct (option_eqb cstorage_eqb (hstorage_of (hrun RenderFirst ids hp)) impl) eqn:E2; [|discriminate].
  intros _. apply (option_eqb_spec _ cstorage_eqb_spec) in E1, E2. split; congruence.
Qed.
