(** Correspondence judge for C20 (evaluated by [vm_compute] on cases written by the harness). *)
From TT Require Export Tunnel.Normalize.
From TT Require Import Tunnel.TypesProofs Tunnel.NormalizeProofs.

Definition events_eqb : list event -> list event -> bool := list_eqb event_eqb.

Lemma events_eqb_spec a b : events_eqb a b = true <-> a = b.
Proof. apply list_eqb_spec, event_eqb_spec. Qed.

(** [input] = the stream handed to [TracingEvent::normalize], [impl_output] = the slice afterwards.
    corr: the model computes the same stream.
    ok:   the property's executable statement on the implementation's own output:
          same length, position-wise untouched parts, line = None and event call sites named
          "event", normalized ids equal iff original ids equal, ids numbered 0..k-1 by first
          occurrence ([norm_ok], defined in Tunnel/Normalize.v without reference to the model). *)
Definition judge_normalize (input impl_output : list event) : verdict :=
  judge_of true
    (events_eqb (normalize input) impl_output)
    (norm_ok input impl_output).

(** [relabelled] = [input] with ids renamed one-to-one, lines and event call-site names changed.
    hyp:  the two streams really differ only in that way (executable form of [same_up_to]);
    corr: both implementation outputs are the model's;
    ok:   the two implementation outputs are equal. *)
Definition judge_relabel (input relabelled impl_out1 impl_out2 : list event) : verdict :=
  judge_of (same_up_to_b input relabelled)
    (events_eqb (normalize input) impl_out1 && events_eqb (normalize relabelled) impl_out2)
    (events_eqb impl_out1 impl_out2).

(** the model always passes its own judges (so [ok] is not vacuous and not over-strict) *)
Lemma judge_normalize_model input : judge_normalize input (normalize input) = Agree.
Proof.
  unfold judge_normalize, judge_of.
  rewrite norm_ok_model, (proj2 (events_eqb_spec _ _) eq_refl). reflexivity.
Qed.

(** [ok] of [judge_normalize] decides equality with the model, hence [PropFail] is reported for
    every output that is not the canonical renaming, and [Mismatch] can never be reported *)
Lemma judge_normalize_sound input out :
  judge_normalize input out = Agree <-> out = normalize input.
Proof.
  unfold judge_normalize, judge_of. cbn [negb].
  destruct (norm_ok input out) eqn:O; cbn [negb].
  - apply norm_ok_iff in O. subst out. rewrite (proj2 (events_eqb_spec _ _) eq_refl). cbn. tauto.
  - split; [discriminate |]. intros ->. rewrite norm_ok_model in O. discriminate.
Qed.

Lemma judge_relabel_model input relabelled :
  judge_relabel input relabelled (normalize input) (normalize relabelled)
  = if same_up_to_b input relabelled then Agree else OutOfScope.
Proof.
  unfold judge_relabel, judge_of. destruct (same_up_to_b input relabelled) eqn:S; cbn [negb]; [| reflexivity].
  apply same_up_to_b_spec, normalize_same_up_to in S. rewrite S.
  rewrite !(proj2 (events_eqb_spec _ _) eq_refl). reflexivity.
Qed.

(** The judges are not blind: outputs of the algorithm before the repair, non-canonical numberings,
    kept lines and touched span ids are [PropFail]; pairs of streams that are not one-to-one
    relabellings of each other, or that differ in an attribute normalization keeps, are
    [OutOfScope] for [judge_relabel]. *)
Definition jt_cs (k : cskind) (name : string) (line : option N) : cs_data :=
  mk_cs k name "t"%string LInfo None None line [].
Definition jt_witness : list event :=
  [ENewCallSite 7 (jt_cs KSpan "a" (Some 10)); ENewCallSite 7 (jt_cs KSpan "a" (Some 10));
   ENewCallSite 9 (jt_cs KSpan "b" (Some 20)); ENewSpan 1 None 7 []; ENewSpan 2 None 9 []]%string.

Example judge_detects_old_defect :
  judge_normalize jt_witness (normalize_old jt_witness) = PropFail
  /\ judge_normalize jt_witness (normalize jt_witness) = Agree.
Proof. vm_compute. split; reflexivity. Qed.

Example judge_normalize_detects :
  (* ids swapped consistently but not in first-occurrence order *)
  judge_normalize [ENewCallSite 7 (jt_cs KSpan "a" None); ENewCallSite 9 (jt_cs KSpan "b" None)]%string
                  [ENewCallSite 1 (jt_cs KSpan "a" None); ENewCallSite 0 (jt_cs KSpan "b" None)]%string = PropFail
  (* ids not renumbered at all *)
  /\ judge_normalize [ENewCallSite 7 (jt_cs KSpan "a" None)]%string [ENewCallSite 7 (jt_cs KSpan "a" None)]%string = PropFail
  (* line kept *)
  /\ judge_normalize [ENewCallSite 7 (jt_cs KSpan "a" (Some 3))]%string [ENewCallSite 0 (jt_cs KSpan "a" (Some 3))]%string = PropFail
  (* event call-site name kept *)
  /\ judge_normalize [ENewCallSite 7 (jt_cs KEvent "event x.rs:1" None)]%string [ENewCallSite 0 (jt_cs KEvent "event x.rs:1" None)]%string = PropFail
  (* span call-site name replaced *)
  /\ judge_normalize [ENewCallSite 7 (jt_cs KSpan "a" None)]%string [ENewCallSite 0 (jt_cs KSpan "event" None)]%string = PropFail
  (* a span id rewritten like a call-site id *)
  /\ judge_normalize [ENewSpan 5 None 7 []] [ENewSpan 0 None 0 []] = PropFail
  (* an event dropped *)
  /\ judge_normalize [ESpanEntered 1; ESpanExited 1] [ESpanEntered 1] = PropFail
  (* two call sites merged *)
  /\ judge_normalize [ENewEvent 7 None []; ENewEvent 9 None []] [ENewEvent 0 None []; ENewEvent 0 None []] = PropFail.
Proof. vm_compute. repeat split. Qed.

Example judge_relabel_scope :
  (* two ids merged by the relabelling: not one-to-one *)
  judge_relabel [ENewEvent 1 None []; ENewEvent 2 None []] [ENewEvent 5 None []; ENewEvent 5 None []]
                [ENewEvent 0 None []; ENewEvent 1 None []] [ENewEvent 0 None []; ENewEvent 0 None []] = OutOfScope
  (* one id split *)
  /\ judge_relabel [ENewEvent 1 None []; ENewEvent 1 None []] [ENewEvent 5 None []; ENewEvent 6 None []]
                   [ENewEvent 0 None []; ENewEvent 0 None []] [ENewEvent 0 None []; ENewEvent 1 None []] = OutOfScope
  (* the name of a SPAN call site is not erased, so changing it is out of scope *)
  /\ judge_relabel [ENewCallSite 1 (jt_cs KSpan "a" None)]%string [ENewCallSite 1 (jt_cs KSpan "b" None)]%string
                   [ENewCallSite 0 (jt_cs KSpan "a" None)]%string [ENewCallSite 0 (jt_cs KSpan "b" None)]%string = OutOfScope
  (* in scope, and outputs differ: the property fails *)
  /\ judge_relabel [ENewCallSite 1 (jt_cs KEvent "x" (Some 1))]%string [ENewCallSite 8 (jt_cs KEvent "y" None)]%string
                   [ENewCallSite 0 (jt_cs KEvent "event" None)]%string [ENewCallSite 0 (jt_cs KEvent "y" None)]%string = PropFail
  /\ judge_relabel [ENewCallSite 1 (jt_cs KEvent "x" (Some 1))]%string [ENewCallSite 8 (jt_cs KEvent "y" None)]%string
                   [ENewCallSite 0 (jt_cs KEvent "event" None)]%string [ENewCallSite 0 (jt_cs KEvent "event" None)]%string = Agree.
Proof. vm_compute. repeat split. Qed.
