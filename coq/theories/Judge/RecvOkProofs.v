(** The model's own observations pass the executable statements of C06, C07 and the
    abstract-refinement check on every history in scope: hence, whenever the correspondence holds
    on a case, the property's executable statement holds on the implementation's output too, and a
    [PropFail] verdict is impossible without a [Mismatch]. *)
From TT Require Import Tunnel.TypesProofs Judge.RecvOk Judge.RecvProofs
  Tunnel.ReceiverInv Tunnel.ReceiverHistInv Tunnel.ReceiverAbsProofs.
From stdpp Require Import gmap.
Arguments firstn : simpl never.
Arguments skipn : simpl never.
Arguments chunks : simpl never.
Arguments extend : simpl never.
Arguments host_vals : simpl never.

Lemma snap_of_default : snap_of rs_default = snap_empty.
Proof. unfold snap_of, snap_empty. simpl. by rewrite !map_to_list_empty, elements_empty. Qed.

Lemma a_of_snap_of st : a_of_snap (snap_of st) = abs st.
Proof. unfold a_of_snap, snap_of, abs. simpl. by rewrite !list_to_map_to_list. Qed.

Lemma outcome_eqb_refl o : outcome_eqb o o = true.
Proof. by apply outcome_eqb_sound. Qed.

Lemma nodup_N_true l : NoDup l → nodup_N l = true.
Proof.
  induction 1 as [|a l Hn Hnd IH]; simpl; [done|]. rewrite IH, andb_true_r.
  apply negb_true_iff. apply not_true_is_false. intros H. apply existsb_exists in H as (b & Hb & E).
  apply N.eqb_eq in E. subst. apply Hn. by apply elem_of_list_In.
Qed.

Lemma map_agrees_to_list {V} (eqb : V → V → bool) (m : gmap N V) :
  (∀ v, eqb v v = true) → map_agrees eqb m (map_to_list m) = true.
Proof.
  intros Hrefl. unfold map_agrees. rewrite !andb_true_iff. split_and!.
  - apply N.eqb_eq. reflexivity.
  - apply nodup_N_true, NoDup_fst_map_to_list.
  - apply forallb_forall. intros [k v] Hin. apply elem_of_list_In, elem_of_map_to_list in Hin.
    simpl. by rewrite Hin.
Qed.

Lemma span_data_eqb_refl d : span_data_eqb d d = true.
Proof. by apply span_data_eqb_sound. Qed.

(** C06 *)
Theorem ok_c06_model_from steps : ∀ h,
  HInv h → hist_scope h steps →
  ok_c06 (snap_of (h_st h)) steps (map iobs_of (hist_run h steps)) = true.
Proof.
  induction steps as [|s r IH]; intros h HH Hsc; [done|].
  destruct Hsc as [Hs Hsc].
  pose proof (hist_step_HInv h s HH Hs) as HH'.
  pose proof (hist_total [s] h HH (conj Hs I)) as Hp. cbn [hist_run] in Hp.
  cbn [hist_run]. destruct (hist_step h s) as [h' o] eqn:E.
  apply Forall_cons in Hp as [Hp _]. rewrite Hp. cbn [map].
  destruct s as [ev|keep|]; cbn [hist_step] in E.
  - destruct (try_receive (h_st h) (h_w h) ev) as [[[o' st'] w'] calls] eqn:E'. simplify_eq.
    cbn [iobs_of ok_c06]. rewrite a_of_snap_of.
    pose proof (try_receive_refines _ _ _ _ _ _ _ (hinv_st _ HH) Hs E') as Hr.
    unfold astep in Hr. injection Hr as Ho _. rewrite Ho, outcome_eqb_refl.
    simpl in Hp. destruct o'; try done; simpl; apply (IH _ HH' Hsc).
  - unfold persist in E. destruct (restore _ _ _ _) as [[st' w'] regs]. simplify_eq.
    cbn [iobs_of ok_c06]. apply (IH _ HH' Hsc).
  - destruct (restore _ _ _ _) as [[st' w'] regs]. simplify_eq.
    cbn [iobs_of ok_c06]. apply (IH _ HH' Hsc).
Qed.

Theorem ok_c06_model steps :
  hist_scope hist_init steps →
  ok_c06 snap_empty steps (map iobs_of (hist_run hist_init steps)) = true.
Proof. intros H. rewrite <- snap_of_default. by apply (ok_c06_model_from steps hist_init HInv_init). Qed.

(** the abstract-refinement check *)
Theorem ok_abstract_model_from steps : ∀ h,
  HInv h → hist_scope h steps →
  ok_abstract (absh h) steps (map iobs_of (hist_run h steps)) = true.
Proof.
  induction steps as [|s r IH]; intros h HH Hsc; [done|].
  destruct Hsc as [Hs Hsc].
  pose proof (hist_step_HInv h s HH Hs) as HH'.
  pose proof (hist_step_refines h s HH Hs) as Href.
  pose proof (hist_total [s] h HH (conj Hs I)) as Hp. cbn [hist_run] in Hp.
  cbn [hist_run ok_abstract]. destruct (hist_step h s) as [h' o] eqn:E. cbn [fst snd] in *.
  apply Forall_cons in Hp as [Hp _]. rewrite Hp. cbn [map]. rewrite Href.
  rewrite (IH _ HH' Hsc), andb_true_r.
  destruct s as [ev|keep|]; cbn [hist_step] in E.
  - destruct (try_receive (h_st h) (h_w h) ev) as [[[o' st'] w'] calls]. simplify_eq.
    cbn [iobs_of outcome_of]. rewrite outcome_eqb_refl. simpl.
    rewrite (map_agrees_to_list span_data_eqb _ span_data_eqb_refl). simpl.
    apply map_agrees_to_list. intros v. by apply cs_data_eqb_spec.
  - unfold persist in E.
    pose proof (restore_spec (h_w h) (persist_metadata (h_st h) ∪ h_md h) (r_spans (h_st h))
                  (if keep then r_local (h_st h) else ∅)) as Hs'.
    destruct (restore _ _ _ _) as [[st' w'] regs]. simplify_eq.
    cbn [iobs_of outcome_of]. simpl. destruct Hs' as (-> & -> & _).
    rewrite (map_agrees_to_list span_data_eqb _ span_data_eqb_refl). simpl.
    apply map_agrees_to_list. intros v. by apply cs_data_eqb_spec.
  - pose proof (restore_spec (h_w h) (h_md h) (h_spans h) ∅) as Hs'.
    destruct (restore _ _ _ _) as [[st' w'] regs]. simplify_eq.
    cbn [iobs_of outcome_of]. simpl. destruct Hs' as (-> & -> & _).
    rewrite (map_agrees_to_list span_data_eqb _ span_data_eqb_refl). simpl.
    apply map_agrees_to_list. intros v. by apply cs_data_eqb_spec.
Qed.

Theorem ok_abstract_model steps :
  hist_scope hist_init steps →
  ok_abstract ah_init steps (map iobs_of (hist_run hist_init steps)) = true.
Proof. apply (ok_abstract_model_from steps hist_init HInv_init). Qed.

(** C07: holds on every history, no hypothesis *)
Lemma snap_eqb_refl s : snap_eqb s s = true.
Proof.
  unfold snap_eqb. rewrite !andb_true_iff. split_and!.
  - apply list_eqb_spec; [|done]. apply pair_eqb_spec; [apply N.eqb_eq | apply cs_data_eqb_spec].
  - apply list_eqb_spec; [|done]. apply pair_eqb_spec; [apply N.eqb_eq | apply span_data_eqb_sound].
  - apply list_eqb_spec; [|done]. apply pair_eqb_spec; apply N.eqb_eq.
  - apply list_eqb_spec; [|done]. apply N.eqb_eq.
  - apply list_eqb_spec; [|done]. apply pair_eqb_spec; apply N.eqb_eq.
Qed.

Theorem ok_c07_model steps : ∀ h,
  ok_c07 (snap_of (h_st h)) (map iobs_of (hist_run h steps)) = true.
Proof.
  induction steps as [|s r IH]; intros h; [done|].
  cbn [hist_run]. destruct (hist_step h s) as [h' o] eqn:E. cbn [map].
  assert (iobs_snap (iobs_of o) = snap_of (h_st h')) as Hsn.
  { pose proof (hist_step_snap h s) as Hx. by rewrite E in Hx. }
  destruct s as [ev|keep|]; cbn [hist_step] in E.
  - destruct (try_receive (h_st h) (h_w h) ev) as [[[o' st'] w'] calls] eqn:E'. simplify_eq.
    cbn [iobs_of ok_c07 is_panic].
    destruct o' as [|e|]; cbn [is_rejected].
    + simpl. apply (IH (mk_hist st' w' (h_md h) (h_spans h))).
    + apply reject_no_effect in E' as (-> & -> & ->). rewrite snap_eqb_refl. simpl.
      apply (IH (mk_hist (h_st h) (h_w h) (h_md h) (h_spans h))).
    + done.
  - unfold persist in E. destruct (restore _ _ _ _) as [[st' w'] regs]. simplify_eq.
    cbn [iobs_of ok_c07 is_panic].
    apply (IH (mk_hist st' w' (persist_metadata (h_st h) ∪ h_md h) (r_spans (h_st h)))).
  - destruct (restore _ _ _ _) as [[st' w'] regs]. simplify_eq.
    cbn [iobs_of ok_c07 is_panic]. apply (IH (mk_hist st' w' (h_md h) (h_spans h))).
Qed.
