(** Correspondence judge for C01 (evaluated by [vm_compute] on cases written by the harness).

    A case is a guest program executed with the real [tracing] API
    (i) natively under a recording [Subscriber] that issues the ids 1, 2, 3, ... and logs every call
        with its arguments ([to_native], in the vocabulary of Guest/Front.v; call sites are given by
        their index in the program's pool, the harness maps metadata addresses back; registrations
        of call sites that do not belong to the program are removed);
    (ii) under a real [TracingEventSender]; every event goes through [serde_json::to_string] and
        [from_str] and is replayed, in order, through a real [TracingEventReceiver] under a fresh
        recording subscriber ([to_tunnel], in the vocabulary of Tunnel/Receiver.v);
    (iii) both ways under [Registry + CaptureLayer], the two storages being dumped through the public
        API and compared by the harness ([to_snap]). *)
From TT Require Export Base.Worst Tunnel.Tunnel.
From TT Require Import Values.ValuesProofs Tunnel.TypesProofs Tunnel.TunnelProofs.
From stdpp Require Import gmap.

Record tobs := mk_tobs {
  to_native : list scall;      (* (i) the native call log *)
  to_tunnel : list hcall;      (* (ii) the host's call log behind sender + serde + receiver *)
  to_accepted : bool;          (* every [try_receive] returned [Ok] *)
  to_events : N;               (* number of non-announcement events the sender emitted *)
  to_serde : bool;             (* every event re-encodes identically after the JSON round trip *)
  to_snap : bool }.            (* (iii) the captured storages are equal *)

Definition cmid : nat -> N := N.of_nat.

(** hypotheses of the theorem: well-formed, single-threaded, below the wrap of the id counter *)
Definition c01_hyp (p : prog) : bool :=
  wf_prog_b p && single_threaded p && (spans_created (p_ops p) <=? U32 - 1)%N.

(** the model's output equals the implementation's.  Registrations are compared modulo placement
    on the native side (tracing-core announces a call site registered earlier at dispatcher creation)
    and not at all on the tunnel side (the receiver's arena is process-global: a description is
    registered with the host once per process). *)
Definition c01_corr (p : prog) (o : tobs) : bool :=
  let native := native_calls all_enabled p in
  list_eqb scall_eqb (op_calls native) (op_calls (to_native o))
  && forallb (fun c => negb (is_register c) || existsb (scall_eqb c) (to_native o)) native
  && list_eqb hc_eqb (strip_reg (tunnel_calls cmid p)) (strip_reg (to_tunnel o))
  && Bool.eqb (forallb is_accepted_o (tunnel_outcomes cmid p)) (to_accepted o)
  && (N.of_nat (List.length (op_events (sender_run cmid p))) =? to_events o)%N.

(** the property's executable statement on the implementation's own output:
    nothing is rejected, the wire encoding is lossless, the tunnelled trace is the native trace
    (C01_tunnel_is_identity), and the captured forests are equal *)
Definition c01_ok (sites : list cs_data) (o : tobs) : bool :=
  to_accepted o && to_serde o
  && list_eqb hc_eqb (strip_reg (to_tunnel o)) (strip_reg (canon (normalise sites (to_native o))))
  && to_snap o.

(** the recorded deviation of the known class (F8): the only difference between the two traces is
    that explicit roots arrive as contextual (C01_tunnel_is_identity_upto_root) *)
Definition c01_recorded (sites : list cs_data) (o : tobs) : bool :=
  to_accepted o && to_serde o
  && list_eqb hc_eqb (strip_reg (to_tunnel o)) (map unroot (strip_reg (normalise sites (to_native o)))).

(** known class 1 (explicit-root): a failure is downgraded only for a program of the class and only
    when it is the recorded one *)
Definition judge_c01 (p : prog) (o : tobs) : verdict :=
  if negb (c01_hyp p) then OutOfScope
  else if negb (c01_ok (p_sites p) o) then
    (if known_explicit_root p && c01_recorded (p_sites p) o then KnownF 1 else PropFail)
  else if negb (c01_corr p o) then Mismatch
  else Agree.

(** * The equalities are equalities *)
Lemma sparent_eqb_spec a b : sparent_eqb a b = true <-> a = b.
Proof.
  destruct a, b; cbn [sparent_eqb]; try (split; [discriminate | discriminate || congruence]);
    try (split; reflexivity).
  rewrite N.eqb_eq. split; [intros ->; reflexivity | intros [= ->]; reflexivity].
Qed.

Lemma scall_eqb_spec a b : scall_eqb a b = true <-> a = b.
Proof.
  destruct a, b; cbn [scall_eqb]; try (split; [discriminate | discriminate || congruence]);
    rewrite ?andb_true_iff, ?N.eqb_eq, ?Nat.eqb_eq, ?sparent_eqb_spec, ?tvalues_eqb_spec.
  all: split; [intros H; decompose [and] H; subst; reflexivity | intros [= -> ]; subst; repeat split; reflexivity].
Qed.

Lemma hcalls_eqb_spec a b : list_eqb hc_eqb a b = true <-> a = b.
Proof. apply list_eqb_spec. exact hc_eqb_spec. Qed.
Lemma scalls_eqb_spec a b : list_eqb scall_eqb a b = true <-> a = b.
Proof. apply list_eqb_spec. exact scall_eqb_spec. Qed.

(** * What the verdicts mean *)

(** [Agree] pins the implementation's logs to the model's (up to registrations) and states the
    property on them *)
Theorem judge_c01_agree p o :
  judge_c01 p o = Agree ->
  op_calls (to_native o) = op_calls (native_calls all_enabled p)
  /\ strip_reg (to_tunnel o) = strip_reg (tunnel_calls cmid p)
  /\ strip_reg (to_tunnel o) = strip_reg (canon (normalise (p_sites p) (to_native o)))
  /\ to_accepted o = true /\ to_serde o = true /\ to_snap o = true.
Proof.
  unfold judge_c01. destruct (c01_hyp p); [|discriminate]. cbn [negb].
  destruct (c01_ok (p_sites p) o) eqn:E1; [|destruct (_ && _); discriminate]. cbn [negb].
  destruct (c01_corr p o) eqn:E3; [|discriminate]. intros _.
  unfold c01_ok in E1. unfold c01_corr in E3.
  repeat match goal with H : _ && _ = true |- _ => apply andb_true_iff in H as [? ?] end.
  repeat match goal with H : list_eqb hc_eqb _ _ = true |- _ => apply hcalls_eqb_spec in H end.
  repeat match goal with H : list_eqb scall_eqb _ _ = true |- _ => apply scalls_eqb_spec in H end.
  split_and!; congruence.
Qed.

(** the model's own output passes its judge: for a program within the hypotheses and outside the
    known class, an implementation that does what the model says is judged [Agree] *)
Definition model_tobs (p : prog) : tobs :=
  mk_tobs (native_calls all_enabled p) (tunnel_calls cmid p)
          (forallb is_accepted_o (tunnel_outcomes cmid p))
          (N.of_nat (List.length (op_events (sender_run cmid p)))) true true.

Lemma cmid_inj a b : cmid a = cmid b -> a = b.
Proof. unfold cmid. lia. Qed.

Theorem judge_c01_model p :
  c01_hyp p = true -> known_explicit_root p = false -> judge_c01 p (model_tobs p) = Agree.
Proof.
  intros Hh Hk. unfold judge_c01. rewrite Hh. cbn [negb].
  unfold c01_hyp in Hh. apply andb_true_iff in Hh as [Hh Hb]. apply andb_true_iff in Hh as [Hwf Hst].
  apply N.leb_le in Hb.
  destruct (tunnel_is_identity_upto_root_proof cmid p cmid_inj Hwf Hb) as [Hr Ho].
  pose proof (tunnel_is_identity_proof cmid p cmid_inj Hwf Hst Hb Hk) as Hf.
  assert (Hacc : forallb is_accepted_o (tunnel_outcomes cmid p) = true).
  { rewrite Ho. apply forallb_forall. intros x Hx. apply repeat_spec in Hx. subst x. reflexivity. }
  assert (E1 : c01_ok (p_sites p) (model_tobs p) = true).
  { unfold c01_ok, model_tobs. cbn [to_native to_tunnel to_accepted to_serde to_snap].
    rewrite Hacc, !andb_true_r. cbn [andb]. apply hcalls_eqb_spec. exact Hf. }
  assert (E3 : c01_corr p (model_tobs p) = true).
  { unfold c01_corr, model_tobs. cbn [to_native to_tunnel to_accepted to_events].
    rewrite (proj2 (scalls_eqb_spec _ _) eq_refl), (proj2 (hcalls_eqb_spec _ _) eq_refl), eqb_reflx, N.eqb_refl.
    rewrite !andb_true_r. cbn [andb]. apply forallb_forall. intros c Hc.
    destruct (is_register c); [|reflexivity]. cbn [negb orb]. apply existsb_exists. exists c.
    split; [exact Hc | apply scall_eqb_spec; reflexivity]. }
  rewrite E1, E3. reflexivity.
Qed.

(** detection examples: an implementation that forwards a clone, loses an exit, attaches an event to
    the wrong span or rejects an event is not judged [Agree] *)
Example judge_c01_detects :
  let p := wit_root_outside in
  let good := model_tobs p in
  judge_c01 p good = Agree
  /\ judge_c01 p (mk_tobs (to_native good) (to_tunnel good ++ [HExit 1]) true (to_events good) true true) = PropFail
  /\ judge_c01 p (mk_tobs (to_native good) (removelast (to_tunnel good)) true (to_events good) true true) = PropFail
  /\ judge_c01 p (mk_tobs (to_native good) (to_tunnel good) false (to_events good) true true) = PropFail
  /\ judge_c01 p (mk_tobs (to_native good) (to_tunnel good) true (to_events good) true false) = PropFail
  /\ judge_c01 p (mk_tobs (to_native good ++ [SClone 1]) (to_tunnel good) true (to_events good) true true) = Mismatch
  /\ judge_c01 wit_explicit_root (model_tobs wit_explicit_root) = KnownF 1
  (* an implementation that did transmit explicit roots would satisfy the property: only the
     correspondence with the current model would break *)
  /\ judge_c01 wit_explicit_root
       (mk_tobs (native_calls all_enabled wit_explicit_root)
                (normalise wit_sites (native_calls all_enabled wit_explicit_root)) true 5 true true) = Mismatch
  (* inside the known class a different failure is still a failure *)
  /\ judge_c01 wit_explicit_root
       (mk_tobs (native_calls all_enabled wit_explicit_root)
                (removelast (tunnel_calls cmid wit_explicit_root)) true 5 true true) = PropFail.
Proof. vm_compute. repeat split. Qed.
