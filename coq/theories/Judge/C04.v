(** Judges of C04.

    [judge_c04 steps impl reg_ok]: a history and what the implementation did at every step (host
    calls, state snapshots), plus the result of running the same history under a real
    [tracing_subscriber::Registry] ([reg_ok]: after every persist / drop the host thread's current
    span was the span the host had entered before the receiver processed anything).
    [judge_c04_retry pre k k' seg rest impl1 impl2]: the implementation's runs of
    [pre ++ SPersist k :: seg ++ SDrop :: rest] and of [pre ++ SPersist k' :: rest].

    [ok] is evaluated on the implementation's observations only. *)
From stdpp Require Import gmap.
From TT Require Export Judge.Recv Tunnel.ReceiverFinalize.
From TT Require Import Tunnel.TypesProofs.

Definition empty_snap : snap := mk_snap [] [] [] [] [].

Definition assoc {V} (l : list (N * V)) (k : N) : option V :=
  match List.find (fun kv => (fst kv =? k)%N) l with Some kv => Some (snd kv) | None => None end.

(** [wf_drop] for one step, read off the implementation's snapshot before the step *)
Definition wf_drop_snap (prev : snap) (ev : event) (o : outcome) : bool :=
  match o, ev with
  | Accepted, ESpanDropped id =>
      match assoc (sn_spans prev) id with
      | Some d => if (sd_refs d - 1 =? 0)%N
                  then match assoc (sn_entered prev) id with None => true | Some _ => false end
                  else true
      | None => true
      end
  | _, _ => true
  end.

(** exits (any order) followed by closes (any order), nothing else *)
Fixpoint exits_then_closes (seen_close : bool) (F : list hcall) : bool :=
  match F with
  | [] => true
  | HExit _ :: r => negb seen_close && exits_then_closes false r
  | HTryClose _ :: r => exits_then_closes true r
  | _ => false
  end.

Fixpoint nodupb (l : list N) : bool :=
  match l with
  | [] => true
  | x :: r => negb (existsb (N.eqb x) r) && nodupb r
  end.

(** what the snapshot at the end of a lifetime says finalisation must emit *)
Definition expected_exits (s : snap) : list N :=
  flat_map (fun kv => match assoc (sn_local s) (fst kv) with
                      | Some h => repeat h (N.to_nat (snd kv))
                      | None => []
                      end) (sn_entered s).
Definition expected_closes (s : snap) : list N :=
  flat_map (fun id => match assoc (sn_local s) id with Some h => [h] | None => [] end)
           (sn_uncommitted s).

(** one lifetime: [prev] = the implementation's state when it is finalised, [T] = its calls
    during the lifetime, [F] = the finalisation batch *)
Definition life_ok (prev : snap) (T F : list hcall) (is_drop wf : bool) : bool :=
  let all := T ++ F in
  (if is_drop then exits_then_closes false F else forallb is_exit_call F)
  && perm_eqb N.eqb (ee_ids F) (expected_exits prev)
  && (if is_drop
      then perm_eqb N.eqb (close_ids F) (expected_closes prev) && nodupb (close_ids F)
           && forallb (fun id => match assoc (sn_local prev) id with Some _ => true | None => false end)
                      (sn_uncommitted prev)
      else match close_ids F with [] => true | _ => false end)
  && forallb (fun kv => (bal all (snd kv) =? 0)%N) (sn_local prev)
  && (if wf
      then forallb (fun h => (bal all h =? 0)%N) (ee_ids all)
           && match stack_apply [] all with [] => true | _ => false end
      else true).

(** walk the history; returns (every finalised lifetime is ok, every finalised lifetime and
    every lifetime before it satisfies wf_drop) *)
Fixpoint walk (steps : list hstep) (impl : list iobs) (prev : snap) (T : list hcall) (wf : bool)
  : bool * bool :=
  match steps, impl with
  | SRecv ev :: ss, IRecv o calls s :: ii =>
      walk ss ii s (T ++ calls) (wf && wf_drop_snap prev ev o)
  | SPersist _ :: ss, IPersist exits _ _ _ s :: ii =>
      let '(ok, awf) := walk ss ii s [] true in
      (life_ok prev T exits false wf && ok, wf && awf)
  | SDrop :: ss, IDrop calls _ s :: ii =>
      let '(ok, awf) := walk ss ii s [] true in
      (life_ok prev T calls true wf && ok, wf && awf)
  | _, [] => (true, true)          (* the last lifetime is not finalised (or the run stopped) *)
  | _, _ => (false, true)
  end.

Definition judge_c04 (steps : list hstep) (impl : list iobs) (reg_ok : bool) : verdict :=
  let '(ok, awf) := walk steps impl empty_snap [] true in
  judge_of (hist_scopeb hist_init steps)
           (corr_history steps impl)
           (ok && (if awf then reg_ok else true)).

(** * retry *)
Inductive icommit :=
| ICRecv (o : outcome)
| ICPersist (spans : list (N * span_data)) (md : list (N * cs_data))
| ICDrop.
Definition commit_i (i : iobs) : icommit :=
  match i with
  | IRecv o _ _ => ICRecv o
  | IPersist _ spans md _ _ => ICPersist spans md
  | IDrop _ _ _ => ICDrop
  end.
Definition spans_eqb := list_eqb (pair_eqb N.eqb span_data_eqb).
Definition snap_of (i : iobs) : snap :=
  match i with IRecv _ _ s | IPersist _ _ _ _ s | IDrop _ _ s => s end.
Definition final_snap (impl : list iobs) : snap :=
  match List.last (map Some impl) None with Some i => snap_of i | None => empty_snap end.

(** The two runs of a retry pair use call sites that differ in their target only (the harness
    makes the call sites of every run unique so that the process-global arena registers them
    afresh); [step_sim] is equality of steps up to that. *)
Definition cs_sim (a b : cs_data) : bool :=
  cskind_eqb (cs_kind a) (cs_kind b) && String.eqb (cs_name a) (cs_name b)
  && level_eqb (cs_level a) (cs_level b)
  && option_eqb String.eqb (cs_module a) (cs_module b)
  && option_eqb String.eqb (cs_file a) (cs_file b)
  && option_eqb N.eqb (cs_line a) (cs_line b)
  && list_eqb String.eqb (cs_fields a) (cs_fields b).
Definition event_sim (a b : event) : bool :=
  match a, b with
  | ENewCallSite i d, ENewCallSite j e => N.eqb i j && cs_sim d e
  | _, _ => event_eqb a b
  end.
Definition step_sim (a b : hstep) : bool :=
  match a, b with
  | SRecv x, SRecv y => event_sim x y
  | SPersist k, SPersist k' => Bool.eqb k k'
  | SDrop, SDrop => true
  | _, _ => false
  end.

(** acceptance results and persisted spans (the persisted metadata differs by the targets) *)
Definition icommit_sim (a b : icommit) : bool :=
  match a, b with
  | ICRecv x, ICRecv y => outcome_eqb x y
  | ICPersist s _, ICPersist s' _ => spans_eqb s s'
  | ICDrop, ICDrop => true
  | _, _ => false
  end.

(** run 1: [pre1 ++ SPersist k :: seg ++ SDrop :: rest1]; run 2: [pre2 ++ SPersist k' :: rest2] *)
Definition judge_c04_retry (pre1 : list hstep) (k : bool) (seg rest1 : list hstep) (impl1 : list iobs)
    (pre2 : list hstep) (k' : bool) (rest2 : list hstep) (impl2 : list iobs) : verdict :=
  let A1 := pre1 ++ [SPersist k] ++ seg ++ [SDrop] in
  let A2 := pre2 ++ [SPersist k'] in
  let r1 := skipn (List.length A1) impl1 in
  let r2 := skipn (List.length A2) impl2 in
  judge_of (hist_scopeb hist_init (A1 ++ rest1) && hist_scopeb hist_init (A2 ++ rest2)
            && forallb (fun s => negb (is_persist s)) seg
            && all2 step_sim pre1 pre2 && all2 step_sim rest1 rest2)
           (corr_history (A1 ++ rest1) impl1 && corr_history (A2 ++ rest2) impl2)
           (all2 icommit_sim (map commit_i r1) (map commit_i r2)
            && (N.of_nat (List.length r1) =? N.of_nat (List.length rest1))%N
            && spans_eqb (sn_spans (final_snap impl1)) (sn_spans (final_snap impl2))).

(** * the equalities are equalities *)
Lemma span_data_eqb_spec a b : span_data_eqb a b = true <-> a = b.
Proof.
  destruct a as [m p r v], b as [m' p' r' v']. unfold span_data_eqb. simpl.
  rewrite !andb_true_iff, !N.eqb_eq, tvalues_eqb_spec, (option_eqb_spec N.eqb N.eqb_eq).
  split; [intros [[[-> ->] ->] ->]; reflexivity | intros E; injection E as -> -> -> ->; auto].
Qed.
Lemma rerror_eqb_spec a b : rerror_eqb a b = true <-> a = b.
Proof.
  destruct a, b; simpl; try (split; intros E; discriminate E); rewrite N.eqb_eq;
    (split; [intros ->; reflexivity | intros E; injection E as ->; reflexivity]).
Qed.
Lemma outcome_eqb_spec a b : outcome_eqb a b = true <-> a = b.
Proof.
  destruct a, b; simpl; try (split; intros E; (discriminate E || reflexivity)).
  rewrite rerror_eqb_spec. split; [intros ->; reflexivity | intros E; injection E as ->; reflexivity].
Qed.
Lemma spans_eqb_spec a b : spans_eqb a b = true <-> a = b.
Proof. apply list_eqb_spec, pair_eqb_spec; [apply N.eqb_eq | apply span_data_eqb_spec]. Qed.
(** [perm_eqb] on host ids decides multiset equality *)
Lemma remove_first_perm (x : N) l l' : remove_first N.eqb x l = Some l' -> Permutation l (x :: l').
Proof.
  revert l'. induction l as [|y l IH]; intros l' H; simpl in H; [discriminate|].
  destruct (N.eqb_spec x y) as [->|Hn].
  - injection H as ->. reflexivity.
  - destruct (remove_first N.eqb x l) as [r|]; [|discriminate]. injection H as <-.
    rewrite (IH r eq_refl). apply perm_swap.
Qed.
Lemma perm_eqb_sound (a b : list N) : perm_eqb N.eqb a b = true -> Permutation a b.
Proof.
  revert b. induction a as [|x a IH]; intros b H; simpl in H.
  - destruct b; [reflexivity | discriminate].
  - destruct (remove_first N.eqb x b) as [b'|] eqn:E; [|discriminate].
    rewrite (remove_first_perm _ _ _ E). constructor. apply IH, H.
Qed.
