(** The judge of C12 ([Judge/C12.v]) is a consequence of the C12 theorems.

    [judge_sender start p o] evaluates the property's executable statement [sender_ok p o] on the
    IMPLEMENTATION's observation [o] and compares [o] with the model ([sender_corr]).  Here:
    - [model_sobs start p], the observation the model produces, is judged [Agree] outside the known
      class ([judge_sender_model]) and [Agree] or [KnownF 1] inside it ([judge_sender_model_known]):
      never [PropFail], never [Mismatch];
    - more generally EVERY observation the correspondence check accepts ([sender_corr start p o]),
      whose calls and events are matched one to one, whose foreign counts agree and whose
      announcements are consistent (the three conjuncts of [sender_ok] that [sender_corr] does not
      pin down: the implementation may announce call sites earlier than the model) satisfies
      [sender_ok] ([sender_ok_of_corr]), so that [PropFail] together with a successful
      correspondence is impossible outside the known class;
    - for the concurrent judge the id-related conjuncts of [conc_ok] follow from [conc_hyp] and
      [conc_corr] by the interleaving theorem [ids_fresh_interleaved_proof] ([conc_ids_ok]).

    The theorems of [Tunnel/SenderProofs.v] about ids, faithfulness and acceptance are stated for a
    fresh sender (counter at 1); the judge runs the sender from an arbitrary [start] in
    [1, 2^32 - 1].  The first part of this file therefore re-derives the closed form of the run
    with the offset [start] ([front_steps_wf]: the non-registration calls of a well-formed program
    are [wcalls start ..], span [k] has id [start + k]); for [start = 1] it is the closed form
    [spec_events] of [sender_run_closed] ([wcalls_fresh_is_spec]).  The statements about
    announcements ([front_steps_ann]) and the image ([op_events_map]) are used as they are. *)
From TT Require Import Values.ValuesProofs Guest.ProgramProofs Tunnel.TypesProofs Tunnel.SenderProofs.
From TT Require Export Judge.C12.
From stdpp Require Import gmap.
Open Scope N_scope.

Local Arguments N.add : simpl never.
Local Arguments N.modulo : simpl never.
Local Arguments N.pow : simpl never.
Local Arguments N.sub : simpl never.
Local Arguments N.leb : simpl never.
Local Arguments N.ltb : simpl never.
Local Arguments N.eqb : simpl never.
Local Arguments N.of_nat : simpl never.

(** * The observation the model produces *)
Definition model_sobs (start : N) (p : prog) : sobs :=
  let r := front_run (sender_alloc_from start) all_enabled p in
  mk_sobs (fst r) (map (sender_event cmid (p_sites p)) (fst r)) (snd r) 0 0.

Lemma model_sobs_model_obs start p : model_sobs start p = model_obs start p.
Proof.
  unfold model_sobs, model_obs. destruct (front_run (sender_alloc_from start) all_enabled p) as [calls b].
  reflexivity.
Qed.

Lemma model_sobs_events start p : so_events (model_sobs start p) = sender_run_from start cmid p.
Proof. reflexivity. Qed.

(** * Reflexivity of the boolean equalities *)
Lemma event_eqb_refl e : event_eqb e e = true.
Proof. apply event_eqb_spec. reflexivity. Qed.
Lemma scall_eqb_refl c : scall_eqb c c = true.
Proof. apply scall_eqb_spec. reflexivity. Qed.
Lemma list_eqb_refl {A} (eqb : A -> A -> bool) (l : list A) :
  (forall a, eqb a a = true) -> list_eqb eqb l l = true.
Proof.
  intros H. induction l as [|a l IH]; cbn [list_eqb]; [reflexivity|]. rewrite H, IH. reflexivity.
Qed.

(** the model's observation corresponds to the model: every program, every start *)
Lemma sender_corr_model start p : sender_corr start p (model_sobs start p) = true.
Proof.
  unfold sender_corr, model_sobs.
  destruct (front_run (sender_alloc_from start) all_enabled p) as [calls b].
  cbn [fst snd so_calls so_events so_panicked].
  rewrite (list_eqb_refl scall_eqb _ scall_eqb_refl), (list_eqb_refl event_eqb _ event_eqb_refl).
  rewrite Bool.eqb_reflx. cbn [andb]. apply forallb_forall. intros e He.
  apply orb_true_iff. right. apply existsb_exists. exists e. split; [exact He | apply event_eqb_refl].
Qed.

(** * The run of a well-formed program from [start], in closed form *)

(** the id of the span with creation index [k] *)
Definition idx (start : N) (k : nat) : N := start + N.of_nat k.

Lemma idx_inj start a b : idx start a = idx start b -> a = b.
Proof. unfold idx. lia. Qed.

Definition wparent (start : N) (p : parent_kind) : sparent :=
  match p with PKCtx => SPCtx | PKRoot => SPRoot | PKExplicit k => SPExplicit (idx start k) end.

(** the one call other than registrations that an op of a well-formed program makes; [spans] =
    call sites of the spans created before the op *)
Definition wcall (start : N) (sites : list cs_data) (spans : list nat) (o : op) : scall :=
  match o with
  | ONewSpan cs p vals =>
      SNewSpan (idx start (List.length spans)) cs (wparent start p) (from_value_set (site_fields sites cs) vals)
  | ORecord k vals => SRecord (idx start k) (from_value_set (site_fields sites (nth k spans O)) vals)
  | OEnter k => SEnter (idx start k)
  | OExit k => SExit (idx start k)
  | OClone k => SClone (idx start k)
  | ODrop k => STryClose (idx start k)
  | OFollows k (FLive j) => SFollows (idx start k) (idx start j)
  | OFollows k (FStale raw) => SFollows (idx start k) raw
  | OEvent cs p vals => SEvent cs (wparent start p) (from_value_set (site_fields sites cs) vals)
  end.

Fixpoint wcalls (start : N) (sites : list cs_data) (spans : list nat) (ops : list (nat * op)) : list scall :=
  match ops with
  | [] => []
  | o :: r => wcall start sites spans (snd o) :: wcalls start sites (spans_after spans (snd o)) r
  end.

(** the front end's span table under a sender at [start], without wrap *)
Fixpoint tabS (start : N) (off : nat) (spans : list nat) : list (nat * option N) :=
  match spans with
  | [] => []
  | cs :: r => (cs, Some (idx start off)) :: tabS start (S off) r
  end.

Lemma tabS_app start off a b :
  tabS start off (a ++ b) = tabS start off a ++ tabS start (off + List.length a) b.
Proof.
  revert off. induction a as [|x a IH]; intros off; cbn [tabS app List.length].
  - rewrite Nat.add_0_r. reflexivity.
  - rewrite IH. do 3 f_equal. lia.
Qed.

Lemma tabS_nth start off spans k :
  nth_error (tabS start off spans) k
  = option_map (fun cs => (cs, Some (idx start (off + k)))) (nth_error spans k).
Proof.
  revert off k. induction spans as [|x r IH]; intros off [|k]; cbn [tabS nth_error option_map];
    try reflexivity.
  - rewrite Nat.add_0_r. reflexivity.
  - rewrite IH. replace (S off + k)%nat with (off + S k)%nat by lia. reflexivity.
Qed.

Definition FInvS (start : N) (fs : front_state) (spans : list nat) : Prop :=
  fs_spans fs = tabS start 0 spans /\ fs_allocs fs = N.of_nat (List.length spans).

Lemma FInvS_init start : FInvS start front_init [].
Proof. split; reflexivity. Qed.

Lemma FInvS_span_id start fs spans k :
  FInvS start fs spans -> (k < List.length spans)%nat -> fs_span_id fs k = Some (idx start k).
Proof.
  intros [H _] Hlt. unfold fs_span_id. rewrite H, tabS_nth. cbn [Nat.add].
  destruct (nth_error spans k) eqn:E; [reflexivity|]. apply nth_error_None in E. lia.
Qed.

Lemma live_lt_sites st k : live st k = true -> (k < List.length (map sp_site (ss_spans st)))%nat.
Proof. intros L. rewrite map_length. exact (handles_lt _ _ L). Qed.

Lemma FInvS_parent start fs st p :
  FInvS start fs (map sp_site (ss_spans st)) -> wf_parent st p = true ->
  front_parent fs p = wparent start p.
Proof.
  intros HI Hp. destruct p as [| |k]; cbn [front_parent wparent]; try reflexivity.
  cbn [wf_parent] in Hp. rewrite (FInvS_span_id _ _ _ _ HI (live_lt_sites _ _ Hp)). reflexivity.
Qed.

(** registrations name call sites of the program's pool *)
Definition reg_ok (sites : list cs_data) (c : scall) : Prop :=
  match c with SRegister cs => (cs < List.length sites)%nat | _ => True end.

Lemma op_calls_app a b : op_calls (a ++ b) = op_calls a ++ op_calls b.
Proof. apply List.filter_app. Qed.

Lemma front_register_ok sites fs cs :
  (cs < List.length sites)%nat ->
  Forall (reg_ok sites) (fst (front_register fs cs)) /\ op_calls (fst (front_register fs cs)) = [].
Proof.
  intros Hlt. unfold front_register. destruct (registered fs cs); cbn [fst].
  - split; [constructor | reflexivity].
  - split; [repeat constructor; exact Hlt | reflexivity].
Qed.

Lemma wf_site_use_lt sites kind cs vals :
  wf_site_use sites kind cs vals = true -> (cs < List.length sites)%nat.
Proof.
  unfold wf_site_use. destruct (nth_error sites cs) eqn:E; [|discriminate]. intros _.
  apply nth_error_Some. congruence.
Qed.

(** one op of a well-formed program: the registration of its call site if that is still due, then
    its call; no panic *)
Lemma front_step_wf start sites st o st' fs :
  1 <= start ->
  wf_step false sites st o = Some st' ->
  FInvS start fs (map sp_site (ss_spans st)) ->
  (match snd o with ONewSpan _ _ _ => start + N.of_nat (n_spans st) < U32 | _ => True end) ->
  exists reg fs',
    front_step (sender_alloc_from start) all_enabled sites fs (snd o)
    = (reg ++ [wcall start sites (map sp_site (ss_spans st)) (snd o)], fs', false)
    /\ Forall (reg_ok sites) reg /\ op_calls reg = []
    /\ FInvS start fs' (map sp_site (ss_spans st')).
Proof.
  destruct o as [tid o]. cbn [snd]. intros Hs Hwf HI Hw.
  pose proof HI as [Hsp Hal]. rewrite map_length in Hal.
  destruct o as [cs p vals|k vals|k|k|k|k|k t|cs p vals]; cbn [wf_step fst snd] in Hwf;
    cbn [front_step wcall].
  - (* new span *)
    destruct (wf_site_use sites KSpan cs vals) eqn:Hsite; [|discriminate]. cbn [andb] in Hwf.
    destruct (wf_parent st p) eqn:Hpar; [|discriminate]. injection Hwf as <-.
    destruct (front_register_ok sites fs cs (wf_site_use_lt _ _ _ _ Hsite)) as [Hreg Hop].
    destruct (front_register fs cs) as [reg regs]. cbn [fst] in Hreg, Hop.
    unfold all_enabled. rewrite Hal.
    rewrite sender_alloc_from_small by (unfold n_spans in Hw; lia).
    rewrite (FInvS_parent _ _ _ _ HI Hpar), map_length.
    eexists _, _. split; [reflexivity|]. split; [exact Hreg|]. split; [exact Hop|].
    cbn [ss_spans]. split; cbn [fs_spans fs_allocs].
    + rewrite Hsp, map_app, tabS_app. cbn [tabS Nat.add map sp_site]. rewrite map_length. reflexivity.
    + rewrite map_length, app_length. cbn [List.length]. lia.
  - (* record *)
    unfold span_site in Hwf. destruct (nth_error (ss_spans st) k) as [s|] eqn:Hk; [|discriminate].
    cbn [option_map] in Hwf. destruct (live st k) eqn:L; [|discriminate]. cbn [andb] in Hwf.
    destruct (wf_valset _ vals) eqn:Hv; [|discriminate]. injection Hwf as <-.
    rewrite Hsp, tabS_nth, nth_error_map, Hk. cbn [option_map Nat.add].
    assert (En : nth k (map sp_site (ss_spans st)) O = sp_site s).
    { apply nth_error_nth. rewrite nth_error_map, Hk. reflexivity. }
    rewrite En. exists [], fs. split; [reflexivity|]. split; [constructor|]. split; [reflexivity | exact HI].
  - (* enter *)
    destruct (live st k) eqn:L; [|discriminate]. injection Hwf as <-.
    rewrite (FInvS_span_id _ _ _ _ HI (live_lt_sites _ _ L)).
    exists [], fs. split; [reflexivity|]. split; [constructor|]. split; [reflexivity | exact HI].
  - (* exit *)
    destruct (live st k) eqn:L; [|discriminate]. cbn [andb] in Hwf.
    destruct (on_stack _ k); [|discriminate]. injection Hwf as <-.
    rewrite (FInvS_span_id _ _ _ _ HI (live_lt_sites _ _ L)).
    exists [], fs. split; [reflexivity|]. split; [constructor|]. split; [reflexivity | exact HI].
  - (* clone *)
    destruct (live st k) eqn:L; [|discriminate]. injection Hwf as <-.
    rewrite (FInvS_span_id _ _ _ _ HI (live_lt_sites _ _ L)).
    exists [], fs. split; [reflexivity|]. split; [constructor|]. split; [reflexivity|].
    cbn [ss_spans]. rewrite map_site_set_handles. exact HI.
  - (* drop *)
    destruct (live st k) eqn:L; [|discriminate]. cbn [andb] in Hwf.
    destruct (_ || _); [|discriminate]. injection Hwf as <-.
    rewrite (FInvS_span_id _ _ _ _ HI (live_lt_sites _ _ L)).
    exists [], fs. split; [reflexivity|]. split; [constructor|]. split; [reflexivity|].
    cbn [ss_spans]. rewrite map_site_set_handles. exact HI.
  - (* follows *)
    destruct (live st k) eqn:L; [|discriminate]. cbn [andb] in Hwf.
    destruct t as [j|raw]; [|cbn [andb] in Hwf; discriminate].
    destruct (live st j) eqn:Lj; [|discriminate]. injection Hwf as <-.
    rewrite (FInvS_span_id _ _ _ _ HI (live_lt_sites _ _ L)), (FInvS_span_id _ _ _ _ HI (live_lt_sites _ _ Lj)).
    exists [], fs. split; [reflexivity|]. split; [constructor|]. split; [reflexivity | exact HI].
  - (* event *)
    destruct (wf_site_use sites KEvent cs vals) eqn:Hsite; [|discriminate]. cbn [andb] in Hwf.
    destruct (wf_parent st p) eqn:Hpar; [|discriminate]. injection Hwf as <-.
    destruct (front_register_ok sites fs cs (wf_site_use_lt _ _ _ _ Hsite)) as [Hreg Hop].
    destruct (front_register fs cs) as [reg regs]. cbn [fst] in Hreg, Hop.
    unfold all_enabled. rewrite (FInvS_parent _ _ _ _ HI Hpar).
    eexists _, _. split; [reflexivity|]. split; [exact Hreg|]. split; [exact Hop|].
    split; [exact Hsp | cbn [fs_allocs]; rewrite map_length; exact Hal].
Qed.

Lemma wf_step_sites sites st o st' :
  wf_step false sites st o = Some st' ->
  map sp_site (ss_spans st') = spans_after (map sp_site (ss_spans st)) (snd o).
Proof. intros H. exact (proj2 (wf_step_spec_some cmid sites st o st' H)). Qed.

(** all ops: no panic; without the registrations the calls are [wcalls] *)
Lemma front_steps_wf start sites ops : forall st st' fs,
  1 <= start ->
  wf_steps false sites st ops = Some st' ->
  FInvS start fs (map sp_site (ss_spans st)) ->
  start + N.of_nat (n_spans st) + spans_created ops <= U32 ->
  snd (front_steps (sender_alloc_from start) all_enabled sites fs ops) = false
  /\ op_calls (fst (front_steps (sender_alloc_from start) all_enabled sites fs ops))
     = wcalls start sites (map sp_site (ss_spans st)) ops
  /\ Forall (reg_ok sites) (fst (front_steps (sender_alloc_from start) all_enabled sites fs ops)).
Proof.
  induction ops as [|o r IH]; intros st st' fs Hs Hwf HI Hb.
  - split; [reflexivity|]. split; [reflexivity | constructor].
  - cbn [wf_steps] in Hwf. destruct (wf_step false sites st o) as [st1|] eqn:E; [|discriminate].
    assert (Hw : match snd o with ONewSpan _ _ _ => start + N.of_nat (n_spans st) < U32 | _ => True end).
    { destruct o as [t [| | | | | | |]]; cbn [snd]; try exact I.
      cbn [spans_created] in Hb. rewrite spans_created_nspans in Hb. lia. }
    destruct (front_step_wf start sites st o st1 fs Hs E HI Hw) as [reg [fs1 [Hstep [Hreg [Hop HI1]]]]].
    assert (Hb1 : start + N.of_nat (n_spans st1) + spans_created r <= U32).
    { rewrite (wf_step_n_spans _ _ _ _ E). destruct o as [t [| | | | | | |]]; cbn [snd spans_created] in *; lia. }
    destruct (IH st1 st' fs1 Hs Hwf HI1 Hb1) as [Hp [Hc Hr]].
    cbn [front_steps wcalls]. rewrite Hstep.
    destruct (front_steps (sender_alloc_from start) all_enabled sites fs1 r) as [rest b]. cbn [fst snd] in *.
    split; [exact Hp|]. split.
    + rewrite !op_calls_app, Hop, Hc, (wf_step_sites _ _ _ _ E). cbn [app].
      unfold op_calls at 1. cbn [List.filter].
      destruct (wcall start sites (map sp_site (ss_spans st)) (snd o)) eqn:Ec; cbn [is_register negb app];
        try reflexivity.
      destruct o as [t [? ? ?|? ?|?|?|?|?|? [?|?]|? ? ?]]; cbn [snd wcall] in Ec; discriminate.
    + apply Forall_app. split; [|exact Hr]. apply Forall_app. split; [exact Hreg|]. constructor; [|constructor].
      destruct o as [t [? ? ?|? ?|?|?|?|?|? [?|?]|? ? ?]]; exact I.
Qed.

(** * The events of the closed form *)
Definition wevents (start : N) (sites : list cs_data) (spans : list nat) (ops : list (nat * op)) : list event :=
  map (sender_event cmid sites) (wcalls start sites spans ops).

(** ** span ids: [start], [start + 1], ... in creation order *)
Lemma wevents_ids start sites ops : forall spans,
  new_span_ids (wevents start sites spans ops) = map (idx start) (seq (List.length spans) (nspans ops)).
Proof.
  induction ops as [|[t o] r IH]; intros spans; [reflexivity|].
  unfold wevents, new_span_ids in *. cbn [wcalls map snd flat_map]. rewrite IH, spans_after_length.
  destruct o as [cs p vals|k vals|k|k|k|k|k [j|raw]|cs p vals]; cbn [wcall sender_event nspans app];
    rewrite ?Nat.add_0_r; try reflexivity.
  cbn [seq map]. rewrite Nat.add_1_r. reflexivity.
Qed.

(** ** every op yields the event the judge expects *)
Lemma expected_wcall start sites ids st o st' :
  wf_step false sites st o = Some st' ->
  (forall k, (k < n_spans st + match snd o with ONewSpan _ _ _ => 1 | _ => 0 end)%nat ->
             nth_error ids k = Some (idx start k)) ->
  expected_event sites ids (map sp_site (ss_spans st)) (snd o)
  = Some (sender_event cmid sites (wcall start sites (map sp_site (ss_spans st)) (snd o))).
Proof.
  destruct o as [tid o]. cbn [snd]. intros Hwf Hids.
  assert (Hlive : forall k, live st k = true -> impl_id ids k = Some (idx start k)).
  { intros k L. apply Hids. pose proof (handles_lt _ _ L). lia. }
  assert (Hpar : forall p, wf_parent st p = true -> impl_parent ids p = Some (sender_parent (wparent start p))).
  { intros [| |k] Hp; cbn [impl_parent wparent sender_parent]; try reflexivity.
    cbn [wf_parent] in Hp. rewrite (Hlive k Hp). reflexivity. }
  destruct o as [cs p vals|k vals|k|k|k|k|k t|cs p vals]; cbn [wf_step fst snd] in Hwf;
    cbn [expected_event wcall sender_event].
  - destruct (wf_site_use sites KSpan cs vals); [|discriminate]. cbn [andb] in Hwf.
    destruct (wf_parent st p) eqn:Hp; [|discriminate].
    unfold impl_id at 1. rewrite map_length. fold (n_spans st). rewrite (Hids (n_spans st)) by lia.
    rewrite (Hpar p Hp).
    unfold captured. rewrite from_value_set_denote_spec. reflexivity.
  - unfold span_site in Hwf. destruct (nth_error (ss_spans st) k) as [s|] eqn:Hk; [|discriminate].
    cbn [option_map] in Hwf. destruct (live st k) eqn:L; [|discriminate].
    rewrite (Hlive k L), nth_error_map, Hk. cbn [option_map].
    assert (En : nth k (map sp_site (ss_spans st)) O = sp_site s).
    { apply nth_error_nth. rewrite nth_error_map, Hk. reflexivity. }
    rewrite En. unfold captured. rewrite from_value_set_denote_spec. reflexivity.
  - destruct (live st k) eqn:L; [|discriminate]. rewrite (Hlive k L). reflexivity.
  - destruct (live st k) eqn:L; [|discriminate]. rewrite (Hlive k L). reflexivity.
  - destruct (live st k) eqn:L; [|discriminate]. rewrite (Hlive k L). reflexivity.
  - destruct (live st k) eqn:L; [|discriminate]. rewrite (Hlive k L). reflexivity.
  - destruct (live st k) eqn:L; [|discriminate]. cbn [andb] in Hwf.
    destruct t as [j|raw]; [|cbn [andb] in Hwf; discriminate].
    destruct (live st j) eqn:Lj; [|discriminate]. rewrite (Hlive k L), (Hlive j Lj). reflexivity.
  - destruct (wf_site_use sites KEvent cs vals); [|discriminate]. cbn [andb] in Hwf.
    destruct (wf_parent st p) eqn:Hp; [|discriminate]. rewrite (Hpar p Hp).
    unfold captured. rewrite from_value_set_denote_spec. reflexivity.
Qed.

Lemma wevents_faithful start sites ids ops : forall st st',
  wf_steps false sites st ops = Some st' ->
  (forall k, (k < n_spans st + nspans ops)%nat -> nth_error ids k = Some (idx start k)) ->
  faithful sites ids (map sp_site (ss_spans st)) ops (wevents start sites (map sp_site (ss_spans st)) ops) = true.
Proof.
  induction ops as [|o r IH]; intros st st' Hwf Hids; [reflexivity|].
  cbn [wf_steps] in Hwf. destruct (wf_step false sites st o) as [st1|] eqn:E; [|discriminate].
  unfold wevents in *. cbn [wcalls map faithful]. apply andb_true_iff. split.
  - apply (option_eqb_spec event_eqb event_eqb_spec). apply (expected_wcall start sites ids st o st1 E).
    intros k Hk. apply Hids. destruct o as [t [| | | | | | |]]; cbn [snd nspans] in *; lia.
  - rewrite <- (wf_step_sites _ _ _ _ E). apply (IH st1 st' Hwf). intros k Hk. apply Hids.
    rewrite (wf_step_n_spans _ _ _ _ E) in Hk. destruct o as [t [| | | | | | |]]; cbn [snd nspans] in *; lia.
Qed.

(** ** at most 32 values *)
Definition ev_fits (e : event) : bool :=
  match e with
  | ENewSpan _ _ _ vs | ENewEvent _ _ vs | EValuesRecorded _ vs => fits vs
  | _ => true
  end.

Lemma wevents_fit start sites ops : forall st st',
  wf_steps false sites st ops = Some st' ->
  forallb ev_fits (wevents start sites (map sp_site (ss_spans st)) ops) = true.
Proof.
  induction ops as [|o r IH]; intros st st' Hwf; [reflexivity|].
  cbn [wf_steps] in Hwf. destruct (wf_step false sites st o) as [st1|] eqn:E; [|discriminate].
  unfold wevents in *. cbn [wcalls map forallb]. apply andb_true_iff. split.
  - clear IH Hwf. destruct o as [tid o]. cbn [snd].
    destruct o as [cs p vals|k vals|k|k|k|k|k [j|raw]|cs p vals]; cbn [wf_step fst snd] in E;
      cbn [wcall sender_event ev_fits]; try reflexivity.
    + destruct (wf_site_use sites KSpan cs vals) eqn:Hsite; [|discriminate].
      exact (wf_site_use_fits _ _ _ _ Hsite).
    + unfold span_site in E. destruct (nth_error (ss_spans st) k) as [s|] eqn:Hk; [|discriminate].
      cbn [option_map] in E. destruct (live st k); [|discriminate]. cbn [andb] in E.
      destruct (wf_valset _ vals) eqn:Hv; [|discriminate].
      assert (En : nth k (map sp_site (ss_spans st)) O = sp_site s).
      { apply nth_error_nth. rewrite nth_error_map, Hk. reflexivity. }
      rewrite En. exact (wf_valset_fits _ _ Hv).
    + destruct (wf_site_use sites KEvent cs vals) eqn:Hsite; [|discriminate].
      exact (wf_site_use_fits _ _ _ _ Hsite).
  - rewrite <- (wf_step_sites _ _ _ _ E). exact (IH st1 st' Hwf).
Qed.

(** ** lifetimes: the judge's handle counts are the program's *)
Lemma refs_of_notin l id : ~ In id (map fst l) -> refs_of l id = None.
Proof.
  induction l as [|[i n] r IH]; intros Hn; [reflexivity|]. cbn [refs_of]. cbn [map fst In] in Hn.
  destruct (N.eqb_spec i id) as [->|_]; [exfalso; apply Hn; left; reflexivity|].
  apply IH. intros Hin. apply Hn. right. exact Hin.
Qed.

Lemma refs_of_none l id : refs_of l id = None -> ~ In id (map fst l).
Proof.
  induction l as [|[i n] r IH]; intros H; [intros []|]. cbn [refs_of] in H. cbn [map fst In].
  destruct (N.eqb_spec i id) as [->|Hne]; [discriminate|].
  intros [E|Hin]; [contradiction | exact (IH H Hin)].
Qed.

Lemma set_refs_keys l id n x : In x (map fst (set_refs l id n)) -> In x (map fst l).
Proof.
  induction l as [|[i m] r IH]; [intros []|]. cbn [set_refs].
  destruct (i =? id).
  - destruct (n =? 0); cbn [map fst In]; [intros H; right; exact H | intros H; exact H].
  - cbn [map fst In]. intros [E|H]; [left; exact E | right; exact (IH H)].
Qed.

Lemma set_refs_nodup l id n : List.NoDup (map fst l) -> List.NoDup (map fst (set_refs l id n)).
Proof.
  induction l as [|[i m] r IH]; intros H; [constructor|]. cbn [set_refs].
  cbn [map fst] in H. inversion H as [|? ? Hni Hnd]; subst.
  destruct (i =? id).
  - destruct (n =? 0); [exact Hnd | cbn [map fst]; constructor; assumption].
  - cbn [map fst]. constructor; [|exact (IH Hnd)]. intros Hin. apply Hni. exact (set_refs_keys _ _ _ _ Hin).
Qed.

Lemma refs_of_set_refs l id n m id' :
  List.NoDup (map fst l) -> refs_of l id = Some m ->
  refs_of (set_refs l id n) id'
  = if id' =? id then (if n =? 0 then None else Some n) else refs_of l id'.
Proof.
  induction l as [|[i k] r IH]; intros Hnd Hm; [discriminate|].
  cbn [map fst] in Hnd. inversion Hnd as [|? ? Hni Hnd']; subst.
  cbn [refs_of set_refs] in *. destruct (N.eqb_spec i id) as [->|Hne].
  - destruct (N.eqb_spec id' id) as [E|Hne'].
    + rewrite E. destruct (n =? 0); [apply refs_of_notin; exact Hni | cbn [refs_of]; rewrite N.eqb_refl; reflexivity].
    + destruct (n =? 0); [|cbn [refs_of]];
        (destruct (N.eqb_spec id id') as [E|_]; [exfalso; apply Hne'; symmetry; exact E | reflexivity]).
  - cbn [refs_of]. destruct (N.eqb_spec i id') as [->|Hne2].
    + destruct (N.eqb_spec id' id) as [E|_]; [contradiction | reflexivity].
    + exact (IH Hnd' Hm).
Qed.

(** the handle count of the span with id [id] in symbolic state [st] under a sender at [start] *)
Definition live_refs_from (start : N) (st : sym_state) (id : N) : option N :=
  if id <? start then None
  else let h := handles st (N.to_nat (id - start)) in if 0 <? h then Some h else None.

Lemma live_refs_from_fresh st id : live_refs_from 1 st id = live_refs st id.
Proof.
  unfold live_refs_from, live_refs.
  destruct (N.ltb_spec id 1), (N.eqb_spec id 0); try reflexivity; lia.
Qed.

Lemma live_refs_from_idx start st k :
  live_refs_from start st (idx start k) = if 0 <? handles st k then Some (handles st k) else None.
Proof.
  unfold live_refs_from, idx. destruct (N.ltb_spec (start + N.of_nat k) start) as [Hlt|_]; [lia|].
  replace (N.to_nat (start + N.of_nat k - start)) with k by lia. reflexivity.
Qed.

Lemma live_refs_from_other start st st' id :
  (forall k, id = idx start k -> handles st' k = handles st k) ->
  live_refs_from start st' id = live_refs_from start st id.
Proof.
  intros H. unfold live_refs_from. destruct (N.ltb_spec id start) as [|Hge]; [reflexivity|].
  rewrite (H (N.to_nat (id - start))); [reflexivity|]. unfold idx. lia.
Qed.

Definition LInv (start : N) (st : sym_state) (alive : list (N * N)) : Prop :=
  List.NoDup (map fst alive) /\ forall id, refs_of alive id = live_refs_from start st id.

Lemma LInv_init start : LInv start sym_init [].
Proof.
  split; [constructor|]. intros id. unfold live_refs_from, handles. cbn [sym_init ss_spans refs_of].
  destruct (id <? start); [reflexivity|]. destruct (N.to_nat (id - start)); reflexivity.
Qed.

Lemma LInv_refs start st alive k :
  LInv start st alive -> live st k = true -> refs_of alive (idx start k) = Some (handles st k).
Proof.
  intros [_ H] L. rewrite H, live_refs_from_idx. unfold live in L. rewrite L. reflexivity.
Qed.

Lemma LInv_alive start st alive k :
  LInv start st alive -> live st k = true -> is_alive alive (idx start k) = true.
Proof. intros HI L. unfold is_alive. rewrite (LInv_refs _ _ _ _ HI L). reflexivity. Qed.

Lemma LInv_spans start st st' alive :
  ss_spans st' = ss_spans st -> LInv start st alive -> LInv start st' alive.
Proof.
  intros E [H1 H2]. split; [exact H1|]. intros id. rewrite H2.
  unfold live_refs_from, handles. rewrite E. reflexivity.
Qed.

Lemma LInv_parent start st alive p :
  LInv start st alive -> wf_parent st p = true ->
  opt_alive_b alive (sender_parent (wparent start p)) = true.
Proof.
  intros HI Hp. destruct p as [| |k]; cbn [wparent sender_parent opt_alive_b]; try reflexivity.
  exact (LInv_alive _ _ _ _ HI Hp).
Qed.

(** one op: its event passes the lifetime check and the counts follow the program's *)
Lemma life_step start sites st o st' alive :
  wf_step false sites st o = Some st' ->
  LInv start st alive ->
  exists alive',
    (forall rest,
        life_ok alive (sender_event cmid sites (wcall start sites (map sp_site (ss_spans st)) (snd o)) :: rest)
        = life_ok alive' rest)
    /\ LInv start st' alive'.
Proof.
  destruct o as [tid o]. cbn [snd]. intros Hwf HI. pose proof HI as [Hnd Hrefs].
  destruct o as [cs p vals|k vals|k|k|k|k|k t|cs p vals]; cbn [wf_step fst snd] in Hwf;
    cbn [wcall sender_event].
  - (* new span *)
    destruct (wf_site_use sites KSpan cs vals); [|discriminate]. cbn [andb] in Hwf.
    destruct (wf_parent st p) eqn:Hp; [|discriminate]. injection Hwf as <-.
    rewrite map_length. fold (n_spans st).
    assert (Hh : handles st (n_spans st) = 0).
    { unfold handles, n_spans.
      destruct (nth_error (ss_spans st) (List.length (ss_spans st))) eqn:En; [|reflexivity].
      assert (nth_error (ss_spans st) (List.length (ss_spans st)) <> None) as Hn by congruence.
      apply nth_error_Some in Hn. lia. }
    assert (Hdead : refs_of alive (idx start (n_spans st)) = None).
    { rewrite Hrefs, live_refs_from_idx, Hh. reflexivity. }
    exists ((idx start (n_spans st), 1) :: alive). split.
    + intros rest. cbn [life_ok]. rewrite (LInv_parent _ _ _ _ HI Hp). unfold is_alive at 1.
      rewrite Hdead. reflexivity.
    + split.
      * cbn [map fst]. constructor; [exact (refs_of_none _ _ Hdead) | exact Hnd].
      * intros id. cbn [refs_of]. destruct (N.eqb_spec (idx start (n_spans st)) id) as [<-|Hne].
        -- rewrite live_refs_from_idx, handles_app. unfold n_spans. rewrite Nat.eqb_refl. reflexivity.
        -- rewrite Hrefs. symmetry. apply live_refs_from_other. intros k ->. rewrite handles_app.
           destruct (Nat.eqb_spec k (List.length (ss_spans st))) as [->|_]; [|reflexivity].
           exfalso. apply Hne. reflexivity.
  - (* record *)
    unfold span_site in Hwf. destruct (nth_error (ss_spans st) k) as [s|]; [|discriminate].
    cbn [option_map] in Hwf. destruct (live st k) eqn:L; [|discriminate]. cbn [andb] in Hwf.
    destruct (wf_valset _ vals); [|discriminate]. injection Hwf as <-.
    exists alive. split; [|exact HI]. intros rest. cbn [life_ok]. rewrite (LInv_alive _ _ _ _ HI L). reflexivity.
  - (* enter *)
    destruct (live st k) eqn:L; [|discriminate]. injection Hwf as <-.
    exists alive. split; [|exact (LInv_spans _ _ _ _ eq_refl HI)].
    intros rest. cbn [life_ok]. rewrite (LInv_alive _ _ _ _ HI L). reflexivity.
  - (* exit *)
    destruct (live st k) eqn:L; [|discriminate]. cbn [andb] in Hwf.
    destruct (on_stack _ k); [|discriminate]. injection Hwf as <-.
    exists alive. split; [|exact (LInv_spans _ _ _ _ eq_refl HI)].
    intros rest. cbn [life_ok]. rewrite (LInv_alive _ _ _ _ HI L). reflexivity.
  - (* clone *)
    destruct (live st k) eqn:L; [|discriminate]. injection Hwf as <-.
    pose proof (LInv_refs _ _ _ _ HI L) as Hk. pose proof (handles_lt _ _ L) as Hlt. unfold n_spans in Hlt.
    exists (set_refs alive (idx start k) (handles st k + 1)). split.
    + intros rest. cbn [life_ok]. rewrite Hk. reflexivity.
    + split; [exact (set_refs_nodup _ _ _ Hnd)|]. intros id.
      rewrite (refs_of_set_refs _ _ _ _ id Hnd Hk).
      destruct (N.eqb_spec id (idx start k)) as [->|Hne].
      * rewrite live_refs_from_idx, handles_set, Nat.eqb_refl by exact Hlt.
        destruct (N.eqb_spec (handles st k + 1) 0); [lia|].
        destruct (N.ltb_spec 0 (handles st k + 1)); [reflexivity | lia].
      * rewrite Hrefs. symmetry. apply live_refs_from_other. intros k' ->. rewrite handles_set by exact Hlt.
        destruct (Nat.eqb_spec k' k) as [->|_]; [exfalso; apply Hne; reflexivity | reflexivity].
  - (* drop *)
    destruct (live st k) eqn:L; [|discriminate]. cbn [andb] in Hwf.
    destruct (_ || _); [|discriminate]. injection Hwf as <-.
    pose proof (LInv_refs _ _ _ _ HI L) as Hk. pose proof (handles_lt _ _ L) as Hlt. unfold n_spans in Hlt.
    exists (set_refs alive (idx start k) (handles st k - 1)). split.
    + intros rest. cbn [life_ok]. rewrite Hk. reflexivity.
    + split; [exact (set_refs_nodup _ _ _ Hnd)|]. intros id.
      rewrite (refs_of_set_refs _ _ _ _ id Hnd Hk).
      destruct (N.eqb_spec id (idx start k)) as [->|Hne].
      * rewrite live_refs_from_idx, handles_set, Nat.eqb_refl by exact Hlt.
        destruct (N.eqb_spec (handles st k - 1) 0), (N.ltb_spec 0 (handles st k - 1)); try reflexivity; lia.
      * rewrite Hrefs. symmetry. apply live_refs_from_other. intros k' ->. rewrite handles_set by exact Hlt.
        destruct (Nat.eqb_spec k' k) as [->|_]; [exfalso; apply Hne; reflexivity | reflexivity].
  - (* follows *)
    destruct (live st k) eqn:L; [|discriminate]. cbn [andb] in Hwf.
    destruct t as [j|raw]; [|cbn [andb] in Hwf; discriminate].
    destruct (live st j) eqn:Lj; [|discriminate]. injection Hwf as <-.
    exists alive. split; [|exact HI]. intros rest. cbn [wcall sender_event life_ok].
    rewrite (LInv_alive _ _ _ _ HI L), (LInv_alive _ _ _ _ HI Lj). reflexivity.
  - (* event *)
    destruct (wf_site_use sites KEvent cs vals); [|discriminate]. cbn [andb] in Hwf.
    destruct (wf_parent st p) eqn:Hp; [|discriminate]. injection Hwf as <-.
    exists alive. split; [|exact HI]. intros rest. cbn [life_ok]. rewrite (LInv_parent _ _ _ _ HI Hp). reflexivity.
Qed.

Lemma wevents_life start sites ops : forall st st' alive,
  wf_steps false sites st ops = Some st' ->
  LInv start st alive ->
  life_ok alive (wevents start sites (map sp_site (ss_spans st)) ops) = true.
Proof.
  induction ops as [|o r IH]; intros st st' alive Hwf HI; [reflexivity|].
  cbn [wf_steps] in Hwf. destruct (wf_step false sites st o) as [st1|] eqn:E; [|discriminate].
  destruct (life_step start sites st o st1 alive E HI) as [alive' [Hstep HI']].
  unfold wevents in *. cbn [wcalls map]. rewrite Hstep, <- (wf_step_sites _ _ _ _ E).
  exact (IH st1 st' alive' Hwf HI').
Qed.

(** * Facts about the judge's checks that hold for every stream *)

(** announcements play no part in the lifetime check, the value count and the span ids *)
Lemma life_ok_op_events evs : forall alive, life_ok alive (op_events evs) = life_ok alive evs.
Proof.
  unfold op_events. induction evs as [|e r IH]; intros alive; [reflexivity|].
  destruct e; cbn [List.filter is_announce negb life_ok]; rewrite ?IH; try reflexivity.
  - destruct (refs_of alive id); [apply IH | reflexivity].
  - destruct (refs_of alive id); [apply IH | reflexivity].
Qed.

Lemma ev_fits_op_events evs : forallb ev_fits (op_events evs) = forallb ev_fits evs.
Proof.
  unfold op_events. induction evs as [|e r IH]; [reflexivity|].
  destruct e; cbn [List.filter is_announce negb forallb ev_fits]; rewrite IH; reflexivity.
Qed.

(** ** a stream that passes the lifetime check, announces its call sites before use and carries at
    most 32 values per event is accepted by the abstract receiver *)
Definition AInv (a : astate) (alive : list (N * N)) (known : list N) : Prop :=
  (forall id, sd_refs <$> (a_spans a !! id) = refs_of alive id)
  /\ (forall m, In m known -> is_Some (a_meta a !! m)).

Lemma AInv_init : AInv a_init [] [].
Proof.
  split; [|intros m []]. intros id. cbn [a_init a_spans refs_of]. rewrite lookup_empty. reflexivity.
Qed.

Lemma AInv_alive a alive known id : AInv a alive known -> a_alive a id = is_alive alive id.
Proof.
  intros [H _]. unfold a_alive, is_alive. rewrite <- H. destruct (a_spans a !! id) as [d|].
  - rewrite bool_decide_eq_true_2 by (eexists; reflexivity). reflexivity.
  - rewrite bool_decide_eq_false_2 by (intros [x Hx]; discriminate). reflexivity.
Qed.

Lemma AInv_span a alive known id :
  AInv a alive known -> is_alive alive id = true -> check_span a id = Accepted.
Proof. intros HI H. unfold check_span. rewrite (AInv_alive _ _ _ _ HI), H. reflexivity. Qed.

Lemma AInv_parent a alive known p :
  AInv a alive known -> opt_alive_b alive p = true -> check_parent a p = Accepted.
Proof.
  intros HI H. destruct p as [q|]; cbn [check_parent opt_alive_b] in *; [|reflexivity].
  rewrite (AInv_alive _ _ _ _ HI), H. reflexivity.
Qed.

Lemma AInv_known a alive known m : AInv a alive known -> mem_N m known = true -> a_known a m = true.
Proof.
  intros [_ H] Hm. apply mem_N_spec in Hm. unfold a_known. apply bool_decide_eq_true. exact (H m Hm).
Qed.

Lemma AInv_lookup a alive known id n :
  AInv a alive known -> refs_of alive id = Some n ->
  exists d, a_spans a !! id = Some d /\ sd_refs d = n.
Proof.
  intros [H _] Hn. specialize (H id). rewrite Hn in H.
  destruct (a_spans a !! id) as [d|]; [|discriminate]. exists d. split; [reflexivity|].
  cbn in H. congruence.
Qed.

Lemma arun_cons_accepted a ev r :
  ref_outcome a ev = Accepted ->
  forallb is_accepted
    (fst (arun (mk_a (match ev with ENewCallSite id d => <[id := d]> (a_meta a) | _ => a_meta a end)
                     (spec_step (a_spans a) ev)) r)) = true ->
  forallb is_accepted (fst (arun a (ev :: r))) = true.
Proof.
  intros Ho Hr. cbn [arun]. unfold astep. rewrite Ho.
  destruct (arun _ r) as [os a'']. cbn [fst forallb is_accepted] in *. exact Hr.
Qed.

Lemma accepted_of_life sites evs : forall a alive known,
  AInv a alive known -> List.NoDup (map fst alive) ->
  life_ok alive evs = true -> announced_b sites known evs = true -> forallb ev_fits evs = true ->
  forallb is_accepted (fst (arun a evs)) = true.
Proof.
  induction evs as [|e r IH]; intros a alive known HI Hnd Hl Ha Hf; [reflexivity|].
  pose proof HI as [Hrefs Hmeta].
  cbn [forallb] in Hf. apply andb_true_iff in Hf as [Hfe Hf].
  destruct e as [m d|id p m vs|x y|id|id|id|id|id vs|m p vs];
    cbn [life_ok announced_b ev_fits] in Hl, Ha, Hfe.
  - (* call site *)
    apply andb_true_iff in Ha as [_ Ha].
    apply arun_cons_accepted; [reflexivity|]. cbn [spec_step].
    apply (IH _ alive (m :: known)); try assumption. split; [exact Hrefs|]. cbn [a_meta].
    intros m' [<-|Hin].
    + rewrite lookup_insert. eexists. reflexivity.
    + destruct (decide (m = m')) as [<-|Hne]; [rewrite lookup_insert; eexists; reflexivity|].
      rewrite lookup_insert_ne by exact Hne. exact (Hmeta m' Hin).
  - (* new span *)
    apply andb_true_iff in Hl as [Hl Hlr]. apply andb_true_iff in Hl as [Hp Hdead].
    apply negb_true_iff in Hdead. apply andb_true_iff in Ha as [Hk Ha].
    apply arun_cons_accepted.
    + cbn [ref_outcome]. rewrite Hfe, (AInv_known _ _ _ _ HI Hk). cbn [negb].
      exact (AInv_parent _ _ _ _ HI Hp).
    + cbn [spec_step]. apply (IH _ ((id, 1) :: alive) known); try assumption.
      * split; [|exact Hmeta]. cbn [a_spans refs_of]. intros id'.
        destruct (N.eqb_spec id id') as [<-|Hne].
        -- rewrite lookup_insert. reflexivity.
        -- rewrite lookup_insert_ne by exact Hne. apply Hrefs.
      * cbn [map fst]. constructor; [|exact Hnd]. apply refs_of_none. unfold is_alive in Hdead.
        destruct (refs_of alive id); [discriminate | reflexivity].
  - (* follows from *)
    apply andb_true_iff in Hl as [Hl Hlr]. apply andb_true_iff in Hl as [Hx Hy].
    apply arun_cons_accepted.
    + cbn [ref_outcome]. rewrite (AInv_alive _ _ _ _ HI), Hx. cbn [negb]. exact (AInv_span _ _ _ _ HI Hy).
    + cbn [spec_step]. rewrite astate_eta. exact (IH _ _ _ HI Hnd Hlr Ha Hf).
  - (* entered *)
    apply andb_true_iff in Hl as [Hx Hlr]. apply arun_cons_accepted.
    + exact (AInv_span _ _ _ _ HI Hx).
    + cbn [spec_step]. rewrite astate_eta. exact (IH _ _ _ HI Hnd Hlr Ha Hf).
  - (* exited *)
    apply andb_true_iff in Hl as [Hx Hlr]. apply arun_cons_accepted.
    + exact (AInv_span _ _ _ _ HI Hx).
    + cbn [spec_step]. rewrite astate_eta. exact (IH _ _ _ HI Hnd Hlr Ha Hf).
  - (* cloned *)
    destruct (refs_of alive id) as [n|] eqn:En; [|discriminate].
    destruct (AInv_lookup _ _ _ _ _ HI En) as [d [Ed Hd]].
    apply arun_cons_accepted.
    + apply (AInv_span _ _ _ _ HI). unfold is_alive. rewrite En. reflexivity.
    + cbn [spec_step]. rewrite Ed. apply (IH _ (set_refs alive id (n + 1)) known); try assumption.
      * split; [|exact Hmeta]. cbn [a_spans]. intros id'. rewrite (refs_of_set_refs _ _ _ _ id' Hnd En).
        destruct (N.eqb_spec id' id) as [->|Hne].
        -- rewrite lookup_insert. cbn. rewrite Hd. destruct (N.eqb_spec (n + 1) 0); [lia | reflexivity].
        -- rewrite lookup_insert_ne by congruence. apply Hrefs.
      * exact (set_refs_nodup _ _ _ Hnd).
  - (* dropped *)
    destruct (refs_of alive id) as [n|] eqn:En; [|discriminate].
    destruct (AInv_lookup _ _ _ _ _ HI En) as [d [Ed Hd]].
    apply arun_cons_accepted.
    + apply (AInv_span _ _ _ _ HI). unfold is_alive. rewrite En. reflexivity.
    + cbn [spec_step]. rewrite Ed, Hd. apply (IH _ (set_refs alive id (n - 1)) known); try assumption.
      * split; [|exact Hmeta]. cbn [a_spans]. intros id'. rewrite (refs_of_set_refs _ _ _ _ id' Hnd En).
        destruct (N.eqb_spec id' id) as [->|Hne].
        -- destruct (n - 1 =? 0); [rewrite lookup_delete | rewrite lookup_insert]; reflexivity.
        -- destruct (n - 1 =? 0); [rewrite lookup_delete_ne | rewrite lookup_insert_ne]; try congruence;
             apply Hrefs.
      * exact (set_refs_nodup _ _ _ Hnd).
  - (* values recorded *)
    apply andb_true_iff in Hl as [Hx Hlr].
    assert (Hsome : exists n, refs_of alive id = Some n).
    { unfold is_alive in Hx. destruct (refs_of alive id) as [n|]; [exists n; reflexivity | discriminate]. }
    destruct Hsome as [n En]. destruct (AInv_lookup _ _ _ _ _ HI En) as [d [Ed Hd]].
    apply arun_cons_accepted.
    + cbn [ref_outcome]. rewrite Hfe. cbn [negb]. exact (AInv_span _ _ _ _ HI Hx).
    + cbn [spec_step]. rewrite Ed. apply (IH _ alive known); try assumption.
      split; [|exact Hmeta]. cbn [a_spans]. intros id'. destruct (decide (id = id')) as [<-|Hne].
      * rewrite lookup_insert. cbn. rewrite Hd, En. reflexivity.
      * rewrite lookup_insert_ne by exact Hne. apply Hrefs.
  - (* event *)
    apply andb_true_iff in Hl as [Hp Hlr]. apply andb_true_iff in Ha as [Hk Ha].
    apply arun_cons_accepted.
    + cbn [ref_outcome]. rewrite Hfe, (AInv_known _ _ _ _ HI Hk). cbn [negb].
      exact (AInv_parent _ _ _ _ HI Hp).
    + cbn [spec_step]. rewrite astate_eta. exact (IH _ _ _ HI Hnd Hlr Ha Hf).
Qed.

Theorem stream_accepted_of_checks sites evs :
  life_ok [] evs = true -> announced_b sites [] evs = true -> forallb ev_fits evs = true ->
  stream_accepted evs = true.
Proof.
  intros Hl Ha Hf. unfold stream_accepted.
  apply (accepted_of_life sites evs a_init [] []); try assumption; [exact AInv_init | constructor].
Qed.

(** ** the front end's discipline of registrations is what [announced_b] checks *)
Lemma ann_ok_announced_b sites calls : forall known,
  ann_ok known calls -> Forall (reg_ok sites) calls ->
  announced_b sites (map cmid known) (map (sender_event cmid sites) calls) = true.
Proof.
  induction calls as [|c r IH]; intros known Ha Hr; [reflexivity|].
  inversion Hr as [|? ? Hc Hr']; subst.
  assert (Huse : forall cs, uses c cs -> In cs known -> mem_N (cmid cs) (map cmid known) = true).
  { intros cs _ Hin. apply mem_N_spec. apply in_map. exact Hin. }
  destruct c; cbn [ann_ok] in Ha; cbn [map sender_event announced_b];
    try (destruct Ha as [_ Ha]; exact (IH known Ha Hr')).
  - (* register *)
    cbn [reg_ok] in Hc. unfold cmid at 1 2. rewrite Nat2N.id.
    apply Nat.ltb_lt in Hc. rewrite Hc. rewrite (proj2 (cs_data_eqb_spec _ _) eq_refl). cbn [andb].
    exact (IH (cs :: known) Ha Hr').
  - destruct Ha as [Hu Ha]. rewrite (Huse cs eq_refl (Hu cs eq_refl)). exact (IH known Ha Hr').
  - destruct Ha as [Hu Ha]. rewrite (Huse cs eq_refl (Hu cs eq_refl)). exact (IH known Ha Hr').
Qed.

(** * The sequential judge *)
Lemma sender_hyp_parts start p :
  sender_hyp start p = true -> wf_prog_b p = true /\ 1 <= start /\ start < U32.
Proof. unfold sender_hyp. rewrite !andb_true_iff, N.leb_le, N.ltb_lt. tauto. Qed.

(** outside the known class every id handed out is below [2^32] *)
Lemma no_wrap_bound start p :
  1 <= start -> start < U32 -> prog_wraps start p = false -> start + spans_created (p_ops p) <= U32.
Proof.
  intros H1 H2 H. unfold prog_wraps, known_id_wrap in H. apply andb_false_iff in H.
  rewrite N.ltb_ge, N.leb_gt in H. rewrite U32_val in *. lia.
Qed.

(** the model's run of a program in scope, outside the known class *)
Theorem model_run_closed start p :
  sender_hyp start p = true -> prog_wraps start p = false ->
  snd (front_run (sender_alloc_from start) all_enabled p) = false
  /\ op_calls (fst (front_run (sender_alloc_from start) all_enabled p))
     = wcalls start (p_sites p) [] (p_ops p)
  /\ Forall (reg_ok (p_sites p)) (fst (front_run (sender_alloc_from start) all_enabled p))
  /\ exists st, sym_run false p = Some st.
Proof.
  intros Hh Hw. destruct (sender_hyp_parts _ _ Hh) as [Hwf [Hs1 Hs2]].
  pose proof (no_wrap_bound _ _ Hs1 Hs2 Hw) as Hb.
  destruct (wf_prog_sym_run p Hwf) as [st Hst]. unfold sym_run in Hst.
  destruct (front_steps_wf start (p_sites p) (p_ops p) sym_init st front_init Hs1 Hst (FInvS_init start))
    as [Hp [Hc Hr]]; [cbn [n_spans sym_init ss_spans List.length]; lia|].
  unfold front_run. split; [exact Hp|]. split; [exact Hc|]. split; [exact Hr|].
  exists st. exact Hst.
Qed.

(** the conjuncts of [sender_ok] that only read the non-announcement events *)
Lemma checks_of_op_events start p st evs :
  1 <= start -> start + spans_created (p_ops p) <= U32 ->
  sym_run false p = Some st ->
  op_events evs = wevents start (p_sites p) [] (p_ops p) ->
  ids_ok evs = true /\ life_ok [] evs = true /\ forallb ev_fits evs = true
  /\ faithful (p_sites p) (new_span_ids evs) [] (p_ops p) (op_events evs) = true.
Proof.
  intros Hs Hb Hst Hop. unfold sym_run in Hst.
  assert (Hids : new_span_ids evs = map (idx start) (seq 0 (nspans (p_ops p)))).
  { rewrite <- new_span_ids_op_events, Hop, wevents_ids. reflexivity. }
  split; [|split; [|split]].
  - unfold ids_ok. rewrite Hids. apply andb_true_iff. split.
    + apply nodup_N_spec. apply FinFun.Injective_map_NoDup; [|apply List.seq_NoDup].
      intros a b. apply idx_inj.
    + apply forallb_forall. intros id Hin. apply in_map_iff in Hin as [k [<- _]].
      apply negb_true_iff, N.eqb_neq. unfold idx. lia.
  - rewrite <- life_ok_op_events, Hop.
    exact (wevents_life start (p_sites p) (p_ops p) sym_init st [] Hst (LInv_init start)).
  - rewrite <- ev_fits_op_events, Hop. exact (wevents_fit start (p_sites p) (p_ops p) sym_init st Hst).
  - rewrite Hop. apply (wevents_faithful start (p_sites p) _ (p_ops p) sym_init st Hst).
    intros k Hk. cbn [n_spans sym_init ss_spans List.length Nat.add] in Hk.
    rewrite Hids, nth_error_map, (nth_error_nth' _ O) by (rewrite seq_length; exact Hk).
    rewrite seq_nth by exact Hk. reflexivity.
Qed.

(** ** every observation the correspondence check accepts passes the executable statement.
    [sender_corr] pins down the calls and events other than registrations / announcements and the
    panic flag; the three remaining hypotheses are the conjuncts of [sender_ok] about the parts
    it leaves open (the implementation may announce a call site earlier than the model, and
    the log and the stream must be matched at these positions too). *)
Theorem sender_ok_of_corr start p o :
  sender_hyp start p = true -> prog_wraps start p = false ->
  sender_corr start p o = true ->
  zip_all (call_event_match (p_sites p)) (so_calls o) (so_events o) = true ->
  (so_foreign_calls o =? so_foreign_events o) = true ->
  announced_b (p_sites p) [] (so_events o) = true ->
  sender_ok p o = true.
Proof.
  intros Hh Hw Hc Hz Hf Ha. destruct (sender_hyp_parts _ _ Hh) as [Hwf [Hs1 Hs2]].
  pose proof (no_wrap_bound _ _ Hs1 Hs2 Hw) as Hb.
  destruct (model_run_closed start p Hh Hw) as [Hp [Hcalls [_ [st Hst]]]].
  unfold sender_corr in Hc. revert Hc Hp Hcalls.
  destruct (front_run (sender_alloc_from start) all_enabled p) as [calls b]. cbn [fst snd].
  intros Hc Hp Hcalls.
  apply andb_true_iff in Hc as [Hc _]. apply andb_true_iff in Hc as [Hc Hpan].
  apply andb_true_iff in Hc as [_ Hevs].
  apply (list_eqb_spec event_eqb event_eqb_spec) in Hevs. apply Bool.eqb_prop in Hpan.
  rewrite op_events_map, Hcalls in Hevs. fold (wevents start (p_sites p) [] (p_ops p)) in Hevs.
  destruct (checks_of_op_events start p st (so_events o) Hs1 Hb Hst (eq_sym Hevs)) as [Hids [Hlife [Hfit Hfaith]]].
  unfold sender_ok. rewrite <- Hpan, Hp, Hz, Hf, Ha, Hids, Hlife, Hfaith.
  rewrite (stream_accepted_of_checks (p_sites p) _ Hlife Ha Hfit). reflexivity.
Qed.

Corollary judge_sender_of_corr start p o :
  sender_hyp start p = true -> prog_wraps start p = false ->
  sender_corr start p o = true ->
  zip_all (call_event_match (p_sites p)) (so_calls o) (so_events o) = true ->
  (so_foreign_calls o =? so_foreign_events o) = true ->
  announced_b (p_sites p) [] (so_events o) = true ->
  judge_sender start p o = Agree.
Proof.
  intros Hh Hw Hc Hz Hf Ha. unfold judge_sender.
  rewrite Hh, (sender_ok_of_corr start p o Hh Hw Hc Hz Hf Ha), Hc. reflexivity.
Qed.

(** inside the known class an accepted correspondence is never a [PropFail] or a [Mismatch] *)
Theorem judge_sender_corr_known start p o :
  sender_hyp start p = true -> prog_wraps start p = true -> sender_corr start p o = true ->
  judge_sender start p o = Agree \/ judge_sender start p o = KnownF 1.
Proof.
  intros Hh Hw Hc. unfold judge_sender. rewrite Hh, Hw, Hc. cbn [negb andb].
  destruct (sender_ok p o); [left | right]; reflexivity.
Qed.

(** ** the model's own observation *)
Lemma zip_all_model sites calls :
  zip_all (call_event_match sites) calls (map (sender_event cmid sites) calls) = true.
Proof.
  induction calls as [|c r IH]; [reflexivity|]. cbn [map zip_all].
  rewrite (proj2 (call_event_match_spec sites c _) eq_refl), IH. reflexivity.
Qed.

Theorem sender_ok_model start p :
  sender_hyp start p = true -> prog_wraps start p = false -> sender_ok p (model_sobs start p) = true.
Proof.
  intros Hh Hw. apply (sender_ok_of_corr start p _ Hh Hw (sender_corr_model start p)).
  - apply zip_all_model.
  - reflexivity.
  - destruct (model_run_closed start p Hh Hw) as [_ [_ [Hr _]]].
    unfold model_sobs. cbn [so_events].
    apply (ann_ok_announced_b (p_sites p) _ [] (front_steps_ann _ _ _ _ front_init) Hr).
Qed.

Theorem judge_sender_model start p :
  sender_hyp start p = true -> prog_wraps start p = false ->
  judge_sender start p (model_sobs start p) = Agree.
Proof.
  intros Hh Hw. unfold judge_sender.
  rewrite Hh, (sender_ok_model start p Hh Hw), sender_corr_model. reflexivity.
Qed.

Theorem judge_sender_model_known start p :
  sender_hyp start p = true -> prog_wraps start p = true ->
  judge_sender start p (model_sobs start p) = Agree \/ judge_sender start p (model_sobs start p) = KnownF 1.
Proof. intros Hh Hw. exact (judge_sender_corr_known start p _ Hh Hw (sender_corr_model start p)). Qed.

(** the second verdict does occur: the run of [judge_examples_agree] whose second allocation is the
    wrapping one ([NewSpan] with id 0, the guest's call panics) *)
Example judge_sender_model_known_witness :
  prog_wraps 4294967295 ex_reentrant = true
  /\ judge_sender 4294967295 ex_reentrant (model_sobs 4294967295 ex_reentrant) = KnownF 1.
Proof. vm_compute. split; reflexivity. Qed.

(** the three side conditions of [sender_ok_of_corr] are independent of the correspondence: a log
    without the registrations, an announcement (with its registration) after the use, differing
    foreign counts all correspond to the model and are [PropFail] *)
Definition swap2 {A} (l : list A) : list A := match l with a :: b :: r => b :: a :: r | _ => l end.
Example side_conditions_independent :
  let m := model_sobs 1 ex_fib in
  let o1 := mk_sobs (op_calls (so_calls m)) (so_events m) false 0 0 in
  let o2 := mk_sobs (swap2 (so_calls m)) (swap2 (so_events m)) false 0 0 in
  let o3 := mk_sobs (so_calls m) (so_events m) false 1 0 in
  (sender_corr 1 ex_fib o1 = true /\ announced_b ex_sites [] (so_events o1) = true
   /\ judge_sender 1 ex_fib o1 = PropFail)
  /\ (sender_corr 1 ex_fib o2 = true /\ zip_all (call_event_match ex_sites) (so_calls o2) (so_events o2) = true
      /\ judge_sender 1 ex_fib o2 = PropFail)
  /\ (sender_corr 1 ex_fib o3 = true /\ zip_all (call_event_match ex_sites) (so_calls o3) (so_events o3) = true
      /\ announced_b ex_sites [] (so_events o3) = true /\ judge_sender 1 ex_fib o3 = PropFail).
Proof. vm_compute. repeat split. Qed.

(** * The concurrent judge: the id-related conjuncts of [conc_ok] *)
Lemma conc_hyp_parts start counts sched :
  conc_hyp start counts sched = true ->
  1 <= start /\ start - 1 + N.of_nat (List.length sched) <= U32 - 1
  /\ (forall t, (t < List.length counts)%nat -> count_nat t sched = nth t counts O).
Proof.
  unfold conc_hyp. rewrite !andb_true_iff, N.leb_le, N.leb_le. intros [[[H1 H2] _] H4].
  split; [exact H1|]. split; [exact H2|]. intros t Ht.
  rewrite forallb_forall in H4. apply Nat.eqb_eq. apply H4. apply in_seq. lia.
Qed.

Lemma count_occ_count_nat sched t : count_occ Nat.eq_dec sched t = count_nat t sched.
Proof.
  unfold count_nat. induction sched as [|x r IH]; [reflexivity|]. cbn [count_occ List.filter].
  destruct (Nat.eq_dec x t) as [->|Hne].
  - rewrite Nat.eqb_refl. cbn [List.length]. rewrite IH. reflexivity.
  - destruct (Nat.eqb_spec t x) as [E|_]; [exfalso; apply Hne; symmetry; exact E | exact IH].
Qed.

Lemma map_nth_seq (l : list nat) : map (fun i => nth i l O) (seq 0 (List.length l)) = l.
Proof.
  induction l as [|a r IH]; [reflexivity|]. cbn [List.length seq map nth]. f_equal.
  rewrite <- seq_shift, map_map. exact IH.
Qed.

Lemma ids_of_app t a b : ids_of t (a ++ b) = ids_of t a ++ ids_of t b.
Proof. unfold ids_of. rewrite List.filter_app, map_app. reflexivity. Qed.

Lemma nodup_app {A} (a b : list A) :
  List.NoDup a -> List.NoDup b -> (forall x, In x a -> ~ In x b) -> List.NoDup (a ++ b).
Proof.
  induction a as [|x a IH]; intros Ha Hb Hd; [exact Hb|]. cbn [app].
  inversion Ha as [|? ? Hni Ha']; subst. constructor.
  - intros Hin. apply in_app_or in Hin as [Hin|Hin]; [exact (Hni Hin)|]. exact (Hd x (or_introl eq_refl) Hin).
  - apply IH; [exact Ha' | exact Hb|]. intros y Hy. apply Hd. right. exact Hy.
Qed.

Lemma nodup_app_r {A} (a b : list A) : List.NoDup (a ++ b) -> List.NoDup b.
Proof.
  induction a as [|x a IH]; intros H; [exact H|]. cbn [app] in H.
  inversion H as [|? ? _ H']; subst. exact (IH H').
Qed.

Lemma nodup_map_filter {A B} (f : A -> B) (g : A -> bool) (l : list A) :
  List.NoDup (map f l) -> List.NoDup (map f (List.filter g l)).
Proof.
  induction l as [|x l IH]; intros H; [constructor|]. cbn [map] in H.
  inversion H as [|? ? Hni Hnd]; subst. cbn [List.filter]. destruct (g x); [|exact (IH Hnd)].
  cbn [map]. constructor; [|exact (IH Hnd)]. intros Hin. apply Hni.
  apply in_map_iff in Hin as [y [E Hy]]. apply filter_In in Hy as [Hy _].
  apply in_map_iff. exists y. split; [exact E | exact Hy].
Qed.

(** the ids of all threads, listed thread by thread, are pairwise distinct *)
Lemma concat_ids_nodup out ts :
  List.NoDup ts -> List.NoDup (map snd out) ->
  (forall t1 t2 id, In id (ids_of t1 out) -> In id (ids_of t2 out) -> t1 = t2) ->
  List.NoDup (concat (map (fun t => ids_of t out) ts)).
Proof.
  intros Hts Hnd Hdis. induction ts as [|t ts IH]; [constructor|].
  inversion Hts as [|? ? Hni Hts']; subst. cbn [map concat]. apply nodup_app.
  - unfold ids_of. apply nodup_map_filter. exact Hnd.
  - exact (IH Hts').
  - intros id H1 H2. apply in_concat in H2 as [l [Hl H2]]. apply in_map_iff in Hl as [t' [<- Ht']].
    rewrite (Hdis t t' id H1 H2) in Hni. exact (Hni Ht').
Qed.

(** a sender at [start] is a fresh sender after [start - 1] allocations (by whichever thread):
    its schedule is the tail of a schedule of a fresh sender *)
Lemma crun_from_suffix start sched :
  1 <= start -> start < U32 ->
  crun (repeat O (N.to_nat (start - 1)) ++ sched)
  = crun (repeat O (N.to_nat (start - 1))) ++ crun_from start sched.
Proof.
  intros H1 H2. set (pre := repeat O (N.to_nat (start - 1))).
  unfold crun. unfold crun_from at 1 2. rewrite fold_left_app.
  assert (H0 : c_ctr (mk_c 1 []) < U32) by (cbn [c_ctr]; rewrite U32_val; lia).
  destruct (fold_cstep pre (mk_c 1 []) H0) as [Hc _]. cbn [c_ctr] in Hc.
  assert (Hstart : c_ctr (fold_left cstep pre (mk_c 1 [])) = start).
  { rewrite Hc. unfold pre. rewrite repeat_length, N2Nat.id.
    replace (1 + (start - 1)) with start by lia. apply N.mod_small. exact H2. }
  assert (H0' : c_ctr (fold_left cstep pre (mk_c 1 [])) < U32) by (rewrite Hstart; exact H2).
  destruct (fold_cstep sched _ H0') as [_ Ho]. rewrite Ho, Hstart.
  rewrite (crun_from_closed start sched H2). reflexivity.
Qed.

(** the facts of [ids_fresh_interleaved_proof] for a sender at [start] *)
Lemma crun_from_fresh start sched :
  1 <= start -> start - 1 + N.of_nat (List.length sched) <= U32 - 1 ->
  let out := crun_from start sched in
  List.NoDup (map snd out)
  /\ Forall (fun id => id <> 0 /\ id < U32) (map snd out)
  /\ map fst out = sched
  /\ (forall t1 t2 id, In id (ids_of t1 out) -> In id (ids_of t2 out) -> t1 = t2).
Proof.
  intros H1 Hb out. subst out. destruct sched as [|t0 r].
  { change (crun_from start []) with (@nil (nat * N)).
    split; [constructor|]. split; [constructor|]. split; [reflexivity|]. intros t1 t2 id []. }
  set (sched := t0 :: r) in *.
  assert (H2 : start < U32).
  { subst sched. cbn [List.length] in Hb. rewrite U32_val in *. lia. }
  set (pre := repeat O (N.to_nat (start - 1))).
  assert (Hlen : N.of_nat (List.length (pre ++ sched)) <= U32 - 1).
  { rewrite app_length. unfold pre. rewrite repeat_length. lia. }
  destruct (ids_fresh_interleaved_proof (pre ++ sched) Hlen) as [Hnd [Hnz [_ Hdis]]].
  pose proof (crun_from_suffix start sched H1 H2) as Hsuf. fold pre in Hsuf.
  rewrite Hsuf in Hnd, Hnz, Hdis. rewrite map_app in Hnd, Hnz.
  split; [exact (nodup_app_r _ _ Hnd)|].
  split; [exact (proj2 (proj1 (Forall_app _ _ _) Hnz))|]. split.
  - pose proof (crun_tids (pre ++ sched)) as Ht. rewrite Hsuf, map_app, (crun_tids pre) in Ht.
    exact (app_inv_head _ _ _ Ht).
  - intros t1 t2 id Hi1 Hi2. apply (Hdis t1 t2 id); rewrite ids_of_app; apply in_or_app; right; assumption.
Qed.

(** the ids the threads got back are pairwise distinct (also across threads) and non-zero, and
    every thread got one id per span it creates.  The other conjuncts of [conc_ok] ([co_event_ids],
    [co_stream], [co_stray]) are observations of the harness that the model does not produce. *)
Theorem conc_ids_ok start counts sched o :
  conc_hyp start counts sched = true -> conc_corr start counts sched o = true ->
  nodup_N (List.concat (co_ids o)) = true
  /\ forallb (fun id => negb (id =? 0)) (List.concat (co_ids o)) = true
  /\ list_eqb Nat.eqb (map (@List.length N) (co_ids o)) counts = true.
Proof.
  intros Hh Hc. destruct (conc_hyp_parts _ _ _ Hh) as [H1 [Hb Hcnt]].
  unfold conc_corr in Hc. apply (list_eqb_spec (list_eqb N.eqb) (list_eqb_spec N.eqb N.eqb_eq)) in Hc.
  destruct (crun_from_fresh start sched H1 Hb) as [Hnd [Hnz [Hfst Hdis]]].
  set (out := crun_from start sched) in *. rewrite <- Hc. split; [|split].
  - apply nodup_N_spec. apply concat_ids_nodup; [apply List.seq_NoDup | exact Hnd | exact Hdis].
  - apply forallb_forall. intros id Hin. apply in_concat in Hin as [l [Hl Hin]].
    apply in_map_iff in Hl as [t [<- _]]. apply ids_of_in in Hin.
    rewrite List.Forall_forall in Hnz. apply negb_true_iff, N.eqb_neq.
    apply (Hnz id). apply in_map_iff. exists (t, id). split; [reflexivity | exact Hin].
  - apply (list_eqb_spec Nat.eqb Nat.eqb_eq). rewrite map_map.
    rewrite <- (map_nth_seq counts) at 2. apply map_ext_in. intros t Ht. apply in_seq in Ht.
    rewrite ids_of_length, Hfst, count_occ_count_nat. apply Hcnt. lia.
Qed.

(** with the harness's own observations as hypotheses the concurrent case is judged [Agree] *)
Corollary judge_conc_of_corr start counts sched busy o :
  conc_hyp start counts sched = true -> conc_corr start counts sched o = true ->
  nodup_N (co_event_ids o) = true ->
  Nat.eqb (List.length (co_event_ids o)) (List.length (List.concat (co_ids o))) = true ->
  forallb (fun id => mem_N id (List.concat (co_ids o))) (co_event_ids o) = true ->
  list_eqb (list_eqb (pair_eqb N.eqb N.eqb))
    (map (fun tn => conc_thread_expected busy (fst tn) (snd tn)) (combine (seq 0 (List.length counts)) counts))
    (co_stream o) = true ->
  (co_stray o =? 0) = true ->
  judge_conc start counts sched busy o = Agree.
Proof.
  intros Hh Hc He1 He2 He3 Hs1 Hs2. destruct (conc_ids_ok start counts sched o Hh Hc) as [Hi1 [Hi2 Hi3]].
  unfold judge_conc, judge_of, conc_ok. rewrite Hh, Hc, Hi1, Hi2, Hi3, He1, He2, He3, Hs1, Hs2. reflexivity.
Qed.

(** the closed form of this file is, for a fresh sender, the closed form [spec_events] of
    [sender_run_closed] / [C12_sender_closed_form] on well-formed programs *)
Theorem wcalls_fresh_is_spec p :
  sender_hyp 1 p = true -> prog_wraps 1 p = false ->
  map Some (wevents 1 (p_sites p) [] (p_ops p)) = spec_events cmid (p_sites p) [] (p_ops p).
Proof.
  intros Hh Hw. destruct (sender_hyp_parts _ _ Hh) as [Hwf _].
  destruct (model_run_closed 1 p Hh Hw) as [_ [Hc _]].
  destruct (sender_one_per_op_proof cmid p Hwf (proj1 (prog_wraps_false p) Hw)) as [_ [Hs _]].
  rewrite <- Hs. f_equal. unfold sender_run, sender_run_from, wevents. rewrite op_events_map, Hc. reflexivity.
Qed.

Print Assumptions sender_ok_model.
Print Assumptions judge_sender_model.
Print Assumptions judge_sender_model_known.
Print Assumptions sender_ok_of_corr.
Print Assumptions judge_sender_of_corr.
Print Assumptions judge_sender_corr_known.
Print Assumptions conc_ids_ok.
Print Assumptions judge_conc_of_corr.
Print Assumptions wcalls_fresh_is_spec.
