(** The judges of C05 and C16 on the model's own output: an implementation that does what the model
    does is judged [Agree] on every input within the hypotheses, so a [PropFail] is impossible without
    a [Mismatch]; and what [Agree] says about the implementation's storage. *)
From TT Require Export Judge.C16.
From TT Require Import Capture.LayerProofs Guest.ProgramProofs.

Lemma option_cstorage_eqb_refl x : option_eqb cstorage_eqb x x = true.
Proof. apply (option_eqb_spec _ cstorage_eqb_spec). reflexivity. Qed.

Theorem judge_capture_ok_on_model p ids f :
  wf_prog_b p = true -> single_threaded p = true ->
  judge_capture p ids f (storage_of (layer_run (feval f) ids p)) = Agree.
Proof.
  intros Hwf Hst. unfold judge_capture, judge_of. rewrite Hwf, Hst. cbn [andb negb].
  rewrite (capture_refines_spec (feval f) ids p (wf_prog_stale_of_wf p Hwf)).
  rewrite option_cstorage_eqb_refl. reflexivity.
Qed.

Theorem judge_capture_agree p ids f impl :
  judge_capture p ids f impl = Agree ->
  impl = Some (spec_storage (feval f) ids p) /\ impl = storage_of (layer_run (feval f) ids p).
Proof.
  unfold judge_capture, judge_of. destruct (wf_prog_b p && single_threaded p); [|discriminate]. cbn [negb].
  destruct (option_eqb cstorage_eqb (Some (spec_storage (feval f) ids p)) impl) eqn:E1; [|discriminate]. cbn [negb].
  destruct (option_eqb cstorage_eqb (storage_of (layer_run (feval f) ids p)) impl) eqn:E2; [|discriminate].
  intros _. apply (option_eqb_spec _ cstorage_eqb_spec) in E1, E2. split; congruence.
Qed.

(** ** stacks *)
Lemma mk_stack_from_fresh k specs : stack_fresh (mk_stack_from k specs) = true.
Proof. revert k; induction specs as [|[f|] r IH]; intros k; cbn; auto. Qed.

Lemma mk_stack_from_keys k specs : forall x, In x (stack_keys (mk_stack_from k specs)) -> k <= x.
Proof.
  revert k; induction specs as [|[f|] r IH]; intros k x; cbn; [tauto | |apply IH].
  intros [<-|H]; [lia|]. specialize (IH (k + 1) x H). lia.
Qed.

Lemma mk_stack_from_nodup k specs : NoDup (stack_keys (mk_stack_from k specs)).
Proof.
  revert k; induction specs as [|[f|] r IH]; intros k; cbn; [constructor | | apply IH].
  constructor; [|apply IH]. intros H. apply mk_stack_from_keys in H. lia.
Qed.

Lemma mk_stack_from_filters k specs : stack_filters (mk_stack_from k specs) = map feval (spec_filters specs).
Proof. revert k; induction specs as [|[f|] r IH]; intros k; cbn; [reflexivity | rewrite IH; reflexivity | apply IH]. Qed.

Lemma all2_map_refl {A B} (g : A -> B) (e : A -> B -> bool) l : (forall a, e a (g a) = true) -> all2 e l (map g l) = true.
Proof. intros H. induction l as [|a l IH]; cbn; [reflexivity|]. rewrite H, IH. reflexivity. Qed.

Theorem judge_stack_ok_on_model p ids specs :
  wf_prog_stale_b p = true -> single_threaded p = true ->
  judge_stack p ids specs (stack_result (stack_run ids p (mk_stack specs)))
              (map (fun f => storage_of (layer_run (feval f) ids p)) (spec_filters specs)) = Agree.
Proof.
  intros Hwf Hst. unfold judge_stack, judge_of. rewrite Hwf, Hst. cbn [andb negb].
  destruct (stacks_refine ids p Hwf (mk_stack specs) (mk_stack_from_fresh 0 specs) (mk_stack_from_nodup 0 specs))
    as (r & ls' & E & Hs & _ & _).
  rewrite E. cbn [stack_result]. rewrite Hs. unfold mk_stack. rewrite mk_stack_from_filters, map_map.
  assert (Hsingle : forall f, storage_of (layer_run (feval f) ids p) = Some (spec_storage (feval f) ids p))
    by (intros f; apply capture_refines_spec; exact Hwf).
  assert (A1 : all2 (fun st s => option_eqb cstorage_eqb (Some st) s)
                 (map (fun x => spec_storage (feval x) ids p) (spec_filters specs))
                 (map (fun f => storage_of (layer_run (feval f) ids p)) (spec_filters specs)) = true).
  { induction (spec_filters specs) as [|f l IH]; cbn [map all2]; [reflexivity|]. rewrite Hsingle. cbn [option_eqb].
    rewrite (proj2 (cstorage_eqb_spec _ _) eq_refl). exact IH. }
  assert (A2 : all2 (fun f s => option_eqb cstorage_eqb (Some (spec_storage (feval f) ids p)) s)
                 (spec_filters specs) (map (fun f => storage_of (layer_run (feval f) ids p)) (spec_filters specs)) = true).
  { apply all2_map_refl. intros f. rewrite Hsingle. apply option_cstorage_eqb_refl. }
  assert (A3 : all2 (fun f s => option_eqb cstorage_eqb (storage_of (layer_run (feval f) ids p)) s)
                 (spec_filters specs) (map (fun f => storage_of (layer_run (feval f) ids p)) (spec_filters specs)) = true).
  { apply all2_map_refl. intros f. apply option_cstorage_eqb_refl. }
  rewrite A1, A2, A3. cbn [andb negb].
  rewrite (proj2 (option_eqb_spec _ (list_eqb_spec _ cstorage_eqb_spec) _ _) eq_refl). reflexivity.
Qed.
