(** Correspondence judge for C10 (evaluated by [vm_compute] on cases written by the harness).

    A schedule case = the hash regime forced on the real arena ([HASH_OVERRIDE] hook), the announcement
    lists of the threads, the schedule the driver executed over REAL threads (a turn token handed out
    at the yield points "metadata:before_read" / "metadata:before_write": one entry = one critical
    section; an entry naming a thread that has finished is skipped by the driver as by the model), and
    what the implementation made observable: the entries actually executed with the phase the thread
    was about to enter, and per thread and announcement the address held by the receiver
    ([verif_snapshot], numbered by first occurrence, thread after thread), its content, and whether
    [register_callsite] was called during that announcement; the deltas of the leak counters.

    [hyp]:  the schedule gives every thread two turns per announcement ([C10_conc_fair_completes]: it
            then runs all threads to completion).
    [corr]: the model ([ArenaConc.run_trace]) on the same schedule with the same hash executes the same
            entries in the same phases and produces the same addresses (same numbering), contents,
            flags and leak counts.
    [ok]:   the property on the implementation's observations and the announcement lists only: no
            hang / panic / error, one result per announcement, content = the description announced,
            same address iff same description over all threads and positions, exactly one registration
            per distinct description, as many leaked Metadata as distinct descriptions.

    A stress case (free-running threads, no schedule) is judged by [ok] alone. *)
From TT Require Export Tunnel.ArenaConc.
From TT Require Import Tunnel.TypesProofs.
From stdpp Require Import gmap.
Local Open Scope N_scope.

(** ** the hash functions the harness installs (mirror of [c10.rs::hash_override]) *)
Inductive hmode :=
| HConst (c : N)                         (* every description of the case in one bucket *)
| HMod2 (base : N)                       (* base + (number of fields mod 2) *)
| HTable (tbl : list (cs_data * N)).     (* the values of the code's own DefaultHasher, per description *)

Definition hash_of (mode : hmode) (d : cs_data) : N :=
  match mode with
  | HConst c => c
  | HMod2 base => base + N.of_nat (List.length (cs_fields d)) mod 2
  | HTable tbl =>
      match List.find (fun kv => cs_data_eqb d (fst kv)) tbl with
      | Some kv => snd kv
      | None => 0
      end
  end.

(** ** what the implementation made observable *)
Record iobs := mk_iobs {
  io_fault : N;
    (* 0 = none; 1 = watchdog (a thread did not reach its next yield point / the end within 5 s: hang);
       2 = a worker thread panicked; 3 = [try_receive] returned an error; 4 = a thread still had work
       after the schedule; 5 = not run (an earlier case of this process hung and wedged the arena) *)
  io_trace : list (N * N);                       (* executed entries: thread, phase (1 read / 2 write) *)
  io_res : list (list (N * cs_data * bool));     (* per thread, per announcement: address, content, registered *)
  io_dm : N;                                     (* delta of LEAKED_METADATA over the case *)
  io_ds : N }.                                   (* delta of LEAKED_STRINGS over the case *)

(** ** first-occurrence numbering of addresses, thread after thread (what the harness does with the
    real addresses) *)
Fixpoint index_of (p : N) (tbl : list N) (k : N) : option N :=
  match tbl with
  | [] => None
  | q :: r => if N.eqb p q then Some k else index_of p r (k + 1)
  end.
Definition canon_one (tbl : list N) (p : N) : list N * N :=
  match index_of p tbl 0 with
  | Some k => (tbl, k)
  | None => (tbl ++ [p], N.of_nat (List.length tbl))
  end.
Fixpoint canon_list (tbl : list N) (l : list (N * bool)) : list N * list (N * bool) :=
  match l with
  | [] => (tbl, [])
  | (p, b) :: r =>
      let '(tbl1, k) := canon_one tbl p in
      let '(tbl2, r') := canon_list tbl1 r in
      (tbl2, (k, b) :: r')
  end.
Fixpoint canon_all (tbl : list N) (ls : list (list (N * bool))) : list (list (N * bool)) :=
  match ls with
  | [] => []
  | l :: r => let '(tbl1, l') := canon_list tbl l in l' :: canon_all tbl1 r
  end.

Definition model_res (st : cstate) : list (list (N * bool)) :=
  canon_all [] (map (fun t => map (fun r => (m_ptr (fst r), snd r)) (t_res t)) (c_threads st)).
Definition model_content (st : cstate) : list (list cs_data) :=
  map (fun t => map (fun r => to_data (fst r)) (t_res t)) (c_threads st).

Definition pb_eqb : N * bool -> N * bool -> bool := pair_eqb N.eqb Bool.eqb.
Definition res_eqb : list (list (N * bool)) -> list (list (N * bool)) -> bool := list_eqb (list_eqb pb_eqb).
Definition trace_eqb : list (N * N) -> list (N * N) -> bool := list_eqb (pair_eqb N.eqb N.eqb).
Definition model_trace (tr : list (nat * N)) : list (N * N) := map (fun x => (N.of_nat (fst x), snd x)) tr.
Definition contents_eqb : list (list cs_data) -> list (list cs_data) -> bool :=
  list_eqb (list_eqb cs_data_eqb).

Definition impl_res (i : iobs) : list (list (N * bool)) :=
  map (map (fun x : N * cs_data * bool => (fst (fst x), snd x))) (io_res i).
Definition impl_content (i : iobs) : list (list cs_data) :=
  map (map (fun x : N * cs_data * bool => snd (fst x))) (io_res i).

Definition corr (mode : hmode) (lists : list (list cs_data)) (sch : list nat) (i : iobs) : bool :=
  match run_trace (hash_of mode) (conc_init lists) sch with
  | Some (st, tr) =>
      trace_eqb (model_trace tr) (io_trace i)
      && res_eqb (model_res st) (impl_res i)
      && contents_eqb (model_content st) (impl_content i)
      && N.eqb (io_dm i) (N.of_nat (List.length (heap (c_arena st))))
      && N.eqb (io_ds i) (N.of_nat (List.length (strings (c_arena st))))
  | None => false
  end.

(** ** the property on the implementation's own observations *)

(** (description announced, (address, content, registered)) for every announcement of every thread *)
Fixpoint zip_obs (l : list cs_data) (r : list (N * cs_data * bool)) : list (cs_data * (N * cs_data * bool)) :=
  match l, r with
  | d :: l', x :: r' => (d, x) :: zip_obs l' r'
  | _, _ => []
  end.
Fixpoint flat_obs (lists : list (list cs_data)) (res : list (list (N * cs_data * bool)))
  : list (cs_data * (N * cs_data * bool)) :=
  match lists, res with
  | l :: lists', r :: res' => zip_obs l r ++ flat_obs lists' res'
  | _, _ => []
  end.

Definition o_desc (x : cs_data * (N * cs_data * bool)) : cs_data := fst x.
Definition o_ptr (x : cs_data * (N * cs_data * bool)) : N := fst (fst (snd x)).
Definition o_content (x : cs_data * (N * cs_data * bool)) : cs_data := snd (fst (snd x)).
Definition o_new (x : cs_data * (N * cs_data * bool)) : bool := snd (snd x).

(** one result per announcement *)
Definition shape_ok (lists : list (list cs_data)) (res : list (list (N * cs_data * bool))) : bool :=
  list_eqb Nat.eqb (map (@List.length _) lists) (map (@List.length _) res).

Definition content_ok (fl : list (cs_data * (N * cs_data * bool))) : bool :=
  forallb (fun x => cs_data_eqb (o_desc x) (o_content x)) fl.
(** same address iff same description, over all threads and positions *)
Definition identity_ok (fl : list (cs_data * (N * cs_data * bool))) : bool :=
  forallb (fun x => forallb (fun y => Bool.eqb (N.eqb (o_ptr x) (o_ptr y)) (cs_data_eqb (o_desc x) (o_desc y))) fl) fl.
(** exactly one registration per distinct description *)
Definition registrations (fl : list (cs_data * (N * cs_data * bool))) (d : cs_data) : nat :=
  List.length (List.filter (fun x => cs_data_eqb (o_desc x) d && o_new x) fl).
Definition once_ok (lists : list (list cs_data)) (fl : list (cs_data * (N * cs_data * bool))) : bool :=
  forallb (fun d => Nat.eqb (registrations fl d) 1) (distinct_descs (List.concat lists)).

Definition ok (lists : list (list cs_data)) (i : iobs) : bool :=
  let fl := flat_obs lists (io_res i) in
  let distinct := distinct_descs (List.concat lists) in
  N.eqb (io_fault i) 0
  && shape_ok lists (io_res i)
  && content_ok fl
  && identity_ok fl
  && once_ok lists fl
  && N.eqb (io_dm i) (N.of_nat (List.length distinct))
  && (io_ds i <=? N.of_nat (List.length (distinct_strs [] (strs_of_all distinct)))).

Definition hyp (lists : list (list cs_data)) (sch : list nat) : bool := enough_turns lists sch.

(** the harness prints thread numbers as [N] *)
Definition judge_sched (mode : hmode) (lists : list (list cs_data)) (schN : list N) (i : iobs) : verdict :=
  let sch := map N.to_nat schN in
  judge_of (hyp lists sch) (corr mode lists sch i) (ok lists i).

(** free-running threads: there is no schedule to compare with *)
Definition judge_stress (lists : list (list cs_data)) (i : iobs) : verdict :=
  judge_of true true (ok lists i).

(** ** the comparisons are not vacuous *)

Lemma pb_eqb_spec a b : pb_eqb a b = true <-> a = b.
Proof. apply pair_eqb_spec; [apply N.eqb_eq | apply Bool.eqb_true_iff]. Qed.
Lemma res_eqb_spec a b : res_eqb a b = true <-> a = b.
Proof. apply list_eqb_spec, list_eqb_spec, pb_eqb_spec. Qed.
Lemma trace_eqb_spec a b : trace_eqb a b = true <-> a = b.
Proof. apply list_eqb_spec, pair_eqb_spec; apply N.eqb_eq. Qed.
Lemma contents_eqb_spec a b : contents_eqb a b = true <-> a = b.
Proof. apply list_eqb_spec, list_eqb_spec, cs_data_eqb_spec. Qed.

Lemma shape_ok_spec lists res :
  shape_ok lists res = true <-> map (@List.length _) lists = map (@List.length _) res.
Proof. apply list_eqb_spec, Nat.eqb_eq. Qed.

Lemma corr_spec mode lists sch i : corr mode lists sch i = true <->
  exists st tr, run_trace (hash_of mode) (conc_init lists) sch = Some (st, tr)
    /\ model_trace tr = io_trace i /\ model_res st = impl_res i /\ model_content st = impl_content i
    /\ io_dm i = N.of_nat (List.length (heap (c_arena st)))
    /\ io_ds i = N.of_nat (List.length (strings (c_arena st))).
Proof.
  unfold corr. destruct (run_trace _ _ _) as [[st tr]|].
  - rewrite !andb_true_iff, trace_eqb_spec, res_eqb_spec, contents_eqb_spec, !N.eqb_eq. split.
    + intros [[[[? ?] ?] ?] ?]. eauto 10.
    + intros (? & ? & [= <- <-] & ? & ? & ? & ? & ?). done.
  - split; [done | by intros (? & ? & ? & _)].
Qed.

(** what [ok] says, in logical form *)
Lemma ok_spec lists i : ok lists i = true ->
  io_fault i = 0
  /\ map (@List.length _) lists = map (@List.length _) (io_res i)
  /\ (forall x, x ∈ flat_obs lists (io_res i) -> o_content x = o_desc x)
  /\ (forall x y, x ∈ flat_obs lists (io_res i) -> y ∈ flat_obs lists (io_res i) ->
        (o_ptr x = o_ptr y <-> o_desc x = o_desc y))
  /\ (forall d, d ∈ List.concat lists -> registrations (flat_obs lists (io_res i)) d = 1%nat)
  /\ io_dm i = N.of_nat (List.length (distinct_descs (List.concat lists))).
Proof.
  unfold ok. rewrite !andb_true_iff. intros [[[[[[Hf Hs] Hc] Hi] Ho] Hm] _].
  apply N.eqb_eq in Hf, Hm. apply shape_ok_spec in Hs.
  unfold content_ok, identity_ok, once_ok in *. rewrite forallb_forall in Hc, Hi, Ho.
  split_and!; try done.
  - intros x Hx%elem_of_list_In. symmetry. by apply cs_data_eqb_spec, Hc.
  - intros x y Hx%elem_of_list_In Hy%elem_of_list_In. specialize (Hi x Hx).
    rewrite forallb_forall in Hi. specialize (Hi y Hy). apply Bool.eqb_prop in Hi.
    rewrite <- N.eqb_eq, <- cs_data_eqb_spec, Hi. done.
  - intros d Hd. apply Nat.eqb_eq, Ho, elem_of_list_In.
    unfold distinct_descs. clear -Hd. revert Hd. generalize (List.concat lists) as ds.
    intros ds. assert (forall seen, d ∈ seen \/ d ∈ ds -> d ∈ fold_left seen_add ds seen) as H.
    { induction ds as [|x ds IH]; intros seen [H|H]; cbn [fold_left]; try done.
      - by apply elem_of_nil in H.
      - apply IH. left. unfold seen_add. destruct (seen_new seen x); [apply elem_of_app; by left | done].
      - apply elem_of_cons in H as [->|H]; [|apply IH; by right]. apply IH. left.
        unfold seen_add, seen_new. destruct (existsb (cs_data_eqb x) seen) eqn:E; cbn.
        + apply existsb_exists in E as (y & Hy & ->%cs_data_eqb_spec). by apply elem_of_list_In.
        + apply elem_of_app. right. by apply elem_of_list_singleton. }
    intros Hd. apply H. by right.
Qed.

Lemma judge_sched_agree mode lists schN i :
  judge_sched mode lists schN i = Agree ->
  let sch := map N.to_nat schN in
  hyp lists sch = true /\ corr mode lists sch i = true /\ ok lists i = true.
Proof.
  unfold judge_sched, judge_of. cbv zeta.
  destruct (hyp lists _), (ok lists i), (corr mode lists _ i); cbn; intros H; try discriminate; done.
Qed.
Lemma judge_stress_agree lists i : judge_stress lists i = Agree -> ok lists i = true.
Proof. unfold judge_stress, judge_of. destruct (ok lists i); cbn; intros H; try discriminate; done. Qed.

(** the judge discriminates *)
Section examples.
  Let d1 := mk_cs KSpan "s"%string "c10k_0_0::t"%string LInfo None None (Some 1) ["a"%string].
  Let d2 := mk_cs KSpan "s"%string "c10k_0_0::t"%string LInfo None None (Some 2) ["a"%string].
  Let lists := [[d1; d2]; [d1]].
  Let sch := [0; 1; 0; 1; 0; 0].
  (** both read phases miss; thread 0 allocates d1, thread 1 finds it in the tail; thread 0 goes on *)
  Let good := mk_iobs 0 [(0, 1); (1, 1); (0, 2); (1, 2); (0, 1); (0, 2)]
                      [[(0, d1, true); (1, d2, true)]; [(0, d1, false)]] 2 3.
  Example judge_good : judge_sched (HConst 0) lists sch good = Agree.
  Proof. vm_compute. reflexivity. Qed.
  (** the race lost: both threads allocated and registered d1 *)
  Example judge_double :
    judge_sched (HConst 0) lists sch
      (mk_iobs 0 [(0, 1); (1, 1); (0, 2); (1, 2); (0, 1); (0, 2)]
               [[(0, d1, true); (1, d2, true)]; [(2, d1, true)]] 3 3) = PropFail.
  Proof. vm_compute. reflexivity. Qed.
  (** two objects for one description, registered once *)
  Example judge_split :
    judge_sched (HConst 0) lists sch
      (mk_iobs 0 [(0, 1); (1, 1); (0, 2); (1, 2); (0, 1); (0, 2)]
               [[(0, d1, true); (1, d2, true)]; [(2, d1, false)]] 2 3) = PropFail.
  Proof. vm_compute. reflexivity. Qed.
  (** d2 resolved to d1's object *)
  Example judge_merged :
    judge_sched (HConst 0) lists sch
      (mk_iobs 0 [(0, 1); (1, 1); (0, 2); (1, 2); (0, 1); (0, 2)]
               [[(0, d1, true); (0, d1, false)]; [(0, d1, false)]] 1 3) = PropFail.
  Proof. vm_compute. reflexivity. Qed.
  (** nobody registered d1 *)
  Example judge_never :
    judge_sched (HConst 0) lists sch
      (mk_iobs 0 [(0, 1); (1, 1); (0, 2); (1, 2); (0, 1); (0, 2)]
               [[(0, d1, false); (1, d2, true)]; [(0, d1, false)]] 2 3) = PropFail.
  Proof. vm_compute. reflexivity. Qed.
  (** the watchdog fired *)
  Example judge_hang :
    judge_sched (HConst 0) lists sch (mk_iobs 1 [(0, 1); (1, 1); (0, 2)] [[]; []] 1 3) = PropFail.
  Proof. vm_compute. reflexivity. Qed.
  (** the property holds on the observations but the other thread won the race / a step was taken in
      another phase than the model's: correspondence broken *)
  Example judge_mismatch_flags :
    judge_sched (HConst 0) lists sch
      (mk_iobs 0 [(0, 1); (1, 1); (0, 2); (1, 2); (0, 1); (0, 2)]
               [[(0, d1, false); (1, d2, true)]; [(0, d1, true)]] 2 3) = Mismatch.
  Proof. vm_compute. reflexivity. Qed.
  Example judge_mismatch_trace :
    judge_sched (HConst 0) lists sch
      (mk_iobs 0 [(0, 1); (1, 1); (0, 2); (1, 1); (0, 1); (0, 2)]
               [[(0, d1, true); (1, d2, true)]; [(0, d1, false)]] 2 3) = Mismatch.
  Proof. vm_compute. reflexivity. Qed.
  (** a schedule that may stop before the threads are done is not judged *)
  Example judge_out_of_scope : judge_sched (HConst 0) lists [0; 1; 0] good = OutOfScope.
  Proof. vm_compute. reflexivity. Qed.
  (** entries naming finished threads are skipped: with another bucketing (d1 and d2 apart) and the
      threads one after the other, thread 1's read phase finds d1 and its second turn is skipped *)
  Example judge_skip :
    judge_sched (HTable [(d1, 5); (d2, 6)]) lists [0; 0; 0; 0; 1; 1]
      (mk_iobs 0 [(0, 1); (0, 2); (0, 1); (0, 2); (1, 1)]
               [[(0, d1, true); (1, d2, true)]; [(0, d1, false)]] 2 3) = Agree.
  Proof. vm_compute. reflexivity. Qed.
  Example judge_stress_good :
    judge_stress lists (mk_iobs 0 [] [[(0, d1, false); (1, d2, true)]; [(0, d1, true)]] 2 3) = Agree
    /\ judge_stress lists (mk_iobs 0 [] [[(0, d1, true); (1, d2, true)]; [(0, d1, true)]] 2 3) = PropFail.
  Proof. vm_compute. split; reflexivity. Qed.
End examples.
