(** Correspondence judges for C16 (evaluated by [vm_compute] on cases written by the harness).

    [judge_registry true] (from [Judge/C05.v]): the Registry model against the real Registry on
    programs with stale follows-from targets.
    [judge_stack]: a stack of capture layers and pass-through layers on one Registry: every storage
    against the model of the stack ([corr]); and, on the implementation's own outputs ([ok]): the run
    did not panic, no storage is poisoned, every storage equals the storage of the same program under
    that capture layer alone, which is the storage the reference specification prescribes. *)
From TT Require Export Judge.C05.

Inductive lspec := SCapture (f : fexpr) | SPass.

(** storage keys: distinct addresses, here 0, 1, 2, .. in stack order *)
Fixpoint mk_stack_from (key : N) (specs : list lspec) : list layer :=
  match specs with
  | [] => []
  | SCapture f :: r => LCapture (feval f) key empty_storage :: mk_stack_from (key + 1) r
  | SPass :: r => LPass :: mk_stack_from key r
  end.
Definition mk_stack : list lspec -> list layer := mk_stack_from 0.

Fixpoint spec_filters (specs : list lspec) : list fexpr :=
  match specs with
  | [] => []
  | SCapture f :: r => f :: spec_filters r
  | SPass :: r => spec_filters r
  end.

Definition stack_result (x : result (reg * list layer)) : option (list cstorage) :=
  match x with ROk (_, ls) => Some (stack_storages ls) | _ => None end.

Fixpoint all2 {A B} (f : A -> B -> bool) (x : list A) (y : list B) : bool :=
  match x, y with
  | [], [] => true
  | a :: x', b :: y' => f a b && all2 f x' y'
  | _, _ => false
  end.

(** [impl]: the storages of the stack run ([None]: panic or poisoned storage);
    [singles]: per capture layer, the storage of the run under that layer alone *)
Definition judge_stack (p : prog) (ids : list N) (specs : list lspec)
           (impl : option (list cstorage)) (singles : list (option cstorage)) : verdict :=
  judge_of (wf_prog_stale_b p && single_threaded p)
    (option_eqb (list_eqb cstorage_eqb) (stack_result (stack_run ids p (mk_stack specs))) impl
     && all2 (fun f s => option_eqb cstorage_eqb (storage_of (layer_run (feval f) ids p)) s)
             (spec_filters specs) singles)
    (match impl with
     | Some sts =>
         all2 (fun st s => option_eqb cstorage_eqb (Some st) s) sts singles
         && all2 (fun f s => option_eqb cstorage_eqb (Some (spec_storage (feval f) ids p)) s)
                 (spec_filters specs) singles
     | None => false
     end).

Lemma all2_spec {A B} (f : A -> B -> bool) x y :
  all2 f x y = true <-> Forall2 (fun a b => f a b = true) x y.
Proof.
  revert y; induction x as [|a x IH]; intros [|b y]; simpl; split; intros H;
    try discriminate; try constructor; try (inversion H; fail).
  - apply andb_true_iff in H as [H _]. exact H.
  - apply andb_true_iff in H as [_ H]. apply IH, H.
  - inversion H; subst. apply andb_true_iff; split; [assumption | apply IH; assumption].
Qed.
