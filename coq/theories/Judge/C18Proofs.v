(** The judges of C18 on the model's own output: within the hypotheses an implementation that
    evaluates, explains and scans as the model does is judged [Agree]. *)
From TT Require Export Judge.C18.
From TT Require Import Capture.PredicatesProofs.

Lemma ctree_eqb_refl a : ctree_eqb a a = true.
Proof. apply ctree_eqb_spec. reflexivity. Qed.
Lemma iobs_eqb_refl a : iobs_eqb a a = true.
Proof. apply iobs_eqb_spec. reflexivity. Qed.
Lemma sobs_eqb_refl a : sobs_eqb a a = true.
Proof. apply sobs_eqb_spec. reflexivity. Qed.

Lemma list_iobs_refl l : list_eqb iobs_eqb l l = true.
Proof. induction l as [|o l IH]; cbn; [reflexivity|]. rewrite iobs_eqb_refl, IH. reflexivity. Qed.

Lemma is_some_case b p x : is_some (find_case b p x) = Bool.eqb (eval p x) b.
Proof.
  pose proof (case_iff_eval b p x) as H. rewrite is_some_iff in H.
  destruct (is_some (find_case b p x)) eqn:E.
  - rewrite (proj1 H eq_refl). symmetry. apply Bool.eqb_reflx.
  - destruct (Bool.eqb (eval p x) b) eqn:Eb; [|reflexivity].
    apply Bool.eqb_prop in Eb. specialize (proj2 H Eb). congruence.
Qed.

Lemma iobs_ok_model sp p x : wf_pred sp p = true -> iobs_ok p x (model_iobs p x) = true.
Proof.
  intros Hwf. unfold iobs_ok, model_iobs. cbn [io_eval io_case_t io_case_f].
  rewrite (eval_denote p sp x Hwf), !is_some_case, (eval_denote p sp x Hwf).
  destruct (denote p x); reflexivity.
Qed.

Theorem judge_items_ok_on_model sp items p :
  judge_items sp items p (map (model_iobs p) items) = Agree \/
  judge_items sp items p (map (model_iobs p) items) = OutOfScope.
Proof.
  unfold judge_items, judge_of. destruct (wf_pred sp p && forallb (wf_item sp) items) eqn:H; [|right; reflexivity].
  left. cbn [negb]. apply andb_true_iff in H as [Hp _].
  assert (A : forallb2 (iobs_ok p) items (map (model_iobs p) items) = true).
  { induction items as [|x l IH]; cbn; [reflexivity|]. rewrite (iobs_ok_model sp p x Hp), IH. reflexivity. }
  rewrite A, list_iobs_refl. reflexivity.
Qed.

(** ** scanners *)
Lemma index_from_length {A} (l : list A) : forall n, List.length (index_from n l) = List.length l.
Proof. induction l as [|a r IH]; intros n; cbn; [reflexivity|]. rewrite IH. reflexivity. Qed.

Lemma model_sobs_is_ref_sobs sp p l b :
  wf_pred sp p = true -> model_sobs p l b = ref_sobs p l b.
Proof.
  intros Hwf. unfold model_sobs, ref_sobs, ref_matches.
  set (il := indexed l).
  assert (Hf : filter (fun ix : N * item => eval p (snd ix)) il = filter (fun ix : N * item => denote p (snd ix)) il).
  { apply filter_ext. intros [i x]. apply (eval_denote p sp x Hwf). }
  rewrite scan_single_spec, scan_first_spec, scan_last_spec, scan_all_spec, scan_none_spec, Hf.
  set (m := filter (fun ix : N * item => denote p (snd ix)) il).
  assert (Hlen : List.length il = List.length l) by apply index_from_length.
  f_equal.
  - destruct m as [|[i x] [|c r]]; reflexivity.
  - destruct m as [|[i x] r]; reflexivity.
  - destruct b; [|reflexivity]. f_equal. rewrite <- map_rev. destruct (rev m) as [|[i x] r]; reflexivity.
  - rewrite map_length, Hlen. destruct (Nat.eqb_spec (List.length m) (List.length l)) as [E|E].
    + rewrite E, N.eqb_refl. reflexivity.
    + destruct (N.eqb_spec (N.of_nat (List.length m)) (N.of_nat (List.length l))); [lia | reflexivity].
  - destruct m as [|[i x] r]; reflexivity.
Qed.

Theorem judge_scan_ok_on_model sp items sel p with_last l :
  pick items sel = Some l ->
  judge_scan sp items sel p (model_sobs p l with_last) = Agree \/
  judge_scan sp items sel p (model_sobs p l with_last) = OutOfScope.
Proof.
  intros Hp. unfold judge_scan, judge_of. rewrite Hp.
  destruct (wf_pred sp p && forallb (wf_item sp) l) eqn:H; [|right; reflexivity]. left. cbn [negb].
  apply andb_true_iff in H as [Hwf _].
  assert (E : is_some_last (model_sobs p l with_last) = with_last) by (unfold is_some_last, model_sobs; destruct with_last; reflexivity).
  rewrite E, <- (model_sobs_is_ref_sobs sp p l with_last Hwf), sobs_eqb_refl. reflexivity.
Qed.
