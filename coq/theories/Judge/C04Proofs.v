(** The judge of C04 ([Judge/C04.v]) is a consequence of the C04 theorems.

    [walk] recomputes, from the implementation's snapshots, what every finalisation batch must
    contain.  Here: on every history in scope, every run of observations that is related to the
    MODEL's run by [obs_rel] (same outcomes and calls for received events, a snapshot denoting the
    model's state, a finalisation batch that is a re-ordering [fin_reorder] of the model's batch)
    passes [walk].  Two instances:
    - the model's own observations ([iobs_of]): [judge_c04_ok_on_model];
    - every run the correspondence check accepts ([corr_history]): [judge_c04_ok_of_corr], so that
      a [PropFail] verdict together with a successful correspondence is impossible.
    The second component of [walk] is the conjunction of [wf_drop] over the finalised lifetimes
    ([walk_snd_lives]). *)
From TT Require Import Tunnel.TypesProofs Tunnel.ReceiverSpec Tunnel.ReceiverInv Tunnel.ReceiverHistInv
  Tunnel.ReceiverFinalize Tunnel.ReceiverFinalizeProofs Tunnel.ReceiverOrder Tunnel.ReceiverOrderProofs
  Judge.Recv Judge.RecvProofs Judge.C08 Judge.C04.
From stdpp Require Import gmap.
Arguments firstn : simpl never.
Arguments skipn : simpl never.
Arguments chunks : simpl never.
Arguments extend : simpl never.
Arguments host_vals : simpl never.

(** * Pure helpers *)

Lemma assoc_list_to_map {V} (l : list (N * V)) (k : N) :
  C04.assoc l k = (list_to_map l : gmap N V) !! k.
Proof.
  unfold C04.assoc. induction l as [|[k' v] l IH]; cbn [List.find fst snd].
  - by rewrite list_to_map_nil, lookup_empty.
  - rewrite list_to_map_cons. destruct (N.eqb_spec k' k) as [->|Hne].
    + by rewrite lookup_insert.
    + by rewrite lookup_insert_ne.
Qed.

Lemma assoc_map_to_list {V} (m : gmap N V) (k : N) : C04.assoc (map_to_list m) k = m !! k.
Proof. by rewrite assoc_list_to_map, list_to_map_to_list. Qed.

Lemma remove_first_elem (x : N) (l : list N) :
  x ∈ l → ∃ l', remove_first N.eqb x l = Some l'.
Proof.
  induction l as [|y l IH]; intros Hin; [by apply elem_of_nil in Hin|].
  cbn [remove_first]. destruct (N.eqb_spec x y) as [->|Hne]; [eauto|].
  apply elem_of_cons in Hin as [->|Hin]; [done|].
  destruct (IH Hin) as [l' ->]. eauto.
Qed.

(** [perm_eqb] on host ids is complete for multiset equality *)
Lemma perm_eqb_complete (a b : list N) : a ≡ₚ b → perm_eqb N.eqb a b = true.
Proof.
  revert b. induction a as [|x a IH]; intros b Hp.
  - apply Permutation_nil_l in Hp. by subst.
  - cbn [perm_eqb].
    assert (x ∈ b) as Hin by (rewrite <- Hp; by left).
    destruct (remove_first_elem x b Hin) as [b' E]. rewrite E.
    apply IH. apply remove_first_perm in E. rewrite E in Hp.
    by apply Permutation_cons_inv in Hp.
Qed.

Lemma perm_eqb_refl (a : list N) : perm_eqb N.eqb a a = true.
Proof. by apply perm_eqb_complete. Qed.

Lemma nodupb_NoDup (l : list N) : NoDup l → nodupb l = true.
Proof.
  induction 1 as [|x l Hn Hnd IH]; cbn [nodupb]; [done|]. rewrite IH, andb_true_r.
  apply negb_true_iff, not_true_is_false. intros H.
  apply existsb_exists in H as (y & Hy & E). apply N.eqb_eq in E. subst.
  apply Hn. by apply elem_of_list_In.
Qed.

Lemma exits_then_closes_ebc b F : exits_then_closes b F = exits_before_closes b F.
Proof. revert b. induction F as [|c F IH]; intros b; [done|]. destruct c; cbn; by rewrite ?IH. Qed.

Lemma ee_ids_flat_map {A} (f : A → list hcall) (l : list A) :
  ee_ids (flat_map f l) = flat_map (λ x, ee_ids (f x)) l.
Proof. induction l as [|x l IH]; [done|]. cbn [flat_map]. by rewrite ee_ids_app, IH. Qed.

Lemma close_ids_app a b : close_ids (a ++ b) = close_ids a ++ close_ids b.
Proof. unfold close_ids. apply flat_map_app. Qed.

Lemma close_ids_flat_map {A} (f : A → list hcall) (l : list A) :
  close_ids (flat_map f l) = flat_map (λ x, close_ids (f x)) l.
Proof. induction l as [|x l IH]; [done|]. cbn [flat_map]. by rewrite close_ids_app, IH. Qed.

Lemma ee_ids_repeat_exit h n : ee_ids (repeat (HExit h) n) = repeat h n.
Proof. induction n as [|n IH]; [done|]. cbn [repeat]. rewrite ee_ids_cons, IH. done. Qed.

Lemma close_ids_exits F : forallb is_exit_call F = true → close_ids F = [].
Proof.
  induction F as [|c F IH]; [done|]. cbn [forallb]. intros H. apply andb_true_iff in H as [Hc HF].
  destruct c; try done. cbn. by apply IH.
Qed.

Lemma flat_map_ext_perm {A B} (f g : A → list B) (l l' : list A) :
  (∀ x, f x = g x) → l ≡ₚ l' → flat_map f l ≡ₚ flat_map g l'.
Proof.
  intros Hfg Hp. rewrite (flat_map_ext f g) by done. by apply Permutation_flat_map.
Qed.

Lemma forallb_elem {A} (P : A → bool) (l : list A) : (∀ x, x ∈ l → P x = true) → forallb P l = true.
Proof. intros H. apply forallb_forall. intros x Hx. apply H. by apply elem_of_list_In. Qed.

Lemma fst_let_pair (p : bool * bool) (x y : bool) :
  fst (let '(a, b) := p in (x && a, y && b)) = x && fst p.
Proof. by destruct p. Qed.
Lemma snd_let_pair (p : bool * bool) (x y : bool) :
  snd (let '(a, b) := p in (x && a, y && b)) = y && snd p.
Proof. by destruct p. Qed.

(** * Snapshots denoting a model state

    The lists of the snapshot are the entries of the state's containers, in any order. *)
Record snap_rel (st : rstate) (s : snap) : Prop := mk_snap_rel {
  sr_spans : r_spans st = list_to_map (sn_spans s);
  sr_local : r_local st = list_to_map (sn_local s);
  sr_local_nd : NoDup (sn_local s).*1;
  sr_unc : r_uncommitted st = list_to_set (sn_uncommitted s);
  sr_unc_nd : NoDup (sn_uncommitted s);
  sr_ent : r_entered st = list_to_map (sn_entered s);
  sr_ent_nd : NoDup (sn_entered s).*1 }.

Lemma snap_rel_snap_of st : snap_rel st (C08.snap_of st).
Proof.
  unfold C08.snap_of. split; cbn [sn_spans sn_local sn_uncommitted sn_entered].
  - by rewrite list_to_map_to_list.
  - by rewrite list_to_map_to_list.
  - apply NoDup_fst_map_to_list.
  - by rewrite list_to_set_elements_L.
  - apply NoDup_elements.
  - by rewrite list_to_map_to_list.
  - apply NoDup_fst_map_to_list.
Qed.

Lemma map_matches_NoDup {V} (eqb : V → V → bool) (m : gmap N V) l :
  map_matches eqb m l = true → NoDup l.*1.
Proof.
  unfold map_matches. rewrite !andb_true_iff. intros [[_ H] _]. by apply strictly_ascending_NoDup.
Qed.

Lemma snap_rel_matches st s : snap_matches st s = true → snap_rel st s.
Proof.
  intros H. destruct (snap_matches_sound _ _ H) as (_ & E2 & E3 & E4 & E5).
  unfold snap_matches in H. rewrite !andb_true_iff in H. destruct H as [[[[_ _] H3] H4] H5].
  split; try done.
  - by eapply map_matches_NoDup.
  - unfold set_matches in H4. rewrite !andb_true_iff in H4. destruct H4 as [[_ H4] _].
    by apply strictly_ascending_NoDup.
  - by eapply map_matches_NoDup.
Qed.

Lemma empty_snap_rel : snap_rel rs_default empty_snap.
Proof. split; cbn; try done; constructor. Qed.

Section snap_rel_facts.
  Context (st : rstate) (s : snap) (HR : snap_rel st s).

  Lemma sr_assoc_spans k : C04.assoc (sn_spans s) k = r_spans st !! k.
  Proof. by rewrite assoc_list_to_map, (sr_spans _ _ HR). Qed.
  Lemma sr_assoc_local k : C04.assoc (sn_local s) k = r_local st !! k.
  Proof. by rewrite assoc_list_to_map, (sr_local _ _ HR). Qed.
  Lemma sr_assoc_entered k : C04.assoc (sn_entered s) k = r_entered st !! k.
  Proof. by rewrite assoc_list_to_map, (sr_ent _ _ HR). Qed.

  Lemma sr_entered_perm : sn_entered s ≡ₚ map_to_list (r_entered st).
  Proof. rewrite (sr_ent _ _ HR). symmetry. apply map_to_list_to_map, (sr_ent_nd _ _ HR). Qed.
  Lemma sr_unc_perm : sn_uncommitted s ≡ₚ elements (r_uncommitted st).
  Proof. rewrite (sr_unc _ _ HR). symmetry. apply elements_list_to_set, (sr_unc_nd _ _ HR). Qed.
  Lemma sr_local_elem k h : (k, h) ∈ sn_local s → r_local st !! k = Some h.
  Proof. intros Hin. rewrite (sr_local _ _ HR). apply elem_of_list_to_map_1; [apply (sr_local_nd _ _ HR) | done]. Qed.

  (** what [life_ok] expects is what the model's finalisation emits *)
  Lemma expected_exits_model :
    expected_exits s ≡ₚ ee_ids (exits_of (r_entered st) (r_local st)).
  Proof.
    rewrite exits_of_eq, ee_ids_flat_map. unfold expected_exits.
    apply flat_map_ext_perm; [|apply sr_entered_perm].
    intros [id c]. unfold exit_batch. cbn [fst snd]. rewrite sr_assoc_local.
    destruct (r_local st !! id) as [h|]; [|done]. by rewrite ee_ids_repeat_exit.
  Qed.

  Lemma expected_closes_model :
    expected_closes s ≡ₚ close_ids (closes_of (r_uncommitted st) (r_local st)).
  Proof.
    rewrite closes_of_eq, close_ids_flat_map. unfold expected_closes.
    apply flat_map_ext_perm; [|apply sr_unc_perm].
    intros id. unfold close_batch. rewrite sr_assoc_local. by destruct (r_local st !! id).
  Qed.

  (** [wf_drop_snap] on the snapshot is [wf_drop_ev] on the state *)
  Lemma wf_drop_snap_model ev o :
    wf_drop_snap s ev o = if is_accepted o then wf_drop_ev st ev else true.
  Proof.
    unfold wf_drop_snap, wf_drop_ev, last_drop. destruct o; cbn [is_accepted]; [|done..].
    destruct ev; try done. rewrite sr_assoc_spans. destruct (r_spans st !! id) as [d|]; [|done].
    destruct (sd_refs d - 1 =? 0)%N; [|done]. rewrite sr_assoc_entered.
    destruct (r_entered st !! id) eqn:E.
    - symmetry. by apply bool_decide_eq_false.
    - symmetry. by apply bool_decide_eq_true.
  Qed.
End snap_rel_facts.

(** * One lifetime: [life_ok] from the lifetime invariant *)
Definition is_drop_step (fin : hstep) : bool := match fin with SDrop => true | _ => false end.

Lemma fin_reorder_perm F F' : fin_reorder F F' → F ≡ₚ F'.
Proof. intros (E & C & E' & C' & -> & -> & _ & _ & HE & HC). by rewrite HE, HC. Qed.

Lemma fin_reorder_shape F F' : fin_reorder F F' → exits_before_closes false F' = true.
Proof.
  intros (E & C & E' & C' & -> & -> & HE & HC & PE & PC).
  apply ebc_app; eapply forallb_perm; eauto.
Qed.

Lemma fin_reorder_refl st fin : is_recv fin = false → fin_reorder (fin_calls st fin) (fin_calls st fin).
Proof.
  intros Hf. destruct (fin_calls_split st fin Hf) as (C & E & HC).
  exists (exits_of (r_entered st) (r_local st)), C, (exits_of (r_entered st) (r_local st)), C.
  split_and!; try done. apply exits_of_all_exits.
Qed.

Lemma close_ids_perm F F' : F ≡ₚ F' → close_ids F ≡ₚ close_ids F'.
Proof. intros H. unfold close_ids. by apply Permutation_flat_map. Qed.

Lemma LInv_bal_alive n0 l0 st w T fin id h :
  LInv n0 l0 st w T → is_recv fin = false → r_local st !! id = Some h →
  bal (T ++ fin_calls st fin) h = 0%N.
Proof.
  intros HLi Hf Hl. rewrite bal_fin by done.
  rewrite (n_exits_exits_of _ _ id) by (try done; apply (li_inj _ _ _ _ _ HLi)).
  rewrite (li_bal _ _ _ _ _ HLi _ _ Hl). lia.
Qed.

Lemma LInv_bal_all n0 l0 st w T fin h :
  LInv n0 l0 st w T → Dead st T → is_recv fin = false → bal (T ++ fin_calls st fin) h = 0%N.
Proof.
  intros HLi HD Hf.
  destruct (decide (Exists (λ kv, kv.2 = h) (map_to_list (r_local st)))) as [Hex|Hnex].
  - apply Exists_exists in Hex as ([id x] & Hin & Hx). cbn [snd] in Hx. subst x.
    apply elem_of_map_to_list in Hin. by eapply LInv_bal_alive.
  - rewrite bal_fin by done. rewrite HD; [lia|]. intros id Hl. apply Hnex, Exists_exists.
    exists (id, h). split; [by apply elem_of_map_to_list | done].
Qed.

Lemma and5 (a b c d e : bool) :
  a = true → b = true → c = true → d = true → e = true → a && b && c && d && e = true.
Proof. by intros -> -> -> -> ->. Qed.

Lemma life_ok_model n0 l0 st w T prev fin F' wf :
  LInv n0 l0 st w T → (wf = true → Dead st T) → snap_rel st prev →
  is_recv fin = false → fin_reorder (fin_calls st fin) F' →
  life_ok prev T F' (is_drop_step fin) wf = true.
Proof.
  intros HLi HD HR Hf HF.
  pose proof (fin_reorder_perm _ _ HF) as HP.
  pose proof (fin_reorder_reorder _ _ HF) as HRo.
  assert (∀ h, bal (T ++ F') h = bal (T ++ fin_calls st fin) h) as Hbal.
  { intros h. symmetry. apply bal_reorder. by apply reorder_app_l. }
  assert (ee_ids F' ≡ₚ ee_ids (exits_of (r_entered st) (r_local st))) as Hee.
  { rewrite <- (ee_ids_reorder _ _ HRo). destruct fin as [ev|k|]; [done| |]; cbn [fin_calls persist snd]; [done|].
    unfold drop_calls. by rewrite ee_ids_app, (ee_ids_closes _ (closes_of_all_closes _ _)), app_nil_r. }
  unfold life_ok. apply and5.
  - destruct fin as [ev|k|]; [done| |]; cbn [is_drop_step].
    + eapply forallb_perm; [exact HP|]. cbn [fin_calls persist snd]. apply exits_of_all_exits.
    + rewrite exits_then_closes_ebc. by eapply fin_reorder_shape.
  - apply perm_eqb_complete. by rewrite Hee, (expected_exits_model _ _ HR).
  - destruct fin as [ev|k|]; [done| |]; cbn [is_drop_step].
    + pose proof (close_ids_perm _ _ HP) as Hc. cbn [fin_calls persist snd] in Hc.
      rewrite (close_ids_exits _ (exits_of_all_exits _ _)) in Hc.
      apply Permutation_nil_l in Hc. by rewrite <- Hc.
    + pose proof (close_ids_perm _ _ HP) as Hc. cbn [fin_calls] in Hc. unfold drop_calls in Hc.
      rewrite close_ids_app, (close_ids_exits _ (exits_of_all_exits _ _)) in Hc. cbn [app] in Hc.
      repeat (apply andb_true_intro; split).
      * apply perm_eqb_complete. by rewrite <- Hc, (expected_closes_model _ _ HR).
      * apply nodupb_NoDup. rewrite <- Hc, closes_of_eq.
        apply close_ids_flat_NoDup; [apply (li_inj _ _ _ _ _ HLi) | apply NoDup_elements].
      * apply forallb_elem. intros id Hin. rewrite (sr_assoc_local _ _ HR).
        assert (id ∈ r_uncommitted st) as Hu by (rewrite (sr_unc _ _ HR); by apply elem_of_list_to_set).
        apply (li_unc_local _ _ _ _ _ HLi), elem_of_dom in Hu as [h Hh]. by rewrite Hh.
  - apply forallb_elem. intros [k h] Hin. cbn [snd]. apply N.eqb_eq. rewrite Hbal.
    eapply LInv_bal_alive; [exact HLi | done | by eapply sr_local_elem].
  - destruct wf; [|done]. specialize (HD eq_refl).
    assert (∀ h, bal (T ++ F') h = 0%N) as Hz.
    { intros h. rewrite Hbal. by eapply LInv_bal_all. }
    apply andb_true_intro. split.
    + apply forallb_elem. intros h _. apply N.eqb_eq, Hz.
    + rewrite (cnt_zero_nil (stack_apply [] (T ++ F'))); [done|].
      intros h. rewrite cnt_stack. apply Hz.
Qed.

(** * Whole histories *)

(** an implementation observation that shows what the model's observation shows, up to the order
    of the snapshot lists and of the finalisation batch *)
Definition obs_rel (m : mobs) (i : iobs) : Prop :=
  match m, i with
  | MRecv o c st, IRecv o' c' s => o = o' ∧ c = c' ∧ snap_rel st s
  | MPersist e _ _ _ st, IPersist e' _ _ _ s => fin_reorder e e' ∧ snap_rel st s
  | MDrop c _ st, IDrop c' _ s => fin_reorder c c' ∧ snap_rel st s
  | _, _ => False
  end.

Lemma hist_step_shape h s :
  let h' := fst (hist_step h s) in
  match s, snd (hist_step h s) with
  | SRecv ev, MRecv o c st' => try_receive (h_st h) (h_w h) ev = (o, st', h_w h', c) ∧ st' = h_st h'
  | SPersist k, MPersist e _ _ _ st' => e = snd (persist (h_st h)) ∧ st' = h_st h'
  | SDrop, MDrop c _ st' => c = drop_calls (h_st h) ∧ st' = h_st h'
  | _, _ => False
  end.
Proof.
  destruct s as [ev|k|]; cbn [hist_step].
  - by destruct (try_receive (h_st h) (h_w h) ev) as [[[o st'] w'] calls].
  - unfold persist. by destruct (restore _ _ _ _) as [[st' w'] regs].
  - by destruct (restore _ _ _ _) as [[st' w'] regs].
Qed.

(** the second component of [walk], computed on the model: [wf_drop_ev] at every accepted event,
    conjoined over every finalised lifetime and the lifetimes before it *)
Definition step_wf (h : hist) (s : hstep) : bool :=
  match s, snd (hist_step h s) with
  | SRecv ev, MRecv o _ _ => if is_accepted o then wf_drop_ev (h_st h) ev else true
  | _, _ => true
  end.
Fixpoint wf_walk (h : hist) (steps : list hstep) (wf : bool) : bool :=
  match steps with
  | [] => true
  | s :: r =>
      let h' := fst (hist_step h s) in
      if is_recv s then wf_walk h' r (wf && step_wf h s) else wf && wf_walk h' r true
  end.

Lemma walk_model steps : ∀ h impl prev T wf n0 l0,
  HInv h → hist_scope h steps →
  LInv n0 l0 (h_st h) (h_w h) T → (wf = true → Dead (h_st h) T) →
  snap_rel (h_st h) prev →
  Forall2 obs_rel (hist_run h steps) impl →
  fst (C04.walk steps impl prev T wf) = true ∧
  snd (C04.walk steps impl prev T wf) = wf_walk h steps wf.
Proof.
  induction steps as [|s r IH]; intros h impl prev T wf n0 l0 HH Hsc HLi HD HR HF.
  - cbn [hist_run] in HF. apply Forall2_nil_inv_l in HF as ->. done.
  - destruct Hsc as [Hs Hsc]. rewrite hist_run_cons in HF by done.
    apply Forall2_cons_inv_l in HF as (i & ii & Hi & Hii & ->).
    pose proof (hist_step_HInv h s HH Hs) as HH'.
    pose proof (hist_step_shape h s) as Hsh.
    assert (HL h) as HLh by (split; [done | eauto]).
    destruct (hist_step_HL h s HLh Hs) as [_ HS'].
    cbn [wf_walk]. unfold step_wf.
    destruct (hist_step h s) as [h' o] eqn:E. cbn [fst snd] in *.
    destruct s as [ev|k|], o as [o c st'|e sp md rg st'|c rg st']; try done;
      destruct i as [o1 c1 s1|e1 sp1 md1 rg1 s1|c1 rg1 s1]; try done; cbn [obs_rel] in Hi; cbn [is_recv];
      try rewrite E in Hsh; try rewrite E; cbv beta iota zeta in Hsh; cbn [fst snd] in Hsh |- *; try done.
    + (* receive *)
      destruct Hsh as [Htr ->]. destruct Hi as (<- & <- & HR1). cbn [C04.walk].
      destruct (step_LInv _ _ _ _ _ _ _ _ _ _ (hinv_st _ HH) Hs HLi Htr) as [HL1 HD1].
      rewrite (wf_drop_snap_model _ _ HR).
      apply (IH h' ii s1 (T ++ c) _ n0 l0); try done.
      intros Hwf. apply andb_true_iff in Hwf as [-> Hwf]. apply HD1; [by apply HD|].
      intros Ha. by rewrite Ha in Hwf.
    + (* persist *)
      destruct Hsh as [-> ->]. destruct Hi as [HFr HR1]. cbn [C04.walk].
      rewrite fst_let_pair, snd_let_pair. specialize (HS' eq_refl).
      destruct (LInv_start _ _ HS') as [HL0 HD0].
      destruct (IH h' ii s1 [] true _ _ HH' Hsc HL0 (λ _, HD0) HR1 Hii) as [IH1 IH2].
      rewrite IH1, IH2, andb_true_r. split; [|done].
      by apply (life_ok_model n0 l0 (h_st h) (h_w h) T prev (SPersist k)).
    + (* drop *)
      destruct Hsh as [-> ->]. destruct Hi as [HFr HR1]. cbn [C04.walk].
      rewrite fst_let_pair, snd_let_pair. specialize (HS' eq_refl).
      destruct (LInv_start _ _ HS') as [HL0 HD0].
      destruct (IH h' ii s1 [] true _ _ HH' Hsc HL0 (λ _, HD0) HR1 Hii) as [IH1 IH2].
      rewrite IH1, IH2, andb_true_r. split; [|done].
      by apply (life_ok_model n0 l0 (h_st h) (h_w h) T prev SDrop).
Qed.

(** ** the two instances of [obs_rel] *)
Lemma fin_reorder_ebc_refl F : exits_before_closes false F = true → fin_reorder F F.
Proof.
  intros H. exists (List.filter is_exit F), (List.filter is_close F), (List.filter is_exit F), (List.filter is_close F).
  split_and!; try done; [by apply ebc_false | by apply ebc_false | apply filter_exit_all | apply filter_close_all].
Qed.

Lemma obs_rel_iobs_of m : mobs_wf m → obs_rel m (iobs_of m).
Proof.
  destruct m as [o c st|e sp md rg st|c rg st]; cbn [mobs_wf iobs_of obs_rel].
  - intros _. split_and!; try done. apply snap_rel_snap_of.
  - intros [W _]. split; [by apply fin_reorder_ebc_refl | apply snap_rel_snap_of].
  - intros [W _]. split; [by apply fin_reorder_ebc_refl | apply snap_rel_snap_of].
Qed.

Lemma obs_rel_matches m i : mobs_wf m → obs_matches m i = true → obs_rel m i.
Proof.
  destruct m as [o c st|e sp md rg st|c rg st], i as [o' c' s|e' sp' md' rg' s|c' rg' s]; try done;
    cbn [mobs_wf obs_matches obs_rel]; rewrite !andb_true_iff.
  - intros _ [[Ho Hc] Hs]. apply outcome_eqb_sound in Ho. apply calls_eqb_sound in Hc.
    split_and!; try done. by apply snap_rel_matches.
  - intros [W _] [[[[Hb _] _] _] Hs]. split; [by apply batch_eqb_fin_reorder | by apply snap_rel_matches].
  - intros [W _] [[Hb _] Hs]. split; [by apply batch_eqb_fin_reorder | by apply snap_rel_matches].
Qed.

Lemma obs_rel_model_run ms : Forall mobs_wf ms → Forall2 obs_rel ms (map iobs_of ms).
Proof. induction 1 as [|m ms W _ IH]; cbn [map]; constructor; [by apply obs_rel_iobs_of | done]. Qed.

Lemma obs_rel_corr_run ms is : Forall mobs_wf ms → all2 obs_matches ms is = true → Forall2 obs_rel ms is.
Proof.
  intros W. revert is. induction W as [|m ms W _ IH]; intros [|i is] H; try done; try (by constructor).
  cbn [all2] in H. apply andb_true_iff in H as [H1 H2]. constructor; [by apply obs_rel_matches | by apply IH].
Qed.

Lemma walk_from_init steps impl :
  hist_scope hist_init steps → Forall2 obs_rel (hist_run hist_init steps) impl →
  fst (C04.walk steps impl empty_snap [] true) = true ∧
  snd (C04.walk steps impl empty_snap [] true) = wf_walk hist_init steps true.
Proof.
  intros Hsc HF. destruct (LInv_start _ _ LStart_init) as [HL0 HD0].
  eapply (walk_model steps hist_init); [apply HInv_init | done | exact HL0 | by intros _ | | done].
  apply empty_snap_rel.
Qed.

(** * The judge on the model's own observations *)

(** On every history in scope the observations of the MODEL pass the first component of [walk]:
    [ok] is a consequence of the C04 theorems. *)
Theorem judge_c04_ok_on_model : ∀ steps,
  hist_scope hist_init steps →
  fst (C04.walk steps (map iobs_of (hist_run hist_init steps)) empty_snap [] true) = true.
Proof.
  intros steps Hsc. apply (walk_from_init steps _ Hsc), obs_rel_model_run, hist_run_wf.
Qed.

(** The same for every run of observations that the correspondence check accepts: when
    [corr_history] holds, [ok] holds; [PropFail] together with a successful correspondence is
    impossible. *)
Theorem judge_c04_ok_of_corr : ∀ steps impl,
  hist_scope hist_init steps → corr_history steps impl = true →
  fst (C04.walk steps impl empty_snap [] true) = true.
Proof.
  intros steps impl Hsc Hc. apply (walk_from_init steps _ Hsc), obs_rel_corr_run; [apply hist_run_wf | exact Hc].
Qed.

(** the second component is the model-side conjunction of [wf_drop_ev] *)
Theorem walk_snd_on_model : ∀ steps,
  hist_scope hist_init steps →
  snd (C04.walk steps (map iobs_of (hist_run hist_init steps)) empty_snap [] true)
  = wf_walk hist_init steps true.
Proof.
  intros steps Hsc. apply (walk_from_init steps _ Hsc), obs_rel_model_run, hist_run_wf.
Qed.
Theorem walk_snd_of_corr : ∀ steps impl,
  hist_scope hist_init steps → corr_history steps impl = true →
  snd (C04.walk steps impl empty_snap [] true) = wf_walk hist_init steps true.
Proof.
  intros steps impl Hsc Hc. apply (walk_from_init steps _ Hsc), obs_rel_corr_run; [apply hist_run_wf | exact Hc].
Qed.

(** ** verdicts *)
Lemma judge_c04_unfold steps impl reg_ok :
  judge_c04 steps impl reg_ok =
  judge_of (hist_scopeb hist_init steps) (corr_history steps impl)
           (fst (C04.walk steps impl empty_snap [] true)
            && (if snd (C04.walk steps impl empty_snap [] true) then reg_ok else true)).
Proof. unfold judge_c04. by destruct (C04.walk steps impl empty_snap [] true). Qed.

(** an implementation run that matches the model is judged [Agree] (with [reg_ok], the Registry
    run, true - or, for any [reg_ok], when some finalised lifetime violates [wf_drop]) *)
Corollary judge_c04_agree_of_corr : ∀ steps impl reg_ok,
  hist_scope hist_init steps → corr_history steps impl = true →
  (wf_walk hist_init steps true = true → reg_ok = true) →
  judge_c04 steps impl reg_ok = Agree.
Proof.
  intros steps impl reg_ok Hsc Hc Hreg. rewrite judge_c04_unfold.
  rewrite (proj2 (hist_scopeb_spec _ _) Hsc), Hc, (judge_c04_ok_of_corr _ _ Hsc Hc),
    (walk_snd_of_corr _ _ Hsc Hc).
  destruct (wf_walk hist_init steps true); [by rewrite Hreg | done].
Qed.

(** the model's own observations are never judged [PropFail]: the verdict is [Agree] when
    [corr_history] accepts them and [Mismatch] otherwise (see [model_snapshot_not_ascending]) *)
Corollary judge_c04_on_model : ∀ steps,
  hist_scope hist_init steps →
  judge_c04 steps (map iobs_of (hist_run hist_init steps)) true
  = if corr_history steps (map iobs_of (hist_run hist_init steps)) then Agree else Mismatch.
Proof.
  intros steps Hsc. rewrite judge_c04_unfold.
  rewrite (proj2 (hist_scopeb_spec _ _) Hsc), (judge_c04_ok_on_model _ Hsc).
  unfold judge_of. cbn [negb andb].
  destruct (snd (C04.walk _ _ _ _ _)); cbn [negb]; by destruct (corr_history _ _).
Qed.

Corollary judge_c04_agree_on_model_partial : ∀ steps,
  hist_scope hist_init steps →
  corr_history steps (map iobs_of (hist_run hist_init steps)) = true →
  judge_c04 steps (map iobs_of (hist_run hist_init steps)) true = Agree.
Proof. intros steps Hsc Hc. by rewrite judge_c04_on_model, Hc. Qed.

(** * The second component of [walk] is [wf_drop] over the finalised lifetimes *)
Lemma wf_walk_only_recvs tl : ∀ h wf, wf_walk h (map SRecv tl) wf = true.
Proof. induction tl as [|ev tl IH]; intros h wf; [done|]. cbn [map wf_walk is_recv]. apply IH. Qed.

Lemma wf_walk_recvs evs : ∀ h wf rest,
  HInv h → hist_scope h (map SRecv evs) →
  wf_walk h (map SRecv evs ++ rest) wf
  = wf_walk (hist_final h (map SRecv evs)) rest (wf && wf_drop (h_st h) (h_w h) evs).
Proof.
  induction evs as [|ev r IH]; intros h wf rest HH Hsc.
  - cbn [map app hist_final wf_drop]. by rewrite andb_true_r.
  - cbn [map] in Hsc |- *. destruct Hsc as [Hs Hsc].
    rewrite hist_final_cons by done. rewrite <- app_comm_cons. cbn [wf_walk is_recv].
    pose proof (hist_step_HInv h _ HH Hs) as HH'.
    rewrite (IH _ _ _ HH' Hsc). f_equal. rewrite <- andb_assoc. f_equal.
    unfold step_wf. cbn [hist_step wf_drop].
    by destruct (try_receive (h_st h) (h_w h) ev) as [[[o st1] w1] c1].
Qed.

Lemma wf_walk_lives ls : ∀ h tl,
  HInv h → Forall (λ l : life, is_recv (snd l) = false) ls →
  hist_scope h (lives_steps ls ++ map SRecv tl) →
  wf_walk h (lives_steps ls ++ map SRecv tl) true = wf_drop_lives h ls.
Proof.
  induction ls as [|[evs fin] ls IH]; intros h tl HH Hf Hsc.
  - cbn [lives_steps flat_map app wf_drop_lives]. apply wf_walk_only_recvs.
  - apply Forall_cons in Hf as [Hfin Hf]. cbn [snd] in Hfin.
    cbn [lives_steps flat_map wf_drop_lives] in Hsc |- *. fold (lives_steps ls) in Hsc |- *.
    unfold life_steps in Hsc |- *. cbn [fst snd] in Hsc |- *.
    rewrite <- !app_assoc in Hsc |- *. cbn [app] in Hsc |- *.
    destruct (hist_app h _ _ HH Hsc) as (A & B & _ & _).
    set (h1 := hist_final h (map SRecv evs)) in *.
    pose proof (hist_final_HInv _ _ HH A) as HH1. fold h1 in HH1.
    destruct B as [Bs B].
    rewrite (wf_walk_recvs evs h true _ HH A). fold h1. cbn [wf_walk andb].
    rewrite Hfin. f_equal.
    assert (hist_final h (map SRecv evs ++ [fin]) = fst (hist_step h1 fin)) as ->.
    { assert (hist_scope h (map SRecv evs ++ [fin])) as Hsc'
        by (apply hist_scope_app_intro; [done | done | by split]).
      destruct (hist_app h _ _ HH Hsc') as (_ & _ & -> & _). fold h1. by rewrite hist_final_cons. }
    apply IH; [by apply hist_step_HInv | done | done].
Qed.

(** On the model's own observations, and on every run the correspondence check accepts, the
    second component of [walk] says exactly that every finalised lifetime satisfies [wf_drop] -
    the hypothesis of [C04_host_context_restored] (events after the last finalisation are not
    looked at). *)
Theorem walk_snd_lives_on_model : ∀ (ls : list life) tl,
  Forall (λ l : life, is_recv (snd l) = false) ls →
  let steps := lives_steps ls ++ map SRecv tl in
  hist_scope hist_init steps →
  snd (C04.walk steps (map iobs_of (hist_run hist_init steps)) empty_snap [] true)
  = wf_drop_lives hist_init ls.
Proof.
  intros ls tl Hf steps Hsc. rewrite (walk_snd_on_model _ Hsc).
  by apply wf_walk_lives; [apply HInv_init | |].
Qed.

Theorem walk_snd_lives_of_corr : ∀ (ls : list life) tl impl,
  Forall (λ l : life, is_recv (snd l) = false) ls →
  let steps := lives_steps ls ++ map SRecv tl in
  hist_scope hist_init steps → corr_history steps impl = true →
  snd (C04.walk steps impl empty_snap [] true) = wf_drop_lives hist_init ls.
Proof.
  intros ls tl impl Hf steps Hsc Hc. rewrite (walk_snd_of_corr _ _ Hsc Hc).
  by apply wf_walk_lives; [apply HInv_init | |].
Qed.

(** every history is of that form *)
Lemma steps_as_lives steps :
  ∃ (ls : list life) tl, Forall (λ l : life, is_recv (snd l) = false) ls ∧
                         steps = lives_steps ls ++ map SRecv tl.
Proof.
  induction steps as [|s r (ls & tl & Hf & ->)]; [by exists [], []|].
  destruct s as [ev|k|].
  - destruct ls as [|[evs fin] ls].
    + exists [], (ev :: tl). done.
    + exists ((ev :: evs, fin) :: ls), tl. apply Forall_cons in Hf as [Hfin Hf]. split; [by constructor|]. done.
  - exists (([], SPersist k) :: ls), tl. split; [by constructor|]. done.
  - exists (([], SDrop) :: ls), tl. split; [by constructor|]. done.
Qed.

(** * The model's snapshots are not always what [corr_history] accepts

    [snap_matches] requires the snapshot lists in strictly ascending key order (the harness sorts
    them); [snap_of] lists a [gmap] in the order of [map_to_list], which is not ascending.  So
    [corr_history steps (map iobs_of (hist_run hist_init steps))] can be [false], and the judge
    then answers [Mismatch] (never [PropFail], [judge_c04_on_model]) on the model's own
    observations as [iobs_of] renders them. *)
Example model_snapshot_not_ascending :
  let cs := mk_cs KSpan "f4"%string "t"%string LInfo None None None [] in
  let steps := [SRecv (ENewCallSite 2 cs); SRecv (ENewCallSite 3 cs)] in
  hist_scopeb hist_init steps = true
  ∧ map fst (sn_meta (C08.snap_of (h_st (hist_final hist_init steps)))) = [3; 2]%N
  ∧ corr_history steps (map iobs_of (hist_run hist_init steps)) = false
  ∧ judge_c04 steps (map iobs_of (hist_run hist_init steps)) true = Mismatch.
Proof. vm_compute. repeat split; reflexivity. Qed.

(** hence the unconditional statement "the model's own observations are judged [Agree]" is false;
    [judge_c04_agree_on_model_partial] (under [corr_history]) and [judge_c04_on_model] are what holds *)
Corollary judge_c04_agree_on_model_false :
  ¬ ∀ steps, hist_scope hist_init steps →
             judge_c04 steps (map iobs_of (hist_run hist_init steps)) true = Agree.
Proof.
  intros H. destruct model_snapshot_not_ascending as (Hsc & _ & _ & Hj).
  apply hist_scopeb_spec in Hsc. rewrite (H _ Hsc) in Hj. discriminate Hj.
Qed.

Print Assumptions judge_c04_ok_of_corr.
Print Assumptions judge_c04_agree_of_corr.
Print Assumptions judge_c04_on_model.
Print Assumptions judge_c04_agree_on_model_false.
Print Assumptions walk_snd_lives_on_model.
Print Assumptions walk_snd_lives_of_corr.
Print Assumptions judge_c04_ok_on_model.
