(** The judge of C15's operation sequences on the model's own output: the specification's
    observations (computed from the history alone) are the model's observations after every
    operation, so an implementation that does what the model does is judged [Agree]. *)
From TT Require Export Judge.C15.
From TT Require Import Values.ValuesProofs.

Lemma observe_denote probe ret h : observe probe ret (denote h) = spec_observe probe ret h.
Proof.
  unfold observe, spec_observe, iter, iter_back, into_iter.
  rewrite len_denote.
  assert (Hl : List.length (denote h) = List.length (keys_of h)) by (rewrite <- (denote_fst h), map_length; reflexivity).
  rewrite Hl. f_equal.
  - apply map_ext. intros k. apply get_denote.
  - rewrite is_empty_denote. destruct h as [|[k v] r]; [reflexivity|]. unfold keys_of. cbn. reflexivity.
  - apply map_ext. intros k. apply index_denote.
Qed.

Lemma vstep_denote h o :
  vstep (denote h) o = (denote (hstep h o), match o with OpInsert k _ => last_val h k | _ => None end).
Proof.
  destruct o as [k v|l|l|l]; cbn [vstep hstep].
  - apply insert_denote.
  - rewrite extend_denote. reflexivity.
  - rewrite from_iter_denote. reflexivity.
  - rewrite deser_denote. reflexivity.
Qed.

Theorem model_obs_is_spec_obs probe : forall ops h, model_obs probe (denote h) ops = spec_obs probe h ops.
Proof.
  induction ops as [|o ops IH]; intros h; [reflexivity|].
  cbn [model_obs spec_obs]. rewrite vstep_denote. rewrite observe_denote, IH. reflexivity.
Qed.

Lemma vobs_eqb_refl a : vobs_eqb a a = true.
Proof.
  unfold vobs_eqb, kvs_eqb.
  assert (T : forall x, tvalue_eqb x x = true).
  { intros x. destruct x; cbn; rewrite ?Bool.eqb_reflx, ?Z.eqb_refl, ?N.eqb_refl, ?String.eqb_refl; try reflexivity.
    apply andb_true_iff. split; [reflexivity|]. induction chain as [|c r IH]; cbn; [reflexivity|]. rewrite String.eqb_refl. exact IH. }
  assert (O : forall x, option_eqb tvalue_eqb x x = true) by (intros [x|]; cbn; auto).
  assert (K : forall l : list (string * tvalue), list_eqb (pair_eqb String.eqb tvalue_eqb) l l = true).
  { induction l as [|[k v] l IH]; cbn; [reflexivity|]. unfold pair_eqb at 1. cbn. rewrite String.eqb_refl, T, IH. reflexivity. }
  assert (L : forall l, list_eqb (option_eqb tvalue_eqb) l l = true).
  { induction l as [|x l IH]; cbn; [reflexivity|]. rewrite O, IH. reflexivity. }
  rewrite O, !N.eqb_refl, !K, !L, Bool.eqb_reflx. reflexivity.
Qed.

Theorem judge_ops_ok_on_model ops probe : judge_ops ops probe (model_obs probe [] ops) = Agree.
Proof.
  unfold judge_ops, judge_of. cbn [negb].
  assert (R : forall l, list_eqb vobs_eqb l l = true).
  { induction l as [|x l IH]; cbn; [reflexivity|]. rewrite vobs_eqb_refl, IH. reflexivity. }
  pose proof (model_obs_is_spec_obs probe ops []) as E. change (denote []) with (@nil (string * tvalue)) in E.
  rewrite <- E, !R. reflexivity.
Qed.

(** ** the conversion judges on the model's own answers *)
From TT Require Import Values.ValueProofs.

Lemma tconst_eqb_refl y : tconst_eqb y y = true.
Proof. destruct y; cbn; rewrite ?Bool.eqb_reflx, ?Z.eqb_refl, ?N.eqb_refl, ?String.eqb_refl; reflexivity. Qed.

Theorem judge_conv_ok_on_model v x :
  judge_conv v x (eq_vc v x) (eq_cv x v) (as_type (type_of x) v) = Agree \/
  judge_conv v x (eq_vc v x) (eq_cv x v) (as_type (type_of x) v) = OutOfScope.
Proof.
  unfold judge_conv, judge_of. destruct (wf_value v && wf_const x) eqn:Hwf; [|right; reflexivity]. left. cbn [negb].
  apply andb_true_iff in Hwf as [_ Hwx].
  assert (Hcorr : Bool.eqb (eq_vc v x) (eq_vc v x) && Bool.eqb (eq_cv x v) (eq_cv x v)
                  && option_eqb tconst_eqb (as_type (type_of x) v) (as_type (type_of x) v) = true).
  { rewrite !Bool.eqb_reflx. cbn. destruct (as_type (type_of x) v); cbn; [apply tconst_eqb_refl | reflexivity]. }
  rewrite Hcorr.
  assert (Hok : conv_ok v x (eq_vc v x) (eq_cv x v) (as_type (type_of x) v) = true).
  { unfold conv_ok. rewrite eq_cv_sym, Bool.eqb_reflx. cbn [andb].
    assert (H2 : Bool.eqb (eq_vc v x) (match as_type (type_of x) v with Some y => const_eq y x | None => false end) = true).
    { pose proof (eq_vc_iff_accessor v x Hwx) as Hiff.
      destruct (as_type (type_of x) v) as [y|] eqn:Ea.
      - destruct (eq_vc v x) eqn:E1, (const_eq y x) eqn:E2; try reflexivity.
        + destruct (proj1 Hiff eq_refl) as (y0 & Hy0 & Hc). injection Hy0 as <-. congruence.
        + assert (false = true) by (apply Hiff; eauto). discriminate.
      - destruct (eq_vc v x) eqn:E1; [|reflexivity].
        destruct (proj1 Hiff eq_refl) as (y0 & Hy0 & _). discriminate. }
    rewrite H2. cbn [andb].
    assert (H3 : match x, v with
                 | CI64 _, VInt z => option_eqb tconst_eqb (as_type (type_of x) v) (if fits_i64 z then Some (CI64 z) else None)
                 | CU64 _, VUInt z => option_eqb tconst_eqb (as_type (type_of x) v) (if fits_u64 z then Some (CU64 z) else None)
                 | _, _ => true
                 end = true).
    { destruct x, v; try reflexivity; cbn.
      - destruct (fits_i64 z0); cbn; [apply Z.eqb_refl | reflexivity].
      - destruct (fits_u64 z0); cbn; [apply Z.eqb_refl | reflexivity]. }
    rewrite H3. cbn [andb].
    destruct (as_type (type_of x) v) as [y|] eqn:Ea; [|reflexivity].
    apply as_type_kind in Ea. rewrite Ea. destruct (type_of x); reflexivity. }
  rewrite Hok. reflexivity.
Qed.

Theorem judge_debug_ok_on_model v r : judge_debug v r (as_debug_str v) (is_debug v r) = Agree.
Proof.
  unfold judge_debug, judge_of. cbn [negb].
  assert (S : forall o : option string, option_eqb String.eqb o o = true) by (intros [s|]; cbn; [apply String.eqb_refl | reflexivity]).
  rewrite S, Bool.eqb_reflx. cbn.
  destruct v; cbn; rewrite ?String.eqb_refl, ?Bool.eqb_reflx; reflexivity.
Qed.
