(** Correspondence judge for C13 (evaluated by [vm_compute] on cases written by the harness).

    A case is a guest program and a host filter (a metadata predicate from the small AST [hfilter]).
    The program is executed with the real [tracing] API
    (i) natively under a recording [Subscriber] that enables everything ([fo_unfiltered]);
    (ii) natively under a recording subscriber that answers [enabled] / [register_callsite] (and, for
        level thresholds, [max_level_hint]) from the predicate ([fo_native]): the macro replica of the
        guest interpreter then skips the disabled spans and events as the [span!] / [event!] macros do;
    (iii) under a real [TracingEventSender], the events (after a JSON round trip) being replayed
        through a real [TracingEventReceiver] under a fresh recording subscriber configured with the
        same predicate ([fo_tunnel]);
    (iv) as (ii) and (iii) under [Registry + CaptureLayer + predicate layer], the two storages being
        dumped through the public API and compared by the harness ([fo_snap]). *)
From TT Require Export Base.Worst Tunnel.Tunnel.
From TT Require Import Values.ValuesProofs Tunnel.TypesProofs Tunnel.TunnelProofs.
From stdpp Require Import gmap.

Record fobs := mk_fobs {
  fo_unfiltered : list scall;
  fo_native : list scall;
  fo_tunnel : list hcall;
  fo_accepted : bool;          (* every [try_receive] returned [Ok] *)
  fo_snap : bool;              (* native and tunnelled forests equal under Registry + CaptureLayer + a global filter layer *)
  (* the same under a host that filters inside the capture layer ([CaptureLayer::with_filter], the
     filter memoising its verdict per call-site identifier): the one host configuration whose filter
     the receiver cannot bypass, so the forests must be equal inside the known class as well *)
  fo_layer_snap : bool }.

Definition cmid : nat -> N := N.of_nat.

Definition c13_enabled (f : hfilter) (p : prog) : nat -> bool :=
  site_enabled (eval_filter f) (p_sites p).

(** hypotheses: well-formed, single-threaded, below the wrap, outside the known class of C01 *)
Definition c13_hyp (p : prog) : bool :=
  wf_prog_b p && single_threaded p && (spans_created (p_ops p) <=? U32 - 1)%N
  && negb (known_explicit_root p).

Definition reg_subset (model impl : list scall) : bool :=
  forallb (fun c => negb (is_register c) || existsb (scall_eqb c) impl) model.

Definition c13_corr (f : hfilter) (p : prog) (o : fobs) : bool :=
  let enabled := c13_enabled f p in
  list_eqb scall_eqb (op_calls (native_calls all_enabled p)) (op_calls (fo_unfiltered o))
  && list_eqb scall_eqb (op_calls (native_calls enabled p)) (op_calls (fo_native o))
  && reg_subset (native_calls enabled p) (fo_native o)
  && list_eqb hc_eqb (strip_reg (tunnel_calls_under enabled cmid p)) (strip_reg (fo_tunnel o))
  && Bool.eqb (forallb is_accepted_o (tunnel_outcomes cmid p)) (fo_accepted o)
  && list_eqb scall_eqb (op_calls (fo_native o)) (op_calls (restrict_calls enabled (fo_unfiltered o))).

(** the property's executable statement on the implementation's own output: nothing is rejected;
    everything the host enables is delivered (the filtered native trace is the tunnelled trace
    restricted to the enabled call sites, C13_enabled_subtrace); and nothing else is (the tunnelled
    trace is the filtered native trace; the captured forests are equal) *)
Definition c13_delivered (f : hfilter) (p : prog) (o : fobs) : bool :=
  list_eqb hc_eqb (map unroot (strip_reg (normalise (p_sites p) (fo_native o))))
                  (map unroot (restrict_hcalls (eval_filter f) (strip_reg (fo_tunnel o)))).
Definition c13_ok (f : hfilter) (p : prog) (o : fobs) : bool :=
  fo_accepted o && c13_delivered f p o
  && list_eqb hc_eqb (strip_reg (fo_tunnel o)) (strip_reg (canon (normalise (p_sites p) (fo_native o))))
  && fo_snap o && fo_layer_snap o.

(** the recorded deviation of the known class (F7): the host receives the unfiltered trace
    (C13_enabled_still_delivered), nothing is rejected and everything enabled is delivered *)
Definition c13_recorded (f : hfilter) (p : prog) (o : fobs) : bool :=
  fo_accepted o && c13_delivered f p o
  && list_eqb hc_eqb (strip_reg (fo_tunnel o))
                     (map unroot (strip_reg (normalise (p_sites p) (fo_unfiltered o))))
  && fo_layer_snap o.

(** known class 1 (host-filter-ignored) *)
Definition judge_c13 (f : hfilter) (p : prog) (o : fobs) : verdict :=
  if negb (c13_hyp p) then OutOfScope
  else if negb (c13_ok f p o) then
    (if known_host_filter (c13_enabled f p) p && c13_recorded f p o then KnownF 1 else PropFail)
  else if negb (c13_corr f p o) then Mismatch
  else Agree.

(** * The equalities are equalities *)
Lemma sparent_eqb_spec a b : sparent_eqb a b = true <-> a = b.
Proof.
  destruct a, b; cbn [sparent_eqb]; try (split; [discriminate | discriminate || congruence]);
    try (split; reflexivity).
  rewrite N.eqb_eq. split; [intros ->; reflexivity | intros [= ->]; reflexivity].
Qed.

Lemma scall_eqb_spec a b : scall_eqb a b = true <-> a = b.
Proof.
  destruct a, b; cbn [scall_eqb]; try (split; [discriminate | discriminate || congruence]);
    rewrite ?andb_true_iff, ?N.eqb_eq, ?Nat.eqb_eq, ?sparent_eqb_spec, ?tvalues_eqb_spec.
  all: split; [intros H; decompose [and] H; subst; reflexivity | intros [= -> ]; subst; repeat split; reflexivity].
Qed.

Lemma hcalls_eqb_spec a b : list_eqb hc_eqb a b = true <-> a = b.
Proof. apply list_eqb_spec. exact hc_eqb_spec. Qed.
Lemma scalls_eqb_spec a b : list_eqb scall_eqb a b = true <-> a = b.
Proof. apply list_eqb_spec. exact scall_eqb_spec. Qed.

(** * What the verdicts mean *)
Theorem judge_c13_agree f p o :
  judge_c13 f p o = Agree ->
  op_calls (fo_native o) = op_calls (native_calls (c13_enabled f p) p)
  /\ strip_reg (fo_tunnel o) = strip_reg (tunnel_calls cmid p)
  /\ strip_reg (fo_tunnel o) = strip_reg (canon (normalise (p_sites p) (fo_native o)))
  /\ fo_accepted o = true /\ fo_snap o = true /\ fo_layer_snap o = true.
Proof.
  unfold judge_c13. destruct (c13_hyp p); [|discriminate]. cbn [negb].
  destruct (c13_ok f p o) eqn:E1; [|destruct (_ && _); discriminate]. cbn [negb].
  destruct (c13_corr f p o) eqn:E3; [|discriminate]. intros _.
  unfold c13_ok in E1. unfold c13_corr, tunnel_calls_under in E3.
  repeat match goal with H : _ && _ = true |- _ => apply andb_true_iff in H as [? ?] end.
  repeat match goal with H : list_eqb hc_eqb _ _ = true |- _ => apply hcalls_eqb_spec in H end.
  repeat match goal with H : list_eqb scall_eqb _ _ = true |- _ => apply scalls_eqb_spec in H end.
  split_and!; congruence.
Qed.

(** the model's own output: always the recorded behaviour (so never [PropFail] inside the known
    class), and [Agree] outside the class *)
Definition model_fobs (f : hfilter) (p : prog) : fobs :=
  mk_fobs (native_calls all_enabled p) (native_calls (c13_enabled f p) p) (tunnel_calls cmid p)
          (forallb is_accepted_o (tunnel_outcomes cmid p)) true true.

Lemma cmid_inj a b : cmid a = cmid b -> a = b.
Proof. unfold cmid. lia. Qed.

Theorem judge_c13_model_recorded f p :
  c13_hyp p = true -> c13_recorded f p (model_fobs f p) = true.
Proof.
  intros Hh. unfold c13_hyp in Hh. apply andb_true_iff in Hh as [Hh Hk].
  apply andb_true_iff in Hh as [Hh Hb]. apply andb_true_iff in Hh as [Hwf Hst]. apply N.leb_le in Hb.
  destruct (tunnel_is_identity_upto_root_proof cmid p cmid_inj Hwf Hb) as [Hr Ho].
  unfold c13_recorded, c13_delivered, model_fobs. cbn [fo_unfiltered fo_native fo_tunnel fo_accepted fo_layer_snap].
  rewrite andb_true_r.
  apply andb_true_iff. split; [apply andb_true_iff; split|].
  - rewrite Ho. apply forallb_forall. intros x Hx. apply repeat_spec in Hx. subst x. reflexivity.
  - apply hcalls_eqb_spec. exact (enabled_subtrace_proof (eval_filter f) cmid p cmid_inj Hwf Hb).
  - apply hcalls_eqb_spec. exact Hr.
Qed.

Theorem judge_c13_model f p :
  c13_hyp p = true -> known_host_filter (c13_enabled f p) p = false ->
  judge_c13 f p (model_fobs f p) = Agree.
Proof.
  intros Hh Hf. unfold judge_c13. rewrite Hh. cbn [negb].
  pose proof (judge_c13_model_recorded f p Hh) as Hrec.
  unfold c13_hyp in Hh. apply andb_true_iff in Hh as [Hh Hk]. apply negb_true_iff in Hk.
  apply andb_true_iff in Hh as [Hh Hb]. apply andb_true_iff in Hh as [Hwf Hst]. apply N.leb_le in Hb.
  pose proof (tunnel_is_native_filtered_proof _ cmid p cmid_inj Hwf Hst Hb Hk Hf) as Hfull.
  unfold c13_recorded in Hrec. apply andb_true_iff in Hrec as [Hrec _]. apply andb_true_iff in Hrec as [Hrec _].
  apply andb_true_iff in Hrec as [Ha Hd].
  assert (E1 : c13_ok f p (model_fobs f p) = true).
  { unfold c13_ok. rewrite Ha, Hd. cbn [andb model_fobs fo_native fo_tunnel fo_snap fo_layer_snap]. rewrite !andb_true_r.
    apply hcalls_eqb_spec. exact Hfull. }
  assert (E3 : c13_corr f p (model_fobs f p) = true).
  { unfold c13_corr, model_fobs, tunnel_calls_under. cbn [fo_unfiltered fo_native fo_tunnel fo_accepted].
    rewrite !(proj2 (scalls_eqb_spec _ _) eq_refl), (proj2 (hcalls_eqb_spec _ _) eq_refl), eqb_reflx.
    rewrite !andb_true_r. cbn [andb]. apply andb_true_iff. split.
    - apply forallb_forall. intros c Hc.
      destruct (is_register c); [|reflexivity]. cbn [negb orb]. apply existsb_exists. exists c.
      split; [exact Hc | apply scall_eqb_spec; reflexivity].
    - apply scalls_eqb_spec. f_equal. apply native_filtered_is_restriction_proof. exact Hwf. }
  rewrite E1, E3. reflexivity.
Qed.

(** detection examples *)
Example judge_c13_detects :
  let p := wit_filter in
  let info := FMaxLevel LInfo in
  let debug := FMaxLevel LDebug in
  judge_c13 debug p (model_fobs debug p) = Agree
  /\ judge_c13 info p (model_fobs info p) = KnownF 1
  (* a receiver that consulted the filter (the DEBUG span and its traffic withheld) would satisfy
     the property: only the correspondence with the current model would break *)
  /\ judge_c13 info p
       (mk_fobs (native_calls all_enabled p) (native_calls (c13_enabled info p) p)
                (normalise (p_sites p) (native_calls (c13_enabled info p) p)) true true true) = Mismatch
  (* an event rejected because of the filter *)
  /\ judge_c13 info p
       (mk_fobs (native_calls all_enabled p) (native_calls (c13_enabled info p) p)
                (tunnel_calls cmid p) false true true) = PropFail
  (* an enabled event lost on the way *)
  /\ judge_c13 debug p
       (mk_fobs (native_calls all_enabled p) (native_calls all_enabled p)
                (List.filter (fun c => match c with HEvent _ _ _ => false | _ => true end) (tunnel_calls cmid p))
                true true true) = PropFail.
Proof. vm_compute. repeat split. Qed.
