(** Correspondence judge for C08 (evaluated by [vm_compute] on cases written by the harness).

    A case is a history (receive / persist keeping or losing the local map / drop) and what the
    implementation did after every step: outcome, host calls as seen by the recording subscriber,
    snapshot of the receiver state (through the verif hook).

    [hyp]:  no step re-announces an alive span id (C06's proviso), evaluated on the model run.
    [corr]: [corr_history] (Judge/Recv.v).
    [ok]:   evaluated on the IMPLEMENTATION's observations only, by [walk]:
            - the strict tracker of ReceiverSpec.v, started from the empty set, accepts every host
              call of the implementation in the order the host saw them (ids open when used, new ids
              not open, closes hit open ids);
            - an accepted [SpanDropped id] whose previous snapshot shows one handle closes exactly the
              host span the previous snapshot maps [id] to (one [try_close] and nothing else, or no
              call when there is no host span) and removes [id] from spans and local map; with more
              handles, or for a clone, nothing reaches the host and the host id stays; no other
              event closes a host span;
            - as long as the history consisted of receive / persist-keep steps only, after every
              step the tracker's open set is exactly the range of the snapshot's local map, and a
              snapshot without spans has an empty local map and nothing open. *)
From TT Require Import Tunnel.TypesProofs.
From TT Require Export Judge.Recv Tunnel.ReceiverSpec.
From TT Require Import Tunnel.ReceiverInv Tunnel.ReceiverHistInv Tunnel.ReceiverTrack Tunnel.ReceiverAbs Tunnel.ReceiverAbsProofs.
From stdpp Require Import gmap.
Arguments firstn : simpl never.
Arguments skipn : simpl never.
Arguments chunks : simpl never.
Arguments extend : simpl never.
Arguments host_vals : simpl never.

(** * hypotheses *)
Definition step_scope_b (h : hist) (s : hstep) : bool :=
  match s with SRecv ev => no_reannounce (h_st h) ev | _ => true end.

Fixpoint hist_scope_b (h : hist) (steps : list hstep) : bool :=
  match steps with
  | [] => true
  | s :: r => step_scope_b h s && hist_scope_b (fst (hist_step h s)) r
  end.

(** * the executable statement on implementation observations *)
Definition iobs_calls (i : iobs) : list hcall :=
  match i with
  | IRecv _ c _ => c
  | IPersist exits _ _ regs _ => exits ++ regs
  | IDrop c regs _ => c ++ regs
  end.
Definition iobs_snap (i : iobs) : snap :=
  match i with IRecv _ _ s | IPersist _ _ _ _ s | IDrop _ _ s => s end.
Definition snap_empty : snap := mk_snap [] [] [] [] [].

Fixpoint alookup {V} (k : N) (l : list (N * V)) : option V :=
  match l with
  | [] => None
  | (k', v) :: r => if N.eqb k k' then Some v else alookup k r
  end.

Definition keep_step_b (s : hstep) : bool :=
  match s with SRecv _ | SPersist true => true | _ => false end.

(** [calls] is exactly the close of [oh] (nothing when there is no host span) *)
Definition calls_are_close (calls : list hcall) (oh : option N) : bool :=
  match calls, oh with
  | [], None => true
  | [HTryClose x], Some h => N.eqb x h
  | _, _ => false
  end.
Definition no_calls (calls : list hcall) : bool := match calls with [] => true | _ => false end.
Definition absent {V} (o : option V) : bool := match o with None => true | Some _ => false end.

Definition drop_ok (prev : snap) (s : hstep) (i : iobs) : bool :=
  match s, i with
  | SRecv (ESpanDropped id), IRecv Accepted calls now =>
      match alookup id (sn_spans prev) with
      | Some d =>
          if (sd_refs d =? 1)%N then
            calls_are_close calls (alookup id (sn_local prev))
            && absent (alookup id (sn_local now)) && absent (alookup id (sn_spans now))
          else
            no_calls calls
            && option_eqb N.eqb (alookup id (sn_local now)) (alookup id (sn_local prev))
      | None => no_calls calls
      end
  | SRecv (ESpanCloned id), IRecv Accepted calls now =>
      no_calls calls && option_eqb N.eqb (alookup id (sn_local now)) (alookup id (sn_local prev))
  | SRecv _, IRecv _ calls _ => forallb (fun c => negb (is_close c)) calls
  | _, _ => true
  end.

Definition range_set (l : list (N * N)) : gset N := list_to_set (map snd l).

Definition exact_ok (s : snap) (opn : gset N) : bool :=
  bool_decide (opn = range_set (sn_local s))
  && match sn_spans s with
     | [] => match sn_local s with [] => bool_decide (opn = ∅) | _ => false end
     | _ => true
     end.

Fixpoint walk (prev : snap) (opn : gset N) (keep : bool) (steps : list hstep) (impl : list iobs)
  : bool :=
  match steps, impl with
  | s :: steps', i :: impl' =>
      match track_all opn (iobs_calls i) with
      | None => false
      | Some opn' =>
          let keep' := keep && keep_step_b s in
          drop_ok prev s i
          && (if keep' then exact_ok (iobs_snap i) opn' else true)
          && walk (iobs_snap i) opn' keep' steps' impl'
      end
  | _, [] => true                    (* the implementation stopped (after a panic) *)
  | [], _ :: _ => false              (* more observations than steps: malformed case *)
  end.

Definition ok_c08 (steps : list hstep) (impl : list iobs) : bool := walk snap_empty ∅ true steps impl.

(** ** handle counts derived from the history itself.

    [walk] decides "last handle" from the handle count in the implementation's own previous
    snapshot; a receiver that miscounts handles would be judged by its own miscount (seeded change
    C08-4: the decremented count is not written back, so a cloned span never reaches zero and its
    host span leaks).  [refs_ok] recomputes the counts from the accepted events alone - [NewSpan]
    gives 1, [SpanCloned] adds one, [SpanDropped] takes one away and forgets the span at zero;
    persist commits, drop goes back to the last commit - and requires, after every step, that the
    spans of the implementation's snapshot are exactly the spans with a handle outstanding, with
    these counts. *)
Fixpoint aset {V} (k : N) (v : V) (l : list (N * V)) : list (N * V) :=
  match l with
  | [] => [(k, v)]
  | (k', v') :: r => if N.eqb k k' then (k, v) :: r else (k', v') :: aset k v r
  end.
Fixpoint adel {V} (k : N) (l : list (N * V)) : list (N * V) :=
  match l with
  | [] => []
  | (k', v') :: r => if N.eqb k k' then r else (k', v') :: adel k r
  end.

Definition refs_event (refs : list (N * N)) (ev : event) : list (N * N) :=
  match ev with
  | ENewSpan id _ _ _ => aset id 1%N refs
  | ESpanCloned id => match alookup id refs with Some n => aset id (n + 1)%N refs | None => refs end
  | ESpanDropped id => match alookup id refs with
                       | Some n => if (n <=? 1)%N then adel id refs else aset id (n - 1)%N refs
                       | None => refs
                       end
  | _ => refs
  end.

Definition refs_match (refs : list (N * N)) (s : snap) : bool :=
  Nat.eqb (List.length refs) (List.length (sn_spans s))
  && forallb (fun kd => option_eqb N.eqb (alookup (fst kd) refs) (Some (sd_refs (snd kd)))) (sn_spans s).

Fixpoint refs_walk (refs committed : list (N * N)) (steps : list hstep) (impl : list iobs) : bool :=
  match steps, impl with
  | s :: steps', i :: impl' =>
      let '(refs', committed') :=
        match s, i with
        | SRecv ev, IRecv Accepted _ _ => (refs_event refs ev, committed)
        | SRecv _, _ => (refs, committed)
        | SPersist _, _ => (refs, refs)
        | SDrop, _ => (committed, committed)
        end in
      refs_match refs' (iobs_snap i) && refs_walk refs' committed' steps' impl'
  | _, _ => true
  end.
Definition refs_ok (steps : list hstep) (impl : list iobs) : bool := refs_walk [] [] steps impl.

Definition judge_c08 (steps : list hstep) (impl : list iobs) : verdict :=
  (* The property text carries no proviso, so the executable statement is evaluated on every
     history; the theorems of Props/C08.v are proved under C06's proviso ([hist_scope]): outside
     it (a span id re-announced while alive) the verdict rests on the correspondence and on the
     tracker run on the implementation's own calls. *)
  judge_of true (corr_history steps impl) (ok_c08 steps impl && refs_ok steps impl).

(** * specifications of the boolean helpers *)
Lemma step_scope_b_spec h s : step_scope_b h s = true ↔ step_scope h s.
Proof. destruct s; simpl; [done | split; done..]. Qed.

Lemma hist_scope_b_spec steps h : hist_scope_b h steps = true ↔ hist_scope h steps.
Proof.
  revert h. induction steps as [|s r IH]; intros h; simpl; [done|].
  rewrite andb_true_iff, step_scope_b_spec, IH. done.
Qed.

Lemma calls_are_close_spec calls oh :
  calls_are_close calls oh = true ↔
  calls = match oh with Some h => [HTryClose h] | None => [] end.
Proof.
  unfold calls_are_close. destruct calls as [|c [|c' r]], oh as [h|]; try destruct c;
    split; intros H; simplify_eq; try done.
  - apply N.eqb_eq in H. by subst.
  - apply N.eqb_refl.
Qed.

Lemma no_calls_spec calls : no_calls calls = true ↔ calls = [].
Proof. destruct calls; done. Qed.

Lemma absent_spec {V} (o : option V) : absent o = true ↔ o = None.
Proof. destruct o; done. Qed.

Lemma keep_step_b_spec s : keep_step_b s = true ↔ keep_step s.
Proof. destruct s as [|[]|]; simpl; split; done. Qed.

Lemma alookup_Some {V} k (l : list (N * V)) v :
  NoDup l.*1 → alookup k l = Some v ↔ (k, v) ∈ l.
Proof.
  induction l as [|[k' v'] l IH]; intros Hnd; simpl.
  - split; [done|]. intros H. by apply elem_of_nil in H.
  - rewrite fmap_cons in Hnd. apply NoDup_cons in Hnd as [Hni Hnd]. simpl in Hni.
    destruct (N.eqb_spec k k') as [->|Hne].
    + split.
      * intros [= ->]. by left.
      * intros H. apply elem_of_cons in H as [[= ->]|H]; [done|].
        exfalso. apply Hni. apply elem_of_list_fmap. exists (k', v). done.
    + rewrite IH by done. split.
      * intros H. by right.
      * intros H. apply elem_of_cons in H as [[= -> ->]|H]; done.
Qed.

Lemma alookup_map_to_list {V} (m : gmap N V) k : alookup k (map_to_list m) = m !! k.
Proof.
  apply option_eq. intros v. rewrite alookup_Some by apply NoDup_fst_map_to_list.
  apply elem_of_map_to_list.
Qed.

Lemma elem_of_range_set l h : h ∈ range_set l ↔ ∃ id, (id, h) ∈ l.
Proof.
  unfold range_set. rewrite elem_of_list_to_set, elem_of_list_In, in_map_iff. split.
  - intros ([id h'] & <- & Hin). exists id. by apply elem_of_list_In.
  - intros [id Hin]. exists (id, h). split; [done | by apply elem_of_list_In].
Qed.

(** * the model's own observations pass [ok] on every history in scope *)
Definition snap_of (st : rstate) : snap :=
  mk_snap (map_to_list (r_meta st)) (map_to_list (r_spans st)) (map_to_list (r_local st))
          (elements (r_uncommitted st)) (map_to_list (r_entered st)).

Definition iobs_of (m : mobs) : iobs :=
  match m with
  | MRecv o c st => IRecv o c (snap_of st)
  | MPersist exits spans md regs st => IPersist exits (map_to_list spans) (map_to_list md) regs (snap_of st)
  | MDrop c regs st => IDrop c regs (snap_of st)
  end.

Lemma iobs_calls_of m : iobs_calls (iobs_of m) = mobs_calls m.
Proof. by destruct m. Qed.

Lemma hist_step_snap h s : iobs_snap (iobs_of (hist_step h s).2) = snap_of (h_st (hist_step h s).1).
Proof.
  destruct s as [ev|keep|]; simpl.
  - by destruct (try_receive (h_st h) (h_w h) ev) as [[[o st'] w'] calls].
  - unfold persist. by destruct (restore _ _ _ _) as [[st' w'] regs].
  - by destruct (restore _ _ _ _) as [[st' w'] regs].
Qed.

Lemma exact_ok_model st opn : Inv st → Exact (r_local st) opn → exact_ok (snap_of st) opn = true.
Proof.
  intros HI HE. unfold exact_ok, snap_of. cbn [sn_local sn_spans].
  assert (opn = range_set (map_to_list (r_local st))) as Hr.
  { apply set_eq. intros h. rewrite elem_of_range_set, (HE h).
    split; intros [id Hid]; exists id; by apply elem_of_map_to_list. }
  rewrite bool_decide_eq_true_2 by done. simpl.
  destruct (map_to_list (r_spans st)) eqn:Es; [|done].
  apply map_to_list_empty_iff in Es.
  rewrite (Inv_no_spans_no_local _ HI Es) in *. rewrite map_to_list_empty.
  apply bool_decide_eq_true_2. by apply Exact_empty.
Qed.

Lemma no_close_forallb calls :
  (∀ h, ¬ In (HTryClose h) calls) → forallb (fun c => negb (is_close c)) calls = true.
Proof.
  intros H. apply forallb_forall. intros c Hc. destruct c; try done. exfalso. by eapply H.
Qed.

Lemma drop_ok_model st w ev o st' w' calls :
  Inv st → try_receive st w ev = (o, st', w', calls) →
  drop_ok (snap_of st) (SRecv ev) (IRecv o calls (snap_of st')) = true.
Proof.
  intros HI H.
  assert ((∀ id, ev ≠ ESpanDropped id) → forallb (fun c => negb (is_close c)) calls = true) as Hnc.
  { intros Hne. apply no_close_forallb. intros h Hin.
    destruct (close_only_at_last_drop _ _ _ _ _ _ _ _ H Hin) as (id & d & -> & _). by eapply Hne. }
  assert (o ≠ Accepted → calls = []) as Hrej.
  { intros Ho. destruct o as [|e|]; [done | by apply reject_no_effect in H as (_ & _ & ->) |].
    by eapply recv_total in H. }
  destruct ev as [id d|id p m vs|a b|id|id|id|id|id vs|m p vs];
    try (destruct o; simpl; by apply Hnc).
  - (* cloned *)
    destruct o; simpl; try (by apply Hnc).
    apply clone_no_calls in H as (-> & _ & El). simpl.
    rewrite !alookup_map_to_list, El. apply option_eqb_spec; [apply N.eqb_eq | done].
  - (* dropped *)
    destruct o; simpl; try (rewrite Hrej by done; done).
    rewrite !alookup_map_to_list.
    destruct (r_spans st !! id) as [d|] eqn:Es.
    + destruct (close_at_last_drop _ _ _ _ _ _ _ _ HI Es H) as (_ & _ & Hc).
      destruct (sd_refs d =? 1)%N.
      * destruct Hc as (E1 & E2 & ->). rewrite E1, E2, !lookup_delete. simpl.
        rewrite !andb_true_r. by apply calls_are_close_spec.
      * destruct Hc as (-> & E2 & _). rewrite E2. simpl.
        apply option_eqb_spec; [apply N.eqb_eq | done].
    + simpl in H. rewrite Es in H. unfold reject in H. simplify_eq.
Qed.

Lemma walk_model steps : ∀ h opn keep,
  HInv h → TInv (h_st h) (h_w h) opn → hist_scope h steps →
  (keep = true → Exact (r_local (h_st h)) opn) →
  walk (snap_of (h_st h)) opn keep steps (map iobs_of (hist_run h steps)) = true.
Proof.
  induction steps as [|s r IH]; intros h opn keep HH HT Hsc HE; [done|].
  destruct Hsc as [Hs Hr].
  pose proof (hist_step_HInv h s HH Hs) as HH'.
  destruct (hist_step_track h s opn HH HT Hs) as (opn1 & Ht1 & HT1 & HE1).
  pose proof (hist_step_snap h s) as Hsn.
  assert (drop_ok (snap_of (h_st h)) s (iobs_of (hist_step h s).2) = true) as Hd.
  { destruct s as [ev|k|]; [|done..]. simpl.
    destruct (try_receive (h_st h) (h_w h) ev) as [[[o st'] w'] calls] eqn:E. simpl.
    eapply drop_ok_model; [apply HH | exact E]. }
  cbn [hist_run]. destruct (hist_step h s) as [h' o]. simpl in *.
  cbn [map walk]. rewrite iobs_calls_of, Ht1, Hd, Hsn. cbn [andb].
  assert (keep && keep_step_b s = true → Exact (r_local (h_st h')) opn1) as HE'.
  { intros Hk. apply andb_true_iff in Hk as [-> Hk]. apply keep_step_b_spec in Hk. eauto. }
  apply andb_true_iff. split.
  - destruct (keep && keep_step_b s) eqn:Ek; [|done]. apply exact_ok_model; [apply HH' | eauto].
  - destruct (is_panic o); [by destruct r|]. by apply IH.
Qed.

(** On every history in scope the observations of the MODEL pass [ok_c08]: together with
    [corr_history] (model = implementation, step by step) this is what makes a [PropFail]
    impossible without a [Mismatch], and what links the theorems of Props/C08.v to [ok_c08]. *)
Theorem ok_c08_model steps :
  hist_scope hist_init steps → ok_c08 steps (map iobs_of (hist_run hist_init steps)) = true.
Proof.
  intros Hsc. unfold ok_c08.
  assert (snap_empty = snap_of (h_st hist_init)) as ->.
  { unfold snap_of, snap_empty. simpl. by rewrite !map_to_list_empty, elements_empty. }
  apply walk_model; [apply HInv_init | apply TInv_init | done | intros _; apply Exact_init].
Qed.

(** [ok_c08] implies the plain statement: the tracker accepts the concatenation of the calls of
    the steps that were checked *)
Lemma walk_track_all prev steps : ∀ opn keep impl,
  List.length impl = List.length steps → walk prev opn keep steps impl = true →
  ∃ opn', track_all opn (flat_map iobs_calls impl) = Some opn'.
Proof.
  revert prev. induction steps as [|s r IH]; intros prev opn keep [|i impl] Hlen H; simplify_eq/=.
  - eauto.
  - destruct (track_all opn (iobs_calls i)) as [opn1|] eqn:E; [|done].
    apply andb_true_iff in H as [_ H]. destruct (IH _ _ _ _ Hlen H) as [opn' Ht].
    exists opn'. by eapply track_all_app_Some.
Qed.

(** * the model's own observations pass [refs_ok] on every history in scope: the counts recomputed
    from the events are the handle counts of the reference state ([spec_step], ReceiverSpec.v), which
    the model's persisted spans equal by the refinement theorem *)
Lemma alookup_aset {V} k j (v : V) l : alookup k (aset j v l) = if N.eqb k j then Some v else alookup k l.
Proof.
  induction l as [|[k' v'] l IH]; simpl.
  - destruct (N.eqb k j); done.
  - destruct (N.eqb_spec j k') as [->|Hne]; simpl.
    + destruct (N.eqb k k'); done.
    + rewrite IH. destruct (N.eqb_spec k k') as [->|]; [|done].
      destruct (N.eqb_spec k' j); [congruence | done].
Qed.

Lemma aset_keys {V} j (v : V) l k : k ∈ (aset j v l).*1 ↔ k = j ∨ k ∈ l.*1.
Proof.
  induction l as [|[k' v'] l IH]; simpl.
  - rewrite elem_of_list_singleton. set_solver.
  - destruct (N.eqb_spec j k') as [->|Hne]; simpl; rewrite !elem_of_cons; [tauto|]. rewrite IH. tauto.
Qed.

Lemma aset_NoDup {V} j (v : V) l : NoDup l.*1 → NoDup (aset j v l).*1.
Proof.
  induction l as [|[k' v'] l IH]; simpl; intros H.
  - apply NoDup_singleton.
  - apply NoDup_cons in H as [Hni Hnd]. destruct (N.eqb_spec j k') as [->|Hne]; simpl.
    + apply NoDup_cons. done.
    + apply NoDup_cons. split; [|by apply IH]. rewrite aset_keys. intros [->|Hin]; done.
Qed.

Lemma adel_keys {V} j (l : list (N * V)) k : k ∈ (adel j l).*1 → k ∈ l.*1.
Proof.
  induction l as [|[k' v'] l IH]; simpl; [done|].
  destruct (N.eqb j k'); simpl; rewrite ?elem_of_cons; [tauto|]. intros [->|H]; [tauto|]. right. by apply IH.
Qed.

Lemma adel_NoDup {V} j (l : list (N * V)) : NoDup l.*1 → NoDup (adel j l).*1.
Proof.
  induction l as [|[k' v'] l IH]; simpl; intros H; [done|].
  apply NoDup_cons in H as [Hni Hnd]. destruct (N.eqb j k'); simpl; [done|].
  apply NoDup_cons. split; [|by apply IH]. intros Hin. apply Hni. by eapply adel_keys.
Qed.

Lemma alookup_None {V} k (l : list (N * V)) : alookup k l = None ↔ k ∉ l.*1.
Proof.
  induction l as [|[k' v'] l IH]; simpl.
  - split; [intros _; apply not_elem_of_nil | done].
  - rewrite not_elem_of_cons. destruct (N.eqb_spec k k') as [->|Hne]; [split; [done | intros [? _]; done]|].
    rewrite IH. tauto.
Qed.

Lemma alookup_adel {V} k j (l : list (N * V)) :
  NoDup l.*1 → alookup k (adel j l) = if N.eqb k j then None else alookup k l.
Proof.
  induction l as [|[k' v'] l IH]; simpl; intros H.
  - destruct (N.eqb k j); done.
  - apply NoDup_cons in H as [Hni Hnd]. simpl in Hni.
    destruct (N.eqb_spec j k') as [->|Hne]; simpl.
    + destruct (N.eqb_spec k k') as [->|]; [by apply alookup_None | done].
    + rewrite IH by done. destruct (N.eqb_spec k k') as [->|]; [|done].
      destruct (N.eqb_spec k' j); [congruence | done].
Qed.

Definition refs_rel (refs : list (N * N)) (s : gmap N span_data) : Prop :=
  NoDup refs.*1 ∧ ∀ id, alookup id refs = sd_refs <$> (s !! id).

Lemma refs_rel_empty : refs_rel [] ∅.
Proof. split; [constructor|]. intros id. by rewrite lookup_empty. Qed.

Lemma refs_event_rel refs s ev : refs_rel refs s → refs_rel (refs_event refs ev) (spec_step s ev).
Proof.
  intros [Hnd Hl]. destruct ev as [id d|id p m vs|a b|id|id|id|id|id vs|m p vs]; simpl; try done.
  - split; [by apply aset_NoDup|]. intros k. rewrite alookup_aset.
    destruct (N.eqb_spec k id) as [->|Hne]; [by rewrite lookup_insert | by rewrite lookup_insert_ne].
  - rewrite Hl. destruct (s !! id) as [d|] eqn:Es; simpl; [|done].
    split; [by apply aset_NoDup|]. intros k. rewrite alookup_aset.
    destruct (N.eqb_spec k id) as [->|Hne]; [by rewrite lookup_insert | by rewrite lookup_insert_ne].
  - rewrite Hl. destruct (s !! id) as [d|] eqn:Es; simpl; [|done].
    destruct (N.leb_spec (sd_refs d) 1), (N.eqb_spec (sd_refs d - 1) 0); try lia.
    + split; [by apply adel_NoDup|]. intros k. rewrite alookup_adel by done.
      destruct (N.eqb_spec k id) as [->|Hne]; [by rewrite lookup_delete | by rewrite lookup_delete_ne].
    + split; [by apply aset_NoDup|]. intros k. rewrite alookup_aset.
      destruct (N.eqb_spec k id) as [->|Hne]; [by rewrite lookup_insert | by rewrite lookup_insert_ne].
  - destruct (s !! id) as [d|] eqn:Es; [|done]. split; [done|]. intros k. rewrite Hl.
    destruct (N.eqb_spec k id) as [->|Hne]; [by rewrite lookup_insert, Es | by rewrite lookup_insert_ne].
Qed.

Lemma refs_match_rel refs st : refs_rel refs (r_spans st) → refs_match refs (snap_of st) = true.
Proof.
  intros [Hnd Hl]. unfold refs_match, snap_of. cbn [sn_spans]. apply andb_true_iff. split.
  - apply Nat.eqb_eq. rewrite <- (fmap_length fst refs), <- (fmap_length fst (map_to_list (r_spans st))).
    apply Permutation_length. apply NoDup_Permutation; [done | apply NoDup_fst_map_to_list |].
    intros k. transitivity (is_Some (alookup k refs)).
    + destruct (alookup k refs) eqn:E.
      * split; [eauto|]. intros _. destruct (decide (k ∈ refs.*1)); [done|]. apply alookup_None in n0. congruence.
      * apply alookup_None in E. split; [done | intros [? ?]; done].
    + rewrite Hl, fmap_is_Some. split.
      * intros [d Hd]. apply elem_of_list_fmap. exists (k, d). split; [done | by apply elem_of_map_to_list].
      * intros Hin. apply elem_of_list_fmap in Hin as ([k' d] & -> & Hin). apply elem_of_map_to_list in Hin. eauto.
  - apply forallb_forall. intros [k d] Hin. apply elem_of_list_In, elem_of_map_to_list in Hin. simpl.
    rewrite Hl, Hin. simpl. apply N.eqb_refl.
Qed.

Lemma refs_walk_model steps : ∀ h refs committed,
  HInv h → hist_scope h steps → refs_rel refs (r_spans (h_st h)) → refs_rel committed (h_spans h) →
  refs_walk refs committed steps (map iobs_of (hist_run h steps)) = true.
Proof.
  induction steps as [|s r IH]; intros h refs committed HH Hsc HR HC; [done|].
  destruct Hsc as [Hs Hr]. pose proof (hist_step_HInv h s HH Hs) as HH'.
  pose proof (hist_step_snap h s) as Hsn.
  cbn [hist_run]. destruct (hist_step h s) as [h' o] eqn:E. simpl in Hsn, HH', Hr. cbn [map refs_walk].
  destruct s as [ev|keep|]; simpl in E.
  - (* receive *)
    destruct (try_receive (h_st h) (h_w h) ev) as [[[oc st'] w'] calls] eqn:Et. simplify_eq. simpl in *.
    pose proof (try_receive_refines _ _ _ _ _ _ _ (hinv_st _ HH) Hs Et) as Href.
    unfold astep in Href. injection Href as Ho Ha. simpl in Ho, Ha.
    assert (Hsp : r_spans st' = match oc with Accepted => spec_step (r_spans (h_st h)) ev | _ => r_spans (h_st h) end).
    { rewrite Ho in Ha. unfold abs in Ha. destruct oc; injection Ha as _ Ha; by rewrite <- Ha. }
    destruct oc as [|e|].
    + assert (HR' : refs_rel (refs_event refs ev) (r_spans st')) by (rewrite Hsp; by apply refs_event_rel).
      rewrite (refs_match_rel _ _ HR'). simpl. by apply IH.
    + assert (HR' : refs_rel refs (r_spans st')) by (by rewrite Hsp).
      rewrite (refs_match_rel _ _ HR'). simpl. by apply IH.
    + assert (HR' : refs_rel refs (r_spans st')) by (by rewrite Hsp).
      rewrite (refs_match_rel _ _ HR'). simpl. by destruct r.
  - (* persist *)
    unfold persist in E.
    pose proof (restore_spec (h_w h) (persist_metadata (h_st h) ∪ h_md h) (r_spans (h_st h))
                  (if keep then r_local (h_st h) else ∅)) as Hrs.
    destruct (restore _ _ _ _) as [[st' w'] regs]. simplify_eq. simpl in *.
    destruct Hrs as (_ & E2 & _).
    assert (HR' : refs_rel refs (r_spans st')) by (by rewrite E2).
    rewrite (refs_match_rel _ _ HR'). simpl. apply IH; try done.
  - (* drop *)
    pose proof (restore_spec (h_w h) (h_md h) (h_spans h) ∅) as Hrs.
    destruct (restore _ _ _ _) as [[st' w'] regs]. simplify_eq. simpl in *.
    destruct Hrs as (_ & E2 & _).
    assert (HR' : refs_rel committed (r_spans st')) by (by rewrite E2).
    rewrite (refs_match_rel _ _ HR'). simpl. apply IH; try done.
Qed.

Theorem refs_ok_model steps :
  hist_scope hist_init steps → refs_ok steps (map iobs_of (hist_run hist_init steps)) = true.
Proof.
  intros Hsc. unfold refs_ok. apply refs_walk_model; [apply HInv_init | done | apply refs_rel_empty..].
Qed.

(** an implementation that does what the model does is judged [Agree] on every history in scope *)
Theorem judge_c08_ok_on_model steps :
  hist_scope hist_init steps →
  ok_c08 steps (map iobs_of (hist_run hist_init steps)) && refs_ok steps (map iobs_of (hist_run hist_init steps)) = true.
Proof. intros H. by rewrite ok_c08_model, refs_ok_model. Qed.
