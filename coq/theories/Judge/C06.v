From TT Require Export Judge.RecvOk.
From TT Require Import Judge.RecvProofs.  (* soundness of the comparisons used by corr_history *)
Definition judge_c06 (steps : list hstep) (impl : list iobs) : verdict :=
  judge_of (hist_scope_b hist_init steps) (corr_history steps impl)
           (ok_c06 snap_empty steps impl && ok_abstract ah_init steps impl).
