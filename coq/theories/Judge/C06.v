From TT Require Export Judge.Recv.
(* provisional: correspondence only; the property-specific [ok] follows *)
Definition judge_c06 (steps : list hstep) (impl : list iobs) : verdict :=
  judge_of true (corr_history steps impl) true.
