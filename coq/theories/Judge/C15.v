(** Correspondence judge for C15 (evaluated by [vm_compute] on cases written by the harness). *)
From TT Require Export Base.Worst Values.Values.

Record vobs := mk_vobs {
  ob_ret : option tvalue;                   (* value returned by insert (None for other ops) *)
  ob_len : N;                               (* len() *)
  ob_itlen : N;                             (* ExactSizeIterator::len of iter() *)
  ob_iter : list (string * tvalue);         (* iter() *)
  ob_back : list (string * tvalue);         (* iter().rev() *)
  ob_into : list (string * tvalue);         (* clone().into_iter() *)
  ob_gets : list (option tvalue);           (* get(name) for every probe name *)
  ob_empty : bool;                          (* is_empty() *)
  ob_index : list (option tvalue) }.        (* values[name] for every probe name; None = panicked *)

Definition kvs_eqb := list_eqb (pair_eqb String.eqb tvalue_eqb).
Definition vobs_eqb (a b : vobs) : bool :=
  option_eqb tvalue_eqb (ob_ret a) (ob_ret b) && N.eqb (ob_len a) (ob_len b)
  && N.eqb (ob_itlen a) (ob_itlen b) && kvs_eqb (ob_iter a) (ob_iter b)
  && kvs_eqb (ob_back a) (ob_back b) && kvs_eqb (ob_into a) (ob_into b)
  && list_eqb (option_eqb tvalue_eqb) (ob_gets a) (ob_gets b)
  && Bool.eqb (ob_empty a) (ob_empty b)
  && list_eqb (option_eqb tvalue_eqb) (ob_index a) (ob_index b).

Definition observe (probe : list string) (ret : option tvalue) (m : tvalues) : vobs :=
  mk_vobs ret (len m) (N.of_nat (List.length (iter m))) (iter m) (iter_back m) (into_iter m)
          (map (get m) probe) (is_empty m) (map (index m) probe).

(** the model's observations after every operation *)
Fixpoint model_obs (probe : list string) (m : tvalues) (ops : list vop) : list vobs :=
  match ops with
  | [] => []
  | o :: r => let '(m', ret) := vstep m o in observe probe ret m' :: model_obs probe m' r
  end.

(** the specification's observations: computed from the history only *)
Definition spec_observe (probe : list string) (ret : option tvalue) (h : list (string * tvalue)) : vobs :=
  let d := denote h in
  mk_vobs ret (N.of_nat (List.length (keys_of h))) (N.of_nat (List.length (keys_of h)))
          d (rev d) d (map (last_val h) probe)
          (match keys_of h with [] => true | _ => false end) (map (last_val h) probe).

Fixpoint spec_obs (probe : list string) (h : list (string * tvalue)) (ops : list vop) : list vobs :=
  match ops with
  | [] => []
  | o :: r =>
      let ret := match o with OpInsert k _ => last_val h k | _ => None end in
      let h' := hstep h o in
      spec_observe probe ret h' :: spec_obs probe h' r
  end.

Definition judge_ops (ops : list vop) (probe : list string) (impl : list vobs) : verdict :=
  judge_of true
    (list_eqb vobs_eqb (model_obs probe [] ops) impl)
    (list_eqb vobs_eqb (spec_obs probe [] ops) impl).

(** conversions: [impl_vc] = (v == x), [impl_cv] = (x == v), [impl_as] = accessor of x's type on v *)
Definition conv_ok (v : tvalue) (x : tconst) (impl_vc impl_cv : bool) (impl_as : option tconst) : bool :=
  Bool.eqb impl_vc impl_cv
  && Bool.eqb impl_vc (match impl_as with Some y => const_eq y x | None => false end)
  && match x, v with
     | CI64 _, VInt z => option_eqb tconst_eqb impl_as (if fits_i64 z then Some (CI64 z) else None)
     | CU64 _, VUInt z => option_eqb tconst_eqb impl_as (if fits_u64 z then Some (CU64 z) else None)
     | _, _ => true
     end
  && match impl_as with Some y => match type_of y, type_of x with
                                   | TBool, TBool | TI64, TI64 | TI128, TI128 | TU64, TU64
                                   | TU128, TU128 | TF64, TF64 | TStr, TStr => true
                                   | _, _ => false end
     | None => true end.

(** the Debug-object accessors: [as_debug_str()], [is_debug(obj)] for an object rendering to [r] *)
Definition judge_debug (v : tvalue) (r : string) (impl_str : option string) (impl_is : bool) : verdict :=
  judge_of true
    (option_eqb String.eqb (as_debug_str v) impl_str && Bool.eqb (is_debug v r) impl_is)
    (match v with
     | VObj s => option_eqb String.eqb impl_str (Some s) && Bool.eqb impl_is (String.eqb s r)
     | _ => option_eqb String.eqb impl_str None && negb impl_is
     end).

Definition judge_conv (v : tvalue) (x : tconst) (impl_vc impl_cv : bool) (impl_as : option tconst)
  : verdict :=
  judge_of (wf_value v && wf_const x)
    (Bool.eqb (eq_vc v x) impl_vc && Bool.eqb (eq_cv x v) impl_cv
     && option_eqb tconst_eqb (as_type (type_of x) v) impl_as)
    (conv_ok v x impl_vc impl_cv impl_as).
