(** Correspondence judge for C18 (evaluated by [vm_compute] on cases written by the harness). *)
From TT Require Export Capture.Predicates.

(** * Observations on one item: [eval], [find_case(true, _)], [find_case(false, _)] *)
Record iobs := mk_iobs {
  io_eval : bool;
  io_case_t : option ctree;
  io_case_f : option ctree }.

Fixpoint ctree_eqb (a b : ctree) {struct a} : bool :=
  match a, b with
  | CNode x, CNode y =>
      (fix go (x y : list ctree) {struct x} : bool :=
         match x, y with
         | [], [] => true
         | c :: x', d :: y' => ctree_eqb c d && go x' y'
         | _, _ => false
         end) x y
  end.

Definition iobs_eqb (a b : iobs) : bool :=
  Bool.eqb (io_eval a) (io_eval b)
  && option_eqb ctree_eqb (io_case_t a) (io_case_t b)
  && option_eqb ctree_eqb (io_case_f a) (io_case_f b).

Definition model_iobs (p : pred) (x : item) : iobs :=
  mk_iobs (eval p x) (find_case true p x) (find_case false p x).

(** the property on the implementation's own answers: evaluation equals the reference meaning, and
    a case for an outcome exists exactly when evaluation yields that outcome *)
Definition iobs_ok (p : pred) (x : item) (o : iobs) : bool :=
  Bool.eqb (io_eval o) (denote p x)
  && Bool.eqb (is_some (io_case_t o)) (io_eval o)
  && Bool.eqb (is_some (io_case_f o)) (negb (io_eval o)).

(** hypotheses: the predicate is one Rust's types accept for this kind of item, the items are of
    that kind, their values are within the ranges of [i128] / [u128] / [f64] *)
Definition wf_sdata (d : sdata) : bool := forallb (fun kv => wf_value (snd kv)) (sd_values d).
Definition wf_item (sp : bool) (x : item) : bool :=
  Bool.eqb (it_is_span x) sp && wf_sdata (it_data x) && forallb wf_sdata (it_anc x).

Fixpoint forallb2 {A B} (f : A -> B -> bool) (l : list A) (m : list B) : bool :=
  match l, m with
  | [], [] => true
  | a :: l', b :: m' => f a b && forallb2 f l' m'
  | _, _ => false
  end.

Definition judge_items (sp : bool) (items : list item) (p : pred) (obs : list iobs) : verdict :=
  judge_of (wf_pred sp p && forallb (wf_item sp) items)
    (list_eqb iobs_eqb (map (model_iobs p) items) obs)
    (forallb2 (iobs_ok p) items obs).

(** * Observations on one scanner: the five helpers on one sequence of items.
    Items are identified by their position in the scanned sequence. *)
Record sobs := mk_sobs {
  so_single : sres N;
  so_first : sres N;
  so_last : option (sres N);      (* None: the iterator is not double-ended, [last] does not exist *)
  so_all : sres unit;
  so_none : sres unit }.

Definition ptag_eqb (a b : ptag) : bool :=
  match a, b with
  | PNoMatch, PNoMatch | PMultiple, PMultiple | PNotAll, PNotAll | PMatched, PMatched => true
  | _, _ => false
  end.
Definition sres_eqb {A} (eqb : A -> A -> bool) (a b : sres A) : bool :=
  match a, b with
  | SOk x, SOk y => eqb x y
  | SPanic s, SPanic t => ptag_eqb s t
  | _, _ => false
  end.
Definition unit_eqb (a b : unit) : bool := true.
Definition sobs_eqb (a b : sobs) : bool :=
  sres_eqb N.eqb (so_single a) (so_single b) && sres_eqb N.eqb (so_first a) (so_first b)
  && option_eqb (sres_eqb N.eqb) (so_last a) (so_last b)
  && sres_eqb unit_eqb (so_all a) (so_all b) && sres_eqb unit_eqb (so_none a) (so_none b).

Definition sres_map {A B} (f : A -> B) (r : sres A) : sres B :=
  match r with SOk a => SOk (f a) | SPanic t => SPanic t end.

Fixpoint index_from {A} (n : N) (l : list A) : list (N * A) :=
  match l with [] => [] | a :: r => (n, a) :: index_from (n + 1) r end.
Definition indexed {A} (l : list A) : list (N * A) := index_from 0 l.

(** the items a scanner ranges over, given as positions in the list of all items of that kind *)
Fixpoint pick (items : list item) (sel : list N) : option (list item) :=
  match sel with
  | [] => Some []
  | i :: r =>
      match nth_error items (N.to_nat i), pick items r with
      | Some x, Some l => Some (x :: l)
      | _, _ => None
      end
  end.

Definition model_sobs (p : pred) (l : list item) (with_last : bool) : sobs :=
  let ev := fun ix : N * item => eval p (snd ix) in
  let il := indexed l in
  mk_sobs (sres_map fst (scan_single ev il)) (sres_map fst (scan_first ev il))
          (if with_last then Some (sres_map fst (scan_last ev il)) else None)
          (scan_all ev il) (scan_none ev il).

(** reference: the positions of the items whose reference meaning is true, and what their number
    allows *)
Definition ref_matches (p : pred) (l : list item) : list N :=
  map fst (filter (fun ix : N * item => denote p (snd ix)) (indexed l)).
Definition ref_sobs (p : pred) (l : list item) (with_last : bool) : sobs :=
  let m := ref_matches p l in
  mk_sobs
    (match m with [] => SPanic PNoMatch | [i] => SOk i | _ :: _ :: _ => SPanic PMultiple end)
    (match m with [] => SPanic PNoMatch | i :: _ => SOk i end)
    (if with_last then Some (match rev m with [] => SPanic PNoMatch | i :: _ => SOk i end) else None)
    (if N.of_nat (List.length m) =? N.of_nat (List.length l) then SOk tt else SPanic PNotAll)
    (match m with [] => SOk tt | _ :: _ => SPanic PMatched end).

Definition is_some_last (o : sobs) : bool := is_some (so_last o).

Definition judge_scan (sp : bool) (items : list item) (sel : list N) (p : pred) (impl : sobs) : verdict :=
  match pick items sel with
  | None => OutOfScope
  | Some l =>
      judge_of (wf_pred sp p && forallb (wf_item sp) l)
        (sobs_eqb (model_sobs p l (is_some_last impl)) impl)
        (sobs_eqb (ref_sobs p l (is_some_last impl)) impl)
  end.

(** * The equalities used above are exact *)
Lemma ctree_eqb_spec : forall a b, ctree_eqb a b = true <-> a = b.
Proof.
  fix IH 1. intros [x] [y]. cbn [ctree_eqb].
  revert y. induction x as [|c x IHx]; intros [|d y].
  - split; reflexivity.
  - split; discriminate.
  - split; discriminate.
  - rewrite andb_true_iff, (IH c d), (IHx y). split.
    + intros [-> H]. injection H as ->. reflexivity.
    + intros H. injection H as -> ->. split; reflexivity.
Qed.

Lemma iobs_eqb_spec a b : iobs_eqb a b = true <-> a = b.
Proof.
  destruct a as [e t f], b as [e' t' f']. unfold iobs_eqb. cbn [io_eval io_case_t io_case_f].
  rewrite !andb_true_iff, eqb_true_iff, !(option_eqb_spec ctree_eqb ctree_eqb_spec).
  split; [intros [[-> ->] ->]; reflexivity | intros [= -> -> ->]; auto].
Qed.

Lemma ptag_eqb_spec a b : ptag_eqb a b = true <-> a = b.
Proof. destruct a, b; simpl; split; intros H; congruence. Qed.

Lemma sres_eqb_spec {A} (eqb : A -> A -> bool) :
  (forall a b, eqb a b = true <-> a = b) -> forall x y, sres_eqb eqb x y = true <-> x = y.
Proof.
  intros H [a|s] [b|t]; simpl.
  - rewrite H. split; [intros ->; reflexivity | intros [= ->]; reflexivity].
  - split; discriminate.
  - split; discriminate.
  - rewrite ptag_eqb_spec. split; [intros ->; reflexivity | intros [= ->]; reflexivity].
Qed.

Lemma unit_eqb_spec (a b : unit) : unit_eqb a b = true <-> a = b.
Proof. destruct a, b. split; reflexivity. Qed.

Lemma sobs_eqb_spec a b : sobs_eqb a b = true <-> a = b.
Proof.
  destruct a as [s f l a n], b as [s' f' l' a' n']. unfold sobs_eqb.
  cbn [so_single so_first so_last so_all so_none].
  rewrite !andb_true_iff, !(sres_eqb_spec N.eqb N.eqb_eq), !(sres_eqb_spec unit_eqb unit_eqb_spec),
    (option_eqb_spec _ (sres_eqb_spec N.eqb N.eqb_eq)).
  split; [intros [[[[-> ->] ->] ->] ->]; reflexivity | intros [= -> -> -> -> ->]; auto 6].
Qed.
