(** Correspondence judge for C09 (evaluated by [vm_compute] on cases written by the harness).

    A case = the hash regime forced on the real arena through the [HASH_OVERRIDE] hook for the
    descriptions of this case, the warm-up descriptions interned at process start (they pre-intern
    the strings that several cases share; every other string of a case carries the case's nonce),
    the steps, and what the implementation made observable at every step.

    [corr]: the model, run with the same hash function, produces the same observations (addresses
    are compared up to first-occurrence renaming: the harness numbers addresses 0,1,2,.. in the
    order in which it observes them, the model allocates in that same order).
    [ok]: the property, evaluated on the implementation's observations and the reference
    specification only (no arena model, no hash). *)
From TT Require Export Tunnel.Arena.
From TT Require Import Tunnel.TypesProofs.
From stdpp Require Import gmap.
Local Open Scope N_scope.

(** ** the hash functions the harness installs (mirror of [c09.rs::hash_override]) *)
Inductive hmode :=
| HConst (c : N)                         (* every description of the case in one bucket *)
| HMod2 (base : N)                       (* base + (number of fields mod 2) *)
| HTable (tbl : list (cs_data * N)).     (* the values of the code's own DefaultHasher, per description *)

Definition warm_target : string := "c09_w".

Definition hash_of (mode : hmode) (d : cs_data) : N :=
  if String.eqb (cs_target d) warm_target then 0 else
  match mode with
  | HConst c => c
  | HMod2 base => base + N.of_nat (List.length (cs_fields d)) mod 2
  | HTable tbl =>
      match List.find (fun kv => cs_data_eqb d (fst kv)) tbl with
      | Some kv => snd kv
      | None => 0
      end
  end.

(** ** what the implementation made observable at a step *)
Record iobs := mk_iobs {
  io_held : list (N * N * cs_data);   (* (id, address, content) from verif_snapshot: the id touched by
                                         an announcement / use, all ids after a restore / at a persist *)
  io_regs : list (N * cs_data);       (* register_callsite calls of the step: address, content seen by the host *)
  io_seen : list (N * cs_data);       (* metadata seen by the host in new_span / event: address, content *)
  io_persist : option (list (N * cs_data));   (* persist_metadata() by ascending id, when taken *)
  io_dm : N;                          (* delta of LEAKED_METADATA *)
  io_ds : N }.                        (* delta of LEAKED_STRINGS *)

Definition pc_eqb : N * cs_data -> N * cs_data -> bool := pair_eqb N.eqb cs_data_eqb.
Definition pcs_eqb := list_eqb pc_eqb.

Fixpoint strictly_ascending (l : list N) : bool :=
  match l with
  | a :: ((b :: _) as r) => (a <? b) && strictly_ascending r
  | _ => true
  end.

(** a finite map against a list of (key, value) sorted by key *)
Definition map_matches {V W} (eqb : V -> W -> bool) (m : gmap N V) (l : list (N * W)) : bool :=
  N.eqb (N.of_nat (size m)) (N.of_nat (List.length l))
  && strictly_ascending (map fst l)
  && forallb (fun kv => match m !! fst kv with Some v => eqb v (snd kv) | None => false end) l.

Definition all_ids (s : astep) : bool :=
  match s with ARestoreFrom _ _ | ARestoreData _ _ | APersist _ => true | _ => false end.
Definition step_id (s : astep) : N :=
  match s with AAnnounce _ id _ | AUse _ id => id | _ => 0 end.

(** ** correspondence *)

Definition md_eqb (base : N) (m : metadata) (pc : N * cs_data) : bool :=
  N.eqb (m_ptr m) (base + fst pc) && cs_data_eqb (to_data m) (snd pc).
Fixpoint mds_eqb (base : N) (ms : list metadata) (l : list (N * cs_data)) : bool :=
  match ms, l with
  | [], [] => true
  | m :: ms', pc :: l' => md_eqb base m pc && mds_eqb base ms' l'
  | _, _ => false
  end.

Definition held_corr (base : N) (s : astep) (recv : rmap) (held : list (N * N * cs_data)) : bool :=
  if all_ids s then map_matches (md_eqb base) recv (map (fun h => (fst (fst h), (snd (fst h), snd h))) held)
  else match recv !! step_id s, held with
       | Some m, [(id, p, c)] => N.eqb id (step_id s) && md_eqb base m (p, c)
       | None, [] => true
       | _, _ => false
       end.

Definition corr_step (base : N) (s : astep) (ph ps : nat) (o : aobs) (i : iobs) : bool :=
  held_corr base s (ao_recv o) (io_held i)
  && mds_eqb base (ao_regs o) (io_regs i)
  && mds_eqb base (ao_seen o) (io_seen i)
  && match io_persist i with
     | Some l => map_matches cs_data_eqb (persist_meta (ao_recv o)) l
     | None => true
     end
  && N.eqb (N.of_nat (ao_heap o - ph)) (io_dm i)
  && N.eqb (N.of_nat (ao_strings o - ps)) (io_ds i).

Fixpoint corr_all (base : N) (steps : list astep) (ph ps : nat) (obs : list aobs) (impl : list iobs) : bool :=
  match steps, obs, impl with
  | [], [], [] => true
  | s :: steps', o :: obs', i :: impl' =>
      corr_step base s ph ps o i && corr_all base steps' (ao_heap o) (ao_strings o) obs' impl'
  | _, _, _ => false
  end.

Definition corr (mode : hmode) (warm : list cs_data) (steps : list astep) (impl : list iobs) : bool :=
  let hash := hash_of mode in
  match alloc_seq hash arena_empty warm with
  | Some (a0, _) =>
      match world_run hash (mk_aw a0 ∅) steps with
      | Some (_, obs) =>
          corr_all (N.of_nat (List.length (heap a0))) steps
                   (List.length (heap a0)) (List.length (strings a0)) obs impl
      | None => false
      end
  | None => false
  end.

(** ** the property on the implementation's own observations *)

(** one-to-one table address <-> content, extended by every (address, content) observed *)
Definition tbl_add (tbl : list (N * cs_data)) (pc : N * cs_data) : option (list (N * cs_data)) :=
  match List.find (fun e => N.eqb (fst e) (fst pc)) tbl with
  | Some e => if cs_data_eqb (snd e) (snd pc) then Some tbl else None
  | None => if existsb (fun e => cs_data_eqb (snd e) (snd pc)) tbl then None else Some (tbl ++ [pc])
  end.
Fixpoint tbl_add_all (tbl : list (N * cs_data)) (l : list (N * cs_data)) : option (list (N * cs_data)) :=
  match l with
  | [] => Some tbl
  | pc :: r => match tbl_add tbl pc with Some t => tbl_add_all t r | None => None end
  end.

(** registrations: content is one of the step's descriptions, never registered before *)
Fixpoint regs_ok (regd descs : list cs_data) (regs : list (N * cs_data)) : option (list cs_data) :=
  match regs with
  | [] => Some regd
  | (_, c) :: r =>
      if existsb (cs_data_eqb c) descs && negb (existsb (cs_data_eqb c) regd)
      then regs_ok (regd ++ [c]) descs r else None
  end.

Record okst := mk_okst {
  k_tbl : list (N * cs_data);     (* address <-> content, whole case *)
  k_sp : spec_state;              (* latest description per receiver and id *)
  k_seen : list cs_data;          (* distinct descriptions so far *)
  k_strs : list string;           (* distinct strings so far *)
  k_regd : list cs_data }.        (* descriptions registered so far *)
Definition okst_init : okst := mk_okst [] ∅ [] [] [].

(** the descriptions a step hands to the arena *)
Definition spec_step_descs (sp : spec_state) (s : astep) : list cs_data :=
  match s with
  | AAnnounce _ _ d => [d]
  | ARestoreData _ es => map snd es
  | ARestoreFrom _ src => map snd (map_to_list (spec_recv sp src))
  | AUse _ _ | APersist _ => []
  end.

Definition held_ok (s : astep) (latest : gmap N cs_data) (held : list (N * N * cs_data)) : bool :=
  if all_ids s then map_matches cs_data_eqb latest (map (fun h => (fst (fst h), snd h)) held)
  else match latest !! step_id s, held with
       | Some d, [(id, _, c)] => N.eqb id (step_id s) && cs_data_eqb c d
       | None, [] => true
       | _, _ => false
       end.

(** what the host sees with a span / event: the held object, with the latest content *)
Definition seen_ok (s : astep) (latest : gmap N cs_data) (held : list (N * N * cs_data))
                   (seen : list (N * cs_data)) : bool :=
  match s with
  | AUse _ id =>
      match latest !! id, held, seen with
      | Some d, [(_, p, _)], [(p', c)] => N.eqb p p' && cs_data_eqb c d
      | None, _, [] => true
      | _, _, _ => false
      end
  | _ => match seen with [] => true | _ => false end
  end.

Definition ok_step (k : okst) (s : astep) (i : iobs) : option okst :=
  let sp' := spec_step (k_sp k) s in
  let latest := spec_recv sp' (step_recv s) in
  let descs := spec_step_descs (k_sp k) s in
  let seen' := fold_left seen_add descs (k_seen k) in
  let news := drop (List.length (k_seen k)) seen' in
  let strs' := distinct_strs (k_strs k) (strs_of_all news) in
  let pairs := map (fun h => (snd (fst h), snd h)) (io_held i) ++ io_regs i ++ io_seen i in
  match tbl_add_all (k_tbl k) pairs, regs_ok (k_regd k) descs (io_regs i) with
  | Some tbl', Some regd' =>
      if held_ok s latest (io_held i)
         && match io_persist i with
            | Some l => map_matches cs_data_eqb latest l
            | None => true
            end
         && seen_ok s latest (io_held i) (io_seen i)
         && N.eqb (io_dm i) (N.of_nat (List.length news))
         && (io_ds i <=? N.of_nat (List.length strs' - List.length (k_strs k)))
      then Some (mk_okst tbl' sp' seen' strs' regd') else None
  | _, _ => None
  end.

Fixpoint ok_all (k : okst) (steps : list astep) (impl : list iobs) : bool :=
  match steps, impl with
  | [], [] => true
  | s :: steps', i :: impl' =>
      match ok_step k s i with Some k' => ok_all k' steps' impl' | None => false end
  | _, _ => false
  end.
Definition ok (steps : list astep) (impl : list iobs) : bool := ok_all okst_init steps impl.

(** hypotheses: restored data has pairwise different ids (it comes out of a map) and is listed by
    ascending id, the order in which the model interns it *)
Definition hyp (steps : list astep) : bool :=
  forallb (fun s => match s with ARestoreData _ es => strictly_ascending (map fst es) | _ => true end) steps.

Definition judge_case (mode : hmode) (warm : list cs_data) (steps : list astep) (impl : list iobs)
  : verdict :=
  judge_of (hyp steps) (corr mode warm steps impl) (ok steps impl).

(** ** the comparisons are not vacuous *)

Lemma cs_eqb_eq a b : cs_data_eqb a b = true <-> a = b.
Proof. apply cs_data_eqb_spec. Qed.
Lemma pc_eqb_spec a b : pc_eqb a b = true <-> a = b.
Proof. apply pair_eqb_spec; [apply N.eqb_eq | apply cs_eqb_eq]. Qed.
Lemma pcs_eqb_spec a b : pcs_eqb a b = true <-> a = b.
Proof. apply list_eqb_spec, pc_eqb_spec. Qed.

Lemma md_eqb_spec base m pc : md_eqb base m pc = true <-> m_ptr m = base + fst pc /\ to_data m = snd pc.
Proof. unfold md_eqb. by rewrite andb_true_iff, N.eqb_eq, cs_eqb_eq. Qed.

Lemma mds_eqb_spec base ms : forall l,
  mds_eqb base ms l = true <-> Forall2 (fun m pc => m_ptr m = base + fst pc /\ to_data m = snd pc) ms l.
Proof.
  induction ms as [|m ms IH]; intros [|pc l]; cbn [mds_eqb].
  - split; [constructor | done].
  - split; [done | inversion 1].
  - split; [done | inversion 1].
  - rewrite andb_true_iff, md_eqb_spec, IH. split.
    + intros [H1 H2]. by constructor.
    + inversion 1; subst. done.
Qed.

Lemma strictly_ascending_cons a l :
  strictly_ascending (a :: l) = true -> Forall (fun b => a < b) l /\ strictly_ascending l = true.
Proof.
  revert a. induction l as [|b l IH]; intros a H; [split; [constructor | done]|].
  cbn [strictly_ascending] in H. apply andb_true_iff in H as [H1 H2]. apply N.ltb_lt in H1.
  split; [|done]. constructor; [done|]. destruct (IH b H2) as [Hf _].
  eapply Forall_impl; [exact Hf|]. cbn. intros; lia.
Qed.
Lemma strictly_ascending_NoDup l : strictly_ascending l = true -> NoDup l.
Proof.
  induction l as [|a l IH]; intros H; [constructor|].
  destruct (strictly_ascending_cons a l H) as [Hf H2]. constructor; [|by apply IH].
  intros Hin. rewrite Forall_forall in Hf. specialize (Hf a Hin). lia.
Qed.

(** [map_matches] pins the key set, the size and every value *)
Lemma map_matches_sound {V W} (eqb : V -> W -> bool) (m : gmap N V) (l : list (N * W)) :
  map_matches eqb m l = true ->
  NoDup l.*1 /\ size m = List.length l
  /\ forall k w, (k, w) ∈ l -> exists v, m !! k = Some v /\ eqb v w = true.
Proof.
  unfold map_matches. rewrite !andb_true_iff, N.eqb_eq. intros [[H1 H2] H3].
  split; [by apply strictly_ascending_NoDup|]. split; [lia|].
  intros k w Hin. rewrite forallb_forall in H3. apply elem_of_list_In in Hin.
  specialize (H3 _ Hin). cbn in H3. destruct (m !! k) as [v|]; [eauto | done].
Qed.

Lemma map_matches_eq (m : gmap N cs_data) (l : list (N * cs_data)) :
  map_matches cs_data_eqb m l = true -> list_to_map l = m.
Proof.
  intros (Hnd & Hsz & Hall)%map_matches_sound.
  assert ((list_to_map l : gmap N cs_data) ⊆ m) as Hsub.
  { apply map_subseteq_spec. intros k v Hk. apply elem_of_list_to_map in Hk; [|done].
    destruct (Hall k v Hk) as (v' & Hv' & ->%cs_eqb_eq). done. }
  assert (size (list_to_map l : gmap N cs_data) = List.length l) as Hsz'.
  { unfold size, map_size. apply Permutation_length, map_to_list_to_map. done. }
  apply map_eq. intros k.
  destruct (m !! k) as [v|] eqn:Hm, ((list_to_map l : gmap N cs_data) !! k) as [v'|] eqn:Hl; try done.
  - rewrite map_subseteq_spec in Hsub. specialize (Hsub k v' Hl). congruence.
  - exfalso.
    assert ((list_to_map l : gmap N cs_data) ⊆ delete k m) as Hsub'.
    { apply map_subseteq_spec. intros k' v' Hk'. destruct (decide (k' = k)) as [->|Hne]; [congruence|].
      rewrite lookup_delete_ne by done. rewrite map_subseteq_spec in Hsub. by apply Hsub. }
    apply (subseteq_dom (D := gset N)) in Hsub'. apply subseteq_size in Hsub'.
    rewrite !size_dom in Hsub'. rewrite map_size_delete, Hm in Hsub'.
    assert (size m <> 0)%nat by (apply map_size_non_empty_iff; intros ->; by rewrite lookup_empty in Hm).
    lia.
  - rewrite map_subseteq_spec in Hsub. specialize (Hsub k v' Hl). congruence.
Qed.

Lemma judge_case_agree mode warm steps impl :
  judge_case mode warm steps impl = Agree ->
  hyp steps = true /\ corr mode warm steps impl = true /\ ok steps impl = true.
Proof.
  unfold judge_case, judge_of.
  destruct (hyp steps), (ok steps impl), (corr mode warm steps impl); cbn; intros H;
    try discriminate; done.
Qed.

(** the judge discriminates: a correct trace agrees; the same trace with two descriptions merged
    into one object, with a second registration, with a changed attribute at the host, or with a
    stale persist_metadata entry fails the property check *)
Section examples.
  Let d1 := mk_cs KSpan "s" "c09k_0_0::t" LInfo None None (Some 1) ["a"]%string.
  Let d2 := mk_cs KSpan "s" "c09k_0_0::t" LInfo None None (Some 2) ["a"]%string.
  Let steps := [AAnnounce 0 1 d1; AAnnounce 1 5 d2; AAnnounce 1 6 d1; AUse 1 6].
  Let good :=
    [mk_iobs [(1, 0, d1)] [(0, d1)] [] (Some [(1, d1)]) 1 3;
     mk_iobs [(5, 1, d2)] [(1, d2)] [] (Some [(5, d2)]) 1 0;
     mk_iobs [(6, 0, d1)] [] [] (Some [(5, d2); (6, d1)]) 0 0;
     mk_iobs [(6, 0, d1)] [] [(0, d1)] (Some [(5, d2); (6, d1)]) 0 0].
  Example judge_good : judge_case (HConst 0) [] steps good = Agree.
  Proof. vm_compute. reflexivity. Qed.
  (** d2 resolved to d1's object (line ignored) *)
  Example judge_merged :
    judge_case (HConst 0) [] steps
      [mk_iobs [(1, 0, d1)] [(0, d1)] [] (Some [(1, d1)]) 1 3;
       mk_iobs [(5, 0, d1)] [] [] (Some [(5, d1)]) 0 0;
       mk_iobs [(6, 0, d1)] [] [] (Some [(5, d1); (6, d1)]) 0 0;
       mk_iobs [(6, 0, d1)] [] [(0, d1)] (Some [(5, d1); (6, d1)]) 0 0] = PropFail.
  Proof. vm_compute. reflexivity. Qed.
  (** d1 allocated and registered a second time *)
  Example judge_twice :
    judge_case (HConst 0) [] steps
      [mk_iobs [(1, 0, d1)] [(0, d1)] [] (Some [(1, d1)]) 1 3;
       mk_iobs [(5, 1, d2)] [(1, d2)] [] (Some [(5, d2)]) 1 0;
       mk_iobs [(6, 2, d1)] [(2, d1)] [] (Some [(5, d2); (6, d1)]) 1 0;
       mk_iobs [(6, 2, d1)] [] [(2, d1)] (Some [(5, d2); (6, d1)]) 0 0] = PropFail.
  Proof. vm_compute. reflexivity. Qed.
  (** extra string leak only: the property's bound still holds, the model disagrees *)
  Example judge_mismatch :
    judge_case (HConst 0) [] [AAnnounce 0 1 d1] [mk_iobs [(1, 0, d1)] [(0, d1)] [] (Some [(1, d1)]) 1 2]
    = Mismatch.
  Proof. vm_compute. reflexivity. Qed.
  Example judge_out_of_scope :
    judge_case (HConst 0) [] [ARestoreData 0 [(2, d1); (2, d2)]] [] = OutOfScope.
  Proof. vm_compute. reflexivity. Qed.
End examples.
