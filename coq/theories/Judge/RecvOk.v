(** Executable statements of C02, C03, C06, C07 on the implementation's own observations. *)
From TT Require Export Judge.C08 Tunnel.ReceiverAbs.
From stdpp Require Import gmap.

Definition a_of_snap (s : snap) : astate :=
  mk_a (list_to_map (sn_meta s)) (list_to_map (sn_spans s)).

Definition is_panicked (o : outcome) : bool := match o with Panicked => true | _ => false end.
Definition is_accepted (o : outcome) : bool := match o with Accepted => true | _ => false end.
Definition is_rejected (o : outcome) : bool := match o with Rejected _ => true | _ => false end.

(** ** C06: never a panic; the outcome is the reference outcome computed from the implementation's
    own previous state (known call sites, alive spans) *)
Fixpoint ok_c06 (prev : snap) (steps : list hstep) (impl : list iobs) : bool :=
  match steps, impl with
  | [], [] => true
  | SRecv ev :: r, IRecv o _ s :: i =>
      negb (is_panicked o) && outcome_eqb o (ref_outcome (a_of_snap prev) ev) && ok_c06 s r i
  | SPersist _ :: r, IPersist _ _ _ _ s :: i => ok_c06 s r i
  | SDrop :: r, IDrop _ _ s :: i => ok_c06 s r i
  | _, _ => false
  end.

(** ** C07: a rejected event makes no call and leaves the state as it was *)
Definition snap_eqb (a b : snap) : bool :=
  list_eqb (pair_eqb N.eqb cs_data_eqb) (sn_meta a) (sn_meta b)
  && list_eqb (pair_eqb N.eqb span_data_eqb) (sn_spans a) (sn_spans b)
  && list_eqb (pair_eqb N.eqb N.eqb) (sn_local a) (sn_local b)
  && list_eqb N.eqb (sn_uncommitted a) (sn_uncommitted b)
  && list_eqb (pair_eqb N.eqb N.eqb) (sn_entered a) (sn_entered b).

Fixpoint ok_c07 (prev : snap) (impl : list iobs) : bool :=
  match impl with
  | [] => true
  | IRecv o calls s :: i =>
      (if is_rejected o then match calls with [] => true | _ => false end && snap_eqb prev s else true)
      && ok_c07 s i
  | (IPersist _ _ _ _ s | IDrop _ _ s) :: i => ok_c07 s i
  end.

(** the filtered stream (rejected events removed, according to the implementation's own results) *)
Fixpoint filter_rejected (steps : list hstep) (impl : list iobs) : list hstep :=
  match steps, impl with
  | s :: r, IRecv o _ _ :: i => if is_rejected o then filter_rejected r i else s :: filter_rejected r i
  | s :: r, _ :: i => s :: filter_rejected r i
  | _, _ => []
  end.
Definition hstep_eqb (a b : hstep) : bool :=
  match a, b with
  | SRecv x, SRecv y => event_eqb x y
  | SPersist x, SPersist y => Bool.eqb x y
  | SDrop, SDrop => true
  | _, _ => false
  end.
Definition strip_reg (c : list hcall) : list hcall :=
  List.filter (fun x => match x with HRegister _ => false | _ => true end) c.
Definition iobs_same (a b : iobs) : bool :=
  match a, b with
  | IRecv o c s, IRecv o' c' s' => outcome_eqb o o' && calls_eqb (strip_reg c) (strip_reg c') && snap_eqb s s'
  | IPersist e sp md rg s, IPersist e' sp' md' rg' s' =>
      batch_eqb e e' && list_eqb (pair_eqb N.eqb span_data_eqb) sp sp'
      && list_eqb (pair_eqb N.eqb cs_data_eqb) md md' && perm_eqb hcall_eqb rg rg' && snap_eqb s s'
  | IDrop c rg s, IDrop c' rg' s' => batch_eqb c c' && perm_eqb hcall_eqb rg rg' && snap_eqb s s'
  | _, _ => false
  end.
Definition ok_c07_pair (steps : list hstep) (impl : list iobs) (steps' : list hstep) (impl' : list iobs) : bool :=
  list_eqb hstep_eqb (filter_rejected steps impl) steps'
  && all2 iobs_same
       (List.filter (fun i => match i with IRecv o _ _ => negb (is_rejected o) | _ => true end) impl) impl'.

Fixpoint nodup_N (l : list N) : bool :=
  match l with
  | [] => true
  | a :: r => negb (existsb (N.eqb a) r) && nodup_N r
  end.
(** [m] is the map denoted by the association list [l] (keys distinct, any order) *)
Definition map_agrees {V} (eqb : V -> V -> bool) (m : gmap N V) (l : list (N * V)) : bool :=
  N.eqb (N.of_nat (size m)) (N.of_nat (List.length l))
  && nodup_N (map fst l)
  && forallb (fun kv => match m !! fst kv with Some v => eqb v (snd kv) | None => false end) l.

(** ** refinement of the abstract receiver, on the implementation's observations:
    every outcome is the abstract outcome, every persisted span state is the abstract span state,
    and the call-site table (in the receiver and as persisted) is the table of what the guest announced:
    every id with the description announced for it last *)
Fixpoint ok_abstract (h : ahist) (steps : list hstep) (impl : list iobs) : bool :=
  match steps, impl with
  | [], [] => true
  | s :: r, i :: ir =>
      let '(h', o) := ahist_step h s in
      match i, o with
      | IRecv oi _ snp, Some oa =>
          outcome_eqb oi oa && map_agrees span_data_eqb (a_spans (ah_cur h')) (sn_spans snp)
          && map_agrees cs_data_eqb (a_meta (ah_cur h')) (sn_meta snp)
      | IPersist _ sp md _ _, None =>
          map_agrees span_data_eqb (a_spans (ah_cur h')) sp && map_agrees cs_data_eqb (a_meta (ah_cur h')) md
      | IDrop _ _ snp, None =>
          map_agrees span_data_eqb (a_spans (ah_cur h')) (sn_spans snp)
          && map_agrees cs_data_eqb (a_meta (ah_cur h')) (sn_meta snp)
      | _, _ => false
      end && ok_abstract h' r ir
  | _, _ => false
  end.

(** ** C02: cut run vs uncut run *)
Fixpoint qcuts_b (h : hist) (steps : list hstep) : bool :=
  match steps with
  | [] => true
  | s :: r =>
      match s with
      | SRecv _ => true
      | SPersist k => k && bool_decide (r_entered (h_st h) = ∅)
      | SDrop => false
      end && qcuts_b (fst (hist_step h s)) r
  end.

Definition irecv_part (i : iobs) : option (outcome * list hcall) :=
  match i with IRecv o c _ => Some (o, c) | _ => None end.
Definition oc_eqb (a b : outcome * list hcall) : bool :=
  outcome_eqb (fst a) (fst b) && calls_eqb (strip_reg (snd a)) (strip_reg (snd b)).
Definition cut_silent (i : iobs) : bool :=
  match i with
  | IPersist [] _ _ [] _ => true
  | IPersist _ _ _ _ _ | IDrop _ _ _ => false
  | IRecv _ _ _ => true
  end.
Definition ok_c02 (impl_cut impl_uncut : list iobs) : bool :=
  list_eqb oc_eqb (omap irecv_part impl_cut) (omap irecv_part impl_uncut)
  && forallb cut_silent impl_cut.

(** ** C03: presentation on first enter after a restart *)
Definition presented (calls : list hcall) : tvalues :=
  flat_map (fun c => match c with HNewSpan _ _ _ vs => vs | HRecord _ vs => vs | _ => [] end) calls.
Definition last_is_enter (calls : list hcall) (h : N) : bool :=
  match rev calls with HEnter h' :: _ => N.eqb h h' | _ => false end.
Definition count_new (calls : list hcall) : nat :=
  List.length (List.filter (fun c => match c with HNewSpan _ _ _ _ => true | _ => false end) calls).

Definition enter_ok (prev s : snap) (id : N) (calls : list hcall) : bool :=
  match alookup id (sn_local prev) with
  | Some h => calls_eqb calls [HEnter h]
  | None =>
      match alookup id (sn_spans prev), alookup id (sn_local s) with
      | Some d, Some h =>
          match alookup (sd_meta d) (sn_meta prev), calls with
          | Some md, HNewSpan h' md' _ _ :: _ =>
              N.eqb h h' && cs_data_eqb md md' && last_is_enter calls h
              && tvalues_eqb (presented calls) (host_vals md (sd_values d))
              && Nat.eqb (count_new calls) 1
          | _, _ => false
          end
      | _, _ => false
      end
  end.

Fixpoint ok_c03 (prev : snap) (steps : list hstep) (impl : list iobs) : bool :=
  match steps, impl with
  | [], [] => true
  | SRecv ev :: r, IRecv o calls s :: i =>
      is_accepted o
      && match ev with ESpanEntered id => enter_ok prev s id calls | _ => true end
      && ok_c03 s r i
  | _ :: r, (IPersist _ _ _ _ s | IDrop _ _ s) :: i => ok_c03 s r i
  | _, _ => false
  end.

(** the stream is accepted by one uninterrupted abstract receiver ("well-formed guest execution") *)
Definition stream_accepted (steps : list hstep) : bool :=
  forallb is_accepted (fst (arun a_init (events_of steps))).

(** correspondence for a run that starts with call sites already interned by an earlier run of the
    same process (the arena is process-global) *)
Definition corr_history_arena (ar : list cs_data) (steps : list hstep) (impl : list iobs) : bool :=
  all2 obs_matches (hist_run (mk_hist rs_default (mk_w 0 ar) ∅ ∅) steps) impl.

(** call-site descriptions a run has interned, in order of first announcement *)
Fixpoint announced (seen : list cs_data) (steps : list hstep) : list cs_data :=
  match steps with
  | [] => seen
  | SRecv (ENewCallSite _ d) :: r =>
      if existsb (cs_data_eqb d) seen then announced seen r else announced (seen ++ [d]) r
  | _ :: r => announced seen r
  end.
