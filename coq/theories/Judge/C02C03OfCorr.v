(** The remaining conjuncts of [judge_c02] and [judge_c03] hold on EVERY run of observations that
    the correspondence check accepts.

    [Judge/RecvOkOfCorr.v] reduces the two judges to [ok_c02] (cut run compared with the uncut run
    of the same events) and [ok_c03] (nothing rejected, presentation on first enter).  Here both
    are consequences of the correspondence:

    - [ok_c02]: the observations of the cut run are those of the model history, which by
      [C02_quiescent_cuts_invisible] makes the calls and gets the results of the uncut model run
      from the empty arena, and whose cuts make no call; the implementation's uncut run matches
      the uncut model run started with the call sites already interned ([corr_history_arena]),
      which differs from the run from the empty arena by [HRegister] calls only
      ([try_receive_arena_irrel]); [oc_eqb] compares up to [strip_reg].
    - [ok_c03]: every outcome is the abstract outcome ([try_receive_refines]), the abstract
      receiver ignores persists ([union_absorb]), the stream is accepted by hypothesis; the
      presentation clause is [C03_presented_on_first_enter] read through matching snapshots. *)
From TT Require Import Tunnel.TypesProofs Tunnel.ReceiverSpec Tunnel.ReceiverInv Tunnel.ReceiverHistInv
  Tunnel.ReceiverAbs Tunnel.ReceiverAbsProofs Tunnel.ReceiverCuts Tunnel.ReceiverMisc
  Judge.Recv Judge.RecvProofs Judge.C08 Judge.RecvOk Judge.RecvOkProofs Judge.RecvOkOfCorr
  Judge.C02 Judge.C03 Props.C02 Props.C03.
From stdpp Require Import gmap.
Arguments firstn : simpl never.
Arguments skipn : simpl never.
Arguments chunks : simpl never.
Arguments extend : simpl never.
Arguments host_vals : simpl never.

(** * C02 *)

(** ** the executable hypothesis is the hypothesis of the theorem *)
Lemma qcuts_b_spec steps : ∀ h, qcuts_b h steps = true ↔ qcuts h steps.
Proof.
  induction steps as [|s r IH]; intros h; cbn [qcuts_b qcuts]; [done|].
  rewrite andb_true_iff, IH. destruct s as [ev|k|].
  - tauto.
  - rewrite andb_true_iff, bool_decide_eq_true. destruct k; intuition congruence.
  - intuition congruence.
Qed.

(** ** what the comparison reads from an accepted run is what the model run made observable *)
Lemma irecv_of_corr ms : ∀ impl,
  all2 obs_matches ms impl = true → omap irecv_part impl = omap recv_part ms.
Proof.
  induction ms as [|m ms IH]; intros [|i ii] Hc; cbn [all2] in Hc; try done.
  apply andb_true_iff in Hc as [Hi Hii]. specialize (IH _ Hii).
  destruct m as [o c st|ex sp md rg st|c rg st].
  - apply obs_matches_recv_inv in Hi as (s & -> & _). cbn. by rewrite IH.
  - apply obs_matches_persist_inv in Hi as (e' & sp' & md' & rg' & s & -> & _). cbn. exact IH.
  - apply obs_matches_drop_inv in Hi as (c' & rg' & s & -> & _). cbn. exact IH.
Qed.

Definition not_drop (m : mobs) : Prop := match m with MDrop _ _ _ => False | _ => True end.

Lemma batch_eqb_nil b : batch_eqb [] b = true → b = [].
Proof.
  unfold batch_eqb. rewrite !andb_true_iff. intros [[[[_ _] Hl] _] _].
  apply N.eqb_eq in Hl. destruct b; [done|]. cbn in Hl. lia.
Qed.

Lemma perm_eqb_nil {A} (eqb : A → A → bool) b : perm_eqb eqb [] b = true → b = [].
Proof. by destruct b. Qed.

Lemma cut_silent_of_corr ms : ∀ impl,
  all2 obs_matches ms impl = true → flat_map other_calls ms = [] → Forall not_drop ms →
  forallb cut_silent impl = true.
Proof.
  induction ms as [|m ms IH]; intros [|i ii] Hc Hn Hd; cbn [all2] in Hc; try done.
  apply andb_true_iff in Hc as [Hi Hii]. apply Forall_cons in Hd as [Hd Hds].
  cbn [flat_map] in Hn. apply app_eq_nil in Hn as [Hn Hns].
  cbn [forallb]. rewrite (IH _ Hii Hns Hds), andb_true_r.
  destruct m as [o c st|ex sp md rg st|c rg st]; [| |done].
  - by apply obs_matches_recv_inv in Hi as (s & -> & _).
  - cbn [other_calls] in Hn. apply app_eq_nil in Hn as [-> ->].
    destruct i as [|e' sp' md' rg' s|]; try done. cbn [obs_matches] in Hi.
    rewrite !andb_true_iff in Hi. destruct Hi as [[[[He _] _] Hr] _].
    apply batch_eqb_nil in He. apply perm_eqb_nil in Hr. by subst.
Qed.

Lemma qcuts_not_drop steps : ∀ h, qcuts h steps → Forall not_drop (hist_run h steps).
Proof.
  induction steps as [|s r IH]; intros h Hq; cbn [hist_run]; [constructor|].
  destruct Hq as [Hs Hq]. specialize (IH _ Hq).
  destruct s as [ev|k|]; [| |done]; cbn [hist_step] in *.
  - destruct (try_receive (h_st h) (h_w h) ev) as [[[o st'] w'] calls]. cbn [fst] in IH.
    constructor; [done|]. by destruct (is_panic _).
  - unfold persist in *. destruct (restore _ _ _ _) as [[st' w'] regs]. cbn [fst is_panic] in *.
    constructor; [done | exact IH].
Qed.

(** ** the arena decides nothing but the [HRegister] calls *)
Lemma try_receive_arena_irrel st w1 w2 ev :
  w_next w1 = w_next w2 →
  match try_receive st w1 ev, try_receive st w2 ev with
  | (o1, s1, w1', c1), (o2, s2, w2', c2) =>
      o1 = o2 ∧ s1 = s2 ∧ w_next w1' = w_next w2' ∧ strip_reg c1 = strip_reg c2
  end.
Proof.
  destruct st as [m s l u e], w1 as [n a1], w2 as [n2 a2]. cbn [w_next]. intros <-.
  unfold try_receive, reject, on_new_call_site, create_local_span, map_span_id,
    set_spans, set_local, set_uncommitted, set_entered; simpl.
  destruct ev; simpl; repeat (case_match; simplify_eq/=); done.
Qed.

Lemma calls_eqb_of_eq a b : a = b → calls_eqb a b = true.
Proof. intros ->. by apply calls_eqb_sound. Qed.

Lemma omap_recv_cons o c s l : omap recv_part (MRecv o c s :: l) = (o, c) :: omap recv_part l.
Proof. reflexivity. Qed.

Lemma recv_run_arena_irrel evs : ∀ h1 h2,
  h_st h1 = h_st h2 → w_next (h_w h1) = w_next (h_w h2) →
  list_eqb oc_eqb (omap recv_part (hist_run h1 (map SRecv evs)))
                  (omap recv_part (hist_run h2 (map SRecv evs))) = true.
Proof.
  induction evs as [|ev r IH]; intros h1 h2 Hst Hw; [done|].
  cbn [map hist_run hist_step].
  pose proof (try_receive_arena_irrel (h_st h1) (h_w h1) (h_w h2) ev Hw) as Hr.
  rewrite <- Hst.
  destruct (try_receive (h_st h1) (h_w h1) ev) as [[[o1 s1] w1] c1].
  destruct (try_receive (h_st h1) (h_w h2) ev) as [[[o2 s2] w2] c2].
  destruct Hr as (<- & <- & Hw' & Hc).
  assert (oc_eqb (o1, c1) (o1, c2) = true) as Hoc.
  { unfold oc_eqb. cbn [fst snd]. by rewrite outcome_eqb_refl, (calls_eqb_of_eq _ _ Hc). }
  destruct o1 as [|e|]; cbn [is_panic]; rewrite !omap_recv_cons; cbn [list_eqb];
    rewrite Hoc; cbn [andb]; try done.
  - by apply (IH (mk_hist s1 w1 _ _) (mk_hist s1 w2 _ _)).
  - by apply (IH (mk_hist s1 w1 _ _) (mk_hist s1 w2 _ _)).
Qed.

(** ** the executable statement of C02 holds of any pair of runs the correspondence accepts;
    the arena the uncut run starts with plays no role: any list of interned call sites will do *)
Theorem ok_c02_of_corr_any_arena : ∀ ar steps impl_cut impl_uncut,
  hist_scope hist_init steps → qcuts_b hist_init steps = true →
  corr_history steps impl_cut = true →
  corr_history_arena ar (map SRecv (events_of steps)) impl_uncut = true →
  ok_c02 impl_cut impl_uncut = true.
Proof.
  intros ar steps ic iu Hsc Hq Hc Hu. apply qcuts_b_spec in Hq.
  destruct (C02_quiescent_cuts_invisible steps Hsc Hq) as [E1 E2].
  unfold corr_history in Hc. unfold corr_history_arena in Hu.
  unfold ok_c02. apply andb_true_iff. split.
  - rewrite (irecv_of_corr _ _ Hc), E1, (irecv_of_corr _ _ Hu).
    by apply recv_run_arena_irrel.
  - apply (cut_silent_of_corr _ _ Hc E2). by apply qcuts_not_drop.
Qed.

Theorem ok_c02_of_corr : ∀ steps impl_cut impl_uncut,
  hist_scope hist_init steps → qcuts_b hist_init steps = true →
  corr_history steps impl_cut = true →
  corr_history_arena (announced [] steps) (map SRecv (events_of steps)) impl_uncut = true →
  ok_c02 impl_cut impl_uncut = true.
Proof. intros steps. exact (ok_c02_of_corr_any_arena (announced [] steps) steps). Qed.

Corollary judge_c02_agree_whenever_corr : ∀ steps impl_cut impl_uncut,
  hist_scope hist_init steps → qcuts_b hist_init steps = true →
  corr_history steps impl_cut = true →
  corr_history_arena (announced [] steps) (map SRecv (events_of steps)) impl_uncut = true →
  judge_c02 steps impl_cut impl_uncut = Agree.
Proof.
  intros steps ic iu Hsc Hq Hc Hu.
  apply judge_c02_agree_of_corr; try done. by apply ok_c02_of_corr with steps.
Qed.

(** * C03 *)

Lemma alookup_meta st s k : snap_matches st s = true → alookup k (sn_meta s) = r_meta st !! k.
Proof. intros H. destruct (snap_matches_sound _ _ H) as (E & _). by rewrite alookup_list_to_map, E. Qed.

Lemma filter_new_records h recs :
  Forall (λ c, ∃ vs, c = HRecord h vs) recs →
  List.filter (λ c, match c with HNewSpan _ _ _ _ => true | _ => false end) recs = [].
Proof.
  induction recs as [|c recs IH]; intros H; [done|].
  apply Forall_cons in H as [[vs ->] H]. cbn [List.filter]. by apply IH.
Qed.

(** the presentation clause, read through snapshots that match the model states *)
Lemma enter_ok_of_matches st w id st' w' calls prev s :
  Inv st → try_receive st w (ESpanEntered id) = (Accepted, st', w', calls) →
  snap_matches st prev = true → snap_matches st' s = true →
  enter_ok prev s id calls = true.
Proof.
  intros HI Ht Hp Hs.
  pose proof (C03_presented_on_first_enter st w id st' w' calls HI Ht) as Hpres.
  unfold enter_ok. rewrite (alookup_local _ _ _ Hp).
  destruct (r_local st !! id) as [h|].
  - destruct Hpres as [-> _]. by apply calls_eqb_of_eq.
  - destruct Hpres as (d & md & p & Hd & Hmd & Hrest). cbv zeta in Hrest.
    destruct Hrest as (Hl & (recs & Hcalls & Hrecs) & Hpv).
    rewrite (alookup_spans _ _ _ Hp), Hd, (alookup_local _ _ _ Hs), Hl, (alookup_meta _ _ _ Hp), Hmd.
    change (presented calls) with (presented_values calls). rewrite Hpv.
    rewrite (proj2 (tvalues_eqb_spec _ _) eq_refl).
    subst calls. rewrite N.eqb_refl, (proj2 (cs_data_eqb_spec md md) eq_refl). cbn [andb].
    rewrite andb_true_r.
    apply andb_true_iff. split.
    + unfold last_is_enter. rewrite app_comm_cons, rev_app_distr. cbn [rev app]. apply N.eqb_refl.
    + unfold count_new. cbn [List.filter]. rewrite List.filter_app, (filter_new_records _ _ Hrecs). done.
Qed.

Theorem ok_c03_of_corr_from steps : ∀ h prev impl,
  HInv h → hist_scope h steps → no_drop steps = true →
  forallb is_accepted (arun (abs (h_st h)) (events_of steps)).1 = true →
  snap_matches (h_st h) prev = true →
  all2 obs_matches (hist_run h steps) impl = true →
  ok_c03 prev steps impl = true.
Proof.
  induction steps as [|s r IH]; intros h prev impl HH Hsc Hnd Hacc Hprev Hc.
  - cbn [hist_run] in Hc. apply all2_nil_inv in Hc. by subst.
  - destruct Hsc as [Hs Hsc].
    cbn [no_drop forallb] in Hnd. apply andb_true_iff in Hnd as [Hnds Hnd].
    pose proof (hist_step_HInv h s HH Hs) as HH'.
    destruct (corr_step _ _ _ _ HH Hs Hc) as (i & ii & -> & Hi & Hsn & Hii).
    clear Hc.
    destruct s as [ev|keep|]; [| |done]; cbn [hist_step] in *.
    + destruct (try_receive (h_st h) (h_w h) ev) as [[[o st'] w'] calls] eqn:Et. cbn [fst snd h_st] in *.
      apply obs_matches_recv_inv in Hi as (sn & -> & _). cbn [iobs_snap] in Hsn.
      pose proof (try_receive_refines _ _ _ _ _ _ _ (hinv_st _ HH) Hs Et) as Href.
      change (events_of (SRecv ev :: r)) with (ev :: events_of r) in Hacc.
      cbn [arun] in Hacc. rewrite Href in Hacc.
      destruct (arun (abs st') (events_of r)) as [os a''] eqn:Ea. cbn [fst forallb] in Hacc.
      apply andb_true_iff in Hacc as [Ho Hos].
      destruct o as [|e|]; [|done..].
      cbn [ok_c03 is_accepted andb].
      assert (ok_c03 sn r ii = true) as IH'.
      { apply (IH (mk_hist st' w' (h_md h) (h_spans h))); try done. cbn [h_st]. by rewrite Ea. }
      rewrite IH', andb_true_r.
      destruct ev as [| | |id| | | | |]; try done.
      by apply (enter_ok_of_matches (h_st h) (h_w h) id st' w' calls); [apply HH|..].
    + unfold persist in *.
      pose proof (restore_spec (h_w h) (persist_metadata (h_st h) ∪ h_md h) (r_spans (h_st h))
                    (if keep then r_local (h_st h) else ∅)) as Hrs.
      destruct (restore _ _ _ _) as [[st' w'] regs]. cbn [fst snd h_st] in *.
      destruct Hrs as (E1 & E2 & _).
      apply obs_matches_persist_inv in Hi as (e' & sp' & md' & rg' & sn & -> & _).
      cbn [iobs_snap] in Hsn. cbn [ok_c03].
      apply (IH (mk_hist st' w' (persist_metadata (h_st h) ∪ h_md h) (r_spans (h_st h)))); try done.
      cbn [h_st].
      assert (abs st' = abs (h_st h)) as ->; [|exact Hacc].
      unfold abs. rewrite E1, E2. unfold persist_metadata.
      by rewrite (union_absorb _ _ (hinv_md _ HH)).
Qed.

(** the executable statement of C03 holds of any run the correspondence accepts *)
Theorem ok_c03_of_corr : ∀ steps impl,
  hist_scope hist_init steps → no_drop steps = true → stream_accepted steps = true →
  corr_history steps impl = true →
  ok_c03 snap_empty steps impl = true.
Proof.
  intros steps impl Hsc Hnd Hacc Hc.
  apply (ok_c03_of_corr_from steps hist_init);
    [apply HInv_init | done | done | exact Hacc | apply snap_matches_empty | exact Hc].
Qed.

Corollary judge_c03_agree_whenever_corr : ∀ steps impl attached,
  hist_scope hist_init steps → no_drop steps = true → stream_accepted steps = true →
  corr_history steps impl = true → attached = true →
  judge_c03 steps impl attached = Agree.
Proof.
  intros steps impl att Hsc Hnd Hacc Hc Hatt.
  apply judge_c03_agree_of_corr; try done. by apply ok_c03_of_corr.
Qed.

Print Assumptions ok_c02_of_corr.
Print Assumptions ok_c02_of_corr_any_arena.
Print Assumptions judge_c02_agree_whenever_corr.
Print Assumptions ok_c03_of_corr.
Print Assumptions judge_c03_agree_whenever_corr.
