From TT Require Export Judge.RecvOk.
Definition judge_c07 (steps : list hstep) (impl : list iobs) : verdict :=
  judge_of true (corr_history steps impl) (ok_c07 snap_empty impl).
(** pairwise: the stream and the same stream with its rejected events removed *)
Definition judge_c07_pair (steps : list hstep) (impl : list iobs) (steps' : list hstep) (impl' : list iobs) : verdict :=
  judge_of true (corr_history steps impl && corr_history_arena (announced [] steps) steps' impl')
           (ok_c07_pair steps impl steps' impl').
