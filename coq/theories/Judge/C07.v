From TT Require Export Judge.RecvOk.
From TT Require Import Tunnel.ReceiverMisc.
From stdpp Require Import gmap.
Definition judge_c07 (steps : list hstep) (impl : list iobs) : verdict :=
  judge_of true (corr_history steps impl) (ok_c07 snap_empty impl).
(** pairwise: the stream and the same stream with its rejected events removed *)
Definition judge_c07_pair (steps : list hstep) (impl : list iobs) (steps' : list hstep) (impl' : list iobs) : verdict :=
  judge_of true (corr_history steps impl && corr_history_arena (announced [] steps) steps' impl')
           (ok_c07_pair steps impl steps' impl').

(** ** restores from stale metadata

    A host may persist the spans of a receiver together with a metadata snapshot taken earlier in
    the same history (persist_metadata() is a separate call).  Spans can then be alive whose call
    site the restored receiver does not know, and events can be rejected *after* lookups that
    succeeded.  History: [e0 ++ e1] on a default receiver, metadata taken after [e0], spans (and the
    local map) after [e1]; restore; then [e2], observed step by step; finally persist. *)
Definition stale_start (e0 e1 : list event) (keep : bool) : rstate * world :=
  let '(st0, w0, _) := crun rs_default (mk_w 0 []) e0 in
  let md := r_meta st0 in
  let '(st1, w1, _) := crun st0 w0 e1 in
  let '(st2, w2, _) := restore w1 md (r_spans st1) (if keep then r_local st1 else ∅) in
  (st2, w2).

Fixpoint stale_run (st : rstate) (w : world) (evs : list event) : list mobs * rstate :=
  match evs with
  | [] => ([], st)
  | ev :: r => let '(o, st', w', calls) := try_receive st w ev in
               let '(obs, stf) := stale_run st' w' r in (MRecv o calls st' :: obs, stf)
  end.

Definition corr_stale (e0 e1 : list event) (keep : bool) (e2 : list event)
    (snap0 : snap) (impl : list iobs) (final_exits : list hcall) : bool :=
  let '(st, w) := stale_start e0 e1 keep in
  let '(obs, stf) := stale_run st w e2 in
  snap_matches st snap0 && all2 obs_matches obs impl
  && batch_eqb (exits_of (r_entered stf) (r_local stf)) final_exits.

(** [impl] / [impl'] : observations of [e2] and of [e2] without its rejected events, from the same
    restored state; the final persist batches are compared too *)
Definition events_eqb := list_eqb event_eqb.
Fixpoint filter_rejected_ev (evs : list event) (impl : list iobs) : list event :=
  match evs, impl with
  | ev :: r, IRecv o _ _ :: i => if is_rejected o then filter_rejected_ev r i else ev :: filter_rejected_ev r i
  | _, _ => []
  end.
Definition judge_c07_stale (e0 e1 : list event) (keep : bool) (e2 : list event)
    (snap0 : snap) (impl : list iobs) (fin : list hcall)
    (e2' : list event) (snap0' : snap) (impl' : list iobs) (fin' : list hcall) : verdict :=
  judge_of true
    (corr_stale e0 e1 keep e2 snap0 impl fin && corr_stale e0 e1 keep e2' snap0' impl' fin')
    (ok_c07 snap0 impl
     && events_eqb (filter_rejected_ev e2 impl) e2'
     && snap_eqb snap0 snap0'
     && all2 iobs_same
          (List.filter (fun i => match i with IRecv o _ _ => negb (is_rejected o) | _ => true end) impl) impl'
     && batch_eqb fin fin').
