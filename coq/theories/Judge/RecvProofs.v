(** Soundness of the boolean comparisons used by [corr_history]: when the judge says the
    implementation's observation matches the model's, the two are equal (maps extensionally,
    call lists literally, finalisation batches as multisets). *)
From TT Require Import Tunnel.TypesProofs Judge.Recv.
From stdpp Require Import gmap.

Lemma span_data_eqb_sound a b : span_data_eqb a b = true ↔ a = b.
Proof.
  destruct a, b; unfold span_data_eqb; simpl.
  rewrite !andb_true_iff, !N.eqb_eq, (option_eqb_spec N.eqb N.eqb_eq), tvalues_eqb_spec.
  split; [intros [[[-> ->] ->] ->]; done | intros [= -> -> -> ->]; done].
Qed.

Lemma pkind_eqb_sound a b : pkind_eqb a b = true ↔ a = b.
Proof. destruct a, b; simpl; rewrite ?N.eqb_eq; split; congruence. Qed.

Lemma hcall_eqb_sound a b : hcall_eqb a b = true ↔ a = b.
Proof.
  destruct a, b; simpl; try (split; [discriminate | congruence]);
    rewrite ?andb_true_iff, ?N.eqb_eq, ?cs_data_eqb_spec, ?pkind_eqb_sound, ?tvalues_eqb_spec;
    split; try (intros [= -> -> -> ->]; tauto); try (intros [= -> -> ->]; tauto);
    try (intros [= -> ->]; tauto); try (intros [= ->]; tauto); intuition congruence.
Qed.

Lemma calls_eqb_sound a b : calls_eqb a b = true ↔ a = b.
Proof. apply list_eqb_spec, hcall_eqb_sound. Qed.

Lemma rerror_eqb_sound a b : rerror_eqb a b = true ↔ a = b.
Proof. destruct a, b; simpl; rewrite ?N.eqb_eq; split; congruence. Qed.
Lemma outcome_eqb_sound a b : outcome_eqb a b = true ↔ a = b.
Proof. destruct a, b; simpl; rewrite ?rerror_eqb_sound; split; congruence. Qed.

(** [strictly_ascending] keys are distinct *)
Lemma strictly_ascending_lt l : strictly_ascending l = true →
  match l with a :: r => Forall (fun b => (a < b)%N) r | [] => True end.
Proof.
  induction l as [|a [|b r] IH]; simpl; try done.
  intros H. apply andb_true_iff in H as [Hab Hr]. apply N.ltb_lt in Hab.
  specialize (IH Hr). simpl in IH. constructor; [done|].
  eapply Forall_impl; [exact IH|]. intros c Hc. simpl in Hc. lia.
Qed.

Lemma strictly_ascending_tail a l : strictly_ascending (a :: l) = true → strictly_ascending l = true.
Proof. destruct l; simpl; [done|]. intros H. by apply andb_true_iff in H as [_ H]. Qed.

Lemma strictly_ascending_NoDup l : strictly_ascending l = true → NoDup l.
Proof.
  induction l as [|a l IH]; intros H; [constructor|].
  constructor; [|apply IH; by eapply strictly_ascending_tail].
  pose proof (strictly_ascending_lt _ H) as Hlt. simpl in Hlt.
  intros Hin. rewrite Forall_forall in Hlt. specialize (Hlt _ Hin). lia.
Qed.

(** a map matches an association list exactly when it is the map the list denotes *)
Theorem map_matches_sound {V} (eqb : V → V → bool) (m : gmap N V) (l : list (N * V)) :
  (∀ a b, eqb a b = true ↔ a = b) →
  map_matches eqb m l = true → m = list_to_map l.
Proof.
  intros Heq H. unfold map_matches in H.
  apply andb_true_iff in H as [H Hall]. apply andb_true_iff in H as [Hsize Hasc].
  apply N.eqb_eq, Nat2N.inj in Hsize.
  apply strictly_ascending_NoDup in Hasc.
  assert (list_to_map l ⊆ m) as Hsub.
  { apply map_subseteq_spec. intros k v Hk. apply elem_of_list_to_map in Hk; [|done].
    rewrite forallb_forall in Hall. apply elem_of_list_In in Hk. specialize (Hall _ Hk). simpl in Hall.
    destruct (m !! k) as [v'|] eqn:E; [|done]. apply Heq in Hall. by subst. }
  assert (size (list_to_map l : gmap N V) = List.length l) as Hsl.
  { rewrite <- size_dom, dom_list_to_map_L, size_list_to_set; [by rewrite fmap_length | done]. }
  assert (dom m = dom (list_to_map l : gmap N V)) as Hdom.
  { symmetry. apply set_eq. intros k. split; [apply subseteq_dom in Hsub; apply Hsub|].
    intros Hk. destruct (decide (k ∈ dom (list_to_map l : gmap N V))) as [|Hn]; [done|]. exfalso.
    assert (dom (list_to_map l : gmap N V) ⊂ dom m) as Hss.
    { split; [by apply subseteq_dom|]. intros Hc. apply Hn, Hc, Hk. }
    apply subset_size in Hss. rewrite !size_dom, Hsl, Hsize in Hss. lia. }
  apply map_eq. intros k. destruct (list_to_map l !! k) as [v|] eqn:E.
  - by apply (lookup_weaken _ _ _ _ E Hsub).
  - apply not_elem_of_dom. rewrite Hdom. by apply not_elem_of_dom.
Qed.

Theorem set_matches_sound (s : gset N) (l : list N) : set_matches s l = true → s = list_to_set l.
Proof.
  unfold set_matches. intros H.
  apply andb_true_iff in H as [H Hall]. apply andb_true_iff in H as [Hsize Hasc].
  apply N.eqb_eq, Nat2N.inj in Hsize. apply strictly_ascending_NoDup in Hasc.
  assert (list_to_set l ⊆ s) as Hsub.
  { intros k Hk. apply elem_of_list_to_set in Hk. rewrite forallb_forall in Hall.
    apply elem_of_list_In in Hk. specialize (Hall _ Hk). by apply bool_decide_eq_true in Hall. }
  apply set_eq. intros k. split; [|apply Hsub].
  intros Hk. destruct (decide (k ∈ (list_to_set l : gset N))) as [|Hn]; [done|]. exfalso.
  assert ((list_to_set l : gset N) ⊂ s) as Hss.
  { split; [done|]. intros Hc. apply Hn, Hc, Hk. }
  apply subset_size in Hss. rewrite size_list_to_set, Hsize in Hss by done. lia.
Qed.

(** the snapshot comparison determines the whole receiver state *)
Theorem snap_matches_sound st s :
  snap_matches st s = true →
  r_meta st = list_to_map (sn_meta s) ∧ r_spans st = list_to_map (sn_spans s) ∧
  r_local st = list_to_map (sn_local s) ∧ r_uncommitted st = list_to_set (sn_uncommitted s) ∧
  r_entered st = list_to_map (sn_entered s).
Proof.
  unfold snap_matches. rewrite !andb_true_iff. intros [[[[H1 H2] H3] H4] H5].
  split_and!.
  - by apply (map_matches_sound _ _ _ cs_data_eqb_spec).
  - by apply (map_matches_sound _ _ _ span_data_eqb_sound).
  - by apply (map_matches_sound _ _ _ N.eqb_eq).
  - by apply set_matches_sound.
  - by apply (map_matches_sound _ _ _ N.eqb_eq).
Qed.

(** [perm_eqb] is sound for multiset equality *)
Lemma remove_first_perm {A} (eqb : A → A → bool) (Heq : ∀ a b, eqb a b = true ↔ a = b) x l l' :
  remove_first eqb x l = Some l' → l ≡ₚ x :: l'.
Proof.
  revert l'. induction l as [|y l IH]; intros l' H; simpl in H; [done|].
  destruct (eqb x y) eqn:E.
  - apply Heq in E. by simplify_eq.
  - destruct (remove_first eqb x l) as [r|]; [|done]. simplify_eq.
    rewrite (IH r eq_refl). apply Permutation_swap.
Qed.

Theorem perm_eqb_sound {A} (eqb : A → A → bool) (Heq : ∀ a b, eqb a b = true ↔ a = b) a b :
  perm_eqb eqb a b = true → a ≡ₚ b.
Proof.
  revert b. induction a as [|x a IH]; intros b H; simpl in H.
  - by destruct b.
  - destruct (remove_first eqb x b) as [b'|] eqn:E; [|done].
    rewrite (remove_first_perm eqb Heq _ _ _ E). by rewrite (IH b' H).
Qed.
