(** Soundness of the boolean comparisons used by [corr_history]: when the judge says the
    implementation's observation matches the model's, the two are equal (maps extensionally,
    call lists literally, finalisation batches as multisets). *)
From TT Require Import Tunnel.TypesProofs Judge.Recv.
From stdpp Require Import gmap.

Lemma span_data_eqb_sound a b : span_data_eqb a b = true ↔ a = b.
Proof.
  destruct a, b; unfold span_data_eqb; simpl.
  rewrite !andb_true_iff, !N.eqb_eq, (option_eqb_spec N.eqb N.eqb_eq), tvalues_eqb_spec.
  split; [intros [[[-> ->] ->] ->]; done | intros [= -> -> -> ->]; done].
Qed.

Lemma pkind_eqb_sound a b : pkind_eqb a b = true ↔ a = b.
Proof. destruct a, b; simpl; rewrite ?N.eqb_eq; split; congruence. Qed.

Lemma hcall_eqb_sound a b : hcall_eqb a b = true ↔ a = b.
Proof.
  destruct a, b; simpl; try (split; [discriminate | congruence]);
    rewrite ?andb_true_iff, ?N.eqb_eq, ?cs_data_eqb_spec, ?pkind_eqb_sound, ?tvalues_eqb_spec;
    split; try (intros [= -> -> -> ->]; tauto); try (intros [= -> -> ->]; tauto);
    try (intros [= -> ->]; tauto); try (intros [= ->]; tauto); intuition congruence.
Qed.

Lemma calls_eqb_sound a b : calls_eqb a b = true ↔ a = b.
Proof. apply list_eqb_spec, hcall_eqb_sound. Qed.

Lemma rerror_eqb_sound a b : rerror_eqb a b = true ↔ a = b.
Proof. destruct a, b; simpl; rewrite ?N.eqb_eq; split; congruence. Qed.
Lemma outcome_eqb_sound a b : outcome_eqb a b = true ↔ a = b.
Proof. destruct a, b; simpl; rewrite ?rerror_eqb_sound; split; congruence. Qed.

(** [strictly_ascending] keys are distinct *)
Lemma strictly_ascending_lt l : strictly_ascending l = true →
  match l with a :: r => Forall (fun b => (a < b)%N) r | [] => True end.
Proof.
  induction l as [|a [|b r] IH]; simpl; try done.
  intros H. apply andb_true_iff in H as [Hab Hr]. apply N.ltb_lt in Hab.
  specialize (IH Hr). simpl in IH. constructor; [done|].
  eapply Forall_impl; [exact IH|]. intros c Hc. simpl in Hc. lia.
Qed.

Lemma strictly_ascending_tail a l : strictly_ascending (a :: l) = true → strictly_ascending l = true.
Proof. destruct l; simpl; [done|]. intros H. by apply andb_true_iff in H as [_ H]. Qed.

Lemma strictly_ascending_NoDup l : strictly_ascending l = true → NoDup l.
Proof.
  induction l as [|a l IH]; intros H; [constructor|].
  constructor; [|apply IH; by eapply strictly_ascending_tail].
  pose proof (strictly_ascending_lt _ H) as Hlt. simpl in Hlt.
  intros Hin. rewrite Forall_forall in Hlt. specialize (Hlt _ Hin). lia.
Qed.

(** a map matches an association list exactly when it is the map the list denotes *)
Theorem map_matches_sound {V} (eqb : V → V → bool) (m : gmap N V) (l : list (N * V)) :
  (∀ a b, eqb a b = true ↔ a = b) →
  map_matches eqb m l = true → m = list_to_map l.
Proof.
  intros Heq H. unfold map_matches in H.
  apply andb_true_iff in H as [H Hall]. apply andb_true_iff in H as [Hsize Hasc].
  apply N.eqb_eq, Nat2N.inj in Hsize.
  apply strictly_ascending_NoDup in Hasc.
  assert (list_to_map l ⊆ m) as Hsub.
  { apply map_subseteq_spec. intros k v Hk. apply elem_of_list_to_map in Hk; [|done].
    rewrite forallb_forall in Hall. apply elem_of_list_In in Hk. specialize (Hall _ Hk). simpl in Hall.
    destruct (m !! k) as [v'|] eqn:E; [|done]. apply Heq in Hall. by subst. }
  assert (size (list_to_map l : gmap N V) = List.length l) as Hsl.
  { rewrite <- size_dom, dom_list_to_map_L, size_list_to_set; [by rewrite fmap_length | done]. }
  assert (dom m = dom (list_to_map l : gmap N V)) as Hdom.
  { symmetry. apply set_eq. intros k. split; [apply subseteq_dom in Hsub; apply Hsub|].
    intros Hk. destruct (decide (k ∈ dom (list_to_map l : gmap N V))) as [|Hn]; [done|]. exfalso.
    assert (dom (list_to_map l : gmap N V) ⊂ dom m) as Hss.
    { split; [by apply subseteq_dom|]. intros Hc. apply Hn, Hc, Hk. }
    apply subset_size in Hss. rewrite !size_dom, Hsl, Hsize in Hss. lia. }
  apply map_eq. intros k. destruct (list_to_map l !! k) as [v|] eqn:E.
  - by apply (lookup_weaken _ _ _ _ E Hsub).
  - apply not_elem_of_dom. rewrite Hdom. by apply not_elem_of_dom.
Qed.

Theorem set_matches_sound (s : gset N) (l : list N) : set_matches s l = true → s = list_to_set l.
Proof.
  unfold set_matches. intros H.
  apply andb_true_iff in H as [H Hall]. apply andb_true_iff in H as [Hsize Hasc].
  apply N.eqb_eq, Nat2N.inj in Hsize. apply strictly_ascending_NoDup in Hasc.
  assert (list_to_set l ⊆ s) as Hsub.
  { intros k Hk. apply elem_of_list_to_set in Hk. rewrite forallb_forall in Hall.
    apply elem_of_list_In in Hk. specialize (Hall _ Hk). by apply bool_decide_eq_true in Hall. }
  apply set_eq. intros k. split; [|apply Hsub].
  intros Hk. destruct (decide (k ∈ (list_to_set l : gset N))) as [|Hn]; [done|]. exfalso.
  assert ((list_to_set l : gset N) ⊂ s) as Hss.
  { split; [done|]. intros Hc. apply Hn, Hc, Hk. }
  apply subset_size in Hss. rewrite size_list_to_set, Hsize in Hss by done. lia.
Qed.

(** the snapshot comparison determines the whole receiver state *)
Theorem snap_matches_sound st s :
  snap_matches st s = true →
  r_meta st = list_to_map (sn_meta s) ∧ r_spans st = list_to_map (sn_spans s) ∧
  r_local st = list_to_map (sn_local s) ∧ r_uncommitted st = list_to_set (sn_uncommitted s) ∧
  r_entered st = list_to_map (sn_entered s).
Proof.
  unfold snap_matches. rewrite !andb_true_iff. intros [[[[H1 H2] H3] H4] H5].
  split_and!.
  - by apply (map_matches_sound _ _ _ cs_data_eqb_spec).
  - by apply (map_matches_sound _ _ _ span_data_eqb_sound).
  - by apply (map_matches_sound _ _ _ N.eqb_eq).
  - by apply set_matches_sound.
  - by apply (map_matches_sound _ _ _ N.eqb_eq).
Qed.

(** [perm_eqb] is sound for multiset equality *)
Lemma remove_first_perm {A} (eqb : A → A → bool) (Heq : ∀ a b, eqb a b = true ↔ a = b) x l l' :
  remove_first eqb x l = Some l' → l ≡ₚ x :: l'.
Proof.
  revert l'. induction l as [|y l IH]; intros l' H; simpl in H; [done|].
  destruct (eqb x y) eqn:E.
  - apply Heq in E. by simplify_eq.
  - destruct (remove_first eqb x l) as [r|]; [|done]. simplify_eq.
    rewrite (IH r eq_refl). apply Permutation_swap.
Qed.

Theorem perm_eqb_sound {A} (eqb : A → A → bool) (Heq : ∀ a b, eqb a b = true ↔ a = b) a b :
  perm_eqb eqb a b = true → a ≡ₚ b.
Proof.
  revert b. induction a as [|x a IH]; intros b H; simpl in H.
  - by destruct b.
  - destruct (remove_first eqb x b) as [b'|] eqn:E; [|done].
    rewrite (remove_first_perm eqb Heq _ _ _ E). by rewrite (IH b' H).
Qed.

(** * Finalisation batches: what [batch_eqb] establishes

    When the judge accepts the implementation's batch [b] against the model's batch [a] (exits
    followed by closes), [b] is [fin_reorder a] of [Tunnel/ReceiverOrder.v]: a permutation of the
    exits followed by a permutation of the closes - exactly the freedom the hash containers of
    [CurrentExecution::finalize] have, and the relation under which C04 and C08 are proved
    ([Tunnel/ReceiverOrderProofs.v]).  Likewise for the registrations of a restored receiver. *)
From TT Require Import Tunnel.ReceiverOrder Tunnel.ReceiverTrack.

Lemma ebc_true F :
  exits_before_closes true F = true → List.filter is_exit F = [] ∧ List.filter is_close F = F.
Proof.
  induction F as [|c F IH]; [done|]. destruct c; try done; cbn [exits_before_closes List.filter is_exit is_close].
  intros H. destruct (IH H) as [-> ->]. done.
Qed.
Lemma ebc_false F :
  exits_before_closes false F = true → F = List.filter is_exit F ++ List.filter is_close F.
Proof.
  induction F as [|c F IH]; [done|]. destruct c; try done; cbn [exits_before_closes List.filter is_exit is_close negb andb].
  - intros H. cbn [app]. f_equal. by apply IH.
  - intros H. destruct (ebc_true _ H) as [-> ->]. done.
Qed.
Lemma filter_exit_all F : forallb is_exit_call (List.filter is_exit F) = true.
Proof. induction F as [|c F IH]; [done|]. destruct c; cbn [List.filter is_exit]; try done. Qed.
Lemma filter_close_all F : forallb is_close_call (List.filter is_close F) = true.
Proof. induction F as [|c F IH]; [done|]. destruct c; cbn [List.filter is_close]; try done. Qed.

Theorem batch_eqb_fin_reorder a b :
  exits_before_closes false a = true → batch_eqb a b = true → fin_reorder a b.
Proof.
  unfold batch_eqb. rewrite !andb_true_iff. intros Ha [[[[He Hc] _] _] Hb].
  exists (List.filter is_exit a), (List.filter is_close a), (List.filter is_exit b), (List.filter is_close b).
  split_and!.
  - by apply ebc_false.
  - by apply ebc_false.
  - apply filter_exit_all.
  - apply filter_close_all.
  - by apply (perm_eqb_sound hcall_eqb hcall_eqb_sound).
  - by apply (perm_eqb_sound hcall_eqb hcall_eqb_sound).
Qed.

Theorem regs_eqb_reg_reorder a b :
  forallb is_reg_call a = true → perm_eqb hcall_eqb a b = true → reg_reorder a b.
Proof. intros Ha H. split; [done|]. by apply (perm_eqb_sound hcall_eqb hcall_eqb_sound). Qed.

(** ** the model's own batches are exits followed by closes; its registrations are registrations *)
Lemma ebc_closes C : forallb is_close_call C = true → exits_before_closes true C = true.
Proof.
  induction C as [|c C IH]; [done|]. cbn [forallb]. intros H. apply andb_true_iff in H as [Hc HC].
  destruct c; try done. by apply IH.
Qed.
Lemma ebc_app E C :
  forallb is_exit_call E = true → forallb is_close_call C = true → exits_before_closes false (E ++ C) = true.
Proof.
  induction E as [|c E IH]; cbn [forallb app]; intros HE HC.
  - destruct C as [|c C]; [done|]. cbn [forallb] in HC. apply andb_true_iff in HC as [Hc HC].
    destruct c; try done. cbn [exits_before_closes]. by apply ebc_closes.
  - apply andb_true_iff in HE as [Hc HE]. destruct c; try done. cbn [exits_before_closes negb andb]. by apply IH.
Qed.

Lemma restore_fold_regs l st0 w0 c0 :
  forallb is_reg_call c0 = true →
  forallb is_reg_call (fold_left restore_step l (st0, w0, c0)).2 = true.
Proof.
  revert st0 w0 c0. induction l as [|[id d] l IH]; intros st0 w0 c0 H0; [done|].
  cbn [fold_left]. unfold restore_step at 2. unfold on_new_call_site. cbn [fst snd].
  apply IH. rewrite forallb_app, H0. by destruct (negb _).
Qed.
Lemma restore_regs w md sp loc : forallb is_reg_call (restore w md sp loc).2 = true.
Proof. unfold restore. by apply restore_fold_regs. Qed.

Definition mobs_wf (m : mobs) : Prop :=
  match m with
  | MRecv _ _ _ => True
  | MPersist e _ _ rg _ => exits_before_closes false e = true ∧ forallb is_reg_call rg = true
  | MDrop c rg _ => exits_before_closes false c = true ∧ forallb is_reg_call rg = true
  end.

Lemma exits_of_exits ent loc : forallb is_exit_call (exits_of ent loc) = true.
Proof.
  unfold exits_of. induction (map_to_list ent) as [|[id c] l IH]; [done|]. cbn [flat_map].
  rewrite forallb_app, IH, andb_true_r. destruct (loc !! id); [|done]. by induction (N.to_nat c).
Qed.
Lemma closes_of_closes unc loc : forallb is_close_call (closes_of unc loc) = true.
Proof.
  unfold closes_of. induction (elements unc) as [|i l IH]; [done|]. cbn [flat_map].
  rewrite forallb_app, IH, andb_true_r. by destruct (loc !! i).
Qed.

Lemma hist_step_wf h s : mobs_wf (hist_step h s).2.
Proof.
  destruct s as [ev|k|]; cbn [hist_step].
  - by destruct (try_receive _ _ _) as [[[o st'] w'] calls].
  - unfold persist. cbn [fst snd].
    pose proof (restore_regs (h_w h) (persist_metadata (h_st h) ∪ h_md h) (r_spans (h_st h))
                  (if k then r_local (h_st h) else ∅)) as R.
    destruct (restore _ _ _ _) as [[st' w'] regs]. cbn [snd mobs_wf] in *. split; [|done].
    rewrite <- (app_nil_r (exits_of (r_entered (h_st h)) (r_local (h_st h)))). apply ebc_app; [apply exits_of_exits | done].
  - pose proof (restore_regs (h_w h) (h_md h) (h_spans h) ∅) as R.
    destruct (restore _ _ _ _) as [[st' w'] regs]. cbn [snd mobs_wf] in *. split; [|done].
    unfold drop_calls. apply ebc_app; [apply exits_of_exits | apply closes_of_closes].
Qed.

Lemma hist_run_wf steps : ∀ h, Forall mobs_wf (hist_run h steps).
Proof.
  induction steps as [|s r IH]; intros h; [constructor|]. cbn [hist_run].
  pose proof (hist_step_wf h s) as W. destruct (hist_step h s) as [h' o]. cbn [snd] in W.
  constructor; [done|]. destruct (is_panic o); [constructor | apply IH].
Qed.

(** ** from the judge's verdict to the theorems' hypothesis

    [as_mobs m i]: the model's observation with the call lists the implementation actually made,
    in the order in which it made them. *)
Definition as_mobs (m : mobs) (i : iobs) : mobs :=
  match m, i with
  | MPersist _ sp md _ st, IPersist e' _ _ rg' _ => MPersist e' sp md rg' st
  | MDrop _ _ st, IDrop c' rg' _ => MDrop c' rg' st
  | _, _ => m
  end.
Definition iobs_calls (i : iobs) : list hcall :=
  match i with IRecv _ c _ => c | IPersist e _ _ rg _ => e ++ rg | IDrop c rg _ => c ++ rg end.
Fixpoint zip_mobs (ms : list mobs) (is : list iobs) : list mobs :=
  match ms, is with
  | m :: ms', i :: is' => as_mobs m i :: zip_mobs ms' is'
  | _, _ => []
  end.

Lemma obs_matches_reorder m i :
  mobs_wf m → obs_matches m i = true →
  obs_reorder m (as_mobs m i) ∧ Tunnel.ReceiverTrack.mobs_calls (as_mobs m i) = iobs_calls i.
Proof.
  destruct m as [o c st|e sp md rg st|c rg st], i as [o' c' s|e' sp' md' rg' s|c' rg' s]; try done;
    cbn [mobs_wf obs_matches as_mobs obs_reorder iobs_calls Tunnel.ReceiverTrack.mobs_calls].
  - intros _ H. apply andb_true_iff in H as [H _]. apply andb_true_iff in H as [_ H].
    apply calls_eqb_sound in H. subst. done.
  - intros [W1 W2] H. rewrite !andb_true_iff in H. destruct H as [[[[H1 _] _] H2] _].
    split; [|done]. split_and!; try done; [by apply batch_eqb_fin_reorder | by apply regs_eqb_reg_reorder].
  - intros [W1 W2] H. rewrite !andb_true_iff in H. destruct H as [[H1 H2] _].
    split; [|done]. split_and!; try done; [by apply batch_eqb_fin_reorder | by apply regs_eqb_reg_reorder].
Qed.

Lemma all2_matches_reorder ms is :
  Forall mobs_wf ms → all2 obs_matches ms is = true →
  Forall2 obs_reorder ms (zip_mobs ms is) ∧
  flat_map Tunnel.ReceiverTrack.mobs_calls (zip_mobs ms is) = flat_map iobs_calls is.
Proof.
  revert is. induction ms as [|m ms IH]; intros [|i is] W H; try done; [split; [constructor | done]|].
  cbn [all2] in H. apply andb_true_iff in H as [H1 H2]. inversion W as [|x0 l0 W1 W2]; subst.
  destruct (obs_matches_reorder m i W1 H1) as [R1 E1]. destruct (IH is W2 H2) as [R2 E2].
  cbn [zip_mobs flat_map]. split; [by constructor | by rewrite E1, E2].
Qed.

(** When the judge finds that the implementation matched the model on a history, the
    implementation's observations - with every batch in the order in which the calls were really
    made - are [obs_reorder]-related to the model's, and its calls are the calls of those
    observations. *)
Theorem corr_history_reorder steps impl :
  corr_history steps impl = true →
  let obs' := zip_mobs (hist_run hist_init steps) impl in
  Forall2 obs_reorder (hist_run hist_init steps) obs' ∧
  flat_map Tunnel.ReceiverTrack.mobs_calls obs' = flat_map iobs_calls impl.
Proof. intros H. apply all2_matches_reorder; [apply hist_run_wf | exact H]. Qed.

(** ** C08 and C04 on the calls the implementation really made, in the order it made them *)
From TT Require Import Tunnel.ReceiverSpec Tunnel.ReceiverHistInv Tunnel.ReceiverFinalize Tunnel.ReceiverOrderProofs.
From stdpp Require Import gmap.

Theorem impl_calls_tracked steps impl :
  hist_scope hist_init steps → corr_history steps impl = true →
  (∃ opn, track_all ∅ (flat_map iobs_calls impl) = Some opn) ∧ NoDup (closed (flat_map iobs_calls impl)).
Proof.
  intros Hsc H. destruct (corr_history_reorder steps impl H) as [R E]. rewrite <- E. split.
  - destruct (hist_ids_valid_any_order steps _ Hsc R) as (opn & Ht & _). by exists opn.
  - by apply (hist_close_once_any_order steps).
Qed.

Theorem impl_context_restored (ls : list life) stk impl :
  Forall (λ l : life, is_recv (snd l) = false) ls →
  hist_scope hist_init (lives_steps ls) → wf_drop_lives hist_init ls = true →
  (∀ h, h ∈ stk → (h <= w_next (h_w hist_init))%N) →
  corr_history (lives_steps ls) impl = true →
  let obs' := zip_mobs (hist_run hist_init (lives_steps ls)) impl in
  stack_apply stk (all_calls obs') = stk ∧ current (stack_apply stk (all_calls obs')) = current stk.
Proof.
  intros Hf Hsc Hwf Hold H. destruct (corr_history_reorder _ impl H) as [R _].
  by apply (host_context_restored_any_order ls).
Qed.
