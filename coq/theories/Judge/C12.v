(** Correspondence judge for C12 (evaluated by [vm_compute] on cases written by the harness).

    A case is a guest program run with the real [tracing] API under a [Tee] subscriber that logs
    every [Subscriber] call it receives and forwards it to a REAL [TracingEventSender] created with
    [verif_with_next_span_id(hook, start)]; the hook collects the events.  Metadata ids (addresses)
    are canonicalised by the harness to the index of the call site in the program's pool, so
    [mid = N.of_nat].  Announcements of call sites that do not belong to the program (every call
    site registered earlier in the process is re-announced to every new dispatcher) are removed
    from the log and from the stream by the harness and only counted. *)
From stdpp Require Import gmap.
From TT Require Export Tunnel.ReceiverAbs Tunnel.Sender.
From TT Require Import Values.ValuesProofs Tunnel.TypesProofs.

Record sobs := mk_sobs {
  so_calls : list scall;          (* the Tee's log: the subscriber operations, in order *)
  so_events : list event;         (* what the sender handed to its hook, in order *)
  so_panicked : bool;             (* a tracing call of the guest panicked (the run stopped there) *)
  so_foreign_calls : N;           (* register_callsite calls for call sites of other programs (removed) *)
  so_foreign_events : N }.        (* NewCallSite events for call sites of other programs (removed) *)

Fixpoint zip_all {A B} (f : A -> B -> bool) (x : list A) (y : list B) : bool :=
  match x, y with
  | [], [] => true
  | a :: x', b :: y' => f a b && zip_all f x' y'
  | _, _ => false
  end.

Definition mem_N (x : N) (l : list N) : bool := existsb (N.eqb x) l.
Fixpoint nodup_N (l : list N) : bool :=
  match l with
  | [] => true
  | a :: r => negb (mem_N a r) && nodup_N r
  end.

Definition cmid : nat -> N := N.of_nat.

(** * The property's executable statement on the implementation's own output *)

(** (1) one event per logged subscriber call, in order, with the call's ids, explicit parent,
    values and call site; an announcement carries the description of the site it names *)
Definition call_event_match (sites : list cs_data) (c : scall) (e : event) : bool :=
  match c, e with
  | SRegister cs, ENewCallSite m d => (m =? cmid cs) && cs_data_eqb d (site_data sites cs)
  | SNewSpan id cs p vals, ENewSpan id' p' m vals' =>
      (id =? id') && option_eqb N.eqb (sender_parent p) p' && (m =? cmid cs) && tvalues_eqb vals vals'
  | SRecord id vals, EValuesRecorded id' vals' => (id =? id') && tvalues_eqb vals vals'
  | SEnter id, ESpanEntered id' | SExit id, ESpanExited id'
  | SClone id, ESpanCloned id' | STryClose id, ESpanDropped id' => id =? id'
  | SFollows id f, EFollowsFrom id' f' => (id =? id') && (f =? f')
  | SEvent cs p vals, ENewEvent m p' vals' =>
      (m =? cmid cs) && option_eqb N.eqb (sender_parent p) p' && tvalues_eqb vals vals'
  | _, _ => false
  end.

(** (2) every call site used by a span or event was announced earlier, with content equal to the
    call site's description *)
Fixpoint announced_b (sites : list cs_data) (known : list N) (evs : list event) : bool :=
  match evs with
  | [] => true
  | ENewCallSite m d :: r =>
      Nat.ltb (N.to_nat m) (List.length sites) && cs_data_eqb d (site_data sites (N.to_nat m))
      && announced_b sites (m :: known) r
  | (ENewSpan _ _ m _ | ENewEvent m _ _) :: r => mem_N m known && announced_b sites known r
  | _ :: r => announced_b sites known r
  end.

(** (3) span ids non-zero and never reused *)
Definition ids_ok (evs : list event) : bool :=
  let ids := new_span_ids evs in nodup_N ids && forallb (fun id => negb (id =? 0)) ids.

(** (4) every reference to a span id lies between its [NewSpan] and the [SpanDropped] of its last
    handle; handles are counted from the stream itself *)
Fixpoint refs_of (alive : list (N * N)) (id : N) : option N :=
  match alive with
  | [] => None
  | (i, n) :: r => if i =? id then Some n else refs_of r id
  end.
Fixpoint set_refs (alive : list (N * N)) (id n : N) : list (N * N) :=
  match alive with
  | [] => []
  | (i, m) :: r => if i =? id then (if n =? 0 then r else (i, n) :: r) else (i, m) :: set_refs r id n
  end.
Definition is_alive (alive : list (N * N)) (id : N) : bool :=
  match refs_of alive id with Some _ => true | None => false end.
Definition opt_alive_b (alive : list (N * N)) (p : option N) : bool :=
  match p with Some id => is_alive alive id | None => true end.

Fixpoint life_ok (alive : list (N * N)) (evs : list event) : bool :=
  match evs with
  | [] => true
  | e :: r =>
      match e with
      | ENewCallSite _ _ => life_ok alive r
      | ENewSpan id p _ _ => opt_alive_b alive p && negb (is_alive alive id) && life_ok ((id, 1) :: alive) r
      | ENewEvent _ p _ => opt_alive_b alive p && life_ok alive r
      | ESpanCloned id =>
          match refs_of alive id with Some n => life_ok (set_refs alive id (n + 1)) r | None => false end
      | ESpanDropped id =>
          match refs_of alive id with Some n => life_ok (set_refs alive id (n - 1)) r | None => false end
      | ESpanEntered id | ESpanExited id | EValuesRecorded id _ => is_alive alive id && life_ok alive r
      | EFollowsFrom a b => is_alive alive a && is_alive alive b && life_ok alive r
      end
  end.

(** (5) the whole stream is accepted by the abstract receiver *)
Definition is_accepted (o : outcome) : bool := match o with Accepted => true | _ => false end.
Definition stream_accepted (evs : list event) : bool := forallb is_accepted (fst (arun a_init evs)).

(** (6) faithful to the program: exactly one non-announcement event per op, in program order,
    carrying the span ids of the op's spans (taken from the stream's own [NewSpan] events: the k-th
    one names the span with creation index k), the explicit parent and the captured values of the
    specification of C14 *)
Definition impl_id (ids : list N) (k : nat) : option N := nth_error ids k.
Definition impl_parent (ids : list N) (p : parent_kind) : option (option N) :=
  match p with
  | PKExplicit k => option_map Some (impl_id ids k)
  | PKCtx | PKRoot => Some None
  end.
Definition expected_event (sites : list cs_data) (ids : list N) (spans : list nat) (o : op) : option event :=
  match o with
  | ONewSpan cs p vals =>
      match impl_id ids (List.length spans), impl_parent ids p with
      | Some id, Some par => Some (ENewSpan id par (cmid cs) (captured (site_fields sites cs) vals))
      | _, _ => None
      end
  | ORecord k vals =>
      match impl_id ids k, nth_error spans k with
      | Some id, Some cs => Some (EValuesRecorded id (captured (site_fields sites cs) vals))
      | _, _ => None
      end
  | OEnter k => option_map ESpanEntered (impl_id ids k)
  | OExit k => option_map ESpanExited (impl_id ids k)
  | OClone k => option_map ESpanCloned (impl_id ids k)
  | ODrop k => option_map ESpanDropped (impl_id ids k)
  | OFollows k (FLive j) =>
      match impl_id ids k, impl_id ids j with
      | Some a, Some b => Some (EFollowsFrom a b)
      | _, _ => None
      end
  | OFollows k (FStale raw) => option_map (fun a => EFollowsFrom a raw) (impl_id ids k)
  | OEvent cs p vals =>
      match impl_parent ids p with
      | Some par => Some (ENewEvent (cmid cs) par (captured (site_fields sites cs) vals))
      | None => None
      end
  end.
Fixpoint faithful (sites : list cs_data) (ids : list N) (spans : list nat) (ops : list (nat * op))
    (evs : list event) : bool :=
  match ops, evs with
  | [], [] => true
  | o :: r, e :: evs' =>
      option_eqb event_eqb (expected_event sites ids spans (snd o)) (Some e)
      && faithful sites ids (spans_after spans (snd o)) r evs'
  | _, _ => false
  end.

Definition sender_ok (p : prog) (o : sobs) : bool :=
  negb (so_panicked o)
  && zip_all (call_event_match (p_sites p)) (so_calls o) (so_events o)
  && (so_foreign_calls o =? so_foreign_events o)
  && announced_b (p_sites p) [] (so_events o)
  && ids_ok (so_events o)
  && life_ok [] (so_events o)
  && stream_accepted (so_events o)
  && faithful (p_sites p) (new_span_ids (so_events o)) [] (p_ops p) (op_events (so_events o)).

(** * Correspondence: the model's output equals the implementation's.  Announcements may come
    earlier in the implementation (at dispatcher creation for a call site registered before), so
    the streams are compared without them and every announcement of the model must occur in the
    implementation's stream. *)
Definition sender_corr (start : N) (p : prog) (o : sobs) : bool :=
  let '(calls, panicked) := front_run (sender_alloc_from start) all_enabled p in
  let evs := map (sender_event cmid (p_sites p)) calls in
  list_eqb scall_eqb (op_calls calls) (op_calls (so_calls o))
  && list_eqb event_eqb (op_events evs) (op_events (so_events o))
  && Bool.eqb panicked (so_panicked o)
  && forallb (fun e => negb (is_announce e) || existsb (event_eqb e) (so_events o)) evs.

(** hypotheses of the theorems: a well-formed single-threaded program; the counter start is a
    [u32] other than 0 *)
Definition sender_hyp (start : N) (p : prog) : bool :=
  wf_prog_b p && single_threaded p && (1 <=? start) && (start <? U32).

(** known class 1 (span-id-wrap): the run makes an allocation when [2^32 - 1] or more spans have
    been created since the (virtual) start of the sender.  A failure is downgraded only if it is the
    recorded one, i.e. the implementation did what the model says ([NewSpan] with id 0, panic). *)
Definition judge_sender (start : N) (p : prog) (o : sobs) : verdict :=
  if negb (sender_hyp start p) then OutOfScope
  else if negb (sender_ok p o) then
    (if prog_wraps start p && sender_corr start p o then KnownF 1 else PropFail)
  else if negb (sender_corr start p o) then Mismatch
  else Agree.

(** * Concurrency: threads sharing one sender, free-running.  [counts] = number of spans each thread
    creates; [sched] = the order of the atomic steps, reconstructed by the harness from the ids (a
    witness: if it is wrong the correspondence fails); [co_ids] = the ids each thread got back from
    [new_span], in its program order; [co_event_ids] = ids of the [NewSpan] events in stream order. *)
Record cobs := mk_cobs {
  co_ids : list (list N);
  co_event_ids : list N;
  (* per thread, what it contributed to the stream, in stream order: (0, i) the [NewSpan] of its i-th
     span, (1, i) the [NewEvent] it emitted inside it, (2, i) the [SpanDropped] of that span *)
  co_stream : list (list (N * N));
  (* events that could not be attributed to a thread *)
  co_stray : N }.

(** what thread [t] of the harness does ([busy]: it also emits events): for i = 0 .. n-1 it creates
    span i, emits an event in it when (t + i) mod 3 = 0, and drops it at once unless (t + i) is even;
    the spans it kept are dropped at the end, in creation order.  One event per call, in call order. *)
Definition conc_thread_expected (busy : bool) (t n : nat) : list (N * N) :=
  flat_map (fun i =>
              [(0, N.of_nat i)]
              ++ (if busy && Nat.eqb ((t + i) mod 3) 0 then [(1, N.of_nat i)] else [])
              ++ (if Nat.eqb ((t + i) mod 2) 0 then [] else [(2, N.of_nat i)]))
           (seq 0 n)
  ++ map (fun i => (2, N.of_nat i)) (List.filter (fun i => Nat.eqb ((t + i) mod 2) 0) (seq 0 n)).

Definition count_nat (t : nat) (l : list nat) : nat := List.length (List.filter (Nat.eqb t) l).

Definition conc_hyp (start : N) (counts : list nat) (sched : list nat) : bool :=
  (1 <=? start) && (start - 1 + N.of_nat (List.length sched) <=? U32 - 1)
  && forallb (fun t => Nat.ltb t (List.length counts)) sched
  && forallb (fun t => Nat.eqb (count_nat t sched) (nth t counts O)) (seq 0 (List.length counts)).

Definition conc_corr (start : N) (counts : list nat) (sched : list nat) (o : cobs) : bool :=
  let out := crun_from start sched in
  list_eqb (list_eqb N.eqb) (map (fun t => ids_of t out) (seq 0 (List.length counts))) (co_ids o).

Definition conc_ok (counts : list nat) (busy : bool) (o : cobs) : bool :=
  let all := List.concat (co_ids o) in
  nodup_N all && forallb (fun id => negb (id =? 0)) all
  && list_eqb Nat.eqb (map (@List.length N) (co_ids o)) counts
  && nodup_N (co_event_ids o)
  && Nat.eqb (List.length (co_event_ids o)) (List.length all)
  && forallb (fun id => mem_N id all) (co_event_ids o)
  (* every call of every thread produced exactly one event, and each thread's events are in the
     stream in the order of its calls *)
  && list_eqb (list_eqb (pair_eqb N.eqb N.eqb))
       (map (fun tn => conc_thread_expected busy (fst tn) (snd tn)) (combine (seq 0 (List.length counts)) counts))
       (co_stream o)
  && (co_stray o =? 0).

Definition judge_conc (start : N) (counts : list nat) (sched : list nat) (busy : bool) (o : cobs) : verdict :=
  judge_of (conc_hyp start counts sched) (conc_corr start counts sched o) (conc_ok counts busy o).

(** * The equalities are equalities *)
Lemma sparent_eqb_spec a b : sparent_eqb a b = true <-> a = b.
Proof.
  destruct a, b; cbn [sparent_eqb]; try (split; [discriminate | discriminate || congruence]);
    try (split; reflexivity).
  rewrite N.eqb_eq. split; [intros ->; reflexivity | intros [= ->]; reflexivity].
Qed.

Lemma scall_eqb_spec a b : scall_eqb a b = true <-> a = b.
Proof.
  destruct a, b; cbn [scall_eqb]; try (split; [discriminate | discriminate || congruence]);
    rewrite ?andb_true_iff, ?N.eqb_eq, ?Nat.eqb_eq, ?sparent_eqb_spec, ?tvalues_eqb_spec.
  all: split; [intros H; decompose [and] H; subst; reflexivity | intros [= -> ]; subst; repeat split; reflexivity].
Qed.

Lemma mem_N_spec x l : mem_N x l = true <-> In x l.
Proof.
  unfold mem_N. rewrite existsb_exists. split.
  - intros [y [Hy E]]. apply N.eqb_eq in E. subst. exact Hy.
  - intros H. exists x. split; [exact H | apply N.eqb_refl].
Qed.

Lemma nodup_N_spec l : nodup_N l = true <-> NoDup l.
Proof.
  induction l as [|a l IH]; cbn [nodup_N]; [split; [constructor | reflexivity]|].
  rewrite andb_true_iff, negb_true_iff, IH. split.
  - intros [H1 H2]. constructor; [|exact H2]. intros Hin. apply mem_N_spec in Hin. congruence.
  - intros H. inversion H as [|? ? Hn Hnd]; subst. split; [|exact Hnd].
    destruct (mem_N a l) eqn:E; [|reflexivity]. apply mem_N_spec in E. contradiction.
Qed.

(** [call_event_match] is exactly "the event is the sender's event of this call" *)
Lemma call_event_match_spec sites c e :
  call_event_match sites c e = true <-> e = sender_event cmid sites c.
Proof.
  destruct c, e; cbn [call_event_match sender_event]; try (split; [discriminate | discriminate || congruence]);
    rewrite ?andb_true_iff, ?N.eqb_eq, ?cs_data_eqb_spec, ?tvalues_eqb_spec,
            ?(option_eqb_spec N.eqb N.eqb_eq).
  all: split; [intros H; decompose [and] H; subst; try reflexivity; congruence
              | intros [= ]; subst; repeat split; reflexivity].
Qed.

(** the executable statement accepts the model's stream for the worked examples and rejects
    perturbed streams (the judge is neither over-strict nor blind) *)
Definition model_obs (start : N) (p : prog) : sobs :=
  let '(calls, panicked) := front_run (sender_alloc_from start) all_enabled p in
  mk_sobs calls (map (sender_event cmid (p_sites p)) calls) panicked 0 0.

Example judge_examples_agree :
  judge_sender 1 ex_fib (model_obs 1 ex_fib) = Agree
  /\ judge_sender 1 ex_explicit_parent (model_obs 1 ex_explicit_parent) = Agree
  /\ judge_sender 1 ex_reentrant (model_obs 1 ex_reentrant) = Agree
  /\ judge_sender 4294967290 ex_reentrant (model_obs 4294967290 ex_reentrant) = Agree
  /\ judge_sender 4294967295 ex_reentrant (model_obs 4294967295 ex_reentrant) = KnownF 1
  /\ judge_sender 0 ex_fib (model_obs 1 ex_fib) = OutOfScope
  /\ judge_sender 1 ex_bad_exit (model_obs 1 ex_bad_exit) = OutOfScope.
Proof. vm_compute. repeat split. Qed.

Definition with_events (o : sobs) (evs : list event) : sobs :=
  mk_sobs (so_calls o) evs (so_panicked o) (so_foreign_calls o) (so_foreign_events o).
Definition perturb (f : list event -> list event) (p : prog) : verdict :=
  let o := model_obs 1 p in judge_sender 1 p (with_events o (f (so_events o))).
Fixpoint map_nth {A} (n : nat) (f : A -> A) (l : list A) : list A :=
  match l, n with
  | [], _ => []
  | a :: r, O => f a :: r
  | a :: r, S n' => a :: map_nth n' f r
  end.
Fixpoint drop_nth {A} (n : nat) (l : list A) : list A :=
  match l, n with
  | [], _ => []
  | _ :: r, O => r
  | a :: r, S n' => a :: drop_nth n' r
  end.

Example judge_examples_detect :
  (* an event dropped; an event duplicated *)
  perturb (drop_nth 2) ex_fib = PropFail
  /\ perturb (fun l => match l with a :: b :: r => a :: b :: b :: r | _ => l end) ex_fib = PropFail
  (* span id 0; a reused id *)
  /\ perturb (map_nth 1 (fun e => match e with ENewSpan _ p m v => ENewSpan 0 p m v | _ => e end)) ex_fib = PropFail
  /\ perturb (map_nth 3 (fun e => match e with ENewSpan _ p m v => ENewSpan 1 p m v | _ => e end)) ex_explicit_parent = PropFail
  (* the announcement after the use; with different content *)
  /\ perturb (fun l => match l with a :: b :: r => b :: a :: r | _ => l end) ex_fib = PropFail
  /\ perturb (map_nth 0 (fun e => match e with ENewCallSite m d => ENewCallSite m cs_none | _ => e end)) ex_fib = PropFail
  (* a lost explicit parent; a value set that kept an earlier value; a wrong span id *)
  /\ perturb (map_nth 3 (fun e => match e with ENewSpan i _ m v => ENewSpan i None m v | _ => e end)) ex_explicit_parent = PropFail
  /\ perturb (map_nth 6 (fun e => match e with EValuesRecorded i _ => EValuesRecorded i [] | _ => e end)) ex_fib = PropFail
  /\ perturb (map_nth 2 (fun e => ESpanEntered 2)) ex_fib = PropFail.
Proof. vm_compute. repeat split. Qed.

Definition ex_conc_stream : list (list (N * N)) :=
  [ [(0, 0); (1, 0); (0, 1); (2, 1); (2, 0)]; [(0, 0); (2, 0); (0, 1)%N; (2, 1)]; [(0, 0); (2, 0)] ].
Example judge_conc_examples :
  judge_conc 1 [2; 2; 1]%nat [0; 1; 0; 2; 1]%nat true (mk_cobs [[1; 3]; [2; 5]; [4]] [2; 1; 3; 5; 4] ex_conc_stream 0) = Agree
  /\ judge_conc 1 [2; 2; 1]%nat [0; 1; 0; 2; 1]%nat true (mk_cobs [[1; 3]; [2; 3]; [4]] [2; 1; 3; 3; 4] ex_conc_stream 0) = PropFail
  /\ judge_conc 1 [2; 2; 1]%nat [0; 1; 0; 2; 1]%nat true (mk_cobs [[1; 3]; [2; 6]; [4]] [2; 1; 3; 6; 4] ex_conc_stream 0) = Mismatch
  /\ judge_conc 1 [2; 2; 1]%nat [0; 1; 0; 2]%nat true (mk_cobs [[1; 3]; [2; 5]; [4]] [2; 1; 3; 5; 4] ex_conc_stream 0) = OutOfScope
  (* an event of thread 0 lost in the hook *)
  /\ judge_conc 1 [2; 2; 1]%nat [0; 1; 0; 2; 1]%nat true
       (mk_cobs [[1; 3]; [2; 5]; [4]] [2; 1; 3; 5; 4]
                [ [(0, 0); (0, 1); (2, 1); (2, 0)]; [(0, 0); (2, 0); (0, 1)%N; (2, 1)]; [(0, 0); (2, 0)] ] 0) = PropFail.
Proof. vm_compute. repeat split. Qed.
