(** The judge of C17 ([Judge/C17.v]) is a consequence of the C17 theorems ([Props/C17.v]).

    [laws_ok] is an independent boolean formulation of the C17 laws on the observations of one
    storage.  Here, for every storage [st] reachable by valid mutations and the observations
    [model_storage_obs st = Done o] the MODEL produces for it (they exist: [model_storage_obs_total]):

    - [laws_ok_on_model]: [o] passes [laws_ok].  [laws_ok] is split ([laws_ok_split], by
      [reflexivity]) into [storage_law] (identification, iterators, roots), [span_law] per span and
      [event_law] per event; every conjunct is derived from the theorem of [Props/C17.v] that states
      it ([storage_law_on_model]; [law_parent_before_child], [law_children], [law_events],
      [law_follows], [law_ancestors], [law_descendants], [law_descendant_events] assembled in
      [span_law_on_model]; [event_law_on_model]).
      The only hypothesis besides reachability concerns the payloads (the recorded field [i] by
      which the harness identifies the items): [laws_ok] checks [nodupb (map so_i ..)], so they must
      be pairwise distinct ([laws_ok_on_model_distinct]); the harness chooses them equal to the
      capture positions ([laws_ok_on_model]).  The hypothesis cannot be dropped
      ([payload_condition_needed]).
    - [model_of_on_model]: replaying the observed parent / follows-from links rebuilds [st] itself
      (a well-formed storage is determined by payloads, parent links and follows-from lists:
      [wf_storage_ext]; the replay is a valid mutation sequence: [replay_rebuilds]), hence
      [corr_storage_on_model]: the replay reproduces the observations.  No hypothesis on payloads.
      More generally the replay of ANY observations that pass [laws_ok] is a valid mutation sequence
      and yields a reachable storage ([laws_ok_replay_valid]), as the header of [Judge/C17.v] claims.
    - [cmp_ok_of_corr]: a comparison sample on which the implementation agrees with the model's
      [key_eq] / [key_cmp] ([corr_cmp]) passes [cmp_ok]; in particular the model's own samples
      ([model_cmp], [cmp_ok_on_model]).
    - [judge_c17_on_model]: the judge answers [Agree] on the model's own observations of one or
      several storages, with any comparison samples that agree with the model
      ([judge_c17_on_model_single], [judge_c17_agrees_on_reachable] for one storage;
      [judge_c17_on_model_example] instantiates everything on the forest of [C17_example]). *)
From TT Require Import Capture.Queries Capture.QueriesProofs Props.C17 Judge.C17.
From Coq Require Import Sorting.Sorted Sorting.Permutation.

(** * Boolean list predicates of the judge vs. their propositional counterparts *)
Lemma memN_In x l : memN x l = true <-> In x l.
Proof.
  unfold memN. rewrite existsb_exists. split.
  - intros (y & Hy & E). apply N.eqb_eq in E. subst y. exact Hy.
  - intros H. exists x. split; [exact H|apply N.eqb_refl].
Qed.

Lemma eqb_of_iff (a b : bool) : (a = true <-> b = true) -> Bool.eqb a b = true.
Proof. intros H. apply eqb_true_iff. apply eq_true_iff_eq. exact H. Qed.

Lemma is_none_true {A} (x : option A) : is_none x = true <-> x = None.
Proof. destruct x; cbn; split; intros H; try discriminate; reflexivity. Qed.

Lemma sortedb_of_sorted l : StronglySorted N.lt l -> sortedb l = true.
Proof.
  induction 1 as [|a l Hs IH Ha]; [reflexivity|]. destruct l as [|b r]; [reflexivity|].
  change (sortedb (a :: b :: r)) with ((a <? b) && sortedb (b :: r)).
  apply andb_true_iff. split; [|exact IH]. apply N.ltb_lt. inversion Ha; assumption.
Qed.

Lemma nodupb_of_nodup l : NoDup l -> nodupb l = true.
Proof.
  induction 1 as [|a l Ha Hn IH]; cbn [nodupb]; [reflexivity|].
  apply andb_true_iff. split; [|exact IH]. apply negb_true_iff.
  destruct (memN a l) eqn:E; [|reflexivity]. apply memN_In in E. contradiction.
Qed.

Lemma below_of n l : (forall x, In x l -> x < n) -> below n l = true.
Proof. intros H. unfold below. apply forallb_forall. intros x Hx. apply N.ltb_lt. apply H. exact Hx. Qed.

Lemma sorted_rev_of_decreasing l : StronglySorted (fun a b => b < a) l -> StronglySorted N.lt (rev l).
Proof.
  induction 1 as [|a l Hs IH Ha]; [constructor|]. cbn [rev]. apply sorted_snoc; [exact IH|].
  intros y Hy. apply in_rev in Hy. rewrite Forall_forall in Ha. apply Ha. exact Hy.
Qed.

(** * [indexed], [iota], [omap] *)
Lemma forallb_indexed_from {A} (f : N * A -> bool) : forall (l : list A) k,
  (forall j x, nth_error l j = Some x -> f (k + N.of_nat j, x) = true) ->
  forallb f (indexed_from k l) = true.
Proof.
  induction l as [|x0 l IH]; intros k H; cbn [indexed_from forallb]; [reflexivity|].
  apply andb_true_iff. split.
  - specialize (H O x0 eq_refl). cbn [N.of_nat] in H. rewrite N.add_0_r in H. exact H.
  - apply IH. intros j x Hj. specialize (H (S j) x Hj).
    replace (k + 1 + N.of_nat j) with (k + N.of_nat (S j)) by lia. exact H.
Qed.

Lemma forallb_indexed {A} (f : N * A -> bool) (l : list A) :
  (forall i x, nth_error l (N.to_nat i) = Some x -> f (i, x) = true) ->
  forallb f (indexed l) = true.
Proof.
  intros H. apply forallb_indexed_from. intros j x Hj. cbn [N.add]. apply H.
  rewrite Nat2N.id. exact Hj.
Qed.

Lemma map_fst_indexed_from {A} : forall (l : list A) k,
  map fst (indexed_from k l) = map N.of_nat (seq (N.to_nat k) (List.length l)).
Proof.
  induction l as [|x l IH]; intros k; cbn [indexed_from map List.length seq fst]; [reflexivity|].
  rewrite N2Nat.id. f_equal. rewrite IH. rewrite N2Nat.inj_add. change (N.to_nat 1) with 1%nat.
  rewrite Nat.add_1_r. reflexivity.
Qed.

Lemma map_fst_indexed {A} (l : list A) : map fst (indexed l) = iota (List.length l).
Proof. apply (map_fst_indexed_from l 0). Qed.

Lemma length_iota n : List.length (iota n) = n.
Proof. unfold iota. rewrite map_length, seq_length. reflexivity. Qed.

Lemma nth_error_seq_inv : forall n a j y, nth_error (seq a n) j = Some y -> y = (a + j)%nat /\ (j < n)%nat.
Proof.
  induction n as [|n IH]; intros a j y; cbn [seq].
  - destruct j; discriminate.
  - destruct j as [|j]; cbn [nth_error].
    + intros E. injection E as <-. lia.
    + intros E. apply IH in E. lia.
Qed.

Lemma nth_error_iota_inv n j x : nth_error (iota n) j = Some x -> x = N.of_nat j /\ (j < n)%nat.
Proof.
  unfold iota. rewrite nth_error_map. destruct (nth_error (seq 0 n) j) as [y|] eqn:E; cbn [option_map]; [|discriminate].
  intros E'. injection E' as <-. apply nth_error_seq_inv in E. cbn in E. destruct E as [-> H]. auto.
Qed.

Lemma omap_length {A B} (f : A -> outcome B) : forall l ys, omap f l = Done ys -> List.length ys = List.length l.
Proof.
  induction l as [|x l IH]; intros ys; cbn [omap].
  - intros E. injection E as <-. reflexivity.
  - destruct (f x) as [y| |]; cbn [bind]; try discriminate.
    destruct (omap f l) as [ys'| |]; cbn [bind]; try discriminate.
    intros E. injection E as <-. cbn [List.length]. f_equal. apply IH. reflexivity.
Qed.

Lemma omap_nth {A B} (f : A -> outcome B) : forall l ys, omap f l = Done ys ->
  forall j y, nth_error ys j = Some y -> exists x, nth_error l j = Some x /\ f x = Done y.
Proof.
  induction l as [|x l IH]; intros ys; cbn [omap].
  - intros E. injection E as <-. intros [|j] y; discriminate.
  - destruct (f x) as [y0| |] eqn:Ex; cbn [bind]; try discriminate.
    destruct (omap f l) as [ys'| |]; cbn [bind]; try discriminate.
    intros E. injection E as <-. intros [|j] y; cbn [nth_error].
    + intros E. injection E as <-. eauto.
    + apply IH. reflexivity.
Qed.

(** the observations of all items, computed along [iota n], listed by position *)
Lemma omap_iota {B} (f : N -> outcome B) n ys : omap f (iota n) = Done ys ->
  List.length ys = n /\
  (forall s y, nth_error ys (N.to_nat s) = Some y -> s < N.of_nat n /\ f s = Done y) /\
  (forall s, s < N.of_nat n -> exists y, nth_error ys (N.to_nat s) = Some y /\ f s = Done y).
Proof.
  intros E. pose proof (omap_length f _ _ E) as Hlen. rewrite length_iota in Hlen.
  assert (H1 : forall s y, nth_error ys (N.to_nat s) = Some y -> s < N.of_nat n /\ f s = Done y).
  { intros s y Hy. destruct (omap_nth f _ _ E _ _ Hy) as (x & Hx & Hf).
    apply nth_error_iota_inv in Hx as [-> Hlt]. rewrite N2Nat.id in Hf. split; [lia|exact Hf]. }
  split; [exact Hlen|]. split; [exact H1|].
  intros s Hs. destruct (nth_error ys (N.to_nat s)) as [y|] eqn:Ey.
  - exists y. split; [reflexivity|]. apply (H1 s y Ey).
  - apply nth_error_None in Ey. lia.
Qed.

Lemma map_eq_nth {A B C} (f : A -> C) (g : B -> C) : forall (l1 : list A) (l2 : list B),
  List.length l1 = List.length l2 ->
  (forall j a b, nth_error l1 j = Some a -> nth_error l2 j = Some b -> f a = g b) ->
  map f l1 = map g l2.
Proof.
  induction l1 as [|a l1 IH]; intros [|b l2] Hlen H; cbn [List.length] in Hlen; try discriminate; [reflexivity|].
  cbn [map]. f_equal.
  - apply (H O a b); reflexivity.
  - apply IH; [lia|]. intros j a' b' Ha Hb. apply (H (S j)); assumption.
Qed.

(** * The model's iterator observations pass [iter_ok] *)
Lemma mixed_drain_S (resolve : N -> outcome unit) f front it :
  mixed_drain resolve (S f) front it =
  (do x <- (if front then it_next resolve it else it_next_back resolve it);
   match x with
   | None => Done ([], it_len it)
   | Some (i, it') =>
       do r <- mixed_drain resolve f (negb front) it'; Done ((it_len it, i) :: fst r, snd r)
   end).
Proof. reflexivity. Qed.

Lemma mixed_drain_done (resolve : N -> outcome unit) : forall n front it,
  List.length it = n -> (forall i, In i it -> resolve i = Done tt) ->
  mixed_drain resolve (S n) front it = Done (expected_mixed n front it, 0).
Proof.
  induction n as [|n IH]; intros front it Hlen Hres.
  - destruct it; [|discriminate]. rewrite mixed_drain_S. destruct front; reflexivity.
  - rewrite mixed_drain_S. destruct front.
    + destruct it as [|x r]; [discriminate|]. cbn [it_next].
      rewrite (Hres x (or_introl eq_refl)). cbn [bind negb].
      rewrite (IH false r) by (cbn in Hlen; try lia; intros j Hj; apply Hres; right; exact Hj).
      cbn [bind fst snd expected_mixed]. reflexivity.
    + destruct (rev it) as [|y r] eqn:Er.
      { apply (f_equal (@List.length N)) in Er. rewrite rev_length in Er. cbn in Er. lia. }
      assert (Eit : it = rev r ++ [y]) by (rewrite <- (rev_involutive it), Er; reflexivity).
      unfold it_next_back. rewrite Er.
      rewrite (Hres y) by (rewrite Eit; apply in_app_iff; right; left; reflexivity). cbn [bind negb].
      rewrite (IH true (rev r)).
      * cbn [bind fst snd expected_mixed]. rewrite Er. reflexivity.
      * rewrite Eit, app_length in Hlen. cbn in Hlen. lia.
      * intros j Hj. apply Hres. rewrite Eit. apply in_app_iff. left. exact Hj.
Qed.

Lemma model_iter_inv resolve it io : model_iter resolve it = Done io ->
  io_fwd io = it /\ (forall i, In i it -> resolve i = Done tt) /\ iter_ok io = true.
Proof.
  unfold model_iter. destruct (it_collect resolve it) as [fwd| |] eqn:E1; cbn [bind]; try discriminate.
  apply it_collect_inv in E1 as (-> & Hres).
  rewrite (it_collect_back_done resolve it Hres). cbn [bind].
  rewrite (mixed_drain_done resolve (List.length it) true it eq_refl Hres). cbn [bind fst snd].
  intros E. injection E as <-. cbn [io_fwd]. split; [reflexivity|]. split; [exact Hres|].
  unfold iter_ok. cbn [io_fwd io_len io_back io_mixed io_end]. unfold it_len, count.
  rewrite N.eqb_refl. cbn [andb].
  rewrite (proj2 (listN_eqb_spec _ _) eq_refl), (proj2 (pairs_eqb_spec _ _) eq_refl). reflexivity.
Qed.

(** * What the observations of one span / one event say about the queries *)
Lemma model_span_obs_inv (st : mstorage) s so : model_span_obs st s = Done so ->
  exists r, get_span st s = Some r /\ so_i so = sp_payload r /\
    parent st s = Done (so_parent so) /\
    model_iter (resolve_span st) (sp_child_ids r) = Done (so_children so) /\
    model_iter (resolve_event st) (sp_event_ids r) = Done (so_events so) /\
    model_iter (resolve_span st) (sp_follows_from_ids r) = Done (so_follows so) /\
    children st s = Done (io_fwd (so_children so)) /\
    events st s = Done (io_fwd (so_events so)) /\
    follows_from st s = Done (io_fwd (so_follows so)) /\
    ancestors st s = Done (so_ancestors so) /\
    descendants st s = Done (so_descendants so) /\
    descendant_events st s = Done (so_desc_events so).
Proof.
  unfold model_span_obs, children_it, events_it, follows_from_it.
  destruct (span_at st s) as [r| |] eqn:Er; cbn [bind]; try discriminate.
  apply span_at_done in Er.
  destruct (parent st s) as [par| |] eqn:Epar; cbn [bind]; try discriminate.
  destruct (model_iter (resolve_span st) (sp_child_ids r)) as [ch| |] eqn:Ech; cbn [bind]; try discriminate.
  destruct (model_iter (resolve_event st) (sp_event_ids r)) as [ev| |] eqn:Eev; cbn [bind]; try discriminate.
  destruct (model_iter (resolve_span st) (sp_follows_from_ids r)) as [fo| |] eqn:Efo; cbn [bind]; try discriminate.
  destruct (children st s) as [ch'| |] eqn:Ech'; cbn [bind]; try discriminate.
  destruct (events st s) as [ev'| |] eqn:Eev'; cbn [bind]; try discriminate.
  destruct (follows_from st s) as [fo'| |] eqn:Efo'; cbn [bind]; try discriminate.
  destruct (ancestors st s) as [anc| |] eqn:Eanc; cbn [bind]; try discriminate.
  destruct (descendants st s) as [des| |] eqn:Edes; cbn [bind]; try discriminate.
  destruct (descendant_events st s) as [dev| |] eqn:Edev; cbn [bind]; try discriminate.
  destruct (listN_eqb ch' (io_fwd ch) && listN_eqb ev' (io_fwd ev) && listN_eqb fo' (io_fwd fo)) eqn:Eb;
    try discriminate.
  apply andb_true_iff in Eb as [Eb E3]. apply andb_true_iff in Eb as [E1 E2].
  apply listN_eqb_spec in E1, E2, E3. subst ch' ev' fo'.
  intros E. injection E as <-. exists r.
  cbn [so_i so_parent so_children so_events so_follows so_ancestors so_descendants so_desc_events].
  repeat split; assumption || reflexivity.
Qed.

Lemma model_event_obs_inv (st : mstorage) e eo : model_event_obs st e = Done eo ->
  exists r, get_event st e = Some r /\ eo_i eo = ev_payload r /\
    event_parent st e = Done (eo_parent eo) /\ event_ancestors st e = Done (eo_ancestors eo).
Proof.
  unfold model_event_obs.
  destruct (event_at st e) as [r| |] eqn:Er; cbn [bind]; try discriminate.
  apply event_at_done in Er.
  destruct (event_parent st e) as [par| |] eqn:Epar; cbn [bind]; try discriminate.
  destruct (event_ancestors st e) as [anc| |] eqn:Eanc; cbn [bind]; try discriminate.
  intros E. injection E as <-. exists r. cbn [eo_i eo_parent eo_ancestors]. repeat split; assumption.
Qed.

(** * [laws_ok] by groups of conjuncts *)
Definition events_of_obs (o : storage_obs) (s : N) : list N :=
  match nth_error (sto_spans o) (N.to_nat s) with Some so => io_fwd (so_events so) | None => [] end.

(** identification of the items, expected parent vector, storage-level iterators, roots *)
Definition storage_law (o : storage_obs) : bool :=
  let spans := sto_spans o in
  let evs := sto_events o in
  let n := count spans in
  let m := count evs in
  let ispans := indexed spans in
  let ievs := indexed evs in
  let roots := io_fwd (sto_root_spans o) in
  let eroots := io_fwd (sto_root_events o) in
  nodupb (map so_i spans) && nodupb (map eo_i evs)
  && match sto_expect o with
     | Some ps => list_eqb optN_eqb (map so_parent spans) ps
     | None => true
     end
  && iter_ok (sto_all_spans o) && iter_ok (sto_root_spans o)
  && iter_ok (sto_all_events o) && iter_ok (sto_root_events o)
  && listN_eqb (io_fwd (sto_all_spans o)) (map fst ispans)
  && listN_eqb (io_fwd (sto_all_events o)) (map fst ievs)
  && forallb (fun p => iter_ok (so_children (snd p)) && iter_ok (so_events (snd p))
                       && iter_ok (so_follows (snd p))) ispans
  && sortedb roots && below n roots
  && forallb (fun p => Bool.eqb (memN (fst p) roots) (is_none (so_parent (snd p)))) ispans
  && sortedb eroots && below m eroots
  && forallb (fun p => Bool.eqb (memN (fst p) eroots) (is_none (eo_parent (snd p)))) ievs.

Definition span_law (o : storage_obs) (p : N * span_obs) : bool :=
  let spans := sto_spans o in
  let evs := sto_events o in
  let n := count spans in
  let m := count evs in
  let ispans := indexed spans in
  let ievs := indexed evs in
  let roots := io_fwd (sto_root_spans o) in
  let s := fst p in
  let so := snd p in
  let ch := io_fwd (so_children so) in
  let es := io_fwd (so_events so) in
  let ds := so_descendants so in
  let des := so_desc_events so in
  match so_parent so with Some q => q <? s | None => true end
  && sortedb ch && below n ch
  && forallb (fun c => Bool.eqb (memN (fst c) ch) (optN_eqb (so_parent (snd c)) (Some s))) ispans
  && sortedb es && below m es
  && forallb (fun e => Bool.eqb (memN (fst e) es) (optN_eqb (eo_parent (snd e)) (Some s))) ievs
  && below n (io_fwd (so_follows so))
  && chain_ok o (so_parent so) (so_ancestors so)
  && sortedb (rev (s :: so_ancestors so))
  && memN (last (so_ancestors so) s) roots
  && nodupb ds && below n ds
  && forallb (fun d => Bool.eqb (memN (fst d) ds) (memN s (so_ancestors (snd d)))) ispans
  && order_ok o ds [] ds
  && nodupb des && below m des
  && forallb (fun e => Bool.eqb (memN (fst e) des)
                                (match eo_parent (snd e) with Some d => memN d ds | None => false end)) ievs
  && forallb (fun e => Bool.eqb (memN (fst e) des) (existsb (fun d => memN (fst e) (events_of_obs o d)) ds)) ievs.

Definition event_law (o : storage_obs) (p : N * event_obs) : bool :=
  match eo_parent (snd p) with Some q => q <? count (sto_spans o) | None => true end
  && chain_ok o (eo_parent (snd p)) (eo_ancestors (snd p)).

Lemma laws_ok_split o :
  laws_ok o = storage_law o && forallb (span_law o) (indexed (sto_spans o))
              && forallb (event_law o) (indexed (sto_events o)).
Proof. reflexivity. Qed.

(** [order_ok]: it suffices that every ancestor of an element that is in [all] occurs earlier *)
Lemma order_ok_intro o all : forall l seen,
  (forall l1 d l2, l = l1 ++ d :: l2 ->
     exists ad, anc_of o d = Some ad /\ forall a, In a ad -> In a all -> In a seen \/ In a l1) ->
  order_ok o all seen l = true.
Proof.
  induction l as [|d r IH]; intros seen H; cbn [order_ok]; [reflexivity|].
  apply andb_true_iff. split.
  - destruct (H [] d r eq_refl) as (ad & -> & Had). apply forallb_forall. intros a Ha.
    destruct (memN a all) eqn:Eall; cbn [implb]; [|reflexivity]. apply memN_In in Eall. apply memN_In.
    destruct (Had a Ha Eall) as [H1|[]]. exact H1.
  - apply IH. intros l1 d' l2 E. destruct (H (d :: l1) d' l2) as (ad & Ead & Had); [rewrite E; reflexivity|].
    exists ad. split; [exact Ead|]. intros a Ha Hall.
    destruct (Had a Ha Hall) as [H1|[<-|H1]]; [left; right; exact H1|left; left; reflexivity|right; exact H1].
Qed.

(** in a duplicate-free list, whatever occurs before (an occurrence of) [d] is in the prefix of [d] *)
Lemma nodup_before_prefix (a d : N) : forall p r l1 l2 l3,
  NoDup (p ++ d :: r) -> p ++ d :: r = l1 ++ a :: l2 ++ d :: l3 -> In a p.
Proof.
  induction p as [|y p IH]; intros r l1 l2 l3 ND E.
  - exfalso. cbn [app] in ND, E. inversion ND as [|x l Hnot _]; subst. apply Hnot.
    destruct l1 as [|x l1]; cbn [app] in E; injection E as E1 E2; rewrite E2.
    + apply in_app_iff. right. left. reflexivity.
    + apply in_app_iff. right. right. apply in_app_iff. right. left. reflexivity.
  - cbn [app] in ND, E. destruct l1 as [|x l1]; cbn [app] in E; injection E as E1 E2.
    + left. exact E1.
    + right. inversion ND; subst. eapply IH; eauto.
Qed.

Section OnModel.
Variable st : mstorage.
Hypothesis R : reachable st.
Variable o : storage_obs.
Hypothesis Hspans : omap (model_span_obs st) (iota (List.length (st_spans st))) = Done (sto_spans o).
Hypothesis Hevs : omap (model_event_obs st) (iota (List.length (st_events st))) = Done (sto_events o).
Hypothesis Hias : model_iter resolve_arena (all_spans_it st) = Done (sto_all_spans o).
Hypothesis Hirs : model_iter (resolve_span st) (root_spans_it st) = Done (sto_root_spans o).
Hypothesis Hiae : model_iter resolve_arena (all_events_it st) = Done (sto_all_events o).
Hypothesis Hire : model_iter (resolve_event st) (root_events_it st) = Done (sto_root_events o).
Hypothesis Hexp : sto_expect o = None.

(** ** the observation lists, by position *)
Lemma length_spans : List.length (sto_spans o) = List.length (st_spans st).
Proof. apply (proj1 (omap_iota _ _ _ Hspans)). Qed.
Lemma length_events : List.length (sto_events o) = List.length (st_events st).
Proof. apply (proj1 (omap_iota _ _ _ Hevs)). Qed.
Lemma count_spans : count (sto_spans o) = nspans st.
Proof. unfold count, nspans. rewrite length_spans. reflexivity. Qed.
Lemma count_events : count (sto_events o) = nevents st.
Proof. unfold count, nevents. rewrite length_events. reflexivity. Qed.

Lemma span_obs_at s so : nth_error (sto_spans o) (N.to_nat s) = Some so ->
  is_span st s /\ model_span_obs st s = Done so.
Proof. intros H. apply (proj1 (proj2 (omap_iota _ _ _ Hspans))) in H. exact H. Qed.
Lemma span_obs_ex s : is_span st s ->
  exists so, nth_error (sto_spans o) (N.to_nat s) = Some so /\ model_span_obs st s = Done so.
Proof. intros H. apply (proj2 (proj2 (omap_iota _ _ _ Hspans))). exact H. Qed.
Lemma event_obs_at e eo : nth_error (sto_events o) (N.to_nat e) = Some eo ->
  is_event st e /\ model_event_obs st e = Done eo.
Proof. intros H. apply (proj1 (proj2 (omap_iota _ _ _ Hevs))) in H. exact H. Qed.

(** ** queries answer only on items (from [C17_queries_answer_exactly_on_items] and the chain theorems) *)
Lemma parent_is_span s x : parent st s = Done x -> is_span st s.
Proof. intros H. apply (proj1 (C17_queries_answer_exactly_on_items _ _ st R s 0)). eauto. Qed.
Lemma event_parent_is_event e x : event_parent st e = Done x -> is_event st e.
Proof. intros H. apply (proj2 (C17_queries_answer_exactly_on_items _ _ st R 0 e)). eauto. Qed.
Lemma ancestors_is_span s l : ancestors st s = Done l -> is_span st s.
Proof.
  intros H. apply (C17_ancestors_chain_of_parents _ _ st R) in H.
  destruct l as [|p l']; [|destruct H as [H _]]; eapply parent_is_span; eauto.
Qed.

Lemma roots_query : root_spans st = Done (io_fwd (sto_root_spans o)).
Proof.
  destruct (model_iter_inv _ _ _ Hirs) as (E & Hres & _). rewrite E. unfold root_spans.
  apply it_collect_done. exact Hres.
Qed.
Lemma eroots_query : root_events st = Done (io_fwd (sto_root_events o)).
Proof.
  destruct (model_iter_inv _ _ _ Hire) as (E & Hres & _). rewrite E. unfold root_events.
  apply it_collect_done. exact Hres.
Qed.

Lemma anc_of_span p : is_span st p -> exists ap, anc_of o p = Some ap /\ ancestors st p = Done ap.
Proof.
  intros Hp. destruct (span_obs_ex p Hp) as (so & E & Hso). unfold anc_of. rewrite E.
  exists (so_ancestors so). split; [reflexivity|].
  apply model_span_obs_inv in Hso as (r & _ & _ & _ & _ & _ & _ & _ & _ & _ & Eanc & _). exact Eanc.
Qed.

Lemma events_of_obs_span d : is_span st d -> events st d = Done (events_of_obs o d).
Proof.
  intros Hd. destruct (span_obs_ex d Hd) as (so & E & Hso). unfold events_of_obs. rewrite E.
  apply model_span_obs_inv in Hso as (r & _ & _ & _ & _ & _ & _ & _ & Eev & _). exact Eev.
Qed.

(** [chain_ok] is [C17_ancestors_chain_of_parents] / [C17_event_ancestors_chain_of_parents] read
    on the observations *)
Lemma chain_ok_of par anc :
  match anc with
  | [] => par = None
  | p :: l' => par = Some p /\ ancestors st p = Done l'
  end -> chain_ok o par anc = true.
Proof.
  destruct anc as [|p l'].
  - intros ->. reflexivity.
  - intros [-> H]. unfold chain_ok. destruct (anc_of_span p (ancestors_is_span p l' H)) as (ap & -> & E).
    rewrite H in E. injection E as <-. apply listN_eqb_spec. reflexivity.
Qed.

(** ** identification, storage-level iterators, roots *)
Lemma map_so_i : map so_i (sto_spans o) = map sp_payload (st_spans st).
Proof.
  apply map_eq_nth; [exact length_spans|]. intros j so r Hso Hr.
  rewrite <- (Nat2N.id j) in Hso. apply span_obs_at in Hso as (_ & Hso).
  apply model_span_obs_inv in Hso as (r' & Er' & Ei & _). unfold get_span in Er'. rewrite Nat2N.id in Er'.
  congruence.
Qed.
Lemma map_eo_i : map eo_i (sto_events o) = map ev_payload (st_events st).
Proof.
  apply map_eq_nth; [exact length_events|]. intros j eo r Heo Hr.
  rewrite <- (Nat2N.id j) in Heo. apply event_obs_at in Heo as (_ & Heo).
  apply model_event_obs_inv in Heo as (r' & Er' & Ei & _). unfold get_event in Er'. rewrite Nat2N.id in Er'.
  congruence.
Qed.

Lemma storage_law_on_model :
  NoDup (map sp_payload (st_spans st)) -> NoDup (map ev_payload (st_events st)) -> storage_law o = true.
Proof.
  intros Hps Hpe. unfold storage_law. cbv zeta. rewrite Hexp.
  destruct (model_iter_inv _ _ _ Hias) as (Eas & _ & Oas).
  destruct (model_iter_inv _ _ _ Hirs) as (Ers & Rrs & Ors).
  destruct (model_iter_inv _ _ _ Hiae) as (Eae & _ & Oae).
  destruct (model_iter_inv _ _ _ Hire) as (Ere & Rre & Ore).
  pose proof roots_query as Qrs. pose proof eroots_query as Qre.
  rewrite !andb_true_iff. repeat match goal with |- _ /\ _ => split end.
  - rewrite map_so_i. apply nodupb_of_nodup. exact Hps.
  - rewrite map_eo_i. apply nodupb_of_nodup. exact Hpe.
  - reflexivity.
  - exact Oas.
  - exact Ors.
  - exact Oae.
  - exact Ore.
  - rewrite Eas, map_fst_indexed, length_spans. apply listN_eqb_spec. reflexivity.
  - rewrite Eae, map_fst_indexed, length_events. apply listN_eqb_spec. reflexivity.
  - apply forallb_indexed. intros s so Hnth. cbn [snd].
    destruct (span_obs_at s so Hnth) as (_ & Hso).
    apply model_span_obs_inv in Hso as (r & _ & _ & _ & Mch & Mev & Mfo & _).
    apply model_iter_inv in Mch as (_ & _ & ->). apply model_iter_inv in Mev as (_ & _ & ->).
    apply model_iter_inv in Mfo as (_ & _ & ->). reflexivity.
  - apply sortedb_of_sorted. apply (C17_root_spans_ordered_distinct _ _ st R _ Qrs).
  - rewrite count_spans. apply below_of. intros s Hs.
    apply (C17_root_spans_exact _ _ st R _ s Qrs) in Hs. apply (parent_is_span s _ Hs).
  - apply forallb_indexed. intros s so Hnth. cbn [fst snd].
    destruct (span_obs_at s so Hnth) as (_ & Hso).
    apply model_span_obs_inv in Hso as (r & _ & _ & Epar & _).
    apply eqb_of_iff. rewrite memN_In, is_none_true, (C17_root_spans_exact _ _ st R _ s Qrs), Epar.
    split; [intros H; injection H as H; exact H|intros ->; reflexivity].
  - apply sortedb_of_sorted. apply (C17_root_events_ordered_distinct _ _ st R _ Qre).
  - rewrite count_events. apply below_of. intros e He.
    apply (C17_root_events_exact _ _ st R _ e Qre) in He. apply (event_parent_is_event e _ He).
  - apply forallb_indexed. intros e eo Hnth. cbn [fst snd].
    destruct (event_obs_at e eo Hnth) as (_ & Heo).
    apply model_event_obs_inv in Heo as (r & _ & _ & Epar & _).
    apply eqb_of_iff. rewrite memN_In, is_none_true, (C17_root_events_exact _ _ st R _ e Qre), Epar.
    split; [intros H; injection H as H; exact H|intros ->; reflexivity].
Qed.

(** ** per span *)
Section Span.
Variables (s : N) (so : span_obs).
Hypothesis Hnth : nth_error (sto_spans o) (N.to_nat s) = Some so.

Lemma span_queries :
  is_span st s /\ parent st s = Done (so_parent so) /\
  children st s = Done (io_fwd (so_children so)) /\ events st s = Done (io_fwd (so_events so)) /\
  follows_from st s = Done (io_fwd (so_follows so)) /\ ancestors st s = Done (so_ancestors so) /\
  descendants st s = Done (so_descendants so) /\ descendant_events st s = Done (so_desc_events so).
Proof.
  destruct (span_obs_at s so Hnth) as (Hs & Hso).
  apply model_span_obs_inv in Hso as (r & _ & _ & Epar & _ & _ & _ & Ech & Eev & Efo & Eanc & Edes & Edev).
  repeat split; assumption.
Qed.

(** [C17_parent_before_child] *)
Lemma law_parent_before_child : match so_parent so with Some q => q <? s | None => true end = true.
Proof.
  destruct span_queries as (_ & Epar & _).
  destruct (so_parent so) as [q|] eqn:Eq; [|reflexivity]. apply N.ltb_lt.
  apply (C17_parent_before_child _ _ st R s q). exact Epar.
Qed.

(** [C17_children_ordered_distinct], [C17_parent_children_inverse] *)
Lemma law_children :
  let ch := io_fwd (so_children so) in
  sortedb ch = true /\ below (count (sto_spans o)) ch = true /\
  forallb (fun c => Bool.eqb (memN (fst c) ch) (optN_eqb (so_parent (snd c)) (Some s)))
          (indexed (sto_spans o)) = true.
Proof.
  cbv zeta. destruct span_queries as (_ & _ & Ech & _). repeat split.
  - apply sortedb_of_sorted. apply (C17_children_ordered_distinct _ _ st R s _ Ech).
  - rewrite count_spans. apply below_of. intros c Hc.
    apply (C17_parent_children_inverse _ _ st R s _ c Ech) in Hc. apply (parent_is_span c _ Hc).
  - apply forallb_indexed. intros c co Hco. cbn [fst snd].
    destruct (span_obs_at c co Hco) as (_ & Hc).
    apply model_span_obs_inv in Hc as (rc & _ & _ & Ecpar & _).
    apply eqb_of_iff. rewrite memN_In, optN_eqb_spec, (C17_parent_children_inverse _ _ st R s _ c Ech), Ecpar.
    split; [intros H; injection H as H; exact H|intros ->; reflexivity].
Qed.

(** [C17_events_ordered_distinct], [C17_event_parent_events_inverse] *)
Lemma law_events :
  let es := io_fwd (so_events so) in
  sortedb es = true /\ below (count (sto_events o)) es = true /\
  forallb (fun e => Bool.eqb (memN (fst e) es) (optN_eqb (eo_parent (snd e)) (Some s)))
          (indexed (sto_events o)) = true.
Proof.
  cbv zeta. destruct span_queries as (_ & _ & _ & Eev & _). repeat split.
  - apply sortedb_of_sorted. apply (C17_events_ordered_distinct _ _ st R s _ Eev).
  - rewrite count_events. apply below_of. intros e He.
    apply (C17_event_parent_events_inverse _ _ st R s _ e Eev) in He. apply (event_parent_is_event e _ He).
  - apply forallb_indexed. intros e eo Heo. cbn [fst snd].
    destruct (event_obs_at e eo Heo) as (_ & He).
    apply model_event_obs_inv in He as (re & _ & _ & Eepar & _).
    apply eqb_of_iff.
    rewrite memN_In, optN_eqb_spec, (C17_event_parent_events_inverse _ _ st R s _ e Eev), Eepar.
    split; [intros H; injection H as H; exact H|intros ->; reflexivity].
Qed.

(** follows-from targets resolve ([C17_span_slices_resolve]) *)
Lemma law_follows : below (count (sto_spans o)) (io_fwd (so_follows so)) = true.
Proof.
  destruct (span_obs_at s so Hnth) as (Hs & Hso).
  apply model_span_obs_inv in Hso as (r & Er & _ & _ & _ & _ & Mfo & _).
  apply model_iter_inv in Mfo as (E & _ & _). rewrite E, count_spans. apply below_of. intros t Ht.
  apply resolve_span_done.
  apply (C17_span_slices_resolve _ _ st R (sp_follows_from_ids r)); [|exact Ht].
  left. exists s. right. unfold follows_from_it. rewrite (proj2 (span_at_done st s r) Er). reflexivity.
Qed.

(** [C17_ancestors_chain_of_parents], [C17_ancestors_strictly_decreasing], [C17_ancestors_end_at_root] *)
Lemma law_ancestors :
  chain_ok o (so_parent so) (so_ancestors so) = true /\
  sortedb (rev (s :: so_ancestors so)) = true /\
  memN (last (so_ancestors so) s) (io_fwd (sto_root_spans o)) = true.
Proof.
  destruct span_queries as (_ & Epar & _ & _ & _ & Eanc & _). repeat split.
  - apply chain_ok_of. pose proof (C17_ancestors_chain_of_parents _ _ st R s _ Eanc) as H.
    rewrite Epar in H. destruct (so_ancestors so) as [|p l'].
    + injection H as H. exact H.
    + destruct H as [H H']. injection H as H. auto.
  - apply sortedb_of_sorted, sorted_rev_of_decreasing.
    apply (C17_ancestors_strictly_decreasing _ _ st R s _ Eanc).
  - apply memN_In. apply (C17_ancestors_end_at_root _ _ st R s _ _ Eanc roots_query).
Qed.

(** [C17_descendants_distinct], [C17_descendants_exact], [C17_descendants_parents_first] *)
Lemma descendants_are_spans d : In d (so_descendants so) -> is_span st d.
Proof.
  destruct span_queries as (_ & _ & _ & _ & _ & _ & Edes & _). intros Hd.
  apply (C17_descendants_exact _ _ st R s _ d Edes) in Hd as (a & Ea & _). apply (ancestors_is_span d a Ea).
Qed.

Lemma law_descendants :
  let ds := so_descendants so in
  nodupb ds = true /\ below (count (sto_spans o)) ds = true /\
  forallb (fun d => Bool.eqb (memN (fst d) ds) (memN s (so_ancestors (snd d)))) (indexed (sto_spans o)) = true /\
  order_ok o ds [] ds = true.
Proof.
  cbv zeta. destruct span_queries as (_ & _ & _ & _ & _ & _ & Edes & _).
  pose proof (C17_descendants_distinct _ _ st R s _ Edes) as ND. repeat split.
  - apply nodupb_of_nodup. exact ND.
  - rewrite count_spans. apply below_of. exact descendants_are_spans.
  - apply forallb_indexed. intros d dso Hd. cbn [fst snd].
    destruct (span_obs_at d dso Hd) as (_ & Hdso).
    apply model_span_obs_inv in Hdso as (rd & _ & _ & _ & _ & _ & _ & _ & _ & _ & Edanc & _).
    apply eqb_of_iff. rewrite !memN_In, (C17_descendants_exact _ _ st R s _ d Edes). split.
    + intros (a & Ea & Hin). rewrite Edanc in Ea. injection Ea as <-. exact Hin.
    + intros Hin. exists (so_ancestors dso). auto.
  - apply order_ok_intro. intros l1 d l2 E.
    assert (Hd : In d (so_descendants so)) by (rewrite E; apply in_app_iff; right; left; reflexivity).
    destruct (anc_of_span d (descendants_are_spans d Hd)) as (ad & E1 & E2).
    exists ad. split; [exact E1|]. intros a Ha Hall. right.
    destruct (C17_descendants_parents_first _ _ st R s _ a d ad Edes Hall Hd E2 Ha) as (k1 & k2 & k3 & Ek).
    apply (nodup_before_prefix a d l1 l2 k1 k2 k3); [rewrite <- E; exact ND|rewrite <- E; exact Ek].
Qed.

(** [C17_descendant_events_exact] *)
Lemma law_descendant_events :
  let ds := so_descendants so in
  let des := so_desc_events so in
  nodupb des = true /\ below (count (sto_events o)) des = true /\
  forallb (fun e => Bool.eqb (memN (fst e) des)
                             (match eo_parent (snd e) with Some d => memN d ds | None => false end))
          (indexed (sto_events o)) = true /\
  forallb (fun e => Bool.eqb (memN (fst e) des) (existsb (fun d => memN (fst e) (events_of_obs o d)) ds))
          (indexed (sto_events o)) = true.
Proof.
  cbv zeta. destruct span_queries as (_ & _ & _ & _ & _ & _ & Edes & Edev).
  destruct (C17_descendant_events_exact _ _ st R s _ _ Edev Edes) as (ND & Hex1 & Hex2). repeat split.
  - apply nodupb_of_nodup. exact ND.
  - rewrite count_events. apply below_of. intros e He. apply Hex2 in He as (d & _ & Hp).
    apply (event_parent_is_event e _ Hp).
  - apply forallb_indexed. intros e eo Heo. cbn [fst snd].
    destruct (event_obs_at e eo Heo) as (_ & He).
    apply model_event_obs_inv in He as (re & _ & _ & Eepar & _).
    apply eqb_of_iff. rewrite memN_In, Hex2, Eepar. destruct (eo_parent eo) as [d|].
    + rewrite memN_In. split.
      * intros (d' & Hd' & E). injection E as ->. exact Hd'.
      * intros Hd. exists d. auto.
    + split; [intros (d' & _ & E); discriminate|discriminate].
  - apply forallb_indexed. intros e eo Heo. cbn [fst snd].
    apply eqb_of_iff. rewrite memN_In, existsb_exists, Hex1. split.
    + intros (d & es & Hd & Ees & Hin). exists d. split; [exact Hd|]. apply memN_In.
      rewrite (events_of_obs_span d (descendants_are_spans d Hd)) in Ees. injection Ees as <-. exact Hin.
    + intros (d & Hd & Hin). apply memN_In in Hin. exists d, (events_of_obs o d).
      split; [exact Hd|]. split; [apply (events_of_obs_span d (descendants_are_spans d Hd))|exact Hin].
Qed.

Lemma span_law_on_model : span_law o (s, so) = true.
Proof.
  destruct law_children as (C1 & C2 & C3). destruct law_events as (E1 & E2 & E3).
  destruct law_ancestors as (A1 & A2 & A3). destruct law_descendants as (D1 & D2 & D3 & D4).
  destruct law_descendant_events as (V1 & V2 & V3 & V4).
  unfold span_law. cbv zeta. cbn [fst snd].
  rewrite law_parent_before_child, C1, C2, C3, E1, E2, E3, law_follows, A1, A2, A3, D1, D2, D3, D4, V1, V2, V3, V4.
  reflexivity.
Qed.
End Span.

(** ** per event: [C17_event_ancestors_chain_of_parents] *)
Lemma event_law_on_model e eo : nth_error (sto_events o) (N.to_nat e) = Some eo -> event_law o (e, eo) = true.
Proof.
  intros Hnth. destruct (event_obs_at e eo Hnth) as (_ & He).
  apply model_event_obs_inv in He as (re & _ & _ & Epar & Eanc).
  pose proof (C17_event_ancestors_chain_of_parents _ _ st R e _ Eanc) as H. rewrite Epar in H.
  unfold event_law. cbn [snd]. apply andb_true_iff. split.
  - destruct (eo_parent eo) as [q|] eqn:Eq; [|reflexivity]. apply N.ltb_lt. rewrite count_spans.
    destruct (eo_ancestors eo) as [|p l']; [discriminate|]. destruct H as [H H']. injection H as ->.
    apply (ancestors_is_span p l' H').
  - apply chain_ok_of. destruct (eo_ancestors eo) as [|p l'].
    + injection H as H. exact H.
    + destruct H as [H H']. injection H as H. auto.
Qed.

Lemma laws_ok_of_parts :
  NoDup (map sp_payload (st_spans st)) -> NoDup (map ev_payload (st_events st)) -> laws_ok o = true.
Proof.
  intros Hps Hpe. rewrite laws_ok_split, (storage_law_on_model Hps Hpe). cbn [andb].
  apply andb_true_iff. split.
  - apply forallb_indexed. exact span_law_on_model.
  - apply forallb_indexed. exact event_law_on_model.
Qed.
End OnModel.

(** * The model's observations pass [laws_ok] *)
Lemma model_storage_obs_inv (st : mstorage) o : model_storage_obs st = Done o ->
  omap (model_span_obs st) (iota (List.length (st_spans st))) = Done (sto_spans o) /\
  omap (model_event_obs st) (iota (List.length (st_events st))) = Done (sto_events o) /\
  model_iter resolve_arena (all_spans_it st) = Done (sto_all_spans o) /\
  model_iter (resolve_span st) (root_spans_it st) = Done (sto_root_spans o) /\
  model_iter resolve_arena (all_events_it st) = Done (sto_all_events o) /\
  model_iter (resolve_event st) (root_events_it st) = Done (sto_root_events o) /\
  sto_expect o = None.
Proof.
  unfold model_storage_obs. rewrite (all_spans_done st), (all_events_done st). cbn [bind].
  change (all_spans_it st) with (iota (List.length (st_spans st))) at 1.
  change (all_events_it st) with (iota (List.length (st_events st))) at 1.
  destruct (omap (model_span_obs st) _) as [spans| |]; cbn [bind]; try discriminate.
  destruct (omap (model_event_obs st) _) as [evs| |]; cbn [bind]; try discriminate.
  destruct (model_iter resolve_arena (all_spans_it st)) as [i1| |]; cbn [bind]; try discriminate.
  destruct (model_iter (resolve_span st) (root_spans_it st)) as [i2| |]; cbn [bind]; try discriminate.
  destruct (model_iter resolve_arena (all_events_it st)) as [i3| |]; cbn [bind]; try discriminate.
  destruct (model_iter (resolve_event st) (root_events_it st)) as [i4| |]; cbn [bind]; try discriminate.
  intros E. injection E as <-. cbn. repeat split; reflexivity.
Qed.

(** the recorded fields [i] identify the items *)
Definition payloads_distinct (st : mstorage) : Prop :=
  NoDup (map sp_payload (st_spans st)) /\ NoDup (map ev_payload (st_events st)).
(** the harness's choice: the recorded field is the capture position *)
Definition payloads_are_positions (st : mstorage) : Prop :=
  (forall k r, get_span st k = Some r -> sp_payload r = k) /\
  (forall k r, get_event st k = Some r -> ev_payload r = k).

Lemma positions_iota {A} (f : A -> N) (l : list A) :
  (forall k r, nth_error l (N.to_nat k) = Some r -> f r = k) -> map f l = iota (List.length l).
Proof.
  intros H. transitivity (map (fun x : N => x) (iota (List.length l))); [|apply map_id].
  apply map_eq_nth; [rewrite length_iota; reflexivity|]. intros j a b Ha Hb.
  apply nth_error_iota_inv in Hb as [-> _]. apply H. rewrite Nat2N.id. exact Ha.
Qed.

Lemma positions_distinct st : payloads_are_positions st -> payloads_distinct st.
Proof.
  intros [Hs He]. split.
  - rewrite (positions_iota sp_payload (st_spans st) Hs). apply sorted_nodup, iota_sorted.
  - rewrite (positions_iota ev_payload (st_events st) He). apply sorted_nodup, iota_sorted.
Qed.

Theorem laws_ok_on_model_distinct : forall (st : mstorage) o,
  reachable st -> payloads_distinct st -> model_storage_obs st = Done o -> laws_ok o = true.
Proof.
  intros st o R [Hps Hpe] HO.
  destruct (model_storage_obs_inv st o HO) as (H1 & H2 & H3 & H4 & H5 & H6 & H7).
  exact (laws_ok_of_parts st R o H1 H2 H3 H4 H5 H6 H7 Hps Hpe).
Qed.

Theorem laws_ok_on_model : forall (st : mstorage) o,
  reachable st -> payloads_are_positions st -> model_storage_obs st = Done o -> laws_ok o = true.
Proof.
  intros st o R HP HO. exact (laws_ok_on_model_distinct st o R (positions_distinct st HP) HO).
Qed.

(** the hypothesis on the payloads cannot be dropped: two root spans recorded with the same [i] *)
Example payload_condition_needed :
  exists (st : mstorage) o, reachable st /\ model_storage_obs st = Done o /\ laws_ok o = false.
Proof.
  destruct (C17_valid_runs_reach N N [OpPushSpan 0 None; OpPushSpan 0 None] empty_storage reach_empty eq_refl)
    as (st & E & R).
  vm_compute in E. injection E as <-. eexists _, _. split; [exact R|]. split; vm_compute; reflexivity.
Qed.

(** * Replaying the observed links rebuilds the storage

    What a replay controls of a storage: payload, parent link and follows-from list of every span,
    payload and parent link of every event (the "core").  The ids, the child / event lists and the
    root lists of a well-formed storage are determined by it ([wf_storage_ext]). *)
Definition span_core (r : span_rec N) : N * option N * list N :=
  (sp_payload r, sp_parent_id r, sp_follows_from_ids r).
Definition event_core (r : event_rec N) : N * option N := (ev_payload r, ev_parent_id r).
Definition cores (st : mstorage) : list (N * option N * list N) := map span_core (st_spans st).
Definition ecores (st : mstorage) : list (N * option N) := map event_core (st_events st).

Lemma nspans_cores st : nspans st = N.of_nat (List.length (cores st)).
Proof. unfold nspans, cores. rewrite map_length. reflexivity. Qed.

Lemma modify_map_same {A B} (g : A -> B) (f : A -> A) : (forall x, g (f x) = g x) ->
  forall l i l', modify i f l = Some l' -> map g l' = map g l.
Proof.
  intros Hg. induction l as [|x l IH]; intros i l'; destruct i as [|i]; cbn [modify]; try discriminate.
  - intros E. injection E as <-. cbn [map]. rewrite Hg. reflexivity.
  - destruct (modify i f l) as [r'|] eqn:E'; [|discriminate]. intros E. injection E as <-.
    cbn [map]. f_equal. eapply IH; eauto.
Qed.

Lemma modify_map_at {A B} (g : A -> B) (f : A -> A) (f' : B -> B) : (forall x, g (f x) = f' (g x)) ->
  forall l i l', modify i f l = Some l' ->
  forall pre y post, map g l = pre ++ y :: post -> i = List.length pre -> map g l' = pre ++ f' y :: post.
Proof.
  intros Hg. induction l as [|x l IH]; intros i l'; destruct i as [|i]; cbn [modify]; try discriminate.
  - intros E pre y post Hm Hi. injection E as <-. destruct pre as [|p0 pre]; [|discriminate].
    cbn [map app] in *. injection Hm as <- <-. rewrite Hg. reflexivity.
  - destruct (modify i f l) as [r'|] eqn:E'; [|discriminate]. intros E pre y post Hm Hi. injection E as <-.
    destruct pre as [|p0 pre]; [discriminate|]. cbn [map app List.length] in *. injection Hm as <- Hm.
    f_equal. eapply IH; eauto.
Qed.

Lemma run_app {SP EP} (a b : list (op SP EP)) : forall st,
  run st (a ++ b) = (do st' <- run st a; run st' b).
Proof.
  induction a as [|x a IH]; intros st; cbn [app run]; [reflexivity|].
  destruct (step st x) as [st1| |]; cbn [bind]; [apply IH|reflexivity|reflexivity].
Qed.

(** ** effect of one valid mutation on the core *)
Lemma step_push_span_cores (st : mstorage) payload par : opt_id_ok st par = true ->
  exists st', step st (OpPushSpan payload par) = Done st' /\
    cores st' = cores st ++ [(payload, par, [])] /\ ecores st' = ecores st.
Proof.
  intros Hok. destruct (push_span_effect st payload par Hok) as (st' & E & _). exists st'.
  cbn [step]. rewrite E. cbn [bind fst]. split; [reflexivity|].
  unfold push_span in E. destruct par as [p|].
  - destruct (modify (N.to_nat p) _ _) as [spans2|] eqn:Em; [|discriminate]. injection E as <-.
    unfold cores, ecores. cbn [st_spans st_events]. split; [|reflexivity].
    rewrite (modify_map_same span_core (fun r => add_child r (nspans st)) (fun r => eq_refl) _ _ _ Em), map_app.
    reflexivity.
  - injection E as <-. unfold cores, ecores. cbn [st_spans st_events]. rewrite map_app. split; reflexivity.
Qed.

Lemma step_push_event_cores (st : mstorage) payload par : opt_id_ok st par = true ->
  exists st', step st (OpPushEvent payload par) = Done st' /\
    cores st' = cores st /\ ecores st' = ecores st ++ [(payload, par)].
Proof.
  intros Hok. destruct (push_event_effect st payload par Hok) as (st' & E & _). exists st'.
  cbn [step]. rewrite E. cbn [bind fst]. split; [reflexivity|].
  unfold push_event in E. destruct par as [p|].
  - destruct (modify (N.to_nat p) _ _) as [spans2|] eqn:Em; [|discriminate]. injection E as <-.
    unfold cores, ecores. cbn [st_spans st_events]. split; [|rewrite map_app; reflexivity].
    apply (modify_map_same span_core (fun r => add_event r (nevents st)) (fun r => eq_refl) _ _ _ Em).
  - injection E as <-. unfold cores, ecores. cbn [st_spans st_events]. rewrite map_app. split; reflexivity.
Qed.

Lemma step_follows_cores (st : mstorage) id t pre i p fo post :
  cores st = pre ++ (i, p, fo) :: post -> id = N.of_nat (List.length pre) ->
  exists st', step st (OpFollowsFrom id t) = Done st' /\ id_ok st id = true /\
    cores st' = pre ++ (i, p, fo ++ [t]) :: post /\ ecores st' = ecores st.
Proof.
  intros Hc Hid.
  assert (Hok : id_ok st id = true).
  { unfold id_ok. apply N.ltb_lt. rewrite nspans_cores, Hc, app_length. cbn [List.length]. lia. }
  destruct (on_follows_from_effect st id t Hok) as (st' & E & _). exists st'.
  cbn [step]. split; [exact E|]. split; [exact Hok|].
  unfold on_follows_from in E. destruct (modify (N.to_nat id) _ _) as [spans2|] eqn:Em; [|discriminate].
  injection E as <-. unfold cores, ecores. cbn [st_spans st_events]. split; [|reflexivity].
  apply (modify_map_at span_core (fun r => add_follows r t)
           (fun c => (fst (fst c), snd (fst c), snd c ++ [t])) (fun r => eq_refl) _ _ _ Em pre (i, p, fo) post Hc).
  rewrite Hid, Nat2N.id. reflexivity.
Qed.

(** ** the three phases of the replay *)
Lemma run_push_spans {A} (pl : A -> N) (pr : A -> option N) : forall (l : list A) (st : mstorage),
  reachable st ->
  (forall j x q, nth_error l j = Some x -> pr x = Some q -> q < nspans st + N.of_nat j) ->
  exists st', run st (map (fun x => OpPushSpan (pl x) (pr x)) l) = Done st' /\ reachable st' /\
    cores st' = cores st ++ map (fun x => (pl x, pr x, [])) l /\ ecores st' = ecores st.
Proof.
  induction l as [|x l IH]; intros st R H; cbn [map run].
  - exists st. rewrite app_nil_r. auto.
  - assert (Hok : opt_id_ok st (pr x) = true).
    { destruct (pr x) as [q|] eqn:Eq; [|reflexivity]. cbn [opt_id_ok]. unfold id_ok. apply N.ltb_lt.
      specialize (H O x q eq_refl Eq). cbn [N.of_nat] in H. lia. }
    destruct (step_push_span_cores st (pl x) (pr x) Hok) as (st1 & E1 & C1 & D1).
    assert (R1 : reachable st1) by (eapply reach_step; [exact R| |exact E1]; exact Hok).
    rewrite E1. cbn [bind]. destruct (IH st1 R1) as (st' & E' & R' & C' & D').
    { intros j y q Hy Hq. specialize (H (S j) y q Hy Hq).
      rewrite (nspans_cores st1), C1, app_length. cbn [List.length]. rewrite (nspans_cores st) in H. lia. }
    exists st'. split; [exact E'|]. split; [exact R'|]. split; [|congruence].
    rewrite C', C1, <- app_assoc. reflexivity.
Qed.

Lemma run_push_events {A} (pl : A -> N) (pr : A -> option N) : forall (l : list A) (st : mstorage),
  reachable st ->
  (forall x q, In x l -> pr x = Some q -> q < nspans st) ->
  exists st', run st (map (fun x => OpPushEvent (pl x) (pr x)) l) = Done st' /\ reachable st' /\
    cores st' = cores st /\ ecores st' = ecores st ++ map (fun x => (pl x, pr x)) l.
Proof.
  induction l as [|x l IH]; intros st R H; cbn [map run].
  - exists st. rewrite app_nil_r. auto.
  - assert (Hok : opt_id_ok st (pr x) = true).
    { destruct (pr x) as [q|] eqn:Eq; [|reflexivity]. cbn [opt_id_ok]. unfold id_ok. apply N.ltb_lt.
      apply (H x q (or_introl eq_refl) Eq). }
    destruct (step_push_event_cores st (pl x) (pr x) Hok) as (st1 & E1 & C1 & D1).
    assert (R1 : reachable st1) by (eapply reach_step; [exact R| |exact E1]; exact Hok).
    rewrite E1. cbn [bind]. destruct (IH st1 R1) as (st' & E' & R' & C' & D').
    { intros y q Hy Hq. rewrite (nspans_cores st1), C1, <- (nspans_cores st).
      apply (H y q (or_intror Hy) Hq). }
    exists st'. split; [exact E'|]. split; [exact R'|]. split; [congruence|].
    rewrite D', D1, <- app_assoc. reflexivity.
Qed.

Lemma run_follows_one : forall (ts : list N) (st : mstorage) pre i p fo post,
  reachable st -> cores st = pre ++ (i, p, fo) :: post -> (forall t, In t ts -> t < nspans st) ->
  exists st', run st (map (fun t => OpFollowsFrom (N.of_nat (List.length pre)) t) ts) = Done st' /\
    reachable st' /\ cores st' = pre ++ (i, p, fo ++ ts) :: post /\ ecores st' = ecores st.
Proof.
  induction ts as [|t ts IH]; intros st pre i p fo post R Hc H; cbn [map run].
  - exists st. rewrite app_nil_r. auto.
  - destruct (step_follows_cores st (N.of_nat (List.length pre)) t pre i p fo post Hc eq_refl)
      as (st1 & E1 & Hok & C1 & D1).
    assert (Ht : id_ok st t = true) by (unfold id_ok; apply N.ltb_lt; apply H; left; reflexivity).
    assert (R1 : reachable st1).
    { eapply reach_step; [exact R| |exact E1]. cbn [op_valid]. rewrite Hok, Ht. reflexivity. }
    assert (Hn : nspans st1 = nspans st).
    { rewrite !nspans_cores, C1, Hc, !app_length. reflexivity. }
    rewrite E1. cbn [bind]. destruct (IH st1 pre i p (fo ++ [t]) post R1 C1) as (st' & E' & R' & C' & D').
    { intros t' Ht'. rewrite Hn. apply H. right. exact Ht'. }
    exists st'. split; [exact E'|]. split; [exact R'|]. split; [|congruence].
    rewrite C', <- app_assoc. reflexivity.
Qed.

Lemma run_follows {A} (pl : A -> N) (pr : A -> option N) (fl : A -> list N) :
  forall (l : list A) (pre : list (N * option N * list N)) (st : mstorage),
  reachable st -> cores st = pre ++ map (fun x => (pl x, pr x, [])) l ->
  (forall x t, In x l -> In t (fl x) -> t < nspans st) ->
  exists st', run st (flat_map (fun p => map (fun t => OpFollowsFrom (fst p) t) (fl (snd p)))
                               (indexed_from (N.of_nat (List.length pre)) l)) = Done st' /\
    reachable st' /\ cores st' = pre ++ map (fun x => (pl x, pr x, fl x)) l /\ ecores st' = ecores st.
Proof.
  induction l as [|x l IH]; intros pre st R Hc H; cbn [indexed_from flat_map map fst snd].
  - exists st. cbn [run]. auto.
  - cbn [map] in Hc.
    destruct (run_follows_one (fl x) st pre (pl x) (pr x) [] _ R Hc) as (st1 & E1 & R1 & C1 & D1).
    { intros t Ht. apply (H x t (or_introl eq_refl) Ht). }
    cbn [app] in C1.
    assert (Hn : nspans st1 = nspans st).
    { rewrite !nspans_cores, C1, Hc, !app_length. reflexivity. }
    rewrite run_app, E1. cbn [bind].
    destruct (IH (pre ++ [(pl x, pr x, fl x)]) st1 R1) as (st' & E' & R' & C' & D').
    { rewrite C1, <- app_assoc. reflexivity. }
    { intros y t Hy Ht. rewrite Hn. apply (H y t (or_intror Hy) Ht). }
    exists st'. split.
    { rewrite <- E'. f_equal. f_equal. f_equal. rewrite app_length. cbn [List.length]. lia. }
    split; [exact R'|]. split; [|congruence]. rewrite C', <- app_assoc. reflexivity.
Qed.

(** the replay of observations that respect "parent before child", "event parents are spans" and
    "follows-from targets are spans" is a VALID mutation sequence; it builds a reachable storage
    with the observed core *)
Lemma replay_rebuilds (o : storage_obs) :
  (forall j so q, nth_error (sto_spans o) j = Some so -> so_parent so = Some q -> q < N.of_nat j) ->
  (forall eo q, In eo (sto_events o) -> eo_parent eo = Some q -> q < count (sto_spans o)) ->
  (forall so t, In so (sto_spans o) -> In t (io_fwd (so_follows so)) -> t < count (sto_spans o)) ->
  exists st', model_of o = Done st' /\ reachable st' /\
    cores st' = map (fun so => (so_i so, so_parent so, io_fwd (so_follows so))) (sto_spans o) /\
    ecores st' = map (fun eo => (eo_i eo, eo_parent eo)) (sto_events o).
Proof.
  intros H1 H2 H3. unfold model_of, replay_ops.
  destruct (run_push_spans so_i so_parent (sto_spans o) empty_storage reach_empty) as (st1 & E1 & R1 & C1 & D1).
  { intros j so q Hso Hq. cbn. apply (H1 j so q Hso Hq). }
  cbn [cores ecores empty_storage st_spans st_events map app] in C1, D1.
  assert (Hn1 : nspans st1 = count (sto_spans o)).
  { rewrite nspans_cores, C1, map_length. reflexivity. }
  destruct (run_push_events eo_i eo_parent (sto_events o) st1 R1) as (st2 & E2 & R2 & C2 & D2).
  { intros eo q Heo Hq. rewrite Hn1. apply (H2 eo q Heo Hq). }
  rewrite D1 in D2. cbn [app] in D2.
  assert (Hn2 : nspans st2 = count (sto_spans o)).
  { rewrite nspans_cores, C2, C1, map_length. reflexivity. }
  destruct (run_follows so_i so_parent (fun so => io_fwd (so_follows so)) (sto_spans o) [] st2 R2)
    as (st3 & E3 & R3 & C3 & D3).
  { rewrite C2, C1. reflexivity. }
  { intros so t Hso Ht. rewrite Hn2. apply (H3 so t Hso Ht). }
  exists st3. rewrite run_app, E1. cbn [bind]. rewrite run_app, E2. cbn [bind].
  split; [exact E3|]. split; [exact R3|]. split; [exact C3|]. congruence.
Qed.

(** ** what [laws_ok] says about replayability *)
Lemma forallb_indexed_from_inv {A} (f : N * A -> bool) : forall (l : list A) k,
  forallb f (indexed_from k l) = true ->
  forall j x, nth_error l j = Some x -> f (k + N.of_nat j, x) = true.
Proof.
  induction l as [|x0 l IH]; intros k H j x Hj; [destruct j; discriminate|].
  cbn [indexed_from forallb] in H. apply andb_true_iff in H as [H0 H]. destruct j as [|j]; cbn [nth_error] in Hj.
  - injection Hj as <-. cbn [N.of_nat]. rewrite N.add_0_r. exact H0.
  - specialize (IH (k + 1) H j x Hj). replace (k + N.of_nat (S j)) with (k + 1 + N.of_nat j) by lia. exact IH.
Qed.

Lemma forallb_indexed_inv {A} (f : N * A -> bool) (l : list A) :
  forallb f (indexed l) = true -> forall j x, nth_error l j = Some x -> f (N.of_nat j, x) = true.
Proof. intros H j x Hj. apply (forallb_indexed_from_inv f l 0 H j x Hj). Qed.

Lemma span_law_parent o p : span_law o p = true ->
  match so_parent (snd p) with Some q => q <? fst p | None => true end = true.
Proof.
  unfold span_law. cbv zeta. intros H.
  do 18 (apply andb_true_iff in H; destruct H as [H _]). exact H.
Qed.

Lemma span_law_follows o p : span_law o p = true ->
  below (count (sto_spans o)) (io_fwd (so_follows (snd p))) = true.
Proof.
  unfold span_law. cbv zeta. intros H.
  do 11 (apply andb_true_iff in H; destruct H as [H _]). apply andb_true_iff in H. apply H.
Qed.

Lemma event_law_parent o p : event_law o p = true ->
  match eo_parent (snd p) with Some q => q <? count (sto_spans o) | None => true end = true.
Proof. unfold event_law. intros H. apply andb_true_iff in H. apply H. Qed.

(** observations whose spans and events satisfy their laws can be replayed: parents are captured
    before their children, event parents and follows-from targets are spans (this is the claim of
    the header of [Judge/C17.v] that [ok] checks replayability) *)
Lemma replay_of_item_laws o :
  forallb (span_law o) (indexed (sto_spans o)) = true ->
  forallb (event_law o) (indexed (sto_events o)) = true ->
  exists st', model_of o = Done st' /\ reachable st' /\
    cores st' = map (fun so => (so_i so, so_parent so, io_fwd (so_follows so))) (sto_spans o) /\
    ecores st' = map (fun eo => (eo_i eo, eo_parent eo)) (sto_events o).
Proof.
  intros Hsp Hev. apply replay_rebuilds.
  - intros j so q Hso Hq. pose proof (span_law_parent o _ (forallb_indexed_inv _ _ Hsp j so Hso)) as H.
    cbn [fst snd] in H. rewrite Hq in H. apply N.ltb_lt. exact H.
  - intros eo q Heo Hq. apply In_nth_error in Heo as (j & Heo).
    pose proof (event_law_parent o _ (forallb_indexed_inv _ _ Hev j eo Heo)) as H.
    cbn [fst snd] in H. rewrite Hq in H. apply N.ltb_lt. exact H.
  - intros so t Hso Ht. apply In_nth_error in Hso as (j & Hso).
    pose proof (span_law_follows o _ (forallb_indexed_inv _ _ Hsp j so Hso)) as H.
    cbn [fst snd] in H. unfold below in H. rewrite forallb_forall in H. apply N.ltb_lt. apply H. exact Ht.
Qed.

Theorem laws_ok_replay_valid o : laws_ok o = true ->
  exists st', model_of o = Done st' /\ reachable st' /\
    cores st' = map (fun so => (so_i so, so_parent so, io_fwd (so_follows so))) (sto_spans o) /\
    ecores st' = map (fun eo => (eo_i eo, eo_parent eo)) (sto_events o).
Proof.
  rewrite laws_ok_split. intros H. apply andb_true_iff in H as [H Hev]. apply andb_true_iff in H as [_ Hsp].
  apply replay_of_item_laws; assumption.
Qed.

(** ** a well-formed storage is determined by its core *)
Lemma list_eq_nth {A} (l1 l2 : list A) : List.length l1 = List.length l2 ->
  (forall j a b, nth_error l1 j = Some a -> nth_error l2 j = Some b -> a = b) -> l1 = l2.
Proof.
  intros Hlen H. rewrite <- (map_id l1), <- (map_id l2) at 1.
  apply (map_eq_nth (fun x : A => x) (fun x : A => x) l1 l2 Hlen H).
Qed.

Lemma sorted_ext (l1 : list N) : forall l2,
  StronglySorted N.lt l1 -> StronglySorted N.lt l2 -> (forall x, In x l1 <-> In x l2) -> l1 = l2.
Proof.
  induction l1 as [|a l1 IH]; intros [|b l2] S1 S2 H.
  - reflexivity.
  - destruct (proj2 (H b) (or_introl eq_refl)).
  - destruct (proj1 (H a) (or_introl eq_refl)).
  - inversion S1 as [|? ? S1' F1]; inversion S2 as [|? ? S2' F2]; subst. rewrite Forall_forall in F1, F2.
    assert (E : a = b).
    { destruct (proj1 (H a) (or_introl eq_refl)) as [E|Hin]; [auto|].
      destruct (proj2 (H b) (or_introl eq_refl)) as [E|Hin']; [auto|].
      specialize (F2 a Hin). specialize (F1 b Hin'). lia. }
    subst b. f_equal. apply IH; [exact S1'|exact S2'|]. intros x. split; intros Hx.
    + destruct (proj1 (H x) (or_intror Hx)) as [E|Hin]; [|exact Hin]. subst x. specialize (F1 a Hx). lia.
    + destruct (proj2 (H x) (or_intror Hx)) as [E|Hin]; [|exact Hin]. subst x. specialize (F2 a Hx). lia.
Qed.

Lemma core_at (st1 st2 : mstorage) : cores st1 = cores st2 ->
  forall j r1, nth_error (st_spans st1) j = Some r1 ->
  exists r2, nth_error (st_spans st2) j = Some r2 /\ span_core r1 = span_core r2.
Proof.
  intros Hc j r1 H1.
  assert (H : nth_error (cores st1) j = Some (span_core r1)) by (unfold cores; rewrite nth_error_map, H1; reflexivity).
  rewrite Hc in H. unfold cores in H. rewrite nth_error_map in H.
  destruct (nth_error (st_spans st2) j) as [r2|]; [|discriminate]. cbn [option_map] in H.
  exists r2. split; [reflexivity|]. congruence.
Qed.

Lemma ecore_at (st1 st2 : mstorage) : ecores st1 = ecores st2 ->
  forall j r1, nth_error (st_events st1) j = Some r1 ->
  exists r2, nth_error (st_events st2) j = Some r2 /\ event_core r1 = event_core r2.
Proof.
  intros Hc j r1 H1.
  assert (H : nth_error (ecores st1) j = Some (event_core r1)) by (unfold ecores; rewrite nth_error_map, H1; reflexivity).
  rewrite Hc in H. unfold ecores in H. rewrite nth_error_map in H.
  destruct (nth_error (st_events st2) j) as [r2|]; [|discriminate]. cbn [option_map] in H.
  exists r2. split; [reflexivity|]. congruence.
Qed.

Lemma parent_of_cores (st1 st2 : mstorage) : cores st1 = cores st2 ->
  forall c, parent_of st1 c = parent_of st2 c.
Proof.
  intros Hc c. unfold parent_of, get_span.
  destruct (nth_error (st_spans st1) (N.to_nat c)) as [r1|] eqn:E1.
  - destruct (core_at st1 st2 Hc _ _ E1) as (r2 & -> & E). apply (f_equal (fun x => snd (fst x)) E).
  - destruct (nth_error (st_spans st2) (N.to_nat c)) as [r2|] eqn:E2; [|reflexivity].
    destruct (core_at st2 st1 (eq_sym Hc) _ _ E2) as (r1 & E1' & _). congruence.
Qed.

Lemma ev_parent_of_ecores (st1 st2 : mstorage) : ecores st1 = ecores st2 ->
  forall e, ev_parent_of st1 e = ev_parent_of st2 e.
Proof.
  intros Hc e. unfold ev_parent_of, get_event.
  destruct (nth_error (st_events st1) (N.to_nat e)) as [r1|] eqn:E1.
  - destruct (ecore_at st1 st2 Hc _ _ E1) as (r2 & -> & E). apply (f_equal snd E).
  - destruct (nth_error (st_events st2) (N.to_nat e)) as [r2|] eqn:E2; [|reflexivity].
    destruct (ecore_at st2 st1 (eq_sym Hc) _ _ E2) as (r1 & E1' & _). congruence.
Qed.

Lemma wf_storage_ext (st1 st2 : mstorage) :
  storage_wf st1 -> storage_wf st2 -> cores st1 = cores st2 -> ecores st1 = ecores st2 -> st1 = st2.
Proof.
  intros W1 W2 Hc He.
  assert (Hlen : List.length (st_spans st1) = List.length (st_spans st2)).
  { apply (f_equal (@List.length _)) in Hc. unfold cores in Hc. rewrite !map_length in Hc. exact Hc. }
  assert (Hlen' : List.length (st_events st1) = List.length (st_events st2)).
  { apply (f_equal (@List.length _)) in He. unfold ecores in He. rewrite !map_length in He. exact He. }
  pose proof (parent_of_cores st1 st2 Hc) as Hpar. pose proof (ev_parent_of_ecores st1 st2 He) as Hepar.
  assert (Hn : nspans st1 = nspans st2) by (unfold nspans; rewrite Hlen; reflexivity).
  assert (Hne : nevents st1 = nevents st2) by (unfold nevents; rewrite Hlen'; reflexivity).
  assert (Es : st_spans st1 = st_spans st2).
  { apply list_eq_nth; [exact Hlen|]. intros j r1 r2 H1 H2.
    destruct (core_at st1 st2 Hc j r1 H1) as (r2' & H2' & Ecore). rewrite H2 in H2'. injection H2' as <-.
    assert (G1 : get_span st1 (N.of_nat j) = Some r1) by (unfold get_span; rewrite Nat2N.id; exact H1).
    assert (G2 : get_span st2 (N.of_nat j) = Some r2) by (unfold get_span; rewrite Nat2N.id; exact H2).
    pose proof (wf_span_id st1 W1 _ _ G1) as I1. pose proof (wf_span_id st2 W2 _ _ G2) as I2.
    assert (Ech : sp_child_ids r1 = sp_child_ids r2).
    { apply sorted_ext; [apply (wf_children_sorted st1 W1 _ _ G1)|apply (wf_children_sorted st2 W2 _ _ G2)|].
      intros c. rewrite (wf_children st1 W1 _ _ c G1), (wf_children st2 W2 _ _ c G2), Hpar. reflexivity. }
    assert (Eev : sp_event_ids r1 = sp_event_ids r2).
    { apply sorted_ext; [apply (wf_events_sorted st1 W1 _ _ G1)|apply (wf_events_sorted st2 W2 _ _ G2)|].
      intros e. rewrite (wf_events st1 W1 _ _ e G1), (wf_events st2 W2 _ _ e G2), Hepar. reflexivity. }
    unfold span_core in Ecore. injection Ecore as E1 E2 E3.
    destruct r1 as [a1 b1 c1 d1 e1 f1], r2 as [a2 b2 c2 d2 e2 f2].
    cbn [sp_payload sp_id sp_parent_id sp_child_ids sp_event_ids sp_follows_from_ids] in *. congruence. }
  assert (Ee : st_events st1 = st_events st2).
  { apply list_eq_nth; [exact Hlen'|]. intros j r1 r2 H1 H2.
    destruct (ecore_at st1 st2 He j r1 H1) as (r2' & H2' & Ecore). rewrite H2 in H2'. injection H2' as <-.
    assert (G1 : get_event st1 (N.of_nat j) = Some r1) by (unfold get_event; rewrite Nat2N.id; exact H1).
    assert (G2 : get_event st2 (N.of_nat j) = Some r2) by (unfold get_event; rewrite Nat2N.id; exact H2).
    pose proof (wf_event_id st1 W1 _ _ G1) as I1. pose proof (wf_event_id st2 W2 _ _ G2) as I2.
    unfold event_core in Ecore. injection Ecore as E1 E2.
    destruct r1 as [a1 b1 c1], r2 as [a2 b2 c2]. cbn [ev_payload ev_id ev_parent_id] in *. congruence. }
  assert (Er : st_root_span_ids st1 = st_root_span_ids st2).
  { apply sorted_ext; [apply (wf_roots_sorted st1 W1)|apply (wf_roots_sorted st2 W2)|].
    intros s. rewrite (wf_roots st1 W1 s), (wf_roots st2 W2 s). unfold is_span. rewrite Hn, Hpar. reflexivity. }
  assert (Ere : st_root_event_ids st1 = st_root_event_ids st2).
  { apply sorted_ext; [apply (wf_root_events_sorted st1 W1)|apply (wf_root_events_sorted st2 W2)|].
    intros e. rewrite (wf_root_events st1 W1 e), (wf_root_events st2 W2 e). unfold is_event.
    rewrite Hne, Hepar. reflexivity. }
  destruct st1 as [s1 e1 r1 q1], st2 as [s2 e2 r2 q2].
  cbn [st_spans st_events st_root_span_ids st_root_event_ids] in Es, Ee, Er, Ere.
  rewrite Es, Ee, Er, Ere. reflexivity.
Qed.

(** ** the replay of the model's observations rebuilds the observed storage *)
Theorem model_of_on_model : forall (st : mstorage) o,
  reachable st -> model_storage_obs st = Done o -> model_of o = Done st.
Proof.
  intros st o R HO. pose proof (C17_wf_invariant _ _ st R) as W.
  destruct (model_storage_obs_inv st o HO) as (H1 & H2 & H3 & H4 & H5 & H6 & H7).
  destruct (replay_of_item_laws o) as (st' & E & R' & C' & D').
  { apply forallb_indexed. exact (span_law_on_model st R o H1 H2 H4). }
  { apply forallb_indexed. exact (event_law_on_model st R o H1 H2). }
  rewrite E. f_equal. apply wf_storage_ext; [apply (C17_wf_invariant _ _ st' R')|exact W| |].
  - rewrite C'. symmetry. unfold cores. apply map_eq_nth; [symmetry; apply (length_spans st o H1)|].
    intros j r so Hr Hso. rewrite <- (Nat2N.id j) in Hso.
    destruct (span_obs_at st o H1 _ _ Hso) as (Hs & Hm).
    apply model_span_obs_inv in Hm as (r' & Er' & Ei & Epar & _ & _ & Mfo & _).
    assert (r' = r) by (unfold get_span in Er'; rewrite Nat2N.id in Er'; congruence). subst r'.
    apply (parent_inv st W) in Epar as (_ & Epar). unfold parent_of in Epar. rewrite Er' in Epar.
    apply model_iter_inv in Mfo as (Efo & _ & _). unfold span_core. rewrite Ei, Epar, Efo. reflexivity.
  - rewrite D'. symmetry. unfold ecores. apply map_eq_nth; [symmetry; apply (length_events st o H2)|].
    intros j r eo Hr Heo. rewrite <- (Nat2N.id j) in Heo.
    destruct (event_obs_at st o H2 _ _ Heo) as (He & Hm).
    apply model_event_obs_inv in Hm as (r' & Er' & Ei & Epar & _).
    assert (r' = r) by (unfold get_event in Er'; rewrite Nat2N.id in Er'; congruence). subst r'.
    apply (event_parent_inv st W) in Epar as (_ & Epar). unfold ev_parent_of in Epar. rewrite Er' in Epar.
    unfold event_core. rewrite Ei, Epar. reflexivity.
Qed.

Lemma storage_obs_eqb_refl o : storage_obs_eqb o o = true.
Proof. apply storage_obs_eqb_spec. repeat split; reflexivity. Qed.

Theorem corr_storage_on_model : forall (st : mstorage) o,
  reachable st -> model_storage_obs st = Done o -> corr_storage o = true.
Proof.
  intros st o R HO. unfold corr_storage. rewrite (model_of_on_model st o R HO). cbn [bind]. rewrite HO.
  apply storage_obs_eqb_refl.
Qed.

(** * Comparisons *)
Lemma Forall2_nth {A B} (P : A -> B -> Prop) : forall l1 l2, Forall2 P l1 l2 ->
  forall j x, nth_error l1 j = Some x -> exists y, nth_error l2 j = Some y /\ P x y.
Proof.
  induction 1 as [|a b l1 l2 Hab HF IH]; intros j x Hj; [destruct j; discriminate|].
  destruct j as [|j]; cbn [nth_error] in *.
  - injection Hj as <-. eauto.
  - apply IH. exact Hj.
Qed.

(** a comparison sample on which the implementation agrees with the model's [key_eq] / [key_cmp]
    (evaluated on reachable storages, tagged by their index in the case) satisfies [cmp_ok]:
    [C17_span_eq_is_identity], [C17_span_order_is_capture_order], [C17_spans_across_storages]
    and their event counterparts, through [R_span_key] / [R_event_key] *)
Theorem cmp_ok_of_corr : forall (sts : list mstorage) (obs : list storage_obs) (c : cmp_obs),
  Forall2 (fun st o => reachable st /\ model_storage_obs st = Done o) sts obs ->
  corr_cmp (map Done sts) c = true -> cmp_ok obs c = true.
Proof.
  intros sts obs c HF. unfold corr_cmp, cmp_ok. rewrite !nth_error_map.
  destruct (nth_error sts (N.to_nat (co_sa c))) as [sta|] eqn:Ea; cbn [option_map]; [|discriminate].
  destruct (nth_error sts (N.to_nat (co_sb c))) as [stb|] eqn:Eb; cbn [option_map]; [|discriminate].
  destruct (Forall2_nth _ _ _ HF _ _ Ea) as (oa & -> & Ra & HOa).
  destruct (Forall2_nth _ _ _ HF _ _ Eb) as (ob & -> & Rb & HOb).
  destruct (model_storage_obs_inv sta oa HOa) as (Sa & Ta & _).
  destruct (model_storage_obs_inv stb ob HOb) as (Sb & Tb & _).
  rewrite (count_spans sta oa Sa), (count_events sta oa Ta), (count_spans stb ob Sb), (count_events stb ob Tb).
  assert (Hkeys : forall (a b : N) (na nb : N), a < na -> b < nb ->
            Bool.eqb (key_eq (co_sa c, a) (co_sb c, b)) (co_eq c) &&
            option_eqb cmp_eqb (key_cmp (co_sa c, a) (co_sb c, b)) (co_cmp c) = true ->
            (a <? na) && (b <? nb) &&
            (if co_sa c =? co_sb c
             then Bool.eqb (co_eq c) (a =? b) && option_eqb cmp_eqb (co_cmp c) (Some (a ?= b))
             else negb (co_eq c) && is_none (co_cmp c)) = true).
  { intros a b na nb Ha Hb H. apply andb_true_iff in H as [H1 H2].
    apply (proj1 (eqb_true_iff _ _)) in H1. apply (proj1 (option_eqb_spec cmp_eqb cmp_eqb_spec _ _)) in H2.
    rewrite (proj2 (N.ltb_lt a na) Ha), (proj2 (N.ltb_lt b nb) Hb). cbn [andb].
    rewrite <- H1, <- H2. unfold key_eq, key_cmp. cbn [fst snd].
    destruct (co_sa c =? co_sb c); cbn [andb negb is_none]; [|reflexivity].
    rewrite eqb_reflx. cbn [andb option_eqb]. apply cmp_eqb_spec. reflexivity. }
  cbv zeta. destruct (co_span c).
  - destruct (span_key sta (co_sa c) (co_a c)) as [ka| |] eqn:Ka; try discriminate.
    destruct (span_key stb (co_sb c) (co_b c)) as [kb| |] eqn:Kb; try discriminate.
    apply (R_span_key sta Ra) in Ka as (Ha & ->). apply (R_span_key stb Rb) in Kb as (Hb & ->).
    apply Hkeys; assumption.
  - destruct (event_key sta (co_sa c) (co_a c)) as [ka| |] eqn:Ka; try discriminate.
    destruct (event_key stb (co_sb c) (co_b c)) as [kb| |] eqn:Kb; try discriminate.
    apply (R_event_key sta Ra) in Ka as (Ha & ->). apply (R_event_key stb Rb) in Kb as (Hb & ->).
    apply Hkeys; assumption.
Qed.

(** the model's answer for one comparison sample, as [corr_cmp] computes it *)
Definition model_cmp (sts : list mstorage) (span : bool) (sa a sb b : N) : option cmp_obs :=
  match nth_error sts (N.to_nat sa), nth_error sts (N.to_nat sb) with
  | Some sta, Some stb =>
      match (if span then span_key sta sa a else event_key sta sa a),
            (if span then span_key stb sb b else event_key stb sb b) with
      | Done ka, Done kb => Some (mk_co span sa a sb b (key_eq ka kb) (key_cmp ka kb))
      | _, _ => None
      end
  | _, _ => None
  end.

Lemma corr_cmp_model_cmp sts span sa a sb b c :
  model_cmp sts span sa a sb b = Some c -> corr_cmp (map Done sts) c = true.
Proof.
  unfold model_cmp, corr_cmp. rewrite !nth_error_map.
  destruct (nth_error sts (N.to_nat sa)) as [sta|] eqn:Ea; [|discriminate].
  destruct (nth_error sts (N.to_nat sb)) as [stb|] eqn:Eb; [|discriminate].
  destruct (if span then span_key sta sa a else event_key sta sa a) as [ka| |] eqn:Ka; try discriminate.
  destruct (if span then span_key stb sb b else event_key stb sb b) as [kb| |] eqn:Kb; try discriminate.
  intros E. injection E as <-. cbn [co_sa co_sb co_a co_b co_span co_eq co_cmp].
  rewrite Ea, Eb. cbn [option_map]. rewrite Ka, Kb. rewrite eqb_reflx. cbn [andb].
  apply (option_eqb_spec cmp_eqb cmp_eqb_spec). reflexivity.
Qed.

Theorem cmp_ok_on_model : forall (sts : list mstorage) (obs : list storage_obs) span sa a sb b c,
  Forall2 (fun st o => reachable st /\ model_storage_obs st = Done o) sts obs ->
  model_cmp sts span sa a sb b = Some c -> cmp_ok obs c = true.
Proof.
  intros sts obs span sa a sb b c HF E.
  apply (cmp_ok_of_corr sts obs c HF). apply (corr_cmp_model_cmp sts span sa a sb b c E).
Qed.

(** * The judge on the model's own observations *)
Theorem judge_c17_on_model : forall (sts : list mstorage) (obs : list storage_obs) (cmps : list cmp_obs),
  Forall2 (fun st o => reachable st /\ payloads_are_positions st /\ model_storage_obs st = Done o) sts obs ->
  forallb (corr_cmp (map Done sts)) cmps = true ->
  judge_c17 obs cmps = Agree.
Proof.
  intros sts obs cmps HF Hc.
  assert (HF' : Forall2 (fun st o => reachable st /\ model_storage_obs st = Done o) sts obs).
  { clear Hc. induction HF as [|st o sts obs (R & _ & HO) HF IH]; constructor; auto. }
  assert (Hm : map model_of obs = map Done sts).
  { clear Hc HF. induction HF' as [|st o sts obs (R & HO) HF IH]; [reflexivity|].
    cbn [map]. rewrite (model_of_on_model st o R HO), IH. reflexivity. }
  assert (H1 : forallb corr_storage obs = true).
  { clear Hc Hm HF. induction HF' as [|st o sts obs (R & HO) HF IH]; [reflexivity|].
    cbn [forallb]. rewrite (corr_storage_on_model st o R HO), IH. reflexivity. }
  assert (H2 : forallb laws_ok obs = true).
  { clear Hc Hm HF' H1. induction HF as [|st o sts obs (R & HP & HO) HF IH]; [reflexivity|].
    cbn [forallb]. rewrite (laws_ok_on_model st o R HP HO), IH. reflexivity. }
  assert (H3 : forallb (cmp_ok obs) cmps = true).
  { apply forallb_forall. intros c Hin. rewrite forallb_forall in Hc.
    apply (cmp_ok_of_corr sts obs c HF' (Hc c Hin)). }
  unfold judge_c17. rewrite Hm, H1, Hc, H2, H3. reflexivity.
Qed.

Corollary judge_c17_on_model_single : forall (st : mstorage) o,
  reachable st -> payloads_are_positions st -> model_storage_obs st = Done o -> judge_c17 [o] [] = Agree.
Proof.
  intros st o R HP HO. apply (judge_c17_on_model [st] [o] []); [|reflexivity].
  constructor; [auto|constructor].
Qed.

(** * The model's observations exist for every reachable storage (so nothing above is vacuous) *)
Lemma model_iter_done resolve it : (forall i, In i it -> resolve i = Done tt) ->
  model_iter resolve it =
  Done (mk_io it (it_len it) (rev it) (expected_mixed (List.length it) true it) 0).
Proof.
  intros Hres. unfold model_iter. rewrite (it_collect_done resolve it Hres). cbn [bind].
  rewrite (it_collect_back_done resolve it Hres). cbn [bind].
  rewrite (mixed_drain_done resolve (List.length it) true it eq_refl Hres). reflexivity.
Qed.

Lemma omap_total {A B} (f : A -> outcome B) : forall l,
  (forall x, In x l -> exists y, f x = Done y) -> exists ys, omap f l = Done ys.
Proof.
  induction l as [|x l IH]; intros H; cbn [omap]; [eauto|].
  destruct (H x (or_introl eq_refl)) as (y & ->). cbn [bind].
  destruct IH as (ys & ->); [intros z Hz; apply H; right; exact Hz|]. cbn [bind]. eauto.
Qed.

Lemma model_span_obs_total (st : mstorage) : reachable st ->
  forall s, is_span st s -> exists so, model_span_obs st s = Done so.
Proof.
  intros R s Hs. pose proof (C17_wf_invariant _ _ st R) as W.
  destruct (get_span_ex st s Hs) as (r & Er). pose proof (proj2 (span_at_done st s r) Er) as Eat.
  destruct (C17_span_queries_total _ _ st R s Hs) as ((par & Epar) & (ch & Ech) & (ev & Eev) & (fo & Efo)
    & (anc & Eanc) & (des & Edes) & (dev & Edev)).
  assert (Ich : children_it st s = Done (sp_child_ids r)) by (unfold children_it; rewrite Eat; reflexivity).
  assert (Iev : events_it st s = Done (sp_event_ids r)) by (unfold events_it; rewrite Eat; reflexivity).
  assert (Ifo : follows_from_it st s = Done (sp_follows_from_ids r))
    by (unfold follows_from_it; rewrite Eat; reflexivity).
  assert (Rch : forall i, In i (sp_child_ids r) -> resolve_span st i = Done tt).
  { apply (C17_span_slices_resolve _ _ st R). left. exists s. left. exact Ich. }
  assert (Rev : forall i, In i (sp_event_ids r) -> resolve_event st i = Done tt).
  { apply (C17_event_slices_resolve _ _ st R). left. exists s. exact Iev. }
  assert (Rfo : forall i, In i (sp_follows_from_ids r) -> resolve_span st i = Done tt).
  { apply (C17_span_slices_resolve _ _ st R). left. exists s. right. exact Ifo. }
  assert (Ech' : ch = sp_child_ids r).
  { unfold children in Ech. rewrite Ich in Ech. cbn [bind] in Ech. apply it_collect_inv in Ech. apply Ech. }
  assert (Eev' : ev = sp_event_ids r).
  { unfold events in Eev. rewrite Iev in Eev. cbn [bind] in Eev. apply it_collect_inv in Eev. apply Eev. }
  assert (Efo' : fo = sp_follows_from_ids r).
  { unfold follows_from in Efo. rewrite Ifo in Efo. cbn [bind] in Efo. apply it_collect_inv in Efo. apply Efo. }
  subst ch ev fo.
  unfold model_span_obs. rewrite Eat. cbn [bind]. rewrite Epar. cbn [bind].
  rewrite Ich, Iev, Ifo. cbn [bind].
  rewrite (model_iter_done _ _ Rch), (model_iter_done _ _ Rev), (model_iter_done _ _ Rfo). cbn [bind].
  rewrite Ech, Eev, Efo, Eanc, Edes, Edev. cbn [bind io_fwd].
  rewrite !(proj2 (listN_eqb_spec _ _) eq_refl). cbn [andb]. eauto.
Qed.

Lemma model_event_obs_total (st : mstorage) : reachable st ->
  forall e, is_event st e -> exists eo, model_event_obs st e = Done eo.
Proof.
  intros R e He. destruct (get_event_ex st e He) as (r & Er).
  destruct (C17_event_queries_total _ _ st R e He) as ((par & Epar) & (anc & Eanc)).
  unfold model_event_obs. rewrite (proj2 (event_at_done st e r) Er). cbn [bind].
  rewrite Epar. cbn [bind]. rewrite Eanc. cbn [bind]. eauto.
Qed.

Theorem model_storage_obs_total : forall st : mstorage,
  reachable st -> exists o, model_storage_obs st = Done o.
Proof.
  intros st R. unfold model_storage_obs. rewrite (all_spans_done st), (all_events_done st). cbn [bind].
  destruct (omap_total (model_span_obs st) (all_spans_it st)) as (spans & ->).
  { intros s Hs. apply in_iota in Hs. apply (model_span_obs_total st R s Hs). }
  destruct (omap_total (model_event_obs st) (all_events_it st)) as (evs & ->).
  { intros e He. apply in_iota in He. apply (model_event_obs_total st R e He). }
  cbn [bind].
  rewrite (model_iter_done resolve_arena (all_spans_it st)) by reflexivity.
  rewrite (model_iter_done (resolve_span st) (root_spans_it st))
    by (apply (C17_span_slices_resolve _ _ st R); right; reflexivity).
  rewrite (model_iter_done resolve_arena (all_events_it st)) by reflexivity.
  rewrite (model_iter_done (resolve_event st) (root_events_it st))
    by (apply (C17_event_slices_resolve _ _ st R); right; reflexivity).
  cbn [bind]. eauto.
Qed.

(** every reachable storage whose payloads are the capture positions has observations, and the
    judge agrees on them *)
Corollary judge_c17_agrees_on_reachable : forall st : mstorage,
  reachable st -> payloads_are_positions st ->
  exists o, model_storage_obs st = Done o /\ judge_c17 [o] [] = Agree.
Proof.
  intros st R HP. destruct (model_storage_obs_total st R) as (o & HO). exists o. split; [exact HO|].
  apply (judge_c17_on_model_single st o R HP HO).
Qed.

(** the forest of [C17_example], recorded with positions as payloads, judged together with a
    second storage and samples of the four kinds of comparison *)
Definition ex_ops1 : list (op N N) :=
  [OpPushSpan 0 None; OpPushEvent 0 None; OpPushSpan 1 (Some 0); OpPushEvent 1 (Some 0);
   OpPushSpan 2 None; OpPushSpan 3 (Some 1); OpPushEvent 2 (Some 3); OpPushSpan 4 (Some 0);
   OpPushSpan 5 (Some 3); OpPushEvent 3 (Some 5); OpPushEvent 4 (Some 1); OpPushEvent 5 None;
   OpFollowsFrom 4 1; OpPushSpan 6 (Some 2); OpPushEvent 6 (Some 6)].
Definition ex_ops2 : list (op N N) := [OpPushSpan 0 None; OpPushSpan 1 (Some 0); OpPushEvent 0 (Some 1)].

Lemma positions_check (st : mstorage) :
  forallb (fun p : N * span_rec N => sp_payload (snd p) =? fst p) (indexed (st_spans st)) = true ->
  forallb (fun p : N * event_rec N => ev_payload (snd p) =? fst p) (indexed (st_events st)) = true ->
  payloads_are_positions st.
Proof.
  intros Hs He. split; intros k r Hk.
  - unfold get_span in Hk. pose proof (forallb_indexed_inv _ _ Hs _ _ Hk) as H. rewrite N2Nat.id in H.
    apply N.eqb_eq in H. exact H.
  - unfold get_event in Hk. pose proof (forallb_indexed_inv _ _ He _ _ Hk) as H. rewrite N2Nat.id in H.
    apply N.eqb_eq in H. exact H.
Qed.

Example judge_c17_on_model_example :
  exists st1 st2 o1 o2 c1 c2 c3 c4,
    run empty_storage ex_ops1 = Done st1 /\ run empty_storage ex_ops2 = Done st2 /\
    reachable st1 /\ reachable st2 /\ payloads_are_positions st1 /\ payloads_are_positions st2 /\
    model_storage_obs st1 = Done o1 /\ model_storage_obs st2 = Done o2 /\
    model_cmp [st1; st2] true 0 1 0 3 = Some c1 /\ model_cmp [st1; st2] true 0 1 1 1 = Some c2 /\
    model_cmp [st1; st2] false 0 6 0 6 = Some c3 /\ model_cmp [st1; st2] false 1 0 0 0 = Some c4 /\
    (co_eq c1, co_cmp c1, co_eq c2, co_cmp c2, co_eq c3, co_cmp c3, co_eq c4, co_cmp c4) =
      (false, Some Lt, false, None, true, Some Eq, false, None) /\
    judge_c17 [o1; o2] [c1; c2; c3; c4] = Agree.
Proof.
  destruct (C17_valid_runs_reach N N ex_ops1 empty_storage reach_empty eq_refl) as (st1 & E1 & R1).
  destruct (C17_valid_runs_reach N N ex_ops2 empty_storage reach_empty eq_refl) as (st2 & E2 & R2).
  assert (P1 : payloads_are_positions st1).
  { vm_compute in E1. injection E1 as <-. apply positions_check; vm_compute; reflexivity. }
  assert (P2 : payloads_are_positions st2).
  { vm_compute in E2. injection E2 as <-. apply positions_check; vm_compute; reflexivity. }
  destruct (model_storage_obs_total st1 R1) as (o1 & O1). destruct (model_storage_obs_total st2 R2) as (o2 & O2).
  assert (HF : Forall2 (fun st o => reachable st /\ payloads_are_positions st /\ model_storage_obs st = Done o)
                       [st1; st2] [o1; o2]) by (constructor; [auto|constructor; [auto|constructor]]).
  destruct (model_cmp [st1; st2] true 0 1 0 3) as [c1|] eqn:C1;
    [|vm_compute in E1, E2; injection E1 as <-; injection E2 as <-; vm_compute in C1; discriminate].
  destruct (model_cmp [st1; st2] true 0 1 1 1) as [c2|] eqn:C2;
    [|vm_compute in E1, E2; injection E1 as <-; injection E2 as <-; vm_compute in C2; discriminate].
  destruct (model_cmp [st1; st2] false 0 6 0 6) as [c3|] eqn:C3;
    [|vm_compute in E1, E2; injection E1 as <-; injection E2 as <-; vm_compute in C3; discriminate].
  destruct (model_cmp [st1; st2] false 1 0 0 0) as [c4|] eqn:C4;
    [|vm_compute in E1, E2; injection E1 as <-; injection E2 as <-; vm_compute in C4; discriminate].
  exists st1, st2, o1, o2, c1, c2, c3, c4. repeat (split; [assumption || reflexivity|]). split.
  - clear HF O1 O2 P1 P2 R1 R2. vm_compute in E1, E2. injection E1 as <-. injection E2 as <-.
    vm_compute in C1, C2, C3, C4. injection C1 as <-. injection C2 as <-. injection C3 as <-. injection C4 as <-.
    reflexivity.
  - apply (judge_c17_on_model [st1; st2] [o1; o2] _ HF). cbn [forallb].
    rewrite (corr_cmp_model_cmp _ _ _ _ _ _ _ C1), (corr_cmp_model_cmp _ _ _ _ _ _ _ C2),
      (corr_cmp_model_cmp _ _ _ _ _ _ _ C3), (corr_cmp_model_cmp _ _ _ _ _ _ _ C4). reflexivity.
Qed.

Print Assumptions laws_ok_on_model_distinct.
Print Assumptions laws_ok_on_model.
Print Assumptions payload_condition_needed.
Print Assumptions laws_ok_replay_valid.
Print Assumptions model_of_on_model.
Print Assumptions corr_storage_on_model.
Print Assumptions cmp_ok_of_corr.
Print Assumptions judge_c17_on_model.
Print Assumptions judge_c17_on_model_single.
Print Assumptions cmp_ok_on_model.
Print Assumptions model_storage_obs_total.
Print Assumptions judge_c17_agrees_on_reachable.
Print Assumptions judge_c17_on_model_example.
