(** Correspondence judge for C17 (evaluated by [vm_compute] on cases written by the harness).

    A case is a list of storages (one or two) observed through the PUBLIC API of
    [tracing-capture] only, plus samples of [==] / [partial_cmp] on pairs of items.  Spans and events
    are named by their position in [all_spans()] / [all_events()].

    [corr]: the model storage is rebuilt by replaying [push_span] / [push_event] / [on_follows_from]
            in capture order from the observed [parent()] of every span and event and the observed
            [follows_from()] lists; every query of the model must then equal the implementation's answer.
    [ok]:   the laws of the property checked directly on the implementation's answers, each query
            cross-checked against the others (no use of the model).
    There is no hypothesis to test on the input (the inputs ARE implementation outputs): that the
    observed parent links can be replayed at all (parents captured before children, ids in range) is
    checked by [ok] (parent index below the child's, all ids in range); if it failed, the replay
    would panic or be invalid and [corr] would fail as well. *)
From TT Require Export Capture.Queries.

(** * Observations *)

(** one [CapturedSpans] / [CapturedEvents] iterator (exact-size, double-ended) *)
Record iter_obs := mk_io {
  io_fwd : list N;            (* collect() *)
  io_len : N;                 (* ExactSizeIterator::len() of the fresh iterator *)
  io_back : list N;           (* rev().collect() *)
  io_mixed : list (N * N);    (* alternately next() / next_back(), starting with next():
                                 (len() just before the take, item taken) *)
  io_end : N }.               (* len() once both ends answer None *)

Record span_obs := mk_so {
  so_i : N;                   (* value of the field [i] recorded at creation *)
  so_parent : option N;       (* parent() *)
  so_children : iter_obs;     (* children() *)
  so_events : iter_obs;       (* events() *)
  so_follows : iter_obs;      (* follows_from() *)
  so_ancestors : list N;      (* ancestors() *)
  so_descendants : list N;    (* descendants() *)
  so_desc_events : list N }.  (* descendant_events() *)

Record event_obs := mk_eo {
  eo_i : N;
  eo_parent : option N;       (* parent() *)
  eo_ancestors : list N }.    (* ancestors() *)

Record storage_obs := mk_sto {
  sto_spans : list span_obs;            (* in all_spans() order *)
  sto_events : list event_obs;          (* in all_events() order *)
  sto_all_spans : iter_obs;             (* all_spans() *)
  sto_root_spans : iter_obs;            (* root_spans() *)
  sto_all_events : iter_obs;            (* all_events() *)
  sto_root_events : iter_obs;           (* root_events() *)
  sto_expect : option (list (option N)) (* parent vector the generator asked for, when it knows it *) }.

(** one sample of [a == b] and [a.partial_cmp(&b)]; [co_sa], [co_sb] = index of the storage in the case *)
Record cmp_obs := mk_co {
  co_span : bool;             (* true: two spans; false: two events *)
  co_sa : N; co_a : N;
  co_sb : N; co_b : N;
  co_eq : bool;
  co_cmp : option comparison }.

(** * Boolean equalities *)
Definition listN_eqb := list_eqb N.eqb.
Definition optN_eqb := option_eqb N.eqb.
Definition pairs_eqb := list_eqb (pair_eqb N.eqb N.eqb).
Definition cmp_eqb (a b : comparison) : bool :=
  match a, b with Eq, Eq | Lt, Lt | Gt, Gt => true | _, _ => false end.

Definition iter_obs_eqb (a b : iter_obs) : bool :=
  listN_eqb (io_fwd a) (io_fwd b) && N.eqb (io_len a) (io_len b) && listN_eqb (io_back a) (io_back b)
  && pairs_eqb (io_mixed a) (io_mixed b) && N.eqb (io_end a) (io_end b).
Definition span_obs_eqb (a b : span_obs) : bool :=
  N.eqb (so_i a) (so_i b) && optN_eqb (so_parent a) (so_parent b)
  && iter_obs_eqb (so_children a) (so_children b) && iter_obs_eqb (so_events a) (so_events b)
  && iter_obs_eqb (so_follows a) (so_follows b) && listN_eqb (so_ancestors a) (so_ancestors b)
  && listN_eqb (so_descendants a) (so_descendants b) && listN_eqb (so_desc_events a) (so_desc_events b).
Definition event_obs_eqb (a b : event_obs) : bool :=
  N.eqb (eo_i a) (eo_i b) && optN_eqb (eo_parent a) (eo_parent b)
  && listN_eqb (eo_ancestors a) (eo_ancestors b).
(** [sto_expect] is an input, not an observation: not compared *)
Definition storage_obs_eqb (a b : storage_obs) : bool :=
  list_eqb span_obs_eqb (sto_spans a) (sto_spans b) && list_eqb event_obs_eqb (sto_events a) (sto_events b)
  && iter_obs_eqb (sto_all_spans a) (sto_all_spans b) && iter_obs_eqb (sto_root_spans a) (sto_root_spans b)
  && iter_obs_eqb (sto_all_events a) (sto_all_events b) && iter_obs_eqb (sto_root_events a) (sto_root_events b).

Lemma cmp_eqb_spec a b : cmp_eqb a b = true <-> a = b.
Proof. destruct a, b; cbn; split; intros H; try discriminate; reflexivity. Qed.
Lemma listN_eqb_spec a b : listN_eqb a b = true <-> a = b.
Proof. apply list_eqb_spec. intros x y. apply N.eqb_eq. Qed.
Lemma optN_eqb_spec a b : optN_eqb a b = true <-> a = b.
Proof. apply option_eqb_spec. intros x y. apply N.eqb_eq. Qed.
Lemma pairs_eqb_spec a b : pairs_eqb a b = true <-> a = b.
Proof. apply list_eqb_spec. apply pair_eqb_spec; intros x y; apply N.eqb_eq. Qed.

Lemma iter_obs_eqb_spec a b : iter_obs_eqb a b = true <-> a = b.
Proof.
  destruct a, b. unfold iter_obs_eqb. cbn.
  rewrite !andb_true_iff, !listN_eqb_spec, pairs_eqb_spec, !N.eqb_eq. split.
  - intros [[[[-> ->] ->] ->] ->]. reflexivity.
  - intros E. injection E as -> -> -> -> ->. repeat split.
Qed.
Lemma span_obs_eqb_spec a b : span_obs_eqb a b = true <-> a = b.
Proof.
  destruct a, b. unfold span_obs_eqb. cbn.
  rewrite !andb_true_iff, !listN_eqb_spec, !iter_obs_eqb_spec, optN_eqb_spec, N.eqb_eq. split.
  - intros [[[[[[[-> ->] ->] ->] ->] ->] ->] ->]. reflexivity.
  - intros E. injection E as -> -> -> -> -> -> -> ->. repeat split.
Qed.
Lemma event_obs_eqb_spec a b : event_obs_eqb a b = true <-> a = b.
Proof.
  destruct a, b. unfold event_obs_eqb. cbn.
  rewrite !andb_true_iff, listN_eqb_spec, optN_eqb_spec, N.eqb_eq. split.
  - intros [[-> ->] ->]. reflexivity.
  - intros E. injection E as -> -> ->. repeat split.
Qed.
(** equal up to the input field [sto_expect] *)
Lemma storage_obs_eqb_spec a b :
  storage_obs_eqb a b = true <->
  sto_spans a = sto_spans b /\ sto_events a = sto_events b /\ sto_all_spans a = sto_all_spans b /\
  sto_root_spans a = sto_root_spans b /\ sto_all_events a = sto_all_events b /\
  sto_root_events a = sto_root_events b.
Proof.
  unfold storage_obs_eqb.
  rewrite !andb_true_iff, !iter_obs_eqb_spec,
    (list_eqb_spec span_obs_eqb span_obs_eqb_spec), (list_eqb_spec event_obs_eqb event_obs_eqb_spec).
  tauto.
Qed.

(** * The model's observations *)
Definition mstorage := storage N N.    (* payload = the recorded field [i] *)

Fixpoint indexed_from {A} (k : N) (l : list A) : list (N * A) :=
  match l with
  | [] => []
  | x :: r => (k, x) :: indexed_from (k + 1) r
  end.
Definition indexed {A} (l : list A) : list (N * A) := indexed_from 0 l.

(** replay in capture order: spans, events, then the follows-from edges of each span in order *)
Definition replay_ops (o : storage_obs) : list (op N N) :=
  map (fun so => OpPushSpan (so_i so) (so_parent so)) (sto_spans o)
  ++ map (fun eo => OpPushEvent (eo_i eo) (eo_parent eo)) (sto_events o)
  ++ flat_map (fun p => map (fun t => OpFollowsFrom (fst p) t) (io_fwd (so_follows (snd p))))
              (indexed (sto_spans o)).

(** alternate [next] / [next_back] on the model iterator, recording [len] before every take *)
Fixpoint mixed_drain (resolve : N -> outcome unit) (fuel : nat) (front : bool) (it : list N)
  : outcome (list (N * N) * N) :=
  match fuel with
  | O => OutOfFuel
  | S f =>
      do x <- (if front then it_next resolve it else it_next_back resolve it);
      match x with
      | None => Done ([], it_len it)
      | Some (i, it') =>
          do r <- mixed_drain resolve f (negb front) it'; Done ((it_len it, i) :: fst r, snd r)
      end
  end.

Definition model_iter (resolve : N -> outcome unit) (it : list N) : outcome iter_obs :=
  do fwd <- it_collect resolve it;
  do back <- it_collect_back resolve it;
  do mixed <- mixed_drain resolve (S (List.length it)) true it;
  Done (mk_io fwd (it_len it) back (fst mixed) (snd mixed)).

Fixpoint omap {A B} (f : A -> outcome B) (l : list A) : outcome (list B) :=
  match l with
  | [] => Done []
  | x :: r => do y <- f x; do ys <- omap f r; Done (y :: ys)
  end.

Definition model_span_obs (st : mstorage) (s : N) : outcome span_obs :=
  do r <- span_at st s;
  do par <- parent st s;
  do ch_it <- children_it st s;
  do ev_it <- events_it st s;
  do fo_it <- follows_from_it st s;
  do ch <- model_iter (resolve_span st) ch_it;
  do ev <- model_iter (resolve_event st) ev_it;
  do fo <- model_iter (resolve_span st) fo_it;
  do ch' <- children st s;        (* the collected queries themselves *)
  do ev' <- events st s;
  do fo' <- follows_from st s;
  do anc <- ancestors st s;
  do des <- descendants st s;
  do dev <- descendant_events st s;
  if listN_eqb ch' (io_fwd ch) && listN_eqb ev' (io_fwd ev) && listN_eqb fo' (io_fwd fo)
  then Done (mk_so (sp_payload r) par ch ev fo anc des dev)
  else Panic.

Definition model_event_obs (st : mstorage) (e : N) : outcome event_obs :=
  do r <- event_at st e;
  do par <- event_parent st e;
  do anc <- event_ancestors st e;
  Done (mk_eo (ev_payload r) par anc).

Definition model_storage_obs (st : mstorage) : outcome storage_obs :=
  do all_s <- all_spans st;
  do all_e <- all_events st;
  do spans <- omap (model_span_obs st) all_s;
  do evs <- omap (model_event_obs st) all_e;
  do i_all_s <- model_iter resolve_arena (all_spans_it st);
  do i_root_s <- model_iter (resolve_span st) (root_spans_it st);
  do i_all_e <- model_iter resolve_arena (all_events_it st);
  do i_root_e <- model_iter (resolve_event st) (root_events_it st);
  Done (mk_sto spans evs i_all_s i_root_s i_all_e i_root_e None).

Definition model_of (o : storage_obs) : outcome mstorage := run empty_storage (replay_ops o).

Definition corr_storage (o : storage_obs) : bool :=
  match (do st <- model_of o; model_storage_obs st) with
  | Done m => storage_obs_eqb m o
  | _ => false
  end.

(** the model's answer for one comparison sample: keys are (index of the storage, stored id) *)
Definition corr_cmp (sts : list (outcome mstorage)) (c : cmp_obs) : bool :=
  match nth_error sts (N.to_nat (co_sa c)), nth_error sts (N.to_nat (co_sb c)) with
  | Some (Done sta), Some (Done stb) =>
      let key st t x := if co_span c then span_key st t x else event_key st t x in
      match key sta (co_sa c) (co_a c), key stb (co_sb c) (co_b c) with
      | Done ka, Done kb =>
          Bool.eqb (key_eq ka kb) (co_eq c) && option_eqb cmp_eqb (key_cmp ka kb) (co_cmp c)
      | _, _ => false
      end
  | _, _ => false
  end.

(** * The property's laws on the implementation's answers *)
Definition memN (x : N) (l : list N) : bool := existsb (N.eqb x) l.
Fixpoint sortedb (l : list N) : bool :=
  match l with
  | a :: (b :: _) as r => (a <? b) && sortedb r
  | _ => true
  end.
Fixpoint nodupb (l : list N) : bool :=
  match l with
  | [] => true
  | a :: r => negb (memN a r) && nodupb r
  end.
Definition below (n : N) (l : list N) : bool := forallb (fun x => x <? n) l.
Definition is_none {A} (x : option A) : bool := match x with None => true | Some _ => false end.
Definition count {A} (l : list A) : N := N.of_nat (List.length l).

(** what alternating takes from both ends of [l] must look like *)
Fixpoint expected_mixed (fuel : nat) (front : bool) (l : list N) : list (N * N) :=
  match fuel with
  | O => []
  | S f =>
      if front then
        match l with
        | [] => []
        | x :: r => (count l, x) :: expected_mixed f false r
        end
      else
        match rev l with
        | [] => []
        | y :: r => (count l, y) :: expected_mixed f true (rev r)
        end
  end.

(** exact length, backwards = reverse of forwards, exact lengths all the way down *)
Definition iter_ok (io : iter_obs) : bool :=
  N.eqb (io_len io) (count (io_fwd io))
  && listN_eqb (io_back io) (rev (io_fwd io))
  && pairs_eqb (io_mixed io) (expected_mixed (List.length (io_fwd io)) true (io_fwd io))
  && N.eqb (io_end io) 0.

Definition anc_of (o : storage_obs) (s : N) : option (list N) :=
  match nth_error (sto_spans o) (N.to_nat s) with Some so => Some (so_ancestors so) | None => None end.

(** [ancestors x = parent x :: ancestors (parent x)] *)
Definition chain_ok (o : storage_obs) (par : option N) (anc : list N) : bool :=
  match par with
  | None => listN_eqb anc []
  | Some p => match anc_of o p with Some ap => listN_eqb anc (p :: ap) | None => false end
  end.

(** every ancestor of [d] that is in [all] has been seen before [d] *)
Fixpoint order_ok (o : storage_obs) (all seen l : list N) : bool :=
  match l with
  | [] => true
  | d :: r =>
      match anc_of o d with
      | Some ad => forallb (fun a => implb (memN a all) (memN a seen)) ad
      | None => false
      end && order_ok o all (d :: seen) r
  end.

Definition laws_ok (o : storage_obs) : bool :=
  let spans := sto_spans o in
  let evs := sto_events o in
  let n := count spans in
  let m := count evs in
  let ispans := indexed spans in
  let ievs := indexed evs in
  let roots := io_fwd (sto_root_spans o) in
  let eroots := io_fwd (sto_root_events o) in
  let events_of s := match nth_error spans (N.to_nat s) with
                     | Some so => io_fwd (so_events so) | None => [] end in
  (* the recorded creation indices identify the spans / events *)
  nodupb (map so_i spans) && nodupb (map eo_i evs)
  (* the parent vector the generator asked for, when it told us *)
  && match sto_expect o with
     | Some ps => list_eqb optN_eqb (map so_parent spans) ps
     | None => true
     end
  (* iterators *)
  && iter_ok (sto_all_spans o) && iter_ok (sto_root_spans o)
  && iter_ok (sto_all_events o) && iter_ok (sto_root_events o)
  && listN_eqb (io_fwd (sto_all_spans o)) (map fst ispans)
  && listN_eqb (io_fwd (sto_all_events o)) (map fst ievs)
  && forallb (fun p => iter_ok (so_children (snd p)) && iter_ok (so_events (snd p))
                       && iter_ok (so_follows (snd p))) ispans
  (* roots: exactly the items without parent, in capture order *)
  && sortedb roots && below n roots
  && forallb (fun p => Bool.eqb (memN (fst p) roots) (is_none (so_parent (snd p)))) ispans
  && sortedb eroots && below m eroots
  && forallb (fun p => Bool.eqb (memN (fst p) eroots) (is_none (eo_parent (snd p)))) ievs
  (* per span *)
  && forallb (fun p =>
       let s := fst p in
       let so := snd p in
       let ch := io_fwd (so_children so) in
       let es := io_fwd (so_events so) in
       let ds := so_descendants so in
       let des := so_desc_events so in
       (* parent before child *)
       match so_parent so with Some q => q <? s | None => true end
       (* children = inverse of parent, in capture order *)
       && sortedb ch && below n ch
       && forallb (fun c => Bool.eqb (memN (fst c) ch) (optN_eqb (so_parent (snd c)) (Some s))) ispans
       (* events = inverse of the events' parent, in capture order *)
       && sortedb es && below m es
       && forallb (fun e => Bool.eqb (memN (fst e) es) (optN_eqb (eo_parent (snd e)) (Some s))) ievs
       (* follows-from targets are spans of this storage *)
       && below n (io_fwd (so_follows so))
       (* ancestors: chain of parents, strictly decreasing, ending at a root *)
       && chain_ok o (so_parent so) (so_ancestors so)
       && sortedb (rev (s :: so_ancestors so))
       && memN (last (so_ancestors so) s) roots
       (* descendants: each once, exactly the spans with s among their ancestors, ancestors first *)
       && nodupb ds && below n ds
       && forallb (fun d => Bool.eqb (memN (fst d) ds) (memN s (so_ancestors (snd d)))) ispans
       && order_ok o ds [] ds
       (* descendant events: each once, exactly the events of the descendants *)
       && nodupb des && below m des
       && forallb (fun e => Bool.eqb (memN (fst e) des)
                                     (match eo_parent (snd e) with Some d => memN d ds | None => false end)) ievs
       && forallb (fun e => Bool.eqb (memN (fst e) des) (existsb (fun d => memN (fst e) (events_of d)) ds)) ievs)
     ispans
  (* per event *)
  && forallb (fun p =>
       match eo_parent (snd p) with Some q => q <? n | None => true end
       && chain_ok o (eo_parent (snd p)) (eo_ancestors (snd p))) ievs.

(** equality is identity, order is capture order; nothing across storages *)
Definition cmp_ok (obs : list storage_obs) (c : cmp_obs) : bool :=
  let size k := match nth_error obs (N.to_nat k) with
                | Some o => Some (if co_span c then count (sto_spans o) else count (sto_events o))
                | None => None end in
  match size (co_sa c), size (co_sb c) with
  | Some na, Some nb =>
      (co_a c <? na) && (co_b c <? nb)
      && if co_sa c =? co_sb c
         then Bool.eqb (co_eq c) (co_a c =? co_b c)
              && option_eqb cmp_eqb (co_cmp c) (Some (co_a c ?= co_b c))
         else negb (co_eq c) && is_none (co_cmp c)
  | _, _ => false
  end.

Definition judge_c17 (obs : list storage_obs) (cmps : list cmp_obs) : verdict :=
  judge_of true
    (forallb corr_storage obs && forallb (corr_cmp (map model_of obs)) cmps)
    (forallb laws_ok obs && forallb (cmp_ok obs) cmps).
