From TT Require Export Judge.RecvOk.
(** quiescent cuts with the local map kept: cut run vs uncut run *)
Definition judge_c02 (steps : list hstep) (impl_cut impl_uncut : list iobs) : verdict :=
  judge_of (hist_scope_b hist_init steps && qcuts_b hist_init steps)
           (corr_history steps impl_cut
            && corr_history_arena (announced [] steps) (map SRecv (events_of steps)) impl_uncut)
           (ok_c02 impl_cut impl_uncut && ok_abstract ah_init steps impl_cut).
(** any cuts: persisted state and acceptance are those of the abstract receiver *)
Definition judge_c02_state (steps : list hstep) (impl : list iobs) : verdict :=
  judge_of (hist_scope_b hist_init steps) (corr_history steps impl) (ok_abstract ah_init steps impl).
